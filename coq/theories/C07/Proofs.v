(** C07 — lemmas about the archive / loader model. *)
From Akita Require Import Lib.Base Lib.KeySort C07.Model.
From Coq Require Import Permutation Sorted.
Local Open Scope N_scope.

(** Regression: the pre-fix port loader panics on a payload whose declared
    capacity equals the rebuilt one but which lists more elements. *)
Definition overflow_cfg : config := mk_config [[109]] [].
Definition overflow_payload : payload :=
  PPort (mk_bufck 1 (Some [mk_elview [109] true 1; mk_elview [109] true 2]))
        (mk_bufck 1 (Some [])).

Lemma port_overflow_old :
  load_entity_old overflow_cfg (EPort 1 [] 1 []) overflow_payload = Panic /\
  load_entity overflow_cfg (EPort 1 [] 1 []) overflow_payload = Err EOverflow.
Proof. split; reflexivity. Qed.

(* ------------------------------------------------------------------ no panic *)

Definition no_panic {A} (o : outcome A) : Prop := o <> Panic.

Lemma decode_msgs_no_panic cfg l : decode_msgs cfg l <> Panic.
Proof.
  induction l as [|v l IH]; cbn [decode_msgs]; [discriminate|].
  destruct (negb (mem_str (lv_tag v) (msg_types cfg))); [discriminate|].
  destruct (negb (lv_ok v)); [discriminate|].
  destruct (decode_msgs cfg l); [discriminate|discriminate|contradiction].
Qed.

Lemma load_buffer_no_panic cfg cap mism bc : load_buffer cfg cap mism bc <> Panic.
Proof.
  unfold load_buffer. destruct (negb (bc_cap bc =? cap)%Z); [discriminate|].
  destruct (bc_elems bc) as [l|]; [|discriminate].
  pose proof (decode_msgs_no_panic cfg l) as H.
  destruct (decode_msgs cfg l) as [ms|e|]; [|discriminate|contradiction].
  destruct (cap <? Z.of_nat (length ms))%Z; discriminate.
Qed.

Lemma decode_evs_no_panic cfg l : decode_evs cfg l <> Panic.
Proof.
  induction l as [|v l IH]; cbn [decode_evs]; [discriminate|].
  destruct (negb (mem_str (vv_tag v) (evt_types cfg))); [discriminate|].
  destruct (vv_dec v) as [[[t s] h]|]; [|discriminate].
  destruct (decode_evs cfg l); [discriminate|discriminate|contradiction].
Qed.

Lemma decode_events_no_panic cfg hs o : decode_events cfg hs o <> Panic.
Proof.
  unfold decode_events. destruct o as [l|]; [|discriminate].
  pose proof (decode_evs_no_panic cfg l) as H.
  destruct (decode_evs cfg l) as [evs|e|]; [|discriminate|contradiction].
  destruct (forallb _ evs); discriminate.
Qed.

Lemma load_storage_no_panic c u words units : load_storage c u words units <> Panic.
Proof.
  unfold load_storage. destruct words as [|c' [|u' rest]]; try discriminate.
  destruct (negb (c' =? c)); [discriminate|]. destruct (negb (u' =? u)); [discriminate|].
  destruct rest as [|n r]; [discriminate|]. destruct (N.of_nat (length units) <? n); discriminate.
Qed.

Lemma load_entity_no_panic cfg e0 p : load_entity cfg e0 p <> Panic.
Proof.
  unfold load_entity, load_entity_with. destruct e0.
  - destruct q1; [|discriminate]. destruct q2; [|discriminate].
    destruct p; try discriminate.
    pose proof (decode_events_no_panic cfg handlers prim) as H1.
    destruct (decode_events cfg handlers prim); [|discriminate|contradiction].
    pose proof (decode_events_no_panic cfg handlers sec) as H2.
    destruct (decode_events cfg handlers sec); [discriminate|discriminate|contradiction].
  - destruct p; try discriminate. destruct (str_eqb kind sequential); discriminate.
  - destruct p; try discriminate. destruct (negb (str_eqb spec_hash spec_hash0)); [discriminate|].
    destruct state0; discriminate.
  - destruct p; try discriminate. destruct (negb (str_eqb spec_hash spec_hash0)); [discriminate|].
    destruct state0; discriminate.
  - destruct p; try discriminate.
    pose proof (load_buffer_no_panic cfg icap ECapIncoming incoming) as H1.
    destruct (load_buffer cfg icap ECapIncoming incoming); [|discriminate|contradiction].
    pose proof (load_buffer_no_panic cfg ocap ECapOutgoing outgoing) as H2.
    destruct (load_buffer cfg ocap ECapOutgoing outgoing); [discriminate|discriminate|contradiction].
  - destruct p; try discriminate. apply load_storage_no_panic.
  - destruct p; try discriminate. destruct (negb (log0 =? log2)); discriminate.
Qed.

Lemma load_entities_no_panic cfg pl s0 : load_entities_with load_buffer cfg pl s0 <> Panic.
Proof.
  induction s0 as [|[n e0] s0 IH]; cbn [load_entities_with]; [discriminate|].
  destruct (lookup n pl) as [p|]; [|discriminate].
  pose proof (load_entity_no_panic cfg e0 p) as H. unfold load_entity in H.
  destruct (load_entity_with load_buffer cfg e0 p); [|discriminate|contradiction].
  destruct (load_entities_with load_buffer cfg pl s0); [discriminate|discriminate|contradiction].
Qed.

Lemma read_loop_no_panic es : forall found build pl, read_loop es found build pl <> Panic.
Proof.
  induction es as [|e es IH]; intros found build pl; cbn [read_loop].
  - destruct (negb found); [discriminate|]. destruct build; discriminate.
  - destruct (te_kind e); try discriminate.
    destruct (str_eqb (te_name e) build_id_path).
    + destruct found; [discriminate|]. destruct (te_data e); [apply IH|discriminate].
    + destruct (entity_name (te_name e)) as [n|]; [|discriminate].
      destruct (mem_key n pl); [discriminate|]. destruct (te_data e); [discriminate|apply IH].
Qed.

Lemma load_all_no_panic cfg build es s0 : load_all cfg build es s0 <> Panic.
Proof.
  unfold load_all, load_all_with. unfold read_archive.
  pose proof (read_loop_no_panic es false [] []) as H.
  destruct (read_loop es false [] []) as [[b pl]|e|]; [|discriminate|contradiction].
  destruct (negb (str_eqb b build)); [discriminate|].
  destruct (existsb _ pl); [discriminate|]. destruct (existsb _ s0); [discriminate|].
  apply load_entities_no_panic.
Qed.

Lemma emit_entries_no_panic seen l : emit_entries seen l <> Panic.
Proof.
  revert seen; induction l as [|[n p] l IH]; intros seen; cbn [emit_entries]; [discriminate|].
  destruct (mem_str n seen); [discriminate|].
  pose proof (IH (n :: seen)) as H.
  destruct (emit_entries (n :: seen) l); [discriminate|discriminate|contradiction].
Qed.

Lemma save_sim_no_panic build s : save_sim build s <> Panic.
Proof.
  unfold save_sim, write_archive. destruct build; [discriminate|].
  pose proof (emit_entries_no_panic [] (sort_name (save_payloads s))) as H.
  destruct (emit_entries [] (sort_name (save_payloads s))); [discriminate|discriminate|contradiction].
Qed.

(* ------------------------------------------------------------------ strings *)

Lemma str_eqb_eq a b : str_eqb a b = true <-> a = b.
Proof. apply listN_eqb_eq. Qed.

Lemma str_eqb_refl a : str_eqb a a = true.
Proof. apply str_eqb_eq. reflexivity. Qed.

Lemma str_eqb_neq a b : a <> b -> str_eqb a b = false.
Proof. intros H. destruct (str_eqb a b) eqn:E; [|reflexivity]. apply str_eqb_eq in E. contradiction. Qed.

Lemma mem_str_In x l : mem_str x l = true <-> In x l.
Proof.
  induction l as [|y l IH]; cbn [mem_str]; [split; [discriminate|intros []]|].
  rewrite orb_true_iff, IH, str_eqb_eq. split; intros [H|H]; [left; symmetry; exact H|right; exact H|left; symmetry; exact H|right; exact H].
Qed.

Lemma lookup_In {A} n (l : list (str * A)) v : lookup n l = Some v -> In (n, v) l.
Proof.
  induction l as [|[k w] l IH]; cbn [lookup]; [discriminate|].
  destruct (str_eqb n k) eqn:E.
  - intros H. inversion H; subst. apply str_eqb_eq in E. subst. left. reflexivity.
  - intros H. right. apply IH. exact H.
Qed.

Lemma mem_key_In {A} n (l : list (str * A)) : mem_key n l = true <-> In n (map fst l).
Proof.
  unfold mem_key. induction l as [|[k w] l IH]; cbn [lookup map fst]; [split; [discriminate|intros []]|].
  destruct (str_eqb n k) eqn:E.
  - apply str_eqb_eq in E. subst. split; [intros _; left; reflexivity|intros _; reflexivity].
  - rewrite IH. split; [intros H; right; exact H|]. intros [H|H]; [|exact H]. subst. rewrite str_eqb_refl in E. discriminate.
Qed.

(* ------------------------------------------------------------------ entity loaders reject mismatches *)

From Akita Require Import C07.Exec.

Lemma decode_msgs_ok cfg l ms :
  decode_msgs cfg l = Ok ms ->
  forallb (fun v => mem_str (lv_tag v) (msg_types cfg)) l = true /\ length ms = length l.
Proof.
  revert ms; induction l as [|v l IH]; intros ms; cbn [decode_msgs].
  - intros H. inversion H. split; reflexivity.
  - destruct (mem_str (lv_tag v) (msg_types cfg)) eqn:E; cbn [negb]; [|discriminate].
    destruct (negb (lv_ok v)); [discriminate|].
    destruct (decode_msgs cfg l) as [t|e|]; try discriminate.
    intros H. inversion H; subst. destruct (IH t eq_refl) as [I1 I2]. split.
    + cbn [forallb]. rewrite E. exact I1.
    + cbn [length]. rewrite I2. reflexivity.
Qed.

Lemma load_buffer_ok cfg cap mism bc ms :
  load_buffer cfg cap mism bc = Ok ms ->
  bc_cap bc = cap /\ ellist_bad cfg (bc_elems bc) = false /\ (Z.of_nat (length ms) <= cap)%Z.
Proof.
  unfold load_buffer. destruct (bc_cap bc =? cap)%Z eqn:Ec; cbn [negb]; [|discriminate].
  apply Z.eqb_eq in Ec. destruct (bc_elems bc) as [l|]; [|discriminate].
  destruct (decode_msgs cfg l) as [t|e|] eqn:Ed; try discriminate.
  destruct (cap <? Z.of_nat (length t))%Z eqn:El; [discriminate|].
  intros H. inversion H; subst. destruct (decode_msgs_ok cfg l ms Ed) as [I1 _].
  split; [reflexivity|]. split; [|lia].
  cbn [ellist_bad]. apply not_true_iff_false. intros Hb.
  apply existsb_exists in Hb. destruct Hb as (v & Hin & Hv).
  rewrite forallb_forall in I1. rewrite (I1 v Hin) in Hv. discriminate.
Qed.

Lemma decode_evs_ok cfg l evs :
  decode_evs cfg l = Ok evs ->
  forallb (fun v => mem_str (vv_tag v) (evt_types cfg)) l = true /\
  map (fun v => option_map (fun d => snd d) (vv_dec v)) l = map (fun e => Some (e_handler e)) evs.
Proof.
  revert evs; induction l as [|v l IH]; intros evs; cbn [decode_evs].
  - intros H. inversion H. split; reflexivity.
  - destruct (mem_str (vv_tag v) (evt_types cfg)) eqn:E; cbn [negb]; [|discriminate].
    destruct (vv_dec v) as [[[t s] h]|] eqn:Edv; [|discriminate].
    destruct (decode_evs cfg l) as [tl|e|]; try discriminate.
    intros H. inversion H; subst. destruct (IH tl eq_refl) as [I1 I2]. split.
    + cbn [forallb]. rewrite E. exact I1.
    + cbn [map]. rewrite Edv. cbn [option_map snd e_handler]. f_equal. exact I2.
Qed.

Lemma decode_events_ok cfg hs o evs :
  decode_events cfg hs o = Ok evs -> evlist_bad cfg hs o = false.
Proof.
  unfold decode_events. destruct o as [l|]; [|discriminate].
  destruct (decode_evs cfg l) as [t|e|] eqn:Ed; try discriminate.
  destruct (forallb (fun e => mem_str (e_handler e) hs) t) eqn:Eh; [|discriminate].
  intros H. inversion H; subst. destruct (decode_evs_ok cfg l evs Ed) as [I1 I2].
  cbn [evlist_bad]. apply not_true_iff_false. intros Hb.
  apply existsb_exists in Hb. destruct Hb as (v & Hin & Hv). unfold evview_bad in Hv.
  rewrite forallb_forall in I1. rewrite (I1 v Hin) in Hv. cbn [negb orb] in Hv.
  destruct (vv_dec v) as [[[t s] h]|] eqn:Edv; [|discriminate].
  assert (Hh : In (Some h) (map (fun e => Some (e_handler e)) evs)).
  { rewrite <- I2. apply in_map_iff. exists v. rewrite Edv. split; [reflexivity|exact Hin]. }
  apply in_map_iff in Hh. destruct Hh as (e & He & Hine). inversion He; subst.
  rewrite forallb_forall in Eh. rewrite (Eh e Hine) in Hv. discriminate.
Qed.

Lemma load_ok_no_mismatch cfg e0 p e' :
  load_entity cfg e0 p = Ok e' -> entity_mismatch_b cfg e0 p = false.
Proof.
  unfold load_entity, load_entity_with. destruct e0.
  - destruct q1; [|discriminate]. destruct q2; [|discriminate].
    destruct p; try discriminate.
    destruct (decode_events cfg handlers prim) as [e1|?|] eqn:E1; try discriminate.
    destruct (decode_events cfg handlers sec) as [e2|?|] eqn:E2; try discriminate.
    intros _. cbn [entity_mismatch_b].
    rewrite (decode_events_ok _ _ _ _ E1), (decode_events_ok _ _ _ _ E2). reflexivity.
  - destruct p; try discriminate. intros _. reflexivity.
  - destruct p; try discriminate. cbn [entity_mismatch_b].
    destruct (negb (str_eqb spec_hash spec_hash0)); [discriminate|reflexivity].
  - destruct p; try discriminate. cbn [entity_mismatch_b].
    destruct (negb (str_eqb spec_hash spec_hash0)); [discriminate|reflexivity].
  - destruct p; try discriminate.
    destruct (load_buffer cfg icap ECapIncoming incoming) as [mi|?|] eqn:E1; try discriminate.
    destruct (load_buffer cfg ocap ECapOutgoing outgoing) as [mo|?|] eqn:E2; try discriminate.
    intros _. cbn [entity_mismatch_b].
    destruct (load_buffer_ok _ _ _ _ _ E1) as (A1 & A2 & _).
    destruct (load_buffer_ok _ _ _ _ _ E2) as (B1 & B2 & _).
    rewrite A1, B1, A2, B2, !Z.eqb_refl. reflexivity.
  - destruct p; try discriminate. unfold load_storage. cbn [entity_mismatch_b].
    destruct words as [|c' [|u' rest]]; try discriminate.
    destruct (negb (c' =? cap)); [discriminate|]. destruct (negb (u' =? unit)); [discriminate|].
    reflexivity.
  - destruct p; try discriminate. cbn [entity_mismatch_b].
    destruct (negb (log0 =? log2)); [discriminate|reflexivity].
Qed.

Lemma entity_mismatch_err cfg e0 p :
  entity_mismatch_b cfg e0 p = true -> exists e, load_entity cfg e0 p = Err e.
Proof.
  intros H. destruct (load_entity cfg e0 p) as [e'|e|] eqn:E.
  - rewrite (load_ok_no_mismatch _ _ _ _ E) in H. discriminate.
  - exists e. reflexivity.
  - exfalso. exact (load_entity_no_panic cfg e0 p E).
Qed.

(* ------------------------------------------------------------------ the per-entity loop *)

Lemma load_entities_ok_inv cfg pl s0 s' :
  load_entities_with load_buffer cfg pl s0 = Ok s' ->
  forall n e0, In (n, e0) s0 ->
    exists p e', lookup n pl = Some p /\ load_entity cfg e0 p = Ok e'.
Proof.
  revert s'; induction s0 as [|[m f0] s0 IH]; intros s' H n e0 Hin; [destruct Hin|].
  cbn [load_entities_with] in H.
  destruct (lookup m pl) as [p|] eqn:El; [|discriminate].
  destruct (load_entity_with load_buffer cfg f0 p) as [f'|?|] eqn:Ef; try discriminate.
  destruct (load_entities_with load_buffer cfg pl s0) as [t|?|] eqn:Et; try discriminate.
  destruct Hin as [Heq|Hin].
  - inversion Heq; subst. exists p, f'. split; [exact El|exact Ef].
  - exact (IH t eq_refl n e0 Hin).
Qed.

Lemma load_all_ok_inv cfg build es s0 s' :
  load_all cfg build es s0 = Ok s' ->
  exists b pl,
    read_archive es = Ok (b, pl) /\ b = build /\
    (forall n, In n (map fst pl) -> In n (map fst s0)) /\
    (forall n, In n (map fst s0) -> In n (map fst pl)) /\
    load_entities_with load_buffer cfg pl s0 = Ok s'.
Proof.
  unfold load_all, load_all_with.
  destruct (read_archive es) as [[b pl]|?|]; try discriminate.
  destruct (str_eqb b build) eqn:Eb; cbn [negb]; [|discriminate].
  destruct (existsb (fun np => negb (mem_key (fst np) s0)) pl) eqn:E1; [discriminate|].
  destruct (existsb (fun ne => negb (mem_key (fst ne) pl)) s0) eqn:E2; [discriminate|].
  intros H. exists b, pl. apply str_eqb_eq in Eb. repeat split; try assumption.
  - intros n Hn. apply in_map_iff in Hn. destruct Hn as ([k v] & <- & Hin).
    apply mem_key_In. cbn [fst]. destruct (mem_key k s0) eqn:Em; [reflexivity|].
    assert (existsb (fun np => negb (mem_key (fst np) s0)) pl = true).
    { apply existsb_exists. exists (k, v). split; [exact Hin|]. cbn [fst]. rewrite Em. reflexivity. }
    congruence.
  - intros n Hn. apply in_map_iff in Hn. destruct Hn as ([k v] & <- & Hin).
    apply mem_key_In. cbn [fst]. destruct (mem_key k pl) eqn:Em; [reflexivity|].
    assert (existsb (fun ne => negb (mem_key (fst ne) pl)) s0 = true).
    { apply existsb_exists. exists (k, v). split; [exact Hin|]. cbn [fst]. rewrite Em. reflexivity. }
    congruence.
Qed.

Lemma not_ok_is_err cfg build es s0 :
  (forall s', load_all cfg build es s0 <> Ok s') -> exists e, load_all cfg build es s0 = Err e.
Proof.
  intros H. destruct (load_all cfg build es s0) as [s'|e|] eqn:E.
  - exfalso. exact (H s' eq_refl).
  - exists e. reflexivity.
  - exfalso. exact (load_all_no_panic cfg build es s0 E).
Qed.

(** any entity whose payload disagrees with its rebuilt configuration makes the load fail *)
Lemma entity_mismatch_rejected cfg build es s0 b pl n e0 p :
  read_archive es = Ok (b, pl) -> In (n, e0) s0 -> lookup n pl = Some p ->
  entity_mismatch_b cfg e0 p = true ->
  exists e, load_all cfg build es s0 = Err e.
Proof.
  intros Hr Hin Hl Hm. apply not_ok_is_err. intros s' Hok.
  destruct (load_all_ok_inv _ _ _ _ _ Hok) as (b' & pl' & Hr' & _ & _ & _ & Hload).
  rewrite Hr in Hr'. inversion Hr'; subst.
  destruct (load_entities_ok_inv _ _ _ _ Hload n e0 Hin) as (p' & e' & Hl' & He).
  rewrite Hl in Hl'. inversion Hl'; subst.
  rewrite (load_ok_no_mismatch _ _ _ _ He) in Hm. discriminate.
Qed.

Lemma build_mismatch_rejected cfg build es s0 b pl :
  read_archive es = Ok (b, pl) -> b <> build -> load_all cfg build es s0 = Err EBuildMismatch.
Proof.
  intros Hr Hne. unfold load_all, load_all_with. rewrite Hr.
  rewrite (str_eqb_neq _ _ Hne). reflexivity.
Qed.

Lemma saved_not_rebuilt_rejected cfg build es s0 pl n :
  read_archive es = Ok (build, pl) -> In n (map fst pl) -> ~ In n (map fst s0) ->
  load_all cfg build es s0 = Err ESavedNotRebuilt.
Proof.
  intros Hr Hin Hnot. unfold load_all, load_all_with. rewrite Hr, str_eqb_refl. cbn [negb].
  replace (existsb (fun np => negb (mem_key (fst np) s0)) pl) with true; [reflexivity|].
  symmetry. apply existsb_exists. apply in_map_iff in Hin. destruct Hin as ([k v] & <- & Hin).
  exists (k, v). split; [exact Hin|]. cbn [fst] in *.
  destruct (mem_key k s0) eqn:E; [|reflexivity]. apply mem_key_In in E. contradiction.
Qed.

Lemma rebuilt_missing_rejected cfg build es s0 pl n :
  read_archive es = Ok (build, pl) -> (forall m, In m (map fst pl) -> In m (map fst s0)) ->
  In n (map fst s0) -> ~ In n (map fst pl) ->
  load_all cfg build es s0 = Err ERebuiltMissing.
Proof.
  intros Hr Hsub Hin Hnot. unfold load_all, load_all_with. rewrite Hr, str_eqb_refl. cbn [negb].
  replace (existsb (fun np => negb (mem_key (fst np) s0)) pl) with false.
  - replace (existsb (fun ne => negb (mem_key (fst ne) pl)) s0) with true; [reflexivity|].
    symmetry. apply existsb_exists. apply in_map_iff in Hin. destruct Hin as ([k v] & <- & Hin).
    exists (k, v). split; [exact Hin|]. cbn [fst] in *.
    destruct (mem_key k pl) eqn:E; [|reflexivity]. apply mem_key_In in E. contradiction.
  - symmetry. apply not_true_iff_false. intros Hb. apply existsb_exists in Hb.
    destruct Hb as ([k v] & Hkin & Hk). cbn [fst] in Hk.
    assert (In k (map fst s0)) by (apply Hsub; apply in_map_iff; exists (k, v); auto).
    apply mem_key_In in H. rewrite H in Hk. discriminate.
Qed.

(* ------------------------------------------------------------------ what the reader accepts *)

Definition entry_fine (e : tar_entry) : Prop :=
  te_kind e = KReg /\
  ((te_name e = build_id_path /\ exists b, te_data e = DBytes b) \/
   (te_name e <> build_id_path /\
    exists n p, entity_name (te_name e) = Some n /\ te_data e = DPayload p)).

Fixpoint ent_list (es : list tar_entry) : list (str * payload) :=
  match es with
  | [] => []
  | e :: r =>
      if str_eqb (te_name e) build_id_path then ent_list r
      else match entity_name (te_name e), te_data e with
           | Some n, DPayload p => (n, p) :: ent_list r
           | _, _ => ent_list r
           end
  end.

Lemma NoDup_app_single {A} (l : list A) x : NoDup l -> ~ In x l -> NoDup (l ++ [x]).
Proof.
  induction l as [|y l IH]; cbn [app]; intros Hnd Hx; [constructor; [intros []|constructor]|].
  inversion Hnd as [|? ? Hy Hl]; subst. constructor.
  - intros Hin. apply in_app_or in Hin. destruct Hin as [Hin|[->|[]]]; [contradiction|].
    apply Hx. left. reflexivity.
  - apply IH; [exact Hl|]. intros Hin. apply Hx. right. exact Hin.
Qed.

Lemma read_loop_ok es :
  forall found build pl b pl',
    read_loop es found build pl = Ok (b, pl') ->
    Forall entry_fine es /\ pl' = pl ++ ent_list es /\ b <> [] /\
    (if found then build_entries es = [] /\ b = build
     else exists e, build_entries es = [e] /\ te_data e = DBytes b) /\
    (NoDup (map fst pl) -> NoDup (map fst pl')).
Proof.
  induction es as [|e es IH]; intros found build pl b pl' H; cbn [read_loop] in H.
  - destruct found; cbn [negb] in H; [|discriminate].
    destruct build as [|c r]; [discriminate|]. inversion H; subst.
    repeat split; [constructor|rewrite app_nil_r; reflexivity|discriminate|auto].
  - destruct (te_kind e) eqn:Ek; try discriminate.
    cbn [build_entries filter ent_list].
    destruct (str_eqb (te_name e) build_id_path) eqn:En.
    + destruct found; [discriminate|]. destruct (te_data e) as [d|] eqn:Ed; [|discriminate].
      destruct (IH true d pl b pl' H) as (F & P & Nb & [Bn Bb] & Nd). subst b.
      apply str_eqb_eq in En.
      repeat split; try assumption.
      * constructor; [|exact F]. split; [exact Ek|]. left. split; [exact En|]. exists d. exact Ed.
      * exists e. fold (build_entries es). rewrite Bn. split; [reflexivity|exact Ed].
    + destruct (entity_name (te_name e)) as [n|] eqn:Een; [|discriminate].
      destruct (mem_key n pl) eqn:Em; [discriminate|].
      destruct (te_data e) as [|p] eqn:Ed; [discriminate|].
      destruct (IH found build (pl ++ [(n, p)]) b pl' H) as (F & P & Nb & B & Nd).
      assert (Hne : te_name e <> build_id_path).
      { intros E. rewrite E, str_eqb_refl in En. discriminate. }
      repeat split; try assumption.
      * constructor; [|exact F]. split; [exact Ek|]. right. split; [exact Hne|].
        exists n, p. split; [exact Een|exact Ed].
      * rewrite P, <- app_assoc. reflexivity.
      * intros Hnd. apply Nd. rewrite map_app. cbn [map fst].
        apply NoDup_app_single; [exact Hnd|].
        intros Hin. apply mem_key_In in Hin. congruence.
Qed.

Lemma read_archive_ok es b pl :
  read_archive es = Ok (b, pl) ->
  Forall entry_fine es /\ pl = ent_list es /\ b <> [] /\
  (exists e, build_entries es = [e] /\ te_data e = DBytes b) /\ NoDup (map fst pl).
Proof.
  intros H. destruct (read_loop_ok es false [] [] b pl H) as (F & P & Nb & B & Nd).
  repeat split; try assumption. apply Nd. constructor.
Qed.

Lemma read_archive_not_ok_err es :
  (forall b pl, read_archive es <> Ok (b, pl)) -> exists e, read_archive es = Err e.
Proof.
  intros H. destruct (read_archive es) as [[b pl]|e|] eqn:E.
  - exfalso. exact (H b pl eq_refl).
  - exists e. reflexivity.
  - exfalso. exact (read_loop_no_panic es false [] [] E).
Qed.

(** every way an archive can be malformed at the entry level is rejected by the reader *)
Lemma malformed_archive_rejected es :
  (exists e, In e es /\ ~ entry_fine e) \/
  length (build_entries es) <> 1%nat \/
  (exists e, build_entries es = [e] /\ te_data e = DBytes []) \/
  ~ NoDup (map fst (ent_list es)) ->
  exists e, read_archive es = Err e.
Proof.
  intros Hbad. apply read_archive_not_ok_err. intros b pl Hok.
  destruct (read_archive_ok es b pl Hok) as (F & P & Nb & (e & Be & Bd) & Nd).
  destruct Hbad as [(x & Hin & Hx)|[Hl|[(x & Bx & Dx)|Hd]]].
  - rewrite Forall_forall in F. exact (Hx (F x Hin)).
  - rewrite Be in Hl. apply Hl. reflexivity.
  - rewrite Be in Bx. inversion Bx; subst. rewrite Bd in Dx. inversion Dx; subst. apply Nb. reflexivity.
  - subst pl. exact (Hd Nd).
Qed.

Lemma load_all_read_err cfg build es s0 e :
  read_archive es = Err e -> load_all cfg build es s0 = Err e.
Proof. intros H. unfold load_all, load_all_with. rewrite H. reflexivity. Qed.

(* ------------------------------------------------------------------ write then read *)

Definition bytes_ok (s : str) : Prop := Forall (fun c => c < 256) s.

Lemma keep_not_percent c : keep_byte c = true -> (c =? 37) = false.
Proof. unfold keep_byte. lia. Qed.

Lemma unhex_hexd x : x < 16 -> unhex (hexd x) = Some x.
Proof.
  intros H. unfold hexd, unhex. destruct (x <? 10) eqn:E.
  - replace ((48 <=? 48 + x) && (48 + x <=? 57)) with true by lia. f_equal. lia.
  - replace ((48 <=? 55 + x) && (55 + x <=? 57)) with false by lia.
    replace ((97 <=? 55 + x) && (55 + x <=? 102)) with false by lia.
    replace ((65 <=? 55 + x) && (55 + x <=? 70)) with true by lia. f_equal. lia.
Qed.

Lemma unescape_escape s : bytes_ok s -> path_unescape (path_escape s) = Some s.
Proof.
  induction 1 as [|c s Hc Hs IH]; [reflexivity|].
  unfold path_escape in *. cbn [flat_map]. unfold esc_byte at 1.
  destruct (keep_byte c) eqn:Ek.
  - cbn [app path_unescape]. rewrite (keep_not_percent c Ek). rewrite IH. reflexivity.
  - cbn [app path_unescape]. change (37 =? 37) with true. cbv iota.
    rewrite !unhex_hexd by (try apply N.mod_lt; lia). rewrite IH. f_equal. f_equal. lia.
Qed.

Lemma strip_prefix_app p s : strip_prefix p (p ++ s) = Some s.
Proof.
  induction p as [|x p IH]; [destruct s; reflexivity|].
  cbn [app strip_prefix]. rewrite N.eqb_refl. exact IH.
Qed.

Lemma entity_name_path n : bytes_ok n -> entity_name (entity_path n) = Some n.
Proof.
  intros H. unfold entity_name, entity_path. rewrite strip_prefix_app. apply unescape_escape. exact H.
Qed.

Lemma entity_path_not_build n : str_eqb (entity_path n) build_id_path = false.
Proof. reflexivity. Qed.

Definition mk_entry (np : str * payload) : tar_entry :=
  mk_te KReg (entity_path (fst np)) (DPayload (snd np)).

Lemma emit_entries_ok seen l t :
  emit_entries seen l = Ok t ->
  t = map mk_entry l /\ NoDup (map fst l) /\ (forall n, In n (map fst l) -> ~ In n seen).
Proof.
  revert seen t; induction l as [|[n p] l IH]; intros seen t H; cbn [emit_entries] in H.
  - inversion H. repeat split; [constructor|intros n []].
  - destruct (mem_str n seen) eqn:Em; [discriminate|].
    destruct (emit_entries (n :: seen) l) as [t'|?|] eqn:Et; try discriminate.
    inversion H; subst. destruct (IH _ _ Et) as (I1 & I2 & I3). subst t'.
    split; [reflexivity|]. split.
    + cbn [map fst]. constructor; [|exact I2]. intros Hin. apply (I3 n Hin). left. reflexivity.
    + intros m [<-|Hm].
      * intros Hs. apply mem_str_In in Hs. cbn [fst] in Hs. congruence.
      * intros Hs. apply (I3 m Hm). right. exact Hs.
Qed.

Lemma emit_entries_nodup seen l :
  NoDup (map fst l) -> (forall n, In n (map fst l) -> ~ In n seen) ->
  emit_entries seen l = Ok (map mk_entry l).
Proof.
  revert seen; induction l as [|[n p] l IH]; intros seen Hnd Hs; [reflexivity|].
  cbn [emit_entries]. cbn [map fst] in Hnd. inversion Hnd as [|? ? Hn Hl]; subst.
  replace (mem_str n seen) with false.
  - rewrite IH; [reflexivity|exact Hl|].
    intros m Hm [<-|Hin]; [contradiction|]. apply (Hs m); [right; exact Hm|exact Hin].
  - symmetry. apply not_true_iff_false. intros Hm. apply mem_str_In in Hm.
    apply (Hs n); [left; reflexivity|exact Hm].
Qed.

Lemma read_loop_entries l :
  Forall (fun np => bytes_ok (fst np)) l -> NoDup (map fst l) ->
  forall b pl, b <> [] -> (forall n, In n (map fst l) -> ~ In n (map fst pl)) ->
    read_loop (map mk_entry l) true b pl = Ok (b, pl ++ l).
Proof.
  induction l as [|[n p] l IH]; intros Hb Hnd b pl Hne Hdis.
  - cbn. destruct b; [contradiction|]. rewrite app_nil_r. reflexivity.
  - inversion Hb as [|? ? Hbn Hbl]; subst. cbn [fst] in Hbn.
    cbn [map fst] in Hnd. inversion Hnd as [|? ? Hn Hl]; subst.
    cbn [map read_loop mk_entry te_kind te_name te_data fst snd].
    rewrite entity_path_not_build, (entity_name_path n Hbn).
    replace (mem_key n pl) with false.
    + rewrite (IH Hbl Hl b (pl ++ [(n, p)]) Hne); [rewrite <- app_assoc; reflexivity|].
      intros m Hm Hin. rewrite map_app in Hin. apply in_app_or in Hin. destruct Hin as [Hin|[<-|[]]].
      * apply (Hdis m); [right; exact Hm|exact Hin].
      * contradiction.
    + symmetry. apply not_true_iff_false. intros Hm. apply mem_key_In in Hm.
      apply (Hdis n); [left; reflexivity|exact Hm].
Qed.

(** reading back what the writer wrote gives the build id and the name-sorted payloads *)
Lemma read_write b entries es :
  Forall (fun np => bytes_ok (fst np)) entries ->
  write_archive b entries = Ok es ->
  read_archive es = Ok (b, sort_name entries) /\
  es = mk_te KReg build_id_path (DBytes b) :: map mk_entry (sort_name entries) /\
  NoDup (map fst entries) /\ b <> [].
Proof.
  intros Hb H. unfold write_archive in H. destruct b as [|c r] eqn:Eb; [discriminate|]. rewrite <- Eb in *.
  destruct (emit_entries [] (sort_name entries)) as [t|?|] eqn:Et; try discriminate.
  inversion H; subst es. destruct (emit_entries_ok _ _ _ Et) as (I1 & I2 & _). subst t.
  assert (Hne : b <> []) by (rewrite Eb; discriminate).
  assert (Hperm : Permutation (sort_name entries) entries) by apply ks_sort_perm.
  repeat split; try assumption.
  - unfold read_archive. cbn [read_loop te_kind te_name te_data].
    change (str_eqb build_id_path build_id_path) with true. cbv iota.
    rewrite read_loop_entries; [reflexivity| |exact I2|exact Hne|intros n _ []].
    rewrite Forall_forall in *. intros x Hx. apply Hb. eapply Permutation_in; [exact Hperm|exact Hx].
  - eapply Permutation_NoDup; [|exact I2]. apply Permutation_map. exact Hperm.
Qed.

(* ------------------------------------------------------------------ entity level: load (save e) is canonical *)

(** representation invariant of an entity: Go maps have distinct keys *)
Definition inv_entity (e : entity) : Prop :=
  match e with
  | EStorage _ _ units => NoDup (map fst units)
  | EPageTable _ tables => NoDup (map fst tables)
  | _ => True
  end.

Lemma decode_msgs_views cfg l ms : decode_msgs cfg (map elview_of l) = Ok ms -> ms = l.
Proof.
  revert ms; induction l as [|m l IH]; intros ms H; cbn [map decode_msgs] in H.
  - inversion H. reflexivity.
  - destruct (negb (mem_str (lv_tag (elview_of m)) (msg_types cfg))); [discriminate|].
    cbn [elview_of lv_ok negb] in H.
    destruct (decode_msgs cfg (map elview_of l)) as [t|?|]; try discriminate.
    inversion H; subst. rewrite (IH t eq_refl). destruct m; reflexivity.
Qed.

Lemma decode_evs_views cfg l evs : decode_evs cfg (map evview_of l) = Ok evs -> evs = l.
Proof.
  revert evs; induction l as [|e l IH]; intros evs H; cbn [map decode_evs] in H.
  - inversion H. reflexivity.
  - destruct (negb (mem_str (vv_tag (evview_of e)) (evt_types cfg))); [discriminate|].
    cbn [evview_of vv_dec] in H.
    destruct (decode_evs cfg (map evview_of l)) as [t|?|]; try discriminate.
    inversion H; subst. rewrite (IH t eq_refl). destruct e; reflexivity.
Qed.

Lemma decode_events_views cfg hs l evs :
  decode_events cfg hs (Some (map evview_of l)) = Ok evs -> evs = l.
Proof.
  unfold decode_events. destruct (decode_evs cfg (map evview_of l)) as [t|?|] eqn:E; try discriminate.
  destruct (forallb _ t); [|discriminate]. intros H. inversion H; subst.
  exact (decode_evs_views cfg l evs E).
Qed.

Lemma load_buffer_views cfg cap mism c ms l :
  load_buffer cfg cap mism (save_buffer c l) = Ok ms -> ms = l /\ c = cap.
Proof.
  unfold load_buffer, save_buffer. cbn [bc_cap bc_elems].
  destruct (c =? cap)%Z eqn:Ec; cbn [negb]; [|discriminate]. apply Z.eqb_eq in Ec.
  destruct (decode_msgs cfg (map elview_of l)) as [t|?|] eqn:E; try discriminate.
  destruct (cap <? Z.of_nat (length t))%Z; [discriminate|].
  intros H. inversion H; subst. split; [exact (decode_msgs_views cfg l ms E)|reflexivity].
Qed.

(** sorting by time a list that is already a time-sorted snapshot changes nothing *)
Lemma keyed_map_snd {A} (key : A -> N) (l : list (N * A)) :
  Forall (fun p => fst p = key (snd p)) l -> map (fun e => (key e, e)) (map snd l) = l.
Proof.
  induction 1 as [|[k a] l Hp Hl IH]; [reflexivity|].
  cbn [map snd]. cbn [fst snd] in Hp. rewrite IH, <- Hp. reflexivity.
Qed.

Lemma nsort_idem {A} (l : list (N * A)) : ks_sort N.ltb (ks_sort N.ltb l) = ks_sort N.ltb l.
Proof. apply ks_sort_idem; [apply N.ltb_irrefl|apply N_ltb_trans]. Qed.

Lemma sort_time_idem q : sort_time (sort_time q) = sort_time q.
Proof.
  unfold sort_time. rewrite (keyed_map_snd e_time).
  - rewrite nsort_idem. reflexivity.
  - apply Forall_forall. intros p Hp. apply ks_sort_in in Hp.
    apply in_map_iff in Hp. destruct Hp as (e & <- & _). reflexivity.
Qed.

Lemma map_put_fresh {A} k (v : A) m : ~ In k (map fst m) -> map_put k v m = m ++ [(k, v)].
Proof.
  induction m as [|[k' v'] m IH]; intros H; [reflexivity|].
  cbn [map_put app]. destruct (k =? k') eqn:E.
  - apply N.eqb_eq in E. subst. exfalso. apply H. left. reflexivity.
  - rewrite IH; [reflexivity|]. intros Hin. apply H. right. exact Hin.
Qed.

Lemma map_of_list_nodup_acc {A} (l acc : list (N * A)) :
  NoDup (map fst (acc ++ l)) ->
  fold_left (fun m kv => map_put (fst kv) (snd kv) m) l acc = acc ++ l.
Proof.
  revert acc; induction l as [|[k v] l IH]; intros acc H; [rewrite app_nil_r; reflexivity|].
  cbn [fold_left fst snd]. rewrite map_put_fresh.
  - rewrite IH; rewrite <- app_assoc; [reflexivity|exact H].
  - rewrite map_app in H. cbn [map fst] in H. intros Hin.
    apply NoDup_remove_2 in H. apply H. apply in_or_app. left. exact Hin.
Qed.

Lemma map_of_list_nodup {A} (l : list (N * A)) : NoDup (map fst l) -> map_of_list l = l.
Proof. intros H. unfold map_of_list. rewrite map_of_list_nodup_acc; [reflexivity|exact H]. Qed.

Lemma nsort_nodup {A} (l : list (N * A)) : NoDup (map fst l) -> NoDup (map fst (ks_sort N.ltb l)).
Proof. apply ks_sort_keys_nodup. Qed.

Lemma entity_canonical cfg e e0 e' :
  inv_entity e -> load_entity cfg e0 (save_entity e) = Ok e' ->
  save_entity e' = save_entity e /\ inv_entity e'.
Proof.
  intros Hinv H. unfold load_entity, load_entity_with in H.
  destruct e0 as [t0 p0 s0 handlers|n0|spec_hash st0 ht0 nt0 hh0 lh0|spec_hash st0 pw0|icap ie0 ocap oe0|cap unit un0|log2 tb0];
  destruct e as [t q3 q4 hs|n|spec_hash0 st ht nt hh lh|spec_hash0 st pw|icap0 ielems0 ocap0 oelems0|cap0 unit0 units0|log0 tables0];
    cbn [save_entity] in H; try discriminate H;
    try (destruct p0; [|discriminate H]; destruct s0; discriminate H).
  - (* engine *)
    destruct p0; [|discriminate]. destruct s0; [|discriminate].
    destruct (decode_events cfg handlers (Some (map evview_of (sort_time q3)))) as [e1|?|] eqn:E1; try discriminate.
    destruct (decode_events cfg handlers (Some (map evview_of (sort_time q4)))) as [e2|?|] eqn:E2; try discriminate.
    inversion H; subst. apply decode_events_views in E1. apply decode_events_views in E2. subst.
    cbn [save_entity inv_entity]. rewrite !sort_time_idem. split; [reflexivity|exact I].
  - (* id generator *)
    change (str_eqb sequential sequential) with true in H. inversion H; subst. split; [reflexivity|exact I].
  - (* component *)
    destruct (str_eqb spec_hash spec_hash0) eqn:Eh; cbn [negb] in H; [|discriminate].
    apply str_eqb_eq in Eh. inversion H; subst. split; [reflexivity|exact I].
  - (* event-driven component *)
    destruct (str_eqb spec_hash spec_hash0) eqn:Eh; cbn [negb] in H; [|discriminate].
    apply str_eqb_eq in Eh. inversion H; subst. split; [reflexivity|exact I].
  - (* port *)
    destruct (load_buffer cfg icap ECapIncoming (save_buffer icap0 ielems0)) as [mi|?|] eqn:E1; try discriminate.
    destruct (load_buffer cfg ocap ECapOutgoing (save_buffer ocap0 oelems0)) as [mo|?|] eqn:E2; try discriminate.
    inversion H; subst. destruct (load_buffer_views _ _ _ _ _ _ E1) as [-> ->].
    destruct (load_buffer_views _ _ _ _ _ _ E2) as [-> ->]. split; [reflexivity|exact I].
  - (* storage *)
    cbn [inv_entity] in Hinv. unfold load_storage in H.
    destruct (cap0 =? cap) eqn:Ec; cbn [negb] in H; [|discriminate].
    destruct (unit0 =? unit) eqn:Eu; cbn [negb] in H; [|discriminate].
    apply N.eqb_eq in Ec. apply N.eqb_eq in Eu. subst.
    rewrite ks_sort_length in H. rewrite N.ltb_irrefl in H. inversion H; subst.
    assert (Hf : firstn (length units0) (ks_sort N.ltb units0) = ks_sort N.ltb units0).
    { rewrite <- (ks_sort_length N.ltb units0). apply firstn_all. }
    rewrite Nat2N.id, Hf.
    pose proof (nsort_nodup units0 Hinv) as Hs.
    rewrite (map_of_list_nodup _ Hs). cbn [save_entity inv_entity].
    rewrite nsort_idem, ks_sort_length. split; [reflexivity|exact Hs].
  - (* page table *)
    cbn [inv_entity] in Hinv.
    destruct (log0 =? log2) eqn:El; cbn [negb] in H; [|discriminate].
    apply N.eqb_eq in El. subst. inversion H; subst.
    pose proof (nsort_nodup tables0 Hinv) as Hs.
    rewrite (map_of_list_nodup _ Hs). cbn [save_entity inv_entity].
    rewrite nsort_idem. split; [reflexivity|exact Hs].
Qed.

(* ------------------------------------------------------------------ simulation level: canonical archives *)

Definition inv_sim (s : sim) : Prop := Forall (fun ne => inv_entity (snd ne)) s.
Definition names_ok (s : sim) : Prop := Forall (fun ne => bytes_ok (fst ne)) s.

Lemma save_payloads_names s : map fst (save_payloads s) = map fst s.
Proof. unfold save_payloads. rewrite map_map. reflexivity. Qed.

Lemma NoDup_keys_pairs {A B} (l : list (A * B)) : NoDup (map fst l) -> NoDup l.
Proof.
  induction l as [|[k v] l IH]; cbn [map fst]; intros H; [constructor|].
  inversion H as [|? ? Hk Hl]; subst. constructor; [|exact (IH Hl)].
  intros Hin. apply Hk. apply in_map_iff. exists (k, v). split; [reflexivity|exact Hin].
Qed.

Lemma NoDup_keys_functional {A B} (l : list (A * B)) k v v' :
  NoDup (map fst l) -> In (k, v) l -> In (k, v') l -> v = v'.
Proof.
  induction l as [|[k0 v0] l IH]; cbn [map fst]; intros Hnd H1 H2; [destruct H1|].
  inversion Hnd as [|? ? Hk Hl]; subst.
  destruct H1 as [E1|H1]; destruct H2 as [E2|H2].
  - inversion E1; inversion E2; subst. reflexivity.
  - inversion E1; subst. exfalso. apply Hk. apply in_map_iff. exists (k, v'). split; [reflexivity|exact H2].
  - inversion E2; subst. exfalso. apply Hk. apply in_map_iff. exists (k, v). split; [reflexivity|exact H1].
  - exact (IH Hl H1 H2).
Qed.

Lemma load_entities_shape cfg pl s0 s' :
  load_entities_with load_buffer cfg pl s0 = Ok s' ->
  map fst s' = map fst s0 /\
  forall n e', In (n, e') s' ->
    exists e0 p, In (n, e0) s0 /\ lookup n pl = Some p /\ load_entity cfg e0 p = Ok e'.
Proof.
  revert s'; induction s0 as [|[m f0] s0 IH]; intros s' H; cbn [load_entities_with] in H.
  - inversion H. split; [reflexivity|intros n e' []].
  - destruct (lookup m pl) as [p|] eqn:El; [|discriminate].
    destruct (load_entity_with load_buffer cfg f0 p) as [f'|?|] eqn:Ef; try discriminate.
    destruct (load_entities_with load_buffer cfg pl s0) as [t|?|] eqn:Et; try discriminate.
    inversion H; subst. destruct (IH t eq_refl) as [I1 I2]. split.
    + cbn [map fst]. rewrite I1. reflexivity.
    + intros n e' [E|Hin].
      * inversion E; subst. exists f0, p. split; [left; reflexivity|]. split; [exact El|exact Ef].
      * destruct (I2 n e' Hin) as (e0 & q & A & B & C). exists e0, q. split; [right; exact A|]. split; assumption.
Qed.

Lemma str_sort_idem {A} (l : list (str * A)) : sort_name (sort_name l) = sort_name l.
Proof. apply ks_sort_idem; [apply str_ltb_irrefl|apply str_ltb_trans]. Qed.

Lemma canonical cfg b s s0 a s' :
  names_ok s -> inv_sim s -> NoDup (map fst s0) ->
  save_sim b s = Ok a -> load_all cfg b a s0 = Ok s' ->
  save_sim b s' = Ok a /\ inv_sim s'.
Proof.
  intros Hnames Hinv Hnd0 Hsave Hload. unfold save_sim in Hsave.
  assert (Hbn : Forall (fun np : str * payload => bytes_ok (fst np)) (save_payloads s)).
  { unfold names_ok in Hnames. unfold save_payloads. rewrite Forall_map. exact Hnames. }
  destruct (read_write b (save_payloads s) a Hbn Hsave) as (Hread & Ha & Hnds & Hb).
  set (PL := sort_name (save_payloads s)) in *.
  assert (HpermPL : Permutation PL (save_payloads s)) by apply ks_sort_perm.
  assert (HndPL : NoDup (map fst PL)).
  { eapply Permutation_NoDup; [|exact Hnds]. apply Permutation_map, Permutation_sym. exact HpermPL. }
  destruct (load_all_ok_inv _ _ _ _ _ Hload) as (b' & pl & Hr & _ & Hcov1 & Hcov2 & Hents).
  rewrite Hread in Hr. inversion Hr; subst b' pl. clear Hr.
  destruct (load_entities_shape _ _ _ _ Hents) as [Hn' Hshape].
  (* every reloaded entity saves to exactly the payload it was loaded from *)
  assert (Hcanon : forall n e', In (n, e') s' -> In (n, save_entity e') PL /\ inv_entity e').
  { intros n e' Hin. destruct (Hshape n e' Hin) as (e0 & p & _ & Hl & He).
    apply lookup_In in Hl.
    assert (Hps : In (n, p) (save_payloads s)) by (eapply Permutation_in; [exact HpermPL|exact Hl]).
    unfold save_payloads in Hps. apply in_map_iff in Hps. destruct Hps as ([m e] & E & Hes).
    cbn [fst snd] in E. inversion E; subst m p.
    assert (Hie : inv_entity e).
    { unfold inv_sim in Hinv. rewrite Forall_forall in Hinv. exact (Hinv (n, e) Hes). }
    destruct (entity_canonical cfg e e0 e' Hie He) as [Hsv Hi']. rewrite Hsv. split; [exact Hl|exact Hi']. }
  assert (HndX : NoDup (map fst (save_payloads s'))).
  { rewrite save_payloads_names, Hn'. exact Hnd0. }
  assert (Hperm : Permutation (save_payloads s') PL).
  { apply NoDup_Permutation; [apply NoDup_keys_pairs; exact HndX|apply NoDup_keys_pairs; exact HndPL|].
    intros [n p]. split.
    - intros Hin. unfold save_payloads in Hin. apply in_map_iff in Hin. destruct Hin as ([m e'] & E & Hes).
      cbn [fst snd] in E. inversion E; subst. exact (proj1 (Hcanon _ _ Hes)).
    - intros Hin.
      assert (Hn : In n (map fst s')).
      { rewrite Hn'. apply Hcov1. apply in_map_iff. exists (n, p). split; [reflexivity|exact Hin]. }
      apply in_map_iff in Hn. destruct Hn as ([m e'] & E & Hes). cbn [fst] in E. subst m.
      destruct (Hcanon _ _ Hes) as [Hc _].
      rewrite (NoDup_keys_functional PL n p (save_entity e') HndPL Hin Hc).
      unfold save_payloads. apply in_map_iff. exists (n, e'). split; [reflexivity|exact Hes]. }
  split.
  - unfold save_sim, write_archive. destruct b as [|c r]; [contradiction|].
    assert (Hsort : sort_name (save_payloads s') = PL).
    { unfold sort_name at 1.
      rewrite (ks_sort_perm_unique str_ltb str_ltb_irrefl str_ltb_trans str_ltb_tri
                 (save_payloads s') PL HndX Hperm).
      subst PL. apply str_sort_idem. }
    unfold sort_name in Hsort |- *. rewrite Hsort.
    rewrite emit_entries_nodup; [rewrite Ha; reflexivity|exact HndPL|intros n _ []].
  - unfold inv_sim. apply Forall_forall. intros [n e'] Hin. exact (proj2 (Hcanon n e' Hin)).
Qed.

(* ------------------------------------------------------------------ exact errors of the shape checks *)

Lemma spec_mismatch cfg h st ht nt hh lh h' st' ht' nt' hh' lh' :
  h <> h' -> load_entity cfg (EComp h st ht nt hh lh) (PComp h' st' ht' nt' hh' lh') = Err ESpecHash.
Proof. intros H. cbn. rewrite (str_eqb_neq _ _ H). reflexivity. Qed.

Lemma evspec_mismatch cfg h st pw h' st' pw' :
  h <> h' -> load_entity cfg (EEvComp h st pw) (PEvComp h' st' pw') = Err ESpecHash.
Proof. intros H. cbn. rewrite (str_eqb_neq _ _ H). reflexivity. Qed.

Lemma port_incoming_capacity_mismatch cfg ic ie oc oe bi bo :
  bc_cap bi <> ic -> load_entity cfg (EPort ic ie oc oe) (PPort bi bo) = Err ECapIncoming.
Proof.
  intros H. cbn. unfold load_buffer. replace (bc_cap bi =? ic)%Z with false; [reflexivity|].
  symmetry. apply Z.eqb_neq. exact H.
Qed.

Lemma port_outgoing_capacity_mismatch cfg ic ie oc oe bi bo mi :
  load_buffer cfg ic ECapIncoming bi = Ok mi -> bc_cap bo <> oc ->
  load_entity cfg (EPort ic ie oc oe) (PPort bi bo) = Err ECapOutgoing.
Proof.
  intros Hi H. cbn. rewrite Hi. unfold load_buffer. replace (bc_cap bo =? oc)%Z with false; [reflexivity|].
  symmetry. apply Z.eqb_neq. exact H.
Qed.

Lemma port_overflow_rejected cfg cap mism l ms :
  decode_msgs cfg l = Ok ms -> (cap < Z.of_nat (length ms))%Z ->
  load_buffer cfg cap mism (mk_bufck cap (Some l)) = Err EOverflow.
Proof.
  intros Hd Hl. unfold load_buffer. cbn [bc_cap bc_elems]. rewrite Z.eqb_refl. cbn [negb].
  rewrite Hd. replace (cap <? Z.of_nat (length ms))%Z with true; [reflexivity|]. symmetry. apply Z.ltb_lt. exact Hl.
Qed.

Lemma storage_capacity_mismatch cfg c u us c' u' rest units :
  c' <> c -> load_entity cfg (EStorage c u us) (PStorage (c' :: u' :: rest) units) = Err EStorageCap.
Proof. intros H. cbn. replace (c' =? c) with false; [reflexivity|]. symmetry. apply N.eqb_neq. exact H. Qed.

Lemma storage_unit_mismatch cfg c u us u' rest units :
  u' <> u -> load_entity cfg (EStorage c u us) (PStorage (c :: u' :: rest) units) = Err EStorageUnit.
Proof.
  intros H. cbn. rewrite N.eqb_refl. cbn [negb].
  replace (u' =? u) with false; [reflexivity|]. symmetry. apply N.eqb_neq. exact H.
Qed.

Lemma page_size_mismatch cfg l tb l' tables :
  l' <> l -> load_entity cfg (EPageTable l tb) (PPageTable l' tables) = Err EPageSize.
Proof. intros H. cbn. replace (l' =? l) with false; [reflexivity|]. symmetry. apply N.eqb_neq. exact H. Qed.

Lemma unknown_msg_type_rejected cfg cap mism l v :
  In v l -> ~ In (lv_tag v) (msg_types cfg) ->
  exists e, load_buffer cfg cap mism (mk_bufck cap (Some l)) = Err e.
Proof.
  intros Hin Hnot. destruct (load_buffer cfg cap mism (mk_bufck cap (Some l))) as [ms|e|] eqn:E.
  - destruct (load_buffer_ok _ _ _ _ _ E) as (_ & Hb & _). cbn [bc_elems ellist_bad] in Hb.
    assert (existsb (fun v => negb (mem_str (lv_tag v) (msg_types cfg))) l = true).
    { apply existsb_exists. exists v. split; [exact Hin|].
      destruct (mem_str (lv_tag v) (msg_types cfg)) eqn:Em; [|reflexivity].
      apply mem_str_In in Em. contradiction. }
    congruence.
  - exists e. reflexivity.
  - exfalso. exact (load_buffer_no_panic _ _ _ _ E).
Qed.

Lemma unknown_event_rejected cfg hs l v :
  In v l ->
  (~ In (vv_tag v) (evt_types cfg) \/ exists t s h, vv_dec v = Some (t, s, h) /\ ~ In h hs) ->
  exists e, decode_events cfg hs (Some l) = Err e.
Proof.
  intros Hin Hbad. destruct (decode_events cfg hs (Some l)) as [evs|e|] eqn:E.
  - pose proof (decode_events_ok _ _ _ _ E) as Hb. cbn [evlist_bad] in Hb.
    assert (existsb (evview_bad cfg hs) l = true).
    { apply existsb_exists. exists v. split; [exact Hin|]. unfold evview_bad.
      destruct Hbad as [Ht|(t & s & h & Hd & Hh)].
      - destruct (mem_str (vv_tag v) (evt_types cfg)) eqn:Em; [|reflexivity].
        apply mem_str_In in Em. contradiction.
      - rewrite Hd. destruct (mem_str h hs) eqn:Em; [|apply orb_true_r].
        apply mem_str_In in Em. contradiction. }
    congruence.
  - exists e. reflexivity.
  - exfalso. exact (decode_events_no_panic _ _ _ E).
Qed.

(* ------------------------------------------------------------------ link (probes; no panic for simulations) *)

Lemma probe_agreement_implies_property cfg e0 p o blow :
  check_case (CProbe cfg e0 p o blow) = true -> holds_on (CProbe cfg e0 p o blow) = true.
Proof.
  cbn [check_case holds_on]. intros H. apply andb_true_iff in H. destruct H as [Ho Hb].
  rewrite Hb, andb_true_r.
  assert (Hobs : o = obs_of (load_entity cfg e0 p)).
  { destruct (load_entity cfg e0 p) as [x|e|]; destruct o as [|e'|]; cbn in Ho; try discriminate; try reflexivity.
    destruct (err_eq_dec e e'); [subst; reflexivity|discriminate]. }
  subst o. pose proof (load_entity_no_panic cfg e0 p) as Hnp.
  destruct (entity_mismatch_b cfg e0 p) eqn:Em.
  - destruct (entity_mismatch_err cfg e0 p Em) as [e He]. rewrite He. reflexivity.
  - destruct (load_entity cfg e0 p); [reflexivity|reflexivity|contradiction].
Qed.

Lemma sim_agreement_no_panic cfg b1 b2 s s0 t a1 h1 o h2 eq :
  check_case (CSim cfg b1 b2 s s0 (Some t) a1 h1 o h2 eq) = true -> is_panic o = false.
Proof.
  cbn [check_case]. intros H. pose proof (load_all_no_panic cfg b2 t s0) as Hnp.
  destruct (load_all cfg b2 t s0); destruct o; cbn in H; try discriminate; try reflexivity. contradiction.
Qed.

(* ------------------------------------------------------------------ a non-trivial instance *)

Definition ex_cfg : config := mk_config [[109]] [[101]].
Definition ex_sim : sim :=
  [ ([90], EStorage 64 8 [(16, 5); (0, 7)]);
    ([69], EEngine 10 [mk_ev 30 false [72] [101] 1; mk_ev 20 false [72] [101] 2] [] [[72]]);
    ([80; 47; 49], EPort 2 [mk_msg [109] 3] 1 []);
    ([67], EComp [104] 9 true 40 true 30) ].
Definition ex_rebuilt : sim :=
  [ ([67], EComp [104] 0 false 0 false 0);
    ([80; 47; 49], EPort 2 [] 1 []);
    ([69], EEngine 0 [] [] [[72]]);
    ([90], EStorage 64 8 []) ].

Lemma canonical_example :
  exists a s', save_sim [98] ex_sim = Ok a /\ load_all ex_cfg [98] a ex_rebuilt = Ok s' /\
               save_sim [98] s' = Ok a /\ length a = 5%nat.
Proof. vm_compute. eexists. eexists. repeat split. Qed.

(* ------------------------------------------------------------------ a compatible rebuilt simulation loads *)

Lemma decode_msgs_registered cfg l :
  forallb (fun m => mem_str (m_tag m) (msg_types cfg)) l = true ->
  decode_msgs cfg (map elview_of l) = Ok l.
Proof.
  induction l as [|m l IH]; cbn [forallb map decode_msgs]; intros H; [reflexivity|].
  apply andb_true_iff in H. destruct H as [Hm Hl]. cbn [elview_of lv_tag lv_ok].
  rewrite Hm. cbn [negb]. rewrite (IH Hl). destruct m; reflexivity.
Qed.

Lemma decode_evs_registered cfg l :
  forallb (fun e => mem_str (e_tag e) (evt_types cfg)) l = true ->
  decode_evs cfg (map evview_of l) = Ok l.
Proof.
  induction l as [|e l IH]; cbn [forallb map decode_evs]; intros H; [reflexivity|].
  apply andb_true_iff in H. destruct H as [Hm Hl]. cbn [evview_of vv_tag vv_dec].
  rewrite Hm. cbn [negb]. rewrite (IH Hl). destruct e; reflexivity.
Qed.

Lemma sort_time_in q e : In e (sort_time q) <-> In e q.
Proof.
  unfold sort_time. rewrite in_map_iff. split.
  - intros ([t x] & <- & Hin). apply ks_sort_in in Hin. apply in_map_iff in Hin.
    destruct Hin as (y & E & Hy). inversion E; subst. exact Hy.
  - intros Hin. exists (e_time e, e). split; [reflexivity|]. apply ks_sort_in.
    apply in_map_iff. exists e. split; [reflexivity|exact Hin].
Qed.

Lemma evs_ok_sorted cfg hs q : evs_ok cfg hs q = true -> evs_ok cfg hs (sort_time q) = true.
Proof.
  unfold evs_ok. rewrite !forallb_forall. intros H e He. apply H. apply sort_time_in. exact He.
Qed.

Lemma decode_events_compat cfg hs q :
  evs_ok cfg hs q = true ->
  decode_events cfg hs (Some (map evview_of (sort_time q))) = Ok (sort_time q).
Proof.
  intros H. apply evs_ok_sorted in H. unfold evs_ok in H. unfold decode_events.
  rewrite decode_evs_registered.
  - replace (forallb (fun e => mem_str (e_handler e) hs) (sort_time q)) with true; [reflexivity|].
    symmetry. rewrite forallb_forall in *. intros e He. specialize (H e He).
    apply andb_true_iff in H. apply H.
  - rewrite forallb_forall in *. intros e He. specialize (H e He). apply andb_true_iff in H. apply H.
Qed.

Lemma load_buffer_compat cfg cap mism ms :
  msgs_ok cfg cap ms = true -> load_buffer cfg cap mism (save_buffer cap ms) = Ok ms.
Proof.
  unfold msgs_ok. intros H. apply andb_true_iff in H. destruct H as [Ht Hl].
  unfold load_buffer, save_buffer. cbn [bc_cap bc_elems]. rewrite Z.eqb_refl. cbn [negb].
  rewrite (decode_msgs_registered cfg ms Ht).
  replace (cap <? Z.of_nat (length ms))%Z with false; [reflexivity|]. symmetry. apply Z.ltb_ge. apply Z.leb_le. exact Hl.
Qed.

Lemma load_entity_compat cfg e e0 :
  compat_entity_b cfg e e0 = true -> exists e', load_entity cfg e0 (save_entity e) = Ok e'.
Proof.
  unfold load_entity, load_entity_with.
  destruct e as [t q1 q2 hs|n|h st ht nt hh lh|h st pw|ic ie oc oe|c u units|l tables];
  destruct e0 as [t0 p0 s0 hs0|n0|h0 st0 ht0 nt0 hh0 lh0|h0 st0 pw0|ic0 ie0 oc0 oe0|c0 u0 un0|l0 tb0];
    cbn [compat_entity_b save_entity]; try discriminate.
  - destruct p0; [|discriminate]. destruct s0; [|discriminate]. intros H.
    apply andb_true_iff in H. destruct H as [H1 H2].
    rewrite (decode_events_compat _ _ _ H1), (decode_events_compat _ _ _ H2). eexists. reflexivity.
  - intros _. change (str_eqb sequential sequential) with true. eexists. reflexivity.
  - intros H. rewrite H. cbn [negb]. eexists. reflexivity.
  - intros H. rewrite H. cbn [negb]. eexists. reflexivity.
  - intros H. apply andb_true_iff in H. destruct H as [H Ho]. apply andb_true_iff in H. destruct H as [H Hi].
    apply andb_true_iff in H. destruct H as [Ei Eo]. apply Z.eqb_eq in Ei. apply Z.eqb_eq in Eo. subst.
    rewrite (load_buffer_compat _ _ _ _ Hi), (load_buffer_compat _ _ _ _ Ho). eexists. reflexivity.
  - intros H. apply andb_true_iff in H. destruct H as [Ec Eu].
    apply N.eqb_eq in Ec. apply N.eqb_eq in Eu. subst. unfold load_storage.
    rewrite !N.eqb_refl. cbn [negb]. rewrite ks_sort_length, N.ltb_irrefl. eexists. reflexivity.
  - intros H. apply N.eqb_eq in H. subst. rewrite N.eqb_refl. cbn [negb]. eexists. reflexivity.
Qed.

Lemma lookup_nodup_in {A} n (v : A) l : NoDup (map fst l) -> In (n, v) l -> lookup n l = Some v.
Proof.
  induction l as [|[k w] l IH]; cbn [map fst lookup]; intros Hnd Hin; [destruct Hin|].
  inversion Hnd as [|? ? Hk Hl]; subst. destruct Hin as [E|Hin].
  - inversion E; subst. rewrite str_eqb_refl. reflexivity.
  - destruct (str_eqb n k) eqn:Ek.
    + apply str_eqb_eq in Ek. subst. exfalso. apply Hk. apply in_map_iff. exists (k, v). split; [reflexivity|exact Hin].
    + exact (IH Hl Hin).
Qed.

Lemma lookup_none_notin {A} n (l : list (str * A)) : lookup n l = None -> ~ In n (map fst l).
Proof.
  intros H Hin. apply mem_key_In in Hin. unfold mem_key in Hin. rewrite H in Hin. discriminate.
Qed.

Lemma load_entities_compat cfg pl s s0 :
  (forall n e, lookup n s = Some e -> lookup n pl = Some (save_entity e)) ->
  forallb (fun ne0 => match lookup (fst ne0) s with
                      | Some e => compat_entity_b cfg e (snd ne0)
                      | None => false
                      end) s0 = true ->
  exists s', load_entities_with load_buffer cfg pl s0 = Ok s'.
Proof.
  intros Hpl. induction s0 as [|[n e0] s0 IH]; cbn [forallb fst snd]; intros H; [eexists; reflexivity|].
  apply andb_true_iff in H. destruct H as [H1 H2].
  destruct (lookup n s) as [e|] eqn:El; [|discriminate].
  cbn [load_entities_with]. rewrite (Hpl n e El).
  destruct (load_entity_compat cfg e e0 H1) as [e' He]. unfold load_entity in He. rewrite He.
  destruct (IH H2) as [t Ht]. rewrite Ht. eexists. reflexivity.
Qed.

Lemma names_differ_false s s0 :
  names_differ s s0 = false ->
  (forall n, In n (map fst s) -> In n (map fst s0)) /\ (forall n, In n (map fst s0) -> In n (map fst s)).
Proof.
  unfold names_differ. intros H. apply orb_false_iff in H. destruct H as [H1 H2]. split.
  - intros n Hn. apply in_map_iff in Hn. destruct Hn as ([k v] & <- & Hin). apply mem_key_In.
    cbn [fst]. destruct (mem_key k s0) eqn:E; [reflexivity|].
    assert (existsb (fun ne => negb (mem_key (fst ne) s0)) s = true).
    { apply existsb_exists. exists (k, v). split; [exact Hin|]. cbn [fst]. rewrite E. reflexivity. }
    congruence.
  - intros n Hn. apply in_map_iff in Hn. destruct Hn as ([k v] & <- & Hin). apply mem_key_In.
    cbn [fst]. destruct (mem_key k s) eqn:E; [reflexivity|].
    assert (existsb (fun ne => negb (mem_key (fst ne) s)) s0 = true).
    { apply existsb_exists. exists (k, v). split; [exact Hin|]. cbn [fst]. rewrite E. reflexivity. }
    congruence.
Qed.

(** a rebuilt simulation with the same build id, the same entity names and compatible
    configurations loads what was saved *)
Lemma load_succeeds cfg b s s0 a :
  names_ok s -> save_sim b s = Ok a -> compat_sim_b cfg s s0 = true ->
  exists s', load_all cfg b a s0 = Ok s'.
Proof.
  intros Hnames Hsave Hc. unfold compat_sim_b in Hc. apply andb_true_iff in Hc.
  destruct Hc as [Hnd Hce]. apply negb_true_iff in Hnd.
  destruct (names_differ_false _ _ Hnd) as [Hsub1 Hsub2].
  unfold save_sim in Hsave.
  assert (Hbn : Forall (fun np : str * payload => bytes_ok (fst np)) (save_payloads s)).
  { unfold names_ok in Hnames. unfold save_payloads. rewrite Forall_map. exact Hnames. }
  destruct (read_write b (save_payloads s) a Hbn Hsave) as (Hread & _ & Hnds & _).
  set (PL := sort_name (save_payloads s)) in *.
  assert (HpermPL : Permutation PL (save_payloads s)) by apply ks_sort_perm.
  assert (HndPL : NoDup (map fst PL)).
  { eapply Permutation_NoDup; [|exact Hnds]. apply Permutation_map, Permutation_sym. exact HpermPL. }
  assert (HnamesPL : forall n, In n (map fst PL) <-> In n (map fst s)).
  { intros n. rewrite <- save_payloads_names. split; intros H.
    - eapply Permutation_in; [apply Permutation_map; exact HpermPL|exact H].
    - eapply Permutation_in; [apply Permutation_map, Permutation_sym; exact HpermPL|exact H]. }
  assert (Hpl : forall n e, lookup n s = Some e -> lookup n PL = Some (save_entity e)).
  { intros n e Hl. apply lookup_nodup_in; [exact HndPL|].
    eapply Permutation_in; [apply Permutation_sym; exact HpermPL|].
    unfold save_payloads. apply in_map_iff. exists (n, e). split; [reflexivity|]. apply lookup_In. exact Hl. }
  destruct (load_entities_compat cfg PL s s0 Hpl Hce) as [s' Hs'].
  exists s'. unfold load_all, load_all_with. rewrite Hread, str_eqb_refl. cbn [negb].
  replace (existsb (fun np => negb (mem_key (fst np) s0)) PL) with false.
  - replace (existsb (fun ne => negb (mem_key (fst ne) PL)) s0) with false; [exact Hs'|].
    symmetry. apply not_true_iff_false. intros Hb. apply existsb_exists in Hb.
    destruct Hb as ([k v] & Hin & Hk). cbn [fst] in Hk.
    assert (In k (map fst PL)).
    { apply HnamesPL. apply Hsub2. apply in_map_iff. exists (k, v). split; [reflexivity|exact Hin]. }
    apply mem_key_In in H. rewrite H in Hk. discriminate.
  - symmetry. apply not_true_iff_false. intros Hb. apply existsb_exists in Hb.
    destruct Hb as ([k v] & Hin & Hk). cbn [fst] in Hk.
    assert (In k (map fst s0)).
    { apply Hsub1. apply HnamesPL. apply in_map_iff. exists (k, v). split; [reflexivity|exact Hin]. }
    apply mem_key_In in H. rewrite H in Hk. discriminate.
Qed.

(* ------------------------------------------------------------------ link for whole simulations (intact archive) *)

Lemma obs_eqb_eq a b : obs_eqb a b = true -> a = b.
Proof.
  destruct a, b; cbn; try discriminate; try reflexivity.
  destruct (err_eq_dec e e0); [intros _; subst; reflexivity|discriminate].
Qed.

Lemma names_differ_of_subsets s s0 :
  (forall n, In n (map fst s) -> In n (map fst s0)) ->
  (forall n, In n (map fst s0) -> In n (map fst s)) -> names_differ s s0 = false.
Proof.
  intros H1 H2. unfold names_differ. apply orb_false_iff. split; apply not_true_iff_false; intros Hb;
    apply existsb_exists in Hb; destruct Hb as ([k v] & Hin & Hk); cbn [fst] in Hk.
  - assert (In k (map fst s0)) by (apply H1; apply in_map_iff; exists (k, v); auto).
    apply mem_key_In in H. rewrite H in Hk. discriminate.
  - assert (In k (map fst s)) by (apply H2; apply in_map_iff; exists (k, v); auto).
    apply mem_key_In in H. rewrite H in Hk. discriminate.
Qed.

Lemma load_ok_no_sim_mismatch cfg b1 b2 s s0 a s' :
  names_ok s -> save_sim b1 s = Ok a -> load_all cfg b2 a s0 = Ok s' ->
  sim_mismatch_b cfg b1 b2 s s0 = false.
Proof.
  intros Hnames Hsave Hload. unfold save_sim in Hsave.
  assert (Hbn : Forall (fun np : str * payload => bytes_ok (fst np)) (save_payloads s)).
  { unfold names_ok in Hnames. unfold save_payloads. rewrite Forall_map. exact Hnames. }
  destruct (read_write b1 (save_payloads s) a Hbn Hsave) as (Hread & _ & Hnds & _).
  set (PL := sort_name (save_payloads s)) in *.
  assert (HpermPL : Permutation PL (save_payloads s)) by apply ks_sort_perm.
  assert (HndPL : NoDup (map fst PL)).
  { eapply Permutation_NoDup; [|exact Hnds]. apply Permutation_map, Permutation_sym. exact HpermPL. }
  assert (HnamesPL : forall n, In n (map fst PL) <-> In n (map fst s)).
  { intros n. rewrite <- save_payloads_names. split; intros H.
    - eapply Permutation_in; [apply Permutation_map; exact HpermPL|exact H].
    - eapply Permutation_in; [apply Permutation_map, Permutation_sym; exact HpermPL|exact H]. }
  destruct (load_all_ok_inv _ _ _ _ _ Hload) as (b' & pl & Hr & Hb & Hcov1 & Hcov2 & Hents).
  rewrite Hread in Hr. injection Hr as Eb Epl. subst pl. subst b'. subst b2.
  unfold sim_mismatch_b. rewrite str_eqb_refl. cbn [negb orb].
  rewrite names_differ_of_subsets.
  - cbn [orb]. apply not_true_iff_false. intros Hex. apply existsb_exists in Hex.
    destruct Hex as ([n e0] & Hin0 & Hm). cbn [fst snd] in Hm.
    destruct (lookup n s) as [e|] eqn:El; [|discriminate].
    destruct (load_entities_ok_inv _ _ _ _ Hents n e0 Hin0) as (p & e' & Hlp & He).
    assert (Hp : lookup n PL = Some (save_entity e)).
    { apply lookup_nodup_in; [exact HndPL|].
      eapply Permutation_in; [apply Permutation_sym; exact HpermPL|].
      unfold save_payloads. apply in_map_iff. exists (n, e). split; [reflexivity|]. apply lookup_In. exact El. }
    rewrite Hp in Hlp. inversion Hlp; subst p.
    rewrite (load_ok_no_mismatch _ _ _ _ He) in Hm. discriminate.
  - intros n Hn. apply Hcov1. apply HnamesPL. exact Hn.
  - intros n Hn. apply HnamesPL. apply Hcov2. exact Hn.
Qed.

Lemma sim_agreement_implies_property cfg b1 b2 s s0 a1 h1 o h2 eq :
  names_ok s ->
  check_case (CSim cfg b1 b2 s s0 None a1 h1 o h2 eq) = true ->
  holds_on (CSim cfg b1 b2 s s0 None a1 h1 o h2 eq) = true.
Proof.
  intros Hnames Hc. cbn [check_case] in Hc. cbn [holds_on].
  destruct (save_sim b1 s) as [A|?|] eqn:Hsave; try discriminate.
  destruct a1 as [oa1|]; [|discriminate].
  apply andb_true_iff in Hc. destruct Hc as [_ Hc].
  destruct (load_all cfg b2 A s0) as [s'|e|] eqn:Hload.
  - apply andb_true_iff in Hc. destruct Hc as [Hc Heq]. apply andb_true_iff in Hc. destruct Hc as [Hc Hh].
    apply andb_true_iff in Hc. destruct Hc as [Ho _]. apply obs_eqb_eq in Ho. subst o.
    rewrite (load_ok_no_sim_mismatch cfg b1 b2 s s0 A s' Hnames Hsave Hload).
    cbn [is_panic negb is_ok andb]. rewrite Heq, Hh.
    destruct (str_eqb b1 b2 && compat_sim_b cfg s s0); reflexivity.
  - apply andb_true_iff in Hc. destruct Hc as [Ho _]. apply obs_eqb_eq in Ho. subst o.
    cbn [is_panic negb is_err andb].
    destruct (str_eqb b1 b2 && compat_sim_b cfg s s0) eqn:Ecomp.
    + exfalso. apply andb_true_iff in Ecomp. destruct Ecomp as [Eb Ec]. apply str_eqb_eq in Eb. subst b2.
      destruct (load_succeeds cfg b1 s s0 A Hnames Hsave Ec) as [s' Hs']. congruence.
    + destruct (sim_mismatch_b cfg b1 b2 s s0); reflexivity.
  - exfalso. exact (load_all_no_panic cfg b2 A s0 Hload).
Qed.
