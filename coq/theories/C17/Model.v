(** C17 — model of the write-back flusher's block selection
    (flusher.prepareBlockToFlushList) and finalisation (the marking loop of
    flusher.finalizeFlushing) over a DirectoryState and a filter, and the
    abstract write-back step used for the "backing memory is current" theorem.
    Block / directory types are those of C19.Model; bytes / stores those of
    C16.Model. *)
From Akita Require Import Lib.Base C19.Model C16.Model.
Local Open Scope Z_scope.

(** filter: an empty address list matches every block address; PID 0 matches
    every PID; addresses are aligned down to the block size before matching. *)
Definition addr_match (bs : N) (addrs : list N) (tag : N) : bool :=
  match addrs with
  | [] => true
  | _ => existsb (fun a => (a / bs * bs =? tag)%N) addrs
  end.
Definition pid_match (pid bpid : N) : bool := (pid =? 0)%N || (bpid =? pid)%N.

Definition selected (bs : N) (addrs : list N) (pid : N) (b : block) : bool :=
  b_valid b && b_dirty b && pid_match pid (b_pid b) && addr_match bs addrs (b_tag b).

(** one set: blocks are visited in way order; a locked block or one with
    readers is the panic "all the blocks should be unlocked before flushing" *)
Fixpoint select_set (bs : N) (addrs : list N) (pid : N) (sid : Z) (blocks : list block) (w : Z)
  : option (list (Z * Z)) :=
  match blocks with
  | [] => Some []
  | b :: r =>
      if (0 <? b_rc b) || b_locked b then None
      else match select_set bs addrs pid sid r (w + 1) with
           | None => None
           | Some l => Some (if selected bs addrs pid b then (sid, w) :: l else l)
           end
  end.

Fixpoint select_from (bs : N) (addrs : list N) (pid : N) (d : dir) (sid : Z) : option (list (Z * Z)) :=
  match d with
  | [] => Some []
  | s :: r =>
      match select_set bs addrs pid sid (s_blocks s) 0 with
      | None => None
      | Some l => match select_from bs addrs pid r (sid + 1) with
                  | None => None
                  | Some l' => Some (l ++ l')
                  end
      end
  end.

(** prepareBlockToFlushList: the FlushedRefs, in set-major / way order *)
Definition select (bs : N) (addrs : list N) (pid : N) (d : dir) : option (list (Z * Z)) :=
  select_from bs addrs pid d 0.

(** finalizeFlushing: exactly the recorded blocks become clean, mask dropped *)
Definition mark_clean (b : block) : block :=
  B (b_pid b) (b_tag b) (b_way b) (b_set b) (b_caddr b) (b_valid b) false (b_rc b) (b_locked b) None.

Definition finalize (d : dir) (refs : list (Z * Z)) : dir :=
  fold_left (fun d r => upd_block d (fst r) (snd r) mark_clean) refs d.

(** * Abstract write-back: a cached line is (block, bytes of the line); writing
    a selected line back applies its bytes under its dirty mask to memory
    (writeBufferStage.write sends EvictingData with EvictingDirtyMask; the
    controllers apply it as a masked write, C16). *)
Definition write_back (m : store) (b : block) (data : list N) : store :=
  write_flat m (b_tag b) data (b_mask b) 0.
