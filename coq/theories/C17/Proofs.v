(** C17 — proofs about the flusher's selection / finalisation and the abstract write-back. *)
From Akita Require Import Lib.Base C19.Model C19.Proofs C16.Model C16.Proofs C17.Model.
Local Open Scope Z_scope.

(** * Selection *)

Lemma select_set_spec bs addrs pid sid : forall blocks w0 l,
  select_set bs addrs pid sid blocks w0 = Some l ->
  forall s w, In (s, w) l <->
    s = sid /\ w0 <= w /\ exists b, nth_error blocks (Z.to_nat (w - w0)) = Some b /\ selected bs addrs pid b = true.
Proof.
  induction blocks as [|b r IH]; intros w0 l H s w; cbn [select_set] in H.
  - injection H as <-. split; [intros []|]. intros [_ [_ [b [Hb _]]]]. destruct (Z.to_nat (w - w0)); discriminate.
  - destruct ((0 <? b_rc b) || b_locked b); [discriminate|].
    destruct (select_set bs addrs pid sid r (w0 + 1)) as [l'|] eqn:E; [|discriminate].
    injection H as <-. specialize (IH _ _ E s w).
    assert (Hcase : In (s, w) l' <-> s = sid /\ w0 < w /\ exists b', nth_error (b :: r) (Z.to_nat (w - w0)) = Some b' /\ selected bs addrs pid b' = true).
    { rewrite IH. split; intros [H1 [H2 [b' [H3 H4]]]]; (split; [exact H1|]); (split; [lia|]); exists b'; (split; [|exact H4]).
      - replace (Z.to_nat (w - w0)) with (Datatypes.S (Z.to_nat (w - (w0 + 1)))) by lia. exact H3.
      - replace (Z.to_nat (w - w0)) with (Datatypes.S (Z.to_nat (w - (w0 + 1)))) in H3 by lia. exact H3. }
    destruct (selected bs addrs pid b) eqn:Es.
    + cbn [In]. rewrite Hcase. split.
      * intros [Heq|[H1 [H2 H3]]].
        -- injection Heq as <- <-. split; [reflexivity|]. split; [lia|]. exists b. rewrite Z.sub_diag. split; [reflexivity|exact Es].
        -- split; [exact H1|]. split; [lia|exact H3].
      * intros [H1 [H2 [b' [H3 H4]]]]. destruct (Z.eq_dec w w0) as [->|Hne].
        -- left. congruence.
        -- right. split; [exact H1|]. split; [lia|]. exists b'. split; assumption.
    + rewrite Hcase. split.
      * intros [H1 [H2 H3]]. split; [exact H1|]. split; [lia|exact H3].
      * intros [H1 [H2 [b' [H3 H4]]]]. destruct (Z.eq_dec w w0) as [->|Hne].
        -- rewrite Z.sub_diag in H3. cbn in H3. injection H3 as <-. congruence.
        -- split; [exact H1|]. split; [lia|]. exists b'. split; assumption.
Qed.

Lemma select_from_spec bs addrs pid : forall d sid0 l,
  select_from bs addrs pid d sid0 = Some l ->
  forall s w, In (s, w) l <->
    sid0 <= s /\ 0 <= w /\ exists st b, nth_error d (Z.to_nat (s - sid0)) = Some st /\
       nth_error (s_blocks st) (Z.to_nat w) = Some b /\ selected bs addrs pid b = true.
Proof.
  induction d as [|st r IH]; intros sid0 l H s w; cbn [select_from] in H.
  - injection H as <-. split; [intros []|]. intros [_ [_ [st [b [Hb _]]]]]. destruct (Z.to_nat (s - sid0)); discriminate.
  - destruct (select_set bs addrs pid sid0 (s_blocks st) 0) as [l1|] eqn:E1; [|discriminate].
    destruct (select_from bs addrs pid r (sid0 + 1)) as [l2|] eqn:E2; [|discriminate].
    injection H as <-. rewrite in_app_iff.
    rewrite (select_set_spec _ _ _ _ _ _ _ E1 s w). rewrite (IH _ _ E2 s w). split.
    + intros [[H1 [H2 [b [H3 H4]]]]|[H1 [H2 [st' [b [H3 [H4 H5]]]]]]].
      * subst s. split; [lia|]. split; [lia|]. exists st, b. rewrite Z.sub_diag. rewrite Z.sub_0_r in H3. auto.
      * split; [lia|]. split; [lia|]. exists st', b.
        replace (Z.to_nat (s - sid0)) with (Datatypes.S (Z.to_nat (s - (sid0 + 1)))) by lia. auto.
    + intros [H1 [H2 [st' [b [H3 [H4 H5]]]]]]. destruct (Z.eq_dec s sid0) as [->|Hne].
      * left. rewrite Z.sub_diag in H3. cbn in H3. injection H3 as <-.
        split; [reflexivity|]. split; [lia|]. exists b. rewrite Z.sub_0_r. auto.
      * right. split; [lia|]. split; [lia|]. exists st', b.
        replace (Z.to_nat (s - sid0)) with (Datatypes.S (Z.to_nat (s - (sid0 + 1)))) in H3 by lia. auto.
Qed.

Lemma get_block_nth d s w b :
  get_block d s w = Some b <->
  0 <= s /\ 0 <= w /\ exists st, nth_error d (Z.to_nat s) = Some st /\ nth_error (s_blocks st) (Z.to_nat w) = Some b.
Proof.
  unfold get_block, zth. split.
  - destruct (s <? 0) eqn:Es; [discriminate|]. destruct (nth_error d (Z.to_nat s)) as [st|] eqn:E; [|discriminate].
    destruct (w <? 0) eqn:Ew; [discriminate|]. intro H. split; [lia|]. split; [lia|]. exists st. auto.
  - intros [H1 [H2 [st [H3 H4]]]]. destruct (s <? 0) eqn:Es; [lia|]. rewrite H3.
    destruct (w <? 0) eqn:Ew; [lia|]. exact H4.
Qed.

(** prepareBlockToFlushList selects exactly the valid, dirty blocks matching the filter *)
Theorem selects_exactly bs addrs pid d refs :
  select bs addrs pid d = Some refs ->
  forall s w, In (s, w) refs <-> exists b, get_block d s w = Some b /\ selected bs addrs pid b = true.
Proof.
  unfold select. intros H s w. rewrite (select_from_spec _ _ _ _ _ _ H s w). split.
  - intros [H1 [H2 [st [b [H3 [H4 H5]]]]]]. exists b. split; [|exact H5]. apply get_block_nth.
    rewrite Z.sub_0_r in H3. split; [lia|]. split; [lia|]. exists st. auto.
  - intros [b [Hb H5]]. apply get_block_nth in Hb. destruct Hb as [H1 [H2 [st [H3 H4]]]].
    split; [lia|]. split; [lia|]. exists st, b. rewrite Z.sub_0_r. auto.
Qed.

(** the selection fails (panic) exactly when some block is locked or read *)
Lemma select_set_none bs addrs pid sid : forall blocks w0,
  select_set bs addrs pid sid blocks w0 = None <-> exists b, In b blocks /\ ((0 <? b_rc b) || b_locked b) = true.
Proof.
  induction blocks as [|b r IH]; intros w0; cbn [select_set].
  - split; [discriminate|]. intros [b [[] _]].
  - destruct ((0 <? b_rc b) || b_locked b) eqn:E.
    + split; [|reflexivity]. intros _. exists b. split; [left; reflexivity|exact E].
    + destruct (select_set bs addrs pid sid r (w0 + 1)) as [l|] eqn:E2.
      * split; [discriminate|]. intros [b' [[->|Hin] Hb]]; [congruence|].
        assert (Hn : select_set bs addrs pid sid r (w0 + 1) = None) by (apply IH; eauto). congruence.
      * split; [|reflexivity]. intros _. destruct (proj1 (IH (w0 + 1)) E2) as [b' [Hin Hb]].
        exists b'. split; [right; exact Hin|exact Hb].
Qed.

(** * Finalisation *)

Lemma get_upd_block_same d s w f b :
  get_block d s w = Some b -> get_block (upd_block d s w f) s w = Some (f b).
Proof.
  unfold get_block, upd_block. destruct (zth d s) as [st|] eqn:Es; [|discriminate]. intro Hb. rewrite Hb.
  rewrite (zth_zupd_same _ _ _ _ Es). cbn [s_blocks]. apply (zth_zupd_same _ _ _ _ Hb).
Qed.

Lemma get_upd_block_other d s w f s' w' :
  (s, w) <> (s', w') -> get_block (upd_block d s w f) s' w' = get_block d s' w'.
Proof.
  intro Hne. unfold get_block, upd_block. destruct (zth d s) as [st|] eqn:Es; [|reflexivity].
  destruct (zth (s_blocks st) w) as [b|] eqn:Eb; [|reflexivity].
  destruct (Z.eq_dec s s') as [<-|Hs].
  - rewrite (zth_zupd_same _ _ _ _ Es). rewrite Es. cbn [s_blocks].
    apply zth_zupd_other. intro E. apply Hne. congruence.
  - rewrite zth_zupd_other by exact Hs. reflexivity.
Qed.

Lemma get_upd_block_none d s w f s' w' :
  get_block d s' w' = None -> get_block (upd_block d s w f) s' w' = None.
Proof.
  intro H. destruct (Z.eq_dec s s') as [<-|Hs]; [destruct (Z.eq_dec w w') as [<-|Hw]|].
  - unfold upd_block. unfold get_block in H. destruct (zth d s) as [st|] eqn:Es; [|unfold get_block; rewrite Es; reflexivity].
    rewrite H. unfold get_block. rewrite Es. exact H.
  - rewrite get_upd_block_other; [exact H|congruence].
  - rewrite get_upd_block_other; [exact H|congruence].
Qed.

Lemma mark_clean_idem b : mark_clean (mark_clean b) = mark_clean b.
Proof. reflexivity. Qed.

(** after finalisation: a recorded block is its clean copy, any other block is untouched *)
Theorem finalize_spec refs : forall d s w,
  get_block (finalize d refs) s w =
  match get_block d s w with
  | Some b => Some (if existsb (fun r => (fst r =? s) && (snd r =? w)) refs then mark_clean b else b)
  | None => None
  end.
Proof.
  unfold finalize. induction refs as [|[s0 w0] refs IH]; intros d s w; cbn [fold_left existsb fst snd].
  - destruct (get_block d s w); reflexivity.
  - rewrite IH. destruct (Z.eq_dec s0 s) as [->|Hs]; [destruct (Z.eq_dec w0 w) as [->|Hw]|].
    + rewrite !Z.eqb_refl. cbn [andb orb]. destruct (get_block d s w) as [b|] eqn:Eb.
      * rewrite (get_upd_block_same _ _ _ _ _ Eb). destruct (existsb _ refs); reflexivity.
      * rewrite get_upd_block_none by exact Eb. reflexivity.
    + rewrite get_upd_block_other by congruence.
      assert (E : (w0 =? w) = false) by lia. rewrite E, andb_false_r. reflexivity.
    + rewrite get_upd_block_other by congruence.
      assert (E : (s0 =? s) = false) by lia. rewrite E. reflexivity.
Qed.

(** * Abstract: writing the selected lines back makes memory current there *)

Definition in_line (b : block) (data : list N) (a : N) : bool :=
  ((b_tag b <=? a) && (a <? b_tag b + N.of_nat (length data)))%N.

(** [refm] is the reference memory; a cached line is coherent with it when the
    reference is the cached byte where the line is dirty and the memory byte
    elsewhere in the line *)
Definition coherent (refm : N -> N) (m : store) (b : block) (data : list N) : Prop :=
  forall a, in_line b data a = true ->
    refm a = if dirty_at (b_tag b) data (b_mask b) 0%nat a then nth (N.to_nat (a - b_tag b)%N) data 0%N else mget m a.

Definition disjoint_lines (x y : block * list N) : Prop :=
  forall a, in_line (fst x) (snd x) a = true -> in_line (fst y) (snd y) a = false.

Lemma write_back_outside m b data a :
  in_line b data a = false -> mget (write_back m b data) a = mget m a.
Proof.
  intro H. unfold write_back. rewrite write_flat_spec. unfold dirty_at. unfold in_line in H.
  rewrite H. reflexivity.
Qed.

Lemma write_back_inside refm m b data a :
  coherent refm m b data -> in_line b data a = true -> mget (write_back m b data) a = refm a.
Proof.
  intros Hc Ha. rewrite (Hc a Ha). unfold write_back. rewrite write_flat_spec. reflexivity.
Qed.

Theorem memory_current refm : forall lines m,
  ForallOrdPairs disjoint_lines lines ->
  (forall x, In x lines -> coherent refm m (fst x) (snd x)) ->
  forall x, In x lines -> forall a, in_line (fst x) (snd x) a = true ->
    mget (fold_left (fun m x => write_back m (fst x) (snd x)) lines m) a = refm a.
Proof.
  induction lines as [|y lines IH]; intros m Hd Hc x Hin a Ha; [destruct Hin|].
  inversion Hd as [|? ? Hy Hrest]; subst. cbn [fold_left].
  assert (Hc' : forall z, In z lines -> coherent refm (write_back m (fst y) (snd y)) (fst z) (snd z)).
  { intros z Hz a' Ha'. rewrite (Hc z (or_intror Hz) a' Ha').
    rewrite Forall_forall in Hy. specialize (Hy z Hz).
    assert (Hout : in_line (fst y) (snd y) a' = false).
    { destruct (in_line (fst y) (snd y) a') eqn:E; [|reflexivity]. rewrite (Hy a' E) in Ha'. discriminate. }
    rewrite write_back_outside by exact Hout. reflexivity. }
  destruct Hin as [<-|Hin].
  - (* the line written first: later disjoint write-backs do not touch it *)
    assert (Hkeep : forall ls m0, Forall (disjoint_lines y) ls ->
              mget (fold_left (fun m x => write_back m (fst x) (snd x)) ls m0) a = mget m0 a).
    { induction ls as [|z ls IHl]; intros m0 Hf; [reflexivity|]. inversion Hf; subst. cbn [fold_left].
      rewrite IHl by assumption. apply write_back_outside. auto. }
    rewrite Hkeep by exact Hy. apply write_back_inside; auto. apply Hc. left. reflexivity.
  - apply (IH _ Hrest Hc' x Hin a Ha).
Qed.
