(** C17 — case evaluators. *)
From Akita Require Import Lib.Base C19.Model C19.Exec C16.Model C17.Model.
Local Open Scope Z_scope.

(** a flush of one real write-back cache: geometry, filter, directory before
    (after the drain) and after the flush acknowledgement *)
Record flush := Fl {
  f_ns : N; f_ways : N; f_bs : N; f_addrs : list N; f_pid : N; f_before : dir; f_after : dir }.

Inductive case :=
  (** kernel tie through the verif hook: snapshot + filter; observed selection
      ([None] = the real code panicked), finalisation completed?, directory after *)
| KSel (bs : N) (addrs : list N) (pid : N) (d : dir) (sel : option (list (Z * Z))) (fin : bool) (after : dir)
  (** end to end: requester trace of the workload, the flushes (top-down), the
      control protocol went as expected, and (line address, line PID, bytes
      read directly from the backing Storage after the flushes) *)
| E2E (tr : list ev) (fls : list (flush * nat * list (N * N * list N))) (ctrl_ok : bool)
  (** [fls]: the flushes of the run in order, each with the number of requester
      events recorded when it was acknowledged and the bytes of every written
      line read from the backing Storage right after it ([] when a lower
      write-back level has not been flushed yet) *)
  (** kernel tie of a SEQUENCE of flush requests on one flusher (verif hook):
      before each request some blocks are re-dirtied; observed per step: the
      selection and the directory afterwards *)
| KSeq (bs : N) (d : dir) (steps : list (list (Z * Z) * list N * N)) (obs : list (list (Z * Z) * bool * dir)).

Definition redirty (d : dir) (refs : list (Z * Z)) : dir :=
  fold_left (fun d r => upd_block d (fst r) (snd r) (set_dirty true)) refs d.

Definition zz_list_eqb := list_eqb zz_eqb.

Definition check_case (c : case) : bool :=
  match c with
  | KSel bs addrs pid d sel fin after =>
      opt_eqb zz_list_eqb (select bs addrs pid d) sel &&
      match sel with
      | Some refs => fin && dir_eqb (finalize d refs) after
      | None => true
      end
  | E2E tr fls ok =>
      forallb (fun '(f, _, _) =>
        match select (f_bs f) (f_addrs f) (f_pid f) (f_before f) with
        | Some refs => dir_eqb (finalize (f_before f) refs) (f_after f)
        | None => false
        end) fls
  | KSeq bs d steps obs =>
      (fix go (d : dir) (steps : list (list (Z * Z) * list N * N)) (obs : list (list (Z * Z) * bool * dir)) : bool :=
         match steps, obs with
         | [], [] => true
         | (rd, addrs, pid) :: st', (sel, fin, after) :: ob' =>
             let d1 := redirty d rd in
             match select bs addrs pid d1 with
             | Some refs => zz_list_eqb refs sel && fin && dir_eqb (finalize d1 refs) after && go after st' ob'
             | None => false
             end
         | _, _ => false
         end) d steps obs
  end.

(** property clauses on the observed directories: every block keeps its
    validity; a block matching the filter that was valid and dirty is clean;
    every other block keeps its dirty flag *)
Definition blocks_flags_ok (bs : N) (addrs : list N) (pid : N) (x y : block) : bool :=
  bool_eqb (b_valid x) (b_valid y) &&
  (if selected bs addrs pid x then negb (b_dirty y) else bool_eqb (b_dirty x) (b_dirty y)) &&
  (b_tag x =? b_tag y)%N && (b_pid x =? b_pid y)%N.

Fixpoint forallb2 {A} (f : A -> A -> bool) (a b : list A) : bool :=
  match a, b with
  | [], [] => true
  | x :: a', y :: b' => f x y && forallb2 f a' b'
  | _, _ => false
  end.

Definition flags_ok (bs : N) (addrs : list N) (pid : N) (before after : dir) : bool :=
  forallb2 (fun s t => forallb2 (blocks_flags_ok bs addrs pid) (s_blocks s) (s_blocks t)) before after.

Definition sel_member (refs : list (Z * Z)) (sid w : Z) : bool := existsb (zz_eqb (sid, w)) refs.

(** selected = exactly the valid, dirty, matching blocks (on the observed selection) *)
Fixpoint sel_exact_set (bs : N) (addrs : list N) (pid : N) (refs : list (Z * Z)) (sid : Z) (blocks : list block) (w : Z) : bool :=
  match blocks with
  | [] => true
  | b :: r => bool_eqb (sel_member refs sid w) (selected bs addrs pid b) && sel_exact_set bs addrs pid refs sid r (w + 1)
  end.
Fixpoint sel_exact (bs : N) (addrs : list N) (pid : N) (refs : list (Z * Z)) (d : dir) (sid : Z) : bool :=
  match d with
  | [] => true
  | s :: r => sel_exact_set bs addrs pid refs sid (s_blocks s) 0 && sel_exact bs addrs pid refs r (sid + 1)
  end.

Definition line_in_filter (bs : N) (f : flush) (line pid : N) : bool :=
  pid_match (f_pid f) pid && addr_match (f_bs f) (f_addrs f) (line / f_bs f * f_bs f)%N.

Definition holds_on (c : case) : bool :=
  match c with
  | KSel bs addrs pid d sel fin after =>
      match sel with
      | None => true      (* the pre-flush quiesce guarantees no locked / read block; a panic is the guard *)
      | Some refs => sel_exact bs addrs pid refs d 0 && flags_ok bs addrs pid d after
      end
  | E2E tr fls ok =>
      ok && accepts tr &&
      forallb (fun '(f, n, checks) =>
        flags_ok (f_bs f) (f_addrs f) (f_pid f) (f_before f) (f_after f) &&
        match run st0 (firstn n tr) with
        | Some s =>
                (* byte by byte: a byte whose (block-aligned) line matches the filter of this
                   flush must hold the reference value in the backing storage right after it *)
                forallb (fun '(line, pid, bytes) =>
                   forallb (fun '(i, v) =>
                      let a := (line + N.of_nat i)%N in
                      if line_in_filter (f_bs f) f a pid then (v =? mget (ref s) a)%N else true)
                     (combine (seq 0 (length bytes)) bytes)) checks
        | None => false
        end) fls
  | KSeq bs d steps obs =>
      (fix go (d : dir) (steps : list (list (Z * Z) * list N * N)) (obs : list (list (Z * Z) * bool * dir)) : bool :=
         match steps, obs with
         | (rd, addrs, pid) :: st', (sel, fin, after) :: ob' =>
             let d1 := redirty d rd in
             sel_exact bs addrs pid sel d1 0 && flags_ok bs addrs pid d1 after && go after st' ob'
         | _, _ => true
         end) d steps obs
  end.
