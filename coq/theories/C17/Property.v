(** C17 — flushing write-back caches makes backing memory current.  Property theorems only. *)
From Akita Require Import Lib.Base C19.Model C16.Model C16.Proofs C17.Model C17.Proofs.
Local Open Scope Z_scope.

(** The flusher selects exactly the valid, dirty blocks whose PID and
    (line-aligned) address match the filter — for every directory and filter. *)
Theorem c17_selects_exactly : forall bs addrs pid d refs,
  select bs addrs pid d = Some refs ->
  forall s w, In (s, w) refs <->
    exists b, get_block d s w = Some b /\
      b_valid b = true /\ b_dirty b = true /\ pid_match pid (b_pid b) = true /\ addr_match bs addrs (b_tag b) = true.
Proof.
  intros bs addrs pid d refs H s w. rewrite (selects_exactly _ _ _ _ _ H s w).
  unfold selected. split; intros [b [Hb Hs]]; exists b; (split; [exact Hb|]).
  - repeat (apply andb_true_iff in Hs; destruct Hs as [Hs ?]). auto.
  - destruct Hs as [-> [-> [-> ->]]]. reflexivity.
Qed.
Print Assumptions c17_selects_exactly.

(** After finalisation exactly the selected blocks are clean; every block keeps
    its validity, tag and PID; every non-selected block is untouched (a
    non-matching dirty block stays dirty). *)
Theorem c17_marks_exactly : forall bs addrs pid d refs,
  select bs addrs pid d = Some refs ->
  forall s w b, get_block d s w = Some b ->
    exists b', get_block (finalize d refs) s w = Some b' /\
      b_valid b' = b_valid b /\ b_tag b' = b_tag b /\ b_pid b' = b_pid b /\
      (selected bs addrs pid b = true -> b_dirty b' = false) /\
      (selected bs addrs pid b = false -> b' = b).
Proof.
  intros bs addrs pid d refs H s w b Hb. rewrite finalize_spec, Hb.
  destruct (existsb (fun r => (fst r =? s) && (snd r =? w)) refs) eqn:E.
  - exists (mark_clean b). split; [reflexivity|]. repeat split; try reflexivity.
    intro Hn. exfalso. apply existsb_exists in E. destruct E as [[s0 w0] [Hin He]]. cbn [fst snd] in He.
    assert (s0 = s /\ w0 = w) as [-> ->] by lia.
    apply (selects_exactly _ _ _ _ _ H) in Hin. destruct Hin as [b0 [Hb0 Hs0]]. congruence.
  - exists b. split; [reflexivity|]. repeat split; try reflexivity.
    intro Hsel. exfalso.
    assert (Hin : In (s, w) refs) by (apply (selects_exactly _ _ _ _ _ H); eauto).
    assert (Ht : existsb (fun r => (fst r =? s) && (snd r =? w)) refs = true).
    { apply existsb_exists. exists (s, w). split; [exact Hin|]. cbn [fst snd]. lia. }
    congruence.
Qed.
Print Assumptions c17_marks_exactly.

(** The selection panics ("all the blocks should be unlocked before flushing")
    exactly when a block of some set is locked or has readers — the reason for
    the pre-flush quiesce. *)
Theorem c17_select_set_panics_iff_busy : forall bs addrs pid sid blocks,
  select_set bs addrs pid sid blocks 0 = None <->
  exists b, In b blocks /\ ((0 <? b_rc b) || b_locked b) = true.
Proof. intros. apply select_set_none. Qed.
Print Assumptions c17_select_set_panics_iff_busy.

(** Abstract: if the reference memory is, on every selected line, the cached
    byte where the line is dirty and the memory byte elsewhere (coherence of a
    write-back cache), then after the write-backs of the selected (pairwise
    disjoint) lines are applied — as masked writes, C16 — memory equals the
    reference on every byte of every selected line. *)
Theorem c17_memory_current : forall refm lines m,
  ForallOrdPairs disjoint_lines lines ->
  (forall x, In x lines -> coherent refm m (fst x) (snd x)) ->
  forall x, In x lines -> forall a, in_line (fst x) (snd x) a = true ->
    mget (fold_left (fun m x => write_back m (fst x) (snd x)) lines m) a = refm a.
Proof. exact memory_current. Qed.
Print Assumptions c17_memory_current.

Example c17_nonvacuous :
  let d := [S [B 1 64 0 0 0 true true 0 false None; B 2 128 1 0 64 true true 0 false None;
               B 1 192 2 0 128 true false 0 false None] [0; 1; 2]] in
  select 64 [70%N] 1 d = Some [(0, 0)] /\
  select 64 [] 0 d = Some [(0, 0); (0, 1)] /\
  get_block (finalize d [(0, 0)]) 0 1 = Some (B 2 128 1 0 64 true true 0 false None).
Proof. vm_compute. repeat split; reflexivity. Qed.
