(** C36 — proofs, part 3: the rows of the specification, declaratively. *)
From Akita Require Import Lib.Base C36.Model C36.Spec C36.Proofs1 C36.Proofs2.
Local Open Scope N_scope.

(** ---------------------------------------------------------------- split_start *)
Lemma split_start_sound id h b st older : split_start id h [] = Some (b, st, older) ->
  h = rev b ++ st :: older /\ starts_of id st = true /\ forallb (fun x => negb (starts_of id x)) b = true.
Proof.
  revert b st older. induction h as [|o r IH]; intros b st older H; [discriminate|].
  destruct (starts_of id o) eqn:E.
  - cbn [split_start] in H. rewrite E in H. injection H as <- <- <-. auto.
  - rewrite (split_start_cons_other id o r E) in H.
    destruct (split_start id r []) as [[[b' st'] older']|] eqn:Er; [|discriminate].
    injection H as <- <- <-. destruct (IH _ _ _ eq_refl) as [H1 [H2 H3]].
    rewrite rev_unit. cbn [app]. rewrite <- H1. repeat split; auto.
    rewrite forallb_app, H3. cbn. rewrite E. reflexivity.
Qed.

Lemma split_start_complete id b : forall st older,
  starts_of id st = true -> forallb (fun x => negb (starts_of id x)) b = true ->
  split_start id (rev b ++ st :: older) [] = Some (b, st, older).
Proof.
  induction b as [|o b IH] using rev_ind; intros st older Hs Hb.
  - cbn [rev app split_start]. rewrite Hs. reflexivity.
  - rewrite forallb_app in Hb. apply andb_true_iff in Hb. destruct Hb as [Hb Ho].
    cbn in Ho. rewrite andb_true_r in Ho. apply negb_true_iff in Ho.
    rewrite rev_unit. cbn [app]. rewrite (split_start_cons_other id o _ Ho), (IH st older Hs Hb). reflexivity.
Qed.

Lemma tracing_on_snoc a o cur :
  tracing_on (a ++ [o]) cur =
  match o with
  | OStartTracing _ => true
  | OStopTracing _ | OTerminate _ => false
  | _ => tracing_on a cur
  end.
Proof.
  revert cur. induction a as [|x a IH]; intro cur; [destruct o; reflexivity|].
  cbn [app]. destruct x; cbn [tracing_on]; apply IH.
Qed.

Lemma on_after_h_rev a : on_after_h (rev a) = on_after a.
Proof.
  induction a as [|o a IH] using rev_ind; [reflexivity|].
  rewrite rev_unit. unfold on_after. rewrite tracing_on_snoc, on_after_h_cons.
  destruct o; auto.
Qed.

(** ---------------------------------------------------------------- recorded <-> should_record *)
Lemma spec_trace_In h ops row :
  In row (fst (fst (spec_rows h ops))) <->
  exists pre o c, ops = pre ++ o :: c /\ In row (fst (fst (rows_of (rev pre ++ h) o))).
Proof.
  revert h. induction ops as [|o r IH]; intro h.
  - cbn. split; [intros []|]. intros [pre [o [c [H _]]]]. destruct pre; discriminate.
  - rewrite spec_rows_cons. specialize (IH (o :: h)).
    destruct (spec_rows (o :: h) r) as [[tr mi] tg]. destruct (rows_of h o) as [[tr0 mi0] tg0] eqn:Er.
    cbn [fst snd] in *. rewrite in_app_iff, IH. split.
    + intros [H|[pre [o' [c [-> H]]]]].
      * exists [], o, r. split; [reflexivity|]. cbn [rev app]. rewrite Er. exact H.
      * exists (o :: pre), o', c. split; [reflexivity|]. cbn [rev]. rewrite <- app_assoc. exact H.
    + intros [[|x pre] [o' [c [Heq H]]]]; cbn [app] in Heq; injection Heq as -> ->.
      * left. cbn [rev app] in H. rewrite Er in H. exact H.
      * right. exists pre, o', c. split; [reflexivity|]. cbn [rev] in H. rewrite <- app_assoc in H. exact H.
Qed.

Lemma started_ids_cons o h :
  started_ids (o :: h) = match o with OStart i _ _ _ _ _ => i :: started_ids h | _ => started_ids h end.
Proof. destruct o; reflexivity. Qed.

(** a task whose latest start is followed by [b] is running iff [b] holds no end of it *)
Lemma live_rev_app id b st older : starts_of id st = true ->
  forallb (fun x => negb (starts_of id x)) b = true ->
  live id (rev b ++ st :: older) = forallb (fun o => negb (ends_of id o)) b.
Proof.
  intros Hst. induction b as [|o b IH] using rev_ind; intro Hb.
  - cbn [rev app forallb]. destruct st; cbn [starts_of] in Hst; try discriminate. cbn [live]. rewrite Hst. reflexivity.
  - rewrite forallb_app in Hb. apply andb_true_iff in Hb. destruct Hb as [Hb Ho]. cbn in Ho.
    rewrite andb_true_r in Ho. apply negb_true_iff in Ho.
    rewrite rev_unit, forallb_app. cbn [app forallb]. rewrite andb_true_r, <- (IH Hb).
    destruct o; cbn [live starts_of ends_of] in *; rewrite ?Ho; try (rewrite andb_true_r; reflexivity).
    destruct (id0 =? id); cbn [negb]; [rewrite andb_false_r|rewrite andb_true_r]; reflexivity.
Qed.

(** a running task is not started again *)
Lemma no_restart id b st older : wf_h (rev b ++ st :: older) = true -> starts_of id st = true ->
  forallb (fun o => negb (ends_of id o)) b = true ->
  forallb (fun x => negb (starts_of id x)) b = true.
Proof.
  intros Hwf Hst. induction b as [|o b IH] using rev_ind; intro He; [reflexivity|].
  rewrite forallb_app in He. apply andb_true_iff in He. destruct He as [He Ho].
  rewrite rev_unit in Hwf. cbn [app] in Hwf.
  pose proof (wf_h_app [o] _ Hwf) as Hwf'. specialize (IH Hwf' He).
  rewrite forallb_app, IH. cbn [forallb]. rewrite andb_true_r. apply negb_true_iff.
  destruct (starts_of id o) eqn:E; [exfalso|reflexivity].
  destruct o; cbn [starts_of] in E; try discriminate. apply N.eqb_eq in E. subst.
  apply wf_h_cons in Hwf. destruct Hwf as [_ [_ [_ Hl]]].
  rewrite (live_rev_app id b st older Hst IH), He in Hl. discriminate.
Qed.

Theorem recorded_iff ops row : wf_ops ops = true ->
  (In row (fst (fst (spec_rows [] ops))) <-> should_record ops row).
Proof.
  intro Hwf. rewrite spec_trace_In. unfold should_record. split.
  - intros [pre [o [c [-> H]]]]. rewrite app_nil_r in H.
    destruct o as [| id e | | | | |]; cbn [rows_of fst] in H; try contradiction.
    destruct (live id (rev pre)) eqn:Hl; [|contradiction].
    destruct (split_start id (rev pre) []) as [[[b st] older]|] eqn:Es; [|contradiction].
    destruct (split_start_sound _ _ _ _ _ Es) as [Hh [Hst Hns]].
    destruct st as [i p k w l s| | | | | |]; try discriminate.
    cbn in Hst. apply N.eqb_eq in Hst. subst i.
    destruct (on_after_h older || existsb is_start_tracing b) eqn:Ec; cbn [fst] in H; [|contradiction].
    destruct H as [<-|[]].
    exists (rev older), b, c, id, p, k, w, l, s, e. repeat split.
    + assert (pre = rev older ++ OStart id p k w l s :: b) as ->.
      { rewrite <- (rev_involutive pre), Hh, rev_app_distr. cbn [rev]. rewrite rev_involutive, <- app_assoc. reflexivity. }
      rewrite <- app_assoc. reflexivity.
    + rewrite Hh, (live_rev_app id b _ older) in Hl; [exact Hl| |exact Hns]. cbn. apply N.eqb_refl.
    + unfold running_while_tracing. rewrite <- on_after_h_rev, rev_involutive. exact Ec.
  - intros [a [b [c [id [p [k [w [l [s [e [-> [Hne [Hc ->]]]]]]]]]]]]].
    exists (a ++ OStart id p k w l s :: b), (OEnd id e), c. split; [rewrite <- app_assoc; reflexivity|].
    rewrite app_nil_r, rev_app_distr. cbn [rev]. rewrite <- app_assoc. cbn [app rows_of].
    assert (starts_of id (OStart id p k w l s) = true) as Hst by (cbn; apply N.eqb_refl).
    assert (forallb (fun x => negb (starts_of id x)) b = true) as Hns.
    { apply (no_restart id b (OStart id p k w l s) (rev a)); auto.
      unfold wf_ops in Hwf. rewrite rev_app_distr in Hwf. cbn [rev] in Hwf.
      rewrite rev_app_distr in Hwf. cbn [rev] in Hwf. rewrite <- !app_assoc in Hwf. cbn [app] in Hwf.
      apply wf_h_app in Hwf. apply (wf_h_app [OEnd id e]) in Hwf. exact Hwf. }
    rewrite (live_rev_app id b _ (rev a) Hst Hns), Hne.
    rewrite (split_start_complete id b (OStart id p k w l s) (rev a) Hst Hns).
    unfold running_while_tracing in Hc. rewrite on_after_h_rev, Hc. left. reflexivity.
Qed.

(** ---------------------------------------------------------------- each task once *)
Definition row_id (r : row) : N := nth 0 r 0.

Lemma live_started id h : live id h = true -> In id (started_ids h).
Proof.
  induction h as [|o r IH]; cbn [live]; [discriminate|].
  rewrite started_ids_cons. destruct o; auto.
  - destruct (id0 =? id) eqn:E; [apply N.eqb_eq in E; subst; intros _; left; reflexivity|intro H; right; auto].
  - destruct (id0 =? id); [discriminate|auto].
Qed.

Lemma started_ids_app a b : started_ids (a ++ b) = started_ids a ++ started_ids b.
Proof. unfold started_ids. apply flat_map_app. Qed.

Lemma started_ids_rev_In i l : In i (started_ids (rev l)) <-> In i (started_ids l).
Proof.
  unfold started_ids. rewrite !in_flat_map. split; intros [e [H1 H2]]; exists e; split; auto;
    [apply in_rev; exact H1|apply in_rev; rewrite rev_involutive; exact H1].
Qed.

(** a recorded row belongs to a task running now or started later *)
Lemma spec_trace_ids h ops :
  forall i, In i (map row_id (fst (fst (spec_rows h ops)))) -> live i h = true \/ In i (started_ids ops).
Proof.
  revert h. induction ops as [|o r IH]; intros h i; [intros []|].
  rewrite spec_rows_cons. specialize (IH (o :: h) i).
  destruct (spec_rows (o :: h) r) as [[tr mi] tg]. destruct (rows_of h o) as [[tr0 mi0] tg0] eqn:Er.
  cbn [fst snd] in *. rewrite map_app, in_app_iff, started_ids_cons. intros [H|H].
  - destruct o as [| id e | | | | |]; cbn [rows_of] in Er; try (injection Er as <- _ _; destruct H).
    destruct (live id h) eqn:Hl; [|injection Er as <- _ _; destruct H].
    destruct (split_start id h []) as [[[b st] older]|]; [|injection Er as <- _ _; destruct H].
    destruct st; try (injection Er as <- _ _; destruct H).
    destruct (on_after_h older || existsb is_start_tracing b); injection Er as <- _ _; [|destruct H].
    destruct H as [<-|[]]. left. exact Hl.
  - destruct (IH H) as [Hl|Hin].
    + destruct o; cbn [live] in Hl; auto.
      * destruct (id =? i) eqn:E; [apply N.eqb_eq in E; subst; right; left; reflexivity|left; exact Hl].
      * destruct (id =? i); [discriminate|left; exact Hl].
    + right. destruct o; auto. right. exact Hin.
Qed.

Lemma recorded_once_gen ops : forall h, NoDup (started_ids (rev h) ++ started_ids ops) ->
  NoDup (map row_id (fst (fst (spec_rows h ops)))).
Proof.
  induction ops as [|o r IH]; intros h Hnd; [constructor|].
  rewrite spec_rows_cons.
  assert (NoDup (started_ids (rev (o :: h)) ++ started_ids r)) as Hnd'.
  { cbn [rev]. rewrite started_ids_app, <- app_assoc. rewrite started_ids_cons in Hnd.
    destruct o; cbn [started_ids flat_map app]; try rewrite app_nil_r; exact Hnd. }
  pose proof (spec_trace_ids (o :: h) r) as Hsub. specialize (IH (o :: h) Hnd').
  destruct (spec_rows (o :: h) r) as [[tr mi] tg]. destruct (rows_of h o) as [[tr0 mi0] tg0] eqn:Er.
  cbn [fst snd] in *. rewrite map_app.
  destruct o as [| id e | | | | |]; cbn [rows_of] in Er; try (injection Er as <- _ _; exact IH).
  destruct (live id h) eqn:Hl; [|injection Er as <- _ _; exact IH].
  destruct (split_start id h []) as [[[b st] older]|]; [|injection Er as <- _ _; exact IH].
  destruct st; try (injection Er as <- _ _; exact IH).
  destruct (on_after_h older || existsb is_start_tracing b); injection Er as <- _ _; [|exact IH].
  cbn [map app row_id trace_row nth]. constructor; [|exact IH].
  intro Hin. destruct (Hsub id Hin) as [Hc|Hc].
  - cbn [live] in Hc. rewrite N.eqb_refl in Hc. discriminate.
  - (* started again later: the ID would be started twice *)
    apply live_started in Hl. rewrite started_ids_cons in Hnd. cbn in Hnd.
    clear - Hl Hc Hnd. apply (proj2 (started_ids_rev_In id h)) in Hl.
    induction (started_ids (rev h)) as [|x l IHl]; [destruct Hl|].
    cbn [app] in Hnd. inversion Hnd as [|? ? Hni Hnd']; subst. destruct Hl as [->|Hl]; [|auto].
    apply Hni. apply in_or_app. right. exact Hc.
Qed.

(** with task IDs that are never reused, no two rows carry the same ID *)
Theorem recorded_once ops : NoDup (started_ids ops) -> NoDup (map row_id (fst (fst (spec_rows [] ops)))).
Proof. intro H. apply recorded_once_gen. exact H. Qed.

(** at most one milestone per instant *)
Lemma fpi_times_in seen l r : In r (first_per_instant seen l) -> ~ In (mile_time r) seen.
Proof.
  revert seen. induction l as [|x l IH]; intros seen H; [destruct H|].
  cbn [first_per_instant] in H. destruct (existsb (N.eqb (mile_time x)) seen) eqn:E.
  - apply IH. exact H.
  - destruct H as [<-|H].
    + intro Hin. apply existsb_eqb_In in Hin. congruence.
    + specialize (IH _ H). intro Hin. apply IH. right. exact Hin.
Qed.

Theorem fpi_nodup seen l : NoDup (map mile_time (first_per_instant seen l)).
Proof.
  revert seen. induction l as [|x l IH]; intro seen; [constructor|].
  cbn [first_per_instant]. destruct (existsb (N.eqb (mile_time x)) seen); [apply IH|].
  cbn [map]. constructor; [|apply IH].
  intro Hin. apply in_map_iff in Hin. destruct Hin as [r [Ht Hr]].
  apply fpi_times_in in Hr. apply Hr. left. symmetry. exact Ht.
Qed.
