(** C36 — proofs, part 5: which tags and milestones wait for the start of a task. *)
From Akita Require Import Lib.Base C36.Model C36.Spec C36.Proofs1 C36.Proofs2 C36.Proofs3.
Local Open Scope N_scope.

Definition about (id : N) (o : op) : bool := starts_of id o || ends_of id o.

Lemma pend_app id a2 : forall h,
  forallb (fun o => negb (about id o)) a2 = true ->
  pend_tags id (rev a2 ++ h) = pend_tags id h ++ tags_of id a2 /\
  pend_miles id (rev a2 ++ h) = pend_miles id h ++ miles_of id a2.
Proof.
  induction a2 as [|o a2 IH] using rev_ind; intros h H.
  - cbn. rewrite !app_nil_r. auto.
  - rewrite forallb_app in H. apply andb_true_iff in H. destruct H as [H Ho]. cbn in Ho.
    rewrite andb_true_r in Ho. apply negb_true_iff in Ho. unfold about in Ho.
    apply orb_false_iff in Ho. destruct Ho as [Hs He].
    rewrite rev_unit. cbn [app]. destruct (IH h H) as [I1 I2].
    rewrite tags_of_app, miles_of_app, !app_assoc, <- I1, <- I2.
    destruct o; cbn [starts_of ends_of] in Hs, He;
      cbn [pend_tags pend_miles tags_of miles_of flat_map app];
      rewrite ?Hs, ?He, ?app_nil_r; auto.
    + destruct (task =? id); rewrite ?app_nil_r; auto.
    + destruct (task =? id); rewrite ?app_nil_r; auto.
Qed.

Lemma pend_reset id x h : about id x = true -> pend_tags id (x :: h) = [] /\ pend_miles id (x :: h) = [].
Proof.
  unfold about. destruct x; cbn [starts_of ends_of pend_tags pend_miles orb]; try discriminate;
    rewrite ?orb_false_r; intros ->; auto.
Qed.

(** The tags / milestones recorded with a task besides those that arrive while it
    runs are exactly the ones that mention its ID since the last start or end of
    that ID (or since the beginning). *)
Theorem pending_notes id a1 a2 :
  (a1 = [] \/ exists a0 x, a1 = a0 ++ [x] /\ about id x = true) ->
  forallb (fun o => negb (about id o)) a2 = true ->
  pend_tags id (rev (a1 ++ a2)) = tags_of id a2 /\ pend_miles id (rev (a1 ++ a2)) = miles_of id a2.
Proof.
  intros Ha1 Ha2. rewrite rev_app_distr. destruct (pend_app id a2 (rev a1) Ha2) as [-> ->].
  destruct Ha1 as [->|[a0 [x [-> Hx]]]]; [cbn; auto|].
  rewrite rev_unit. destruct (pend_reset id x (rev a0) Hx) as [-> ->]. auto.
Qed.
