(** C36 — proofs, part 5: the tags and milestones recorded with a task are all the
    tags and milestones the history holds for it. *)
From Akita Require Import Lib.Base C36.Model C36.Spec C36.Proofs1 C36.Proofs2 C36.Proofs3.
Local Open Scope N_scope.

Definition notes_task (id : N) (o : op) : bool :=
  match o with OTag _ task _ _ => task =? id | OMile _ task _ _ _ => task =? id | _ => false end.

Lemma no_notes_empty id l : forallb (fun o => negb (notes_task id o)) l = true ->
  tags_of id l = [] /\ miles_of id l = [].
Proof.
  induction l as [|o r IH]; intro H; [split; reflexivity|].
  cbn [forallb] in H. apply andb_true_iff in H. destruct H as [Ho Hr]. destruct (IH Hr) as [I1 I2].
  apply negb_true_iff in Ho. unfold tags_of, miles_of in *. cbn [flat_map]. rewrite I1, I2.
  destruct o; cbn [notes_task] in Ho; try rewrite Ho; split; reflexivity.
Qed.

Lemma wf_prefix_live a o rest : wf_ops (a ++ o :: rest) = true -> wf_h (o :: rev a) = true.
Proof.
  unfold wf_ops. rewrite rev_app_distr. cbn [rev]. rewrite <- app_assoc. cbn [app]. apply wf_h_app.
Qed.

Lemma started_ids_rev_In i l : In i (started_ids (rev l)) <-> In i (started_ids l).
Proof.
  unfold started_ids. rewrite !in_flat_map. split; intros [e [H1 H2]]; exists e; split; auto;
    [apply in_rev; exact H1|apply in_rev; rewrite rev_involutive; exact H1].
Qed.

Lemma started_ids_app a b : started_ids (a ++ b) = started_ids a ++ started_ids b.
Proof. unfold started_ids. apply flat_map_app. Qed.

Theorem notes_between a id p k w l s b e c :
  wf_ops (a ++ OStart id p k w l s :: b ++ OEnd id e :: c) = true ->
  tags_of id (a ++ OStart id p k w l s :: b ++ OEnd id e :: c) = tags_of id b /\
  miles_of id (a ++ OStart id p k w l s :: b ++ OEnd id e :: c) = miles_of id b.
Proof.
  intro Hwf.
  assert (forallb (fun o => negb (notes_task id o)) a = true) as Ha.
  { apply forallb_forall. intros x Hx. apply negb_true_iff. destruct (notes_task id x) eqn:E; [exfalso|reflexivity].
    apply in_split in Hx. destruct Hx as [a1 [a2 ->]].
    (* the note needs the task to be running, i.e. started before it ... *)
    assert (live id (rev a1) = true) as Hl.
    { rewrite <- app_assoc in Hwf. cbn [app] in Hwf. apply wf_prefix_live in Hwf.
      apply wf_h_cons in Hwf. destruct Hwf as [_ [_ Hop]].
      destruct x; cbn [notes_task] in E; try discriminate; apply N.eqb_eq in E; subst; exact Hop. }
    (* ... but the task's (only) start comes later *)
    assert (wf_h (OStart id p k w l s :: rev (a1 ++ x :: a2)) = true) as Hs by (eapply wf_prefix_live; exact Hwf).
    apply wf_h_cons in Hs. destruct Hs as [_ [_ [_ [Hns _]]]].
    unfold live in Hl. apply andb_true_iff in Hl. destruct Hl as [Hl _]. apply existsb_eqb_In in Hl.
    assert (existsb (N.eqb id) (started_ids (rev (a1 ++ x :: a2))) = true) as Hc; [|congruence].
    apply existsb_eqb_In. apply started_ids_rev_In. rewrite started_ids_app. apply in_or_app. left.
    apply started_ids_rev_In. exact Hl. }
  assert (forallb (fun o => negb (notes_task id o)) c = true) as Hc.
  { apply forallb_forall. intros x Hx. apply negb_true_iff. destruct (notes_task id x) eqn:E; [exfalso|reflexivity].
    apply in_split in Hx. destruct Hx as [c1 [c2 ->]].
    assert (wf_ops ((a ++ OStart id p k w l s :: b ++ OEnd id e :: c1) ++ x :: c2) = true) as Hwf'.
    { rewrite <- Hwf. f_equal. rewrite <- !app_assoc. cbn [app]. rewrite <- !app_assoc. reflexivity. }
    apply wf_prefix_live in Hwf'. apply wf_h_cons in Hwf'. destruct Hwf' as [_ [_ Hop]].
    assert (live id (rev (a ++ OStart id p k w l s :: b ++ OEnd id e :: c1)) = true) as Hl.
    { destruct x; cbn [notes_task] in E; try discriminate; apply N.eqb_eq in E; subst; exact Hop. }
    unfold live in Hl. apply andb_true_iff in Hl. destruct Hl as [_ Hl]. apply negb_true_iff in Hl.
    assert (existsb (N.eqb id) (ended_ids (rev (a ++ OStart id p k w l s :: b ++ OEnd id e :: c1))) = true) as Hcc; [|congruence].
    apply existsb_eqb_In. apply ended_ids_rev_In. rewrite !ended_ids_app. apply in_or_app. right.
    change (OStart id p k w l s :: b ++ OEnd id e :: c1) with ([OStart id p k w l s] ++ b ++ OEnd id e :: c1).
    rewrite !ended_ids_app. apply in_or_app. right. apply in_or_app. right. left. reflexivity. }
  destruct (no_notes_empty id a Ha) as [A1 A2]. destruct (no_notes_empty id c Hc) as [C1 C2].
  change (a ++ OStart id p k w l s :: b ++ OEnd id e :: c)
    with (a ++ [OStart id p k w l s] ++ b ++ [OEnd id e] ++ c).
  rewrite !tags_of_app, !miles_of_app, A1, A2, C1, C2. cbn [tags_of miles_of flat_map app]. rewrite !app_nil_r.
  split; reflexivity.
Qed.
