(** C36 — proofs, part 1: the DBTracer state machine inserts exactly the rows of the
    specification ([spec_rows], [windows]) for every well-formed history. *)
From Akita Require Import Lib.Base C36.Model C36.Spec.
Local Open Scope N_scope.

(** ---------------------------------------------------------------- maps *)
Lemma tget_tdel_same k m : tget k (tdel k m) = None.
Proof.
  induction m as [|[k' v] r IH]; cbn [tdel tget]; [reflexivity|].
  destruct (k' =? k) eqn:E; [exact IH|]. cbn [tget]. rewrite E. exact IH.
Qed.

Lemma tget_tdel_other k k' m : k' <> k -> tget k' (tdel k m) = tget k' m.
Proof.
  intro Hne. induction m as [|[k0 v] r IH]; cbn [tdel tget]; [reflexivity|].
  destruct (k0 =? k) eqn:E.
  - apply N.eqb_eq in E. subst k0.
    destruct (k =? k') eqn:E2; [apply N.eqb_eq in E2; congruence|exact IH].
  - cbn [tget]. destruct (k0 =? k'); [reflexivity|exact IH].
Qed.

Lemma tget_tset_same k v m : tget k (tset k v m) = Some v.
Proof. unfold tset. cbn [tget]. rewrite N.eqb_refl. reflexivity. Qed.

Lemma tget_tset_other k k' v m : k' <> k -> tget k' (tset k v m) = tget k' m.
Proof.
  intro Hne. unfold tset. cbn [tget].
  destruct (k =? k') eqn:E; [apply N.eqb_eq in E; congruence|]. apply tget_tdel_other. exact Hne.
Qed.

Definition set_rec (r : rt) : rt :=
  mk_rt (r_id r) (r_parent r) (r_kind r) (r_what r) (r_loc r) (r_start r) (r_tags r) (r_miles r)
        (r_started r || r_rec r) (r_started r).

Lemma tget_mark_all k m : tget k (mark_all m) = option_map set_rec (tget k m).
Proof.
  induction m as [|[k' v] r IH]; [reflexivity|]. cbn [mark_all map tget fst snd].
  destruct (k' =? k); [reflexivity|exact IH].
Qed.

(** ---------------------------------------------------------------- histories *)
Lemma existsb_eqb_In x l : existsb (N.eqb x) l = true <-> In x l.
Proof.
  rewrite existsb_exists. split.
  - intros [y [Hy E]]. apply N.eqb_eq in E. subst. exact Hy.
  - intro H. exists x. split; [exact H|apply N.eqb_refl].
Qed.

Definition tag_of (id : N) (o : op) : bool := match o with OTag _ task _ _ => task =? id | _ => false end.
Definition mile_of (id : N) (o : op) : bool := match o with OMile _ task _ _ _ => task =? id | _ => false end.

Lemma live_cons_other id o h : starts_of id o = false -> ends_of id o = false ->
  live id (o :: h) = live id h.
Proof.
  intros Hs He. destruct o; cbn [live starts_of ends_of] in *; try reflexivity.
  - rewrite Hs. reflexivity.
  - rewrite He. reflexivity.
Qed.

Lemma pend_tags_cons_other id o h : starts_of id o = false -> ends_of id o = false -> tag_of id o = false ->
  pend_tags id (o :: h) = pend_tags id h.
Proof.
  intros Hs He Ht. destruct o; cbn [pend_tags starts_of ends_of tag_of] in *; try reflexivity.
  - rewrite Hs. reflexivity.
  - rewrite He. reflexivity.
  - rewrite Ht. reflexivity.
Qed.

Lemma pend_miles_cons_other id o h : starts_of id o = false -> ends_of id o = false -> mile_of id o = false ->
  pend_miles id (o :: h) = pend_miles id h.
Proof.
  intros Hs He Ht. destruct o; cbn [pend_miles starts_of ends_of mile_of] in *; try reflexivity.
  - rewrite Hs. reflexivity.
  - rewrite He. reflexivity.
  - rewrite Ht. reflexivity.
Qed.

Lemma split_start_acc id h : forall acc,
  split_start id h acc =
  match split_start id h [] with
  | Some (b, s, older) => Some (b ++ acc, s, older)
  | None => None
  end.
Proof.
  induction h as [|o r IH]; intro acc; [reflexivity|].
  cbn [split_start]. destruct (starts_of id o); [reflexivity|].
  rewrite (IH (o :: acc)), (IH [o]).
  destruct (split_start id r []) as [[[b s] older]|]; [|reflexivity].
  rewrite <- app_assoc. reflexivity.
Qed.

Lemma split_start_cons_other id o h : starts_of id o = false ->
  split_start id (o :: h) [] =
  match split_start id h [] with
  | Some (b, s, older) => Some (b ++ [o], s, older)
  | None => None
  end.
Proof. intro H. cbn [split_start]. rewrite H. apply split_start_acc. Qed.

Lemma tags_of_app id a b : tags_of id (a ++ b) = tags_of id a ++ tags_of id b.
Proof. unfold tags_of. apply flat_map_app. Qed.
Lemma miles_of_app id a b : miles_of id (a ++ b) = miles_of id a ++ miles_of id b.
Proof. unfold miles_of. apply flat_map_app. Qed.

Lemma tags_of_single id o : tag_of id o = false -> tags_of id [o] = [].
Proof. destruct o; cbn [tag_of tags_of flat_map app]; try reflexivity. intros ->. reflexivity. Qed.
Lemma miles_of_single id o : mile_of id o = false -> miles_of id [o] = [].
Proof. destruct o; cbn [mile_of miles_of flat_map app]; try reflexivity. intros ->. reflexivity. Qed.

Lemma existsb_app_single {A} (f : A -> bool) l x : existsb f (l ++ [x]) = existsb f l || f x.
Proof. rewrite existsb_app. cbn [existsb]. rewrite orb_false_r. reflexivity. Qed.

(** first_per_instant, one more row at the end *)
Lemma fpi_snoc l : forall seen r,
  first_per_instant seen (l ++ [r]) =
  first_per_instant seen l ++
  (if existsb (N.eqb (mile_time r)) seen || existsb (fun x => mile_time x =? mile_time r) l then [] else [r]).
Proof.
  induction l as [|x l IH]; intros seen r.
  - cbn [app first_per_instant existsb]. rewrite orb_false_r.
    destruct (existsb (N.eqb (mile_time r)) seen); reflexivity.
  - cbn [app first_per_instant existsb].
    destruct (existsb (N.eqb (mile_time x)) seen) eqn:E.
    + rewrite IH.
      destruct (mile_time x =? mile_time r) eqn:E2; [|reflexivity].
      apply N.eqb_eq in E2. rewrite <- E2, E. reflexivity.
    + cbn [app]. rewrite IH. cbn [existsb]. f_equal.
      rewrite (N.eqb_sym (mile_time r) (mile_time x)).
      destruct (mile_time x =? mile_time r); cbn [orb]; [rewrite orb_true_r; reflexivity|reflexivity].
Qed.

Lemma fpi_times l : forall seen t,
  existsb (fun x => mile_time x =? t) (first_per_instant seen l) =
  existsb (fun x => mile_time x =? t) l && negb (existsb (N.eqb t) seen).
Proof.
  induction l as [|x l IH]; intros seen t; [reflexivity|].
  cbn [first_per_instant existsb].
  destruct (existsb (N.eqb (mile_time x)) seen) eqn:E.
  - rewrite IH. destruct (mile_time x =? t) eqn:E2; [|reflexivity].
    apply N.eqb_eq in E2. subst t. rewrite E. cbn. rewrite andb_false_r. reflexivity.
  - cbn [existsb]. rewrite IH. cbn [existsb].
    destruct (mile_time x =? t) eqn:E2.
    + apply N.eqb_eq in E2. subst t. rewrite E. reflexivity.
    + rewrite (N.eqb_sym t (mile_time x)), E2. reflexivity.
Qed.

(** what AddMilestone does to the deduplicated list = one more raw milestone *)
Lemma fpi_add l mid task t kind what :
  (if existsb (fun x => mile_time x =? t) (first_per_instant [] l) then first_per_instant [] l
   else first_per_instant [] l ++ [mile_row mid task t kind what]) =
  first_per_instant [] (l ++ [mile_row mid task t kind what]).
Proof.
  rewrite fpi_snoc, fpi_times. cbn [existsb negb orb]. rewrite andb_true_r.
  change (mile_time (mile_row mid task t kind what)) with t.
  destruct (existsb (fun x => mile_time x =? t) l); [rewrite app_nil_r|]; reflexivity.
Qed.

(** ---------------------------------------------------------------- wf_h facts *)
Lemma wf_h_cons o r : wf_h (o :: r) = true ->
  wf_h r = true /\
  (match r with [] => True | p :: _ => is_terminate p = false end) /\
  (match o with
   | OStart id _ kind what loc _ => valid_start id kind what loc = true /\ live id r = false
   | _ => True
   end).
Proof.
  cbn [wf_h]. intro H. apply andb_true_iff in H. destruct H as [H H3].
  apply andb_true_iff in H. destruct H as [H1 H2]. repeat split.
  - exact H1.
  - destruct r; [exact I|]. apply andb_true_iff in H2. destruct H2 as [_ H2].
    destruct (is_terminate o0); [discriminate|reflexivity].
  - destruct o; auto.
    apply andb_true_iff in H3. destruct H3 as [Ha Hb]. split; [exact Ha|].
    destruct (live id r); [discriminate|reflexivity].
Qed.

Lemma wf_h_app a b : wf_h (a ++ b) = true -> wf_h b = true.
Proof.
  induction a as [|x a IH]; [auto|]. cbn [app]. intro H. apply wf_h_cons in H. apply IH. tauto.
Qed.

Lemma on_after_h_cons o h :
  on_after_h (o :: h) =
  match o with
  | OStartTracing _ => true
  | OStopTracing _ | OTerminate _ => false
  | _ => on_after_h h
  end.
Proof. destruct o; reflexivity. Qed.

(** ---------------------------------------------------------------- the invariant *)
Definition rt_spec (id : N) (h : list op) (r : rt) : Prop :=
  exists between parent kind what loc t older,
    split_start id h [] = Some (between, OStart id parent kind what loc t, older) /\
    r = mk_rt id parent kind what loc t (pend_tags id older ++ tags_of id between)
              (first_per_instant [] (pend_miles id older ++ miles_of id between))
              (on_after_h older || existsb is_start_tracing between) true.

Definition placeholder (id : N) (h : list op) : rt :=
  mk_rt id 0 0 0 0 0 (pend_tags id h) (first_per_instant [] (pend_miles id h)) false false.

(** what the table holds for an ID after the history [h] *)
Definition entry_ok (id : N) (h : list op) (e : option rt) : Prop :=
  match e with
  | Some r => if r_started r then live id h = true /\ rt_spec id h r
              else live id h = false /\ r = placeholder id h
  | None => live id h = false /\ pend_tags id h = [] /\ pend_miles id h = []
  end.

Record inv (h : list op) (s : st) : Prop := mk_inv {
  i_term : s_term s = false;
  i_tracing : s_tracing s = on_after_h h;
  i_tasks : exists m, s_tasks s = Some m /\ forall id, entry_ok id h (tget id m);
  i_marked : s_tracing s = true ->
             forall m id r, s_tasks s = Some m -> tget id m = Some r -> r_started r = true -> r_rec r = true }.

Lemma inv0 : inv [] st0.
Proof.
  constructor; try reflexivity.
  - exists []. split; [reflexivity|]. intro id. cbn. auto.
  - cbn. discriminate.
Qed.

(** the invariant does not look at the tables *)
Lemma inv_tabs h tk tr ws tm p d p' d' :
  inv h (mk_st tk tr ws tm p d) -> inv h (mk_st tk tr ws tm p' d').
Proof. intros [A B C D]. constructor; assumption. Qed.

(** a call that does not concern an ID leaves its entry right *)
Lemma entry_other id h e o :
  starts_of id o = false -> ends_of id o = false -> tag_of id o = false -> mile_of id o = false ->
  is_start_tracing o = false ->
  entry_ok id h e -> entry_ok id (o :: h) e.
Proof.
  intros Hs He Ht Hm Hst Hok. unfold entry_ok in *.
  rewrite (live_cons_other id o h Hs He).
  destruct e as [r|].
  - destruct (r_started r).
    + destruct Hok as [Hl [b [p [k [w [l [t [older [Hsp Hr]]]]]]]]]. split; [exact Hl|].
      exists (b ++ [o]), p, k, w, l, t, older. split.
      * rewrite (split_start_cons_other id o h Hs), Hsp. reflexivity.
      * rewrite tags_of_app, miles_of_app, existsb_app_single, (tags_of_single id o Ht), (miles_of_single id o Hm), Hst.
        rewrite !app_nil_r, orb_false_r. exact Hr.
    + destruct Hok as [Hl Hr]. split; [exact Hl|]. unfold placeholder in *.
      rewrite (pend_tags_cons_other id o h Hs He Ht), (pend_miles_cons_other id o h Hs He Hm). exact Hr.
  - rewrite (pend_tags_cons_other id o h Hs He Ht), (pend_miles_cons_other id o h Hs He Hm). exact Hok.
Qed.

(** all rows handed to the recorder so far, per table *)
Definition all_trace (s : st) : list row := t_trace (s_db s) ++ t_trace (s_pend s).
Definition all_mile (s : st) : list row := t_mile (s_db s) ++ t_mile (s_pend s).
Definition all_tag (s : st) : list row := t_tag (s_db s) ++ t_tag (s_pend s).
Definition all_seg (s : st) : list row := t_seg (s_db s) ++ t_seg (s_pend s).

Definition open_of (s : st) : option N := if s_tracing s then Some (s_wstart s) else None.

(** the rows one call adds, from the specification's point of view *)
Definition rows_of (h : list op) (o : op) : list row * list row * list row :=
  match o with
  | OEnd id e =>
      if live id h then
        match split_start id h [] with
        | Some (between, OStart _ parent kind what loc s, older) =>
            if on_after_h older || existsb is_start_tracing between
            then ([trace_row id parent kind what loc s e],
                  first_per_instant [] (pend_miles id older ++ miles_of id between),
                  pend_tags id older ++ tags_of id between)
            else ([], [], [])
        | _ => ([], [], [])
        end
      else ([], [], [])
  | _ => ([], [], [])
  end.

Definition seg_of (open : option N) (o : op) : list row :=
  match o, open with
  | OStopTracing t, Some s => [seg_row s t]
  | OTerminate t, Some s => [seg_row s t]
  | _, _ => []
  end.

Definition open_after (open : option N) (o : op) : option N :=
  match o with
  | OStartTracing t => match open with None => Some t | Some _ => open end
  | OStopTracing _ | OTerminate _ => None
  | _ => open
  end.

Lemma spec_rows_cons h o r :
  spec_rows h (o :: r) =
  let '(tr, mi, tg) := spec_rows (o :: h) r in
  let '(tr0, mi0, tg0) := rows_of h o in (tr0 ++ tr, mi0 ++ mi, tg0 ++ tg).
Proof.
  cbn [spec_rows]. destruct (spec_rows (o :: h) r) as [[tr mi] tg].
  destruct o; try reflexivity. cbn [rows_of]. destruct (live id h); [|reflexivity].
  destruct (split_start id h []) as [[[b s] older]|]; [|reflexivity].
  destruct s; try reflexivity.
  destruct (on_after_h older || existsb is_start_tracing b); reflexivity.
Qed.

Lemma windows_cons o r open : windows (o :: r) open = seg_of open o ++ windows r (open_after open o).
Proof. destruct o; destruct open; reflexivity. Qed.

Ltac other_entry Htasks id0 :=
  apply entry_other; try reflexivity; try (cbn; apply N.eqb_neq; congruence); apply (Htasks id0).

(** one step: the invariant is kept, no panic, and exactly the specified rows are added *)
Lemma step_ok h s o : inv h s -> wf_h (o :: h) = true ->
  let s' := fst (step s o) in
  snd (step s o) = false /\
  (is_terminate o = false -> inv (o :: h) s') /\
  all_trace s' = all_trace s ++ fst (fst (rows_of h o)) /\
  all_mile s' = all_mile s ++ snd (fst (rows_of h o)) /\
  all_tag s' = all_tag s ++ snd (rows_of h o) /\
  all_seg s' = all_seg s ++ seg_of (open_of s) o /\
  open_of s' = open_after (open_of s) o /\
  (is_terminate o = true -> s_pend s' = tabs0).
Proof.
  intros [Hterm Htr [m [Hm Htasks]] Hmarked] Hwf. cbn zeta.
  apply wf_h_cons in Hwf. destruct Hwf as [Hwfh [_ Hop]].
  destruct o as [id parent kind what loc t|id t|tid task what t|mid task t kind what|now|now|now].
  - (* ---------------- StartTask *)
    destruct Hop as [Hvalid Hnl].
    pose proof (Htasks id) as Hid. unfold entry_ok in Hid.
    assert (exists old, (match tget id m with Some r => r | None => rt_new id end) = old /\
              r_tags old = pend_tags id h /\ r_miles old = first_per_instant [] (pend_miles id h) /\
              r_rec old = false) as [old [Hold [Ht [Hmi Hrec]]]].
    { destruct (tget id m) as [r|].
      - destruct (r_started r); [destruct Hid; congruence|]. destruct Hid as [_ ->].
        eexists. split; [reflexivity|]. cbn. auto.
      - destruct Hid as [_ [-> ->]]. eexists. split; [reflexivity|]. cbn. auto. }
    cbn [step]. rewrite Hvalid, Hm, Hold. unfold with_tasks. cbn [negb fst snd].
    unfold all_trace, all_mile, all_tag, all_seg, open_of.
    cbn [s_db s_pend s_tracing s_wstart rows_of seg_of open_after is_terminate fst snd].
    rewrite !app_nil_r. split; [reflexivity|].
    split; [|repeat split; auto; try discriminate; destruct (s_tracing s); reflexivity].
    intros _. constructor; cbn [s_term s_tracing s_tasks]; [exact Hterm|exact Htr| |].
    + eexists. split; [reflexivity|]. intro id0.
      destruct (N.eq_dec id0 id) as [->|Hd].
      * rewrite tget_tset_same. unfold entry_ok. cbn [r_started live]. rewrite N.eqb_refl.
        split; [reflexivity|].
        exists [], parent, kind, what, loc, t, h. split.
        -- cbn [split_start starts_of]. rewrite N.eqb_refl. reflexivity.
        -- cbn [tags_of miles_of flat_map existsb]. rewrite !app_nil_r, orb_false_r, Ht, Hmi, Hrec, <- Htr.
           destruct (s_tracing s); reflexivity.
      * rewrite tget_tset_other by exact Hd. other_entry Htasks id0.
    + intros Hon m' id0 r0 Hm' Hg Hst. injection Hm' as <-.
      destruct (N.eq_dec id0 id) as [->|Hd].
      * rewrite tget_tset_same in Hg. injection Hg as <-. cbn [r_rec]. rewrite Hon. reflexivity.
      * rewrite tget_tset_other in Hg by exact Hd. eapply Hmarked; eauto.
  - (* ---------------- EndTask *)
    cbn [step]. unfold with_tasks, with_pend. rewrite Hm.
    pose proof (Htasks id) as Hid. unfold entry_ok in Hid.
    assert (forall m', (forall id0, id0 <> id -> tget id0 m' = tget id0 m) -> tget id m' = None ->
              inv (OEnd id t :: h) (mk_st (Some m') (s_tracing s) (s_wstart s) (s_term s) (s_pend s) (s_db s))) as Hinv'.
    { intros m' Hsame Hnone. constructor; cbn [s_term s_tracing s_tasks]; [exact Hterm|exact Htr| |].
      - eexists. split; [reflexivity|]. intro id0.
        destruct (N.eq_dec id0 id) as [->|Hd].
        + rewrite Hnone. unfold entry_ok. cbn [live pend_tags pend_miles]. rewrite N.eqb_refl. auto.
        + rewrite (Hsame id0 Hd). other_entry Htasks id0.
      - intros Hon m'' id0 r1 Hm' Hg' Hst. injection Hm' as <-.
        destruct (N.eq_dec id0 id) as [->|Hd]; [congruence|].
        rewrite (Hsame id0 Hd) in Hg'. eapply Hmarked; eauto. }
    cbn [rows_of].
    destruct (tget id m) as [r0|] eqn:Hg.
    + destruct (r_started r0) eqn:Hst0.
      * (* a running task ends *)
        destruct Hid as [Hl [b [p [k [w [l [t0 [older [Hsp Hr]]]]]]]]]. rewrite Hl, Hsp. subst r0.
        cbn [r_rec r_id r_parent r_kind r_what r_loc r_start r_miles r_tags].
        specialize (Hinv' (tdel id m) (fun id0 Hd => tget_tdel_other id id0 m Hd) (tget_tdel_same id m)).
        destruct (on_after_h older || existsb is_start_tracing b);
          cbn [fst snd]; unfold all_trace, all_mile, all_tag, all_seg, open_of;
          cbn [s_db s_pend s_tracing s_wstart t_trace t_mile t_tag t_seg seg_of open_after is_terminate fst snd];
          rewrite ?app_nil_r, ?app_assoc;
          (split; [reflexivity|]); (split; [intros _; eapply inv_tabs; exact Hinv'|]);
          repeat split; auto; try discriminate; destruct (s_tracing s); reflexivity.
      * (* the end of an ID that was only mentioned: the placeholder goes, nothing is written *)
        destruct Hid as [Hl Hr]. rewrite Hl. subst r0. cbn [placeholder r_rec].
        specialize (Hinv' (tdel id m) (fun id0 Hd => tget_tdel_other id id0 m Hd) (tget_tdel_same id m)).
        cbn [fst snd]; unfold all_trace, all_mile, all_tag, all_seg, open_of;
          cbn [s_db s_pend s_tracing s_wstart t_trace t_mile t_tag t_seg seg_of open_after is_terminate fst snd];
          rewrite ?app_nil_r;
          (split; [reflexivity|]); (split; [intros _; exact Hinv'|]);
          repeat split; auto; try discriminate; destruct (s_tracing s); reflexivity.
    + (* unknown ID *)
      destruct Hid as [Hl _]. rewrite Hl.
      specialize (Hinv' m (fun _ _ => eq_refl) Hg).
      cbn [fst snd]; unfold all_trace, all_mile, all_tag, all_seg, open_of;
        cbn [rows_of seg_of open_after is_terminate fst snd]; rewrite ?app_nil_r;
        (split; [reflexivity|]);
        (split; [intros _; replace s with (mk_st (Some m) (s_tracing s) (s_wstart s) (s_term s) (s_pend s) (s_db s))
                   by (destruct s; cbn in *; congruence); exact Hinv'|]);
        repeat split; auto; try discriminate.
  - (* ---------------- AddTaskTag *)
    cbn [step]. unfold with_tasks. rewrite Hm.
    pose proof (Htasks task) as Hid. unfold entry_ok in Hid.
    cbn [fst snd]. unfold all_trace, all_mile, all_tag, all_seg, open_of.
    cbn [s_db s_pend s_tracing s_wstart rows_of seg_of open_after is_terminate fst snd].
    rewrite !app_nil_r. split; [reflexivity|].
    split; [|repeat split; auto; try discriminate; destruct (s_tracing s); reflexivity].
    intros _. constructor; cbn [s_term s_tracing s_tasks]; [exact Hterm|exact Htr| |].
    + eexists. split; [reflexivity|]. intro id0.
      destruct (N.eq_dec id0 task) as [->|Hd]; [|rewrite tget_tset_other by exact Hd; other_entry Htasks id0].
      rewrite tget_tset_same. unfold entry_ok.
      destruct (tget task m) as [r0|].
      * cbn [r_started]. destruct (r_started r0) eqn:Hst0.
        -- destruct Hid as [Hl [b [p [k [w [l [t0 [older [Hsp Hr]]]]]]]]].
           rewrite live_cons_other by reflexivity. split; [exact Hl|].
           exists (b ++ [OTag tid task what t]), p, k, w, l, t0, older. split.
           ++ rewrite split_start_cons_other by reflexivity. rewrite Hsp. reflexivity.
           ++ subst r0. cbn [r_id r_parent r_kind r_what r_loc r_start r_tags r_miles r_rec].
              rewrite tags_of_app, miles_of_app, existsb_app_single.
              cbn [tags_of miles_of flat_map is_start_tracing]. rewrite N.eqb_refl, !app_nil_r, orb_false_r, app_assoc.
              reflexivity.
        -- destruct Hid as [Hl Hr]. rewrite live_cons_other by reflexivity. split; [exact Hl|].
           subst r0. unfold placeholder. cbn [r_id r_parent r_kind r_what r_loc r_start r_tags r_miles r_rec pend_tags pend_miles].
           rewrite N.eqb_refl. reflexivity.
      * destruct Hid as [Hl [Hpt Hpm]]. cbn [rt_new r_started]. rewrite live_cons_other by reflexivity.
        split; [exact Hl|]. unfold placeholder. cbn [r_id r_parent r_kind r_what r_loc r_start r_tags r_miles r_rec pend_tags pend_miles].
        rewrite N.eqb_refl, Hpt, Hpm. reflexivity.
    + intros Hon m' id0 r1 Hm' Hg' Hst. injection Hm' as <-.
      destruct (N.eq_dec id0 task) as [->|Hd].
      * rewrite tget_tset_same in Hg'. injection Hg' as <-. cbn [r_rec r_started] in *.
        destruct (tget task m) as [r0|] eqn:Hg; [eapply Hmarked; eauto|cbn in Hst; discriminate].
      * rewrite tget_tset_other in Hg' by exact Hd. eapply Hmarked; eauto.
  - (* ---------------- AddMilestone *)
    cbn [step]. unfold with_tasks. rewrite Hm.
    pose proof (Htasks task) as Hid. unfold entry_ok in Hid.
    cbn [fst snd]. unfold all_trace, all_mile, all_tag, all_seg, open_of.
    cbn [s_db s_pend s_tracing s_wstart rows_of seg_of open_after is_terminate fst snd].
    rewrite !app_nil_r. split; [reflexivity|].
    split; [|repeat split; auto; try discriminate; destruct (s_tracing s); reflexivity].
    intros _. constructor; cbn [s_term s_tracing s_tasks]; [exact Hterm|exact Htr| |].
    + eexists. split; [reflexivity|]. intro id0.
      destruct (N.eq_dec id0 task) as [->|Hd]; [|rewrite tget_tset_other by exact Hd; other_entry Htasks id0].
      rewrite tget_tset_same. unfold entry_ok.
      destruct (tget task m) as [r0|].
      * cbn [r_started]. destruct (r_started r0) eqn:Hst0.
        -- destruct Hid as [Hl [b [p [k [w [l [t0 [older [Hsp Hr]]]]]]]]].
           rewrite live_cons_other by reflexivity. split; [exact Hl|].
           exists (b ++ [OMile mid task t kind what]), p, k, w, l, t0, older. split.
           ++ rewrite split_start_cons_other by reflexivity. rewrite Hsp. reflexivity.
           ++ subst r0. cbn [r_id r_parent r_kind r_what r_loc r_start r_tags r_miles r_rec].
              rewrite tags_of_app, miles_of_app, existsb_app_single.
              cbn [tags_of miles_of flat_map is_start_tracing]. rewrite N.eqb_refl, !app_nil_r, orb_false_r, app_assoc.
              rewrite fpi_add. reflexivity.
        -- destruct Hid as [Hl Hr]. rewrite live_cons_other by reflexivity. split; [exact Hl|].
           subst r0. unfold placeholder. cbn [r_id r_parent r_kind r_what r_loc r_start r_tags r_miles r_rec pend_tags pend_miles].
           rewrite N.eqb_refl, fpi_add. reflexivity.
      * destruct Hid as [Hl [Hpt Hpm]]. cbn [rt_new r_started]. rewrite live_cons_other by reflexivity.
        split; [exact Hl|]. unfold placeholder. cbn [r_id r_parent r_kind r_what r_loc r_start r_tags r_miles r_rec pend_tags pend_miles].
        rewrite N.eqb_refl, Hpt, Hpm. reflexivity.
    + intros Hon m' id0 r1 Hm' Hg' Hst. injection Hm' as <-.
      destruct (N.eq_dec id0 task) as [->|Hd].
      * rewrite tget_tset_same in Hg'. injection Hg' as <-. cbn [r_rec r_started] in *.
        destruct (tget task m) as [r0|] eqn:Hg; [eapply Hmarked; eauto|cbn in Hst; discriminate].
      * rewrite tget_tset_other in Hg' by exact Hd. eapply Hmarked; eauto.
  - (* ---------------- StartTracing *)
    assert (forall id0 e, entry_ok id0 h e ->
              (forall r, e = Some r -> r_started r = true -> r_rec (set_rec r) = true) ->
              entry_ok id0 (OStartTracing now :: h) (option_map set_rec e)) as Hmark.
    { intros id0 e Hok _. unfold entry_ok in *. rewrite live_cons_other by reflexivity.
      destruct e as [r1|]; cbn [option_map].
      - cbn [set_rec r_started]. destruct (r_started r1) eqn:Hst1.
        + destruct Hok as [Hl [b [p [k [w [l [t0 [older [Hsp Hr]]]]]]]]]. split; [exact Hl|].
          exists (b ++ [OStartTracing now]), p, k, w, l, t0, older. split.
          * rewrite split_start_cons_other by reflexivity. rewrite Hsp. reflexivity.
          * subst r1. unfold set_rec. cbn [r_id r_parent r_kind r_what r_loc r_start r_tags r_miles r_rec r_started].
            rewrite tags_of_app, miles_of_app, existsb_app_single.
            cbn [tags_of miles_of flat_map is_start_tracing orb]. rewrite !app_nil_r, !orb_true_r. reflexivity.
        + destruct Hok as [Hl Hr]. split; [exact Hl|]. subst r1. reflexivity.
      - rewrite pend_tags_cons_other, pend_miles_cons_other by reflexivity. exact Hok. }
    cbn [step]. destruct (s_tracing s) eqn:Hon.
    + (* already on: nothing changes; every running task is already marked *)
      cbn [fst snd]. unfold all_trace, all_mile, all_tag, all_seg, open_of. rewrite Hon.
      cbn [rows_of seg_of open_after is_terminate fst snd]. rewrite !app_nil_r.
      split; [reflexivity|]. split; [|repeat split; auto; discriminate].
      intros _. constructor.
      * exact Hterm.
      * rewrite Hon. reflexivity.
      * exists m. split; [exact Hm|]. intro id0.
        specialize (Hmark id0 (tget id0 m) (Htasks id0)).
        destruct (tget id0 m) as [r1|] eqn:Hg; cbn [option_map] in Hmark.
        -- assert (set_rec r1 = r1) as <-;
             [|apply Hmark; intros r _ Hs; unfold set_rec; cbn [r_rec]; rewrite Hs; reflexivity].
           unfold set_rec. destruct (r_started r1) eqn:Hst1; cbn [orb].
           ++ pose proof (Hmarked eq_refl m id0 r1 Hm Hg Hst1) as Hrec.
              clear - Hrec Hst1. destruct r1; cbn in *; subst; reflexivity.
           ++ clear - Hst1. destruct r1; cbn in *; subst; reflexivity.
        -- apply Hmark. intros; discriminate.
      * intros _ m' id0 r1 Hm' Hg' Hst. eapply Hmarked; eauto.
    + cbn [fst snd]. unfold all_trace, all_mile, all_tag, all_seg, open_of. rewrite Hon.
      cbn [s_db s_pend s_tracing s_wstart rows_of seg_of open_after is_terminate fst snd]. rewrite !app_nil_r.
      split; [reflexivity|]. split; [|repeat split; auto; discriminate].
      intros _. constructor; cbn [s_term s_tracing s_tasks]; [exact Hterm|reflexivity| |].
      * rewrite Hm. eexists. split; [reflexivity|]. intro id0. rewrite tget_mark_all.
        apply Hmark; [apply Htasks|]. intros r _ Hst. unfold set_rec. cbn [r_rec]. rewrite Hst. reflexivity.
      * intros _ m' id0 r1 Hm' Hg' Hst. rewrite Hm in Hm'. injection Hm' as <-.
        rewrite tget_mark_all in Hg'. destruct (tget id0 m) as [r2|]; [|discriminate].
        injection Hg' as <-. cbn [set_rec r_rec r_started] in *. rewrite Hst. reflexivity.
  - (* ---------------- StopTracing *)
    cbn [step]. destruct (s_tracing s) eqn:Hon.
    + cbn [fst snd]. unfold stop_body, flush, all_trace, all_mile, all_tag, all_seg, open_of. rewrite Hon.
      cbn [s_db s_pend s_tracing s_wstart t_trace t_mile t_tag t_seg tabs_app tabs0 rows_of seg_of open_after
           is_terminate fst snd].
      rewrite !app_nil_r, ?app_assoc. split; [reflexivity|]. split; [|repeat split; auto; discriminate].
      intros _. constructor; cbn [s_term s_tracing s_tasks]; [exact Hterm|reflexivity| |discriminate].
      exists m. split; [exact Hm|]. intro id0. other_entry Htasks id0.
    + cbn [fst snd]. unfold all_trace, all_mile, all_tag, all_seg, open_of. rewrite Hon.
      cbn [rows_of seg_of open_after is_terminate fst snd]. rewrite !app_nil_r.
      split; [reflexivity|]. split; [|repeat split; auto; discriminate].
      intros _. constructor.
      * exact Hterm.
      * rewrite Hon. reflexivity.
      * exists m. split; [exact Hm|]. intro id0. other_entry Htasks id0.
      * rewrite Hon. discriminate.
  - (* ---------------- Terminate *)
    cbn [step]. rewrite Hterm. cbn [s_tracing s_tasks s_wstart s_term s_pend s_db].
    destruct (s_tracing s) eqn:Hon;
      unfold stop_body, flush; cbn [fst snd s_tracing s_tasks s_wstart s_term s_pend s_db];
      unfold all_trace, all_mile, all_tag, all_seg, open_of; rewrite ?Hon;
      cbn [s_db s_pend s_tracing s_wstart t_trace t_mile t_tag t_seg tabs_app tabs0 rows_of seg_of open_after
           is_terminate fst snd];
      rewrite ?app_nil_r, ?app_assoc;
      (split; [reflexivity|]); (split; [discriminate|]); repeat split; auto.
Qed.
