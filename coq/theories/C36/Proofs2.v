(** C36 — proofs, part 2: whole histories. *)
From Akita Require Import Lib.Base C36.Model C36.Spec C36.Proofs1.
Local Open Scope N_scope.

Definition is_some {A} (o : option A) : bool := match o with Some _ => true | None => false end.

Lemma open_of_tracing s : is_some (open_of s) = s_tracing s.
Proof. unfold open_of. destruct (s_tracing s); reflexivity. Qed.

Lemma tracing_on_cons o r cur :
  tracing_on (o :: r) cur = tracing_on r (is_some (open_after (if cur then Some 0 else None) o)).
Proof. destruct o; destruct cur; reflexivity. Qed.

Lemma is_some_open_after a b o : is_some a = is_some b -> is_some (open_after a o) = is_some (open_after b o).
Proof. destruct a; destruct b; destruct o; cbn; congruence. Qed.

Lemma nothing_after_terminate r t h : wf_h (rev r ++ OTerminate t :: h) = true -> r = [].
Proof.
  destruct r as [|x r']; [reflexivity|]. intro H. exfalso.
  cbn [rev] in H. rewrite <- app_assoc in H. cbn [app] in H. apply wf_h_app in H.
  apply wf_h_cons in H. destruct H as [_ [H _]]. cbn in H. discriminate.
Qed.

Definition ends_term (ops : list op) : bool :=
  match rev ops with OTerminate _ :: _ => true | _ => false end.

Lemma ends_term_cons o r : r <> [] -> ends_term (o :: r) = ends_term r.
Proof.
  intro H. unfold ends_term. cbn [rev].
  destruct (rev r) as [|x l] eqn:E; [|reflexivity].
  exfalso. apply H. rewrite <- (rev_involutive r), E. reflexivity.
Qed.

Theorem run_ok ops : forall h s, inv h s -> wf_h (rev ops ++ h) = true ->
  let s' := fst (run_from s ops) in
  forallb negb (snd (run_from s ops)) = true /\
  all_trace s' = all_trace s ++ fst (fst (spec_rows h ops)) /\
  all_mile s' = all_mile s ++ snd (fst (spec_rows h ops)) /\
  all_tag s' = all_tag s ++ snd (spec_rows h ops) /\
  all_seg s' = all_seg s ++ windows ops (open_of s) /\
  s_tracing s' = tracing_on ops (s_tracing s) /\
  (ends_term ops = true -> s_pend s' = tabs0).
Proof.
  induction ops as [|o r IH]; intros h s Hinv Hwf.
  - cbn. rewrite !app_nil_r. repeat split; auto. discriminate.
  - cbn [rev] in Hwf. rewrite <- app_assoc in Hwf. cbn [app] in Hwf.
    pose proof (wf_h_app _ _ Hwf) as Hwfo.
    destruct (step_ok h s o Hinv Hwfo) as [Hp [Hi [Htr [Hmi [Htg [Hsg [Hop Hpend]]]]]]].
    cbn [run_from]. destruct (step s o) as [s1 p1] eqn:Es. cbn [fst snd] in *.
    rewrite spec_rows_cons, windows_cons.
    destruct (is_terminate o) eqn:Et.
    + (* Terminate is the last call *)
      destruct o; try discriminate. pose proof (nothing_after_terminate _ _ _ Hwf) as ->.
      cbn [run_from fst snd spec_rows windows forallb]. subst p1. cbn [negb andb].
      destruct (rows_of h (OTerminate now)) as [[a b] c] eqn:Er. cbn [fst snd] in *.
      rewrite !app_nil_r. repeat split; auto.
      rewrite <- open_of_tracing, Hop. destruct (open_of s); reflexivity.
    + specialize (Hi eq_refl). specialize (IH (o :: h) s1 Hi Hwf).
      destruct (run_from s1 r) as [s2 ps] eqn:Er. cbn [fst snd] in *.
      destruct IH as [I1 [I2 [I3 [I4 [I5 [I6 I7]]]]]].
      destruct (spec_rows (o :: h) r) as [[tr mi] tg]. destruct (rows_of h o) as [[tr0 mi0] tg0].
      cbn [fst snd] in *. subst p1. cbn [forallb negb andb].
      rewrite I2, I3, I4, I5, Htr, Hmi, Htg, Hsg, Hop, <- !app_assoc.
      repeat split; auto.
      * rewrite I6, tracing_on_cons. f_equal. rewrite <- open_of_tracing, Hop.
        apply is_some_open_after. rewrite open_of_tracing. destruct (s_tracing s); reflexivity.
      * destruct r as [|x r']; [|rewrite ends_term_cons by discriminate; exact I7].
        unfold ends_term. cbn. destruct o; try discriminate; intro; discriminate.
Qed.

(** the top-level statement: from the initial state *)
Theorem final_ok ops : wf_ops ops = true ->
  let s := final ops in
  forallb negb (snd (run ops)) = true /\
  all_trace s = fst (fst (spec_rows [] ops)) /\
  all_mile s = snd (fst (spec_rows [] ops)) /\
  all_tag s = snd (spec_rows [] ops) /\
  all_seg s = windows ops None /\
  s_tracing s = on_after ops /\
  (ends_term ops = true ->
   s_pend s = tabs0 /\ t_trace (s_db s) = all_trace s /\ t_mile (s_db s) = all_mile s /\
   t_tag (s_db s) = all_tag s /\ t_seg (s_db s) = all_seg s).
Proof.
  intro Hwf. unfold wf_ops in Hwf.
  destruct (run_ok ops [] st0 inv0) as [H1 [H2 [H3 [H4 [H5 [H6 H7]]]]]]; [rewrite app_nil_r; exact Hwf|].
  cbn zeta. unfold final, run.
  split; [exact H1|]. split; [exact H2|]. split; [exact H3|]. split; [exact H4|].
  split; [exact H5|]. split; [exact H6|].
  intro He. specialize (H7 He). unfold all_trace, all_mile, all_tag, all_seg.
  rewrite H7. cbn [t_trace t_mile t_tag t_seg tabs0]. rewrite !app_nil_r. repeat split; reflexivity.
Qed.
