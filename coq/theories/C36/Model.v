(** C36 — executable model of tracing/dbtracer.go (DBTracer) as a state machine over
    the Tracer calls (StartTask / EndTask / AddTaskTag / AddMilestone) and the control
    calls StartTracing / StopTracing / Terminate, together with the part of the data
    recorder that matters to it: rows handed to [InsertData] are buffered per table and
    reach the database, in order, at the next [Flush].

    Strings (kind, what, location, milestone kind) are numbered; 0 is the empty
    string.  Times are handed to SQLite as float64 — exact below 2^53, which the tie
    respects; IDs are below 2^63 (the SQLite driver's integer domain).  A Go run-time
    panic is the outcome [true] in the second component of [step]; the state is then
    unchanged (every panic happens before the first mutation, and the mutex is
    released by a deferred unlock).  The model is the code AFTER the fixes that make
    StartTracing / StopTracing idempotent ([step_old] keeps the earlier behaviour)
    and that keep StartTracing from marking tag/milestone placeholders
    ([step_old_mark] keeps the earlier behaviour). *)
From Akita Require Import Lib.Base.
Local Open Scope N_scope.

Inductive op : Type :=
| OStart (id parent kind what loc t : N)        (* StartTask(TaskStart{...,Time:t}) *)
| OEnd (id t : N)                               (* EndTask(TaskEnd{ID,Time}) *)
| OTag (tid task what t : N)                    (* AddTaskTag(TaskTag{ID,TaskID,What,Time}) *)
| OMile (mid task t kind what : N)              (* AddMilestone(Milestone{ID,TaskID,Time,Kind,What}) *)
| OStartTracing (now : N)                       (* StartTracing(), timeTeller.CurrentTime() = now *)
| OStopTracing (now : N)
| OTerminate (now : N).

(** database rows are lists of column values *)
Definition row := list N.
Definition trace_row (id parent kind what loc s e : N) : row := [id; parent; kind; what; loc; s; e].
Definition mile_row (mid task t kind what : N) : row := [mid; task; t; kind; what].
Definition tag_row (tid task t what : N) : row := [tid; task; t; what].
Definition seg_row (s e : N) : row := [s; e].

Record tabs := mk_tabs { t_trace : list row; t_mile : list row; t_tag : list row; t_seg : list row }.
Definition tabs0 := mk_tabs [] [] [] [].
Definition tabs_app (a b : tabs) : tabs :=
  mk_tabs (t_trace a ++ t_trace b) (t_mile a ++ t_mile b) (t_tag a ++ t_tag b) (t_seg a ++ t_seg b).

(** runningTask *)
Record rt := mk_rt {
  r_id : N; r_parent : N; r_kind : N; r_what : N; r_loc : N; r_start : N;
  r_tags : list row;          (* Tags, as tag rows *)
  r_miles : list row;         (* Milestones, as milestone rows *)
  r_rec : bool;               (* toRecord *)
  r_started : bool }.         (* started: false for a placeholder created by a tag / milestone *)

Definition rt_new (id : N) : rt := mk_rt id 0 0 0 0 0 [] [] false false.

Record st := mk_st {
  s_tasks : option (list (N * rt));   (* tracingTasks; None = nil map (after Terminate) *)
  s_tracing : bool;                   (* isTracing *)
  s_wstart : N;                       (* tracingStartTime *)
  s_term : bool;                      (* terminated *)
  s_pend : tabs;                      (* rows buffered in the recorder *)
  s_db : tabs }.                      (* rows written to the database *)

Definition st0 := mk_st (Some []) false 0 false tabs0 tabs0.

(** Go map keyed by task ID (only looked up / ranged for a uniform update). *)
Fixpoint tget (k : N) (m : list (N * rt)) : option rt :=
  match m with
  | [] => None
  | (k', v) :: r => if k' =? k then Some v else tget k r
  end.
Fixpoint tdel (k : N) (m : list (N * rt)) : list (N * rt) :=
  match m with
  | [] => []
  | (k', v) :: r => if k' =? k then tdel k r else (k', v) :: tdel k r
  end.
Definition tset (k : N) (v : rt) (m : list (N * rt)) : list (N * rt) := (k, v) :: tdel k m.

Definition flush (s : st) : st :=
  mk_st (s_tasks s) (s_tracing s) (s_wstart s) (s_term s) tabs0 (tabs_app (s_db s) (s_pend s)).

Definition with_tasks (s : st) (m : list (N * rt)) : st :=
  mk_st (Some m) (s_tracing s) (s_wstart s) (s_term s) (s_pend s) (s_db s).

Definition with_pend (s : st) (p : tabs) : st :=
  mk_st (s_tasks s) (s_tracing s) (s_wstart s) (s_term s) p (s_db s).

(** startingTaskMustBeValid *)
Definition valid_start (id kind what loc : N) : bool :=
  negb (id =? 0) && negb (kind =? 0) && negb (what =? 0) && negb (loc =? 0).

Definition mile_time (r : row) : N := nth 2 r 0.

(** StopTracing body (after the idempotence guard) *)
Definition stop_body (now : N) (s : st) : st :=
  let p := s_pend s in
  flush (mk_st (s_tasks s) false (s_wstart s) (s_term s)
               (mk_tabs (t_trace p) (t_mile p) (t_tag p) (t_seg p ++ [seg_row (s_wstart s) now]))
               (s_db s)).

(** StartTracing: every STARTED entry is marked *)
Definition mark_all (m : list (N * rt)) : list (N * rt) :=
  map (fun kv => (fst kv, let r := snd kv in
        mk_rt (r_id r) (r_parent r) (r_kind r) (r_what r) (r_loc r) (r_start r) (r_tags r) (r_miles r)
              (r_started r || r_rec r) (r_started r))) m.

(** before the fix: every entry is marked, placeholders included *)
Definition mark_all_old (m : list (N * rt)) : list (N * rt) :=
  map (fun kv => (fst kv, let r := snd kv in
        mk_rt (r_id r) (r_parent r) (r_kind r) (r_what r) (r_loc r) (r_start r) (r_tags r) (r_miles r)
              true (r_started r))) m.

Definition step (s : st) (o : op) : st * bool :=
  match o with
  | OStart id parent kind what loc t =>
      if negb (valid_start id kind what loc) then (s, true)
      else match s_tasks s with
      | None => (s, true)                                   (* assignment to entry in nil map *)
      | Some m =>
          let old := match tget id m with Some r => r | None => rt_new id end in
          let r := mk_rt id parent kind what loc t (r_tags old) (r_miles old)
                         (if s_tracing s then true else r_rec old) true in
          (with_tasks s (tset id r m), false)
      end
  | OTag tid task what t =>
      match s_tasks s with
      | None => (s, true)
      | Some m =>
          let old := match tget task m with Some r => r | None => rt_new task end in
          let r := mk_rt (r_id old) (r_parent old) (r_kind old) (r_what old) (r_loc old) (r_start old)
                         (r_tags old ++ [tag_row tid task t what]) (r_miles old) (r_rec old) (r_started old) in
          (with_tasks s (tset task r m), false)
      end
  | OMile mid task t kind what =>
      match s_tasks s with
      | None => (s, true)
      | Some m =>
          let old := match tget task m with Some r => r | None => rt_new task end in
          let miles := if existsb (fun x => mile_time x =? t) (r_miles old) then r_miles old
                       else r_miles old ++ [mile_row mid task t kind what] in
          let r := mk_rt (r_id old) (r_parent old) (r_kind old) (r_what old) (r_loc old) (r_start old)
                         (r_tags old) miles (r_rec old) (r_started old) in
          (with_tasks s (tset task r m), false)
      end
  | OEnd id t =>
      match s_tasks s with
      | None => (s, false)                                  (* lookup in a nil map: not found *)
      | Some m =>
          match tget id m with
          | None => (s, false)
          | Some r =>
              let s' := with_tasks s (tdel id m) in
              if r_rec r then
                let p := s_pend s in
                (with_pend s'
                   (mk_tabs (t_trace p ++ [trace_row (r_id r) (r_parent r) (r_kind r) (r_what r) (r_loc r) (r_start r) t])
                            (t_mile p ++ r_miles r) (t_tag p ++ r_tags r) (t_seg p)), false)
              else (s', false)
          end
      end
  | OStartTracing now =>
      if s_tracing s then (s, false)
      else (mk_st (match s_tasks s with Some m => Some (mark_all m) | None => None end)
                  true now (s_term s) (s_pend s) (s_db s), false)
  | OStopTracing now =>
      if s_tracing s then (stop_body now s, false) else (s, false)
  | OTerminate now =>
      if s_term s then (s, false)
      else
        let s1 := mk_st (s_tasks s) (s_tracing s) (s_wstart s) true (s_pend s) (s_db s) in
        let s2 := if s_tracing s1 then stop_body now s1 else s1 in
        (flush (mk_st None (s_tracing s2) (s_wstart s2) (s_term s2) (s_pend s2) (s_db s2)), false)
  end.

(** run: final state and the per-call panic flags *)
Fixpoint run_from (s : st) (ops : list op) : st * list bool :=
  match ops with
  | [] => (s, [])
  | o :: r => let (s', p) := step s o in
              let (s'', ps) := run_from s' r in (s'', p :: ps)
  end.
Definition run (ops : list op) : st * list bool := run_from st0 ops.
Definition final (ops : list op) : st := fst (run ops).

(** ---------------------------------------------------------------- before the fix:
    StartTracing always restamps the window start, StopTracing always records. *)
Definition step_old (s : st) (o : op) : st * bool :=
  match o with
  | OStartTracing now =>
      (mk_st (match s_tasks s with Some m => Some (mark_all m) | None => None end)
             true now (s_term s) (s_pend s) (s_db s), false)
  | OStopTracing now => (stop_body now s, false)
  | _ => step s o
  end.
Definition final_old (ops : list op) : st := fold_left (fun s o => fst (step_old s o)) ops st0.

(** before the placeholder fix: StartTracing marked every entry *)
Definition step_old_mark (s : st) (o : op) : st * bool :=
  match o with
  | OStartTracing now =>
      if s_tracing s then (s, false)
      else (mk_st (match s_tasks s with Some m => Some (mark_all_old m) | None => None end)
                  true now (s_term s) (s_pend s) (s_db s), false)
  | _ => step s o
  end.
Definition final_old_mark (ops : list op) : st := fold_left (fun s o => fst (step_old_mark s o)) ops st0.
