(** C36 — case evaluators for the correspondence check. *)
From Akita Require Import Lib.Base C36.Model C36.Spec.
Local Open Scope N_scope.

Record case := mk_case {
  c_ops : list op;
  o_panics : list bool;          (* per call: did it panic *)
  o_tracing : bool;              (* IsTracing() after the last call *)
  o_trace : list row;            (* SELECT * FROM trace ORDER BY rowid (Location joined) *)
  o_mile : list row;             (* milestone *)
  o_tag : list row;              (* tag *)
  o_seg : list row }.            (* daisen$segments *)

Definition rows_eqb := list_eqb listN_eqb.
Definition bools_eqb := list_eqb Bool.eqb.

(** model output = implementation output *)
Definition check_case (c : case) : bool :=
  let (s, ps) := run (c_ops c) in
  bools_eqb ps (o_panics c) && Bool.eqb (s_tracing s) (o_tracing c) &&
  rows_eqb (t_trace (s_db s)) (o_trace c) && rows_eqb (t_mile (s_db s)) (o_mile c) &&
  rows_eqb (t_tag (s_db s)) (o_tag c) && rows_eqb (t_seg (s_db s)) (o_seg c).

Fixpoint is_prefix (a b : list row) : bool :=
  match a, b with
  | [], _ => true
  | x :: a', y :: b' => listN_eqb x y && is_prefix a' b'
  | _, _ => false
  end.

Definition ends_with_terminate (ops : list op) : bool :=
  match rev ops with OTerminate _ :: _ => true | _ => false end.

(** the property, on the observed tables, from the specification side only *)
Definition holds_on (c : case) : bool :=
  let ops := c_ops c in
  if wf_ops ops then
    let '(tr, mi, tg) := spec_rows [] ops in
    let sg := windows ops None in
    forallb negb (o_panics c) &&
    Bool.eqb (o_tracing c) (on_after ops) &&
    (if ends_with_terminate ops then
       rows_eqb (o_trace c) tr && rows_eqb (o_mile c) mi && rows_eqb (o_tag c) tg && rows_eqb (o_seg c) sg
     else
       (* not yet terminated: what reached the database is a prefix of what must be recorded *)
       is_prefix (o_trace c) tr && is_prefix (o_mile c) mi && is_prefix (o_tag c) tg && is_prefix (o_seg c) sg)
  else true.
