(** C36 — the trace database records exactly the traced tasks.  Property theorems only. *)
From Akita Require Import Lib.Base C36.Model C36.Spec.
Local Open Scope N_scope.

(** Regression: before the fix a StopTracing without a start recorded [0,now]. *)
Theorem c36_stop_without_start_old_refuted :
  t_seg (s_db (final_old [OStopTracing 100])) = [seg_row 0 100] /\
  t_seg (s_db (final [OStopTracing 100])) = [] /\ windows [OStopTracing 100] None = [].
Proof. vm_compute. repeat split. Qed.
Print Assumptions c36_stop_without_start_old_refuted.

(** Regression: before the fix a second StartTracing moved the window start. *)
Theorem c36_double_start_old_refuted :
  let ops := [OStartTracing 200; OStartTracing 300; OStopTracing 400] in
  t_seg (s_db (final_old ops)) = [seg_row 300 400] /\
  t_seg (s_db (final ops)) = [seg_row 200 400] /\ windows ops None = [seg_row 200 400].
Proof. vm_compute. repeat split. Qed.
Print Assumptions c36_double_start_old_refuted.
