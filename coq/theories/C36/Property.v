(** C36 — the trace database records exactly the traced tasks.  Property theorems only.

    A history [ops] is the list of calls made on one DBTracer in program order:
    task events (StartTask / EndTask / AddTaskTag / AddMilestone) interleaved with
    StartTracing / StopTracing in ANY order (no alternation hypothesis) and ended by
    Terminate.  [wf_ops ops]: the task events are well formed (a task is started at
    most once with valid fields, ended / tagged / given milestones only while it is
    running), the clock does not go back and nothing follows Terminate. *)
From Akita Require Import Lib.Base C36.Model C36.Spec C36.Proofs1 C36.Proofs2 C36.Proofs3.
Local Open Scope N_scope.

(** No call panics, and the database holds, table by table and in order, exactly
    the rows of the specification; after Terminate nothing is left in the
    recorder's buffer. *)
Theorem c36_model_refines_spec : forall ops, wf_ops ops = true ->
  let s := final ops in
  forallb negb (snd (run ops)) = true /\
  all_trace s = fst (fst (spec_rows [] ops)) /\
  all_mile s = snd (fst (spec_rows [] ops)) /\
  all_tag s = snd (spec_rows [] ops) /\
  all_seg s = windows ops None /\
  s_tracing s = on_after ops /\
  (ends_term ops = true ->
   s_pend s = tabs0 /\ t_trace (s_db s) = all_trace s /\ t_mile (s_db s) = all_mile s /\
   t_tag (s_db s) = all_tag s /\ t_seg (s_db s) = all_seg s).
Proof. exact final_ok. Qed.
Print Assumptions c36_model_refines_spec.

(** A trace row is in the database IFF it is the row (ID, parent, kind, what,
    location, start, end) of a task that was running at some point while tracing
    was on — tracing was on when it started, or StartTracing was called while it was
    running — and that ended (before Terminate, which is the last call). *)
Theorem c36_recorded_iff : forall ops row, wf_ops ops = true -> ends_term ops = true ->
  (In row (t_trace (s_db (final ops))) <-> should_record ops row).
Proof.
  intros ops row Hwf He. destruct (final_ok ops Hwf) as [_ [H2 [_ [_ [_ [_ H7]]]]]].
  destruct (H7 He) as [_ [-> _]]. rewrite H2. apply recorded_iff. exact Hwf.
Qed.
Print Assumptions c36_recorded_iff.

(** ... exactly once: no two trace rows carry the same task ID. *)
Theorem c36_once : forall ops, wf_ops ops = true -> ends_term ops = true ->
  NoDup (map row_id (t_trace (s_db (final ops)))).
Proof.
  intros ops Hwf He. destruct (final_ok ops Hwf) as [_ [H2 [_ [_ [_ [_ H7]]]]]].
  destruct (H7 He) as [_ [-> _]]. rewrite H2. apply recorded_once. exact Hwf.
Qed.
Print Assumptions c36_once.

(** With a recorded task its tags (all of them, in order) and its milestones (the
    first of every instant, in order) are recorded: the tag and milestone tables are
    the concatenation, over the recorded tasks in the order of their ends, of
    [tags_of id between] and [first_per_instant [] (miles_of id between)], where
    [between] are the calls made while the task was running ([spec_rows]); and the
    milestones kept for one task have pairwise different instants. *)
Theorem c36_tags_milestones : forall ops, wf_ops ops = true -> ends_term ops = true ->
  t_mile (s_db (final ops)) = snd (fst (spec_rows [] ops)) /\
  t_tag (s_db (final ops)) = snd (spec_rows [] ops).
Proof.
  intros ops Hwf He. destruct (final_ok ops Hwf) as [_ [_ [H3 [H4 [_ [_ H7]]]]]].
  destruct (H7 He) as [_ [_ [-> [-> _]]]]. auto.
Qed.
Print Assumptions c36_tags_milestones.

(** ... and [between] misses nothing: under the well-formedness of the task events,
    every tag and milestone the history holds for a recorded task lies between its
    start and its end, so the rows above are ALL the tags of the task and the first
    milestone of every instant among ALL its milestones. *)
From Akita Require Import C36.Proofs5.
Theorem c36_notes_complete : forall a id p k w l s b e c,
  wf_ops (a ++ OStart id p k w l s :: b ++ OEnd id e :: c) = true ->
  tags_of id (a ++ OStart id p k w l s :: b ++ OEnd id e :: c) = tags_of id b /\
  miles_of id (a ++ OStart id p k w l s :: b ++ OEnd id e :: c) = miles_of id b.
Proof. exact notes_between. Qed.
Print Assumptions c36_notes_complete.

Theorem c36_milestone_per_instant : forall seen l, NoDup (map mile_time (first_per_instant seen l)).
Proof. exact fpi_nodup. Qed.
Print Assumptions c36_milestone_per_instant.

(** Each tracing window — from a StartTracing issued while tracing is off to the
    next StopTracing or Terminate — is recorded as one segment, and nothing else is. *)
Theorem c36_segments : forall ops, wf_ops ops = true -> ends_term ops = true ->
  t_seg (s_db (final ops)) = windows ops None.
Proof.
  intros ops Hwf He. destruct (final_ok ops Hwf) as [_ [_ [_ [_ [H5 [_ H7]]]]]].
  destruct (H7 He) as [_ [_ [_ [_ ->]]]]. exact H5.
Qed.
Print Assumptions c36_segments.

(** The predicate evaluated on the implementation's observed tables ([Exec.holds_on])
    is implied by agreement with the model ([Exec.check_case]), for every case. *)
From Akita Require Import C36.Exec C36.Proofs4.
Theorem c36_model_agreement_implies_property : forall c, check_case c = true -> holds_on c = true.
Proof. exact check_implies_holds. Qed.
Print Assumptions c36_model_agreement_implies_property.

(** Regression: before the fix a StopTracing without a start recorded [0,now]. *)
Theorem c36_stop_without_start_old_refuted :
  t_seg (s_db (final_old [OStopTracing 100])) = [seg_row 0 100] /\
  t_seg (s_db (final [OStopTracing 100])) = [] /\ windows [OStopTracing 100] None = [].
Proof. vm_compute. repeat split. Qed.
Print Assumptions c36_stop_without_start_old_refuted.

(** Regression: before the fix a second StartTracing moved the window start. *)
Theorem c36_double_start_old_refuted :
  let ops := [OStartTracing 200; OStartTracing 300; OStopTracing 400] in
  t_seg (s_db (final_old ops)) = [seg_row 300 400] /\
  t_seg (s_db (final ops)) = [seg_row 200 400] /\ windows ops None = [seg_row 200 400].
Proof. vm_compute. repeat split. Qed.
Print Assumptions c36_double_start_old_refuted.

(** Non-vacuity: a well-formed history with non-alternating control calls, a task
    running when tracing is switched on, a task outside every window, two
    milestones at one instant. *)
Example c36_nonvacuous :
  let ops := [OStopTracing 1; OStart 1 0 1 2 3 5; OStart 2 1 1 2 4 6; OEnd 2 7;
              OStartTracing 8; OStartTracing 9; OMile 50 1 10 6 7; OMile 51 1 10 8 9; OTag 60 1 5 11;
              OEnd 1 12; OStopTracing 13; OStopTracing 14; OStart 3 0 1 2 3 15; OEnd 3 16; OTerminate 20] in
  wf_ops ops = true /\ ends_term ops = true /\
  t_trace (s_db (final ops)) = [trace_row 1 0 1 2 3 5 12] /\
  t_mile (s_db (final ops)) = [mile_row 50 1 10 6 7] /\
  t_tag (s_db (final ops)) = [tag_row 60 1 11 5] /\
  t_seg (s_db (final ops)) = [seg_row 8 13] /\
  should_record ops (trace_row 1 0 1 2 3 5 12).
Proof.
  vm_compute. repeat split.
  exists [OStopTracing 1], [OStart 2 1 1 2 4 6; OEnd 2 7; OStartTracing 8; OStartTracing 9;
                            OMile 50 1 10 6 7; OMile 51 1 10 8 9; OTag 60 1 5 11],
         [OStopTracing 13; OStopTracing 14; OStart 3 0 1 2 3 15; OEnd 3 16; OTerminate 20],
         1, 0, 1, 2, 3, 5, 12.
  repeat split.
Qed.
