(** C36 — the trace database records exactly the traced tasks.  Property theorems only.

    A history [ops] is the list of calls made on one DBTracer in program order:
    task events (StartTask / EndTask / AddTaskTag / AddMilestone) interleaved with
    StartTracing / StopTracing in ANY order (no alternation hypothesis) and ended by
    Terminate.  [wf_ops ops]: a task is started with valid fields and only while no
    task with the same ID is running (IDs may be reused after the end); ends, tags and
    milestones are unconstrained - an end of an ID that is not running (a repeated
    end, the blanket end of a reset path, an unknown ID) records nothing; a tag or
    milestone that mentions an ID while no such task is running waits for the next
    start of that ID (any end of the ID discards it); the clock does not go back and
    nothing follows Terminate. *)
From Akita Require Import Lib.Base C36.Model C36.Spec C36.Proofs1 C36.Proofs2 C36.Proofs3.
Local Open Scope N_scope.

(** No call panics, and the database holds, table by table and in order, exactly
    the rows of the specification; after Terminate nothing is left in the
    recorder's buffer. *)
Theorem c36_model_refines_spec : forall ops, wf_ops ops = true ->
  let s := final ops in
  forallb negb (snd (run ops)) = true /\
  all_trace s = fst (fst (spec_rows [] ops)) /\
  all_mile s = snd (fst (spec_rows [] ops)) /\
  all_tag s = snd (spec_rows [] ops) /\
  all_seg s = windows ops None /\
  s_tracing s = on_after ops /\
  (ends_term ops = true ->
   s_pend s = tabs0 /\ t_trace (s_db s) = all_trace s /\ t_mile (s_db s) = all_mile s /\
   t_tag (s_db s) = all_tag s /\ t_seg (s_db s) = all_seg s).
Proof. exact final_ok. Qed.
Print Assumptions c36_model_refines_spec.

(** A trace row is in the database IFF it is the row (ID, parent, kind, what,
    location, start, end) of a task that was running at some point while tracing
    was on — tracing was on when it started, or StartTracing was called while it was
    running — and that ended (its first end after the start; before Terminate, which
    is the last call). *)
Theorem c36_recorded_iff : forall ops row, wf_ops ops = true -> ends_term ops = true ->
  (In row (t_trace (s_db (final ops))) <-> should_record ops row).
Proof.
  intros ops row Hwf He. destruct (final_ok ops Hwf) as [_ [H2 [_ [_ [_ [_ H7]]]]]].
  destruct (H7 He) as [_ [-> _]]. rewrite H2. apply recorded_iff. exact Hwf.
Qed.
Print Assumptions c36_recorded_iff.

(** ... exactly once: a run of a task contributes at most one row (its first end;
    [c36_recorded_iff]), and when task IDs are not reused no two rows carry the same
    task ID. *)
Theorem c36_once : forall ops, wf_ops ops = true -> ends_term ops = true ->
  NoDup (started_ids ops) -> NoDup (map row_id (t_trace (s_db (final ops)))).
Proof.
  intros ops Hwf He Hnd. destruct (final_ok ops Hwf) as [_ [H2 [_ [_ [_ [_ H7]]]]]].
  destruct (H7 He) as [_ [-> _]]. rewrite H2. apply recorded_once. exact Hnd.
Qed.
Print Assumptions c36_once.

(** With a recorded task its tags (all of them, in order) and its milestones (the
    first of every instant, in order) are recorded: the tag and milestone tables are
    the concatenation, over the recorded tasks in the order of their ends, of
    [pend_tags id older ++ tags_of id between] and
    [first_per_instant [] (pend_miles id older ++ miles_of id between)], where
    [between] are the calls made while the task was running and [older] the calls
    before its start ([spec_rows]). *)
Theorem c36_tags_milestones : forall ops, wf_ops ops = true -> ends_term ops = true ->
  t_mile (s_db (final ops)) = snd (fst (spec_rows [] ops)) /\
  t_tag (s_db (final ops)) = snd (spec_rows [] ops).
Proof.
  intros ops Hwf He. destruct (final_ok ops Hwf) as [_ [_ [H3 [H4 [_ [_ H7]]]]]].
  destruct (H7 He) as [_ [_ [-> [-> _]]]]. auto.
Qed.
Print Assumptions c36_tags_milestones.

(** ... where the notes that waited for the start are exactly those that mention the
    ID since the last start or end of that ID (or since the beginning). *)
From Akita Require Import C36.Proofs5.
Theorem c36_pending_notes : forall id a1 a2,
  (a1 = [] \/ exists a0 x, a1 = a0 ++ [x] /\ about id x = true) ->
  forallb (fun o => negb (about id o)) a2 = true ->
  pend_tags id (rev (a1 ++ a2)) = tags_of id a2 /\ pend_miles id (rev (a1 ++ a2)) = miles_of id a2.
Proof. exact pending_notes. Qed.
Print Assumptions c36_pending_notes.

Theorem c36_milestone_per_instant : forall seen l, NoDup (map mile_time (first_per_instant seen l)).
Proof. exact fpi_nodup. Qed.
Print Assumptions c36_milestone_per_instant.

(** Each tracing window — from a StartTracing issued while tracing is off to the
    next StopTracing or Terminate — is recorded as one segment, and nothing else is. *)
Theorem c36_segments : forall ops, wf_ops ops = true -> ends_term ops = true ->
  t_seg (s_db (final ops)) = windows ops None.
Proof.
  intros ops Hwf He. destruct (final_ok ops Hwf) as [_ [_ [_ [_ [H5 [_ H7]]]]]].
  destruct (H7 He) as [_ [_ [_ [_ ->]]]]. exact H5.
Qed.
Print Assumptions c36_segments.

(** The predicate evaluated on the implementation's observed tables ([Exec.holds_on])
    is implied by agreement with the model ([Exec.check_case]), for every case. *)
From Akita Require Import C36.Exec C36.Proofs4.
Theorem c36_model_agreement_implies_property : forall c, check_case c = true -> holds_on c = true.
Proof. exact check_implies_holds. Qed.
Print Assumptions c36_model_agreement_implies_property.

(** Regression: before the fix a StopTracing without a start recorded [0,now]. *)
Theorem c36_stop_without_start_old_refuted :
  t_seg (s_db (final_old [OStopTracing 100])) = [seg_row 0 100] /\
  t_seg (s_db (final [OStopTracing 100])) = [] /\ windows [OStopTracing 100] None = [].
Proof. vm_compute. repeat split. Qed.
Print Assumptions c36_stop_without_start_old_refuted.

(** Regression: before the fix a second StartTracing moved the window start. *)
Theorem c36_double_start_old_refuted :
  let ops := [OStartTracing 200; OStartTracing 300; OStopTracing 400] in
  t_seg (s_db (final_old ops)) = [seg_row 300 400] /\
  t_seg (s_db (final ops)) = [seg_row 200 400] /\ windows ops None = [seg_row 200 400].
Proof. vm_compute. repeat split. Qed.
Print Assumptions c36_double_start_old_refuted.

(** Regression: before the placeholder fix StartTracing marked an entry created by
    a tag that mentioned a task before its start: the task was recorded although it
    started and ended after tracing had been stopped again, and an end of a
    never-started ID wrote a row with empty kind / what / location. *)
Theorem c36_placeholder_mark_old_refuted :
  let ops := [OTag 50 7 4 1; OStartTracing 2; OStopTracing 3; OStart 7 0 1 2 3 4; OEnd 7 5; OTerminate 6] in
  let ops2 := [OTag 50 9 4 1; OStartTracing 2; OEnd 9 3; OTerminate 4] in
  wf_ops ops = true /\ wf_ops ops2 = true /\
  t_trace (s_db (final_old_mark ops)) = [trace_row 7 0 1 2 3 4 5] /\
  t_trace (s_db (final ops)) = [] /\ fst (fst (spec_rows [] ops)) = [] /\
  t_trace (s_db (final_old_mark ops2)) = [trace_row 9 0 0 0 0 0 3] /\
  t_trace (s_db (final ops2)) = [] /\ fst (fst (spec_rows [] ops2)) = [].
Proof. vm_compute. repeat split. Qed.
Print Assumptions c36_placeholder_mark_old_refuted.

(** Non-vacuity: a well-formed history with non-alternating control calls, a task
    running when tracing is switched on, a task outside every window, two
    milestones at one instant. *)
Example c36_nonvacuous :
  let ops := [OStopTracing 1; OTag 59 1 4 2; OStart 1 0 1 2 3 5; OStart 2 1 1 2 4 6; OEnd 2 7; OEnd 2 7;
              OStartTracing 8; OStartTracing 9; OMile 50 1 10 6 7; OMile 51 1 10 8 9; OTag 60 1 5 11;
              OEnd 1 12; OEnd 2 12; OEnd 77 12; OStopTracing 13; OStopTracing 14;
              OStart 2 0 1 2 3 15; OEnd 2 16; OTerminate 20] in
  wf_ops ops = true /\ ends_term ops = true /\
  t_trace (s_db (final ops)) = [trace_row 1 0 1 2 3 5 12] /\
  t_mile (s_db (final ops)) = [mile_row 50 1 10 6 7] /\
  t_tag (s_db (final ops)) = [tag_row 59 1 2 4; tag_row 60 1 11 5] /\
  t_seg (s_db (final ops)) = [seg_row 8 13] /\
  should_record ops (trace_row 1 0 1 2 3 5 12).
Proof.
  vm_compute. repeat split.
  exists [OStopTracing 1; OTag 59 1 4 2],
         [OStart 2 1 1 2 4 6; OEnd 2 7; OEnd 2 7; OStartTracing 8; OStartTracing 9;
          OMile 50 1 10 6 7; OMile 51 1 10 8 9; OTag 60 1 5 11],
         [OEnd 2 12; OEnd 77 12; OStopTracing 13; OStopTracing 14; OStart 2 0 1 2 3 15; OEnd 2 16; OTerminate 20],
         1, 0, 1, 2, 3, 5, 12.
  repeat split.
Qed.
