(** C36 — the specification side: which rows a history of calls SHOULD leave in the
    database, stated without the tracer's state machine.  Histories are lists of
    calls in program order.  Definitions only. *)
From Akita Require Import Lib.Base C36.Model.
Local Open Scope N_scope.

Definition op_time (o : op) : N :=
  match o with
  | OStart _ _ _ _ _ t => t | OEnd _ t => t | OTag _ _ _ t => t | OMile _ _ t _ _ => t
  | OStartTracing t => t | OStopTracing t => t | OTerminate t => t
  end.

(** "tracing is on" after a history: the last control call was StartTracing. *)
Fixpoint tracing_on (ops : list op) (cur : bool) : bool :=
  match ops with
  | [] => cur
  | OStartTracing _ :: r => tracing_on r true
  | OStopTracing _ :: r => tracing_on r false
  | OTerminate _ :: r => tracing_on r false
  | _ :: r => tracing_on r cur
  end.
Definition on_after (ops : list op) : bool := tracing_on ops false.

Definition is_start_tracing (o : op) : bool := match o with OStartTracing _ => true | _ => false end.
Definition is_terminate (o : op) : bool := match o with OTerminate _ => true | _ => false end.
Definition starts_of (id : N) (o : op) : bool := match o with OStart i _ _ _ _ _ => i =? id | _ => false end.
Definition ends_of (id : N) (o : op) : bool := match o with OEnd i _ => i =? id | _ => false end.

Definition started_ids (ops : list op) : list N :=
  flat_map (fun o => match o with OStart i _ _ _ _ _ => [i] | _ => [] end) ops.
Definition ended_ids (ops : list op) : list N :=
  flat_map (fun o => match o with OEnd i _ => [i] | _ => [] end) ops.

(** A task (its start call preceded by [a], its end call after the calls [b]) was
    running at some point while tracing was on: tracing was on when it started, or
    StartTracing was called while it was running. *)
Definition running_while_tracing (a b : list op) : bool :=
  on_after a || existsb is_start_tracing b.

(** The declarative meaning of "recorded": *)
Definition should_record (ops : list op) (r : row) : Prop :=
  exists a b c id parent kind what loc s e,
    ops = a ++ OStart id parent kind what loc s :: b ++ OEnd id e :: c /\
    running_while_tracing a b = true /\
    r = trace_row id parent kind what loc s e.

(** tag / milestone rows of one task in a history *)
Definition tags_of (id : N) (ops : list op) : list row :=
  flat_map (fun o => match o with
                     | OTag tid task what t => if task =? id then [tag_row tid task t what] else []
                     | _ => [] end) ops.
Definition miles_of (id : N) (ops : list op) : list row :=
  flat_map (fun o => match o with
                     | OMile mid task t kind what => if task =? id then [mile_row mid task t kind what] else []
                     | _ => [] end) ops.

(** keep the first milestone of every instant *)
Fixpoint first_per_instant (seen : list N) (l : list row) : list row :=
  match l with
  | [] => []
  | r :: rest => if existsb (N.eqb (mile_time r)) seen then first_per_instant seen rest
                 else r :: first_per_instant (mile_time r :: seen) rest
  end.

(** tracing windows: from a StartTracing issued while tracing is off to the next
    StopTracing or Terminate. *)
Fixpoint windows (ops : list op) (open : option N) : list row :=
  match ops with
  | [] => []
  | OStartTracing t :: r => match open with None => windows r (Some t) | Some _ => windows r open end
  | OStopTracing t :: r => match open with Some s => seg_row s t :: windows r None | None => windows r None end
  | OTerminate t :: r => match open with Some s => seg_row s t :: windows r None | None => windows r None end
  | _ :: r => windows r open
  end.

(** ---------------------------------------------------------------- computable spec
    (used by the case evaluator): scan the history keeping the calls seen so far,
    newest first. *)
Fixpoint split_start (id : N) (h between : list op) : option (list op * op * list op) :=
  match h with
  | [] => None
  | o :: r => if starts_of id o then Some (between, o, r) else split_start id r (o :: between)
  end.

Fixpoint on_after_h (h : list op) : bool :=
  match h with
  | [] => false
  | OStartTracing _ :: _ => true
  | OStopTracing _ :: _ => false
  | OTerminate _ :: _ => false
  | _ :: r => on_after_h r
  end.

(** rows (trace, milestone, tag) contributed by the calls [ops], given the calls
    [h] (newest first) before them. *)
Fixpoint spec_rows (h : list op) (ops : list op) : list row * list row * list row :=
  match ops with
  | [] => ([], [], [])
  | o :: r =>
      let '(tr, mi, tg) := spec_rows (o :: h) r in
      match o with
      | OEnd id e =>
          match split_start id h [] with
          | Some (between, OStart _ parent kind what loc s, older) =>
              if on_after_h older || existsb is_start_tracing between then
                (trace_row id parent kind what loc s e :: tr,
                 first_per_instant [] (miles_of id between) ++ mi,
                 tags_of id between ++ tg)
              else (tr, mi, tg)
          | _ => (tr, mi, tg)
          end
      | _ => (tr, mi, tg)
      end
  end.

(** ---------------------------------------------------------------- well-formed
    histories: the task events are those of a well-formed trace (C32) and the clock
    does not go backwards; control calls are unconstrained, except that nothing
    follows Terminate. *)
Definition live (id : N) (h : list op) : bool :=
  existsb (N.eqb id) (started_ids h) && negb (existsb (N.eqb id) (ended_ids h)).

Fixpoint wf_h (h : list op) : bool :=
  match h with
  | [] => true
  | o :: r =>
      wf_h r &&
      (match r with [] => true | p :: _ => (op_time p <=? op_time o) && negb (is_terminate p) end) &&
      (match o with
       | OStart id _ kind what loc _ =>
           valid_start id kind what loc &&
           negb (existsb (N.eqb id) (started_ids r)) && negb (existsb (N.eqb id) (ended_ids r))
       | OEnd id _ => live id r
       | OTag _ task _ _ => live task r
       | OMile _ task _ _ _ => live task r
       | _ => true
       end)
  end.
Definition wf_ops (ops : list op) : bool := wf_h (rev ops).
