(** C36 — the specification side: which rows a history of calls SHOULD leave in the
    database, stated without the tracer's state machine.  Histories are lists of
    calls in program order.  Definitions only. *)
From Akita Require Import Lib.Base C36.Model.
Local Open Scope N_scope.

Definition op_time (o : op) : N :=
  match o with
  | OStart _ _ _ _ _ t => t | OEnd _ t => t | OTag _ _ _ t => t | OMile _ _ t _ _ => t
  | OStartTracing t => t | OStopTracing t => t | OTerminate t => t
  end.

(** "tracing is on" after a history: the last control call was StartTracing. *)
Fixpoint tracing_on (ops : list op) (cur : bool) : bool :=
  match ops with
  | [] => cur
  | OStartTracing _ :: r => tracing_on r true
  | OStopTracing _ :: r => tracing_on r false
  | OTerminate _ :: r => tracing_on r false
  | _ :: r => tracing_on r cur
  end.
Definition on_after (ops : list op) : bool := tracing_on ops false.

Definition is_start_tracing (o : op) : bool := match o with OStartTracing _ => true | _ => false end.
Definition is_terminate (o : op) : bool := match o with OTerminate _ => true | _ => false end.
Definition starts_of (id : N) (o : op) : bool := match o with OStart i _ _ _ _ _ => i =? id | _ => false end.
Definition ends_of (id : N) (o : op) : bool := match o with OEnd i _ => i =? id | _ => false end.

Definition started_ids (ops : list op) : list N :=
  flat_map (fun o => match o with OStart i _ _ _ _ _ => [i] | _ => [] end) ops.
Definition ended_ids (ops : list op) : list N :=
  flat_map (fun o => match o with OEnd i _ => [i] | _ => [] end) ops.

(** A task (its start call preceded by [a], its end call after the calls [b]) was
    running at some point while tracing was on: tracing was on when it started, or
    StartTracing was called while it was running. *)
Definition running_while_tracing (a b : list op) : bool :=
  on_after a || existsb is_start_tracing b.

(** The declarative meaning of "recorded": *)
Definition should_record (ops : list op) (r : row) : Prop :=
  exists a b c id parent kind what loc s e,
    ops = a ++ OStart id parent kind what loc s :: b ++ OEnd id e :: c /\
    forallb (fun o => negb (ends_of id o)) b = true /\          (* the first end after the start *)
    running_while_tracing a b = true /\
    r = trace_row id parent kind what loc s e.

(** tag / milestone rows of one task in a history *)
Definition tags_of (id : N) (ops : list op) : list row :=
  flat_map (fun o => match o with
                     | OTag tid task what t => if task =? id then [tag_row tid task t what] else []
                     | _ => [] end) ops.
Definition miles_of (id : N) (ops : list op) : list row :=
  flat_map (fun o => match o with
                     | OMile mid task t kind what => if task =? id then [mile_row mid task t kind what] else []
                     | _ => [] end) ops.

(** keep the first milestone of every instant *)
Fixpoint first_per_instant (seen : list N) (l : list row) : list row :=
  match l with
  | [] => []
  | r :: rest => if existsb (N.eqb (mile_time r)) seen then first_per_instant seen rest
                 else r :: first_per_instant (mile_time r :: seen) rest
  end.

(** tracing windows: from a StartTracing issued while tracing is off to the next
    StopTracing or Terminate. *)
Fixpoint windows (ops : list op) (open : option N) : list row :=
  match ops with
  | [] => []
  | OStartTracing t :: r => match open with None => windows r (Some t) | Some _ => windows r open end
  | OStopTracing t :: r => match open with Some s => seg_row s t :: windows r None | None => windows r None end
  | OTerminate t :: r => match open with Some s => seg_row s t :: windows r None | None => windows r None end
  | _ :: r => windows r open
  end.

(** ---------------------------------------------------------------- computable spec
    (used by the case evaluator): scan the history keeping the calls seen so far,
    newest first. *)
Fixpoint split_start (id : N) (h between : list op) : option (list op * op * list op) :=
  match h with
  | [] => None
  | o :: r => if starts_of id o then Some (between, o, r) else split_start id r (o :: between)
  end.

Fixpoint on_after_h (h : list op) : bool :=
  match h with
  | [] => false
  | OStartTracing _ :: _ => true
  | OStopTracing _ :: _ => false
  | OTerminate _ :: _ => false
  | _ :: r => on_after_h r
  end.

(** A task (ID) is running after the calls [h] (newest first): its latest start
    is not followed by an end.  An end of an ID that is not running (a repeated end,
    an end of a task that never started) changes nothing. *)
Fixpoint live (id : N) (h : list op) : bool :=
  match h with
  | [] => false
  | OStart i _ _ _ _ _ :: r => if i =? id then true else live id r
  | OEnd i _ :: r => if i =? id then false else live id r
  | _ :: r => live id r
  end.

(** Tags / milestones that mention an ID while no task with that ID is running
    belong to the NEXT task that starts with the ID ("a task may first be mentioned
    by a tag or a milestone"); any end of the ID closes the mention and discards
    them.  [pend_tags id h]: the tag rows waiting for the next start, oldest first. *)
Fixpoint pend_tags (id : N) (h : list op) : list row :=
  match h with
  | [] => []
  | OStart i _ _ _ _ _ :: r => if i =? id then [] else pend_tags id r
  | OEnd i _ :: r => if i =? id then [] else pend_tags id r
  | OTag tid task what t :: r =>
      if task =? id then pend_tags id r ++ [tag_row tid task t what] else pend_tags id r
  | _ :: r => pend_tags id r
  end.

Fixpoint pend_miles (id : N) (h : list op) : list row :=
  match h with
  | [] => []
  | OStart i _ _ _ _ _ :: r => if i =? id then [] else pend_miles id r
  | OEnd i _ :: r => if i =? id then [] else pend_miles id r
  | OMile mid task t kind what :: r =>
      if task =? id then pend_miles id r ++ [mile_row mid task t kind what] else pend_miles id r
  | _ :: r => pend_miles id r
  end.

(** rows (trace, milestone, tag) contributed by the calls [ops], given the calls
    [h] (newest first) before them: an end of a RUNNING task that was running at some
    point while tracing was on contributes the task's row, its tags and milestones -
    those that waited for its start, then those that arrived while it ran. *)
Fixpoint spec_rows (h : list op) (ops : list op) : list row * list row * list row :=
  match ops with
  | [] => ([], [], [])
  | o :: r =>
      let '(tr, mi, tg) := spec_rows (o :: h) r in
      match o with
      | OEnd id e =>
          if live id h then
            match split_start id h [] with
            | Some (between, OStart _ parent kind what loc s, older) =>
                if on_after_h older || existsb is_start_tracing between then
                  (trace_row id parent kind what loc s e :: tr,
                   first_per_instant [] (pend_miles id older ++ miles_of id between) ++ mi,
                   (pend_tags id older ++ tags_of id between) ++ tg)
                else (tr, mi, tg)
            | _ => (tr, mi, tg)
            end
          else (tr, mi, tg)
      | _ => (tr, mi, tg)
      end
  end.

(** ---------------------------------------------------------------- well-formed
    histories: a task is started with valid fields and only while no task with the
    same ID is running (IDs may be reused after the end); ends, tags and milestones
    are unconstrained (repeated ends, ends of unknown IDs, tags before the start);
    the clock does not go backwards; control calls are unconstrained, except that
    nothing follows Terminate. *)
Fixpoint wf_h (h : list op) : bool :=
  match h with
  | [] => true
  | o :: r =>
      wf_h r &&
      (match r with [] => true | p :: _ => (op_time p <=? op_time o) && negb (is_terminate p) end) &&
      (match o with
       | OStart id _ kind what loc _ => valid_start id kind what loc && negb (live id r)
       | _ => true
       end)
  end.
Definition wf_ops (ops : list op) : bool := wf_h (rev ops).
