(** C36 — the link between the two case evaluators: agreement with the model implies
    the property on the observed tables. *)
From Akita Require Import Lib.Base C36.Model C36.Spec C36.Proofs1 C36.Proofs2 C36.Exec.
Local Open Scope N_scope.

Lemma rows_eqb_eq a b : rows_eqb a b = true <-> a = b.
Proof. unfold rows_eqb. apply list_eqb_eq. exact listN_eqb_eq. Qed.

Lemma bools_eqb_eq a b : bools_eqb a b = true <-> a = b.
Proof.
  unfold bools_eqb. apply list_eqb_eq. intros x y. destruct x, y; cbn; split; congruence.
Qed.

Lemma rows_eqb_refl a : rows_eqb a a = true.
Proof. apply rows_eqb_eq. reflexivity. Qed.

Lemma listN_eqb_refl a : listN_eqb a a = true.
Proof. apply listN_eqb_eq. reflexivity. Qed.

Lemma is_prefix_app a b : is_prefix a (a ++ b) = true.
Proof.
  induction a as [|x a IH]; [reflexivity|]. cbn [app is_prefix]. rewrite listN_eqb_refl, IH. reflexivity.
Qed.

Theorem check_implies_holds c : check_case c = true -> holds_on c = true.
Proof.
  unfold check_case, holds_on. destruct (run (c_ops c)) as [s ps] eqn:Er.
  intro H. repeat (apply andb_true_iff in H; destruct H as [H ?]).
  apply bools_eqb_eq in H. apply rows_eqb_eq in H1, H2, H3, H0.
  destruct (wf_ops (c_ops c)) eqn:Hwf; [|reflexivity].
  pose proof (final_ok (c_ops c) Hwf) as Hf. cbn zeta in Hf. unfold final in Hf. rewrite Er in Hf. cbn [fst snd] in Hf.
  destruct Hf as [F1 [F2 [F3 [F4 [F5 [F6 F7]]]]]].
  destruct (spec_rows [] (c_ops c)) as [[tr mi] tg]. cbn [fst snd] in *.
  rewrite <- H, F1. cbn [andb].
  assert (Bool.eqb (o_tracing c) (on_after (c_ops c)) = true) as ->.
  { rewrite <- F6. destruct (s_tracing s), (o_tracing c); cbn in *; congruence. }
  cbn [andb].
  change (ends_with_terminate (c_ops c)) with (ends_term (c_ops c)).
  destruct (ends_term (c_ops c)) eqn:Et.
  - destruct (F7 eq_refl) as [_ [G1 [G2 [G3 G4]]]].
    rewrite <- H3, <- H2, <- H1, <- H0, G1, G2, G3, G4, F2, F3, F4, F5, !rows_eqb_refl. reflexivity.
  - rewrite <- H3, <- H2, <- H1, <- H0, <- F2, <- F3, <- F4, <- F5.
    unfold all_trace, all_mile, all_tag, all_seg. rewrite !is_prefix_app. reflexivity.
Qed.
