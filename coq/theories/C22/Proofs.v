(** C22 — proofs about the bank-kernel model: for every timing table, every tFAW and
    every oracle (sequence of offers) the issued stream follows the per-bank
    automaton, respects every pairwise minimum separation of the table, and respects
    the four-activate window. *)
From Akita Require Import Lib.Base C22.Model.
Local Open Scope N_scope.

(* ------------------------------------------------------------------ lists *)

Lemma upd_nat_length {A} n (f : A -> A) l : length (upd_nat n f l) = length l.
Proof.
  revert n; induction l as [|x r IH]; intros [|n]; cbn [upd_nat length]; auto.
Qed.

Lemma nth_error_upd_nat_same {A} n (f : A -> A) l x :
  nth_error l n = Some x -> nth_error (upd_nat n f l) n = Some (f x).
Proof.
  revert n; induction l as [|y r IH]; intros [|n] H; cbn in *; try discriminate.
  - inversion H; reflexivity.
  - apply IH; exact H.
Qed.

Lemma nth_error_upd_nat_other {A} n m (f : A -> A) l :
  n <> m -> nth_error (upd_nat n f l) m = nth_error l m.
Proof.
  revert n m; induction l as [|y r IH]; intros [|n] [|m] H; cbn; try reflexivity.
  - congruence.
  - apply IH; congruence.
Qed.

Lemma nth_upd_nat_same {A} n (f : A -> A) l d :
  (n < length l)%nat -> nth n (upd_nat n f l) d = f (nth n l d).
Proof.
  revert n; induction l as [|y r IH]; intros [|n] H; cbn in *; try lia; auto.
  apply IH; lia.
Qed.

Lemma nth_upd_nat_other {A} n m (f : A -> A) l d :
  n <> m -> nth m (upd_nat n f l) d = nth m l d.
Proof.
  revert n m; induction l as [|y r IH]; intros [|n] [|m] H; cbn; try reflexivity.
  - congruence.
  - apply IH; congruence.
Qed.

(* ------------------------------------------------------------------ counters *)

Lemma upd_max_length k m l : length (upd_max k m l) = length l.
Proof. apply upd_nat_length. Qed.

Lemma getc_upd_max_mono k m l k' : (getc l k' <= getc (upd_max k m l) k')%Z.
Proof.
  unfold getc, upd_max.
  destruct (Nat.eq_dec (N.to_nat k) (N.to_nat k')) as [E|E].
  - rewrite <- E. destruct (Nat.lt_ge_cases (N.to_nat k) (length l)) as [L|L].
    + rewrite nth_upd_nat_same by exact L.
      destruct (nth (N.to_nat k) l 0 <? m)%Z eqn:C; lia.
    + rewrite !nth_overflow; [lia| |]; try rewrite upd_nat_length; lia.
  - rewrite nth_upd_nat_other by exact E. lia.
Qed.

Lemma getc_upd_max_ge k m l : (N.to_nat k < length l)%nat -> (m <= getc (upd_max k m l) k)%Z.
Proof.
  intro L. unfold getc, upd_max. rewrite nth_upd_nat_same by exact L.
  destruct (nth (N.to_nat k) l 0 <? m)%Z eqn:C; lia.
Qed.

Lemma apply_row_length row l : length (apply_row row l) = length l.
Proof.
  unfold apply_row. revert l; induction row as [|te r IH]; intro l; cbn [fold_left]; auto.
  rewrite IH. apply upd_max_length.
Qed.

Lemma apply_row_mono row l k : (getc l k <= getc (apply_row row l) k)%Z.
Proof.
  unfold apply_row. revert l; induction row as [|te r IH]; intro l; cbn [fold_left]; [lia|].
  pose proof (getc_upd_max_mono (fst te) (snd te) l k). specialize (IH (upd_max (fst te) (snd te) l)). lia.
Qed.

Lemma apply_row_ge row l k m :
  In (k, m) row -> (N.to_nat k < length l)%nat -> (m <= getc (apply_row row l) k)%Z.
Proof.
  unfold apply_row. revert l; induction row as [|te r IH]; intros l Hin L; [destruct Hin|].
  cbn [fold_left]. destruct Hin as [E|Hin].
  - subst te. cbn [fst snd].
    pose proof (getc_upd_max_ge k m l L).
    pose proof (apply_row_mono r (upd_max k m l) k). unfold apply_row in *. lia.
  - apply IH; [exact Hin|]. rewrite upd_max_length. exact L.
Qed.

Lemma getc_tick_cnt l k :
  getc (tick_cnt l) k = (if 0 <? getc l k then getc l k - 1 else getc l k)%Z.
Proof.
  unfold getc, tick_cnt.
  pose proof (map_nth (fun c => if (0 <? c)%Z then (c - 1)%Z else c) l 0%Z (N.to_nat k)) as H.
  cbv beta in H. change (if (0 <? 0)%Z then (0 - 1)%Z else 0%Z) with 0%Z in H. exact H.
Qed.

(* ------------------------------------------------------------------ well-formed layout *)

(** entries are laid out as bankFlatIndex expects, coordinates in range, ten counters each *)
Definition wf (s : st) : Prop :=
  forall i e, nth_error (s_entries s) i = Some e ->
    N.of_nat i = (e_rank e * s_nbg s + e_bg e) * s_nb s + e_bank e /\
    e_bg e < s_nbg s /\ e_bank e < s_nb s /\ length (b_cnt (e_data e)) = N.to_nat num_kind.

Definition entry_wfb (nbg nb : N) (i : nat) (e : entry) : bool :=
  (N.of_nat i =? (e_rank e * nbg + e_bg e) * nb + e_bank e) && (e_bg e <? nbg) && (e_bank e <? nb) &&
  (length (b_cnt (e_data e)) =? N.to_nat num_kind)%nat.
Fixpoint entries_wfb (nbg nb : N) (i : nat) (es : list entry) : bool :=
  match es with
  | [] => true
  | e :: r => entry_wfb nbg nb i e && entries_wfb nbg nb (S i) r
  end.
Definition wfb (s : st) : bool := entries_wfb (s_nbg s) (s_nb s) 0 (s_entries s).

Lemma entries_wfb_sound nbg nb es : forall i0, entries_wfb nbg nb i0 es = true ->
  forall i e, nth_error es i = Some e -> entry_wfb nbg nb (i0 + i) e = true.
Proof.
  induction es as [|x r IH]; intros i0 H i e Hn; [destruct i; discriminate|].
  cbn [entries_wfb] in H. apply andb_true_iff in H. destruct H as [H1 H2].
  destruct i as [|i]; cbn in Hn.
  - inversion Hn; subst. rewrite Nat.add_0_r. exact H1.
  - replace (i0 + S i)%nat with (S i0 + i)%nat by lia. eapply IH; eauto.
Qed.

Lemma wfb_sound s : wfb s = true -> wf s.
Proof.
  intros H i e Hn. pose proof (entries_wfb_sound _ _ _ 0%nat H i e Hn) as W.
  cbn [Nat.add] in W. unfold entry_wfb in W.
  apply andb_true_iff in W; destruct W as [W W4].
  apply andb_true_iff in W; destruct W as [W W3].
  apply andb_true_iff in W; destruct W as [W1 W2].
  apply N.eqb_eq in W1. apply N.ltb_lt in W2. apply N.ltb_lt in W3. apply Nat.eqb_eq in W4.
  repeat split; assumption.
Qed.

Lemma divmod_unique a b a' b' n : b < n -> b' < n -> a * n + b = a' * n + b' -> a = a' /\ b = b'.
Proof.
  intros Hb Hb' E. destruct (N.lt_trichotomy a a') as [L|[L|L]].
  - assert (a' * n >= (a + 1) * n) by nia. nia.
  - subst a'. lia.
  - assert (a * n >= (a' + 1) * n) by nia. nia.
Qed.

(** the entry found for a location has the location's coordinates *)
Lemma find_entry_coords s l e : wf s -> l_bg l < s_nbg s -> l_bank l < s_nb s ->
  find_entry s l = Some e -> e_rank e = l_rank l /\ e_bg e = l_bg l /\ e_bank e = l_bank l.
Proof.
  intros W Hg Hb F. unfold find_entry in F. destruct (W _ _ F) as [Hi [Eg [Eb _]]].
  rewrite N2Nat.id in Hi. unfold flat_index in Hi.
  symmetry in Hi. destruct (divmod_unique _ _ _ _ _ Eb Hb Hi) as [R B].
  destruct (divmod_unique _ _ _ _ _ Eg Hg R) as [R' G]. auto.
Qed.

(** two entries with the same coordinates are the same slot *)
Lemma wf_coords_inj s i j ei ej : wf s ->
  nth_error (s_entries s) i = Some ei -> nth_error (s_entries s) j = Some ej ->
  e_rank ei = e_rank ej -> e_bg ei = e_bg ej -> e_bank ei = e_bank ej -> i = j.
Proof.
  intros W Hi Hj R G B. destruct (W _ _ Hi) as [Ii _]. destruct (W _ _ Hj) as [Ij _].
  rewrite R, G, B in Ii. lia.
Qed.

(* ------------------------------------------------------------------ wf is preserved *)

Lemma wf_tick_banks s : wf s -> wf (tick_banks s).
Proof.
  intros W i e H. unfold tick_banks in H. cbn [s_entries s_nbg s_nb] in *.
  rewrite nth_error_map in H. destruct (nth_error (s_entries s) i) as [e0|] eqn:E; [|discriminate].
  inversion H; subst e. destruct (W _ _ E) as [A [B [C D]]].
  cbn. unfold tick_cnt. rewrite map_length. auto.
Qed.

Lemma start_bank_cnt b c : b_cnt (fst (start_bank b c)) = b_cnt b.
Proof.
  unfold start_bank.
  destruct ((b_state b =? st_closed) && (c_kind c =? kACT)); [reflexivity|].
  destruct ((b_state b =? st_open) && ((c_kind c =? kPRE) || (c_kind c =? kRDA) || (c_kind c =? kWRA))); reflexivity.
Qed.

Lemma start_command_layout s c : s_nbg (start_command s c) = s_nbg s /\ s_nb (start_command s c) = s_nb s
  /\ s_tick (start_command s c) = s_tick s.
Proof.
  unfold start_command. destruct (find_entry s (c_loc c)); [|auto].
  destruct (start_bank (e_data e) c). cbn. auto.
Qed.

(** entries after startCommand: same coordinates, same counters *)
Lemma start_command_entry s c i e' :
  nth_error (s_entries (start_command s c)) i = Some e' ->
  exists e, nth_error (s_entries s) i = Some e /\ e_rank e' = e_rank e /\ e_bg e' = e_bg e /\
            e_bank e' = e_bank e /\ b_cnt (e_data e') = b_cnt (e_data e).
Proof.
  unfold start_command. destruct (find_entry s (c_loc c)) as [e0|] eqn:F; [|intro H; exists e'; auto].
  destruct (start_bank (e_data e0) c) as [b' act] eqn:SB. cbn [s_entries].
  intro H. destruct (Nat.eq_dec (N.to_nat (flat_index s (c_loc c))) i) as [E|E].
  - subst i. unfold find_entry in F. rewrite (nth_error_upd_nat_same _ _ _ _ F) in H.
    inversion H; subst e'. exists e0. cbn. repeat split; auto.
    pose proof (start_bank_cnt (e_data e0) c) as Q. rewrite SB in Q. exact Q.
  - rewrite nth_error_upd_nat_other in H by exact E. exists e'. auto.
Qed.

Lemma wf_start_command s c : wf s -> wf (start_command s c).
Proof.
  intros W i e' H. destruct (start_command_entry _ _ _ _ H) as [e [He [R [G [B C]]]]].
  destruct (start_command_layout s c) as [L1 [L2 _]]. rewrite L1, L2, R, G, B, C. exact (W _ _ He).
Qed.

Lemma wf_update_timing T s c : wf s -> wf (update_timing T s c).
Proof.
  intros W. unfold update_timing. destruct (timing_applies (c_kind c)); [|exact W].
  intros i e' H. cbn [s_entries s_nbg s_nb] in *. rewrite nth_error_map in H.
  destruct (nth_error (s_entries s) i) as [e|] eqn:E; [|discriminate]. inversion H; subst e'.
  destruct (W _ _ E) as [A [B [C D]]]. cbn. rewrite apply_row_length. auto.
Qed.

Lemma wf_issue T s c : wf s -> wf (issue T s c).
Proof. intro W. unfold issue. apply wf_update_timing, wf_start_command, W. Qed.

(* ------------------------------------------------------------------ the trace of a run *)

(** the issued stream of a history, oldest first *)
Fixpoint trace (T : timing) (tfaw : Z) (s : st) (offers : list (option cmd)) : list issued :=
  match offers with
  | [] => []
  | o :: r =>
      let '(s', i) := step T tfaw s o in
      match i with Some x => x :: trace T tfaw s' r | None => trace T tfaw s' r end
  end.

Fixpoint final (T : timing) (tfaw : Z) (s : st) (offers : list (option cmd)) : st :=
  match offers with
  | [] => s
  | o :: r => final T tfaw (fst (step T tfaw s o)) r
  end.

Lemma run_trace T tfaw offers : forall s acc,
  run T tfaw s acc offers = (final T tfaw s offers, rev (trace T tfaw s offers) ++ acc).
Proof.
  induction offers as [|o r IH]; intros s acc; cbn [run trace final]; [reflexivity|].
  destruct (step T tfaw s o) as [s' i] eqn:E. cbn [fst]. rewrite IH.
  destruct i; [|reflexivity]. cbn [rev]. rewrite <- app_assoc. reflexivity.
Qed.

(** what a successful issue looks like *)
Lemma try_issue_some T tfaw s c s' x : try_issue T tfaw s c = (s', Some x) ->
  exists e k, find_entry s (c_loc c) = Some e /\ ready_kind tfaw s (e_data e) c = Some k /\
    s' = issue T s (mk_cmd k (c_loc c)) /\ x = mk_issued (s_tick s) k (c_loc c).
Proof.
  unfold try_issue. destruct (find_entry s (c_loc c)) as [e|]; [|discriminate].
  destruct (ready_kind tfaw s (e_data e) c) as [k|] eqn:R; [|discriminate].
  intro H. inversion H. exists e, k. auto.
Qed.

Lemma try_issue_none T tfaw s c s' : try_issue T tfaw s c = (s', None) -> s' = s.
Proof.
  unfold try_issue. destruct (find_entry s (c_loc c)) as [e|]; [|intro H; inversion H; auto].
  destruct (ready_kind tfaw s (e_data e) c); intro H; inversion H; auto.
Qed.

(** the shape of a ready kind *)
Lemma ready_kind_cases tfaw s b c k : ready_kind tfaw s b c = Some k ->
  getc (b_cnt b) k = 0%Z /\
  ((b_state b = st_closed /\ k = kACT /\ c_kind c < 4 /\
      ((0 <? tfaw)%Z = true -> can_activate tfaw s (l_rank (c_loc c)) = true)) \/
   (b_state b = st_open /\ b_row b = l_row (c_loc c) /\ k = c_kind c /\ k < 4) \/
   (b_state b = st_open /\ b_row b <> l_row (c_loc c) /\ k = kPRE /\ c_kind c < 4)).
Proof.
  unfold ready_kind, required_kind, is_rw.
  destruct (c_kind c <? 4) eqn:RW.
  2:{ cbn. discriminate. }
  apply N.ltb_lt in RW.
  destruct (b_state b =? st_closed) eqn:SC.
  - apply N.eqb_eq in SC.
    change (kACT =? num_kind) with false. cbv iota.
    destruct (getc (b_cnt b) kACT =? 0)%Z eqn:C0; [|discriminate].
    change (kACT =? kACT) with true. cbn [andb].
    destruct ((0 <? tfaw)%Z && negb (can_activate tfaw s (l_rank (c_loc c)))) eqn:F; [discriminate|].
    intro H; inversion H; subst k. split; [lia|]. left. repeat split; auto.
    intro P. rewrite P in F. cbn in F. destruct (can_activate tfaw s (l_rank (c_loc c))); [reflexivity|discriminate].
  - destruct (b_state b =? st_open) eqn:SO.
    2:{ cbn. discriminate. }
    apply N.eqb_eq in SO.
    destruct (b_row b =? l_row (c_loc c)) eqn:RR.
    + apply N.eqb_eq in RR.
      destruct (c_kind c =? num_kind) eqn:E1; [discriminate|].
      destruct (getc (b_cnt b) (c_kind c) =? 0)%Z eqn:C0; [|discriminate].
      destruct ((c_kind c =? kACT) && (0 <? tfaw)%Z && negb (can_activate tfaw s (l_rank (c_loc c)))) eqn:F.
      * apply andb_true_iff in F. destruct F as [F _]. apply andb_true_iff in F. destruct F as [F _].
        apply N.eqb_eq in F. unfold kACT in F. lia.
      * intro H; inversion H; subst k. split; [lia|]. right; left. repeat split; auto.
    + apply N.eqb_neq in RR.
      change (kPRE =? num_kind) with false. cbv iota.
      destruct (getc (b_cnt b) kPRE =? 0)%Z eqn:C0; [|discriminate].
      change (kPRE =? kACT) with false. cbn [andb].
      intro H; inversion H; subst k. split; [lia|]. right; right. repeat split; auto.
Qed.
