(** C22 — the state Build installs ([init_st], initBankStatesFlat) for ARBITRARY geometry:
    well-formed layout, every bank closed, empty activate histories, and bankFlatIndex is a
    bijection between the in-range coordinates and the entry slots. *)
From Akita Require Import Lib.Base C22.Model C22.Proofs C22.Proofs2 C22.Proofs4.
Local Open Scope N_scope.

(* ------------------------------------------------------------------ flat_map over uniform blocks *)

Lemma flat_map_seq_length {A} (f : nat -> list A) (m : nat) : (forall r, length (f r) = m) ->
  forall n s, length (flat_map f (seq s n)) = (n * m)%nat.
Proof.
  intros Hm. induction n as [|n IH]; intro s; cbn [seq flat_map]; [reflexivity|].
  rewrite app_length, Hm, IH. lia.
Qed.

Lemma nth_error_flat_map_seq {A} (f : nat -> list A) (m : nat) : (forall r, length (f r) = m) ->
  forall n s i e, nth_error (flat_map f (seq s n)) i = Some e ->
  exists r j, (s <= r < s + n)%nat /\ (j < m)%nat /\ i = ((r - s) * m + j)%nat /\ nth_error (f r) j = Some e.
Proof.
  intros Hm. induction n as [|n IH]; intros s i e H; cbn [seq flat_map] in H.
  - destruct i; discriminate.
  - destruct (Nat.lt_ge_cases i m) as [L|L].
    + rewrite nth_error_app1 in H by (rewrite Hm; exact L).
      exists s, i. repeat split; try lia. exact H.
    + rewrite nth_error_app2 in H by (rewrite Hm; exact L). rewrite Hm in H.
      destruct (IH _ _ _ H) as [r [j [Hr [Hj [Hi He]]]]].
      exists r, j. repeat split; try lia; [|exact He].
      replace (r - s)%nat with (S (r - S s)) by lia. cbn [Nat.mul]. lia.
Qed.

Lemma nth_error_map_seq {A} (h : nat -> A) n i e :
  nth_error (map h (seq 0 n)) i = Some e -> (i < n)%nat /\ e = h i.
Proof.
  intro H. rewrite nth_error_map in H. destruct (nth_error (seq 0 n) i) as [x|] eqn:E; [|discriminate].
  inversion H; subst. assert (i < n)%nat as L.
  { assert (nth_error (seq 0 n) i <> None) as Q by congruence.
    apply nth_error_Some in Q. rewrite seq_length in Q. exact Q. }
  split; [exact L|]. rewrite (nth_error_nth' _ 0%nat) in E by (rewrite seq_length; exact L).
  inversion E. rewrite seq_nth by exact L. reflexivity.
Qed.

(* ------------------------------------------------------------------ the initial entries *)

Definition init_row (r g : nat) (nb : N) : list entry :=
  map (fun k => mk_entry (N.of_nat r) (N.of_nat g) (N.of_nat k) (mk_bank st_closed 0 zero_cnt)) (seq 0 (N.to_nat nb)).
Definition init_rank (r : nat) (nbg nb : N) : list entry :=
  flat_map (fun g => init_row r g nb) (seq 0 (N.to_nat nbg)).

Lemma init_entries_unfold nr nbg nb :
  init_entries nr nbg nb = flat_map (fun r => init_rank r nbg nb) (seq 0 (N.to_nat nr)).
Proof. reflexivity. Qed.

Lemma init_row_length r g nb : length (init_row r g nb) = N.to_nat nb.
Proof. unfold init_row. rewrite map_length, seq_length. reflexivity. Qed.

Lemma init_rank_length r nbg nb : length (init_rank r nbg nb) = (N.to_nat nbg * N.to_nat nb)%nat.
Proof. unfold init_rank. apply flat_map_seq_length. intro g. apply init_row_length. Qed.

Lemma init_entries_length nr nbg nb :
  length (init_entries nr nbg nb) = (N.to_nat nr * (N.to_nat nbg * N.to_nat nb))%nat.
Proof.
  rewrite init_entries_unfold. apply flat_map_seq_length. intro r. apply init_rank_length.
Qed.

(** the entry in slot i: its coordinates are the mixed-radix digits of i *)
Lemma init_entries_nth nr nbg nb i e : nth_error (init_entries nr nbg nb) i = Some e ->
  exists r g k, (r < N.to_nat nr)%nat /\ (g < N.to_nat nbg)%nat /\ (k < N.to_nat nb)%nat /\
    i = (r * (N.to_nat nbg * N.to_nat nb) + (g * N.to_nat nb + k))%nat /\
    e = mk_entry (N.of_nat r) (N.of_nat g) (N.of_nat k) (mk_bank st_closed 0 zero_cnt).
Proof.
  rewrite init_entries_unfold. intro H.
  destruct (nth_error_flat_map_seq _ _ (fun r => init_rank_length r nbg nb) _ _ _ _ H) as [r [j [Hr [Hj [Hi Hr2]]]]].
  unfold init_rank in Hr2.
  destruct (nth_error_flat_map_seq _ _ (fun g => init_row_length r g nb) _ _ _ _ Hr2) as [g [k [Hg [Hk [Hj2 Hg2]]]]].
  unfold init_row in Hg2. destruct (nth_error_map_seq _ _ _ _ Hg2) as [Hk2 He].
  exists r, g, k. repeat split; try lia. exact He.
Qed.

(** wf for every geometry *)
Theorem init_wf : forall nr nbg nb, wf (init_st nr nbg nb).
Proof.
  intros nr nbg nb i e H. unfold init_st in H. cbn [s_entries s_nbg s_nb init_st] in *.
  destruct (init_entries_nth _ _ _ _ _ H) as [r [g [k [Hr [Hg [Hk [Hi ->]]]]]]].
  cbn [e_rank e_bg e_bank e_data b_cnt]. split; [|split; [lia|split; [lia|reflexivity]]].
  subst i.
  rewrite !Nat2N.inj_add, !Nat2N.inj_mul, !N2Nat.id. lia.
Qed.

Theorem init_closed : forall nr nbg nb, all_closed (init_st nr nbg nb).
Proof.
  intros nr nbg nb e H. apply In_nth_error in H. destruct H as [i H].
  destruct (init_entries_nth _ _ _ _ _ H) as [r [g [k [_ [_ [_ [_ ->]]]]]]]. reflexivity.
Qed.

Theorem init_hist : forall nr nbg nb, no_hist (init_st nr nbg nb) /\ length (s_hist (init_st nr nbg nb)) = N.to_nat nr.
Proof.
  intros nr nbg nb. split.
  - intros h H. cbn [init_st s_hist] in H. eapply repeat_spec; eauto.
  - cbn [init_st s_hist]. apply repeat_length.
Qed.

(** bankFlatIndex is a bijection between in-range coordinates and slots [0, nr*nbg*nb):
    total and coordinate-preserving on in-range locations, injective, and nothing else is found *)
Theorem flat_index_bijection : forall nr nbg nb,
  let s := init_st nr nbg nb in
  length (s_entries s) = N.to_nat (nr * nbg * nb) /\
  (forall l, l_rank l < nr -> l_bg l < nbg -> l_bank l < nb ->
     flat_index s l < nr * nbg * nb /\
     exists e, find_entry s l = Some e /\ e_rank e = l_rank l /\ e_bg e = l_bg l /\ e_bank e = l_bank l) /\
  (forall l1 l2, l_bg l1 < nbg -> l_bank l1 < nb -> l_bg l2 < nbg -> l_bank l2 < nb ->
     flat_index s l1 = flat_index s l2 ->
     l_rank l1 = l_rank l2 /\ l_bg l1 = l_bg l2 /\ l_bank l1 = l_bank l2) /\
  (forall i, (i < N.to_nat (nr * nbg * nb))%nat ->
     exists e, nth_error (s_entries s) i = Some e /\
       N.of_nat i = (e_rank e * nbg + e_bg e) * nb + e_bank e /\ e_rank e < nr /\ e_bg e < nbg /\ e_bank e < nb) /\
  (forall l e, l_bg l < nbg -> l_bank l < nb -> find_entry s l = Some e -> l_rank l < nr).
Proof.
  intros nr nbg nb s.
  assert (Len : length (s_entries s) = N.to_nat (nr * nbg * nb)).
  { subst s. cbn [init_st s_entries]. rewrite init_entries_length. lia. }
  pose proof (init_wf nr nbg nb) as W. fold s in W.
  split; [exact Len|]. split; [|split; [|split]].
  - intros l Hr Hg Hb.
    assert (flat_index s l < nr * nbg * nb) as Lt.
    { subst s. unfold flat_index. cbn [init_st s_nbg s_nb].
      assert (l_rank l * nbg + l_bg l + 1 <= nr * nbg) as A1.
      { assert ((l_rank l + 1) * nbg <= nr * nbg) by (apply N.mul_le_mono_r; lia). lia. }
      assert ((l_rank l * nbg + l_bg l + 1) * nb <= nr * nbg * nb) as A2 by (apply N.mul_le_mono_r; exact A1).
      lia. }
    split; [exact Lt|].
    destruct (nth_error (s_entries s) (N.to_nat (flat_index s l))) as [e|] eqn:E.
    + exists e. split; [exact E|]. apply (find_entry_coords s l e W); auto.
    + apply nth_error_None in E. lia.
  - intros l1 l2 G1 B1 G2 B2 E. subst s. unfold flat_index in E. cbn [init_st s_nbg s_nb] in E.
    destruct (divmod_unique _ _ _ _ _ B1 B2 E) as [E1 E2].
    destruct (divmod_unique _ _ _ _ _ G1 G2 E1) as [E3 E4]. auto.
  - intros i Hi.
    destruct (nth_error (s_entries s) i) as [e|] eqn:E; [|apply nth_error_None in E; lia].
    exists e. split; [reflexivity|]. destruct (W _ _ E) as [A [B [C _]]].
    subst s. cbn [init_st s_entries s_nbg s_nb] in *.
    destruct (init_entries_nth _ _ _ _ _ E) as [r [g [k [Hr [Hg [Hk [_ ->]]]]]]].
    cbn [e_rank e_bg e_bank] in *. split; [exact A|]. split; [lia|]. split; lia.
  - intros l e Hg Hb F. destruct (find_entry_coords s l e W Hg Hb F) as [Er _].
    unfold find_entry in F. subst s. cbn [init_st s_entries] in F.
    destruct (init_entries_nth _ _ _ _ _ F) as [r [g [k [Hr [_ [_ [_ ->]]]]]]]. cbn [e_rank] in Er. lia.
Qed.
