(** C22 — the issued stream follows the per-bank DRAM automaton. *)
From Akita Require Import Lib.Base C22.Model C22.Proofs.
Local Open Scope N_scope.

Definition coords (e : entry) : bank_id := (e_rank e, e_bg e, e_bank e).

Lemma bid_eqb_eq a b : bid_eqb a b = true <-> a = b.
Proof.
  destruct a as [[a1 a2] a3], b as [[b1 b2] b3]. unfold bid_eqb.
  rewrite !andb_true_iff, !N.eqb_eq. split; [intros [[-> ->] ->]; reflexivity|intro H; inversion H; auto].
Qed.

Lemma bid_eqb_refl a : bid_eqb a a = true.
Proof. apply bid_eqb_eq. reflexivity. Qed.

Lemma bid_eqb_neq a b : a <> b -> bid_eqb a b = false.
Proof. intro H. destruct (bid_eqb a b) eqn:E; [apply bid_eqb_eq in E; contradiction|reflexivity]. Qed.

Lemma lookup_cons_same id r o : lookup id ((id, r) :: o) = Some r.
Proof. cbn [lookup]. rewrite bid_eqb_refl. reflexivity. Qed.

Lemma lookup_cons_other id id' r o : id' <> id -> lookup id' ((id, r) :: o) = lookup id' o.
Proof. intro H. cbn [lookup]. rewrite bid_eqb_neq by exact H. reflexivity. Qed.

Lemma lookup_remove_same id o : lookup id (remove id o) = None.
Proof.
  induction o as [|[i r] t IH]; [reflexivity|]. unfold remove in *. cbn [filter fst].
  destruct (bid_eqb id i) eqn:E; cbn [negb]; [exact IH|]. cbn [lookup]. rewrite E. exact IH.
Qed.

Lemma lookup_remove_other id id' o : id' <> id -> lookup id' (remove id o) = lookup id' o.
Proof.
  intro H. induction o as [|[i r] t IH]; [reflexivity|]. unfold remove in *. cbn [filter fst].
  destruct (bid_eqb id i) eqn:E; cbn [negb].
  - apply bid_eqb_eq in E. subst i. rewrite lookup_cons_other by exact H. exact IH.
  - cbn [lookup]. destruct (bid_eqb id' i); [reflexivity|exact IH].
Qed.

(** the abstraction relation between the model banks and the automaton state *)
Definition abs_ok (s : st) (A : list (bank_id * N)) : Prop :=
  forall i e, nth_error (s_entries s) i = Some e ->
    (b_state (e_data e) = st_open /\ lookup (coords e) A = Some (b_row (e_data e))) \/
    (b_state (e_data e) = st_closed /\ lookup (coords e) A = None).

Lemma abs_ok_tick s A : abs_ok s A -> abs_ok (tick_banks s) A.
Proof.
  intros H i e Hn. unfold tick_banks in Hn. cbn [s_entries] in Hn. rewrite nth_error_map in Hn.
  destruct (nth_error (s_entries s) i) as [e0|] eqn:E; [|discriminate]. inversion Hn; subst e.
  exact (H _ _ E).
Qed.

Lemma abs_ok_update_timing T s c A : abs_ok s A -> abs_ok (update_timing T s c) A.
Proof.
  intros H. unfold update_timing. destruct (timing_applies (c_kind c)); [|exact H].
  intros i e Hn. cbn [s_entries] in Hn. rewrite nth_error_map in Hn.
  destruct (nth_error (s_entries s) i) as [e0|] eqn:E; [|discriminate]. inversion Hn; subst e.
  exact (H _ _ E).
Qed.

(** entries after startCommand, with the state change made explicit *)
Lemma start_command_entry_data s c e0 i e' :
  nth_error (s_entries (start_command s c)) i = Some e' ->
  find_entry s (c_loc c) = Some e0 ->
  (i = N.to_nat (flat_index s (c_loc c)) /\ coords e' = coords e0 /\ e_data e' = fst (start_bank (e_data e0) c)) \/
  (i <> N.to_nat (flat_index s (c_loc c)) /\ nth_error (s_entries s) i = Some e').
Proof.
  intros H F. revert H. unfold start_command. rewrite F.
  destruct (start_bank (e_data e0) c) as [b' act] eqn:SB. cbn [s_entries fst].
  intro H. destruct (Nat.eq_dec (N.to_nat (flat_index s (c_loc c))) i) as [E|E].
  - left. subst i. unfold find_entry in F. rewrite (nth_error_upd_nat_same _ _ _ _ F) in H.
    inversion H; subst e'. auto.
  - right. rewrite nth_error_upd_nat_other in H by exact E. split; [congruence|exact H].
Qed.

Definition in_range (nbg nb : N) (o : option cmd) : Prop :=
  match o with Some c => l_bg (c_loc c) < nbg /\ l_bank (c_loc c) < nb | None => True end.

Lemma step_layout T tfaw s o : let s' := fst (step T tfaw s o) in
  s_nbg s' = s_nbg s /\ s_nb s' = s_nb s.
Proof.
  unfold step. destruct o as [c|]; [|cbn; auto].
  unfold try_issue. destruct (find_entry (tick_banks s) (c_loc c)); [|cbn; auto].
  destruct (ready_kind tfaw (tick_banks s) (e_data e) c); [|cbn; auto].
  cbn [fst]. unfold issue, update_timing.
  destruct (start_command_layout (tick_banks s) (mk_cmd n (c_loc c))) as [A [B _]].
  destruct (timing_applies _); cbn [s_nbg s_nb]; rewrite A, B; cbn; auto.
Qed.

Lemma wf_step T tfaw s o : wf s -> wf (fst (step T tfaw s o)).
Proof.
  intro W. unfold step. destruct o as [c|]; [|cbn; apply wf_tick_banks, W].
  unfold try_issue. pose proof (wf_tick_banks _ W) as W1.
  destruct (find_entry (tick_banks s) (c_loc c)); [|exact W1].
  destruct (ready_kind tfaw (tick_banks s) (e_data e) c); [|exact W1].
  cbn [fst]. apply wf_issue, W1.
Qed.

(** one successful issue is one legal automaton step *)
Lemma issue_legal T tfaw s c s' x A : wf s -> abs_ok s A ->
  l_bg (c_loc c) < s_nbg s -> l_bank (c_loc c) < s_nb s ->
  try_issue T tfaw s c = (s', Some x) ->
  exists A', auto_step A x = Some A' /\ abs_ok s' A'.
Proof.
  intros W HA Hg Hb TI.
  destruct (try_issue_some _ _ _ _ _ _ TI) as [e0 [k [F [R [-> ->]]]]].
  destruct (find_entry_coords _ _ _ W Hg Hb F) as [Cr [Cg Cb]].
  assert (Hid : coords e0 = bid (c_loc c)) by (unfold coords, bid; congruence).
  pose proof F as F'. unfold find_entry in F'.
  destruct (HA _ _ F') as [[So Lo]|[Sc Lc]]; rewrite Hid in *.
  - (* bank open *)
    destruct (ready_kind_cases _ _ _ _ _ R) as [_ [[Q _]|[[_ [Rw [Kc K4]]]|[_ [Rw [Kp _]]]]]]; [unfold st_open, st_closed in *; congruence| |].
    + (* row hit: RD/WR/RDA/WRA *)
      unfold auto_step. cbn [i_kind i_loc].
      assert (k =? kACT = false) as -> by (apply N.eqb_neq; unfold kACT; lia).
      rewrite Lo. rewrite Rw, N.eqb_refl.
      destruct ((k =? kRD) || (k =? kWR)) eqn:RW.
      * eexists; split; [reflexivity|]. apply abs_ok_update_timing.
        intros i e' Hn. destruct (start_command_entry_data _ _ _ _ _ Hn F) as [[Ei [Ce De]]|[Ei Hn']]; [|exact (HA _ _ Hn')].
        cbn [c_loc c_kind] in *. unfold start_bank in De. cbn [c_kind] in De.
        rewrite So in De. change (st_open =? st_closed) with false in De. cbn [andb] in De.
        change (st_open =? st_open) with true in De. cbn [andb] in De.
        assert (((k =? kPRE) || (k =? kRDA) || (k =? kWRA)) = false) as E3.
        { apply orb_true_iff in RW. unfold kRD, kWR, kPRE, kRDA, kWRA in *.
          destruct RW as [E|E]; apply N.eqb_eq in E; rewrite E; reflexivity. }
        rewrite E3 in De. cbn [fst] in De. left. rewrite De, Ce, Hid. auto.
      * assert (((k =? kRDA) || (k =? kWRA)) = true) as E3.
        { apply orb_false_iff in RW. destruct RW as [E1 E2]. apply N.eqb_neq in E1, E2.
          unfold kRD, kWR, kRDA, kWRA in *. apply orb_true_iff.
          assert (k = 1 \/ k = 3) as [->| ->] by lia; [left|right]; reflexivity. }
        rewrite E3. eexists; split; [reflexivity|]. apply abs_ok_update_timing.
        intros i e' Hn. destruct (start_command_entry_data _ _ _ _ _ Hn F) as [[Ei [Ce De]]|[Ei Hn']].
        -- cbn [c_loc c_kind] in *. unfold start_bank in De. cbn [c_kind] in De.
           rewrite So in De. change (st_open =? st_closed) with false in De. cbn [andb] in De.
           change (st_open =? st_open) with true in De. cbn [andb] in De.
           assert (((k =? kPRE) || (k =? kRDA) || (k =? kWRA)) = true) as E4.
           { rewrite <- orb_assoc. rewrite E3. apply orb_true_r. }
           rewrite E4 in De. cbn [fst] in De. right. rewrite De, Ce, Hid. cbn [b_state].
           split; [reflexivity|apply lookup_remove_same].
        -- assert (coords e' <> bid (c_loc c)) as NE.
           { intro Q. apply Ei. rewrite <- Hid in Q. unfold coords in Q. inversion Q.
             eapply (wf_coords_inj s); eauto. }
           cbn [c_loc]. rewrite lookup_remove_other by exact NE. exact (HA _ _ Hn').
    + (* row conflict: PRE *)
      subst k. unfold auto_step. cbn [i_kind i_loc].
      change (kPRE =? kACT) with false. change ((kPRE =? kRD) || (kPRE =? kWR)) with false.
      change ((kPRE =? kRDA) || (kPRE =? kWRA)) with false. change (kPRE =? kPRE) with true. cbv iota.
      rewrite Lo. eexists; split; [reflexivity|]. apply abs_ok_update_timing.
      intros i e' Hn. destruct (start_command_entry_data _ _ _ _ _ Hn F) as [[Ei [Ce De]]|[Ei Hn']].
      * cbn [c_loc c_kind] in *. unfold start_bank in De. cbn [c_kind] in De.
        rewrite So in De. change (st_open =? st_closed) with false in De. cbn [andb] in De.
        change (st_open =? st_open) with true in De. cbn [andb] in De.
        change ((kPRE =? kPRE) || (kPRE =? kRDA) || (kPRE =? kWRA)) with true in De.
        cbn [fst] in De. right. rewrite De, Ce, Hid. cbn [b_state].
        split; [reflexivity|apply lookup_remove_same].
      * assert (coords e' <> bid (c_loc c)) as NE.
        { intro Q. apply Ei. rewrite <- Hid in Q. unfold coords in Q. inversion Q.
          eapply (wf_coords_inj s); eauto. }
        cbn [c_loc]. rewrite lookup_remove_other by exact NE. exact (HA _ _ Hn').
  - (* bank closed: ACT *)
    destruct (ready_kind_cases _ _ _ _ _ R) as [_ [[_ [Ka _]]|[[Q _]|[Q _]]]]; try (unfold st_open, st_closed in *; congruence).
    subst k. unfold auto_step. cbn [i_kind i_loc]. change (kACT =? kACT) with true. cbv iota.
    rewrite Lc. eexists; split; [reflexivity|]. apply abs_ok_update_timing.
    intros i e' Hn. destruct (start_command_entry_data _ _ _ _ _ Hn F) as [[Ei [Ce De]]|[Ei Hn']].
    + cbn [c_loc c_kind] in *. unfold start_bank in De. cbn [c_kind c_loc] in De.
      rewrite Sc in De. change (st_closed =? st_closed) with true in De.
      change (kACT =? kACT) with true in De. cbn [andb fst] in De.
      left. rewrite De, Ce, Hid. cbn [b_state b_row]. split; [reflexivity|apply lookup_cons_same].
    + assert (coords e' <> bid (c_loc c)) as NE.
      { intro Q. apply Ei. rewrite <- Hid in Q. unfold coords in Q. inversion Q.
        eapply (wf_coords_inj s); eauto. }
      cbn [c_loc]. rewrite lookup_cons_other by exact NE. exact (HA _ _ Hn').
Qed.

(** every history is accepted by the automaton *)
Theorem legal_trace T tfaw offers : forall s A, wf s -> abs_ok s A ->
  Forall (in_range (s_nbg s) (s_nb s)) offers ->
  legal_from A (trace T tfaw s offers) = true.
Proof.
  induction offers as [|o r IH]; intros s A W HA HR; [reflexivity|].
  inversion HR as [|? ? Ho Hr]; subst. cbn [trace].
  destruct (step T tfaw s o) as [s' i] eqn:ST.
  pose proof (step_layout T tfaw s o) as L. pose proof (wf_step T tfaw s o W) as W'.
  rewrite ST in L, W'. cbn [fst] in L, W'. destruct L as [L1 L2].
  unfold step in ST. destruct o as [c|].
  - pose proof (wf_tick_banks _ W) as W1. pose proof (abs_ok_tick _ _ HA) as HA1.
    destruct i as [x|].
    + destruct Ho as [Hg Hb].
      destruct (issue_legal _ _ _ _ _ _ _ W1 HA1 Hg Hb ST) as [A' [AS HA']].
      cbn [legal_from]. rewrite AS. apply IH; auto. rewrite L1, L2. exact Hr.
    + apply try_issue_none in ST. subst s'. apply IH; auto.
  - inversion ST; subst. apply IH; auto. apply abs_ok_tick, HA.
Qed.

Definition all_closed (s : st) : Prop :=
  forall e, In e (s_entries s) -> b_state (e_data e) = st_closed.

Lemma abs_ok_nil s : all_closed s -> abs_ok s [].
Proof. intros H i e Hn. right. split; [apply H; eapply nth_error_In; eauto|reflexivity]. Qed.

(* ------------------------------------------------------------------ what acceptance means *)

(** [legal_from] is sound for the declarative reading of the state machine: a column
    command to row r of a bank is preceded by an activate of row r of that bank with no
    closing command (PRE/RDA/WRA) to that bank in between, and an activate of a bank is
    preceded by no earlier command to it, or by a closing one with nothing in between. *)
Definition closes (i : issued) : bool := (i_kind i =? kPRE) || (i_kind i =? kRDA) || (i_kind i =? kWRA).
Definition on_bank (id : bank_id) (i : issued) : bool := bid_eqb id (bid (i_loc i)).

(** state of bank [id] after replaying [tr] from [o] *)
Fixpoint replay_auto (o : list (bank_id * N)) (tr : list issued) : option (list (bank_id * N)) :=
  match tr with
  | [] => Some o
  | i :: r => match auto_step o i with Some o' => replay_auto o' r | None => None end
  end.

Lemma legal_from_replay o tr : legal_from o tr = true <-> exists o', replay_auto o tr = Some o'.
Proof.
  revert o; induction tr as [|i r IH]; intro o; cbn [legal_from replay_auto].
  - split; eauto.
  - destruct (auto_step o i); [apply IH|]. split; [discriminate|intros [? H]; discriminate].
Qed.

Lemma replay_auto_app o tr1 tr2 :
  replay_auto o (tr1 ++ tr2) =
  match replay_auto o tr1 with Some o' => replay_auto o' tr2 | None => None end.
Proof.
  revert o; induction tr1 as [|i r IH]; intro o; cbn [app replay_auto]; [reflexivity|].
  destruct (auto_step o i); [apply IH|reflexivity].
Qed.

(** commands to other banks do not change a bank's automaton state *)
Lemma auto_step_other o i o' id : auto_step o i = Some o' -> on_bank id i = false ->
  lookup id o' = lookup id o.
Proof.
  unfold auto_step, on_bank. intros H NE.
  assert (id <> bid (i_loc i)) as D by (intro Q; subst id; rewrite bid_eqb_refl in NE; discriminate).
  destruct (i_kind i =? kACT).
  { destruct (lookup (bid (i_loc i)) o); [discriminate|]. inversion H; subst. apply lookup_cons_other, D. }
  destruct ((i_kind i =? kRD) || (i_kind i =? kWR)).
  { destruct (lookup (bid (i_loc i)) o); [|discriminate].
    destruct (n =? l_row (i_loc i)); inversion H; subst; reflexivity. }
  destruct ((i_kind i =? kRDA) || (i_kind i =? kWRA)).
  { destruct (lookup (bid (i_loc i)) o); [|discriminate].
    destruct (n =? l_row (i_loc i)); inversion H; subst. apply lookup_remove_other, D. }
  destruct (i_kind i =? kPRE); [|discriminate].
  destruct (lookup (bid (i_loc i)) o); [|discriminate]. inversion H; subst. apply lookup_remove_other, D.
Qed.

(** the open row recorded by the automaton is the row of the last activate of that bank,
    and no closing command to that bank came after it *)
Definition last_act_is (id : bank_id) (row : N) (tr : list issued) : Prop :=
  exists pre a post, tr = pre ++ a :: post /\ i_kind a = kACT /\ bid (i_loc a) = id /\
    l_row (i_loc a) = row /\
    forall j, In j post -> on_bank id j = true -> closes j = false /\ i_kind j <> kACT.

Lemma replay_open_means_act tr : forall o o' id row,
  replay_auto o tr = Some o' -> lookup id o = None -> lookup id o' = Some row ->
  last_act_is id row tr.
Proof.
  induction tr as [|i r IH] using rev_ind; intros o o' id row H L0 L1.
  - cbn in H. inversion H; subst. congruence.
  - rewrite replay_auto_app in H. destruct (replay_auto o r) as [om|] eqn:RM; [|discriminate].
    cbn [replay_auto] in H. destruct (auto_step om i) as [o2|] eqn:AS; [|discriminate].
    inversion H; subst o2. clear H.
    destruct (on_bank id i) eqn:OB.
    + unfold on_bank in OB. apply bid_eqb_eq in OB. subst id.
      unfold auto_step in AS.
      destruct (i_kind i =? kACT) eqn:KA.
      * destruct (lookup (bid (i_loc i)) om); [discriminate|]. inversion AS; subst o'.
        rewrite lookup_cons_same in L1. inversion L1; subst row.
        exists r, i, []. split; [reflexivity|]. split; [apply N.eqb_eq, KA|]. split; [reflexivity|]. split; [reflexivity|]. intros j [].
      * destruct ((i_kind i =? kRD) || (i_kind i =? kWR)) eqn:KR.
        { destruct (lookup (bid (i_loc i)) om) as [rr|] eqn:LM; [|discriminate].
          destruct (rr =? l_row (i_loc i)) eqn:RR; [|discriminate]. inversion AS; subst o'.
          rewrite LM in L1. inversion L1; subst rr.
          destruct (IH _ _ _ _ RM L0 LM) as [pre [a [post [E [K [B [Rw P]]]]]]].
          exists pre, a, (post ++ [i]). rewrite E, <- app_assoc.
          split; [reflexivity|]. split; [exact K|]. split; [exact B|]. split; [exact Rw|].
          intros j Hj OBj. apply in_app_or in Hj. destruct Hj as [Hj|[Ej|[]]]; [apply P; auto|subst j].
          apply N.eqb_neq in KA. split; [|exact KA]. unfold closes.
          apply orb_true_iff in KR. unfold kRD, kWR, kPRE, kRDA, kWRA in *.
          destruct KR as [Q|Q]; apply N.eqb_eq in Q; rewrite Q; reflexivity. }
        destruct ((i_kind i =? kRDA) || (i_kind i =? kWRA)).
        { destruct (lookup (bid (i_loc i)) om) as [rr|]; [|discriminate].
          destruct (rr =? l_row (i_loc i)); [|discriminate]. inversion AS; subst o'.
          rewrite lookup_remove_same in L1. discriminate. }
        destruct (i_kind i =? kPRE); [|discriminate].
        destruct (lookup (bid (i_loc i)) om); [|discriminate]. inversion AS; subst o'.
        rewrite lookup_remove_same in L1. discriminate.
    + rewrite (auto_step_other _ _ _ _ AS OB) in L1.
      destruct (IH _ _ _ _ RM L0 L1) as [pre [a [post [E [K [B [Rw P]]]]]]].
      exists pre, a, (post ++ [i]). rewrite E, <- app_assoc.
      split; [reflexivity|]. split; [exact K|]. split; [exact B|]. split; [exact Rw|].
      intros j Hj OBj. apply in_app_or in Hj. destruct Hj as [Hj|[Ej|[]]]; [apply P; auto|subst j; congruence].
Qed.

(** main soundness statement for column commands *)
Theorem legal_column_after_activate tr pre c post :
  legal_from [] tr = true -> tr = pre ++ c :: post -> i_kind c < 4 ->
  last_act_is (bid (i_loc c)) (l_row (i_loc c)) pre.
Proof.
  intros L E K. subst tr. apply legal_from_replay in L. destruct L as [o' L].
  rewrite replay_auto_app in L. destruct (replay_auto [] pre) as [om|] eqn:RM; [|discriminate].
  cbn [replay_auto] in L. destruct (auto_step om c) as [o2|] eqn:AS; [|discriminate].
  unfold auto_step in AS.
  assert (i_kind c =? kACT = false) as KA by (apply N.eqb_neq; unfold kACT; lia).
  rewrite KA in AS.
  assert (exists rr, lookup (bid (i_loc c)) om = Some rr /\ rr = l_row (i_loc c)) as [rr [LM ->]].
  { destruct ((i_kind c =? kRD) || (i_kind c =? kWR)).
    - destruct (lookup (bid (i_loc c)) om) as [rr|]; [|discriminate].
      destruct (rr =? l_row (i_loc c)) eqn:Q; [|discriminate]. apply N.eqb_eq in Q. eauto.
    - destruct ((i_kind c =? kRDA) || (i_kind c =? kWRA)) eqn:Q2.
      + destruct (lookup (bid (i_loc c)) om) as [rr|]; [|discriminate].
        destruct (rr =? l_row (i_loc c)) eqn:Q; [|discriminate]. apply N.eqb_eq in Q. eauto.
      + assert (i_kind c =? kPRE = false) as KP by (apply N.eqb_neq; unfold kPRE; lia).
        rewrite KP in AS. discriminate. }
  eapply replay_open_means_act; eauto.
Qed.

(** an activate is only issued to a bank the automaton holds closed: the bank was never
    touched, or its last state-changing command was a closing one *)
Theorem legal_activate_on_closed tr pre c post :
  legal_from [] tr = true -> tr = pre ++ c :: post -> i_kind c = kACT ->
  forall row, ~ last_act_is (bid (i_loc c)) row pre.
Proof.
  intros L E K row [p [a [q [Ep [Ka [Ba [Ra P]]]]]]]. subst tr pre.
  apply legal_from_replay in L. destruct L as [o' L].
  rewrite replay_auto_app in L.
  destruct (replay_auto [] (p ++ a :: q)) as [om|] eqn:RM; [|discriminate].
  cbn [replay_auto] in L. destruct (auto_step om c) as [o2|] eqn:AS; [|discriminate].
  unfold auto_step in AS. rewrite K in AS. change (kACT =? kACT) with true in AS. cbv iota in AS.
  destruct (lookup (bid (i_loc c)) om) eqn:LM; [discriminate|].
  (* but the bank is open after a :: q *)
  rewrite replay_auto_app in RM. destruct (replay_auto [] p) as [o1|]; [|discriminate].
  cbn [replay_auto] in RM. destruct (auto_step o1 a) as [o3|] eqn:ASa; [|discriminate].
  assert (lookup (bid (i_loc c)) o3 = Some (l_row (i_loc a))) as L3.
  { unfold auto_step in ASa. rewrite Ka in ASa. change (kACT =? kACT) with true in ASa. cbv iota in ASa.
    destruct (lookup (bid (i_loc a)) o1); [discriminate|]. inversion ASa; subst o3.
    rewrite <- Ba. apply lookup_cons_same. }
  clear ASa AS L. revert o3 om RM L3 LM. induction q as [|j q IHq]; intros o3 om RM L3 LM.
  - cbn in RM. inversion RM; subst. congruence.
  - cbn [replay_auto] in RM. destruct (auto_step o3 j) as [o4|] eqn:ASj; [|discriminate].
    assert (lookup (bid (i_loc c)) o4 = Some (l_row (i_loc a))) as L4.
    { destruct (on_bank (bid (i_loc c)) j) eqn:OB.
      - destruct (P j (or_introl eq_refl) OB) as [NC NA].
        unfold on_bank in OB. apply bid_eqb_eq in OB.
        unfold auto_step in ASj. apply N.eqb_neq in NA. rewrite NA in ASj. rewrite <- OB in ASj. rewrite L3 in ASj.
        unfold closes in NC. apply orb_false_iff in NC. destruct NC as [NC N3]. apply orb_false_iff in NC. destruct NC as [N1 N2].
        destruct ((i_kind j =? kRD) || (i_kind j =? kWR)).
        + destruct (l_row (i_loc a) =? l_row (i_loc j)); inversion ASj; subst; exact L3.
        + rewrite N2, N3, N1 in ASj. cbn in ASj. discriminate.
      - rewrite (auto_step_other _ _ _ _ ASj OB). exact L3. }
    eapply IHq; eauto. intros j' Hj'. apply P. right. exact Hj'.
Qed.
