(** C22 — the four-activate window (tFAW). *)
From Akita Require Import Lib.Base C22.Model C22.Proofs C22.Proofs2.
Local Open Scope N_scope.

(** the stored per-rank history is the (at most) four newest activate ticks, oldest first *)
Definition hist_inv (s : st) (past_rev : list issued) : Prop :=
  forall r h, nth_error (s_hist s) r = Some h -> h = rev (firstn 4 (acts_rev (N.of_nat r) past_rev)).

Lemma start_command_hist s c e0 : find_entry s (c_loc c) = Some e0 ->
  s_hist (start_command s c) =
  if (b_state (e_data e0) =? st_closed) && (c_kind c =? kACT)
  then record_activate s (l_rank (c_loc c)) else s_hist s.
Proof.
  intro F. unfold start_command. rewrite F. unfold start_bank.
  destruct ((b_state (e_data e0) =? st_closed) && (c_kind c =? kACT)); [reflexivity|].
  destruct ((b_state (e_data e0) =? st_open) && ((c_kind c =? kPRE) || (c_kind c =? kRDA) || (c_kind c =? kWRA))); reflexivity.
Qed.

Lemma nth_error_upd_nat_none {A} n (f : A -> A) l :
  nth_error l n = None -> nth_error (upd_nat n f l) n = None.
Proof. intro H. apply nth_error_None. rewrite upd_nat_length. apply nth_error_None. exact H. Qed.

Lemma issue_hist T s c : s_hist (issue T s c) = s_hist (start_command s c).
Proof. unfold issue, update_timing. destruct (timing_applies (c_kind c)); reflexivity. Qed.

Lemma acts_rev_cons_act rank x past : i_kind x = kACT -> l_rank (i_loc x) = rank ->
  acts_rev rank (x :: past) = i_tick x :: acts_rev rank past.
Proof.
  intros K R. unfold acts_rev. cbn [filter]. rewrite K, R, !N.eqb_refl. reflexivity.
Qed.

Lemma acts_rev_cons_other rank x past : (i_kind x <> kACT \/ l_rank (i_loc x) <> rank) ->
  acts_rev rank (x :: past) = acts_rev rank past.
Proof.
  intros H. unfold acts_rev. cbn [filter].
  destruct ((i_kind x =? kACT) && (l_rank (i_loc x) =? rank)) eqn:E; [|reflexivity].
  apply andb_true_iff in E. destruct E as [E1 E2]. apply N.eqb_eq in E1, E2. tauto.
Qed.

(** the new history entry after an activate at tick [t] *)
Lemma record_shape (acts : list N) (t : N) :
  let h := rev (firstn 4 acts) in
  let h1 := h ++ [t] in
  (if (4 <? length h1)%nat then skipn (length h1 - 4) h1 else h1) = rev (firstn 4 (t :: acts)).
Proof.
  destruct acts as [|a [|b [|c [|d rest]]]]; reflexivity.
Qed.

(** canActivateUnderTFAW on the stored history is the window condition on the stream *)
Lemma can_activate_window tfaw (acts : list N) (tick : N) (a : N) : (0 < tfaw)%Z ->
  let h := rev (firstn 4 acts) in
  (if (length h <? 4)%nat then true
   else Z.leb tfaw (Z.of_N (tick - nth (length h - 4)%nat h 0))) = true ->
  nth_error acts 3 = Some a -> (tfaw <= Z.of_N tick - Z.of_N a)%Z.
Proof.
  intros P h H N3. subst h.
  destruct acts as [|a0 [|b [|c [|d rest]]]]; try discriminate.
  cbn in N3. inversion N3; subst d. cbn in H. apply Z.leb_le in H. lia.
Qed.

Lemma tfaw_step T tfaw s c s' x past_rev : (0 < tfaw)%Z ->
  hist_inv s past_rev ->
  try_issue T tfaw s c = (s', Some x) ->
  hist_inv s' (x :: past_rev) /\
  length (s_hist s') = length (s_hist s) /\
  forall r, (r < length (s_hist s))%nat ->
    tfaw_ok_rev tfaw (acts_rev (N.of_nat r) past_rev) = true ->
    tfaw_ok_rev tfaw (acts_rev (N.of_nat r) (x :: past_rev)) = true.
Proof.
  intros P HI TI.
  destruct (try_issue_some _ _ _ _ _ _ TI) as [e0 [k [F [R [-> ->]]]]].
  destruct (ready_kind_cases _ _ _ _ _ R) as [_ Shape].
  unfold hist_inv.
  rewrite issue_hist, (start_command_hist s (mk_cmd k (c_loc c)) e0 F). cbn [c_kind c_loc].
  destruct Shape as [[Sc [-> [_ CA]]]|Open].
  - (* activate *)
    rewrite Sc. change ((st_closed =? st_closed) && (kACT =? kACT)) with true. cbv iota.
    specialize (CA ltac:(apply Z.ltb_lt; exact P)).
    unfold record_activate. split; [|split; [apply upd_nat_length|]].
    + intros r h Hn.
      destruct (Nat.eq_dec (N.to_nat (l_rank (c_loc c))) r) as [E|E].
      * subst r. destruct (nth_error (s_hist s) (N.to_nat (l_rank (c_loc c)))) as [h0|] eqn:H0.
        -- rewrite (nth_error_upd_nat_same _ _ _ _ H0) in Hn. inversion Hn; subst h. clear Hn.
           rewrite (HI _ _ H0). rewrite N2Nat.id.
           rewrite acts_rev_cons_act by reflexivity. cbn [i_tick]. apply record_shape.
        -- rewrite (nth_error_upd_nat_none _ _ _ H0) in Hn. discriminate.
      * rewrite nth_error_upd_nat_other in Hn by exact E.
        rewrite acts_rev_cons_other; [exact (HI _ _ Hn)|]. right. cbn [i_loc]. intro Q. apply E. rewrite Q. apply Nat2N.id.
    + intros r Hr OK.
      destruct (N.eq_dec (l_rank (c_loc c)) (N.of_nat r)) as [E|E].
      * rewrite acts_rev_cons_act by (cbn; auto). cbn [tfaw_ok_rev i_tick]. rewrite OK, andb_true_r.
        destruct (nth_error (acts_rev (N.of_nat r) past_rev) 3) as [a|] eqn:N3; [|reflexivity].
        apply Z.leb_le.
        destruct (nth_error (s_hist s) r) as [h0|] eqn:H0; [|apply nth_error_None in H0; lia].
        unfold can_activate in CA. rewrite E, Nat2N.id, H0 in CA.
        rewrite (HI _ _ H0) in CA.
        eapply can_activate_window; eauto.
      * rewrite acts_rev_cons_other; [exact OK|]. right. exact E.
  - (* not an activate: histories and activate lists unchanged *)
    assert (b_state (e_data e0) = st_open /\ k <> kACT) as [So NK].
    { unfold kACT, kPRE in *. destruct Open as [[So [_ [_ K4]]]|[So [_ [-> _]]]]; split; auto; lia. }
    rewrite So. change (st_open =? st_closed) with false. cbn [andb].
    split; [|split; [reflexivity|]].
    + intros r h Hn. rewrite acts_rev_cons_other; [exact (HI _ _ Hn)|]. left. exact NK.
    + intros r _ OK. rewrite acts_rev_cons_other; [exact OK|]. left. exact NK.
Qed.

Lemma tfaw_trace T tfaw offers : (0 < tfaw)%Z -> forall s past_rev,
  hist_inv s past_rev ->
  (forall r, (r < length (s_hist s))%nat -> tfaw_ok_rev tfaw (acts_rev (N.of_nat r) past_rev) = true) ->
  forall r, (r < length (s_hist s))%nat ->
    tfaw_ok_rev tfaw (acts_rev (N.of_nat r) (rev (trace T tfaw s offers) ++ past_rev)) = true.
Proof.
  intro P. induction offers as [|o rest IH]; intros s past HI OK r Hr; [cbn [trace rev app]; auto|].
  cbn [trace]. destruct (step T tfaw s o) as [s' i] eqn:ST. unfold step in ST.
  assert (HI1 : hist_inv (tick_banks s) past) by exact HI.
  destruct o as [c|].
  - destruct i as [x|].
    + destruct (tfaw_step _ _ _ _ _ _ _ P HI1 ST) as [HI' [LEN STEP]].
      cbn [tick_banks s_hist] in LEN, STEP.
      cbn [rev]. rewrite <- app_assoc. cbn [app]. apply IH; auto.
      * intros r' Hr'. rewrite LEN in Hr'. apply STEP; auto.
      * rewrite LEN. exact Hr.
    + apply try_issue_none in ST. subst s'. apply IH; auto.
  - inversion ST; subst. apply IH; auto.
Qed.

Definition no_hist (s : st) : Prop := forall h, In h (s_hist s) -> h = [].

Theorem tfaw_window T tfaw s offers : (0 < tfaw)%Z -> no_hist s ->
  forall r, (r < length (s_hist s))%nat ->
    tfaw_ok_rev tfaw (acts_rev (N.of_nat r) (rev (trace T tfaw s offers))) = true.
Proof.
  intros P NH r Hr. rewrite <- (app_nil_r (rev (trace T tfaw s offers))).
  apply tfaw_trace; auto.
  intros r' h Hn. cbn. apply NH. eapply nth_error_In; eauto.
Qed.

(** [tfaw_ok_rev] read declaratively: the activate four places earlier is at least tFAW old *)
Lemma tfaw_ok_rev_spec tfaw acts : tfaw_ok_rev tfaw acts = true ->
  forall i b a, nth_error acts i = Some b -> nth_error acts (i + 4) = Some a ->
  (tfaw <= Z.of_N b - Z.of_N a)%Z.
Proof.
  induction acts as [|x r IH]; intros H i b a Hb Ha; [destruct i; discriminate|].
  cbn [tfaw_ok_rev] in H. apply andb_true_iff in H. destruct H as [H1 H2].
  destruct i as [|i].
  - change (nth_error r 3 = Some a) in Ha. cbn in Hb.
    inversion Hb; subst x. rewrite Ha in H1. apply Z.leb_le in H1. exact H1.
  - change (nth_error r (i + 4) = Some a) in Ha. cbn in Hb. eapply IH; eauto.
Qed.
