(** C22 — model of the DRAM bank-level kernels of mem/dram:
    bank_ops.go (tickBank(s), getRequiredCommandKind, getReadyCommand,
    canActivateUnderTFAW, startCommand, updateTiming/updateAllBankTiming,
    recordActivateTimestamp), comp.go (bankFlatIndex/findBankState) and the
    bank-level part of banktickmw.go (Tick: TickCount++, tickBanks, issue).

    The command scheduler (queue_ops.go getCommandToIssue) is NOT modelled: it is an
    arbitrary oracle that offers at most one queued command per tick; the model
    decides exactly as the code does (getReadyCommand) whether and as what kind the
    offer is issued.  The timing table is a parameter.

    Command kinds are the Go iota values:
      0 RD, 1 RDA, 2 WR, 3 WRA, 4 ACT, 5 PRE, 6 REFb, 7 REF, 8 SREFE, 9 SREFX, 10 = numCmdKind.
    Bank states: 0 open, 1 closed (2 sref, 3 pd, 4 invalid are never entered).
    Counters are Go [int]s: modelled as Z.  uint64 coordinates/ticks are N (no wrap:
    TickCount would need 2^64 ticks). *)
From Akita Require Import Lib.Base.
Local Open Scope N_scope.

Definition kRD : N := 0.   Definition kRDA : N := 1.
Definition kWR : N := 2.   Definition kWRA : N := 3.
Definition kACT : N := 4.  Definition kPRE : N := 5.
Definition kREFb : N := 6.
Definition num_kind : N := 10.

Definition st_open : N := 0.
Definition st_closed : N := 1.

Record loc := mk_loc { l_rank : N; l_bg : N; l_bank : N; l_row : N }.

(** bankState *)
Record bank := mk_bank { b_state : N; b_row : N; b_cnt : list Z }.

(** bankEntry: a bank tagged with its coordinates *)
Record entry := mk_entry { e_rank : N; e_bg : N; e_bank : N; e_data : bank }.

(** the bank-level slice of State: BankStates (layout, entries, activate histories)
    and TickCount *)
Record st := mk_st {
  s_nbg : N; s_nb : N;
  s_entries : list entry;
  s_hist : list (list N);
  s_tick : N }.

Definition ttable := list (list (N * Z)).   (* indexed by issued kind *)
Record timing := mk_timing {
  t_same_bank : ttable; t_other_bg : ttable; t_same_rank : ttable; t_other_ranks : ttable }.

(** a command: kind + location *)
Record cmd := mk_cmd { c_kind : N; c_loc : loc }.

(* ------------------------------------------------------------------ counters *)

Definition getc (l : list Z) (k : N) : Z := nth (N.to_nat k) l 0%Z.

Fixpoint upd_nat {A} (n : nat) (f : A -> A) (l : list A) : list A :=
  match l, n with
  | [], _ => []
  | x :: r, O => f x :: r
  | x :: r, S n' => x :: upd_nat n' f r
  end.

(** if cnt[k] < m { cnt[k] = m }  (an out-of-range k would panic in Go; the
    generated tables only contain kinds < 10) *)
Definition upd_max (k : N) (m : Z) (l : list Z) : list Z :=
  upd_nat (N.to_nat k) (fun c => if (c <? m)%Z then m else c) l.

(** tickBank *)
Definition tick_cnt (l : list Z) : list Z :=
  map (fun c => if (0 <? c)%Z then (c - 1)%Z else c) l.
Definition tick_bank (b : bank) : bank :=
  mk_bank (b_state b) (b_row b) (tick_cnt (b_cnt b)).
Definition tick_entry (e : entry) : entry :=
  mk_entry (e_rank e) (e_bg e) (e_bank e) (tick_bank (e_data e)).
(** tickBanks' return value: some counter was positive *)
Definition any_positive (es : list entry) : bool :=
  existsb (fun e => existsb (fun c => (0 <? c)%Z) (b_cnt (e_data e))) es.

(* ------------------------------------------------------------------ lookup *)

(** bankFlatIndex / findBankState *)
Definition flat_index (s : st) (l : loc) : N :=
  (l_rank l * s_nbg s + l_bg l) * s_nb s + l_bank l.
Definition find_entry (s : st) (l : loc) : option entry :=
  nth_error (s_entries s) (N.to_nat (flat_index s l)).

(* ------------------------------------------------------------------ state machine *)

Definition is_rw (k : N) : bool := k <? 4.

(** getRequiredCommandKind *)
Definition required_kind (b : bank) (c : cmd) : N :=
  if is_rw (c_kind c) then
    if b_state b =? st_closed then kACT
    else if b_state b =? st_open then
      (if b_row b =? l_row (c_loc c) then c_kind c else kPRE)
    else num_kind
  else num_kind.

(** canActivateUnderTFAW *)
Definition can_activate (tfaw : Z) (s : st) (rank : N) : bool :=
  match nth_error (s_hist s) (N.to_nat rank) with
  | None => true
  | Some stamps =>
      if (length stamps <? 4)%nat then true
      else Z.leb tfaw (Z.of_N (s_tick s - nth (length stamps - 4)%nat stamps 0))
  end.

(** getReadyCommand: the kind as which the command may be issued now, if any *)
Definition ready_kind (tfaw : Z) (s : st) (b : bank) (c : cmd) : option N :=
  let k := required_kind b c in
  if k =? num_kind then None
  else if (getc (b_cnt b) k =? 0)%Z then
    if (k =? kACT) && (0 <? tfaw)%Z && negb (can_activate tfaw s (l_rank (c_loc c)))
    then None else Some k
  else None.

(** recordActivateTimestamp *)
Definition record_activate (s : st) (rank : N) : list (list N) :=
  upd_nat (N.to_nat rank)
    (fun h => let h1 := h ++ [s_tick s] in
              if (4 <? length h1)%nat then skipn (length h1 - 4) h1 else h1)
    (s_hist s).

(** startCommand, bank part: the new bank record and whether an activate is recorded *)
Definition start_bank (b : bank) (c : cmd) : bank * bool :=
  let k := c_kind c in
  if (b_state b =? st_closed) && (k =? kACT) then
    (mk_bank st_open (l_row (c_loc c)) (b_cnt b), true)
  else if (b_state b =? st_open) && ((k =? kPRE) || (k =? kRDA) || (k =? kWRA)) then
    (mk_bank st_closed (b_row b) (b_cnt b), false)
  else (b, false).

Definition set_entry_data (e : entry) (b : bank) : entry :=
  mk_entry (e_rank e) (e_bg e) (e_bank e) b.

(** startCommand applied to the bank findBankStateByLocation returns *)
Definition start_command (s : st) (c : cmd) : st :=
  match find_entry s (c_loc c) with
  | None => s
  | Some e =>
      let '(b', act) := start_bank (e_data e) c in
      let es := upd_nat (N.to_nat (flat_index s (c_loc c))) (fun e0 => set_entry_data e0 b') (s_entries s) in
      mk_st (s_nbg s) (s_nb s) es
            (if act then record_activate s (l_rank (c_loc c)) else s_hist s) (s_tick s)
  end.

(** which of the four tables relates a command location to a bank entry *)
Definition rel_table (T : timing) (l : loc) (rank bg bk : N) : ttable :=
  if l_rank l =? rank then
    if l_bg l =? bg then
      if l_bank l =? bk then t_same_bank T else t_other_bg T
    else t_same_rank T
  else t_other_ranks T.

Definition table_row (tb : ttable) (k : N) : list (N * Z) := nth (N.to_nat k) tb [].

Definition apply_row (row : list (N * Z)) (cnt : list Z) : list Z :=
  fold_left (fun acc te => upd_max (fst te) (snd te) acc) row cnt.

(** updateTiming / updateAllBankTiming *)
Definition timing_applies (k : N) : bool := k <=? kREFb.

Definition update_entry (T : timing) (c : cmd) (e : entry) : entry :=
  let tb := rel_table T (c_loc c) (e_rank e) (e_bg e) (e_bank e) in
  let b := e_data e in
  set_entry_data e (mk_bank (b_state b) (b_row b) (apply_row (table_row tb (c_kind c)) (b_cnt b))).

Definition update_timing (T : timing) (s : st) (c : cmd) : st :=
  if timing_applies (c_kind c) then
    mk_st (s_nbg s) (s_nb s) (map (update_entry T c) (s_entries s)) (s_hist s) (s_tick s)
  else s.

(** bankTickMW.issue for the command the scheduler returned *)
Definition issue (T : timing) (s : st) (c : cmd) : st :=
  update_timing T (start_command s c) c.

(** the bank-level part of one (un-paused) bankTickMW.Tick:
    TickCount++, tickBanks, then at most one command chosen by the oracle [offer]
    (a queued column command) is issued as the kind getReadyCommand resolves. *)
Definition tick_banks (s : st) : st :=
  mk_st (s_nbg s) (s_nb s) (map tick_entry (s_entries s)) (s_hist s) (s_tick s + 1).

Record issued := mk_issued { i_tick : N; i_kind : N; i_loc : loc }.

Definition try_issue (T : timing) (tfaw : Z) (s : st) (c : cmd) : st * option issued :=
  match find_entry s (c_loc c) with
  | None => (s, None)
  | Some e =>
      match ready_kind tfaw s (e_data e) c with
      | None => (s, None)
      | Some k => (issue T s (mk_cmd k (c_loc c)), Some (mk_issued (s_tick s) k (c_loc c)))
      end
  end.

Definition step (T : timing) (tfaw : Z) (s : st) (offer : option cmd) : st * option issued :=
  let s1 := tick_banks s in
  match offer with
  | None => (s1, None)
  | Some c => try_issue T tfaw s1 c
  end.

(** a whole history: the issued stream is accumulated newest-first *)
Fixpoint run (T : timing) (tfaw : Z) (s : st) (acc : list issued) (offers : list (option cmd))
  : st * list issued :=
  match offers with
  | [] => (s, acc)
  | o :: r =>
      let '(s', i) := step T tfaw s o in
      run T tfaw s' (match i with Some x => x :: acc | None => acc end) r
  end.

(** initBankStatesFlat *)
Definition zero_cnt : list Z := repeat 0%Z (N.to_nat num_kind).
Definition init_entries (nr nbg nb : N) : list entry :=
  flat_map (fun r => flat_map (fun g => map (fun k =>
      mk_entry (N.of_nat r) (N.of_nat g) (N.of_nat k) (mk_bank st_closed 0 zero_cnt))
    (seq 0 (N.to_nat nb))) (seq 0 (N.to_nat nbg))) (seq 0 (N.to_nat nr)).
Definition init_st (nr nbg nb : N) : st :=
  mk_st nbg nb (init_entries nr nbg nb) (repeat [] (N.to_nat nr)) 0.

(* ------------------------------------------------------------------ specification side *)

(** Abstract per-bank DRAM automaton, replayed over an issued stream (oldest first):
    [open] lists the banks that are open together with their open row. *)
Definition bank_id := (N * N * N)%type.
Definition bid (l : loc) : bank_id := (l_rank l, l_bg l, l_bank l).
Definition bid_eqb (a b : bank_id) : bool :=
  let '(a1, a2, a3) := a in let '(b1, b2, b3) := b in (a1 =? b1) && (a2 =? b2) && (a3 =? b3).

Fixpoint lookup (id : bank_id) (o : list (bank_id * N)) : option N :=
  match o with
  | [] => None
  | (i, r) :: t => if bid_eqb id i then Some r else lookup id t
  end.
Definition remove (id : bank_id) (o : list (bank_id * N)) : list (bank_id * N) :=
  filter (fun p => negb (bid_eqb id (fst p))) o.

(** one automaton step; None = protocol violation *)
Definition auto_step (o : list (bank_id * N)) (i : issued) : option (list (bank_id * N)) :=
  let id := bid (i_loc i) in
  let k := i_kind i in
  if k =? kACT then
    match lookup id o with None => Some ((id, l_row (i_loc i)) :: o) | Some _ => None end
  else if (k =? kRD) || (k =? kWR) then
    match lookup id o with
    | Some r => if r =? l_row (i_loc i) then Some o else None
    | None => None end
  else if (k =? kRDA) || (k =? kWRA) then
    match lookup id o with
    | Some r => if r =? l_row (i_loc i) then Some (remove id o) else None
    | None => None end
  else if k =? kPRE then
    match lookup id o with Some _ => Some (remove id o) | None => None end
  else None.

Fixpoint legal_from (o : list (bank_id * N)) (tr : list issued) : bool :=
  match tr with
  | [] => true
  | i :: r => match auto_step o i with Some o' => legal_from o' r | None => false end
  end.

(** minimum separation: every table entry relating [c1] to the later [c2] is respected *)
Definition gaps (T : timing) (c1 : issued) (l2 : loc) (k2 : N) : list Z :=
  map snd (filter (fun te => fst te =? k2)
    (table_row (rel_table T (i_loc c1) (l_rank l2) (l_bg l2) (l_bank l2)) (i_kind c1))).
Definition sep_ok (T : timing) (c1 c2 : issued) : bool :=
  forallb (fun m => (m <=? Z.of_N (i_tick c2) - Z.of_N (i_tick c1))%Z) (gaps T c1 (i_loc c2) (i_kind c2)).

(** all ordered pairs of a stream (oldest first) *)
Fixpoint all_sep (T : timing) (tr : list issued) : bool :=
  match tr with
  | [] => true
  | c1 :: r => forallb (sep_ok T c1) r && all_sep T r
  end.

(** tFAW: the activate ticks of one rank, newest first; every activate is at least
    tFAW after the fourth activate before it *)
Definition acts_rev (rank : N) (tr_rev : list issued) : list N :=
  map i_tick (filter (fun i => (i_kind i =? kACT) && (l_rank (i_loc i) =? rank)) tr_rev).
Fixpoint tfaw_ok_rev (tfaw : Z) (a : list N) : bool :=
  match a with
  | [] => true
  | b :: r =>
      (match nth_error r 3 with
       | Some x => (tfaw <=? Z.of_N b - Z.of_N x)%Z
       | None => true end) && tfaw_ok_rev tfaw r
  end.
