(** C22 — a partial liveness statement for the bank kernel.

    What is proved (for every timing table and tFAW): an offered command that is ready is
    issued at once; a bank that is left alone becomes ready for a queued column command after
    finitely many ticks; hence a queue entry that the oracle keeps offering (and nothing
    else) is issued as its own column command after finitely many ticks, going through the
    precharge / activate it needs.

    What is NOT proved, and is false without further assumptions: completion of every request of
    the real controller.  Missing: (1) the FR-FCFS scheduler's choices — commands issued to other
    banks raise this bank's counters again, and with tRAS < tRCD the scheduler precharges a
    freshly activated row for ever (replayed on the real component); (2) admission into the
    command queues (fillCommandQueue) and the read/write-queue watermarks; (3) the refresh
    stall; (4) the data-return timeline and the respond stage (Top-port back-pressure). *)
From Akita Require Import Lib.Base C22.Model C22.Proofs C22.Proofs2 C22.Proofs3.
Local Open Scope N_scope.

(* ------------------------------------------------------------------ n idle ticks *)
Fixpoint ticks (n : nat) (s : st) : st :=
  match n with O => s | S n' => ticks n' (tick_banks s) end.

Fixpoint tick_cnt_n (n : nat) (l : list Z) : list Z :=
  match n with O => l | S n' => tick_cnt_n n' (tick_cnt l) end.

Lemma getc_tick_cnt_n n : forall l k, (0 <= getc l k)%Z ->
  getc (tick_cnt_n n l) k = Z.max 0 (getc l k - Z.of_nat n).
Proof.
  induction n as [|n IH]; intros l k H; cbn [tick_cnt_n]; [lia|].
  assert (0 <= getc (tick_cnt l) k)%Z as H' by (rewrite getc_tick_cnt; destruct (0 <? getc l k)%Z eqn:E; lia).
  rewrite (IH _ _ H'), getc_tick_cnt. destruct (0 <? getc l k)%Z eqn:E; lia.
Qed.

Definition tick_entry_n (n : nat) (e : entry) : entry :=
  mk_entry (e_rank e) (e_bg e) (e_bank e)
           (mk_bank (b_state (e_data e)) (b_row (e_data e)) (tick_cnt_n n (b_cnt (e_data e)))).

Lemma ticks_shape n : forall s,
  ticks n s = mk_st (s_nbg s) (s_nb s) (map (tick_entry_n n) (s_entries s)) (s_hist s) (s_tick s + N.of_nat n).
Proof.
  induction n as [|n IH]; intro s; cbn [ticks].
  - destruct s as [a b es h t]. cbn. f_equal; [|lia].
    rewrite <- (map_id es) at 1. apply map_ext. intros [r g k [st rw c]]. reflexivity.
  - rewrite IH. unfold tick_banks. cbn [s_nbg s_nb s_entries s_hist s_tick]. f_equal; [|lia].
    rewrite map_map. apply map_ext. intros [r g k [st rw c]]. reflexivity.
Qed.

Lemma find_entry_ticks n s l e : find_entry s l = Some e ->
  find_entry (ticks n s) l = Some (tick_entry_n n e).
Proof.
  intro F. rewrite ticks_shape. unfold find_entry, flat_index in *. cbn [s_entries s_nbg s_nb].
  rewrite nth_error_map, F. reflexivity.
Qed.

(** all counters non-negative (true of the built state and preserved by every step) *)
Definition nonneg (s : st) : Prop :=
  forall e, In e (s_entries s) -> forall k, (0 <= getc (b_cnt (e_data e)) k)%Z.

Lemma nonneg_tick s : nonneg s -> nonneg (tick_banks s).
Proof.
  intros H e' Hin k. unfold tick_banks in Hin. cbn [s_entries] in Hin.
  apply in_map_iff in Hin. destruct Hin as [e [<- Hin]]. cbn [tick_entry e_data tick_bank b_cnt]. rewrite getc_tick_cnt.
  specialize (H e Hin k). destruct (0 <? getc (b_cnt (e_data e)) k)%Z eqn:E; lia.
Qed.

Lemma nonneg_issue T s c : nonneg s -> nonneg (issue T s c).
Proof.
  intros H e' Hin k. destruct (issue_entry _ _ _ _ Hin) as [e [He [_ [_ [_ C]]]]]. rewrite C.
  specialize (H e He k). destruct (timing_applies (c_kind c)); [|exact H].
  pose proof (apply_row_mono (table_row (rel_table T (c_loc c) (e_rank e) (e_bg e) (e_bank e)) (c_kind c)) (b_cnt (e_data e)) k). lia.
Qed.

Lemma nonneg_step T tfaw s o : nonneg s -> nonneg (fst (step T tfaw s o)).
Proof.
  intro H. unfold step. pose proof (nonneg_tick _ H) as H1. destruct o as [c|]; [|exact H1].
  unfold try_issue. destruct (find_entry (tick_banks s) (c_loc c)); [|exact H1].
  destruct (ready_kind tfaw (tick_banks s) (e_data e) c); [|exact H1]. cbn [fst]. apply nonneg_issue, H1.
Qed.

(* ------------------------------------------------------------------ (1) ready => issued at once *)
Theorem offered_ready_is_issued : forall T tfaw s c e k,
  find_entry (tick_banks s) (c_loc c) = Some e ->
  ready_kind tfaw (tick_banks s) (e_data e) c = Some k ->
  snd (step T tfaw s (Some c)) = Some (mk_issued (s_tick s + 1) k (c_loc c)).
Proof.
  intros T tfaw s c e k F R. unfold step, try_issue. rewrite F, R. reflexivity.
Qed.

(* ------------------------------------------------------------------ (2) a quiet bank becomes ready *)
Definition servable (b : bank) (c : cmd) : Prop :=
  c_kind c < 4 /\ (b_state b = st_open \/ b_state b = st_closed).

Lemma required_kind_servable b c : servable b c -> required_kind b c <> num_kind /\ required_kind b c <= 5.
Proof.
  intros [K S]. unfold required_kind, is_rw. assert (c_kind c <? 4 = true) as -> by (apply N.ltb_lt; exact K).
  unfold st_open, st_closed, kACT, kPRE, num_kind in *.
  destruct S as [S|S]; rewrite S; cbn.
  - destruct (b_row b =? l_row (c_loc c)); split; lia.
  - split; lia.
Qed.

Lemma quiet_bank_becomes_ready tfaw s c e : nonneg s ->
  find_entry s (c_loc c) = Some e -> servable (e_data e) c ->
  exists n0, forall n, (n0 <= n)%nat ->
    ready_kind tfaw (ticks n s) (e_data (tick_entry_n n e)) c = Some (required_kind (e_data e) c).
Proof.
  intros NN F Sv. destruct (required_kind_servable _ _ Sv) as [RK _].
  assert (In e (s_entries s)) as He by (unfold find_entry in F; eapply nth_error_In; eauto).
  set (k := required_kind (e_data e) c) in *.
  (* the stamp the tFAW test looks at, if any *)
  set (old := match nth_error (s_hist s) (N.to_nat (l_rank (c_loc c))) with
              | Some st => nth (length st - 4) st 0 | None => 0 end).
  exists (Z.to_nat (getc (b_cnt (e_data e)) k) + Z.to_nat tfaw + N.to_nat old)%nat.
  intros n Hn. unfold ready_kind.
  assert (required_kind (e_data (tick_entry_n n e)) c = k) as ->.
  { unfold required_kind. cbn [tick_entry_n e_data b_state b_row]. reflexivity. }
  assert (k =? num_kind = false) as -> by (apply N.eqb_neq; exact RK).
  cbn [tick_entry_n e_data b_cnt]. rewrite getc_tick_cnt_n by (apply NN; exact He).
  assert (Z.max 0 (getc (b_cnt (e_data e)) k - Z.of_nat n) = 0)%Z as -> by (specialize (NN e He k); lia).
  cbn [Z.eqb].
  destruct ((k =? kACT) && (0 <? tfaw)%Z && negb (can_activate tfaw (ticks n s) (l_rank (c_loc c)))) eqn:G; [|reflexivity].
  exfalso. apply andb_true_iff in G. destruct G as [G G3]. apply andb_true_iff in G. destruct G as [_ G2].
  apply Z.ltb_lt in G2. apply negb_true_iff in G3.
  unfold can_activate in G3. rewrite ticks_shape in G3. cbn [s_hist s_tick] in G3.
  subst old. destruct (nth_error (s_hist s) (N.to_nat (l_rank (c_loc c)))) as [stamps|]; [|discriminate].
  destruct (length stamps <? 4)%nat; [discriminate|].
  apply Z.leb_gt in G3. lia.
Qed.

(* ------------------------------------------------------------------ (3) a persistent sole offer *)
Lemma trace_app T tfaw o1 : forall s o2,
  trace T tfaw s (o1 ++ o2) = trace T tfaw s o1 ++ trace T tfaw (final T tfaw s o1) o2.
Proof.
  induction o1 as [|o r IH]; intros s o2; cbn [app trace final]; [reflexivity|].
  destruct (step T tfaw s o) as [s' i] eqn:E. cbn [fst]. rewrite IH. destruct i; reflexivity.
Qed.

Lemma final_app T tfaw o1 : forall s o2,
  final T tfaw s (o1 ++ o2) = final T tfaw (final T tfaw s o1) o2.
Proof. induction o1 as [|o r IH]; intros s o2; cbn [app final]; [reflexivity|apply IH]. Qed.

(** while the sole offer is not ready the state only ticks; the first time it is ready it issues *)
Lemma ticks_S j s : ticks (S j) s = ticks j (tick_banks s).
Proof. reflexivity. Qed.

Lemma tick_entry_n_S j e : tick_entry_n (S j) e = tick_entry_n j (tick_entry_n 1 e).
Proof. destruct e as [r g b [st rw cn]]. reflexivity. Qed.

Lemma sole_offer_issues T tfaw c k : forall n s e,
  find_entry s (c_loc c) = Some e ->
  ready_kind tfaw (ticks (S n) s) (e_data (tick_entry_n (S n) e)) c = Some k ->
  exists j k1, (1 <= j <= S n)%nat /\
    ready_kind tfaw (ticks j s) (e_data (tick_entry_n j e)) c = Some k1 /\
    trace T tfaw s (repeat (Some c) j) = [mk_issued (s_tick (ticks j s)) k1 (c_loc c)] /\
    final T tfaw s (repeat (Some c) j) = issue T (ticks j s) (mk_cmd k1 (c_loc c)).
Proof.
  induction n as [|n IH]; intros s e F R.
  - exists 1%nat, k. pose proof (find_entry_ticks 1 s _ _ F) as F1. cbn [ticks] in F1, R |- *.
    split; [lia|]. split; [exact R|].
    cbn [repeat trace final]. unfold step, try_issue. rewrite F1, R. cbn [fst]. split; reflexivity.
  - pose proof (find_entry_ticks 1 s _ _ F) as F1. cbn [ticks] in F1.
    destruct (ready_kind tfaw (tick_banks s) (e_data (tick_entry_n 1 e)) c) as [k0|] eqn:R0.
    + exists 1%nat, k0. cbn [ticks]. split; [lia|]. split; [exact R0|].
      cbn [repeat trace final]. unfold step, try_issue. rewrite F1, R0. cbn [fst]. split; reflexivity.
    + rewrite ticks_S, tick_entry_n_S in R.
      destruct (IH _ _ F1 R) as [j [k1 [Hj [Rj [Tr Fi]]]]].
      exists (S j), k1. rewrite ticks_S, tick_entry_n_S. split; [lia|]. split; [exact Rj|].
      cbn [repeat trace final]. unfold step, try_issue. rewrite F1, R0. cbn [fst]. split; [exact Tr|exact Fi].
Qed.

Lemma ready_kind_is_required tfaw s b c k : ready_kind tfaw s b c = Some k -> k = required_kind b c.
Proof.
  unfold ready_kind. destruct (required_kind b c =? num_kind); [discriminate|].
  destruct (getc (b_cnt b) (required_kind b c) =? 0)%Z; [|discriminate].
  destruct (_ && _); [discriminate|]. intro H; inversion H; reflexivity.
Qed.

Lemma nonneg_ticks n : forall s, nonneg s -> nonneg (ticks n s).
Proof. induction n as [|n IH]; intros s H; cbn [ticks]; [exact H|apply IH, nonneg_tick, H]. Qed.

(** the addressed bank after an issue *)
Lemma issue_find T s cm e1 : find_entry s (c_loc cm) = Some e1 ->
  exists e', find_entry (issue T s cm) (c_loc cm) = Some e' /\
    b_state (e_data e') = b_state (fst (start_bank (e_data e1) cm)) /\
    b_row (e_data e') = b_row (fst (start_bank (e_data e1) cm)).
Proof.
  intro F. unfold issue.
  assert (exists e0, find_entry (start_command s cm) (c_loc cm) = Some e0 /\
            e_data e0 = fst (start_bank (e_data e1) cm)) as [e0 [F0 D0]].
  { unfold start_command. rewrite F. destruct (start_bank (e_data e1) cm) as [b' act] eqn:SB.
    unfold find_entry, flat_index in *. cbn [s_entries s_nbg s_nb fst].
    exists (set_entry_data e1 b'). split; [|reflexivity].
    exact (nth_error_upd_nat_same _ (fun e0 => set_entry_data e0 b') _ _ F). }
  unfold update_timing. destruct (timing_applies (c_kind cm)).
  - exists (update_entry T cm e0). unfold find_entry, flat_index in *. cbn [s_entries s_nbg s_nb].
    rewrite nth_error_map, F0. split; [reflexivity|]. cbn. rewrite D0. auto.
  - exists e0. rewrite D0. auto.
Qed.

(** one phase: the sole offer is issued, as the kind the bank state requires *)
Lemma phase T tfaw s c e : nonneg s -> find_entry s (c_loc c) = Some e -> servable (e_data e) c ->
  exists j, (1 <= j)%nat /\
    let k := required_kind (e_data e) c in
    trace T tfaw s (repeat (Some c) j) = [mk_issued (s_tick (ticks j s)) k (c_loc c)] /\
    final T tfaw s (repeat (Some c) j) = issue T (ticks j s) (mk_cmd k (c_loc c)) /\
    find_entry (ticks j s) (c_loc c) = Some (tick_entry_n j e).
Proof.
  intros NN F Sv. destruct (quiet_bank_becomes_ready tfaw s c e NN F Sv) as [n0 R].
  specialize (R (S n0) ltac:(lia)).
  destruct (sole_offer_issues T tfaw c _ n0 s e F R) as [j [k1 [Hj [Rj [Tr Fi]]]]].
  apply ready_kind_is_required in Rj. cbn [tick_entry_n e_data] in Rj.
  assert (k1 = required_kind (e_data e) c) as -> by (rewrite Rj; reflexivity).
  exists j. split; [lia|]. split; [exact Tr|]. split; [exact Fi|]. apply find_entry_ticks, F.
Qed.

(** (3) a queue entry that is the sole, persistent offer is issued as its own column command
    after finitely many ticks, preceded by at most a precharge and an activate *)
Theorem sole_offer_completes : forall T tfaw s c e,
  nonneg s -> find_entry s (c_loc c) = Some e -> servable (e_data e) c ->
  exists m pre x, trace T tfaw s (repeat (Some c) m) = pre ++ [x] /\
    i_kind x = c_kind c /\ i_loc x = c_loc c /\ (length pre <= 2)%nat /\
    (forall y, In y pre -> i_loc y = c_loc c /\ (i_kind y = kPRE \/ i_kind y = kACT)).
Proof.
  intros T tfaw.
  (* A: the row is open *)
  assert (A : forall s c e, nonneg s -> find_entry s (c_loc c) = Some e -> c_kind c < 4 ->
            b_state (e_data e) = st_open -> b_row (e_data e) = l_row (c_loc c) ->
            exists m x, trace T tfaw s (repeat (Some c) m) = [x] /\ i_kind x = c_kind c /\ i_loc x = c_loc c).
  { intros s c e NN F K So Rw.
    destruct (phase T tfaw s c e NN F (conj K (or_introl So))) as [j [_ [Tr _]]].
    exists j. eexists. split; [exact Tr|]. cbn [i_kind i_loc]. split; [|reflexivity].
    unfold required_kind, is_rw. assert (c_kind c <? 4 = true) as -> by (apply N.ltb_lt; exact K).
    rewrite So, Rw. change (st_open =? st_closed) with false. change (st_open =? st_open) with true. cbv iota. rewrite N.eqb_refl. reflexivity. }
  (* B: the bank is closed *)
  assert (B : forall s c e, nonneg s -> find_entry s (c_loc c) = Some e -> c_kind c < 4 ->
            b_state (e_data e) = st_closed ->
            exists m a x, trace T tfaw s (repeat (Some c) m) = [a; x] /\ i_kind x = c_kind c /\ i_loc x = c_loc c /\
              i_kind a = kACT /\ i_loc a = c_loc c).
  { intros s c e NN F K Sc.
    destruct (phase T tfaw s c e NN F (conj K (or_intror Sc))) as [j [_ [Tr [Fi Fj]]]].
    assert (required_kind (e_data e) c = kACT) as RK.
    { unfold required_kind, is_rw. assert (c_kind c <? 4 = true) as -> by (apply N.ltb_lt; exact K).
      rewrite Sc. reflexivity. }
    cbv zeta in Tr, Fi. rewrite RK in Tr, Fi.
    destruct (issue_find T (ticks j s) (mk_cmd kACT (c_loc c)) _ Fj) as [e' [F' [S' R']]].
    cbn [c_loc] in F'. unfold start_bank in S', R'. cbn [tick_entry_n e_data b_state c_kind c_loc] in S', R'.
    rewrite Sc in S', R'. change ((st_closed =? st_closed) && (kACT =? kACT)) with true in S', R'. cbn in S', R'.
    assert (nonneg (final T tfaw s (repeat (Some c) j))) as NN'.
    { rewrite Fi. apply nonneg_issue, nonneg_ticks, NN. }
    rewrite <- Fi in F'.
    destruct (A _ c e' NN' F' K S' R') as [m2 [x [Tr2 [Kx Lx]]]].
    exists (j + m2)%nat. eexists. exists x. rewrite repeat_app, trace_app, Tr, Tr2. cbn [app i_kind i_loc]. auto. }
  intros s c e NN F [K [So|Sc]].
  - destruct (N.eq_dec (b_row (e_data e)) (l_row (c_loc c))) as [Rw|Rw].
    + destruct (A s c e NN F K So Rw) as [m [x [Tr [Kx Lx]]]].
      exists m, [], x. cbn [app length]. split; [exact Tr|]. split; [exact Kx|]. split; [exact Lx|]. split; [lia|]. intros y [].
    + destruct (phase T tfaw s c e NN F (conj K (or_introl So))) as [j [_ [Tr [Fi Fj]]]].
      assert (required_kind (e_data e) c = kPRE) as RK.
      { unfold required_kind, is_rw. assert (c_kind c <? 4 = true) as -> by (apply N.ltb_lt; exact K).
        rewrite So. apply N.eqb_neq in Rw. rewrite Rw. reflexivity. }
      cbv zeta in Tr, Fi. rewrite RK in Tr, Fi.
      destruct (issue_find T (ticks j s) (mk_cmd kPRE (c_loc c)) _ Fj) as [e' [F' [S' _]]].
      cbn [c_loc] in F'. unfold start_bank in S'. cbn [tick_entry_n e_data b_state c_kind] in S'.
      rewrite So in S'. change ((st_open =? st_closed) && (kPRE =? kACT)) with false in S'.
      change ((st_open =? st_open) && ((kPRE =? kPRE) || (kPRE =? kRDA) || (kPRE =? kWRA))) with true in S'. cbn in S'.
      assert (nonneg (final T tfaw s (repeat (Some c) j))) as NN'.
      { rewrite Fi. apply nonneg_issue, nonneg_ticks, NN. }
      rewrite <- Fi in F'.
      destruct (B _ c e' NN' F' K S') as [m2 [a [x [Tr2 [Kx [Lx [Ka La]]]]]]].
      exists (j + m2)%nat. eexists [_; a], x. rewrite repeat_app, trace_app, Tr, Tr2. cbn [app length].
      split; [reflexivity|]. split; [exact Kx|]. split; [exact Lx|]. split; [lia|].
      intros y [<-|[<-|[]]]; cbn [i_loc i_kind]; auto.
  - destruct (B s c e NN F K Sc) as [m [a [x [Tr [Kx [Lx [Ka La]]]]]]].
    exists m, [a], x. cbn [app length]. split; [exact Tr|]. split; [exact Kx|]. split; [exact Lx|]. split; [lia|].
    intros y [<-|[]]. auto.
Qed.

Lemma nonneg_init nr nbg nb : nonneg (init_st nr nbg nb).
Proof.
  intros e H k. cbn [init_st s_entries] in H. unfold init_entries in H.
  apply in_flat_map in H. destruct H as [r [_ H]]. apply in_flat_map in H. destruct H as [g [_ H]].
  apply in_map_iff in H. destruct H as [b [<- _]]. cbn [e_data b_cnt]. unfold getc, zero_cnt.
  destruct (nth_in_or_default (N.to_nat k) (repeat 0%Z (N.to_nat num_kind)) 0%Z) as [Q|Q].
  - apply repeat_spec in Q. lia.
  - lia.
Qed.

(* ------------------------------------------------------------------ reachable states *)
Definition states_ok (s : st) : Prop :=
  forall e, In e (s_entries s) -> b_state (e_data e) = st_open \/ b_state (e_data e) = st_closed.

Lemma start_bank_state b c : b_state (fst (start_bank b c)) = b_state b \/
  b_state (fst (start_bank b c)) = st_open \/ b_state (fst (start_bank b c)) = st_closed.
Proof.
  unfold start_bank. destruct (_ && _); [right; left; reflexivity|].
  destruct (_ && _); [right; right; reflexivity|left; reflexivity].
Qed.

Lemma states_ok_issue T s c : states_ok s -> states_ok (issue T s c).
Proof.
  intros H e' Hin.
  assert (exists e1, In e1 (s_entries (start_command s c)) /\ b_state (e_data e') = b_state (e_data e1)) as [e1 [H1 E1]].
  { unfold issue, update_timing in Hin. destruct (timing_applies (c_kind c)); [|eauto].
    cbn [s_entries] in Hin. apply in_map_iff in Hin. destruct Hin as [e1 [<- H1]]. exists e1. split; [exact H1|reflexivity]. }
  rewrite E1. clear E1 Hin e'. unfold start_command in H1.
  destruct (find_entry s (c_loc c)) as [e0|] eqn:F; [|apply H; exact H1].
  destruct (start_bank (e_data e0) c) as [b' act] eqn:SB. cbn [s_entries] in H1.
  apply In_nth_error in H1. destruct H1 as [i H1].
  destruct (Nat.eq_dec (N.to_nat (flat_index s (c_loc c))) i) as [E|E].
  - subst i. unfold find_entry in F. rewrite (nth_error_upd_nat_same _ (fun x => set_entry_data x b') _ _ F) in H1.
    inversion H1; subst e1. cbn [set_entry_data e_data].
    pose proof (start_bank_state (e_data e0) c) as Q. rewrite SB in Q. cbn [fst] in Q.
    destruct Q as [Q|Q]; [|exact Q]. rewrite Q. apply H. eapply nth_error_In; eauto.
  - rewrite nth_error_upd_nat_other in H1 by exact E. apply H. eapply nth_error_In; eauto.
Qed.

Lemma states_ok_step T tfaw s o : states_ok s -> states_ok (fst (step T tfaw s o)).
Proof.
  intro H. assert (states_ok (tick_banks s)) as H1.
  { intros e' Hin. unfold tick_banks in Hin. cbn [s_entries] in Hin. apply in_map_iff in Hin.
    destruct Hin as [e [<- Hin]]. exact (H e Hin). }
  unfold step. destruct o as [c|]; [|exact H1].
  unfold try_issue. destruct (find_entry (tick_banks s) (c_loc c)); [|exact H1].
  destruct (ready_kind tfaw (tick_banks s) (e_data e) c); [|exact H1]. cbn [fst]. apply states_ok_issue, H1.
Qed.

Lemma step_length T tfaw s o : length (s_entries (fst (step T tfaw s o))) = length (s_entries s).
Proof.
  assert (length (s_entries (tick_banks s)) = length (s_entries s)) as L1 by (cbn; apply map_length).
  unfold step. destruct o as [c|]; [|exact L1].
  unfold try_issue. destruct (find_entry (tick_banks s) (c_loc c)) as [e|] eqn:F; [|exact L1].
  destruct (ready_kind tfaw (tick_banks s) (e_data e) c); [|exact L1]. cbn [fst]. rewrite <- L1.
  unfold issue, update_timing.
  assert (length (s_entries (start_command (tick_banks s) (mk_cmd n (c_loc c)))) = length (s_entries (tick_banks s))) as L2.
  { unfold start_command. cbn [c_loc]. rewrite F. destruct (start_bank _ _). cbn [s_entries]. apply upd_nat_length. }
  destruct (timing_applies _); cbn [s_entries]; [rewrite map_length|]; exact L2.
Qed.

(** every state reachable from the built state keeps the bank slots, non-negative counters and
    open/closed bank states *)
Lemma reachable_inv T tfaw offers : forall s,
  nonneg s -> states_ok s ->
  let s' := final T tfaw s offers in
  nonneg s' /\ states_ok s' /\ length (s_entries s') = length (s_entries s) /\
  s_nbg s' = s_nbg s /\ s_nb s' = s_nb s.
Proof.
  induction offers as [|o r IH]; intros s NN SO; cbn [final]; [auto|].
  destruct (IH _ (nonneg_step T tfaw s o NN) (states_ok_step T tfaw s o SO)) as [A [B [C [D E]]]].
  destruct (step_layout T tfaw s o) as [L1 L2].
  split; [exact A|]. split; [exact B|]. rewrite C, D, E, L1, L2, step_length. auto.
Qed.
