(** C22 — link between the two evaluators for oracle runs of the real kernels from a clean
    state: if the model reproduces the observed readiness decisions ([check_case]) then the
    observed stream satisfies the property predicate ([holds_on]), by the theorems. *)
From Akita Require Import Lib.Base C22.Model C22.Proofs C22.Proofs2 C22.Proofs3 C22.Proofs4 C22.Exec.
Local Open Scope N_scope.

Lemma step_tick T tfaw s o : s_tick (fst (step T tfaw s o)) = s_tick s + 1 /\
  forall x, snd (step T tfaw s o) = Some x -> i_tick x = s_tick s + 1.
Proof.
  unfold step. destruct o as [c|]; [|cbn; split; [reflexivity|discriminate]].
  unfold try_issue. destruct (find_entry (tick_banks s) (c_loc c)) as [e|]; [|cbn; split; [reflexivity|discriminate]].
  destruct (ready_kind tfaw (tick_banks s) (e_data e) c) as [k|]; [|cbn; split; [reflexivity|discriminate]].
  cbn [fst snd]. rewrite issue_tick. cbn. split; [reflexivity|]. intros x H. inversion H; subst. reflexivity.
Qed.

Lemma kernel_stream T tfaw offers : forall s sf rs ps,
  kernel_run T tfaw s offers = (sf, rs, ps) ->
  observed_stream (s_tick s) offers rs = trace T tfaw s offers.
Proof.
  induction offers as [|o r IH]; intros s sf rs ps H; cbn [kernel_run trace] in *.
  - inversion H; subst. reflexivity.
  - destruct (step T tfaw s o) as [s' i] eqn:ST.
    destruct (kernel_run T tfaw s' r) as [[sf' rs'] ps'] eqn:KR. inversion H; subst.
    pose proof (step_tick T tfaw s o) as [Tk Ti]. rewrite ST in Tk, Ti. cbn [fst snd] in Tk, Ti.
    specialize (IH _ _ _ _ KR). rewrite Tk in IH. cbn [observed_stream].
    unfold step in ST. destruct o as [c|].
    + destruct i as [x|].
      * rewrite IH. f_equal. destruct (try_issue_some _ _ _ _ _ _ ST) as [e [k [_ [_ [_ ->]]]]].
        cbn [i_kind i_tick s_tick tick_banks]. reflexivity.
      * exact IH.
    + inversion ST; subst. exact IH.
Qed.

Definition in_rangeb (nbg nb : N) (o : option cmd) : bool :=
  match o with Some c => (l_bg (c_loc c) <? nbg) && (l_bank (c_loc c) <? nb) | None => true end.
Definition all_closedb (s : st) : bool := forallb (fun e => b_state (e_data e) =? st_closed) (s_entries s).
Definition no_histb (s : st) : bool := forallb (fun h => match h with [] => true | _ => false end) (s_hist s).

Theorem kernel_agreement_implies_property : forall tb init offers rd pg fin,
  wfb init = true -> all_closedb init = true -> no_histb init = true ->
  forallb (in_rangeb (s_nbg init) (s_nb init)) offers = true ->
  table_facts tb = true ->
  check_case (KernelCase tb init true offers rd pg fin) = true ->
  holds_on (KernelCase tb init true offers rd pg fin) = true.
Proof.
  intros tb init offers rd pg fin W C NH R TF CK. cbn [holds_on]. rewrite TF. cbn [andb].
  cbn [check_case] in CK.
  destruct (kernel_run (tb_T tb) (tb_tfaw tb) init offers) as [[sf rs] ps] eqn:KR.
  apply andb_true_iff in CK. destruct CK as [CK _]. apply andb_true_iff in CK. destruct CK as [CK _].
  assert (rs = rd) as <-.
  { apply (list_eqb_eq (opt_eqb N.eqb)); [|exact CK]. intros [x|] [y|]; cbn; split; intro Q; try discriminate; try reflexivity.
    - apply N.eqb_eq in Q. subst. reflexivity.
    - inversion Q. apply N.eqb_refl. }
  rewrite (kernel_stream _ _ _ _ _ _ _ KR).
  apply wfb_sound in W.
  assert (all_closed init) as C'.
  { intros e He. unfold all_closedb in C. rewrite forallb_forall in C. apply N.eqb_eq, C, He. }
  assert (no_hist init) as NH'.
  { intros h Hh. unfold no_histb in NH. rewrite forallb_forall in NH. specialize (NH h Hh). destruct h; [reflexivity|discriminate]. }
  assert (Forall (in_range (s_nbg init) (s_nb init)) offers) as R'.
  { apply Forall_forall. intros o Ho. rewrite forallb_forall in R. specialize (R o Ho).
    destruct o as [c|]; [|exact I]. cbn in *. apply andb_true_iff in R. destruct R as [R1 R2].
    apply N.ltb_lt in R1, R2. auto. }
  unfold stream_ok. rewrite (legal_trace _ _ _ _ _ W (abs_ok_nil _ C') R'), (min_separation _ _ _ _ W R').
  cbn [andb]. unfold tfaw_all. destruct (tb_tfaw tb <=? 0)%Z eqn:TZ; [reflexivity|]. cbn [orb].
  apply forallb_forall. intros r Hr. apply in_seq in Hr. rewrite Nat2N.id in Hr.
  apply tfaw_window; [apply Z.leb_gt in TZ; lia|exact NH'|lia].
Qed.
