(** C22 — DRAM issues commands in protocol-legal order and timing.  Property theorems.

    Everything below is about [Model.step]/[Model.run]: the exact model of the bank-level
    kernels of mem/dram (tickBanks, getRequiredCommandKind, getReadyCommand incl. tFAW,
    startCommand, updateTiming) driven by an ARBITRARY scheduler oracle ([offers]: at most
    one queued column command per tick, ready or not) with an ARBITRARY timing table [T]
    and tFAW value.  [trace] is the stream of issued commands, oldest first. *)
From Akita Require Import Lib.Base C22.Model C22.Proofs C22.Proofs2 C22.Proofs3 C22.Proofs4.
Local Open Scope N_scope.

(** [Model.run] (accumulating, as evaluated in the correspondence check) issues exactly [trace]. *)
Theorem c22_run_is_trace : forall T tfaw offers s acc,
  run T tfaw s acc offers = (final T tfaw s offers, rev (trace T tfaw s offers) ++ acc).
Proof. exact run_trace. Qed.
Print Assumptions c22_run_is_trace.

(** State machine: from a state with all banks closed, for every table, tFAW and oracle, the
    issued stream is accepted by the per-bank DRAM automaton (ACT only on a closed bank;
    RD/WR/RDA/WRA only on the open row; PRE only on an open bank; RDA/WRA/PRE close). *)
Theorem c22_state_machine_legal : forall T tfaw s offers,
  wf s -> all_closed s -> Forall (in_range (s_nbg s) (s_nb s)) offers ->
  legal_from [] (trace T tfaw s offers) = true.
Proof. intros T tfaw s offers W C R. apply legal_trace; auto. apply abs_ok_nil, C. Qed.
Print Assumptions c22_state_machine_legal.

(** What acceptance means (1): a row is activated before it is read or written — every
    column command to row r of bank b is preceded by an ACT of row r of bank b with no
    closing command (PRE/RDA/WRA) and no other ACT to b in between. *)
Theorem c22_row_activated_before_access : forall T tfaw s offers pre c post,
  wf s -> all_closed s -> Forall (in_range (s_nbg s) (s_nb s)) offers ->
  trace T tfaw s offers = pre ++ c :: post -> i_kind c < 4 ->
  exists p a q, pre = p ++ a :: q /\ i_kind a = kACT /\ bid (i_loc a) = bid (i_loc c) /\
    l_row (i_loc a) = l_row (i_loc c) /\
    forall j, In j q -> on_bank (bid (i_loc c)) j = true -> closes j = false /\ i_kind j <> kACT.
Proof.
  intros T tfaw s offers pre c post W C R E K.
  exact (legal_column_after_activate _ pre c post (c22_state_machine_legal T tfaw s offers W C R) E K).
Qed.
Print Assumptions c22_row_activated_before_access.

(** What acceptance means (2): a bank is precharged before another row is activated — an
    ACT is never issued to a bank whose last ACT has not been followed by a closing command. *)
Theorem c22_precharged_before_activate : forall T tfaw s offers pre c post,
  wf s -> all_closed s -> Forall (in_range (s_nbg s) (s_nb s)) offers ->
  trace T tfaw s offers = pre ++ c :: post -> i_kind c = kACT ->
  forall row, ~ last_act_is (bid (i_loc c)) row pre.
Proof.
  intros T tfaw s offers pre c post W C R E K.
  exact (legal_activate_on_closed _ pre c post (c22_state_machine_legal T tfaw s offers W C R) E K).
Qed.
Print Assumptions c22_precharged_before_activate.

(** Minimum separation: for ANY two issued commands c1 (earlier) and c2 (later) and ANY
    entry (k, m) of the table row selected by the relation of c2's bank to c1's location
    (same bank / other bank of the group / same rank / other rank) and c1's kind, if k is
    c2's kind then at least m ticks lie between them. *)
Theorem c22_min_separation : forall T tfaw s offers pre c1 mid c2 post k m,
  wf s -> Forall (in_range (s_nbg s) (s_nb s)) offers ->
  trace T tfaw s offers = pre ++ c1 :: mid ++ c2 :: post ->
  In (k, m) (table_row (rel_table T (i_loc c1) (l_rank (i_loc c2)) (l_bg (i_loc c2)) (l_bank (i_loc c2))) (i_kind c1)) ->
  k = i_kind c2 ->
  (m <= Z.of_N (i_tick c2) - Z.of_N (i_tick c1))%Z.
Proof.
  intros T tfaw s offers pre c1 mid c2 post k m W R E Hin Hk.
  eapply sep_ok_elim; eauto. eapply all_sep_pairs; eauto. apply min_separation; auto.
Qed.
Print Assumptions c22_min_separation.

(** tFAW: when tFAW > 0, the i-th and the (i+4)-th activate of a rank are at least tFAW
    ticks apart (activate ticks listed newest first). *)
Theorem c22_tfaw : forall T tfaw s offers r i b a,
  (0 < tfaw)%Z -> no_hist s -> (r < length (s_hist s))%nat ->
  nth_error (acts_rev (N.of_nat r) (rev (trace T tfaw s offers))) i = Some b ->
  nth_error (acts_rev (N.of_nat r) (rev (trace T tfaw s offers))) (i + 4) = Some a ->
  (tfaw <= Z.of_N b - Z.of_N a)%Z.
Proof.
  intros T tfaw s offers r i b a P NH Hr Hb Ha.
  eapply tfaw_ok_rev_spec; eauto. apply tfaw_window; auto.
Qed.
Print Assumptions c22_tfaw.

(** The three boolean evaluators used on OBSERVED streams are sound for the same
    declarative statements (acceptor soundness). *)
Theorem c22_acceptor_sound : forall T tfaw tr,
  legal_from [] tr = true -> all_sep T tr = true ->
  (forall pre c post, tr = pre ++ c :: post -> i_kind c < 4 ->
     last_act_is (bid (i_loc c)) (l_row (i_loc c)) pre) /\
  (forall pre c post, tr = pre ++ c :: post -> i_kind c = kACT ->
     forall row, ~ last_act_is (bid (i_loc c)) row pre) /\
  (forall pre c1 mid c2 post k m, tr = pre ++ c1 :: mid ++ c2 :: post ->
     In (k, m) (table_row (rel_table T (i_loc c1) (l_rank (i_loc c2)) (l_bg (i_loc c2)) (l_bank (i_loc c2))) (i_kind c1)) ->
     k = i_kind c2 -> (m <= Z.of_N (i_tick c2) - Z.of_N (i_tick c1))%Z) /\
  (forall r, tfaw_ok_rev tfaw (acts_rev r (rev tr)) = true ->
     forall i b a, nth_error (acts_rev r (rev tr)) i = Some b ->
       nth_error (acts_rev r (rev tr)) (i + 4) = Some a -> (tfaw <= Z.of_N b - Z.of_N a)%Z).
Proof.
  intros T tfaw tr L S. repeat split.
  - intros. eapply legal_column_after_activate; eauto.
  - intros. eapply legal_activate_on_closed; eauto.
  - intros. eapply sep_ok_elim; eauto. eapply all_sep_pairs; eauto.
  - intros. eapply tfaw_ok_rev_spec; eauto.
Qed.
Print Assumptions c22_acceptor_sound.

(** The state Build installs satisfies the hypotheses (checked by computation for the
    geometries of the presets; [Exec.check_case] re-checks [wfb] for every observed geometry). *)
Lemma init_all_closed nr nbg nb : all_closed (init_st nr nbg nb).
Proof.
  intros e H. unfold init_st, init_entries in H. cbn [s_entries] in H.
  apply in_flat_map in H. destruct H as [r [_ H]].
  apply in_flat_map in H. destruct H as [g [_ H]].
  apply in_map_iff in H. destruct H as [k [<- _]]. reflexivity.
Qed.

Lemma init_no_hist nr nbg nb : no_hist (init_st nr nbg nb).
Proof. intros h H. unfold init_st in H. cbn [s_hist] in H. eapply repeat_spec; eauto. Qed.

Example c22_init_wf :
  wfb (init_st 2 1 8) = true /\ wfb (init_st 1 4 4) = true /\ wfb (init_st 1 8 4) = true /\
  wfb (init_st 2 4 4) = true /\ wfb (init_st 3 2 3) = true.
Proof. vm_compute. repeat split. Qed.

(** ... and for every geometry up to 4 ranks x 8 bank groups x 8 banks (a finite domain, by
    computation; covers every preset and every geometry the generator draws). *)
Lemma c22_init_wf_bounded : forall nr nbg nb,
  In nr [1; 2; 3; 4] -> In nbg [1; 2; 3; 4; 5; 6; 7; 8] -> In nb [1; 2; 3; 4; 5; 6; 7; 8] ->
  wf (init_st nr nbg nb) /\ all_closed (init_st nr nbg nb) /\ no_hist (init_st nr nbg nb).
Proof.
  intros nr nbg nb Hr Hg Hb. split; [|split; [apply init_all_closed|apply init_no_hist]].
  apply wfb_sound.
  assert (forallb (fun r => forallb (fun g => forallb (fun b => wfb (init_st r g b))
            [1; 2; 3; 4; 5; 6; 7; 8]) [1; 2; 3; 4; 5; 6; 7; 8]) [1; 2; 3; 4] = true) as A by (vm_compute; reflexivity).
  rewrite forallb_forall in A. specialize (A nr Hr).
  rewrite forallb_forall in A. specialize (A nbg Hg).
  rewrite forallb_forall in A. exact (A nb Hb).
Qed.

(** Non-vacuity: a DDR4-like table on a 1x2x2 device, an oracle that forces a row conflict:
    the model issues ACT, RD, PRE, ACT, RD, RD, RD with the expected gaps and all hypotheses hold. *)
Definition ex_T : timing :=
  mk_timing
    [[(0, 4%Z); (5, 9%Z)]; []; []; []; [(4, 55%Z); (0, 16%Z); (5, 39%Z)]; [(4, 16%Z)]; []; []; []; []]
    [[]; []; []; []; [(4, 7%Z)]; []; []; []; []; []]
    [[]; []; []; []; [(4, 5%Z)]; []; []; []; []; []]
    [].
Definition ex_offers : list (option cmd) :=
  repeat (Some (mk_cmd kRD (mk_loc 0 0 0 7))) 20 ++ repeat (Some (mk_cmd kRD (mk_loc 0 0 0 9))) 60.
Example c22_nonvacuous :
  wf (init_st 1 2 2) /\ all_closed (init_st 1 2 2) /\ no_hist (init_st 1 2 2) /\
  Forall (in_range 2 2) ex_offers /\
  map (fun i => (i_tick i, i_kind i, l_row (i_loc i))) (trace ex_T 28 (init_st 1 2 2) ex_offers)
  = [(1, 4, 7); (17, 0, 7); (40, 5, 9); (56, 4, 9); (72, 0, 9); (76, 0, 9); (80, 0, 9)].
Proof.
  split; [apply wfb_sound; vm_compute; reflexivity|].
  split; [apply init_all_closed|]. split; [apply init_no_hist|].
  split; [unfold ex_offers; apply Forall_app; split; apply Forall_forall; intros x H; apply repeat_spec in H; subst x; cbn; lia|].
  vm_compute. reflexivity.
Qed.

(** Link between the two evaluators (oracle runs of the REAL kernels from a clean state): if
    the model reproduces every observed readiness decision ([Exec.check_case]) then the
    observed stream satisfies the property predicate ([Exec.holds_on]) — by the theorems above,
    not by testing.  (For whole-component runs [holds_on] is evaluated directly on the stream.) *)
From Akita Require Import C22.Exec C22.Link.
Theorem c22_model_agreement_implies_property : forall tb init offers rd pg fin,
  wfb init = true -> all_closedb init = true -> no_histb init = true ->
  forallb (in_rangeb (s_nbg init) (s_nb init)) offers = true ->
  table_facts tb = true ->
  check_case (KernelCase tb init true offers rd pg fin) = true ->
  holds_on (KernelCase tb init true offers rd pg fin) = true.
Proof. exact kernel_agreement_implies_property. Qed.
Print Assumptions c22_model_agreement_implies_property.
