(** C22 — DRAM issues commands in protocol-legal order and timing.  Property theorems.

    Everything below is about [Model.step]/[Model.run]: the exact model of the bank-level
    kernels of mem/dram (tickBanks, getRequiredCommandKind, getReadyCommand incl. tFAW,
    startCommand, updateTiming) driven by an ARBITRARY scheduler oracle ([offers]: at most
    one queued column command per tick, ready or not) with an ARBITRARY timing table [T]
    and tFAW value.  [trace] is the stream of issued commands, oldest first. *)
From Akita Require Import Lib.Base C22.Model C22.Proofs C22.Proofs2 C22.Proofs3 C22.Proofs4 C22.Init.
Local Open Scope N_scope.

(** [Model.run] (accumulating, as evaluated in the correspondence check) issues exactly [trace]. *)
Theorem c22_run_is_trace : forall T tfaw offers s acc,
  run T tfaw s acc offers = (final T tfaw s offers, rev (trace T tfaw s offers) ++ acc).
Proof. exact run_trace. Qed.
Print Assumptions c22_run_is_trace.

(** State machine: from a state with all banks closed, for every table, tFAW and oracle, the
    issued stream is accepted by the per-bank DRAM automaton (ACT only on a closed bank;
    RD/WR/RDA/WRA only on the open row; PRE only on an open bank; RDA/WRA/PRE close). *)
Theorem c22_state_machine_legal : forall T tfaw s offers,
  wf s -> all_closed s -> Forall (in_range (s_nbg s) (s_nb s)) offers ->
  legal_from [] (trace T tfaw s offers) = true.
Proof. intros T tfaw s offers W C R. apply legal_trace; auto. apply abs_ok_nil, C. Qed.
Print Assumptions c22_state_machine_legal.

(** What acceptance means (1): a row is activated before it is read or written — every
    column command to row r of bank b is preceded by an ACT of row r of bank b with no
    closing command (PRE/RDA/WRA) and no other ACT to b in between. *)
Theorem c22_row_activated_before_access : forall T tfaw s offers pre c post,
  wf s -> all_closed s -> Forall (in_range (s_nbg s) (s_nb s)) offers ->
  trace T tfaw s offers = pre ++ c :: post -> i_kind c < 4 ->
  exists p a q, pre = p ++ a :: q /\ i_kind a = kACT /\ bid (i_loc a) = bid (i_loc c) /\
    l_row (i_loc a) = l_row (i_loc c) /\
    forall j, In j q -> on_bank (bid (i_loc c)) j = true -> closes j = false /\ i_kind j <> kACT.
Proof.
  intros T tfaw s offers pre c post W C R E K.
  exact (legal_column_after_activate _ pre c post (c22_state_machine_legal T tfaw s offers W C R) E K).
Qed.
Print Assumptions c22_row_activated_before_access.

(** What acceptance means (2): a bank is precharged before another row is activated — an
    ACT is never issued to a bank whose last ACT has not been followed by a closing command. *)
Theorem c22_precharged_before_activate : forall T tfaw s offers pre c post,
  wf s -> all_closed s -> Forall (in_range (s_nbg s) (s_nb s)) offers ->
  trace T tfaw s offers = pre ++ c :: post -> i_kind c = kACT ->
  forall row, ~ last_act_is (bid (i_loc c)) row pre.
Proof.
  intros T tfaw s offers pre c post W C R E K.
  exact (legal_activate_on_closed _ pre c post (c22_state_machine_legal T tfaw s offers W C R) E K).
Qed.
Print Assumptions c22_precharged_before_activate.

(** Minimum separation: for ANY two issued commands c1 (earlier) and c2 (later) and ANY
    entry (k, m) of the table row selected by the relation of c2's bank to c1's location
    (same bank / other bank of the group / same rank / other rank) and c1's kind, if k is
    c2's kind then at least m ticks lie between them. *)
Theorem c22_min_separation : forall T tfaw s offers pre c1 mid c2 post k m,
  wf s -> Forall (in_range (s_nbg s) (s_nb s)) offers ->
  trace T tfaw s offers = pre ++ c1 :: mid ++ c2 :: post ->
  In (k, m) (table_row (rel_table T (i_loc c1) (l_rank (i_loc c2)) (l_bg (i_loc c2)) (l_bank (i_loc c2))) (i_kind c1)) ->
  k = i_kind c2 ->
  (m <= Z.of_N (i_tick c2) - Z.of_N (i_tick c1))%Z.
Proof.
  intros T tfaw s offers pre c1 mid c2 post k m W R E Hin Hk.
  eapply sep_ok_elim; eauto. eapply all_sep_pairs; eauto. apply min_separation; auto.
Qed.
Print Assumptions c22_min_separation.

(** tFAW: when tFAW > 0, the i-th and the (i+4)-th activate of a rank are at least tFAW
    ticks apart (activate ticks listed newest first). *)
Theorem c22_tfaw : forall T tfaw s offers r i b a,
  (0 < tfaw)%Z -> no_hist s -> (r < length (s_hist s))%nat ->
  nth_error (acts_rev (N.of_nat r) (rev (trace T tfaw s offers))) i = Some b ->
  nth_error (acts_rev (N.of_nat r) (rev (trace T tfaw s offers))) (i + 4) = Some a ->
  (tfaw <= Z.of_N b - Z.of_N a)%Z.
Proof.
  intros T tfaw s offers r i b a P NH Hr Hb Ha.
  eapply tfaw_ok_rev_spec; eauto. apply tfaw_window; auto.
Qed.
Print Assumptions c22_tfaw.

(** The three boolean evaluators used on OBSERVED streams are sound for the same
    declarative statements (acceptor soundness). *)
Theorem c22_acceptor_sound : forall T tfaw tr,
  legal_from [] tr = true -> all_sep T tr = true ->
  (forall pre c post, tr = pre ++ c :: post -> i_kind c < 4 ->
     last_act_is (bid (i_loc c)) (l_row (i_loc c)) pre) /\
  (forall pre c post, tr = pre ++ c :: post -> i_kind c = kACT ->
     forall row, ~ last_act_is (bid (i_loc c)) row pre) /\
  (forall pre c1 mid c2 post k m, tr = pre ++ c1 :: mid ++ c2 :: post ->
     In (k, m) (table_row (rel_table T (i_loc c1) (l_rank (i_loc c2)) (l_bg (i_loc c2)) (l_bank (i_loc c2))) (i_kind c1)) ->
     k = i_kind c2 -> (m <= Z.of_N (i_tick c2) - Z.of_N (i_tick c1))%Z) /\
  (forall r, tfaw_ok_rev tfaw (acts_rev r (rev tr)) = true ->
     forall i b a, nth_error (acts_rev r (rev tr)) i = Some b ->
       nth_error (acts_rev r (rev tr)) (i + 4) = Some a -> (tfaw <= Z.of_N b - Z.of_N a)%Z).
Proof.
  intros T tfaw tr L S. repeat split.
  - intros. eapply legal_column_after_activate; eauto.
  - intros. eapply legal_activate_on_closed; eauto.
  - intros. eapply sep_ok_elim; eauto. eapply all_sep_pairs; eauto.
  - intros. eapply tfaw_ok_rev_spec; eauto.
Qed.
Print Assumptions c22_acceptor_sound.

(** The state Build installs satisfies the hypotheses (checked by computation for the
    geometries of the presets; [Exec.check_case] re-checks [wfb] for every observed geometry). *)
Lemma init_all_closed nr nbg nb : all_closed (init_st nr nbg nb).
Proof.
  intros e H. unfold init_st, init_entries in H. cbn [s_entries] in H.
  apply in_flat_map in H. destruct H as [r [_ H]].
  apply in_flat_map in H. destruct H as [g [_ H]].
  apply in_map_iff in H. destruct H as [k [<- _]]. reflexivity.
Qed.

Lemma init_no_hist nr nbg nb : no_hist (init_st nr nbg nb).
Proof. intros h H. unfold init_st in H. cbn [s_hist] in H. eapply repeat_spec; eauto. Qed.

Example c22_init_wf :
  wfb (init_st 2 1 8) = true /\ wfb (init_st 1 4 4) = true /\ wfb (init_st 1 8 4) = true /\
  wfb (init_st 2 4 4) = true /\ wfb (init_st 3 2 3) = true.
Proof. vm_compute. repeat split. Qed.

(** The state Build installs satisfies the hypotheses for ARBITRARY geometry (any numbers of
    ranks, bank groups and banks): well-formed layout, every bank closed, empty histories, and
    bankFlatIndex is a bijection between the in-range coordinates and the nr*nbg*nb slots. *)
Theorem c22_init_state : forall nr nbg nb,
  wf (init_st nr nbg nb) /\ all_closed (init_st nr nbg nb) /\ no_hist (init_st nr nbg nb) /\
  length (s_hist (init_st nr nbg nb)) = N.to_nat nr.
Proof.
  intros nr nbg nb. destruct (init_hist nr nbg nb) as [H1 H2].
  split; [apply init_wf|split; [apply init_closed|split; [exact H1|exact H2]]].
Qed.
Print Assumptions c22_init_state.

Theorem c22_flat_index_bijection : forall nr nbg nb,
  let s := init_st nr nbg nb in
  length (s_entries s) = N.to_nat (nr * nbg * nb) /\
  (forall l, l_rank l < nr -> l_bg l < nbg -> l_bank l < nb ->
     flat_index s l < nr * nbg * nb /\
     exists e, find_entry s l = Some e /\ e_rank e = l_rank l /\ e_bg e = l_bg l /\ e_bank e = l_bank l) /\
  (forall l1 l2, l_bg l1 < nbg -> l_bank l1 < nb -> l_bg l2 < nbg -> l_bank l2 < nb ->
     flat_index s l1 = flat_index s l2 ->
     l_rank l1 = l_rank l2 /\ l_bg l1 = l_bg l2 /\ l_bank l1 = l_bank l2) /\
  (forall i, (i < N.to_nat (nr * nbg * nb))%nat ->
     exists e, nth_error (s_entries s) i = Some e /\
       N.of_nat i = (e_rank e * nbg + e_bg e) * nb + e_bank e /\ e_rank e < nr /\ e_bg e < nbg /\ e_bank e < nb) /\
  (forall l e, l_bg l < nbg -> l_bank l < nb -> find_entry s l = Some e -> l_rank l < nr).
Proof. exact flat_index_bijection. Qed.
Print Assumptions c22_flat_index_bijection.

(** Hence, for every clean start of every geometry, with no computed side condition: *)
Theorem c22_clean_start : forall T tfaw nr nbg nb offers,
  Forall (in_range nbg nb) offers ->
  let tr := trace T tfaw (init_st nr nbg nb) offers in
  legal_from [] tr = true /\ all_sep T tr = true /\
  ((0 < tfaw)%Z -> forall r, (r < N.to_nat nr)%nat -> tfaw_ok_rev tfaw (acts_rev (N.of_nat r) (rev tr)) = true).
Proof.
  intros T tfaw nr nbg nb offers R tr.
  destruct (c22_init_state nr nbg nb) as [W [C [NH L]]].
  split; [apply c22_state_machine_legal; auto|]. split; [apply min_separation; auto|].
  intros P r Hr. apply tfaw_window; auto. rewrite L. exact Hr.
Qed.
Print Assumptions c22_clean_start.

(** Non-vacuity: a DDR4-like table on a 1x2x2 device, an oracle that forces a row conflict:
    the model issues ACT, RD, PRE, ACT, RD, RD, RD with the expected gaps and all hypotheses hold. *)
Definition ex_T : timing :=
  mk_timing
    [[(0, 4%Z); (5, 9%Z)]; []; []; []; [(4, 55%Z); (0, 16%Z); (5, 39%Z)]; [(4, 16%Z)]; []; []; []; []]
    [[]; []; []; []; [(4, 7%Z)]; []; []; []; []; []]
    [[]; []; []; []; [(4, 5%Z)]; []; []; []; []; []]
    [].
Definition ex_offers : list (option cmd) :=
  repeat (Some (mk_cmd kRD (mk_loc 0 0 0 7))) 20 ++ repeat (Some (mk_cmd kRD (mk_loc 0 0 0 9))) 60.
Example c22_nonvacuous :
  wf (init_st 1 2 2) /\ all_closed (init_st 1 2 2) /\ no_hist (init_st 1 2 2) /\
  Forall (in_range 2 2) ex_offers /\
  map (fun i => (i_tick i, i_kind i, l_row (i_loc i))) (trace ex_T 28 (init_st 1 2 2) ex_offers)
  = [(1, 4, 7); (17, 0, 7); (40, 5, 9); (56, 4, 9); (72, 0, 9); (76, 0, 9); (80, 0, 9)].
Proof.
  split; [apply wfb_sound; vm_compute; reflexivity|].
  split; [apply init_all_closed|]. split; [apply init_no_hist|].
  split; [unfold ex_offers; apply Forall_app; split; apply Forall_forall; intros x H; apply repeat_spec in H; subst x; cbn; lia|].
  vm_compute. reflexivity.
Qed.

(** Link between the two evaluators (oracle runs of the REAL kernels from a clean state): if
    the model reproduces every observed readiness decision ([Exec.check_case]) then the
    observed stream satisfies the property predicate ([Exec.holds_on]) — by the theorems above,
    not by testing.  (For whole-component runs [holds_on] is evaluated directly on the stream.) *)
From Akita Require Import C22.Exec C22.Link.
Theorem c22_model_agreement_implies_property : forall tb init offers rd pg fin,
  wfb init = true -> all_closedb init = true -> no_histb init = true ->
  forallb (in_rangeb (s_nbg init) (s_nb init)) offers = true ->
  table_facts tb = true ->
  check_case (KernelCase tb init true offers rd pg fin) = true ->
  holds_on (KernelCase tb init true offers rd pg fin) = true.
Proof. exact kernel_agreement_implies_property. Qed.
Print Assumptions c22_model_agreement_implies_property.

(** Partial liveness of the bank kernel ([Live.v]).  For every geometry, table and tFAW, after
    ANY history from the built state (any oracle), for every in-range queued column command c:
    (a) whenever the offered command is ready it is issued in that very tick;
    (b) if from now on c is the only command offered, it is issued as its own column command
        after finitely many ticks, preceded by at most one precharge and one activate of its bank.
    NOT proved (and false without further assumptions): completion of every request of the real
    controller.  Missing, by name: the FR-FCFS scheduler's choices (commands to other banks raise
    this bank's counters again; with tRAS < tRCD it precharges a freshly activated row for ever —
    replayed on the real component), admission into the command queues (fillCommandQueue, read/
    write watermarks), the refresh stall, the data-return timeline and the respond stage under
    Top-port back-pressure. *)
From Akita Require Import C22.Live.
Theorem c22_completion_partial : forall T tfaw nr nbg nb history c,
  c_kind c < 4 -> l_rank (c_loc c) < nr -> l_bg (c_loc c) < nbg -> l_bank (c_loc c) < nb ->
  let s := final T tfaw (init_st nr nbg nb) history in
  (forall e k, find_entry (tick_banks s) (c_loc c) = Some e ->
     ready_kind tfaw (tick_banks s) (e_data e) c = Some k ->
     snd (step T tfaw s (Some c)) = Some (mk_issued (s_tick s + 1) k (c_loc c))) /\
  exists m pre x, trace T tfaw s (repeat (Some c) m) = pre ++ [x] /\
    i_kind x = c_kind c /\ i_loc x = c_loc c /\ (length pre <= 2)%nat /\
    (forall y, In y pre -> i_loc y = c_loc c /\ (i_kind y = kPRE \/ i_kind y = kACT)).
Proof.
  intros T tfaw nr nbg nb history c K Hr Hg Hb s.
  split; [intros e k F R; exact (offered_ready_is_issued T tfaw s c e k F R)|].
  assert (states_ok (init_st nr nbg nb)) as SO0.
  { intros e He. right. apply (init_closed nr nbg nb e He). }
  destruct (reachable_inv T tfaw history _ (nonneg_init nr nbg nb) SO0) as [NN [SO [Len [L1 L2]]]].
  fold s in NN, SO, Len, L1, L2.
  destruct (flat_index_bijection nr nbg nb) as [Len0 [Tot _]].
  destruct (Tot (c_loc c) Hr Hg Hb) as [Lt _].
  assert (exists e, find_entry s (c_loc c) = Some e) as [e F].
  { unfold find_entry, flat_index in *. rewrite L1, L2. cbn [init_st s_nbg s_nb] in *.
    destruct (nth_error (s_entries s) _) as [e|] eqn:E; [eauto|].
    apply nth_error_None in E. rewrite Len, Len0 in E. lia. }
  apply (sole_offer_completes T tfaw s c e NN F). split; [exact K|].
  apply SO. unfold find_entry in F. eapply nth_error_In; eauto.
Qed.
Print Assumptions c22_completion_partial.

(** Non-vacuity of the liveness statement: after the history of [c22_nonvacuous] (bank 0/0/0 open
    on row 9) a sole persistent read of row 5 is served by PRE, ACT, RD. *)
Example c22_completion_nonvacuous :
  let s := final ex_T 28 (init_st 1 2 2) ex_offers in
  firstn 3 (map (fun i => (i_kind i, l_row (i_loc i)))
              (trace ex_T 28 s (repeat (Some (mk_cmd kRD (mk_loc 0 0 0 5))) 120)))
  = [(kPRE, 5); (kACT, 5); (kRD, 5)].
Proof. vm_compute. reflexivity. Qed.
