(** C22 — every pairwise minimum separation of the timing table is respected. *)
From Akita Require Import Lib.Base C22.Model C22.Proofs C22.Proofs2.
Local Open Scope N_scope.

(** [covered s c1]: every bank still remembers every constraint the past command [c1]
    imposes on it: counter >= table entry - elapsed ticks *)
Definition covered (T : timing) (s : st) (c1 : issued) : Prop :=
  forall e, In e (s_entries s) -> forall k m,
    In (k, m) (table_row (rel_table T (i_loc c1) (e_rank e) (e_bg e) (e_bank e)) (i_kind c1)) ->
    k < num_kind ->
    (m - (Z.of_N (s_tick s) - Z.of_N (i_tick c1)) <= getc (b_cnt (e_data e)) k)%Z.

Lemma covered_tick T s c1 : covered T s c1 -> covered T (tick_banks s) c1.
Proof.
  intros H e' Hin k m Hrow Hk. unfold tick_banks in *. cbn [s_entries s_tick] in *.
  apply in_map_iff in Hin. destruct Hin as [e [<- Hin]]. cbn [tick_entry e_rank e_bg e_bank e_data tick_bank b_cnt] in *.
  specialize (H e Hin k m Hrow Hk). rewrite getc_tick_cnt.
  destruct (0 <? getc (b_cnt (e_data e)) k)%Z eqn:P; lia.
Qed.

(** entries after an issue: same coordinates, counters raised by the applicable row *)
Lemma issue_entry T s c e' : In e' (s_entries (issue T s c)) ->
  exists e, In e (s_entries s) /\ e_rank e' = e_rank e /\ e_bg e' = e_bg e /\ e_bank e' = e_bank e /\
    b_cnt (e_data e') =
      if timing_applies (c_kind c)
      then apply_row (table_row (rel_table T (c_loc c) (e_rank e) (e_bg e) (e_bank e)) (c_kind c)) (b_cnt (e_data e))
      else b_cnt (e_data e).
Proof.
  unfold issue, update_timing. intro H.
  destruct (timing_applies (c_kind c)).
  - cbn [s_entries] in H. apply in_map_iff in H. destruct H as [e1 [<- H]].
    apply In_nth_error in H. destruct H as [i H].
    destruct (start_command_entry _ _ _ _ H) as [e [He [R [G [B C]]]]].
    exists e. split; [eapply nth_error_In; eauto|]. cbn. rewrite R, G, B, C. auto.
  - apply In_nth_error in H. destruct H as [i H].
    destruct (start_command_entry _ _ _ _ H) as [e [He [R [G [B C]]]]].
    exists e. split; [eapply nth_error_In; eauto|]. auto.
Qed.

Lemma issue_tick T s c : s_tick (issue T s c) = s_tick s.
Proof.
  unfold issue, update_timing. destruct (start_command_layout s c) as [_ [_ E]].
  destruct (timing_applies (c_kind c)); cbn [s_tick]; exact E.
Qed.

Lemma covered_issue_old T s c c1 : covered T s c1 -> covered T (issue T s c) c1.
Proof.
  intros H e' Hin k m Hrow Hk. rewrite issue_tick.
  destruct (issue_entry _ _ _ _ Hin) as [e [He [R [G [B C]]]]].
  rewrite R, G, B in Hrow. specialize (H e He k m Hrow Hk). rewrite C.
  destruct (timing_applies (c_kind c)); [|exact H].
  pose proof (apply_row_mono (table_row (rel_table T (c_loc c) (e_rank e) (e_bg e) (e_bank e)) (c_kind c)) (b_cnt (e_data e)) k). lia.
Qed.

Lemma covered_issue_new T s c : wf s -> timing_applies (c_kind c) = true ->
  covered T (issue T s c) (mk_issued (s_tick s) (c_kind c) (c_loc c)).
Proof.
  intros W TA e' Hin k m Hrow Hk. rewrite issue_tick. cbn [i_tick i_loc i_kind] in *.
  destruct (issue_entry _ _ _ _ Hin) as [e [He [R [G [B C]]]]].
  rewrite R, G, B in Hrow. rewrite C, TA.
  apply In_nth_error in He. destruct He as [i He]. destruct (W _ _ He) as [_ [_ [_ L]]].
  pose proof (apply_row_ge _ (b_cnt (e_data e)) k m Hrow) as Q.
  assert (N.to_nat k < length (b_cnt (e_data e)))%nat as LK by (rewrite L; unfold num_kind in *; lia).
  specialize (Q LK). lia.
Qed.

Lemma sep_ok_intro T c1 c2 :
  (forall k m, In (k, m) (table_row (rel_table T (i_loc c1) (l_rank (i_loc c2)) (l_bg (i_loc c2)) (l_bank (i_loc c2))) (i_kind c1)) ->
     k = i_kind c2 -> (m <= Z.of_N (i_tick c2) - Z.of_N (i_tick c1))%Z) ->
  sep_ok T c1 c2 = true.
Proof.
  intro H. unfold sep_ok, gaps. apply forallb_forall. intros m Hm.
  apply in_map_iff in Hm. destruct Hm as [[k m'] [E Hm]]. cbn [snd] in E. subst m'.
  apply filter_In in Hm. destruct Hm as [Hin Hk]. cbn [fst] in Hk. apply N.eqb_eq in Hk.
  apply Z.leb_le. eapply H; eauto.
Qed.

(** the command issued now is separated from every covered past command *)
Lemma issue_respects_past T tfaw s c s' x past : wf s ->
  l_bg (c_loc c) < s_nbg s -> l_bank (c_loc c) < s_nb s ->
  (forall c1, In c1 past -> covered T s c1) ->
  try_issue T tfaw s c = (s', Some x) ->
  (forall c1, In c1 past -> sep_ok T c1 x = true) /\
  (forall c1, In c1 (x :: past) -> covered T s' c1) /\ i_kind x <= 5.
Proof.
  intros W Hg Hb Hcov TI.
  destruct (try_issue_some _ _ _ _ _ _ TI) as [e0 [k [F [R [-> ->]]]]].
  destruct (find_entry_coords _ _ _ W Hg Hb F) as [Cr [Cg Cb]].
  destruct (ready_kind_cases _ _ _ _ _ R) as [C0 Shape].
  assert (K5 : k <= 5).
  { unfold kACT, kPRE in *. destruct Shape as [[_ [-> _]]|[[_ [_ [_ K]]]|[_ [_ [-> _]]]]]; lia. }
  split; [|split; [|exact K5]].
  - intros c1 H1. apply sep_ok_intro. cbn [i_loc i_kind i_tick]. intros k' m Hrow ->.
    assert (In e0 (s_entries s)) as He0 by (unfold find_entry in F; eapply nth_error_In; eauto).
    pose proof (Hcov c1 H1 e0 He0 k m) as Q. rewrite Cr, Cg, Cb in Q.
    specialize (Q Hrow). unfold num_kind in Q. specialize (Q ltac:(lia)). lia.
  - intros c1 [<-|H1].
    + apply (covered_issue_new T s (mk_cmd k (c_loc c)) W). cbn [c_kind]. unfold timing_applies, kREFb.
      apply N.leb_le. lia.
    + apply covered_issue_old. auto.
Qed.

(** separation of every past command from every later one, and pairwise within the run *)
Lemma sep_trace T tfaw offers : forall s past, wf s ->
  Forall (in_range (s_nbg s) (s_nb s)) offers ->
  (forall c1, In c1 past -> covered T s c1) ->
  (forall c1 c2, In c1 past -> In c2 (trace T tfaw s offers) -> sep_ok T c1 c2 = true) /\
  all_sep T (trace T tfaw s offers) = true.
Proof.
  induction offers as [|o r IH]; intros s past W HR Hcov; [split; [intros ? ? ? []|reflexivity]|].
  inversion HR as [|? ? Ho Hr]; subst. cbn [trace].
  destruct (step T tfaw s o) as [s' i] eqn:ST.
  pose proof (step_layout T tfaw s o) as L. pose proof (wf_step T tfaw s o W) as W'.
  rewrite ST in L, W'. cbn [fst] in L, W'. destruct L as [L1 L2].
  rewrite <- L1, <- L2 in Hr.
  assert (Hcov1 : forall c1, In c1 past -> covered T (tick_banks s) c1)
    by (intros; apply covered_tick; auto).
  unfold step in ST. destruct o as [c|].
  - pose proof (wf_tick_banks _ W) as W1. destruct i as [x|].
    + destruct Ho as [Hg Hb].
      destruct (issue_respects_past _ _ _ _ _ _ _ W1 Hg Hb Hcov1 ST) as [S1 [Cov' _]].
      destruct (IH s' (x :: past) W' Hr Cov') as [IH1 IH2]. split.
      * intros c1 c2 H1 [<-|H2]; [apply S1; exact H1|]. apply IH1; [right; exact H1|exact H2].
      * cbn [all_sep]. rewrite IH2, andb_true_r. apply forallb_forall. intros c2 H2.
        apply IH1; [left; reflexivity|exact H2].
    + apply try_issue_none in ST. subst s'. apply IH; auto.
  - inversion ST; subst. apply IH; auto.
Qed.

Theorem min_separation T tfaw s offers : wf s ->
  Forall (in_range (s_nbg s) (s_nb s)) offers ->
  all_sep T (trace T tfaw s offers) = true.
Proof. intros W HR. apply (sep_trace T tfaw offers s [] W HR). intros ? []. Qed.

(** [all_sep] means: every ordered pair of the stream is separated *)
Lemma all_sep_pairs T tr : all_sep T tr = true ->
  forall pre c1 mid c2 post, tr = pre ++ c1 :: mid ++ c2 :: post -> sep_ok T c1 c2 = true.
Proof.
  induction tr as [|x r IH]; intros H pre c1 mid c2 post E.
  - destruct pre; discriminate.
  - cbn [all_sep] in H. apply andb_true_iff in H. destruct H as [H1 H2].
    destruct pre as [|p pre]; cbn [app] in E; inversion E; subst.
    + rewrite forallb_forall in H1. apply H1. apply in_or_app. right. left. reflexivity.
    + eapply IH; eauto.
Qed.

(** a gap is a table entry: unfolding [sep_ok] *)
Lemma sep_ok_elim T c1 c2 k m : sep_ok T c1 c2 = true ->
  In (k, m) (table_row (rel_table T (i_loc c1) (l_rank (i_loc c2)) (l_bg (i_loc c2)) (l_bank (i_loc c2))) (i_kind c1)) ->
  k = i_kind c2 -> (m <= Z.of_N (i_tick c2) - Z.of_N (i_tick c1))%Z.
Proof.
  unfold sep_ok, gaps. intros H Hin ->. rewrite forallb_forall in H.
  apply Z.leb_le. apply H. apply in_map_iff. exists (i_kind c2, m). split; [reflexivity|].
  apply filter_In. split; [exact Hin|]. cbn [fst]. apply N.eqb_refl.
Qed.
