(** Fuel bounds for Lib/Engine.v: a run whose handlers have a finite global allowance of Schedule
    calls ends (returns or panics) within [pending + allowance + 1] loop iterations.  No invariant
    is needed: only list lengths are counted. *)
From Akita Require Import Lib.Base Lib.Engine Lib.EngineProofs.

Section HeapLen.
  Context {T : Type} (less : T -> T -> bool).

  Lemma hpush_length h x : length (hpush less h x) = S (length h).
  Proof.
    unfold hpush.
    assert (G : forall fuel (l : list T) i, length (up less fuel l i) = length l).
    { induction fuel as [|f IH]; intros l i; cbn [up]; [reflexivity|].
      destruct (Nat.eqb i 0); [reflexivity|].
      destruct (nth_error l i); [|reflexivity]. destruct (nth_error l (par i)); [|reflexivity].
      destruct (less t t0); [|reflexivity]. rewrite IH.
      assert (U : forall (l : list T) i x, length (upd l i x) = length l).
      { clear. induction l as [|y r IH]; intros [|j] x; cbn; auto. }
      rewrite !U. reflexivity. }
    rewrite G, app_length. cbn. lia.
  Qed.

  Lemma hpop_length h : h <> [] -> exists m h', hpop less h = Some (m, h') /\ S (length h') = length h.
  Proof.
    intro Hne. destruct h as [|root t]; [congruence|]. unfold hpop.
    destruct (nth_error (root :: t) (length (root :: t) - 1)) as [lastv|] eqn:Hl.
    2:{ apply nth_error_None in Hl. cbn [length] in Hl. lia. }
    eexists. eexists. split; [reflexivity|]. cbn [upd].
    assert (R : forall (A : Type) (l : list A), length (removelast l) = (length l - 1)%nat).
    { clear. intros A l. induction l as [|x r IH]; [reflexivity|]. destruct r as [|y r']; [reflexivity|].
      change (removelast (x :: y :: r')) with (x :: removelast (y :: r')). cbn [length] in *. lia. }
    assert (D : forall fuel (l : list T) i n, length (down less fuel l i n) = length l).
    { assert (U : forall (l : list T) i x, length (upd l i x) = length l).
      { clear. induction l as [|y r IH]; intros [|j] x; cbn; auto. }
      induction fuel as [|f IH]; intros l i n; cbn [down]; [reflexivity|].
      destruct (Nat.leb n (2 * i + 1)); [reflexivity|].
      destruct (nth_error l (2 * i + 1)) as [lv|]; [|reflexivity].
      destruct (nth_error l i) as [iv|]; [|reflexivity].
      destruct (match nth_error l (2 * i + 1 + 1) with
                | Some rv => if Nat.ltb (2 * i + 1 + 1) n && less rv lv then ((2 * i + 1 + 1)%nat, rv) else ((2 * i + 1)%nat, lv)
                | None => ((2 * i + 1)%nat, lv) end) as [s sv].
      destruct (less sv iv); [|reflexivity]. rewrite IH, !U. reflexivity. }
    destruct (Nat.ltb 0 (length (removelast (lastv :: t)))); rewrite ?D, R; cbn [length]; lia.
  Qed.
End HeapLen.

Section Lengths.
  Context {E : Type} (etime : E -> N) (esec : E -> bool).

  Lemma schedule_len en e en' x : schedule etime esec en e = Some (en', x) ->
    length (pending en') = S (length (pending en)).
  Proof.
    unfold schedule. destruct (N.ltb (etime e) (e_now en)); [discriminate|].
    destruct (esec e); intro Hs; inversion Hs; subst; unfold pending, q_push; cbn [e_p e_s q_heap];
      rewrite !app_length, hpush_length; lia.
  Qed.

  Lemma schedule_all_len es : forall en,
    let '(en', xs, ok) := schedule_all etime esec en es in
    (length (pending en') <= length (pending en) + length es)%nat.
  Proof.
    induction es as [|e r IH]; intro en; cbn [schedule_all]; [cbn; lia|].
    destruct (schedule etime esec en e) as [[en1 x]|] eqn:Es; [|cbn; lia].
    specialize (IH en1). destruct (schedule_all etime esec en1 r) as [[en2 xs] ok].
    apply schedule_len in Es. cbn [length]. lia.
  Qed.

  Lemma next_event_len en : no_more_event en = false ->
    exists x en1, next_event etime en = Some (x, en1) /\ S (length (pending en1)) = length (pending en).
  Proof.
    unfold no_more_event, next_event, pending, q_len, q_pop, q_peek, hpeek. intro Hm.
    destruct (q_heap (e_p en)) as [|p0 pr] eqn:Ep; cbn [length Nat.eqb andb] in *.
    - destruct (q_heap (e_s en)) as [|s0 sr] eqn:Es; [discriminate|].
      destruct (hpop_length (qless etime) (s0 :: sr)) as (m & h' & Hp & Hl); [discriminate|].
      rewrite Hp. eexists. eexists. split; [reflexivity|]. cbn [e_p e_s q_heap]. rewrite Ep. cbn [app]. exact Hl.
    - destruct (hpop_length (qless etime) (p0 :: pr)) as (m & h' & Hp & Hl); [discriminate|].
      destruct (q_heap (e_s en)) as [|s0 sr] eqn:Es; cbn [length Nat.eqb nth_error].
      + rewrite Hp. eexists. eexists. split; [reflexivity|]. cbn [e_p e_s q_heap]. rewrite Es, !app_length. cbn [length] in *. lia.
      + destruct (hpop_length (qless etime) (s0 :: sr)) as (m2 & h2 & Hp2 & Hl2); [discriminate|].
        destruct (N.leb (qtime etime p0) (qtime etime s0)).
        * rewrite Hp. eexists. eexists. split; [reflexivity|]. cbn [e_p e_s q_heap]. rewrite Es, !app_length. cbn [length] in *. lia.
        * rewrite Hp2. eexists. eexists. split; [reflexivity|]. cbn [e_p e_s q_heap]. rewrite Ep, !app_length. cbn [length] in *. lia.
  Qed.

End Lengths.

Section Termination.
  Context {E : Type} (etime : E -> N) (esec : E -> bool) {HS : Type} (H : HS -> E -> HS * list E).
  (** [allow hs]: how many more Schedule calls the handlers can make in total *)
  Variable allow : HS -> nat.
  Hypothesis H_allow : forall hs e, (length (snd (H hs e)) + allow (fst (H hs e)) <= allow hs)%nat.

  (** Run ends within [pending + allowance + 1] iterations *)
  Lemma run_enough_fuel fuel : forall hs en, (length (pending en) + allow hs < fuel)%nat ->
    r_out (run etime esec H fuel hs en) <> OutOfFuel.
  Proof.
    induction fuel as [|f IH]; intros hs en Hm; [lia|]. cbn [run].
    destruct (no_more_event en) eqn:Em; [cbn; discriminate|].
    destruct (next_event_len etime en Em) as (x & en1 & Hne & Hl).
    unfold dispatch_next. rewrite Hne.
    destruct (N.ltb (qtime etime x) (e_now en1)); [cbn; discriminate|].
    pose proof (H_allow hs (fst x)) as Ha. destruct (H hs (fst x)) as [hs' out]. cbn [fst snd] in Ha.
    pose proof (schedule_all_len etime esec out (mke (qtime etime x) (e_p en1) (e_s en1))) as Hs.
    destruct (schedule_all etime esec _ out) as [[en3 xs] ok]. cbn [st_ok].
    destruct ok; [|cbn; discriminate]. cbn [cons_log r_out]. apply IH.
    change (pending (mke (qtime etime x) (e_p en1) (e_s en1))) with (pending en1) in Hs. lia.
  Qed.
End Termination.
