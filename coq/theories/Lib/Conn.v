(** Shared model of noc/directconnection/comp.go: the plugged ports (in PlugIn
    order), the name -> index map, the round-robin cursor [State.NextPortID], and
    [middleware.Tick] = for each port, starting at the cursor, [forwardMany]; then
    advance the cursor by one.  Ports are [Lib/Port.v] ports; the callbacks made by
    Deliver / RetrieveOutgoing during a tick are returned as a log of
    (port index, callback) in the order they happen.

    [forwardMany] is a Go [for] loop that removes one message from the source port's
    outgoing buffer per iteration; it is modelled with fuel = number of stored
    messages + 1, which [forward_many_fuel_enough] shows is never exhausted. *)
From Akita Require Import Lib.Base Lib.Fifo Lib.Port.

Record conn := mk_conn {
  c_ports : list port;    (* ports.ports, in PlugIn order *)
  c_next : nat }.         (* State.NextPortID *)

(** portMap[name]: PlugIn overwrites, so the LAST plugged port with that name wins. *)
Fixpoint find_port_from (k : nat) (name : N) (ps : list port) : option nat :=
  match ps with
  | [] => None
  | p :: r =>
      match find_port_from (S k) name r with
      | Some j => Some j
      | None => if (p_name p =? name)%N then Some k else None
      end
  end.
Definition find_port (name : N) (ps : list port) : option nat := find_port_from 0 name ps.

Fixpoint set_nth {A} (i : nat) (x : A) (l : list A) : list A :=
  match l, i with
  | [], _ => []
  | _ :: r, O => x :: r
  | y :: r, S i' => y :: set_nth i' x r
  end.

Definition tag (i : nat) (ns : list notif) : list (nat * notif) := map (fun n => (i, n)) ns.

(** one delivery: (destination index, message) *)
Definition dlog := list (nat * msg).

Inductive fm_res :=
| FmOk (progress : bool) (ps : list port) (cb : list (nat * notif)) (dl : dlog)
| FmPanic.   (* destination not plugged in ("port ... not found"), or a port callback panicked *)

(** forwardMany(port i) *)
Fixpoint forward_many (fuel : nat) (i : nat) (ps : list port)
         (progress : bool) (cb : list (nat * notif)) (dl : dlog) : fm_res :=
  match fuel with
  | O => FmPanic
  | S fuel' =>
      match nth_error ps i with
      | None => FmPanic
      | Some src =>
          match peek_outgoing src with
          | None => FmOk progress ps cb dl                      (* head == nil: break *)
          | Some m =>
              match find_port (m_dst m) ps with
              | None => FmPanic                                  (* getPortByName panics *)
              | Some j =>
                  match nth_error ps j with
                  | None => FmPanic
                  | Some dst =>
                      if negb (can_deliver dst) then FmOk progress ps cb dl   (* blocked head: break *)
                      else
                        match deliver (Some m) dst with
                        | Ok _ dst' ns1 =>
                            let ps1 := set_nth j dst' ps in
                            match nth_error ps1 i with
                            | None => FmPanic
                            | Some src1 =>
                                match retrieve_outgoing src1 with
                                | Ok _ src2 ns2 =>
                                    forward_many fuel' i (set_nth i src2 ps1) true
                                                 (cb ++ tag j ns1 ++ tag i ns2) (dl ++ [(j, m)])
                                | _ => FmPanic
                                end
                            end
                        | _ => FmPanic
                        end
                  end
              end
          end
      end
  end.

Definition out_len (ps : list port) (i : nat) : nat :=
  match nth_error ps i with Some p => length (content (p_out p)) | None => 0 end.

Definition forward_port (i : nat) (ps : list port) (progress : bool) cb dl : fm_res :=
  forward_many (S (out_len ps i)) i ps progress cb dl.

(** the [for i := range numPorts] loop: port (k + next) mod n for k = 0 .. n-1 *)
Fixpoint tick_loop (todo : list nat) (ps : list port) (progress : bool) cb dl : fm_res :=
  match todo with
  | [] => FmOk progress ps cb dl
  | i :: r =>
      match forward_port i ps progress cb dl with
      | FmOk pr ps' cb' dl' => tick_loop r ps' pr cb' dl'
      | FmPanic => FmPanic
      end
  end.

Definition order (n next : nat) : list nat := map (fun k => (k + next) mod n) (seq 0 n).

Inductive tick_res :=
| TickOk (progress : bool) (c : conn) (cb : list (nat * notif)) (dl : dlog)
| TickPanic.   (* includes the integer division by zero of a tick with no ports *)

Definition tick (c : conn) : tick_res :=
  let n := length (c_ports c) in
  match n with
  | O => TickPanic
  | _ =>
      match tick_loop (order n (c_next c)) (c_ports c) false [] [] with
      | FmOk pr ps cb dl => TickOk pr (mk_conn ps ((c_next c + 1) mod n)) cb dl
      | FmPanic => TickPanic
      end
  end.
