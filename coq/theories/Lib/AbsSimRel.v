(** Relational simulation lemma for the abstract serial simulation: two
    simulations over possibly different world/event types whose handlers respect
    a world relation [WR] and an event relation [ER] (which preserves time and
    class) produce pointwise-related traces, equal outcomes and related final
    states.  Used by C33 (observers only consume IDs) and C03. *)
From Akita Require Import Lib.Base Lib.AbsSim Lib.AbsSimProofs.
Local Open Scope N_scope.

Section Rel.
  Variables (W1 Ev1 W2 Ev2 : Type).
  Variable t1 : Ev1 -> N.
  Variable t2 : Ev2 -> N.
  Variable c1 : Ev1 -> bool.
  Variable c2 : Ev2 -> bool.
  Variable H1 : W1 -> Ev1 -> W1 * list Ev1.
  Variable H2 : W2 -> Ev2 -> W2 * list Ev2.
  Variable WR : W1 -> W2 -> Prop.
  Variable ER : Ev1 -> Ev2 -> Prop.

  Hypothesis ER_time : forall a b, ER a b -> t1 a = t2 b.
  Hypothesis ER_sec : forall a b, ER a b -> c1 a = c2 b.
  Hypothesis H_rel : forall w1 w2 a b, WR w1 w2 -> ER a b ->
    WR (fst (H1 w1 a)) (fst (H2 w2 b)) /\ Forall2 ER (snd (H1 w1 a)) (snd (H2 w2 b)).

  Notation sim1 := (@sim W1 Ev1).
  Notation sim2 := (@sim W2 Ev2).
  Notation snap1 := (snapshot Ev1).
  Notation snap2 := (snapshot Ev2).

  Definition RR (s : sim1) (s' : sim2) : Prop :=
    now s = now s' /\ WR (world s) (world s') /\
    Forall2 ER (snap1 (pq s)) (snap2 (pq s')) /\ Forall2 ER (snap1 (sq s)) (snap2 (sq s')) /\
    wfs W1 Ev1 t1 s /\ wfs W2 Ev2 t2 s'.

  Lemma RR_intro s s' :
    now s = now s' -> WR (world s) (world s') ->
    Forall2 ER (snap1 (pq s)) (snap2 (pq s')) -> Forall2 ER (snap1 (sq s)) (snap2 (sq s')) ->
    wfq Ev1 t1 (pq s) -> wfq Ev1 t1 (sq s) -> wfq Ev2 t2 (pq s') -> wfq Ev2 t2 (sq s') -> RR s s'.
  Proof. intros. unfold RR, wfs. tauto. Qed.

  Lemma insert_ev_rel e e' l l' : ER e e' -> Forall2 ER l l' ->
    Forall2 ER (insert_ev Ev1 t1 e l) (insert_ev Ev2 t2 e' l').
  Proof.
    intros He HF. induction HF as [|y y' r r' Hy HF IH]; cbn [insert_ev].
    - constructor; [exact He|constructor].
    - rewrite (ER_time _ _ He), (ER_time _ _ Hy).
      destruct (t2 e' <? t2 y'); constructor; auto.
  Qed.

  Lemma schedule_RR s s' e e' : RR s s' -> ER e e' ->
    match schedule W1 Ev1 t1 c1 s e, schedule W2 Ev2 t2 c2 s' e' with
    | None, None => True
    | Some t, Some t' => RR t t'
    | _, _ => False
    end.
  Proof.
    intros (Hn & Hw & Hp & Hs & [Wp Ws] & [Wp' Ws']) He.
    unfold schedule. rewrite <- Hn, (ER_time _ _ He), (ER_sec _ _ He).
    destruct (t2 e' <? now s); [exact I|].
    destruct (c2 e').
    - apply RR_intro; cbn [now world pq sq]; try assumption; try reflexivity; try (apply (push_wfq W1 Ev1 t1 c1 H1); assumption); try (apply (push_wfq W2 Ev2 t2 c2 H2); assumption).
      rewrite (push_snapshot W1 Ev1 t1 c1 H1), (push_snapshot W2 Ev2 t2 c2 H2) by assumption. apply insert_ev_rel; assumption.
    - apply RR_intro; cbn [now world pq sq]; try assumption; try reflexivity; try (apply (push_wfq W1 Ev1 t1 c1 H1); assumption); try (apply (push_wfq W2 Ev2 t2 c2 H2); assumption).
      rewrite (push_snapshot W1 Ev1 t1 c1 H1), (push_snapshot W2 Ev2 t2 c2 H2) by assumption. apply insert_ev_rel; assumption.
  Qed.

  Lemma schedule_all_RR es es' : Forall2 ER es es' -> forall s s', RR s s' ->
    match schedule_all W1 Ev1 t1 c1 s es, schedule_all W2 Ev2 t2 c2 s' es' with
    | None, None => True
    | Some t, Some t' => RR t t'
    | _, _ => False
    end.
  Proof.
    intro HF. induction HF as [|e e' r r' He HF IH]; intros s s' HR; cbn [schedule_all].
    - exact HR.
    - pose proof (schedule_RR s s' e e' HR He) as Hs.
      destruct (schedule W1 Ev1 t1 c1 s e) as [t|], (schedule W2 Ev2 t2 c2 s' e') as [t'|];
        try contradiction; [|exact I].
      apply IH. exact Hs.
  Qed.

  (** the heads of related queues *)
  Lemma head_rel (q : @queue Ev1) (q' : @queue Ev2) :
    wfq Ev1 t1 q -> wfq Ev2 t2 q' -> Forall2 ER (snap1 q) (snap2 q') ->
    match q_items q, q_items q' with
    | [], [] => True
    | x :: r, x' :: r' =>
        ER (e_ev x) (e_ev x') /\ e_time x = e_time x' /\
        Forall2 ER (snap1 (mk_queue r (q_next q))) (snap2 (mk_queue r' (q_next q'))) /\
        wfq Ev1 t1 (mk_queue r (q_next q)) /\ wfq Ev2 t2 (mk_queue r' (q_next q'))
    | _, _ => False
    end.
  Proof.
    intros Wq Wq' HF.
    destruct (q_items q) as [|x r] eqn:E, (q_items q') as [|x' r'] eqn:E';
      unfold snapshot in HF; rewrite E, E' in HF; cbn [map] in HF; try (inversion HF; fail); [exact I|].
    inversion HF as [|a b l l' Hab Hl]; subst.
    destruct (snapshot_head Ev1 t1 q x r Wq E) as [_ [B C]].
    destruct (snapshot_head Ev2 t2 q' x' r' Wq' E') as [_ [B' C']].
    split; [exact Hab|]. split; [rewrite B, B'; apply ER_time; exact Hab|].
    split; [exact Hl|]. split; assumption.
  Qed.

  Lemma next_event_RR s s' : RR s s' ->
    match next_event W1 Ev1 s, next_event W2 Ev2 s' with
    | None, None => True
    | Some (e, t), Some (e', t') => ER e e' /\ RR t t'
    | _, _ => False
    end.
  Proof.
    intros (Hn & Hw & Hp & Hs & [Wp Ws] & [Wp' Ws']).
    pose proof (head_rel _ _ Wp Wp' Hp) as HP.
    pose proof (head_rel _ _ Ws Ws' Hs) as HS.
    unfold next_event.
    destruct (q_items (pq s)) as [|x r], (q_items (pq s')) as [|x' r']; try contradiction;
    destruct (q_items (sq s)) as [|y u], (q_items (sq s')) as [|y' u']; try contradiction.
    - exact I.
    - destruct HS as (A & B & C & D & E). split; [exact A|].
      apply RR_intro; cbn [now world pq sq]; assumption.
    - destruct HP as (A & B & C & D & E). split; [exact A|].
      apply RR_intro; cbn [now world pq sq]; assumption.
    - destruct HP as (A & B & C & D & E). destruct HS as (A2 & B2 & C2 & D2 & E2).
      rewrite B, B2. destruct (e_time x' <=? e_time y').
      + split; [exact A|]. apply RR_intro; cbn [now world pq sq]; assumption.
      + split; [exact A2|]. apply RR_intro; cbn [now world pq sq]; assumption.
  Qed.

  Lemma dispatch_RR s s' : RR s s' ->
    match dispatch W1 Ev1 t1 c1 H1 s, dispatch W2 Ev2 t2 c2 H2 s' with
    | None, None => True
    | Some (e, None), Some (e', None) => ER e e'
    | Some (e, Some t), Some (e', Some t') => ER e e' /\ RR t t'
    | _, _ => False
    end.
  Proof.
    intro HR. unfold dispatch.
    pose proof (next_event_RR s s' HR) as Hne.
    destruct (next_event W1 Ev1 s) as [[e u]|], (next_event W2 Ev2 s') as [[e' u']|];
      try contradiction; [|exact I].
    destruct Hne as [He HR1].
    pose proof HR1 as (Hn & Hw & Hp & Hs & [Wp Ws] & [Wp' Ws']).
    rewrite <- Hn, (ER_time _ _ He).
    destruct (t2 e' <? now u); [exact He|].
    cbn [now pq sq world].
    destruct (H_rel (world u) (world u') e e' Hw He) as [Hw' Hsp].
    destruct (H1 (world u) e) as [w1 sp1], (H2 (world u') e') as [w2 sp2]. cbn [fst snd] in *.
    assert (HR2 : RR (mk_sim (t2 e') (pq u) (sq u) w1) (mk_sim (t2 e') (pq u') (sq u') w2)).
    { apply RR_intro; cbn [now world pq sq]; auto. }
    pose proof (schedule_all_RR sp1 sp2 Hsp _ _ HR2) as Hsa.
    destruct (schedule_all W1 Ev1 t1 c1 _ sp1) as [t|], (schedule_all W2 Ev2 t2 c2 _ sp2) as [t'|];
      try contradiction.
    - split; assumption.
    - exact He.
  Qed.

  Definition out_eq (a b : outcome) : Prop := a = b.

  Lemma run_RR n : forall s s', RR s s' ->
    let '(tr, f, o) := run W1 Ev1 t1 c1 H1 n s in
    let '(tr', f', o') := run W2 Ev2 t2 c2 H2 n s' in
    Forall2 ER tr tr' /\ o = o' /\ RR f f'.
  Proof.
    induction n as [|n IH]; intros s s' HR; cbn [run].
    - pose proof (next_event_RR s s' HR) as Hne.
      destruct (next_event W1 Ev1 s) as [[e t]|], (next_event W2 Ev2 s') as [[e' t']|];
        try contradiction; (split; [constructor|split; [reflexivity|exact HR]]).
    - pose proof (dispatch_RR s s' HR) as Hd.
      destruct (dispatch W1 Ev1 t1 c1 H1 s) as [[e [t|]]|], (dispatch W2 Ev2 t2 c2 H2 s') as [[e' [t'|]]|];
        try contradiction.
      + destruct Hd as [He HR']. specialize (IH t t' HR').
        destruct (run W1 Ev1 t1 c1 H1 n t) as [[tr f] o], (run W2 Ev2 t2 c2 H2 n t') as [[tr' f'] o'].
        destruct IH as (A & B & C). split; [constructor; assumption|split; assumption].
      + split; [constructor; [exact Hd|constructor]|split; [reflexivity|exact HR]].
      + split; [constructor|split; [reflexivity|exact HR]].
  Qed.
End Rel.
