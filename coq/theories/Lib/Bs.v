(** Lib/Bs — byte strings written as Coq string literals: [bs "name"] is the list of the
    bytes of the literal.  Only used to keep generated type descriptors small. *)
From Coq Require Import List NArith Ascii.
From Coq Require Import String.
Export String.StringSyntax.

Definition bs (s : string) : list N := List.map N_of_ascii (list_ascii_of_string s).
Arguments bs _%string.
