(** Shared model of messaging/port.go ([defaultPort]): two bounded FIFO buffers
    ([Lib/Fifo.v]) plus the notifications a call emits to the owning component and to
    the connection.  Used by C11 (the port alone), C10 and C09 (ports under a direct
    connection).

    Messages.  [messaging.Msg] is an interface; the nil interface value is [None].
    Only the routing metadata and one payload word are kept.  Port names
    ([RemotePort] strings) are numbered: the harness maps every distinct name to a
    distinct positive [N], the empty string is [0].

    Outcomes.  [Ok v p ns]: the call returned [v], left the port as [p] and made the
    callbacks [ns] in that order.  [PanicClean]: the call panicked after releasing the
    port lock and before changing anything (Send / Deliver on a full buffer).
    [PanicLocked]: the call panicked while holding the port mutex (invalid message in
    Send, nil owner in RetrieveOutgoing) — the port stays locked and every later call
    on it blocks, so a history ends there.

    Assumption of this model: a connection is plugged in ([conn != nil]); without one,
    Send / RetrieveIncoming dereference nil. The owner may be nil ([p_has_comp]). *)
From Akita Require Import Lib.Base Lib.Fifo.

Record msg := mk_msg { m_id : N; m_src : N; m_dst : N; m_data : N }.
Notation omsg := (option msg) (only parsing).
Definition nilmsg : omsg := None.

Definition msg_eqb (a b : msg) : bool :=
  (m_id a =? m_id b)%N && (m_src a =? m_src b)%N && (m_dst a =? m_dst b)%N && (m_data a =? m_data b)%N.
Definition omsg_eqb := opt_eqb msg_eqb.

Lemma msg_eqb_eq a b : msg_eqb a b = true <-> a = b.
Proof.
  destruct a, b; unfold msg_eqb; cbn. rewrite !andb_true_iff, !N.eqb_eq.
  split; [intros [[[? ?] ?] ?]; subst; reflexivity|intro H; inversion H; auto].
Qed.

Lemma omsg_eqb_eq a b : omsg_eqb a b = true <-> a = b.
Proof.
  destruct a, b; cbn; try (split; congruence).
  rewrite msg_eqb_eq. split; congruence.
Qed.

Notation mbuf := (buf (A := option msg)) (only parsing).

Record port := mk_port {
  p_name : N;            (* the port's own name *)
  p_has_comp : bool;     (* comp != nil *)
  p_in : mbuf;           (* incomingBuf *)
  p_out : mbuf }.        (* outgoingBuf *)

(** the four callbacks *)
Inductive notif :=
| NSend        (* conn.NotifySend() *)
| NRecv        (* comp.NotifyRecv(p) *)
| NPortFree    (* comp.NotifyPortFree(p) *)
| NAvailable.  (* conn.NotifyAvailable(p) *)

Definition notif_eqb (a b : notif) : bool :=
  match a, b with
  | NSend, NSend | NRecv, NRecv | NPortFree, NPortFree | NAvailable, NAvailable => true
  | _, _ => false
  end.

Inductive res (T : Type) :=
| Ok (v : T) (p : port) (ns : list notif)
| PanicClean
| PanicLocked.
Arguments Ok {T}. Arguments PanicClean {T}. Arguments PanicLocked {T}.

(** NewPort(comp, incomingBufCap, outgoingBufCap, name) *)
Definition new_port (name : N) (has_comp : bool) (icap ocap : Z) : port :=
  mk_port name has_comp (new_buf [] icap) (new_buf [] ocap).

Definition set_in (p : port) (b : mbuf) : port := mk_port (p_name p) (p_has_comp p) b (p_out p).
Definition set_out (p : port) (b : mbuf) : port := mk_port (p_name p) (p_has_comp p) (p_in p) b.

(** msgMustBeValid: port is the source, destination given, source <> destination *)
Definition msg_valid (p : port) (m : msg) : bool :=
  (m_src m =? p_name p)%N && negb (m_dst m =? 0)%N && negb (m_src m =? m_dst m)%N.

Definition can_send (p : port) : bool := can_push (p_out p).
Definition can_deliver (p : port) : bool := can_push (p_in p).
Definition num_incoming (p : port) : Z := size (p_in p).
Definition num_outgoing (p : port) : Z := size (p_out p).
Definition peek_incoming (p : port) : omsg := peek nilmsg (p_in p).
Definition peek_outgoing (p : port) : omsg := peek nilmsg (p_out p).

(** Send: validity (panic under the lock, also for a nil message: msg.Meta() on nil),
    full -> clean panic, push, NotifySend iff the outgoing buffer was empty. *)
Definition send (m : omsg) (p : port) : res unit :=
  match m with
  | None => PanicLocked
  | Some mm =>
      if negb (msg_valid p mm) then PanicLocked
      else if negb (can_push (p_out p)) then PanicClean
      else
        let was_empty := (size (p_out p) =? 0)%Z in
        match push (Some mm) (p_out p) with
        | Some o' => Ok tt (set_out p o') (if was_empty then [NSend] else [])
        | None => PanicLocked
        end
  end.

(** Deliver: full -> clean panic, push, NotifyRecv iff it was empty and there is an owner. *)
Definition deliver (m : omsg) (p : port) : res unit :=
  if negb (can_push (p_in p)) then PanicClean
  else
    let was_empty := (size (p_in p) =? 0)%Z in
    match push m (p_in p) with
    | Some i' => Ok tt (set_in p i') (if p_has_comp p && was_empty then [NRecv] else [])
    | None => PanicLocked
    end.

(** RetrieveIncoming as repaired by the fix commit: an empty buffer returns nil;
    otherwise pop and notify the connection iff the buffer was full before. *)
Definition retrieve_incoming (p : port) : res omsg :=
  if (size (p_in p) =? 0)%Z then Ok nilmsg p []
  else
    let '(v, i') := pop nilmsg (p_in p) in
    Ok v (set_in p i') (if (size i' =? b_cap i' - 1)%Z then [NAvailable] else []).

(** RetrieveIncoming before the fix: emptiness was decided by the popped value being
    nil, so a nil message sitting at the head was removed without notification. *)
Definition retrieve_incoming_old (p : port) : res omsg :=
  let '(v, i') := pop nilmsg (p_in p) in
  match v with
  | None => Ok nilmsg (set_in p i') []
  | Some _ => Ok v (set_in p i') (if (size i' =? b_cap i' - 1)%Z then [NAvailable] else [])
  end.

(** RetrieveOutgoing: pop; nil -> return nil; NotifyPortFree iff it was full
    (p.comp is dereferenced without a nil check, under the lock). The outgoing
    buffer never holds nil because Send rejects it. *)
Definition retrieve_outgoing (p : port) : res omsg :=
  let '(v, o') := pop nilmsg (p_out p) in
  match v with
  | None => Ok nilmsg (set_out p o') []
  | Some _ =>
      if (size o' =? b_cap o' - 1)%Z
      then (if p_has_comp p then Ok v (set_out p o') [NPortFree] else PanicLocked)
      else Ok v (set_out p o') []
  end.

(** NotifyAvailable (called by the connection): forwards to the owner if any. *)
Definition notify_available (p : port) : res unit :=
  Ok tt p (if p_has_comp p then [NPortFree] else []).

(** ------------------------------------------------------------------ *)
(** Well-formed port states: both buffers bounded, no nil in the outgoing buffer. *)
Definition port_ok (p : port) : Prop :=
  bounded (p_in p) /\ bounded (p_out p) /\ Forall (fun m => m <> None) (content (p_out p)).

Lemma new_port_ok n h ic oc : port_ok (new_port n h ic oc).
Proof. unfold port_ok, new_port. cbn. repeat split; try apply bounded_new. constructor. Qed.

Lemma send_ok m p p' ns : port_ok p -> send m p = Ok tt p' ns -> port_ok p'.
Proof.
  unfold send. intros [Hi [Ho Hn]] H. destruct m as [mm|]; [|discriminate].
  destruct (negb (msg_valid p mm)); [discriminate|].
  destruct (negb (can_push (p_out p))); [discriminate|].
  destruct (push (Some mm) (p_out p)) as [o'|] eqn:E; [|discriminate].
  injection H as <- _. unfold port_ok, set_out. cbn [p_in p_out].
  split; [exact Hi|]. split; [exact (push_bounded _ _ _ Ho E)|].
  rewrite (push_content _ _ _ E). apply Forall_app. split; [exact Hn|]. constructor; [discriminate|constructor].
Qed.

Lemma deliver_ok m p p' ns : port_ok p -> deliver m p = Ok tt p' ns -> port_ok p'.
Proof.
  unfold deliver. intros [Hi [Ho Hn]] H.
  destruct (negb (can_push (p_in p))); [discriminate|].
  destruct (push m (p_in p)) as [i'|] eqn:E; [|discriminate].
  injection H as <- _. unfold port_ok, set_in. cbn [p_in p_out].
  split; [exact (push_bounded _ _ _ Hi E)|]. split; assumption.
Qed.

Lemma retrieve_incoming_ok p v p' ns : port_ok p -> retrieve_incoming p = Ok v p' ns -> port_ok p'.
Proof.
  unfold retrieve_incoming. intros [Hi [Ho Hn]] H.
  destruct (size (p_in p) =? 0)%Z; [injection H as _ <- _; repeat split; assumption|].
  pose proof (pop_bounded nilmsg (p_in p) Hi) as Hb.
  destruct (pop nilmsg (p_in p)) as [w i']. injection H as _ <- _.
  unfold port_ok, set_in. cbn [p_in p_out]. repeat split; assumption.
Qed.

Lemma retrieve_outgoing_ok p v p' ns : port_ok p -> retrieve_outgoing p = Ok v p' ns -> port_ok p'.
Proof.
  unfold retrieve_outgoing. intros [Hi [Ho Hn]] H.
  pose proof (pop_bounded nilmsg (p_out p) Ho) as Hb.
  pose proof (pop_content nilmsg (p_out p)) as Hc.
  destruct (pop nilmsg (p_out p)) as [w o']. cbn [snd] in *.
  assert (Hn' : Forall (fun m => m <> None) (content o')).
  { rewrite Hc. destruct (content (p_out p)); [constructor|]. inversion Hn; assumption. }
  assert (Hok : port_ok (set_out p o')) by (unfold port_ok, set_out; cbn [p_in p_out]; repeat split; assumption).
  destruct w; [|injection H as _ <- _; exact Hok].
  destruct (size o' =? b_cap o' - 1)%Z; [destruct (p_has_comp p); [|discriminate]|];
    injection H as _ <- _; exact Hok.
Qed.

(** ------------------------------------------------------------------ *)
(** Field-level specifications of the port operations (used by the connection proofs). *)
Lemma deliver_spec m p u p' ns : deliver m p = Ok u p' ns ->
  can_deliver p = true /\ content (p_in p') = content (p_in p) ++ [m] /\
  b_cap (p_in p') = b_cap (p_in p) /\ p_out p' = p_out p /\
  p_name p' = p_name p /\ p_has_comp p' = p_has_comp p.
Proof.
  unfold deliver, can_deliver. destruct (can_push (p_in p)) eqn:Ec; cbn [negb]; [|discriminate].
  destruct (push m (p_in p)) as [i'|] eqn:E; [|discriminate]. intro H. injection H as _ <- _.
  split; [reflexivity|]. split; [exact (push_content _ _ _ E)|].
  destruct (push_cap _ _ _ E) as [Hc _]. repeat split; assumption || reflexivity.
Qed.

Lemma deliver_total m p : can_deliver p = true -> exists p' ns, deliver m p = Ok tt p' ns.
Proof.
  unfold deliver, can_deliver. intro Hc. rewrite Hc. cbn [negb].
  destruct (proj2 (push_some_iff m (p_in p)) Hc) as [b' Hb]. rewrite Hb. eauto.
Qed.

Lemma retrieve_outgoing_spec p v p' ns : retrieve_outgoing p = Ok v p' ns ->
  content (p_out p') = tl (content (p_out p)) /\ b_cap (p_out p') = b_cap (p_out p) /\
  p_in p' = p_in p /\ p_name p' = p_name p /\ p_has_comp p' = p_has_comp p /\
  v = hd None (content (p_out p)).
Proof.
  unfold retrieve_outgoing.
  pose proof (pop_content nilmsg (p_out p)) as Hc. pose proof (pop_value nilmsg (p_out p)) as Hv.
  pose proof (pop_cap nilmsg (p_out p)) as [Hcap _].
  destruct (pop nilmsg (p_out p)) as [w o']. cbn [fst snd] in *.
  assert (Hok : forall nn, Ok w (set_out p o') nn = Ok v p' ns ->
     content (p_out p') = tl (content (p_out p)) /\ b_cap (p_out p') = b_cap (p_out p) /\
     p_in p' = p_in p /\ p_name p' = p_name p /\ p_has_comp p' = p_has_comp p /\
     v = hd None (content (p_out p))).
  { intros nn H. injection H as <- <- _. cbn [set_out p_out p_in p_name p_has_comp].
    repeat split; try assumption; try reflexivity. }
  destruct w as [mw|].
  - destruct (size o' =? b_cap o' - 1)%Z; [destruct (p_has_comp p); [|discriminate]|]; apply Hok.
  - intro H. injection H as <- <- _. cbn [set_out p_out p_in p_name p_has_comp].
    repeat split; try assumption; try reflexivity.
Qed.

Lemma send_spec m p u p' ns : send (Some m) p = Ok u p' ns ->
  msg_valid p m = true /\ can_send p = true /\
  content (p_out p') = content (p_out p) ++ [Some m] /\ b_cap (p_out p') = b_cap (p_out p) /\
  p_in p' = p_in p /\ p_name p' = p_name p /\ p_has_comp p' = p_has_comp p /\
  ns = (if (size (p_out p) =? 0)%Z then [NSend] else []).
Proof.
  unfold send, can_send. destruct (msg_valid p m); cbn [negb]; [|discriminate].
  destruct (can_push (p_out p)) eqn:Ec; cbn [negb]; [|discriminate].
  destruct (push (Some m) (p_out p)) as [o'|] eqn:E; [|discriminate]. intro H. injection H as _ <- <-.
  destruct (push_cap _ _ _ E) as [Hc _].
  repeat split; try reflexivity; [exact (push_content _ _ _ E)|exact Hc].
Qed.

Lemma retrieve_incoming_spec p v p' ns : retrieve_incoming p = Ok v p' ns ->
  content (p_in p') = tl (content (p_in p)) /\ b_cap (p_in p') = b_cap (p_in p) /\
  p_out p' = p_out p /\ p_name p' = p_name p /\ p_has_comp p' = p_has_comp p /\
  v = hd None (content (p_in p)) /\
  ns = (if negb (size (p_in p) =? 0)%Z && (size (p_in p') =? b_cap (p_in p) - 1)%Z then [NAvailable] else []).
Proof.
  unfold retrieve_incoming. rewrite size_zero_nil.
  destruct (content (p_in p)) as [|x r] eqn:Ec.
  - intro H. injection H as <- <- <-. rewrite Ec. cbn. repeat split; reflexivity.
  - rewrite (pop_cons nilmsg _ _ _ Ec). intro H. injection H as <- <- <-.
    cbn [set_in p_in p_out p_name p_has_comp negb andb]. repeat split; reflexivity.
Qed.
