(** Lemmas about the abstract serial simulation: every operation commutes with the
    pop-order snapshot of the queues, restoring a snapshot rebuilds the same
    pop order, and a RunUntil boundary splits a run. *)
From Akita Require Import Lib.Base Lib.AbsSim.
Local Open Scope N_scope.

Section AbsSimProofs.
  Variables (W Ev : Type).
  Variable ev_time : Ev -> N.
  Variable ev_sec : Ev -> bool.
  Variable H : W -> Ev -> W * list Ev.

  Notation entry := (@entry Ev).
  Notation queue := (@queue Ev).
  Notation sim := (@sim W Ev).
  Notation push := (push Ev ev_time).
  Notation insert := (insert Ev).
  Notation snapshot := (snapshot Ev).
  Notation restore := (restore Ev ev_time).
  Notation schedule := (schedule W Ev ev_time ev_sec).
  Notation schedule_all := (schedule_all W Ev ev_time ev_sec).
  Notation next_event := (next_event W Ev).
  Notation next_time := (next_time W Ev).
  Notation dispatch := (dispatch W Ev ev_time ev_sec H).
  Notation run := (run W Ev ev_time ev_sec H).
  Notation run_until := (run_until W Ev ev_time ev_sec H).

  (** insertion of an event into a pop-order list of events: after every event
      whose time is <= its own (this is what FIFO among equal times means). *)
  Fixpoint insert_ev (e : Ev) (l : list Ev) : list Ev :=
    match l with
    | [] => [e]
    | y :: r => if ev_time e <? ev_time y then e :: y :: r else y :: insert_ev e r
    end.

  (** queue well-formedness: entry times are the event times, sequence numbers are
      below the next one, and times are non-decreasing along the list. *)
  Fixpoint sorted_t (l : list Ev) : Prop :=
    match l with
    | [] => True
    | x :: r => (forall y, In y r -> ev_time x <= ev_time y) /\ sorted_t r
    end.

  Definition wfq (q : queue) : Prop :=
    Forall (fun x => e_time x = ev_time (e_ev x) /\ e_seq x < q_next q) (q_items q)
    /\ sorted_t (snapshot q).

  Lemma insert_snapshot (e : Ev) (n : N) (items : list entry) :
    Forall (fun x => e_time x = ev_time (e_ev x) /\ e_seq x < n) items ->
    map e_ev (insert (mk_entry (ev_time e) n e) items) = insert_ev e (map e_ev items).
  Proof.
    induction items as [|y r IH]; intro HF; [reflexivity|].
    inversion HF as [|y' r' [Hty Hsy] HFr]; subst.
    cbn [insert AbsSim.insert map insert_ev].
    unfold entry_lt. cbn [e_time e_seq].
    rewrite <- Hty.
    destruct (ev_time e =? e_time y) eqn:Eeq.
    - apply N.eqb_eq in Eeq.
      assert (Hn : (n <? e_seq y) = false) by lia. rewrite Hn.
      assert (Hl : (ev_time e <? e_time y) = false) by lia. rewrite Hl.
      cbn [map]. f_equal. apply IH. exact HFr.
    - destruct (ev_time e <? e_time y) eqn:El.
      + reflexivity.
      + cbn [map]. f_equal. apply IH. exact HFr.
  Qed.

  Lemma insert_ev_In e l x : In x (insert_ev e l) <-> x = e \/ In x l.
  Proof.
    induction l as [|y r IH]; cbn [insert_ev].
    - cbn. intuition congruence.
    - destruct (ev_time e <? ev_time y); cbn [In]; [intuition congruence|]. rewrite IH. intuition congruence.
  Qed.

  Lemma insert_ev_sorted e l : sorted_t l -> sorted_t (insert_ev e l).
  Proof.
    induction l as [|y r IH]; intro Hs.
    - cbn. split; [intros ? []|exact I].
    - cbn [insert_ev]. destruct Hs as [Hy Hr].
      destruct (ev_time e <? ev_time y) eqn:El.
      + cbn [sorted_t]. split; [|split; assumption].
        intros z [Hz|Hz]; [subst; lia|]. specialize (Hy z Hz). lia.
      + cbn [sorted_t]. split; [|apply IH; exact Hr].
        intros z Hz. apply insert_ev_In in Hz. destruct Hz as [Hz|Hz]; [subst; lia|auto].
  Qed.

  Lemma insert_Forall (P : entry -> Prop) x items :
    P x -> Forall P items -> Forall P (insert x items).
  Proof.
    intros Hx. induction items as [|y r IH]; intro HF; cbn [insert AbsSim.insert].
    - constructor; [exact Hx|constructor].
    - inversion HF; subst. destruct (entry_lt Ev x y); constructor; auto.
  Qed.

  Lemma push_snapshot q e : wfq q -> snapshot (push q e) = insert_ev e (snapshot q).
  Proof.
    intros [HF _]. unfold AbsSim.snapshot, AbsSim.push. cbn [q_items].
    apply insert_snapshot. exact HF.
  Qed.

  Lemma push_wfq q e : wfq q -> wfq (push q e).
  Proof.
    intros Hq. pose proof Hq as [HF Hs]. split.
    - unfold AbsSim.push. cbn [q_items q_next].
      apply insert_Forall.
      + cbn [e_time e_ev e_seq]. split; [reflexivity|lia].
      + eapply Forall_impl; [|exact HF]. cbn. intros a [A B]. split; [exact A|lia].
    - rewrite (push_snapshot q e Hq). apply insert_ev_sorted. exact Hs.
  Qed.

  Lemma empty_wfq : wfq empty_queue.
  Proof. split; [constructor|exact I]. Qed.

  (** restoring a time-sorted pop-order list rebuilds exactly that pop order *)
  Lemma insert_ev_last e l :
    (forall y, In y l -> ev_time y <= ev_time e) -> insert_ev e l = l ++ [e].
  Proof.
    induction l as [|y r IH]; intro Hle; [reflexivity|].
    cbn [insert_ev]. assert (Hy : ev_time y <= ev_time e) by (apply Hle; left; reflexivity).
    assert (Hl : (ev_time e <? ev_time y) = false) by lia. rewrite Hl.
    cbn [app]. f_equal. apply IH. intros z Hz. apply Hle. right. exact Hz.
  Qed.

  Lemma sorted_t_app_le l e :
    sorted_t (l ++ [e]) -> forall y, In y l -> ev_time y <= ev_time e.
  Proof.
    induction l as [|x r IH]; intros Hs y Hy; [destruct Hy|].
    cbn [app sorted_t] in Hs. destruct Hs as [Hx Hr].
    destruct Hy as [Hy|Hy]; [subst; apply Hx; apply in_or_app; right; left; reflexivity|].
    apply IH; assumption.
  Qed.

  Lemma sorted_t_app_l l e : sorted_t (l ++ [e]) -> sorted_t l.
  Proof.
    induction l as [|x r IH]; intro Hs; [exact I|].
    cbn [app sorted_t] in *. destruct Hs as [Hx Hr]. split; [|apply IH; exact Hr].
    intros y Hy. apply Hx. apply in_or_app. left. exact Hy.
  Qed.

  Lemma restore_fold es : forall q, wfq q ->
    (forall x y, In x (snapshot q) -> In y es -> ev_time x <= ev_time y) -> sorted_t es ->
    wfq (fold_left push es q) /\ snapshot (fold_left push es q) = snapshot q ++ es.
  Proof.
    induction es as [|e r IH]; intros q Hq Hle Hs.
    - cbn [fold_left]. rewrite app_nil_r. split; [exact Hq|reflexivity].
    - cbn [fold_left]. destruct Hs as [He Hr].
      assert (Hq' : wfq (push q e)) by (apply push_wfq; exact Hq).
      assert (Hsnap : snapshot (push q e) = snapshot q ++ [e]).
      { rewrite (push_snapshot q e Hq). apply insert_ev_last.
        intros y Hy. apply Hle; [exact Hy|left; reflexivity]. }
      destruct (IH (push q e) Hq') as [A B].
      + intros x y Hx Hy. rewrite Hsnap in Hx. apply in_app_or in Hx.
        destruct Hx as [Hx|[Hx|[]]]; [apply Hle; [exact Hx|right; exact Hy]|subst; apply He; exact Hy].
      + exact Hr.
      + split; [exact A|]. rewrite B, Hsnap, <- app_assoc. reflexivity.
  Qed.

  Lemma restore_snapshot q : wfq q ->
    wfq (restore (snapshot q)) /\ snapshot (restore (snapshot q)) = snapshot q.
  Proof.
    intros [_ Hs]. unfold AbsSim.restore.
    destruct (restore_fold (snapshot q) empty_queue empty_wfq) as [A B].
    - intros x y [].
    - exact Hs.
    - split; [exact A|exact B].
  Qed.

  (** ------------------------------------------------------------------ *)
  (** simulation states that differ only in sequence numbering *)

  Definition wfs (s : sim) : Prop := wfq (pq s) /\ wfq (sq s).

  Definition R (s s' : sim) : Prop :=
    now s = now s' /\ world s = world s' /\
    snapshot (pq s) = snapshot (pq s') /\ snapshot (sq s) = snapshot (sq s') /\
    wfs s /\ wfs s'.

  Lemma R_intro s s' :
    now s = now s' -> world s = world s' ->
    snapshot (pq s) = snapshot (pq s') -> snapshot (sq s) = snapshot (sq s') ->
    wfq (pq s) -> wfq (sq s) -> wfq (pq s') -> wfq (sq s') -> R s s'.
  Proof. intros. unfold R, wfs. tauto. Qed.

  Lemma R_refl s : wfs s -> R s s.
  Proof. intros [A B]. apply R_intro; auto. Qed.

  Lemma schedule_R s s' e : R s s' ->
    match schedule s e, schedule s' e with
    | None, None => True
    | Some t, Some t' => R t t'
    | _, _ => False
    end.
  Proof.
    intros (Hn & Hw & Hp & Hs & [Wp Ws] & [Wp' Ws']).
    unfold AbsSim.schedule. rewrite <- Hn.
    destruct (ev_time e <? now s); [exact I|].
    destruct (ev_sec e).
    - apply R_intro; cbn [now world pq sq]; try assumption; try reflexivity; try (apply push_wfq; assumption).
      rewrite !push_snapshot by assumption. rewrite Hs. reflexivity.
    - apply R_intro; cbn [now world pq sq]; try assumption; try reflexivity; try (apply push_wfq; assumption).
      rewrite !push_snapshot by assumption. rewrite Hp. reflexivity.
  Qed.

  Lemma schedule_all_R es : forall s s', R s s' ->
    match schedule_all s es, schedule_all s' es with
    | None, None => True
    | Some t, Some t' => R t t'
    | _, _ => False
    end.
  Proof.
    induction es as [|e r IH]; intros s s' HR; cbn [schedule_all AbsSim.schedule_all].
    - exact HR.
    - pose proof (schedule_R s s' e HR) as Hs.
      destruct (schedule s e) as [t|], (schedule s' e) as [t'|]; try contradiction; [|exact I].
      apply IH. exact Hs.
  Qed.

  Lemma wfq_tail x r n : wfq (mk_queue (x :: r) n) -> wfq (mk_queue r n).
  Proof.
    intros [HF Hs]. split.
    - cbn [q_items q_next] in *. inversion HF; assumption.
    - unfold AbsSim.snapshot in *. cbn [q_items map sorted_t] in *. apply Hs.
  Qed.

  Lemma queue_eta (q : queue) : q = mk_queue (q_items q) (q_next q).
  Proof. destruct q; reflexivity. Qed.

  Lemma snapshot_head q x r : wfq q -> q_items q = x :: r ->
    snapshot q = e_ev x :: map e_ev r /\ e_time x = ev_time (e_ev x) /\ wfq (mk_queue r (q_next q)).
  Proof.
    intros Hq Hi. split; [unfold AbsSim.snapshot; rewrite Hi; reflexivity|]. split.
    - destruct Hq as [HF _]. rewrite Hi in HF. inversion HF as [|? ? [A _] ?]; exact A.
    - apply (wfq_tail x). rewrite <- Hi, <- queue_eta. exact Hq.
  Qed.

  Lemma next_event_R s s' : R s s' ->
    match next_event s, next_event s' with
    | None, None => True
    | Some (e, t), Some (e', t') => e = e' /\ R t t'
    | _, _ => False
    end.
  Proof.
    intros (Hn & Hw & Hp & Hs & [Wp Ws] & [Wp' Ws']).
    pose proof Hp as Hp0. pose proof Hs as Hs0.
    unfold AbsSim.next_event.
    destruct (q_items (pq s)) as [|x r] eqn:Ep, (q_items (pq s')) as [|x' r'] eqn:Ep';
      try (unfold AbsSim.snapshot in Hp; rewrite Ep, Ep' in Hp; discriminate Hp).
    - (* both primary queues empty *)
      destruct (q_items (sq s)) as [|y u] eqn:Es, (q_items (sq s')) as [|y' u'] eqn:Es';
        try (unfold AbsSim.snapshot in Hs; rewrite Es, Es' in Hs; discriminate Hs); [exact I|].
      destruct (snapshot_head _ _ _ Ws Es) as [A [_ C]].
      destruct (snapshot_head _ _ _ Ws' Es') as [A' [_ C']].
      rewrite A, A' in Hs. injection Hs as Hh Ht.
      split; [exact Hh|].
      apply R_intro; cbn [now world pq sq]; try assumption; try (unfold AbsSim.snapshot; cbn [q_items]; assumption).
    - destruct (snapshot_head _ _ _ Wp Ep) as [A [B C]].
      destruct (snapshot_head _ _ _ Wp' Ep') as [A' [B' C']].
      rewrite A, A' in Hp. injection Hp as Hh Ht.
      destruct (q_items (sq s)) as [|y u] eqn:Es, (q_items (sq s')) as [|y' u'] eqn:Es';
        try (unfold AbsSim.snapshot in Hs; rewrite Es, Es' in Hs; discriminate Hs).
      + split; [exact Hh|].
        apply R_intro; cbn [now world pq sq]; try assumption; try (unfold AbsSim.snapshot; cbn [q_items]; assumption).
      + destruct (snapshot_head _ _ _ Ws Es) as [D [E F]].
        destruct (snapshot_head _ _ _ Ws' Es') as [D' [E' F']].
        rewrite D, D' in Hs. injection Hs as Hh2 Ht2.
        rewrite B, B', E, E', <- Hh, <- Hh2.
        destruct (ev_time (e_ev x) <=? ev_time (e_ev y)).
        * split; [first [exact Hh|reflexivity]|].
          apply R_intro; cbn [now world pq sq]; try assumption; try (unfold AbsSim.snapshot; cbn [q_items]; assumption).
        * split; [first [exact Hh2|reflexivity]|].
          apply R_intro; cbn [now world pq sq]; try assumption; try (unfold AbsSim.snapshot; cbn [q_items]; assumption).
  Qed.

  Lemma next_time_R s s' : R s s' -> next_time s = next_time s'.
  Proof.
    intros (Hn & Hw & Hp & Hs & [Wp Ws] & [Wp' Ws']).
    unfold AbsSim.next_time.
    destruct (q_items (pq s)) as [|x r] eqn:Ep, (q_items (pq s')) as [|x' r'] eqn:Ep';
      try (unfold AbsSim.snapshot in Hp; rewrite Ep, Ep' in Hp; discriminate Hp);
    destruct (q_items (sq s)) as [|y u] eqn:Es, (q_items (sq s')) as [|y' u'] eqn:Es';
      try (unfold AbsSim.snapshot in Hs; rewrite Es, Es' in Hs; discriminate Hs);
      try reflexivity.
    - destruct (snapshot_head _ _ _ Ws Es) as [D [E F]].
      destruct (snapshot_head _ _ _ Ws' Es') as [D' [E' F']].
      rewrite D, D' in Hs. injection Hs as Hh2 Ht2. rewrite E, E', Hh2. reflexivity.
    - destruct (snapshot_head _ _ _ Wp Ep) as [A [B C]].
      destruct (snapshot_head _ _ _ Wp' Ep') as [A' [B' C']].
      rewrite A, A' in Hp. injection Hp as Hh Ht. rewrite B, B', Hh. reflexivity.
    - destruct (snapshot_head _ _ _ Wp Ep) as [A [B C]].
      destruct (snapshot_head _ _ _ Wp' Ep') as [A' [B' C']].
      rewrite A, A' in Hp. injection Hp as Hh Ht.
      destruct (snapshot_head _ _ _ Ws Es) as [D [E F]].
      destruct (snapshot_head _ _ _ Ws' Es') as [D' [E' F']].
      rewrite D, D' in Hs. injection Hs as Hh2 Ht2.
      rewrite B, B', E, E', Hh, Hh2. reflexivity.
  Qed.

  Lemma dispatch_R s s' : R s s' ->
    match dispatch s, dispatch s' with
    | None, None => True
    | Some (e, None), Some (e', None) => e = e'
    | Some (e, Some t), Some (e', Some t') => e = e' /\ R t t'
    | _, _ => False
    end.
  Proof.
    intro HR. unfold AbsSim.dispatch.
    pose proof (next_event_R s s' HR) as Hne.
    destruct (next_event s) as [[e s1]|], (next_event s') as [[e' s1']|]; try contradiction; [|exact I].
    destruct Hne as [<- HR1].
    pose proof HR1 as (Hn & Hw & Hp & Hs & [Wp Ws] & [Wp' Ws']).
    rewrite <- Hn.
    destruct (ev_time e <? now s1); [reflexivity|].
    cbn [now pq sq world]. rewrite <- Hw.
    destruct (H (world s1) e) as [w' spawned].
    assert (HR2 : R (mk_sim (ev_time e) (pq s1) (sq s1) w') (mk_sim (ev_time e) (pq s1') (sq s1') w')).
    { apply R_intro; cbn [now world pq sq]; auto. }
    pose proof (schedule_all_R spawned _ _ HR2) as Hsa.
    destruct (schedule_all _ spawned) as [t|], (schedule_all _ spawned) as [t'|]; try contradiction.
    - split; [reflexivity|exact Hsa].
    - reflexivity.
  Qed.

  Lemma run_R n : forall s s', R s s' ->
    let '(tr, f, o) := run n s in let '(tr', f', o') := run n s' in
    tr = tr' /\ o = o' /\ R f f'.
  Proof.
    induction n as [|n IH]; intros s s' HR; cbn [run AbsSim.run].
    - pose proof (next_event_R s s' HR) as Hne.
      destruct (next_event s) as [[e t]|], (next_event s') as [[e' t']|]; try contradiction;
        (split; [reflexivity|split; [reflexivity|exact HR]]).
    - pose proof (dispatch_R s s' HR) as Hd.
      destruct (dispatch s) as [[e [t|]]|], (dispatch s') as [[e' [t'|]]|]; try contradiction.
      + destruct Hd as [<- HR']. specialize (IH t t' HR').
        destruct (run n t) as [[tr f] o], (run n t') as [[tr' f'] o'].
        destruct IH as (A & B & C). subst. split; [reflexivity|split; [reflexivity|exact C]].
      + subst. (split; [reflexivity|split; [reflexivity|exact HR]]).
      + (split; [reflexivity|split; [reflexivity|exact HR]]).
  Qed.

  Lemma run_until_R b n : forall s s', R s s' ->
    let '(tr, f, o) := run_until b n s in let '(tr', f', o') := run_until b n s' in
    tr = tr' /\ o = o' /\ R f f'.
  Proof.
    induction n as [|n IH]; intros s s' HR; cbn [run_until AbsSim.run_until];
      rewrite <- (next_time_R s s' HR).
    - destruct (next_time s) as [nt|]; [destruct (b <? nt)|]; (split; [reflexivity|split; [reflexivity|exact HR]]).
    - destruct (next_time s) as [nt|]; [|(split; [reflexivity|split; [reflexivity|exact HR]])].
      destruct (b <? nt); [(split; [reflexivity|split; [reflexivity|exact HR]])|].
      pose proof (dispatch_R s s' HR) as Hd.
      destruct (dispatch s) as [[e [t|]]|], (dispatch s') as [[e' [t'|]]|]; try contradiction.
      + destruct Hd as [<- HR']. specialize (IH t t' HR').
        destruct (run_until b n t) as [[tr f] o], (run_until b n t') as [[tr' f'] o'].
        destruct IH as (A & B & C). subst. split; [reflexivity|split; [reflexivity|exact C]].
      + subst. (split; [reflexivity|split; [reflexivity|exact HR]]).
      + (split; [reflexivity|split; [reflexivity|exact HR]]).
  Qed.

  (** well-formedness is an invariant of every step *)
  Lemma dispatch_wfs s : wfs s ->
    match dispatch s with Some (_, Some t) => wfs t | _ => True end.
  Proof.
    intro Hw. pose proof (dispatch_R s s (R_refl s Hw)) as Hd.
    destruct (dispatch s) as [[e [t|]]|]; try exact I. destruct Hd as [_ HR]. apply HR.
  Qed.

  Lemma run_until_wfs b n : forall s, wfs s ->
    let '(_, f, _) := run_until b n s in wfs f.
  Proof.
    intros s Hw. pose proof (run_until_R b n s s (R_refl s Hw)) as Hr.
    destruct (run_until b n s) as [[tr f] o]. apply Hr.
  Qed.

  (** a RunUntil call that reached its boundary is a prefix of Run *)
  Lemma next_time_None_dispatch s : next_time s = None -> dispatch s = None.
  Proof.
    unfold AbsSim.next_time, AbsSim.dispatch, AbsSim.next_event.
    destruct (q_items (pq s)), (q_items (sq s)); intro Hn; try discriminate; reflexivity.
  Qed.

  Lemma run_until_split b n : forall s tr1 s1,
    run_until b n s = (tr1, s1, Done) ->
    exists k, forall m,
      run (k + m) s = let '(tr2, s2, o) := run m s1 in (tr1 ++ tr2, s2, o).
  Proof.
    induction n as [|n IH]; intros s tr1 s1 Hr; cbn [run_until AbsSim.run_until] in Hr.
    - exists 0%nat. intro m. cbn [Nat.add].
      destruct (next_time s) as [nt|]; [destruct (b <? nt)|]; inversion Hr; subst;
        destruct (run m s1) as [[tr2 s2] o]; reflexivity.
    - destruct (next_time s) as [nt|] eqn:Ent.
      + destruct (b <? nt).
        * inversion Hr; subst. exists 0%nat. intro m. cbn [Nat.add].
          destruct (run m s1) as [[tr2 s2] o]; reflexivity.
        * destruct (dispatch s) as [[e [t|]]|] eqn:Ed.
          -- destruct (run_until b n t) as [[tr f] o] eqn:Eru. inversion Hr; subst.
             destruct (IH t tr s1 Eru) as [k Hk]. exists (S k). intro m.
             cbn [Nat.add run AbsSim.run]. rewrite Ed, (Hk m).
             destruct (run m s1) as [[tr2 s2] o2]. reflexivity.
          -- inversion Hr.
          -- inversion Hr; subst. exists 0%nat. intro m. cbn [Nat.add].
             destruct (run m s1) as [[tr2 s2] o]; reflexivity.
      + inversion Hr; subst. exists 0%nat. intro m. cbn [Nat.add].
        destruct (run m s1) as [[tr2 s2] o]; reflexivity.
  Qed.

  (** more fuel does not change a run that finished *)
  Lemma run_done_more n : forall s tr f, run n s = (tr, f, Done) ->
    forall k, run (n + k) s = (tr, f, Done).
  Proof.
    induction n as [|n IH]; intros s tr f Hr k; cbn [run AbsSim.run] in Hr.
    - destruct (next_event s) as [[e t]|] eqn:En; inversion Hr; subst.
      cbn [Nat.add]. destruct k as [|k]; cbn [run AbsSim.run]; [rewrite En; reflexivity|].
      unfold AbsSim.dispatch. rewrite En. reflexivity.
    - cbn [Nat.add run AbsSim.run].
      destruct (dispatch s) as [[e [t|]]|] eqn:Ed.
      + destruct (run n t) as [[tr' f'] o'] eqn:Er. inversion Hr; subst.
        rewrite (IH t tr' f Er k). reflexivity.
      + inversion Hr.
      + exact Hr.
  Qed.

  (** ------------------------------------------------------------------ *)
  (** checkpoint / restore *)
  Variable P : Type.
  Variable encW : W -> P.
  Variable decW : P -> option W.
  Hypothesis codec_roundtrip : forall w, decW (encW w) = Some w.

  Notation save := (save W Ev P encW).
  Notation load := (load W Ev ev_time P decW).

  Lemma load_save_R s : wfs s -> exists s', load (save s) = Some s' /\ R s s'.
  Proof.
    intros [Wp Ws]. unfold AbsSim.load, AbsSim.save. cbn [c_world c_time c_primary c_secondary].
    rewrite codec_roundtrip. eexists. split; [reflexivity|].
    destruct (restore_snapshot (pq s) Wp) as [A B].
    destruct (restore_snapshot (sq s) Ws) as [C D].
    apply R_intro; cbn [now world pq sq]; try assumption; try reflexivity; symmetry; assumption.
  Qed.

  (** C06 at the framework level: cut at ANY boundary b, save, load into a fresh
      simulation, run to the end: the remaining handled trace, the way the run
      ends and the final state (time, world, queue contents in pop order) are those
      of the uninterrupted run; and the uninterrupted Run is the concatenation. *)
  Theorem checkpoint_invisible : forall s b n1 tr1 s1,
    wfs s -> run_until b n1 s = (tr1, s1, Done) ->
    exists s1', load (save s1) = Some s1' /\
    forall n2,
      let '(tr2, f, o) := run n2 s1 in
      let '(tr2', f', o') := run n2 s1' in
      tr2' = tr2 /\ o' = o /\ R f f' /\
      exists k, run (k + n2) s = (tr1 ++ tr2, f, o).
  Proof.
    intros s b n1 tr1 s1 Hw Hr.
    pose proof (run_until_wfs b n1 s Hw) as Hw1. rewrite Hr in Hw1.
    destruct (load_save_R s1 Hw1) as [s1' [Hl HR]].
    exists s1'. split; [exact Hl|]. intro n2.
    pose proof (run_R n2 s1 s1' HR) as Hrr.
    destruct (run_until_split b n1 s tr1 s1 Hr) as [k Hk].
    specialize (Hk n2).
    destruct (run n2 s1) as [[tr2 f] o], (run n2 s1') as [[tr2' f'] o'].
    destruct Hrr as (A & B & C). repeat split; try (symmetry; assumption); try apply C.
    exists k. exact Hk.
  Qed.
End AbsSimProofs.
