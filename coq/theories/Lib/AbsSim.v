(** Abstract serial simulation used by C06 / C33 / C03.

    The two event queues are kept in canonical form: a list of entries sorted by
    (time, seq) where [seq] is the sequence number assigned at push (exactly the
    order relation of [eventHeap.less] in timing/eventqueue.go).  [push] inserts
    at the sorted position, [pop] takes the head.  The whole rest of the
    simulation (component states, port buffers, scheduler guards, storages, page
    tables, the ID counter) is the opaque world [W]; a handler is a function
    [H : W -> Ev -> W * list Ev] returning the events it schedules, in order.

    Scheduling an event earlier than the current time is the outcome [None]
    (the Go code panics). *)
From Akita Require Import Lib.Base.
Local Open Scope N_scope.

Section AbsSim.
  Variables (W Ev : Type).
  Variable ev_time : Ev -> N.
  Variable ev_sec : Ev -> bool.
  Variable H : W -> Ev -> W * list Ev.

  Record entry := mk_entry { e_time : N; e_seq : N; e_ev : Ev }.

  (** eventHeap.less *)
  Definition entry_lt (a b : entry) : bool :=
    if e_time a =? e_time b then e_seq a <? e_seq b else e_time a <? e_time b.

  Fixpoint insert (x : entry) (q : list entry) : list entry :=
    match q with
    | [] => [x]
    | y :: r => if entry_lt x y then x :: y :: r else y :: insert x r
    end.

  Record queue := mk_queue { q_items : list entry; q_next : N }.

  Definition empty_queue : queue := mk_queue [] 0.

  (** Push: seq := nextSeq; nextSeq++ *)
  Definition push (q : queue) (e : Ev) : queue :=
    mk_queue (insert (mk_entry (ev_time e) (q_next q) e) (q_items q)) (q_next q + 1).

  Record sim := mk_sim { now : N; pq : queue; sq : queue; world : W }.

  (** SerialEngine.Schedule *)
  Definition schedule (s : sim) (e : Ev) : option sim :=
    if ev_time e <? now s then None
    else if ev_sec e
         then Some (mk_sim (now s) (pq s) (push (sq s) e) (world s))
         else Some (mk_sim (now s) (push (pq s) e) (sq s) (world s)).

  Fixpoint schedule_all (s : sim) (es : list Ev) : option sim :=
    match es with
    | [] => Some s
    | e :: r => match schedule s e with
                | None => None
                | Some s' => schedule_all s' r
                end
    end.

  (** SerialEngine.nextEvent: primary preferred when tP <= tS. *)
  Definition next_event (s : sim) : option (Ev * sim) :=
    match q_items (pq s), q_items (sq s) with
    | [], [] => None
    | [], y :: r => Some (e_ev y, mk_sim (now s) (pq s) (mk_queue r (q_next (sq s))) (world s))
    | x :: r, [] => Some (e_ev x, mk_sim (now s) (mk_queue r (q_next (pq s))) (sq s) (world s))
    | x :: r, y :: r' =>
        if e_time x <=? e_time y
        then Some (e_ev x, mk_sim (now s) (mk_queue r (q_next (pq s))) (sq s) (world s))
        else Some (e_ev y, mk_sim (now s) (pq s) (mk_queue r' (q_next (sq s))) (world s))
    end.

  (** SerialEngine.nextEventTime *)
  Definition next_time (s : sim) : option N :=
    match q_items (pq s), q_items (sq s) with
    | [], [] => None
    | [], y :: _ => Some (e_time y)
    | x :: _, [] => Some (e_time x)
    | x :: _, y :: _ => Some (if e_time x <=? e_time y then e_time x else e_time y)
    end.

  Inductive outcome := Done | Panic | OutOfFuel.

  (** dispatchNext *)
  Definition dispatch (s : sim) : option (Ev * option sim) :=
    match next_event s with
    | None => None
    | Some (e, s1) =>
        if ev_time e <? now s1 then Some (e, None)
        else
          let s2 := mk_sim (ev_time e) (pq s1) (sq s1) (world s1) in
          let '(w', spawned) := H (world s2) e in
          Some (e, schedule_all (mk_sim (now s2) (pq s2) (sq s2) w') spawned)
    end.

  (** Run with fuel: the handled trace, the final state, how it ended. *)
  Fixpoint run (fuel : nat) (s : sim) : list Ev * sim * outcome :=
    match fuel with
    | O => ([], s, match next_event s with None => Done | Some _ => OutOfFuel end)
    | S f =>
        match dispatch s with
        | None => ([], s, Done)
        | Some (e, None) => ([e], s, Panic)
        | Some (e, Some s') =>
            let '(tr, sf, o) := run f s' in (e :: tr, sf, o)
        end
    end.

  (** RunUntil t *)
  Fixpoint run_until (t : N) (fuel : nat) (s : sim) : list Ev * sim * outcome :=
    match fuel with
    | O => ([], s, match next_time s with
                   | None => Done
                   | Some nt => if t <? nt then Done else OutOfFuel end)
    | S f =>
        match next_time s with
        | None => ([], s, Done)
        | Some nt =>
            if t <? nt then ([], s, Done)
            else match dispatch s with
                 | None => ([], s, Done)
                 | Some (e, None) => ([e], s, Panic)
                 | Some (e, Some s') =>
                     let '(tr, sf, o) := run_until t f s' in (e :: tr, sf, o)
                 end
        end
    end.

  (** Checkpoint of the engine (serialengine_checkpoint.go): time and both queues
      in pop order; the world goes through an encoder/decoder pair. *)
  Variable P : Type.
  Variable encW : W -> P.
  Variable decW : P -> option W.

  Record ckpt := mk_ckpt { c_time : N; c_primary : list Ev; c_secondary : list Ev; c_world : P }.

  Definition snapshot (q : queue) : list Ev := map e_ev (q_items q).
  Definition restore (es : list Ev) : queue := fold_left push es empty_queue.

  Definition save (s : sim) : ckpt :=
    mk_ckpt (now s) (snapshot (pq s)) (snapshot (sq s)) (encW (world s)).

  (** load into a freshly rebuilt simulation (empty queues) *)
  Definition load (c : ckpt) : option sim :=
    match decW (c_world c) with
    | None => None
    | Some w => Some (mk_sim (c_time c) (restore (c_primary c)) (restore (c_secondary c)) w)
    end.
End AbsSim.

Arguments mk_entry {Ev}.
Arguments e_time {Ev}.
Arguments e_seq {Ev}.
Arguments e_ev {Ev}.
Arguments mk_queue {Ev}.
Arguments q_items {Ev}.
Arguments q_next {Ev}.
Arguments empty_queue {Ev}.
Arguments mk_sim {W Ev}.
Arguments now {W Ev}.
Arguments pq {W Ev}.
Arguments sq {W Ev}.
Arguments world {W Ev}.
Arguments mk_ckpt {Ev P}.
Arguments c_time {Ev P}.
Arguments c_primary {Ev P}.
Arguments c_secondary {Ev P}.
Arguments c_world {Ev P}.
