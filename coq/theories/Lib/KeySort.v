(** Insertion sort of keyed lists under a boolean strict order, with the facts
    needed to reason about Go's [sort.Slice] when it is used with a strict
    total order on distinct keys (the result is then the unique sorted
    permutation) and about a stable sort on possibly equal keys.
    Added for C07 (archive entry order, storage units, page-table processes,
    event-queue snapshots). *)
From Akita Require Import Lib.Base.
From Coq Require Import Permutation Sorted.

Section KeySort.
  Context {K V : Type} (ltb : K -> K -> bool).

  (** Insert [x] before the first element that is not smaller than it: equal
      keys keep their relative order (the sort is stable). *)
  Fixpoint ks_insert (x : K * V) (l : list (K * V)) : list (K * V) :=
    match l with
    | [] => [x]
    | y :: r => if ltb (fst y) (fst x) then y :: ks_insert x r else x :: y :: r
    end.

  Definition ks_sort (l : list (K * V)) : list (K * V) := fold_right ks_insert [] l.

  (** [x] may stand in front of [y]: [y] is not strictly smaller. *)
  Definition ks_le (x y : K * V) : Prop := ltb (fst y) (fst x) = false.
  Definition ks_lt (x y : K * V) : Prop := ltb (fst x) (fst y) = true.

  Lemma ks_insert_perm x l : Permutation (ks_insert x l) (x :: l).
  Proof.
    induction l as [|y r IH]; cbn [ks_insert]; [reflexivity|].
    destruct (ltb (fst y) (fst x)); [|reflexivity].
    rewrite IH. apply perm_swap.
  Qed.

  Lemma ks_sort_perm l : Permutation (ks_sort l) l.
  Proof.
    induction l as [|x r IH]; cbn [ks_sort fold_right]; [reflexivity|].
    fold (ks_sort r). rewrite ks_insert_perm. constructor. exact IH.
  Qed.

  Lemma ks_sort_length l : length (ks_sort l) = length l.
  Proof. apply Permutation_length, ks_sort_perm. Qed.

  Lemma ks_sorted_id l : Sorted ks_le l -> ks_sort l = l.
  Proof.
    induction l as [|x r IH]; intro Hs; [reflexivity|].
    cbn [ks_sort fold_right]. fold (ks_sort r).
    inversion Hs as [|? ? Hr Hhd]; subst. rewrite (IH Hr).
    destruct r as [|y r']; [reflexivity|]. cbn [ks_insert].
    inversion Hhd as [|? ? Hle]; subst. unfold ks_le in Hle. rewrite Hle. reflexivity.
  Qed.

  Hypothesis ltb_irrefl : forall a, ltb a a = false.
  Hypothesis ltb_trans : forall a b c, ltb a b = true -> ltb b c = true -> ltb a c = true.

  Lemma ltb_asym a b : ltb a b = true -> ltb b a = false.
  Proof.
    intro H. destruct (ltb b a) eqn:E; [|reflexivity].
    pose proof (ltb_trans _ _ _ H E) as T. rewrite ltb_irrefl in T. discriminate.
  Qed.

  Lemma ks_insert_hdrel a x l :
    ks_le a x -> HdRel ks_le a l -> HdRel ks_le a (ks_insert x l).
  Proof.
    intros Hax Hl. destruct l as [|y r]; cbn [ks_insert]; [constructor; exact Hax|].
    destruct (ltb (fst y) (fst x)).
    - inversion Hl; subst. constructor. assumption.
    - constructor. exact Hax.
  Qed.

  Lemma ks_insert_sorted x l : Sorted ks_le l -> Sorted ks_le (ks_insert x l).
  Proof.
    induction l as [|y r IH]; intro Hs; cbn [ks_insert].
    - repeat constructor.
    - inversion Hs as [|? ? Hr Hhd]; subst.
      destruct (ltb (fst y) (fst x)) eqn:E.
      + constructor; [apply IH; exact Hr|].
        apply ks_insert_hdrel; [|exact Hhd]. unfold ks_le. apply ltb_asym. exact E.
      + constructor; [exact Hs|]. constructor. exact E.
  Qed.

  Lemma ks_sort_sorted l : Sorted ks_le (ks_sort l).
  Proof.
    induction l as [|x r IH]; cbn [ks_sort fold_right]; [constructor|].
    apply ks_insert_sorted. exact IH.
  Qed.

  Lemma ks_sort_idem l : ks_sort (ks_sort l) = ks_sort l.
  Proof. apply ks_sorted_id, ks_sort_sorted. Qed.

  (** From here on keys are totally ordered: two keys that are not strictly
      ordered either way are equal. *)
  Hypothesis ltb_tri : forall a b, ltb a b = false -> ltb b a = false -> a = b.

  Lemma ks_le_trans x y z : ks_le x y -> ks_le y z -> ks_le x z.
  Proof.
    unfold ks_le. intros Hxy Hyz.
    destruct (ltb (fst z) (fst x)) eqn:E; [|reflexivity].
    destruct (ltb (fst x) (fst y)) eqn:E2.
    - rewrite (ltb_trans _ _ _ E E2) in Hyz. discriminate.
    - assert (fst x = fst y) by (apply ltb_tri; assumption).
      rewrite H in E. congruence.
  Qed.

  Lemma sorted_le_all x l : Sorted ks_le (x :: l) -> Forall (ks_le x) l.
  Proof.
    intro Hs. apply Sorted_StronglySorted in Hs.
    - inversion Hs; assumption.
    - intros a b c. apply ks_le_trans.
  Qed.

  (** Two sorted lists with pairwise distinct keys that are permutations of each
      other are equal. *)
  Lemma sorted_perm_eq l l' :
    NoDup (map fst l) -> Sorted ks_le l -> Sorted ks_le l' -> Permutation l l' -> l = l'.
  Proof.
    revert l'. induction l as [|x r IH]; intros l' Hnd Hs Hs' Hp.
    - apply Permutation_nil in Hp. subst. reflexivity.
    - destruct l' as [|y r']; [apply Permutation_sym, Permutation_nil in Hp; discriminate|].
      assert (Hndl' : NoDup (map fst (y :: r'))).
      { eapply Permutation_NoDup; [apply Permutation_map; exact Hp|exact Hnd]. }
      assert (Hxy : x = y).
      { pose proof (sorted_le_all _ _ Hs) as Hx. pose proof (sorted_le_all _ _ Hs') as Hy.
        assert (Hinx : In x (y :: r')) by (eapply Permutation_in; [exact Hp|left; reflexivity]).
        assert (Hiny : In y (x :: r)) by (eapply Permutation_in; [apply Permutation_sym; exact Hp|left; reflexivity]).
        destruct Hinx as [->|Hinx]; [reflexivity|].
        destruct Hiny as [->|Hiny]; [reflexivity|].
        rewrite Forall_forall in Hx, Hy.
        pose proof (Hx _ Hiny) as H1. pose proof (Hy _ Hinx) as H2.
        unfold ks_le in H1, H2.
        assert (Hk : fst x = fst y) by (apply ltb_tri; assumption).
        exfalso. cbn [map] in Hndl'. inversion Hndl' as [|? ? Hnin _]; subst.
        apply Hnin. rewrite <- Hk. apply in_map. exact Hinx. }
      subst y. f_equal. apply IH.
      + cbn [map] in Hnd. inversion Hnd; assumption.
      + inversion Hs; assumption.
      + inversion Hs'; assumption.
      + eapply Permutation_cons_inv. exact Hp.
  Qed.

  (** Sorting is independent of the input order when keys are distinct. *)
  Lemma ks_sort_perm_unique l l' :
    NoDup (map fst l) -> Permutation l l' -> ks_sort l = ks_sort l'.
  Proof.
    intros Hnd Hp. apply sorted_perm_eq.
    - eapply Permutation_NoDup; [|exact Hnd].
      apply Permutation_map, Permutation_sym, ks_sort_perm.
    - apply ks_sort_sorted.
    - apply ks_sort_sorted.
    - rewrite ks_sort_perm. rewrite Hp. apply Permutation_sym, ks_sort_perm.
  Qed.

  Lemma ks_sort_keys_nodup l : NoDup (map fst l) -> NoDup (map fst (ks_sort l)).
  Proof.
    intro H. eapply Permutation_NoDup; [|exact H].
    apply Permutation_map, Permutation_sym, ks_sort_perm.
  Qed.

  Lemma ks_sort_in x l : In x (ks_sort l) <-> In x l.
  Proof.
    split; intro H.
    - eapply Permutation_in; [apply ks_sort_perm|exact H].
    - eapply Permutation_in; [apply Permutation_sym, ks_sort_perm|exact H].
  Qed.
End KeySort.

(** Lexicographic byte-wise order on strings represented as [list N] — the
    order of Go's [<] on strings. *)
Fixpoint str_ltb (a b : list N) : bool :=
  match a, b with
  | [], [] => false
  | [], _ :: _ => true
  | _ :: _, [] => false
  | x :: a', y :: b' =>
      if (x <? y)%N then true else if (y <? x)%N then false else str_ltb a' b'
  end.

Lemma str_ltb_irrefl a : str_ltb a a = false.
Proof.
  induction a as [|x a IH]; cbn [str_ltb]; [reflexivity|].
  rewrite N.ltb_irrefl. exact IH.
Qed.

Lemma str_ltb_trans a b c : str_ltb a b = true -> str_ltb b c = true -> str_ltb a c = true.
Proof.
  revert b c. induction a as [|x a IH]; intros [|y b] [|z c]; cbn [str_ltb];
    try congruence; try reflexivity.
  destruct (x <? y)%N eqn:Exy.
  - intros _. destruct (y <? z)%N eqn:Eyz.
    + intros _. assert (x <? z = true)%N by lia. rewrite H. reflexivity.
    + destruct (z <? y)%N eqn:Ezy; [discriminate|]. intros _.
      assert (x <? z = true)%N by lia. rewrite H. reflexivity.
  - destruct (y <? x)%N eqn:Eyx; [discriminate|]. intro Hab.
    assert (x = y) by lia. subst y.
    destruct (x <? z)%N eqn:Exz; [reflexivity|].
    destruct (z <? x)%N eqn:Ezx; [discriminate|]. intro Hbc. eapply IH; eauto.
Qed.

Lemma str_ltb_tri a b : str_ltb a b = false -> str_ltb b a = false -> a = b.
Proof.
  revert b. induction a as [|x a IH]; intros [|y b]; cbn [str_ltb]; try congruence.
  destruct (x <? y)%N eqn:Exy; [discriminate|].
  destruct (y <? x)%N eqn:Eyx; [discriminate|].
  intros H1 H2. assert (x = y) by lia. subst. f_equal. apply IH; assumption.
Qed.

Lemma N_ltb_trans a b c : (a <? b)%N = true -> (b <? c)%N = true -> (a <? c)%N = true.
Proof. lia. Qed.

Lemma N_ltb_tri a b : (a <? b)%N = false -> (b <? a)%N = false -> a = b.
Proof. lia. Qed.
