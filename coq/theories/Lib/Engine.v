(** Shared executable model of the serial event engine of /repo/timing:
      eventqueue.go  — [eventHeap] (list-backed binary min-heap, same index arithmetic,
                       [up]/[down]/[popHeap]) and [unsafeEventQueue] (heap + [nextSeq]);
      serialengine.go — [Schedule], [nextEvent], [nextEventTime], [dispatchNext], [Run], [RunUntil].
    Definitions only; lemmas are in Lib/EngineProofs.v.  Used by C01, C02 (and meant for C06/C09/C12/C13).

    Conventions
    - the event type [E] is a Section variable with its two observable projections
      [etime] (Event.Time) and [esec] (Event.IsSecondary);
    - a queued event is [(e, seq)] exactly as [queuedEvent]; [nextSeq] is an unbounded [N]
      (a wrap needs 2^64 pushes into one queue: out of scope, stated as an assumption);
    - heap indices are [nat]; list accesses are [nth_error]; the branches in which an index would be
      out of range (a Go run-time panic) return the heap unchanged and are unreachable, see
      [EngineProofs.up_ok]/[down_ok]/[hpop_spec]: every caller passes [i < length h];
    - [log.Panic] is an explicit outcome. *)
From Akita Require Import Lib.Base.

(* ------------------------------------------------------------------ eventHeap *)
Section Heap.
  Context {T : Type} (less : T -> T -> bool).

  (** h[i] = x (no change when [i] is out of range) *)
  Fixpoint upd (h : list T) (i : nat) (x : T) : list T :=
    match h, i with
    | [], _ => []
    | _ :: r, O => x :: r
    | y :: r, S j => y :: upd r j x
    end.

  Definition par (i : nat) : nat := ((i - 1) / 2)%nat.

  (** eventHeap.up: [for i > 0 { parent := (i-1)/2; if !less(i,parent) {break}; swap; i = parent }] *)
  Fixpoint up (fuel : nat) (h : list T) (i : nat) : list T :=
    match fuel with
    | O => h
    | S f =>
        if Nat.eqb i 0 then h else
        let p := par i in
        match nth_error h i, nth_error h p with
        | Some a, Some b => if less a b then up f (upd (upd h i b) p a) p else h
        | _, _ => h
        end
    end.

  (** eventHeap.down(i, n) *)
  Fixpoint down (fuel : nat) (h : list T) (i n : nat) : list T :=
    match fuel with
    | O => h
    | S f =>
        let l := (2 * i + 1)%nat in
        if Nat.leb n l then h else
        let r := (l + 1)%nat in
        match nth_error h l, nth_error h i with
        | Some lv, Some iv =>
            let '(s, sv) :=
              match nth_error h r with
              | Some rv => if Nat.ltb r n && less rv lv then (r, rv) else (l, lv)
              | None => (l, lv)
              end in
            if less sv iv then down f (upd (upd h i sv) s iv) s n else h
        | _, _ => h
        end
    end.

  (** append + up(len-1) *)
  Definition hpush (h : list T) (x : T) : list T :=
    let h1 := h ++ [x] in up (length h1) h1 (length h1 - 1).

  (** popHeap; [None] is the index-out-of-range panic of [events[0]] on an empty heap *)
  Definition hpop (h : list T) : option (T * list T) :=
    match h with
    | [] => None
    | root :: _ =>
        match nth_error h (length h - 1) with
        | None => None
        | Some lastv =>
            let h1 := removelast (upd h 0 lastv) in
            Some (root, if Nat.ltb 0 (length h1) then down (length h1) h1 0 (length h1) else h1)
        end
    end.

  Definition hpeek (h : list T) : option T := nth_error h 0.

  (** all pops in order (used to state "the heap refines the sorted list") *)
  Fixpoint hdrain (fuel : nat) (h : list T) : list T :=
    match fuel with
    | O => []
    | S f => match hpop h with None => [] | Some (x, h') => x :: hdrain f h' end
    end.

  (** abstract specification: sorted insertion (after every element that is not greater) *)
  Fixpoint sins (x : T) (l : list T) : list T :=
    match l with
    | [] => [x]
    | y :: r => if less x y then x :: l else y :: sins x r
    end.
End Heap.

(* ------------------------------------------------------------------ queues and engine *)
Section Engine.
  Context {E : Type} (etime : E -> N) (esec : E -> bool).
  Local Open Scope N_scope.

  Definition qev : Type := (E * N)%type.           (* queuedEvent{event, seq} *)
  Definition qtime (x : qev) : N := etime (fst x).
  Definition qseq (x : qev) : N := snd x.
  Definition qsec (x : qev) : bool := esec (fst x).

  (** eventHeap.less *)
  Definition qless (a b : qev) : bool :=
    if negb (qtime a =? qtime b) then qtime a <? qtime b else qseq a <? qseq b.

  Record queue := mkq { q_heap : list qev; q_next : N }.   (* unsafeEventQueue *)

  Definition q_empty : queue := mkq [] 0.
  Definition q_push (q : queue) (e : E) : queue :=
    mkq (hpush qless (q_heap q) (e, q_next q)) (q_next q + 1).
  Definition q_pop (q : queue) : option (qev * queue) :=
    match hpop qless (q_heap q) with
    | None => None
    | Some (x, h') => Some (x, mkq h' (q_next q))
    end.
  Definition q_len (q : queue) : nat := length (q_heap q).
  Definition q_peek (q : queue) : option qev := hpeek (q_heap q).

  Record engine := mke { e_now : N; e_p : queue; e_s : queue }.   (* time, queue, secondaryQueue *)

  Definition new_engine : engine := mke 0 q_empty q_empty.

  (** SetCurrentTime *)
  Definition set_current_time (en : engine) (t : N) : engine := mke t (e_p en) (e_s en).

  (** Schedule; [None] = log.Panic("scheduling an event earlier than current time").
      The second component is the queued entry (event with the sequence number it got). *)
  Definition schedule (en : engine) (e : E) : option (engine * qev) :=
    if etime e <? e_now en then None
    else if esec e
         then Some (mke (e_now en) (e_p en) (q_push (e_s en) e), (e, q_next (e_s en)))
         else Some (mke (e_now en) (q_push (e_p en) e) (e_s en), (e, q_next (e_p en))).

  (** a handler body's Schedule calls, in order; stops at the first panic.
      Result: engine, entries queued so far, [true] iff all calls returned. *)
  Fixpoint schedule_all (en : engine) (es : list E) : engine * list qev * bool :=
    match es with
    | [] => (en, [], true)
    | e :: r =>
        match schedule en e with
        | None => (en, [], false)
        | Some (en1, x) => let '(en2, xs, ok) := schedule_all en1 r in (en2, x :: xs, ok)
        end
    end.

  Definition no_more_event (en : engine) : bool :=
    Nat.eqb (q_len (e_p en)) 0 && Nat.eqb (q_len (e_s en)) 0.

  (** nextEvent.  [None] only if the chosen queue is empty (index panic), which the callers exclude. *)
  Definition next_event (en : engine) : option (qev * engine) :=
    if Nat.eqb (q_len (e_p en)) 0 then
      match q_pop (e_s en) with
      | Some (x, s') => Some (x, mke (e_now en) (e_p en) s') | None => None end
    else if Nat.eqb (q_len (e_s en)) 0 then
      match q_pop (e_p en) with
      | Some (x, p') => Some (x, mke (e_now en) p' (e_s en)) | None => None end
    else
      match q_peek (e_p en), q_peek (e_s en) with
      | Some pe, Some se =>
          if qtime pe <=? qtime se then
            match q_pop (e_p en) with
            | Some (x, p') => Some (x, mke (e_now en) p' (e_s en)) | None => None end
          else
            match q_pop (e_s en) with
            | Some (x, s') => Some (x, mke (e_now en) (e_p en) s') | None => None end
      | _, _ => None
      end.

  (** nextEventTime *)
  Definition next_event_time (en : engine) : option N :=
    if Nat.eqb (q_len (e_p en)) 0 then option_map qtime (q_peek (e_s en))
    else if Nat.eqb (q_len (e_s en)) 0 then option_map qtime (q_peek (e_p en))
    else
      match q_peek (e_p en), q_peek (e_s en) with
      | Some pe, Some se => Some (if qtime pe <=? qtime se then qtime pe else qtime se)
      | _, _ => None
      end.

  (* ---------------------------------------------------------------- handlers and the run loops *)
  Context {HS : Type}.
  (** One handler program: the state of all handlers, the event being handled -> new state and
      the events it passes to Schedule, in call order. (During the call CurrentTime() = etime e.) *)
  Variable H : HS -> E -> HS * list E.

  (** one iteration of the loop: the handled entry, what it scheduled, whether the handler returned *)
  Record step := mk_step { st_ev : qev; st_now : N; st_sched : list qev; st_ok : bool }.

  Inductive dres :=
  | DNone                                  (* nextEvent on empty queues: cannot happen from Run/RunUntil *)
  | DPast (x : qev) (en : engine)          (* log.Panicf("cannot run event in the past") *)
  | DStep (s : step) (hs : HS) (en : engine).

  (** dispatchNext *)
  Definition dispatch_next (hs : HS) (en : engine) : dres :=
    match next_event en with
    | None => DNone
    | Some (x, en1) =>
        if qtime x <? e_now en1 then DPast x en1 else
        let en2 := mke (qtime x) (e_p en1) (e_s en1) in
        let '(hs', out) := H hs (fst x) in
        let '(en3, xs, ok) := schedule_all en2 out in
        DStep (mk_step x (qtime x) xs ok) hs' en3
    end.

  Inductive outcome := Done | OutOfFuel | Panicked.

  Record result := mk_result { r_out : outcome; r_log : list step; r_hs : HS; r_en : engine }.

  Definition cons_log (s : step) (r : result) : result :=
    mk_result (r_out r) (s :: r_log r) (r_hs r) (r_en r).

  (** Run *)
  Fixpoint run (fuel : nat) (hs : HS) (en : engine) : result :=
    match fuel with
    | O => mk_result (if no_more_event en then Done else OutOfFuel) [] hs en
    | S f =>
        if no_more_event en then mk_result Done [] hs en else
        match dispatch_next hs en with
        | DNone => mk_result Panicked [] hs en
        | DPast _ en1 => mk_result Panicked [] hs en1
        | DStep s hs' en' =>
            if st_ok s then cons_log s (run f hs' en') else mk_result Panicked [s] hs' en'
        end
    end.

  (** the RunUntil exit test [e.nextEventTime() > t] *)
  Definition beyond (t : N) (en : engine) : bool :=
    match next_event_time en with Some nt => t <? nt | None => false end.

  (** RunUntil(t) *)
  Fixpoint run_until (t : N) (fuel : nat) (hs : HS) (en : engine) : result :=
    match fuel with
    | O => mk_result (if no_more_event en || beyond t en then Done else OutOfFuel) [] hs en
    | S f =>
        if no_more_event en then mk_result Done [] hs en else
        if beyond t en then mk_result Done [] hs en else
        match dispatch_next hs en with
        | DNone => mk_result Panicked [] hs en
        | DPast _ en1 => mk_result Panicked [] hs en1
        | DStep s hs' en' =>
            if st_ok s then cons_log s (run_until t f hs' en') else mk_result Panicked [s] hs' en'
        end
    end.

  (** a driver program: RunUntil b1; ...; RunUntil bk; Run.  Stops at the first call that does not
      return normally.  Result: one result per call made. *)
  Fixpoint run_segments (bs : list N) (fuel : nat) (hs : HS) (en : engine) : list result :=
    match bs with
    | [] => [run fuel hs en]
    | b :: r =>
        let x := run_until b fuel hs en in
        match r_out x with
        | Done => x :: run_segments r fuel (r_hs x) (r_en x)
        | _ => [x]
        end
    end.

  (** pending entries (both queues) *)
  Definition pending (en : engine) : list qev := q_heap (e_p en) ++ q_heap (e_s en).
  Definition handled (l : list step) : list qev := map st_ev l.
  Definition scheduled (l : list step) : list qev := flat_map st_sched l.
End Engine.
