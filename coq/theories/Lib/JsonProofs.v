(** Lib/JsonProofs — facts about the encoding/json model of Lib/Json.v; the central one is
    [lossless_sound]: a value of a [lossless] type survives [decode (encode v)]. *)
From Akita Require Import Lib.Base Lib.Json.
From Coq Require Import DecimalN.
Local Open Scope N_scope.

(* ------------------------------------------------------------------ byte strings *)

Lemma bytes_eqb_eq a b : bytes_eqb a b = true <-> a = b.
Proof. apply list_eqb_eq. intros x y. apply N.eqb_eq. Qed.

Lemma bytes_eqb_refl a : bytes_eqb a a = true.
Proof. apply bytes_eqb_eq. reflexivity. Qed.

Lemma bytes_eqb_neq a b : bytes_eqb a b = false <-> a <> b.
Proof.
  split.
  - intros H E. apply bytes_eqb_eq in E. congruence.
  - intros H. destruct (bytes_eqb a b) eqn:E; [|reflexivity]. apply bytes_eqb_eq in E. contradiction.
Qed.

Lemma bytes_eqb_sym a b : bytes_eqb a b = bytes_eqb b a.
Proof.
  destruct (bytes_eqb a b) eqn:E.
  - apply bytes_eqb_eq in E. subst. symmetry. apply bytes_eqb_refl.
  - symmetry. apply bytes_eqb_neq. apply bytes_eqb_neq in E. congruence.
Qed.

Lemma bytes_ltb_irrefl a : bytes_ltb a a = false.
Proof.
  induction a as [|x a IH]; cbn [bytes_ltb]; [reflexivity|].
  rewrite N.ltb_irrefl. exact IH.
Qed.

Lemma bytes_ltb_trans a b c : bytes_ltb a b = true -> bytes_ltb b c = true -> bytes_ltb a c = true.
Proof.
  revert b c; induction a as [|x a IH]; intros [|y b] [|z c]; cbn [bytes_ltb]; try congruence.
  destruct (x <? y) eqn:Exy; destruct (y <? x) eqn:Eyx;
  destruct (y <? z) eqn:Eyz; destruct (z <? y) eqn:Ezy;
  destruct (x <? z) eqn:Exz; destruct (z <? x) eqn:Ezx; try congruence; try lia.
  apply IH.
Qed.

Lemma bytes_ltb_neq a b : bytes_ltb a b = true -> bytes_eqb a b = false.
Proof.
  intros H. apply bytes_eqb_neq. intros ->. rewrite bytes_ltb_irrefl in H. discriminate.
Qed.

Lemma bytes_ltb_asym a b : bytes_ltb a b = true -> bytes_ltb b a = false.
Proof.
  intros H. destruct (bytes_ltb b a) eqn:E; [|reflexivity].
  pose proof (bytes_ltb_trans _ _ _ H E) as T. rewrite bytes_ltb_irrefl in T. discriminate.
Qed.

(* ------------------------------------------------------------------ decimal text *)

Lemma bytes_uint_bytes u : bytes_uint (uint_bytes u) = Some u.
Proof. induction u; cbn [uint_bytes bytes_uint]; try rewrite IHu; reflexivity. Qed.

Lemma undec_dec_N n : undec_N (dec_N n) = Some n.
Proof.
  unfold dec_N, undec_N.
  destruct (uint_bytes (N.to_uint n)) as [|c r] eqn:E.
  - cbn. destruct (N.to_uint n) eqn:En; try discriminate.
    pose proof (Unsigned.of_to n) as H. rewrite En in H. cbn in H. subst. reflexivity.
  - rewrite <- E. rewrite bytes_uint_bytes. cbn [option_map]. rewrite Unsigned.of_to. reflexivity.
Qed.

Lemma dec_N_head n : match dec_N n with 45 :: _ => False | [] => False | _ => True end.
Proof.
  unfold dec_N. destruct (N.to_uint n); cbn; exact I.
Qed.

Lemma undec_Z_nonneg s :
  match s with 45 :: _ => False | _ => True end ->
  undec_Z s = option_map Z.of_N (undec_N s).
Proof.
  intros H. destruct s as [|c r]; [reflexivity|].
  destruct c as [|p]; [reflexivity|].
  do 6 (destruct p as [p|p|]; try reflexivity). contradiction.
Qed.

Lemma undec_dec_Z z : undec_Z (dec_Z z) = Some z.
Proof.
  unfold dec_Z. destruct (z <? 0)%Z eqn:E.
  - cbn [undec_Z]. rewrite undec_dec_N. cbn [option_map]. f_equal.
    apply Z.ltb_lt in E. rewrite Z2N.id by lia. lia.
  - rewrite undec_Z_nonneg.
    + rewrite undec_dec_N. cbn [option_map]. f_equal. apply Z.ltb_ge in E. rewrite Z2N.id by lia. reflexivity.
    + pose proof (dec_N_head (Z.to_N z)) as H.
      destruct (dec_N (Z.to_N z)) as [|c r]; [exact I|].
      destruct c as [|p]; [exact I|].
      do 6 (destruct p as [p|p|]; try exact I). exact H.
Qed.

Lemma dec_Z_inj a b : dec_Z a = dec_Z b -> a = b.
Proof.
  intros H. pose proof (undec_dec_Z a) as Ha. rewrite H, undec_dec_Z in Ha. congruence.
Qed.

(* ------------------------------------------------------------------ base64 *)

Lemma b64v_b64c s : s < 64 -> b64v (b64c s) = Some s.
Proof.
  intros H. unfold b64c.
  destruct (s <? 26) eqn:E1.
  { unfold b64v, rng. replace ((65 <=? 65 + s) && (65 + s <=? 90)) with true by lia. f_equal. lia. }
  destruct (s <? 52) eqn:E2.
  { unfold b64v, rng. replace ((65 <=? 97 + (s - 26)) && (97 + (s - 26) <=? 90)) with false by lia.
    replace ((97 <=? 97 + (s - 26)) && (97 + (s - 26) <=? 122)) with true by lia. f_equal. lia. }
  destruct (s <? 62) eqn:E3.
  { unfold b64v, rng. replace ((65 <=? 48 + (s - 52)) && (48 + (s - 52) <=? 90)) with false by lia.
    replace ((97 <=? 48 + (s - 52)) && (48 + (s - 52) <=? 122)) with false by lia.
    replace ((48 <=? 48 + (s - 52)) && (48 + (s - 52) <=? 57)) with true by lia. f_equal. lia. }
  destruct (s =? 62) eqn:E4.
  { apply N.eqb_eq in E4. subst. reflexivity. }
  assert (s = 63) by lia. subst. reflexivity.
Qed.

Lemma b64c_not_pad s : s < 64 -> (b64c s =? 61) = false.
Proof.
  intros H. pose proof (b64v_b64c s H) as V.
  destruct (b64c s =? 61) eqn:E; [|reflexivity].
  apply N.eqb_eq in E. rewrite E in V. discriminate.
Qed.

Definition is_byte (b : N) : Prop := b < 256.

Lemma b64_1 a : is_byte a -> b64dec (b64enc [a]) = Some [a].
Proof.
  unfold is_byte. intros Ha. cbn [b64enc b64dec].
  rewrite !b64v_b64c by lia. cbn [N.eqb Pos.eqb is_nil andb]. f_equal. f_equal. lia.
Qed.

Lemma b64_2 a b : is_byte a -> is_byte b -> b64dec (b64enc [a; b]) = Some [a; b].
Proof.
  unfold is_byte. intros Ha Hb. cbn [b64enc b64dec].
  rewrite !b64v_b64c by lia. rewrite b64c_not_pad by lia.
  cbn [N.eqb Pos.eqb is_nil andb]. f_equal. f_equal; [lia|]. f_equal. lia.
Qed.

Lemma b64_3 a b c r t :
  is_byte a -> is_byte b -> is_byte c -> b64dec (b64enc r) = Some t ->
  b64dec (b64enc (a :: b :: c :: r)) = Some (a :: b :: c :: t).
Proof.
  unfold is_byte. intros Ha Hb Hc Hr. cbn [b64enc]. cbn [b64dec].
  rewrite !b64v_b64c by lia. rewrite !b64c_not_pad by lia.
  fold b64dec. rewrite Hr. f_equal. f_equal; [lia|]. f_equal; [lia|]. f_equal. lia.
Qed.

Lemma b64_roundtrip l : Forall is_byte l -> b64dec (b64enc l) = Some l.
Proof.
  assert (H : forall l, (Forall is_byte l -> b64dec (b64enc l) = Some l) /\
                        (forall a, Forall is_byte (a :: l) -> b64dec (b64enc (a :: l)) = Some (a :: l)) /\
                        (forall a b, Forall is_byte (a :: b :: l) ->
                                     b64dec (b64enc (a :: b :: l)) = Some (a :: b :: l))).
  { clear l. induction l as [|x l IH].
    - split; [reflexivity|]. split.
      + intros a Ha. inversion Ha; subst. apply b64_1; assumption.
      + intros a b Hab. inversion Hab as [|? ? Ha Hb']; subst. inversion Hb'; subst.
        apply b64_2; assumption.
    - destruct IH as (I0 & I1 & I2). split; [apply I1|]. split; [intros a; apply I2|].
      intros a b Hab. inversion Hab as [|? ? Ha Hb']; subst.
      inversion Hb' as [|? ? Hb Hx']; subst. inversion Hx' as [|? ? Hx Hl]; subst.
      apply b64_3; try assumption. apply I0. exact Hl. }
  apply H.
Qed.

(* ------------------------------------------------------------------ induction on types *)

Section TyInd.
  Variable P : ty -> Prop.
  Hypothesis HBool : P TBool.
  Hypothesis HInt : forall k, P (TInt k).
  Hypothesis HFloat : forall b, P (TFloat b).
  Hypothesis HString : P TString.
  Hypothesis HSlice : forall e, P e -> P (TSlice e).
  Hypothesis HArray : forall n e, P e -> P (TArray n e).
  Hypothesis HMap : forall k e, P e -> P (TMap k e).
  Hypothesis HStruct : forall fs, Forall (fun f => P (snd f)) fs -> P (TStruct fs).
  Hypothesis HCustom : forall c d, P d -> P (TCustom c d).
  Hypothesis HOpaque : forall u, P u -> P (TOpaque u).
  Hypothesis HOther : forall k, P (TOther k).

  Fixpoint ty_ind2 (t : ty) : P t :=
    match t with
    | TBool => HBool
    | TInt k => HInt k
    | TFloat b => HFloat b
    | TString => HString
    | TSlice e => HSlice e (ty_ind2 e)
    | TArray n e => HArray n e (ty_ind2 e)
    | TMap k e => HMap k e (ty_ind2 e)
    | TStruct fs =>
        HStruct fs
          ((fix go (fs : list (finfo * ty)) : Forall (fun f => P (snd f)) fs :=
              match fs with
              | [] => Forall_nil _
              | f :: r => Forall_cons f (ty_ind2 (snd f)) (go r)
              end) fs)
    | TCustom c d => HCustom c d (ty_ind2 d)
    | TOpaque u => HOpaque u (ty_ind2 u)
    | TOther k => HOther k
    end.
End TyInd.

(* ------------------------------------------------------------------ value_eqb decides equality *)

Section ValInd.
  Variable P : value -> Prop.
  Hypothesis HBool : forall b, P (VBool b).
  Hypothesis HInt : forall z, P (VInt z).
  Hypothesis HFloat : forall t, P (VFloat t).
  Hypothesis HStr : forall s, P (VStr s).
  Hypothesis HSliceN : P (VSlice None).
  Hypothesis HSlice : forall l, Forall P l -> P (VSlice (Some l)).
  Hypothesis HArr : forall l, Forall P l -> P (VArr l).
  Hypothesis HMapN : P (VMap None).
  Hypothesis HMap : forall m, Forall (fun kv => P (snd kv)) m -> P (VMap (Some m)).
  Hypothesis HStruct : forall l, Forall P l -> P (VStruct l).
  Hypothesis HCustom : forall v, P v -> P (VCustom v).
  Hypothesis HSkip : P VSkip.
  Hypothesis HOther : P VOther.

  Fixpoint value_ind2 (v : value) : P v :=
    let fix go (l : list value) : Forall P l :=
        match l with
        | [] => Forall_nil _
        | x :: r => Forall_cons x (value_ind2 x) (go r)
        end in
    match v with
    | VBool b => HBool b
    | VInt z => HInt z
    | VFloat t => HFloat t
    | VStr s => HStr s
    | VSlice None => HSliceN
    | VSlice (Some l) => HSlice l (go l)
    | VArr l => HArr l (go l)
    | VMap None => HMapN
    | VMap (Some m) =>
        HMap m ((fix gom (m : list (mkey * value)) : Forall (fun kv => P (snd kv)) m :=
                   match m with
                   | [] => Forall_nil _
                   | kv :: r => Forall_cons kv (value_ind2 (snd kv)) (gom r)
                   end) m)
    | VStruct l => HStruct l (go l)
    | VCustom x => HCustom x (value_ind2 x)
    | VSkip => HSkip
    | VOther => HOther
    end.
End ValInd.

Fixpoint values_eqb (x y : list value) : bool :=
  match x, y with
  | [], [] => true
  | a :: x', b :: y' => value_eqb a b && values_eqb x' y'
  | _, _ => false
  end.

Lemma values_eqb_eq x :
  Forall (fun a => forall b, value_eqb a b = true -> a = b) x ->
  forall y, values_eqb x y = true -> x = y.
Proof.
  induction 1 as [|a x Ha Hx IH]; intros [|b y] H; try discriminate; [reflexivity|].
  cbn [values_eqb] in H. apply andb_true_iff in H. destruct H as [H1 H2].
  rewrite (Ha b H1), (IH y H2). reflexivity.
Qed.

Lemma mkey_eqb_eq a b : mkey_eqb a b = true -> a = b.
Proof.
  destruct a, b; cbn [mkey_eqb]; try discriminate; intros H.
  - apply bytes_eqb_eq in H. subst. reflexivity.
  - apply Z.eqb_eq in H. subst. reflexivity.
Qed.

Lemma value_eqb_eq a : forall b, value_eqb a b = true -> a = b.
Proof.
  induction a using value_ind2; intros b0 E; destruct b0; try discriminate E;
    try (destruct l0; discriminate E); try (destruct m0; discriminate E).
  - cbn in E. apply Bool.eqb_prop in E. subst. reflexivity.
  - cbn in E. apply Z.eqb_eq in E. subst. reflexivity.
  - cbn in E. apply bytes_eqb_eq in E. subst. reflexivity.
  - cbn in E. apply bytes_eqb_eq in E. subst. reflexivity.
  - destruct l; [discriminate E|reflexivity].
  - destruct l0 as [l0|]; [|discriminate E]. f_equal. f_equal.
    apply (values_eqb_eq l H). exact E.
  - f_equal. apply (values_eqb_eq l H). exact E.
  - destruct m; [discriminate E|reflexivity].
  - destruct m0 as [m0|]; [|discriminate E]. f_equal. f_equal.
    cbn [value_eqb] in E. revert m0 E.
    induction H as [|[k a] m Ha Hm IH]; intros [|[k' b] m0] E; try discriminate; [reflexivity|].
    apply andb_true_iff in E. destruct E as [E1 E3]. apply andb_true_iff in E1. destruct E1 as [E1 E2].
    cbn [snd] in Ha. rewrite (mkey_eqb_eq _ _ E1), (Ha _ E2), (IH _ E3). reflexivity.
  - f_equal. apply (values_eqb_eq l H). exact E.
  - cbn [value_eqb] in E. rewrite (IHa _ E). reflexivity.
  - reflexivity.
  - reflexivity.
Qed.

Lemma value_eqb_refl a : value_eqb a a = true.
Proof.
  induction a using value_ind2; cbn [value_eqb]; try reflexivity.
  - destruct b; reflexivity.
  - apply Z.eqb_refl.
  - apply bytes_eqb_refl.
  - apply bytes_eqb_refl.
  - induction H as [|a l Ha Hl IH]; [reflexivity|]. rewrite Ha. exact IH.
  - induction H as [|a l Ha Hl IH]; [reflexivity|]. rewrite Ha. exact IH.
  - induction H as [|[k a] l Ha Hl IH]; [reflexivity|]. cbn [snd] in Ha. rewrite Ha.
    replace (mkey_eqb k k) with true; [exact IH|].
    destruct k; cbn [mkey_eqb]; [symmetry; apply bytes_eqb_refl|symmetry; apply Z.eqb_refl].
  - induction H as [|a l Ha Hl IH]; [reflexivity|]. rewrite Ha. exact IH.
  - exact IHa.
Qed.

(* ------------------------------------------------------------------ named field loops *)

Fixpoint flat_fields (d : nat) (cur : list nat) (i : nat) (fs : list (finfo * ty)) : list flat :=
  match fs with
  | [] => []
  | (fi, ft) :: fs' =>
      (if expands fi ft then flat_ty (S d) (cur ++ [i]) ft
       else if candidate fi then [mkFlat (jname fi) d (has_tagname fi) (cur ++ [i])]
       else []) ++ flat_fields d cur (S i) fs'
  end.

Lemma flat_ty_struct d cur fs : flat_ty d cur (TStruct fs) = flat_fields d cur 0 fs.
Proof.
  cbn [flat_ty]. generalize 0%nat.
  induction fs as [|[fi ft] fs IH]; intros i; [reflexivity|].
  cbn [flat_fields]. rewrite <- IH. reflexivity.
Qed.

Fixpoint enc_fields (fl : list flat) (d : nat) (cur : list nat) (i : nat)
         (fs : list (finfo * ty)) (vs : list value) : list (bytes * json) :=
  match fs, vs with
  | (fi, ft) :: fs', x :: vs' =>
      (if expands fi ft
       then members (enc (Some (fl, S d, cur ++ [i])) ft x)
       else if candidate fi && live fl (jname fi) (cur ++ [i])
               && negb (f_omitempty fi && is_empty x)
               && negb (f_omitzero fi && value_eqb x (zero ft))
            then [(jname fi, enc None ft x)]
            else []) ++ enc_fields fl d cur (S i) fs' vs'
  | _, _ => []
  end.

Lemma enc_struct cx fs vs :
  enc cx (TStruct fs) (VStruct vs) =
  let '(fl, d, cur) := ctx_of cx (TStruct fs) in JObj (enc_fields fl d cur 0 fs vs).
Proof.
  cbn [enc]. destruct (ctx_of cx (TStruct fs)) as [[fl d] cur]. f_equal.
  generalize 0%nat. revert vs.
  induction fs as [|[fi ft] fs IH]; intros vs i; [reflexivity|].
  destruct vs as [|x vs]; [reflexivity|].
  cbn [enc_fields]. rewrite <- IH. reflexivity.
Qed.

Fixpoint dec_fields (fl : list flat) (d : nat) (cur : list nat) (j : json)
         (i : nat) (fs : list (finfo * ty)) : option (list value) :=
  match fs with
  | [] => Some []
  | (fi, ft) :: fs' =>
      match
        (if f_skip fi then Some VSkip
         else if expands fi ft then dec (Some (fl, S d, cur ++ [i])) ft j
         else if candidate fi && live fl (jname fi) (cur ++ [i])
         then match assoc (jname fi) (members j) with
              | Some j' => dec None ft j'
              | None => Some (zero ft)
              end
         else Some (zero ft)),
        dec_fields fl d cur j (S i) fs'
      with
      | Some a, Some b => Some (a :: b)
      | _, _ => None
      end
  end.

Lemma dec_struct cx fs ms :
  dec cx (TStruct fs) (JObj ms) =
  let '(fl, d, cur) := ctx_of cx (TStruct fs) in
  option_map VStruct (dec_fields fl d cur (JObj ms) 0 fs).
Proof.
  cbn [dec]. destruct (ctx_of cx (TStruct fs)) as [[fl d] cur]. f_equal.
  generalize 0%nat.
  induction fs as [|[fi ft] fs IH]; intros i; [reflexivity|].
  cbn [dec_fields members]. rewrite <- IH. reflexivity.
Qed.

Fixpoint wf_fields (fs : list (finfo * ty)) (vs : list value) : bool :=
  match fs, vs with
  | [], [] => true
  | (fi, ft) :: fs', x :: vs' =>
      (if f_skip fi then match x with VSkip => true | _ => false end else wf ft x)
      && wf_fields fs' vs'
  | _, _ => false
  end.

Lemma wf_struct fs vs : wf (TStruct fs) (VStruct vs) = wf_fields fs vs.
Proof.
  cbn [wf]. revert vs.
  induction fs as [|[fi ft] fs IH]; intros [|x vs]; reflexivity.
Qed.

Fixpoint lossless_fields (fs : list (finfo * ty)) : bool :=
  match fs with
  | [] => true
  | (fi, ft) :: fs' =>
      (if f_skip fi then true
       else if expands fi ft then lossless_at true ft
       else f_exported fi && negb (f_quoted fi)
            && (negb (f_omitempty fi) || omit_safe ft)
            && lossless_at false ft)
      && lossless_fields fs'
  end.

Lemma lossless_struct emb fs :
  lossless_at emb (TStruct fs) =
  (emb || nodup_bytes (map fl_name (flat_ty 0 [] (TStruct fs)))) && lossless_fields fs.
Proof.
  reflexivity.
Qed.

(* ------------------------------------------------------------------ association lists *)

Definition keys (ms : list (bytes * json)) : list bytes := map fst ms.
Definition names (fl : list flat) : list bytes := map fl_name fl.

Lemma assoc_app k a b :
  assoc k (a ++ b) = match assoc k a with Some j => Some j | None => assoc k b end.
Proof.
  induction a as [|[k' j] a IH]; cbn [assoc app]; [reflexivity|].
  destruct (bytes_eqb k' k); [reflexivity|exact IH].
Qed.

Lemma assoc_notin k a : ~ In k (keys a) -> assoc k a = None.
Proof.
  induction a as [|[k' j] a IH]; cbn [assoc keys map fst]; intros H; [reflexivity|].
  destruct (bytes_eqb k' k) eqn:E.
  - apply bytes_eqb_eq in E. subst. exfalso. apply H. left. reflexivity.
  - apply IH. intros Hin. apply H. right. exact Hin.
Qed.

Lemma keys_app a b : keys (a ++ b) = keys a ++ keys b.
Proof. apply map_app. Qed.

Lemma names_app a b : names (a ++ b) = names a ++ names b.
Proof. apply map_app. Qed.

Lemma existsb_bytes_false x l : existsb (bytes_eqb x) l = false -> ~ In x l.
Proof.
  induction l as [|y l IH]; cbn [existsb]; intros H Hin; [destruct Hin|].
  apply orb_false_iff in H. destruct H as [H1 H2]. destruct Hin as [->|Hin].
  - rewrite bytes_eqb_refl in H1. discriminate.
  - exact (IH H2 Hin).
Qed.

Lemma nodup_bytes_NoDup l : nodup_bytes l = true -> NoDup l.
Proof.
  induction l as [|x l IH]; cbn [nodup_bytes]; intros H; [constructor|].
  apply andb_true_iff in H. destruct H as [H1 H2]. constructor.
  - apply existsb_bytes_false. apply negb_true_iff. exact H1.
  - exact (IH H2).
Qed.

Lemma NoDup_app_l {A} (a b : list A) : NoDup (a ++ b) -> NoDup a.
Proof.
  induction a as [|x a IH]; cbn; intros H; [constructor|].
  inversion H as [|? ? Hx Hr]; subst. constructor.
  - intros Hin. apply Hx. apply in_or_app. left. exact Hin.
  - exact (IH Hr).
Qed.

Lemma NoDup_app_r {A} (a b : list A) : NoDup (a ++ b) -> NoDup b.
Proof.
  induction a as [|x a IH]; cbn; intros H; [exact H|].
  inversion H; subst. auto.
Qed.

Lemma NoDup_app_disj {A} (a b : list A) x : NoDup (a ++ b) -> In x a -> ~ In x b.
Proof.
  induction a as [|y a IH]; cbn; intros H Hin Hb; [destruct Hin|].
  inversion H as [|? ? Hy Hr]; subst. destruct Hin as [->|Hin].
  - apply Hy. apply in_or_app. right. exact Hb.
  - exact (IH Hr Hin Hb).
Qed.

(* ------------------------------------------------------------------ dominant fields *)

Lemma path_eqb_refl p : path_eqb p p = true.
Proof.
  apply list_eqb_eq; [|reflexivity]. intros x y. apply Nat.eqb_eq.
Qed.

Lemma filter_none {A} (f : A -> bool) l : (forall x, In x l -> f x = false) -> filter f l = [].
Proof.
  induction l as [|y l IH]; cbn [filter]; intros H; [reflexivity|].
  rewrite (H y (or_introl eq_refl)). apply IH. intros x Hx. apply H. right. exact Hx.
Qed.

Lemma filter_name_unique fl f :
  NoDup (names fl) -> In f fl ->
  filter (fun g => bytes_eqb (fl_name g) (fl_name f)) fl = [f].
Proof.
  induction fl as [|g fl IH]; intros Hnd Hin; [destruct Hin|].
  cbn [names map] in Hnd. inversion Hnd as [|? ? Hg Hr]; subst.
  cbn [filter]. destruct Hin as [->|Hin].
  - rewrite bytes_eqb_refl. f_equal. apply filter_none. intros x Hx.
    apply bytes_eqb_neq. intros E. apply Hg. rewrite <- E. apply in_map. exact Hx.
  - assert (Hne : bytes_eqb (fl_name g) (fl_name f) = false).
    { apply bytes_eqb_neq. intros E. apply Hg. rewrite E. apply in_map. exact Hin. }
    rewrite Hne. apply IH; assumption.
Qed.

Lemma live_unique fl f :
  NoDup (names fl) -> In f fl -> live fl (fl_name f) (fl_path f) = true.
Proof.
  intros Hnd Hin. unfold live. rewrite (filter_name_unique fl f Hnd Hin).
  cbn [min_depth map fold_left filter]. rewrite Nat.eqb_refl. apply path_eqb_refl.
Qed.

(* ------------------------------------------------------------------ small value facts *)

Lemma sanitize_ascii s : Forall (fun b => b < 128) s -> sanitize s = s.
Proof.
  induction s as [|a s IH]; intros H; [reflexivity|].
  inversion H as [|? ? Ha Hs]; subst. cbn [sanitize].
  replace (a <? 128) with true by lia. rewrite IH by assumption. reflexivity.
Qed.

Lemma uint_bytes_ascii u : Forall (fun b => b < 128) (uint_bytes u).
Proof. induction u; cbn [uint_bytes]; constructor; try assumption; lia. Qed.

Lemma dec_N_ascii n : Forall (fun b => b < 128) (dec_N n).
Proof.
  unfold dec_N. pose proof (uint_bytes_ascii (N.to_uint n)) as H.
  destruct (uint_bytes (N.to_uint n)); [repeat constructor|exact H].
Qed.

Lemma dec_Z_ascii z : Forall (fun b => b < 128) (dec_Z z).
Proof.
  unfold dec_Z. destruct (z <? 0)%Z; [constructor; [lia|]|]; apply dec_N_ascii.
Qed.

Lemma valid_utf8_sanitize s : valid_utf8 s = true -> sanitize s = s.
Proof. unfold valid_utf8. apply bytes_eqb_eq. Qed.

Lemma omit_zero t v :
  omit_safe t = true -> wf t v = true -> is_empty v = true -> v = zero t.
Proof.
  destruct t; cbn [omit_safe]; try discriminate; intros _ Hwf He.
  - destruct v; cbn [wf] in Hwf; try discriminate. cbn in He. destruct b; [discriminate|reflexivity].
  - destruct v; cbn [wf] in Hwf; try discriminate. cbn in He. apply Z.eqb_eq in He. subst. reflexivity.
  - destruct v; cbn [wf] in Hwf; try discriminate. cbn in He. apply bytes_eqb_eq in He. subst. reflexivity.
  - destruct v; cbn [wf] in Hwf; try discriminate. cbn in He. destruct s; [reflexivity|discriminate].
  - destruct v; cbn [wf] in Hwf; try discriminate. cbn in He. destruct l; [|discriminate].
    apply andb_true_iff in Hwf. destruct Hwf as [Hl _]. apply Nat.eqb_eq in Hl. cbn in Hl.
    cbn [zero]. rewrite <- Hl. reflexivity.
  - destruct v; cbn [wf] in Hwf; try discriminate.
  - destruct v; cbn [wf] in Hwf; try discriminate.
Qed.

Lemma fix_nth_id n vs : nth_is_nonnil_map n vs = true -> fix_nth n vs = vs.
Proof.
  revert n; induction vs as [|x vs IH]; intros n H; [destruct n; reflexivity|].
  destruct n as [|n]; cbn [fix_nth nth_is_nonnil_map] in *.
  - destruct x; try reflexivity. destruct m; [reflexivity|discriminate].
  - rewrite IH by assumption. reflexivity.
Qed.

Lemma fixmaps_id ns vs :
  forallb (fun n => nth_is_nonnil_map n vs) ns = true -> fixmaps ns (VStruct vs) = VStruct vs.
Proof.
  cbn [fixmaps]. intros H. f_equal.
  induction ns as [|n ns IH]; [reflexivity|].
  cbn [forallb] in H. apply andb_true_iff in H. destruct H as [H1 H2].
  cbn [fold_left]. rewrite fix_nth_id by assumption. apply IH. exact H2.
Qed.

(* ------------------------------------------------------------------ emitted member names *)

Definition keys_in_names (t : ty) : Prop :=
  is_struct t = true ->
  forall fl d cur v,
    incl (keys (members (enc (Some (fl, d, cur)) t v))) (names (flat_ty d cur t)).

Lemma expands_struct fi ft : expands fi ft = true -> is_struct ft = true.
Proof. unfold expands. intros H. apply andb_true_iff in H. apply H. Qed.

Lemma enc_fields_keys fl d cur fs :
  Forall (fun f => keys_in_names (snd f)) fs ->
  forall i vs, incl (keys (enc_fields fl d cur i fs vs)) (names (flat_fields d cur i fs)).
Proof.
  induction fs as [|[fi ft] fs IH]; intros HF i vs; [intros k Hk; destruct vs; destruct Hk|].
  inversion HF as [|? ? Hft Hrest]; subst. cbn [snd] in Hft.
  destruct vs as [|x vs]; [intros k Hk; destruct Hk|].
  cbn [enc_fields flat_fields]. rewrite keys_app, names_app.
  apply incl_app; [apply incl_appl|apply incl_appr; apply IH; exact Hrest].
  destruct (expands fi ft) eqn:Ex.
  - apply Hft. exact (expands_struct _ _ Ex).
  - destruct (candidate fi) eqn:Ec; cbn [andb].
    + match goal with |- context [if ?c then [_] else []] => destruct c end.
      * cbn. apply incl_refl.
      * intros k Hk. destruct Hk.
    + intros k Hk. destruct Hk.
Qed.

Lemma keys_in_names_all t : keys_in_names t.
Proof.
  induction t using ty_ind2; intros Hs; try discriminate.
  intros fl d cur v.
  destruct v; try (cbn [enc members keys map]; intros k Hk; destruct Hk).
  rewrite enc_struct. cbn [ctx_of members]. rewrite flat_ty_struct.
  apply enc_fields_keys. exact H.
Qed.

(* ------------------------------------------------------------------ lists and maps *)

Fixpoint dec_list (e : ty) (l : list json) : option (list value) :=
  match l with
  | [] => Some []
  | x :: r =>
      match dec None e x, dec_list e r with
      | Some a, Some b => Some (a :: b)
      | _, _ => None
      end
  end.

Lemma dec_slice_arr cx e l :
  dec cx (TSlice e) (JArr l) = option_map (fun vs => VSlice (Some vs)) (dec_list e l).
Proof.
  cbn [dec]. f_equal.
  induction l as [|x l IH]; [reflexivity|]. cbn [dec_list]. rewrite <- IH. reflexivity.
Qed.

Lemma dec_array_arr cx n e l :
  dec cx (TArray n e) (JArr l) =
  option_map (fun vs => VArr (pad_to (N.to_nat n) (zero e) vs)) (dec_list e (firstn (N.to_nat n) l)).
Proof.
  cbn [dec]. f_equal. generalize (firstn (N.to_nat n) l). clear l. intros l.
  induction l as [|x l IH]; [reflexivity|]. cbn [dec_list]. rewrite <- IH. reflexivity.
Qed.

Lemma dec_list_roundtrip e l :
  (forall v, wf e v = true -> dec None e (enc None e v) = Some v) ->
  forallb (wf e) l = true -> dec_list e (map (enc None e) l) = Some l.
Proof.
  intros He. induction l as [|x l IH]; cbn [forallb map dec_list]; intros H; [reflexivity|].
  apply andb_true_iff in H. destruct H as [Hx Hl].
  rewrite He by exact Hx. rewrite IH by exact Hl. reflexivity.
Qed.

Lemma pad_to_exact z l : pad_to (length l) z l = l.
Proof. induction l as [|x l IH]; cbn [length pad_to]; [reflexivity|]. rewrite IH. reflexivity. Qed.

Lemma u8_bytes l :
  forallb (wf (TInt U8)) l = true ->
  map (fun b => VInt (Z.of_N b)) (map byte_of l) = l /\ Forall is_byte (map byte_of l).
Proof.
  induction l as [|x l IH]; cbn [forallb map]; intros H; [split; [reflexivity|constructor]|].
  apply andb_true_iff in H. destruct H as [Hx Hl]. destruct (IH Hl) as [I1 I2].
  destruct x; cbn [wf] in Hx; try discriminate. cbn [in_range] in Hx.
  cbn [byte_of]. split.
  - rewrite I1. f_equal. f_equal. lia.
  - constructor; [unfold is_byte; lia|exact I2].
Qed.

Fixpoint dec_map_go (k : mapkey) (e : ty) (ms : list (bytes * json)) (acc : list (mkey * value))
  : option (list (mkey * value)) :=
  match ms with
  | [] => Some acc
  | (ks, x) :: r =>
      match parse_key k ks, dec None e x with
      | Some kk, Some a => dec_map_go k e r (minsert kk a acc)
      | _, _ => None
      end
  end.

Lemma dec_map_obj cx k e ms :
  dec cx (TMap k e) (JObj ms) = option_map (fun m => VMap (Some m)) (dec_map_go k e ms []).
Proof.
  cbn [dec]. f_equal. generalize (@nil (mkey * value)).
  induction ms as [|[ks x] ms IH]; intros acc; [reflexivity|].
  cbn [dec_map_go]. destruct (parse_key k ks); [|reflexivity].
  destruct (dec None e x); [|reflexivity]. apply IH.
Qed.

Lemma mkey_ltb_trans a b c : mkey_ltb a b = true -> mkey_ltb b c = true -> mkey_ltb a c = true.
Proof. unfold mkey_ltb. apply bytes_ltb_trans. Qed.

Lemma minsert_append k v acc :
  (forall kv, In kv acc -> mkey_ltb (fst kv) k = true) -> minsert k v acc = acc ++ [(k, v)].
Proof.
  induction acc as [|[k' v'] acc IH]; intros H; [reflexivity|].
  cbn [minsert app].
  pose proof (H (k', v') (or_introl eq_refl)) as Hlt. cbn [fst] in Hlt.
  unfold mkey_ltb in *. rewrite (bytes_ltb_asym _ _ Hlt).
  unfold mkey_teqb. rewrite bytes_eqb_sym. rewrite (bytes_ltb_neq _ _ Hlt).
  f_equal. apply IH. intros kv Hkv. apply H. right. exact Hkv.
Qed.

Lemma keys_sorted_cons k v r :
  keys_sorted ((k, v) :: r) = true ->
  Forall (fun kv => mkey_ltb k (fst kv) = true) r /\ keys_sorted r = true.
Proof.
  revert k v; induction r as [|[k' v'] r IH]; intros k v H; [split; [constructor|reflexivity]|].
  cbn [keys_sorted] in H. apply andb_true_iff in H. destruct H as [H1 H2].
  split; [|exact H2]. constructor; [exact H1|].
  destruct (IH k' v' H2) as [I1 _].
  eapply Forall_impl; [|exact I1]. cbn. intros kv Hkv. eapply mkey_ltb_trans; eassumption.
Qed.

Lemma parse_key_text k kk :
  key_wf k kk = true -> parse_key k (sanitize (key_text kk)) = Some kk.
Proof.
  destruct k as [|ik|]; destruct kk as [s|z]; cbn [key_wf]; try discriminate; intros H.
  - cbn [key_text parse_key]. rewrite valid_utf8_sanitize by exact H. reflexivity.
  - cbn [key_text parse_key]. rewrite sanitize_ascii by apply dec_Z_ascii.
    rewrite undec_dec_Z. rewrite H. reflexivity.
Qed.

Lemma dec_map_roundtrip k e :
  (forall v, wf e v = true -> dec None e (enc None e v) = Some v) ->
  forall rest done,
    keys_sorted rest = true ->
    (forall a b, In a done -> In b rest -> mkey_ltb (fst a) (fst b) = true) ->
    forallb (fun kv => key_wf k (fst kv) && wf e (snd kv)) rest = true ->
    dec_map_go k e (map (fun kv => (sanitize (key_text (fst kv)), enc None e (snd kv))) rest) done
    = Some (done ++ rest).
Proof.
  intros He. induction rest as [|[kk v] rest IH]; intros done Hs Hlt Hwf.
  - cbn. rewrite app_nil_r. reflexivity.
  - cbn [map dec_map_go fst snd]. cbn [forallb fst snd] in Hwf.
    apply andb_true_iff in Hwf. destruct Hwf as [Hkv Hrest].
    apply andb_true_iff in Hkv. destruct Hkv as [Hk Hv].
    rewrite parse_key_text by exact Hk. rewrite He by exact Hv.
    destruct (keys_sorted_cons _ _ _ Hs) as [Hall Hs'].
    rewrite minsert_append.
    + rewrite IH; [rewrite <- app_assoc; reflexivity|exact Hs'| |exact Hrest].
      intros a b Ha Hb. apply in_app_or in Ha. destruct Ha as [Ha|[<-|[]]].
      * apply Hlt; [exact Ha|right; exact Hb].
      * cbn [fst]. rewrite Forall_forall in Hall. apply Hall. exact Hb.
    + intros a Ha. apply (Hlt a (kk, v)); [exact Ha|left; reflexivity].
Qed.

(* ------------------------------------------------------------------ the round trip *)

Definition disjoint_from (ks ns : list bytes) : Prop := forall k, In k ks -> ~ In k ns.

(** the induction statement: (1) a value of a lossless type in a fresh context, and (2) a
    struct whose fields are promoted into an enclosing object, where [pre]/[post] are the
    members that the enclosing struct emits before / after it. *)
Definition round_ok (t : ty) : Prop :=
  (lossless_at false t = true ->
   forall v, wf t v = true -> dec None t (enc None t v) = Some v) /\
  (is_struct t = true ->
   forall fl d cur,
     NoDup (names fl) -> incl (flat_ty d cur t) fl -> NoDup (names (flat_ty d cur t)) ->
     lossless_at true t = true ->
     forall v, wf t v = true ->
     forall pre post,
       disjoint_from (keys pre) (names (flat_ty d cur t)) ->
       disjoint_from (keys post) (names (flat_ty d cur t)) ->
       dec (Some (fl, d, cur)) t (JObj (pre ++ members (enc (Some (fl, d, cur)) t v) ++ post))
       = Some v).

Lemma fields_roundtrip fl d cur fs :
  Forall (fun f => round_ok (snd f)) fs ->
  NoDup (names fl) ->
  forall i vs,
    incl (flat_fields d cur i fs) fl -> NoDup (names (flat_fields d cur i fs)) ->
    lossless_fields fs = true -> wf_fields fs vs = true ->
    forall pre post,
      disjoint_from (keys pre) (names (flat_fields d cur i fs)) ->
      disjoint_from (keys post) (names (flat_fields d cur i fs)) ->
      dec_fields fl d cur (JObj (pre ++ enc_fields fl d cur i fs vs ++ post)) i fs = Some vs.
Proof.
  intros HF Hnd. induction fs as [|[fi ft] fs IH]; intros i vs Hincl Hnd' Hll Hwf pre post Hpre Hpost.
  - destruct vs; [reflexivity|discriminate].
  - destruct vs as [|x vs]; [discriminate|].
    inversion HF as [|? ? Hft Hrest]; subst. cbn [snd] in Hft.
    cbn [lossless_fields] in Hll. apply andb_true_iff in Hll. destruct Hll as [Hl1 Hl2].
    cbn [wf_fields] in Hwf. apply andb_true_iff in Hwf. destruct Hwf as [Hw1 Hw2].
    cbn [flat_fields] in Hincl, Hnd', Hpre, Hpost.
    rewrite names_app in Hnd', Hpre, Hpost.
    assert (Hincl1 := fun x H => Hincl x (in_or_app _ _ x (or_introl H))).
    assert (Hincl2 := fun x H => Hincl x (in_or_app _ _ x (or_intror H))).
    pose proof (NoDup_app_l _ _ Hnd') as Hnd1. pose proof (NoDup_app_r _ _ Hnd') as Hnd2.
    cbn [enc_fields dec_fields].
    set (H0 := if expands fi ft then members (enc (Some (fl, S d, cur ++ [i])) ft x)
               else if candidate fi && live fl (jname fi) (cur ++ [i]) && negb (f_omitempty fi && is_empty x)
                       && negb (f_omitzero fi && value_eqb x (zero ft))
                    then [(jname fi, enc None ft x)] else []).
    set (T0 := enc_fields fl d cur (S i) fs vs).
    (* keys of what this field emits are among its flat names; same for the rest *)
    assert (HkT : incl (keys T0) (names (flat_fields d cur (S i) fs))).
    { apply enc_fields_keys. eapply Forall_impl; [|exact Hrest]. intros. apply keys_in_names_all. }
    assert (HkH : incl (keys H0)
                       (names (if expands fi ft then flat_ty (S d) (cur ++ [i]) ft
                               else if candidate fi then [mkFlat (jname fi) d (has_tagname fi) (cur ++ [i])]
                               else []))).
    { subst H0. destruct (expands fi ft) eqn:Ex.
      - apply keys_in_names_all. exact (expands_struct _ _ Ex).
      - destruct (candidate fi); cbn [andb].
        + match goal with |- context [if ?c then [_] else []] => destruct c end;
            [apply incl_refl|intros k Hk; destruct Hk].
        + intros k Hk; destruct Hk. }
    (* the tail, by the induction hypothesis with pre := pre ++ H0 *)
    assert (Htail : dec_fields fl d cur (JObj (pre ++ (H0 ++ T0) ++ post)) (S i) fs = Some vs).
    { replace (pre ++ (H0 ++ T0) ++ post) with ((pre ++ H0) ++ T0 ++ post)
        by (rewrite <- !app_assoc; reflexivity).
      apply IH; try assumption.
      - intros k Hk. rewrite keys_app in Hk. apply in_app_or in Hk. destruct Hk as [Hk|Hk].
        + intros Hn. apply (Hpre k Hk). apply in_or_app. right. exact Hn.
        + apply (NoDup_app_disj _ _ k Hnd'). apply HkH. exact Hk.
      - intros k Hk Hn. apply (Hpost k Hk). apply in_or_app. right. exact Hn. }
    rewrite Htail. clear Htail. clearbody T0.
    destruct (f_skip fi) eqn:Esk.
    { destruct x; try discriminate. reflexivity. }
    destruct (expands fi ft) eqn:Ex.
    + (* promoted struct *)
      destruct Hft as [_ Hft2]. subst H0.
      replace (pre ++ (members (enc (Some (fl, S d, cur ++ [i])) ft x) ++ T0) ++ post)
        with (pre ++ members (enc (Some (fl, S d, cur ++ [i])) ft x) ++ (T0 ++ post))
        by (rewrite <- !app_assoc; reflexivity).
      rewrite (Hft2 (expands_struct _ _ Ex) fl (S d) (cur ++ [i]) Hnd Hincl1 Hnd1 Hl1 x Hw1); [reflexivity| |].
      * intros k Hk Hn. apply (Hpre k Hk). apply in_or_app. left. exact Hn.
      * intros k Hk Hn. rewrite keys_app in Hk. apply in_app_or in Hk. destruct Hk as [Hk|Hk].
        -- apply (NoDup_app_disj _ _ k Hnd' Hn). apply HkT. exact Hk.
        -- apply (Hpost k Hk). apply in_or_app. left. exact Hn.
    + (* ordinary field *)
      apply andb_true_iff in Hl1. destruct Hl1 as [Hl1 Hlt].
      apply andb_true_iff in Hl1. destruct Hl1 as [Hl1 Hom].
      apply andb_true_iff in Hl1. destruct Hl1 as [Hexp Hq].
      assert (Hc : candidate fi = true) by (unfold candidate; rewrite Hexp, Esk; reflexivity).
      rewrite Hc in *. cbn [andb] in *.
      assert (Hlive : live fl (jname fi) (cur ++ [i]) = true).
      { apply (live_unique fl (mkFlat (jname fi) d (has_tagname fi) (cur ++ [i])) Hnd).
        apply Hincl1. left. reflexivity. }
      rewrite Hlive in *. cbn [andb] in *.
      assert (Hnpre : ~ In (jname fi) (keys pre)).
      { intros Hk. apply (Hpre _ Hk). apply in_or_app. left. left. reflexivity. }
      assert (HnT : ~ In (jname fi) (keys T0)).
      { intros Hk. apply HkT in Hk. revert Hk. apply (NoDup_app_disj _ _ (jname fi) Hnd'). left. reflexivity. }
      assert (Hnpost : ~ In (jname fi) (keys post)).
      { intros Hk. apply (Hpost _ Hk). apply in_or_app. left. left. reflexivity. }
      cbn [members]. rewrite assoc_app. rewrite (assoc_notin _ _ Hnpre).
      destruct Hft as [Hft1 _].
      assert (Hzero : (f_omitempty fi && is_empty x) || (f_omitzero fi && value_eqb x (zero ft)) = true ->
                      x = zero ft).
      { intros Ho. apply orb_true_iff in Ho. destruct Ho as [Ho|Ho]; apply andb_true_iff in Ho; destruct Ho as [Eo Ee].
        - rewrite Eo in Hom. cbn in Hom. exact (omit_zero ft x Hom Hw1 Ee).
        - exact (value_eqb_eq _ _ Ee). }
      destruct ((f_omitempty fi && is_empty x) || (f_omitzero fi && value_eqb x (zero ft))) eqn:Eom;
        subst H0; rewrite Hc, Hlive; cbn [andb].
      * (* omitted: the member is absent everywhere, the field decodes to its zero value *)
        replace (negb (f_omitempty fi && is_empty x) && negb (f_omitzero fi && value_eqb x (zero ft)))
          with false by (rewrite <- negb_orb, Eom; reflexivity).
        cbn [app]. rewrite assoc_app, (assoc_notin _ _ HnT), (assoc_notin _ _ Hnpost).
        rewrite <- (Hzero eq_refl). reflexivity.
      * replace (negb (f_omitempty fi && is_empty x) && negb (f_omitzero fi && value_eqb x (zero ft)))
          with true by (rewrite <- negb_orb, Eom; reflexivity).
        cbn [app assoc]. rewrite bytes_eqb_refl.
        rewrite (Hft1 Hlt x Hw1). reflexivity.
Qed.

Lemma round_ok_all t : round_ok t.
Proof.
  induction t using ty_ind2; split; try (intros Hs; discriminate Hs).
  - (* bool *) intros _ v Hwf. destruct v; try discriminate. reflexivity.
  - (* int *) intros _ v Hwf. destruct v; try discriminate. cbn [wf] in Hwf.
    cbn [enc dec]. rewrite undec_dec_Z, Hwf. reflexivity.
  - (* float *) intros _ v Hwf. destruct v; try discriminate. reflexivity.
  - (* string *) intros _ v Hwf. destruct v; try discriminate. cbn [wf] in Hwf.
    cbn [enc dec]. rewrite valid_utf8_sanitize by exact Hwf. reflexivity.
  - (* slice *) intros Hl v Hwf. cbn [lossless_at] in Hl. destruct IHt as [IH _].
    destruct v; try discriminate. destruct l as [l|]; [|reflexivity].
    cbn [wf] in Hwf. cbn [enc]. destruct (is_u8 t) eqn:Eu.
    + destruct t; try discriminate. destruct k; try discriminate.
      destruct (u8_bytes l Hwf) as [U1 U2].
      cbn [dec is_u8]. rewrite b64_roundtrip by exact U2. cbn [option_map]. rewrite U1. reflexivity.
    + rewrite dec_slice_arr. rewrite (dec_list_roundtrip t l (IH Hl) Hwf). reflexivity.
  - (* array *) intros Hl v Hwf. cbn [lossless_at] in Hl. destruct IHt as [IH _].
    destruct v; try discriminate. cbn [wf] in Hwf. apply andb_true_iff in Hwf.
    destruct Hwf as [Hlen Hall]. apply Nat.eqb_eq in Hlen.
    cbn [enc]. rewrite dec_array_arr. rewrite <- Hlen.
    rewrite <- (map_length (enc None t) l) at 1. rewrite firstn_all.
    rewrite (dec_list_roundtrip t l (IH Hl) Hall). cbn [option_map]. rewrite pad_to_exact. reflexivity.
  - (* map *) intros Hl v Hwf. cbn [lossless_at] in Hl. apply andb_true_iff in Hl.
    destruct Hl as [_ Hl]. destruct IHt as [IH _].
    destruct v; try discriminate. destruct m as [m|]; [|reflexivity].
    cbn [wf] in Hwf. apply andb_true_iff in Hwf. destruct Hwf as [Hs Hall].
    cbn [enc]. rewrite dec_map_obj.
    rewrite (dec_map_roundtrip k t (IH Hl) m [] Hs); [reflexivity| |exact Hall].
    intros a b [].
  - (* struct, fresh context: the promoted-field statement with the struct's own table *)
    intros Hl v Hwf. rewrite lossless_struct in Hl. cbn [orb] in Hl.
    apply andb_true_iff in Hl. destruct Hl as [Hnd Hlf].
    destruct v; try discriminate. rewrite wf_struct in Hwf.
    rewrite enc_struct. cbn [ctx_of]. rewrite dec_struct. cbn [ctx_of].
    apply nodup_bytes_NoDup in Hnd. rewrite flat_ty_struct in *.
    pose proof (fields_roundtrip (flat_fields 0 [] 0 fs) 0%nat [] fs H Hnd 0%nat fs0
                  (incl_refl _) Hnd Hlf Hwf [] []) as R.
    cbn [app] in R. rewrite app_nil_r in R. rewrite R; [reflexivity| |]; intros k [].
  - (* struct, promoted *)
    intros _ fl d cur Hnd Hincl Hnd' Hl v Hwf pre post Hpre Hpost.
    rewrite lossless_struct in Hl. cbn [orb andb] in Hl.
    destruct v; try discriminate. rewrite wf_struct in Hwf.
    rewrite enc_struct. cbn [ctx_of members]. rewrite dec_struct. cbn [ctx_of].
    rewrite flat_ty_struct in *.
    rewrite (fields_roundtrip fl d cur fs H Hnd 0%nat fs0 Hincl Hnd' Hl Hwf pre post Hpre Hpost).
    reflexivity.
  - (* custom *) intros Hl v Hwf. cbn [lossless_at] in Hl.
    apply andb_true_iff in Hl. destruct Hl as [_ Hl]. destruct IHt as [IH _].
    destruct v; try discriminate. cbn [wf] in Hwf. apply andb_true_iff in Hwf.
    destruct Hwf as [Hw Hfix]. cbn [enc dec]. rewrite (IH Hl v Hw). cbn [option_map].
    destruct v; try reflexivity. rewrite fixmaps_id by exact Hfix. reflexivity.
Qed.

(** The central theorem: every well-formed value of a lossless type survives the
    checkpoint encoding. *)
Theorem lossless_sound t :
  lossless t = true -> forall v, wf t v = true -> decode t (encode t v) = Some v.
Proof. intros Hl v Hwf. exact (proj1 (round_ok_all t) Hl v Hwf). Qed.

Corollary lossless_roundtrip t v :
  lossless t = true -> wf t v = true -> roundtrip t v = Some v.
Proof. intros. unfold roundtrip. apply lossless_sound; assumption. Qed.

