(** Lemmas about the run loops of Lib/Engine.v ([dispatch_next], [run], [run_until], [run_segments])
    for an arbitrary handler program [H]. *)
From Akita Require Import Lib.Base Lib.Engine Lib.EngineProofs.
From Coq Require Import Permutation Sorted.

(* ------------------------------------------------------------------ list helpers *)
Section ListHelpers.
  Context {A : Type}.

  Lemma ssorted_app (R : A -> A -> Prop) (l1 l2 : list A) :
    StronglySorted R (l1 ++ l2) <->
    StronglySorted R l1 /\ StronglySorted R l2 /\ (forall x y, In x l1 -> In y l2 -> R x y).
  Proof.
    induction l1 as [|a l1 IH]; cbn [app].
    - split; [intro H; split; [constructor|split; [exact H|intros x y []]]|intros [_ [H _]]; exact H].
    - split.
      + intro H. inversion H as [|? ? Hs Hf]; subst. apply IH in Hs. destruct Hs as [S1 [S2 S12]].
        rewrite Forall_forall in Hf. split; [|split; [exact S2|]].
        * constructor; [exact S1|]. rewrite Forall_forall. intros x Hx. apply Hf. apply in_or_app. left; exact Hx.
        * intros x y [<-|Hx] Hy; [apply Hf; apply in_or_app; right; exact Hy|apply S12; assumption].
      + intros [S1 [S2 S12]]. inversion S1 as [|? ? Hs Hf]; subst. constructor.
        * apply IH. split; [exact Hs|]. split; [exact S2|]. intros x y Hx Hy. apply S12; [right; exact Hx|exact Hy].
        * rewrite Forall_forall in *. intros x Hx. apply in_app_or in Hx. destruct Hx as [Hx|Hx];
            [apply Hf; exact Hx|apply S12; [left; reflexivity|exact Hx]].
  Qed.

  Lemma nodup_app (l1 l2 : list A) :
    NoDup l1 -> NoDup l2 -> (forall x, In x l1 -> In x l2 -> False) -> NoDup (l1 ++ l2).
  Proof.
    induction l1 as [|a l1 IH]; intros N1 N2 D; cbn [app]; [exact N2|].
    inversion N1; subst. constructor.
    - intro Hin. apply in_app_or in Hin. destruct Hin as [Hin|Hin]; [contradiction|].
      apply (D a); [left; reflexivity|exact Hin].
    - apply IH; [assumption|assumption|]. intros x Hx Hy. apply (D x); [right; exact Hx|exact Hy].
  Qed.

  (** a list split into the part satisfying [p] and the part that does not *)
  Lemma perm_partition (p : A -> bool) (a b c : list A) :
    Permutation (a ++ b) c -> (forall x, In x a -> p x = true) -> (forall x, In x b -> p x = false) ->
    Permutation a (filter p c) /\ Permutation b (filter (fun x => negb (p x)) c).
  Proof.
    intros Hp Ha Hb.
    assert (Fa : filter p a = a).
    { clear -Ha. induction a as [|x a IH]; [reflexivity|]. cbn [filter]. rewrite (Ha x (or_introl eq_refl)).
      f_equal. apply IH. intros y Hy. apply Ha. right; exact Hy. }
    assert (Fb : filter p b = []).
    { clear -Hb. induction b as [|x b IH]; [reflexivity|]. cbn [filter]. rewrite (Hb x (or_introl eq_refl)).
      apply IH. intros y Hy. apply Hb. right; exact Hy. }
    assert (Ga : filter (fun x => negb (p x)) a = []).
    { clear -Ha. induction a as [|x a IH]; [reflexivity|]. cbn [filter]. rewrite (Ha x (or_introl eq_refl)).
      cbn [negb]. apply IH. intros y Hy. apply Ha. right; exact Hy. }
    assert (Gb : filter (fun x => negb (p x)) b = b).
    { clear -Hb. induction b as [|x b IH]; [reflexivity|]. cbn [filter]. rewrite (Hb x (or_introl eq_refl)).
      cbn [negb]. f_equal. apply IH. intros y Hy. apply Hb. right; exact Hy. }
    split.
    - rewrite <- Fa at 1. rewrite <- (app_nil_r (filter p a)), <- Fb, <- filter_app.
      clear -Hp. induction Hp; cbn [filter]; try destruct (p x); try destruct (p y);
        eauto using Permutation, perm_skip, perm_swap.
    - rewrite <- Gb at 1. rewrite <- (app_nil_l (filter _ b)), <- Ga, <- filter_app.
      clear -Hp. induction Hp; cbn [filter]; try destruct (p x); try destruct (p y); cbn [negb];
        eauto using Permutation, perm_skip, perm_swap.
  Qed.

  Lemma perm_rot (a : A) (s p h : list A) :
    Permutation ((s ++ p) ++ (h ++ [a])) (((a :: p) ++ h) ++ s).
  Proof.
    rewrite app_assoc. etransitivity; [apply Permutation_sym; apply Permutation_cons_append|].
    cbn [app]. apply perm_skip. rewrite <- app_assoc. apply Permutation_app_comm.
  Qed.
End ListHelpers.

(* ------------------------------------------------------------------ Schedule order and sequence numbers *)
Section SchedSorted.
  Context {E : Type} (etime : E -> N) (esec : E -> bool).
  Local Open Scope N_scope.
  Local Notation qt := (qtime etime).
  Local Notation qc := (qsec esec).
  Local Notation qevE := (@qev E).
  Local Notation eok := (e_ok etime esec).

  (** [Rseq y1 y2]: within one queue, y1 got the smaller sequence number *)
  Definition Rseq (y1 y2 : qevE) : Prop := qc y1 = qc y2 -> qseq y1 < qseq y2.

  Lemma schedule_all_sorted es : forall en, eok en -> (forall e, In e es -> e_now en <= etime e) ->
    StronglySorted Rseq (snd (fst (schedule_all etime esec en es))).
  Proof.
    induction es as [|e r IH]; intros en Hok Ht; cbn [schedule_all]; [constructor|].
    destruct (schedule_spec etime esec en e Hok (Ht e (or_introl eq_refl))) as [en1 [Hs [Hok1 [P1 [N1 [C1 C1']]]]]].
    rewrite Hs.
    assert (Ht1 : forall e', In e' r -> e_now en1 <= etime e').
    { intros e' He'. rewrite N1. apply Ht. right; exact He'. }
    specialize (IH en1 Hok1 Ht1).
    destruct (schedule_all_spec etime esec r en1 Hok1 Ht1) as [en2 [xs [Hsa [_ [_ [_ [_ [_ [Hrng _]]]]]]]]].
    rewrite Hsa in *. cbn [fst snd] in *. constructor; [exact IH|].
    rewrite Forall_forall. intros y Hy Hc. specialize (Hrng y Hy).
    unfold qsec, qseq in *. cbn [fst snd] in *. rewrite <- Hc in Hrng. lia.
  Qed.

End SchedSorted.

(* ------------------------------------------------------------------ the run loops *)
Section RunProofs.
  Context {E : Type} (etime : E -> N) (esec : E -> bool) {HS : Type} (H : HS -> E -> HS * list E).
  Local Open Scope N_scope.
  Local Notation qt := (qtime etime).
  Local Notation qc := (qsec esec).
  Local Notation qevE := (@qev E).
  Local Notation eok := (e_ok etime esec).
  Local Notation bef := (before etime esec).
  Local Notation idt := (ident esec).
  Local Notation disp := (dispatch_next etime esec H).

  (** handlers never pass a past time to Schedule *)
  Definition H_ok : Prop := forall hs e y, In y (snd (H hs e)) -> etime e <= etime y.

  Local Notation Rseq := (Rseq esec).

  Lemma dispatch_spec hs en : H_ok -> eok en -> no_more_event en = false ->
    exists x en1 s hs' en',
      next_event etime en = Some (x, en1) /\
      disp hs en = DStep s hs' en' /\ st_ev s = x /\ st_ok s = true /\ st_now s = qt x /\
      eok en' /\ e_now en' = qt x /\ e_now en <= qt x /\
      Permutation (pending en) (x :: pending en1) /\
      Permutation (pending en') (st_sched s ++ pending en1) /\
      (forall y, In y (pending en1) -> bef x y) /\
      (forall b, cnext en b <= cnext en' b) /\
      (forall y, In y (st_sched s) -> cnext en (qc y) <= qseq y < cnext en' (qc y) /\ qt x <= qt y) /\
      NoDup (map idt (st_sched s)) /\ StronglySorted Rseq (st_sched s) /\
      next_event_time etime en = Some (qt x) /\
      hs' = fst (H hs (fst x)) /\ map fst (st_sched s) = snd (H hs (fst x)).
  Proof.
    intros HH Hok Hmore.
    destruct (next_event_spec etime esec en Hok Hmore) as [x [en1 [Hne [Hok1 [P1 [N1 [C1 [B1 NT]]]]]]]].
    assert (Hnow : e_now en <= qt x).
    { destruct Hok as [_ [_ [_ [_ Hn]]]]. apply Hn. eapply Permutation_in; [apply Permutation_sym; exact P1|left; reflexivity]. }
    unfold dispatch_next. rewrite Hne.
    destruct (N.ltb_spec (qt x) (e_now en1)) as [Hlt|_]; [lia|].
    set (en2 := mke (qt x) (e_p en1) (e_s en1)).
    assert (Hok2 : eok en2).
    { destruct Hok1 as [A [B [C [D F]]]]. split; [exact A|]. split; [exact B|]. split; [exact C|]. split; [exact D|].
      intros y Hy. cbn [e_now en2]. change (pending en2) with (pending en1) in Hy.
      specialize (B1 y Hy). unfold before in B1. lia. }
    destruct (H hs (fst x)) as [hs' out] eqn:EH.
    assert (Hout : forall e, In e out -> e_now en2 <= etime e).
    { intros e He. cbn [e_now en2]. apply (HH hs (fst x) e). rewrite EH. exact He. }
    pose proof (schedule_all_sorted etime esec out en2 Hok2 Hout) as Hsorted.
    destruct (schedule_all_spec etime esec out en2 Hok2 Hout) as [en3 [xs [Hsa [Hok3 [P3 [N3 [Hm [Hmono [Hrng Hnd]]]]]]]]].
    rewrite Hsa in *. cbn [fst snd] in Hsorted.
    assert (C2 : forall b, cnext en2 b = cnext en b) by (intro b; rewrite <- C1; reflexivity).
    exists x, en1. eexists. exists hs', en3. split; [reflexivity|]. split; [reflexivity|].
    cbn [st_ev st_ok st_now st_sched].
    split; [reflexivity|]. split; [reflexivity|]. split; [reflexivity|].
    split; [exact Hok3|]. split; [rewrite N3; reflexivity|]. split; [exact Hnow|].
    split; [exact P1|]. split; [exact P3|]. split; [exact B1|].
    split; [intro b; rewrite <- C2; apply Hmono|].
    split.
    { intros y Hy. specialize (Hrng y Hy). rewrite C2 in Hrng. split; [exact Hrng|].
      assert (Hin : In (fst y) out) by (rewrite <- Hm; apply in_map; exact Hy).
      apply (Hout _ Hin). }
    split; [exact Hnd|]. split; [exact Hsorted|]. split; [exact NT|]. rewrite EH. split; [reflexivity|exact Hm].
  Qed.

  (* ---------------------------------------------------------------- executions *)

  (** one iteration of the Run / RunUntil loop; [G] is what the loop tests beforehand *)
  Definition step_rel (G : @engine E -> Prop) hs en s hs' en' : Prop :=
    G en /\ no_more_event en = false /\ disp hs en = DStep s hs' en' /\ st_ok s = true.

  Inductive exec (G : @engine E -> Prop) (hs0 : HS) (en0 : @engine E) :
    list (@step E) -> HS -> @engine E -> Prop :=
  | exec_nil : exec G hs0 en0 [] hs0 en0
  | exec_snoc l hs en s hs' en' :
      exec G hs0 en0 l hs en -> step_rel G hs en s hs' en' -> exec G hs0 en0 (l ++ [s]) hs' en'.

  Definition Gtrue : @engine E -> Prop := fun _ => True.
  Definition Guntil (t : N) : @engine E -> Prop := fun en => beyond etime t en = false.

  Lemma exec_weaken G hs0 en0 l hs en : exec G hs0 en0 l hs en -> exec Gtrue hs0 en0 l hs en.
  Proof.
    induction 1 as [|l hs en s hs' en' _ IH [_ Hst]]; [constructor|].
    econstructor; [exact IH|]. split; [exact I|exact Hst].
  Qed.

  Lemma exec_cons G hs0 en0 s hs1 en1 l hs en :
    step_rel G hs0 en0 s hs1 en1 -> exec G hs1 en1 l hs en -> exec G hs0 en0 (s :: l) hs en.
  Proof.
    intros Hst Hex. induction Hex as [|l hs en s' hs' en' _ IH Hst'].
    - change [s] with ([] ++ [s]). econstructor; [constructor|exact Hst].
    - change (s :: l ++ [s']) with ((s :: l) ++ [s']). econstructor; [exact IH|exact Hst'].
  Qed.

  Lemma exec_snoc_inv G hs0 en0 l s hs en : exec G hs0 en0 (l ++ [s]) hs en ->
    exists hs1 en1, exec G hs0 en0 l hs1 en1 /\ step_rel G hs1 en1 s hs en.
  Proof.
    intro Hex. inversion Hex as [Hnil|l' hs1 en1 s' hs' en' Hex' Hst Heq].
    - destruct l; discriminate.
    - apply app_inj_tail in Heq. destruct Heq; subst. eauto.
  Qed.

  Lemma exec_split G hs0 en0 la lb : forall hs en, exec G hs0 en0 (la ++ lb) hs en ->
    exists hm em, exec G hs0 en0 la hm em /\ exec G hm em lb hs en.
  Proof.
    induction lb as [|s lb IH] using rev_ind; intros hs en Hex.
    - rewrite app_nil_r in Hex. exists hs, en. split; [exact Hex|constructor].
    - rewrite app_assoc in Hex. apply exec_snoc_inv in Hex. destruct Hex as [hs1 [en1 [Hex Hst]]].
      destruct (IH _ _ Hex) as [hm [em [Ha Hb]]]. exists hm, em. split; [exact Ha|].
      econstructor; [exact Hb|exact Hst].
  Qed.

  (** the loops produce executions *)
  Lemma run_exec fuel : forall hs en,
    let r := run etime esec H fuel hs en in
    (r_out r <> Panicked -> exec Gtrue hs en (r_log r) (r_hs r) (r_en r)) /\
    (r_out r = Done -> no_more_event (r_en r) = true).
  Proof.
    induction fuel as [|f IH]; intros hs en; cbn [run].
    - destruct (no_more_event en) eqn:Em; cbn; (split; [intros _; constructor|]); [auto|discriminate].
    - destruct (no_more_event en) eqn:Em; [cbn; split; [intros _; constructor|auto]|].
      destruct (disp hs en) as [|x en1|s hs' en'] eqn:Ed; cbn; try (split; [congruence|discriminate]).
      destruct (st_ok s) eqn:Eok; cbn; [|split; [congruence|discriminate]].
      destruct (IH hs' en') as [IH1 IH2]. split; [|exact IH2].
      intro Hnp. eapply exec_cons; [|apply IH1; exact Hnp]. repeat split; assumption.
  Qed.

  Lemma run_until_exec t fuel : forall hs en,
    let r := run_until etime esec H t fuel hs en in
    (r_out r <> Panicked -> exec (Guntil t) hs en (r_log r) (r_hs r) (r_en r)) /\
    (r_out r = Done -> no_more_event (r_en r) = true \/ beyond etime t (r_en r) = true).
  Proof.
    induction fuel as [|f IH]; intros hs en; cbn [run_until].
    - destruct (no_more_event en) eqn:Em; cbn [orb r_out r_log r_hs r_en].
      + split; [intros _; constructor|auto].
      + destruct (beyond etime t en) eqn:Eb; cbn; (split; [intros _; constructor|]); [auto|discriminate].
    - destruct (no_more_event en) eqn:Em; [cbn; split; [intros _; constructor|auto]|].
      destruct (beyond etime t en) eqn:Eb; [cbn; split; [intros _; constructor|auto]|].
      destruct (disp hs en) as [|x en1|s hs' en'] eqn:Ed; cbn; try (split; [congruence|discriminate]).
      destruct (st_ok s) eqn:Eok; cbn; [|split; [congruence|discriminate]].
      destruct (IH hs' en') as [IH1 IH2]. split; [|exact IH2].
      intro Hnp. eapply exec_cons; [|apply IH1; exact Hnp]. repeat split; assumption.
  Qed.

  (* ---------------------------------------------------------------- the bookkeeping invariant *)

  (** what holds between the start [en0] of an execution, its log [l] and its end [en] *)
  Record J (en0 : @engine E) (l : list (@step E)) (en : @engine E) : Prop := {
    J_ok : eok en;
    J_perm : Permutation (pending en ++ handled l) (pending en0 ++ scheduled l);
    J_lt : forall x, In x (pending en ++ handled l) -> qseq x < cnext en (qc x);
    J_nd : NoDup (map idt (pending en ++ handled l));
    J_mono : forall b, cnext en0 b <= cnext en b;
    J_fresh : forall x, In x (scheduled l) -> cnext en0 (qc x) <= qseq x;
    J_lo : forall x, In x (handled l) -> e_now en0 <= qt x;
    J_hi : forall x, In x (handled l) -> qt x <= e_now en;
    J_now : e_now en0 <= e_now en;
    J_clock : e_now en = last (map qt (handled l)) (e_now en0);
    J_hsorted : StronglySorted N.le (map qt (handled l));
    J_ssorted : StronglySorted Rseq (scheduled l);
    J_snow : Forall (fun s => st_now s = qt (st_ev s)) l;
    J_sfut : forall s y, In s l -> In y (st_sched s) -> qt (st_ev s) <= qt y
  }.

  Lemma eok_ident_nodup en : eok en -> NoDup (map idt (pending en)).
  Proof.
    intros [[_ [_ Np]] [[_ [_ Ns]] [Cp [Cs _]]]]. unfold pending. rewrite map_app. apply nodup_app.
    - clear -Np Cp. induction (q_heap (e_p en)) as [|x r IH]; [constructor|]. cbn [map] in *.
      inversion Np; subst. constructor.
      + intro Hin. apply in_map_iff in Hin. destruct Hin as [y [Hy1 Hy2]]. unfold ident in Hy1.
        inversion Hy1. apply H1. apply in_map_iff. exists y. split; [assumption|exact Hy2].
      + apply IH; [assumption|]. intros y Hy. apply Cp. right; exact Hy.
    - clear -Ns Cs. induction (q_heap (e_s en)) as [|x r IH]; [constructor|]. cbn [map] in *.
      inversion Ns; subst. constructor.
      + intro Hin. apply in_map_iff in Hin. destruct Hin as [y [Hy1 Hy2]]. unfold ident in Hy1.
        inversion Hy1. apply H1. apply in_map_iff. exists y. split; [assumption|exact Hy2].
      + apply IH; [assumption|]. intros y Hy. apply Cs. right; exact Hy.
    - intros i Hp Hs. apply in_map_iff in Hp. apply in_map_iff in Hs.
      destruct Hp as [a [Ha1 Ha2]]. destruct Hs as [b [Hb1 Hb2]]. unfold ident in *.
      rewrite <- Hb1 in Ha1. inversion Ha1. rewrite (Cp a Ha2), (Cs b Hb2) in *. discriminate.
  Qed.

  Lemma eok_lt en : eok en -> forall x, In x (pending en) -> qseq x < cnext en (qc x).
  Proof.
    intros [[_ [Lp _]] [[_ [Ls _]] [Cp [Cs _]]]] x Hx. unfold pending in Hx. apply in_app_or in Hx.
    unfold cnext. destruct Hx as [Hx|Hx]; [rewrite (Cp x Hx); apply Lp; exact Hx|rewrite (Cs x Hx); apply Ls; exact Hx].
  Qed.

  Lemma J_init en0 : eok en0 -> J en0 [] en0.
  Proof.
    intro Hok. constructor; cbn [handled scheduled map flat_map last]; rewrite ?app_nil_r.
    - exact Hok.
    - reflexivity.
    - apply eok_lt; assumption.
    - apply eok_ident_nodup; exact Hok.
    - intro; lia.
    - intros x [].
    - intros x [].
    - intros x [].
    - lia.
    - reflexivity.
    - constructor.
    - constructor.
    - constructor.
    - intros s y [].
  Qed.

  Lemma handled_snoc (l : list (@step E)) s : handled (l ++ [s]) = handled l ++ [st_ev s].
  Proof. unfold handled. rewrite map_app. reflexivity. Qed.

  Lemma scheduled_snoc (l : list (@step E)) s : scheduled (l ++ [s]) = scheduled l ++ st_sched s.
  Proof. unfold scheduled. rewrite flat_map_app. cbn [flat_map]. rewrite app_nil_r. reflexivity. Qed.

  Lemma J_step G en0 l hs en s hs' en' : H_ok -> J en0 l en -> step_rel G hs en s hs' en' -> J en0 (l ++ [s]) en'.
  Proof.
    intros HH HJ [_ [Hmore [Hd Hsok]]]. destruct HJ.
    destruct (dispatch_spec hs en HH J_ok0 Hmore)
      as (x & en1 & s1 & hs1 & en1' & Hne & Hd' & Hev & _ & Hsn & Hok' & Hnow' & Hle & P & P' & B & Hmono & Hrng & Hnd & Hss & _ & _ & _).
    rewrite Hd in Hd'. inversion Hd'; subst s1 hs1 en1'. clear Hd'.
    assert (Hxin : In x (pending en)) by (eapply Permutation_in; [apply Permutation_sym; exact P|left; reflexivity]).
    assert (Hsub : forall y, In y (pending en1) -> In y (pending en)).
    { intros y Hy. eapply Permutation_in; [apply Permutation_sym; exact P|right; exact Hy]. }
    assert (PP : Permutation (pending en' ++ handled l ++ [x]) (st_sched s ++ (pending en ++ handled l))).
    { etransitivity; [apply Permutation_app_tail; exact P'|].
      etransitivity; [apply perm_rot|]. etransitivity; [apply Permutation_app_comm|].
      apply Permutation_app_head. apply Permutation_app_tail. apply Permutation_sym. exact P. }
    constructor; rewrite ?handled_snoc, ?scheduled_snoc, ?Hev.
    - exact Hok'.
    - etransitivity; [exact PP|]. etransitivity; [apply Permutation_app_comm|].
      rewrite app_assoc. apply Permutation_app_tail. exact J_perm0.
    - intros y Hy. apply (Permutation_in _ PP) in Hy. apply in_app_or in Hy. destruct Hy as [Hy|Hy].
      + apply Hrng. exact Hy.
      + specialize (J_lt0 y Hy). specialize (Hmono (qc y)). lia.
    - eapply Permutation_NoDup; [apply Permutation_map; apply Permutation_sym; exact PP|].
      rewrite map_app. apply nodup_app; [exact Hnd|exact J_nd0|].
      intros i Hi1 Hi2. apply in_map_iff in Hi1. apply in_map_iff in Hi2.
      destruct Hi1 as [a [Ha1 Ha2]]. destruct Hi2 as [b [Hb1 Hb2]].
      specialize (Hrng a Ha2). specialize (J_lt0 b Hb2). unfold ident in *. rewrite <- Hb1 in Ha1.
      inversion Ha1 as [[Hc Hq]]. rewrite Hc, Hq in Hrng. lia.
    - intro b. specialize (J_mono0 b). specialize (Hmono b). lia.
    - intros y Hy. apply in_app_or in Hy. destruct Hy as [Hy|Hy]; [apply J_fresh0; exact Hy|].
      specialize (Hrng y Hy). specialize (J_mono0 (qc y)). lia.
    - intros y Hy. apply in_app_or in Hy. destruct Hy as [Hy|[<-|[]]]; [apply J_lo0; exact Hy|lia].
    - intros y Hy. apply in_app_or in Hy. destruct Hy as [Hy|[<-|[]]]; [specialize (J_hi0 y Hy); lia|lia].
    - lia.
    - rewrite map_app. cbn [map]. rewrite last_last. exact Hnow'.
    - rewrite map_app. apply ssorted_app. split; [exact J_hsorted0|]. split; [repeat constructor|].
      intros a b Ha [<-|[]]. apply in_map_iff in Ha. destruct Ha as [y [<- Hy]]. specialize (J_hi0 y Hy). lia.
    - apply ssorted_app. split; [exact J_ssorted0|]. split; [exact Hss|].
      intros a b Ha Hb Hc. specialize (Hrng b Hb).
      assert (Hin : In a (pending en ++ handled l)).
      { eapply Permutation_in; [apply Permutation_sym; exact J_perm0|]. apply in_or_app. right; exact Ha. }
      specialize (J_lt0 a Hin). rewrite Hc in J_lt0. lia.
    - apply Forall_app. split; [exact J_snow0|]. constructor; [|constructor]. rewrite Hev. exact Hsn.
    - intros s' y Hs' Hy. apply in_app_or in Hs'. destruct Hs' as [Hs'|[<-|[]]]; [eapply J_sfut0; eauto|].
      rewrite Hev. apply Hrng. exact Hy.
  Qed.

  Lemma exec_J G hs0 en0 l hs en : H_ok -> eok en0 -> exec G hs0 en0 l hs en -> J en0 l en.
  Proof.
    intros HH Hok Hex. induction Hex as [|l hs en s hs' en' _ IH Hst]; [apply J_init; exact Hok|].
    eapply J_step; eauto.
  Qed.

  (* ---------------------------------------------------------------- consequences *)

  Lemma no_more_pending (en : @engine E) : no_more_event en = true <-> pending en = [].
  Proof.
    unfold no_more_event, pending. rewrite andb_true_iff, !len_zero. split.
    - intros [-> ->]. reflexivity.
    - intro Hnil. apply app_eq_nil in Hnil. exact Hnil.
  Qed.

  Lemma run_no_panic fuel : H_ok -> forall hs en, eok en -> r_out (run etime esec H fuel hs en) <> Panicked.
  Proof.
    intros HH. induction fuel as [|f IH]; intros hs en Hok; cbn [run].
    - destruct (no_more_event en); cbn; discriminate.
    - destruct (no_more_event en) eqn:Em; [cbn; discriminate|].
      destruct (dispatch_spec hs en HH Hok Em) as (x & en1 & s & hs' & en' & _ & Hd & _ & Hsok & _ & Hok' & _).
      rewrite Hd, Hsok. cbn. apply IH. exact Hok'.
  Qed.

  Lemma run_until_no_panic t fuel : H_ok -> forall hs en, eok en ->
    r_out (run_until etime esec H t fuel hs en) <> Panicked.
  Proof.
    intros HH. induction fuel as [|f IH]; intros hs en Hok; cbn [run_until].
    - destruct (no_more_event en || beyond etime t en); cbn; discriminate.
    - destruct (no_more_event en) eqn:Em; [cbn; discriminate|].
      destruct (beyond etime t en); [cbn; discriminate|].
      destruct (dispatch_spec hs en HH Hok Em) as (x & en1 & s & hs' & en' & _ & Hd & _ & Hsok & _ & Hok' & _).
      rewrite Hd, Hsok. cbn. apply IH. exact Hok'.
  Qed.

  (** a completed Run: bookkeeping invariant and empty queues *)
  Lemma run_done_J fuel hs en0 : H_ok -> eok en0 ->
    let r := run etime esec H fuel hs en0 in
    r_out r = Done -> J en0 (r_log r) (r_en r) /\ pending (r_en r) = [].
  Proof.
    intros HH Hok r Hd. destruct (run_exec fuel hs en0) as [H1 H2]. fold r in H1, H2. split.
    - eapply exec_J; [exact HH|exact Hok|]. apply H1. rewrite Hd. discriminate.
    - apply no_more_pending. apply H2. exact Hd.
  Qed.

  (** master ordering fact: whatever is handled is due before everything else pending at that moment *)
  Lemma exec_order G hs0 en0 l1 s l2 hs en : H_ok -> eok en0 -> exec G hs0 en0 (l1 ++ s :: l2) hs en ->
    forall y, In y (pending en0 ++ scheduled l1) -> ~ In y (handled l1) -> y <> st_ev s -> bef (st_ev s) y.
  Proof.
    intros HH Hok Hex y Hy Hnh Hne.
    change (l1 ++ s :: l2) with (l1 ++ [s] ++ l2) in Hex. rewrite app_assoc in Hex.
    destruct (exec_split _ _ _ _ _ _ _ Hex) as (hm & em & Hex1 & _).
    apply exec_snoc_inv in Hex1. destruct Hex1 as (hs1 & en1 & Hex1 & Hst).
    pose proof (exec_J _ _ _ _ _ _ HH Hok Hex1) as HJ.
    destruct Hst as (_ & Hmore & Hd & _).
    destruct (dispatch_spec hs1 en1 HH (J_ok _ _ _ HJ) Hmore)
      as (x & en2 & s' & hs' & en' & _ & Hd' & Hev & _ & _ & _ & _ & _ & P & _ & B & _).
    rewrite Hd in Hd'. inversion Hd'; subst s' hs' en'. rewrite Hev in *.
    assert (Hin : In y (pending en1)).
    { apply (Permutation_in _ (Permutation_sym (J_perm _ _ _ HJ))) in Hy.
      apply in_app_or in Hy. destruct Hy as [Hy|Hy]; [exact Hy|contradiction]. }
    apply (Permutation_in _ P) in Hin. destruct Hin as [<-|Hin]; [congruence|apply B; exact Hin].
  Qed.

  (** FIFO: among events of one instant and class, a later-handled one has the larger sequence number *)
  Lemma exec_fifo G hs0 en0 l1 s l2 hs en : H_ok -> eok en0 -> exec G hs0 en0 (l1 ++ s :: l2) hs en ->
    forall y, In y (handled l2) -> qc y = qc (st_ev s) -> qt y = qt (st_ev s) -> qseq (st_ev s) < qseq y.
  Proof.
    intros HH Hok Hex y Hy Hc Ht.
    change (l1 ++ s :: l2) with (l1 ++ [s] ++ l2) in Hex. rewrite app_assoc in Hex.
    destruct (exec_split _ _ _ _ _ _ _ Hex) as (hm & em & Hex1 & Hex2).
    pose proof (exec_J _ _ _ _ _ _ HH Hok Hex1) as HJ1.
    pose proof (exec_J _ _ _ _ _ _ HH (J_ok _ _ _ HJ1) Hex2) as HJ2.
    assert (Hx : qseq (st_ev s) < cnext em (qc (st_ev s))).
    { apply (J_lt _ _ _ HJ1). apply in_or_app. right. rewrite handled_snoc. apply in_or_app. right. left. reflexivity. }
    assert (Hy' : In y (pending em ++ scheduled l2)).
    { apply (Permutation_in _ (J_perm _ _ _ HJ2)). apply in_or_app. right. exact Hy. }
    apply in_app_or in Hy'. destruct Hy' as [Hy'|Hy'].
    2:{ pose proof (J_fresh _ _ _ HJ2 y Hy') as Hf. rewrite Hc in Hf. lia. }
    apply exec_snoc_inv in Hex1. destruct Hex1 as (hs1 & en1 & Hex1 & Hst).
    pose proof (exec_J _ _ _ _ _ _ HH Hok Hex1) as HJ.
    destruct Hst as (_ & Hmore & Hd & _).
    destruct (dispatch_spec hs1 en1 HH (J_ok _ _ _ HJ) Hmore)
      as (x & en2 & s' & hs' & en' & _ & Hd' & Hev & _ & _ & _ & _ & _ & P & P' & B & _ & Hrng & _).
    rewrite Hd in Hd'. inversion Hd'; subst s' hs' en'. rewrite Hev in *.
    assert (Hxlt : qseq x < cnext en1 (qc x)).
    { apply eok_lt; [exact (J_ok _ _ _ HJ)|]. eapply Permutation_in; [apply Permutation_sym; exact P|left; reflexivity]. }
    apply (Permutation_in _ P') in Hy'. apply in_app_or in Hy'. destruct Hy' as [Hy'|Hy'].
    - destruct (Hrng y Hy') as [Hr _]. rewrite Hc in Hr. lia.
    - specialize (B y Hy'). unfold before in B. rewrite Hc in B.
      destruct B as [B|[_ [[B1 B2]|[_ B]]]]; [lia|congruence|exact B].
  Qed.

  (* ---------------------------------------------------------------- RunUntil *)

  Lemma beyond_false_le t en x : next_event_time etime en = Some (qt x) -> beyond etime t en = false -> qt x <= t.
  Proof. unfold beyond. intros -> Hb. apply N.ltb_ge in Hb. exact Hb. Qed.

  Lemma exec_until_le t hs0 en0 l hs en : H_ok -> eok en0 -> exec (Guntil t) hs0 en0 l hs en ->
    forall x, In x (handled l) -> qt x <= t.
  Proof.
    intros HH Hok Hex. induction Hex as [|l hs en s hs' en' Hex IH Hst]; [intros x []|].
    intros x Hx. rewrite handled_snoc in Hx. apply in_app_or in Hx. destruct Hx as [Hx|[<-|[]]]; [apply IH; exact Hx|].
    pose proof (exec_J _ _ _ _ _ _ HH Hok Hex) as HJ.
    destruct Hst as (Hg & Hmore & Hd & _).
    destruct (dispatch_spec hs en HH (J_ok _ _ _ HJ) Hmore)
      as (x & en2 & s' & hs1 & en1 & _ & Hd' & Hev & _ & _ & _ & _ & _ & _ & _ & _ & _ & _ & _ & _ & NT & _).
    rewrite Hd in Hd'. inversion Hd'; subst s' hs1 en1. rewrite Hev.
    eapply beyond_false_le; [exact NT|exact Hg].
  Qed.

  Lemma beyond_pending t en : eok en -> no_more_event en = false -> beyond etime t en = true ->
    forall y, In y (pending en) -> t < qt y.
  Proof.
    intros Hok Hmore Hb y Hy.
    destruct (next_event_spec etime esec en Hok Hmore) as (x & en1 & _ & _ & P & _ & _ & B & NT).
    unfold beyond in Hb. rewrite NT in Hb. apply N.ltb_lt in Hb.
    apply (Permutation_in _ P) in Hy. destruct Hy as [<-|Hy]; [exact Hb|].
    specialize (B y Hy). unfold before in B. lia.
  Qed.

  (** RunUntil(t) that returns: handled exactly the events with time <= t (queued before or
      scheduled during the call), everything later is still queued, the clock is at the last
      handled event *)
  Lemma run_until_exact t fuel hs en0 : H_ok -> eok en0 ->
    let r := run_until etime esec H t fuel hs en0 in
    r_out r = Done ->
    let all := pending en0 ++ scheduled (r_log r) in
    J en0 (r_log r) (r_en r) /\
    (forall x, In x (handled (r_log r)) -> qt x <= t) /\
    (forall y, In y (pending (r_en r)) -> t < qt y) /\
    Permutation (handled (r_log r)) (filter (fun x => qt x <=? t) all) /\
    Permutation (pending (r_en r)) (filter (fun x => negb (qt x <=? t)) all).
  Proof.
    intros HH Hok r Hd all. destruct (run_until_exec t fuel hs en0) as [H1 H2]. fold r in H1, H2.
    assert (Hex : exec (Guntil t) hs en0 (r_log r) (r_hs r) (r_en r)) by (apply H1; rewrite Hd; discriminate).
    pose proof (exec_J _ _ _ _ _ _ HH Hok Hex) as HJ.
    assert (Hle : forall x, In x (handled (r_log r)) -> qt x <= t) by (eapply exec_until_le; eauto).
    assert (Hgt : forall y, In y (pending (r_en r)) -> t < qt y).
    { destruct (H2 Hd) as [Hnm|Hb].
      - apply no_more_pending in Hnm. rewrite Hnm. intros y [].
      - destruct (no_more_event (r_en r)) eqn:Em.
        + apply no_more_pending in Em. rewrite Em. intros y [].
        + apply beyond_pending; [exact (J_ok _ _ _ HJ)|exact Em|exact Hb]. }
    split; [exact HJ|]. split; [exact Hle|]. split; [exact Hgt|].
    apply perm_partition.
    - etransitivity; [apply Permutation_app_comm|exact (J_perm _ _ _ HJ)].
    - intros x Hx. apply N.leb_le. apply Hle. exact Hx.
    - intros x Hx. apply N.leb_gt. apply Hgt. exact Hx.
  Qed.

  (* ---------------------------------------------------------------- boundaries are invisible *)

  Definition app_log (l : list (@step E)) (r : @result E HS) : @result E HS :=
    mk_result (r_out r) (l ++ r_log r) (r_hs r) (r_en r).

  Lemma run_fuel_mono fuel : forall hs en k, r_out (run etime esec H fuel hs en) <> OutOfFuel ->
    run etime esec H (fuel + k) hs en = run etime esec H fuel hs en.
  Proof.
    induction fuel as [|f IH]; intros hs en k Hno.
    - cbn [run] in *. destruct (no_more_event en) eqn:Em; [|cbn in Hno; congruence].
      destruct k; cbn [Nat.add run]; rewrite Em; reflexivity.
    - cbn [Nat.add run] in *. destruct (no_more_event en); [reflexivity|].
      destruct (disp hs en) as [|x en1|s hs' en']; try reflexivity.
      destruct (st_ok s); [|reflexivity]. cbn in Hno. rewrite IH by exact Hno. reflexivity.
  Qed.

  Lemma run_S f hs en : run etime esec H (S f) hs en =
    if no_more_event en then mk_result Done [] hs en else
    match disp hs en with
    | DNone => mk_result Panicked [] hs en
    | DPast _ en1 => mk_result Panicked [] hs en1
    | DStep s hs' en' =>
        if st_ok s then cons_log s (run etime esec H f hs' en') else mk_result Panicked [s] hs' en'
    end.
  Proof. reflexivity. Qed.

  Lemma run_until_S t f hs en : run_until etime esec H t (S f) hs en =
    if no_more_event en then mk_result Done [] hs en else
    if beyond etime t en then mk_result Done [] hs en else
    match disp hs en with
    | DNone => mk_result Panicked [] hs en
    | DPast _ en1 => mk_result Panicked [] hs en1
    | DStep s hs' en' =>
        if st_ok s then cons_log s (run_until etime esec H t f hs' en') else mk_result Panicked [s] hs' en'
    end.
  Proof. reflexivity. Qed.

  (** RunUntil is a prefix of Run *)
  Lemma run_until_prefix t fuel : forall hs en, r_out (run etime esec H fuel hs en) <> OutOfFuel ->
    let r := run etime esec H fuel hs en in
    let u := run_until etime esec H t fuel hs en in
    match r_out u with
    | Done => r = app_log (r_log u) (run etime esec H fuel (r_hs u) (r_en u))
    | Panicked => u = r
    | OutOfFuel => False
    end.
  Proof.
    induction fuel as [|f IH]; intros hs en Hno; cbn zeta.
    - cbn [run run_until] in *. destruct (no_more_event en) eqn:Em; [|cbn in Hno; congruence].
      cbn. rewrite Em. reflexivity.
    - rewrite (run_until_S t f hs en). rewrite (run_S f hs en) in Hno.
      destruct (no_more_event en) eqn:Em.
      { cbn [r_out r_log r_hs r_en]. rewrite (run_S f hs en), Em. reflexivity. }
      destruct (beyond etime t en).
      { cbn [r_out r_log r_hs r_en]. destruct (run etime esec H (S f) hs en); reflexivity. }
      rewrite (run_S f hs en), Em.
      destruct (disp hs en) as [|x en1|s hs' en']; try reflexivity.
      destruct (st_ok s); [|reflexivity].
      cbn [cons_log r_out] in Hno. specialize (IH hs' en' Hno). cbn zeta in IH.
      set (u := run_until etime esec H t f hs' en') in *.
      set (r := run etime esec H f hs' en') in *.
      cbn [cons_log r_out r_log r_hs r_en]. destruct (r_out u) eqn:Eu.
      + assert (Hrest : r_out (run etime esec H f (r_hs u) (r_en u)) <> OutOfFuel).
        { intro Hc. rewrite IH in Hno. cbn in Hno. congruence. }
        replace (S f) with (f + 1)%nat by lia. rewrite run_fuel_mono by exact Hrest.
        rewrite IH. reflexivity.
      + destruct IH.
      + rewrite IH. reflexivity.
  Qed.

  (** RunUntil b1; ...; RunUntil bk; Run  =  Run, whenever the single Run terminates within the fuel
      (normally or by a panic): same concatenated log, same outcome, same final state; every call
      but the last returns normally. *)
  Lemma run_segments_concat bs : forall fuel hs en,
    let r := run etime esec H fuel hs en in
    r_out r <> OutOfFuel ->
    exists rs rl, run_segments etime esec H bs fuel hs en = rs ++ [rl] /\
      Forall (fun x => r_out x = Done) rs /\
      flat_map (@r_log E HS) (rs ++ [rl]) = r_log r /\
      r_out rl = r_out r /\ r_hs rl = r_hs r /\ r_en rl = r_en r.
  Proof.
    induction bs as [|b bs IH]; intros fuel hs en r Hno.
    - exists [], r. cbn. rewrite app_nil_r. repeat split; constructor.
    - cbn [run_segments]. pose proof (run_until_prefix b fuel hs en Hno) as Hp. cbn zeta in Hp. fold r in Hp.
      set (u := run_until etime esec H b fuel hs en) in *.
      destruct (r_out u) eqn:Eu.
      + assert (Hrest : r_out (run etime esec H fuel (r_hs u) (r_en u)) <> OutOfFuel).
        { intro Hc. rewrite Hp in Hno. cbn in Hno. congruence. }
        destruct (IH fuel (r_hs u) (r_en u) Hrest) as (rs & rl & Hrs & Hall & Hcat & Ho & Hh & He).
        exists (u :: rs), rl. rewrite Hrs. split; [reflexivity|]. split; [constructor; assumption|].
        cbn [app flat_map]. rewrite Hcat, Ho, Hh, He, Hp. cbn. repeat split; reflexivity.
      + destruct Hp.
      + exists [], u. rewrite Hp. cbn. rewrite app_nil_r. repeat split; constructor.
  Qed.

  (* ---------------------------------------------------------------- SetCurrentTime *)

  Lemma set_time_ok en t : eok en -> (forall x, In x (pending en) -> t <= qt x) -> eok (set_current_time en t).
  Proof.
    intros (A & B & C & D & _) Ht. split; [exact A|]. split; [exact B|]. split; [exact C|]. split; [exact D|].
    exact Ht.
  Qed.

  Lemma next_event_set_time (en : @engine E) t :
    next_event etime (set_current_time en t) =
    match next_event etime en with
    | Some (x, en1) => Some (x, set_current_time en1 t)
    | None => None
    end.
  Proof.
    unfold next_event, set_current_time. cbn [e_p e_s e_now].
    destruct (Nat.eqb (q_len (e_p en)) 0).
    { destruct (q_pop etime (e_s en)) as [[x s']|]; reflexivity. }
    destruct (Nat.eqb (q_len (e_s en)) 0).
    { destruct (q_pop etime (e_p en)) as [[x p']|]; reflexivity. }
    destruct (q_peek (e_p en)); [|reflexivity]. destruct (q_peek (e_s en)); [|reflexivity].
    destruct (qtime etime q <=? qtime etime q0).
    - destruct (q_pop etime (e_p en)) as [[x p']|]; reflexivity.
    - destruct (q_pop etime (e_s en)) as [[x s']|]; reflexivity.
  Qed.

  (** a clock set after the event that is due first makes the next dispatch (hence Run) panic
      before any hook or handler runs; that event is dropped from its queue *)
  Lemma run_clock_ahead_panics en t fuel hs : eok en -> no_more_event en = false ->
    exists x en1, next_event etime en = Some (x, en1) /\
      (forall y, In y (pending en) -> qt x <= qt y) /\
      (qt x < t ->
       disp hs (set_current_time en t) = DPast x (set_current_time en1 t) /\
       run etime esec H (S fuel) hs (set_current_time en t) =
         mk_result Panicked [] hs (set_current_time en1 t)).
  Proof.
    intros Hok Hmore.
    destruct (next_event_spec etime esec en Hok Hmore) as (x & en1 & Hne & _ & P & _ & _ & B & _).
    exists x, en1. split; [exact Hne|]. split.
    { intros y Hy. apply (Permutation_in _ P) in Hy. destruct Hy as [<-|Hy]; [lia|].
      specialize (B y Hy). unfold before in B. lia. }
    intro Hlt.
    assert (Hd : disp hs (set_current_time en t) = DPast x (set_current_time en1 t)).
    { unfold dispatch_next. rewrite next_event_set_time, Hne. cbn [set_current_time e_now].
      destruct (N.ltb_spec (qt x) t); [reflexivity|lia]. }
    split; [exact Hd|]. cbn [run].
    assert (Hm : no_more_event (set_current_time en t) = false) by exact Hmore.
    rewrite Hm, Hd. reflexivity.
  Qed.
End RunProofs.
