(** Shared base: imports, 64-bit wrap-around arithmetic, case-evaluation helpers. *)
From Coq Require Export List Bool Arith NArith ZArith Lia.
From Coq Require Export ZifyBool ZifyNat ZifyN.
Export ListNotations.

Ltac Zify.zify_post_hook ::= Z.div_mod_to_equations.

Arguments N.add : simpl never.
Arguments N.mul : simpl never.
Arguments N.sub : simpl never.
Arguments N.div : simpl never.
Arguments N.modulo : simpl never.
Arguments N.pow : simpl never.

(** [bad_cases f cs]: indices of the cases on which the boolean evaluator [f]
    returns [false].  Used by the generated case files. *)
Fixpoint bad_cases {A : Type} (f : A -> bool) (cs : list (N * A)) : list N :=
  match cs with
  | [] => []
  | (i, c) :: r => if f c then bad_cases f r else i :: bad_cases f r
  end.

Lemma bad_cases_nil_all {A} (f : A -> bool) cs :
  bad_cases f cs = [] -> forall i c, In (i, c) cs -> f c = true.
Proof.
  induction cs as [|[j d] r IH]; cbn [bad_cases]; intros H i c Hin; [destruct Hin|].
  destruct (f d) eqn:E; [|discriminate].
  destruct Hin as [Heq|Hin]; [inversion Heq; subst; exact E|].
  eapply IH; eauto.
Qed.

(** 64-bit unsigned wrap. *)
Definition two64 : N := 18446744073709551616%N.
Definition w64 (x : N) : N := (x mod two64)%N.
Definition w64z (x : Z) : N := Z.to_N (x mod 18446744073709551616)%Z.

Lemma two64_eq : two64 = (2 ^ 64)%N.
Proof. reflexivity. Qed.

Lemma w64_small x : (x < two64)%N -> w64 x = x.
Proof. intro H. unfold w64. apply N.mod_small. exact H. Qed.

Lemma w64_lt x : (w64 x < two64)%N.
Proof. unfold w64. apply N.mod_lt. unfold two64. lia. Qed.

Definition opt_eqb {A} (eqb : A -> A -> bool) (a b : option A) : bool :=
  match a, b with
  | Some x, Some y => eqb x y
  | None, None => true
  | _, _ => false
  end.

Fixpoint list_eqb {A} (eqb : A -> A -> bool) (a b : list A) : bool :=
  match a, b with
  | [], [] => true
  | x :: a', y :: b' => eqb x y && list_eqb eqb a' b'
  | _, _ => false
  end.

Lemma list_eqb_eq {A} (eqb : A -> A -> bool)
  (Heq : forall x y, eqb x y = true <-> x = y) a b :
  list_eqb eqb a b = true <-> a = b.
Proof.
  revert b; induction a as [|x a IH]; intros [|y b]; cbn [list_eqb]; split; intro H;
    try reflexivity; try discriminate.
  - apply andb_true_iff in H. destruct H as [H1 H2].
    apply Heq in H1. apply IH in H2. subst. reflexivity.
  - inversion H; subst. apply andb_true_iff. split; [apply Heq; reflexivity|apply IH; reflexivity].
Qed.

Definition listN_eqb := list_eqb N.eqb.

Lemma listN_eqb_eq a b : listN_eqb a b = true <-> a = b.
Proof. apply list_eqb_eq. intros x y. apply N.eqb_eq. Qed.
