(** Compact byte strings for generated case files: a long [list N] literal is
    slow to parse (and overflows the stack beyond a few 10^4 elements), so the
    harness prints long strings as chunks, each a hexadecimal numeral whose
    leading digit 1 is a sentinel: [0x1 b1 b2 ... bk].  [unp] turns the chunks
    back into the byte list. *)
From Akita Require Import Lib.Base.
Local Open Scope N_scope.

Fixpoint unpack_aux (fuel : nat) (v : N) (acc : list N) : list N :=
  match fuel with
  | O => acc
  | S f => if v <=? 1 then acc else unpack_aux f (N.shiftr v 8) (N.land v 255 :: acc)
  end.

(** one chunk of at most 1500 bytes *)
Definition unpack (v : N) : list N := unpack_aux 1500 v [].

Definition unp (chunks : list N) : list N := flat_map unpack chunks.

Example unp_example : unp [0x100ff2c; 0x141] = [0; 255; 44; 65].
Proof. reflexivity. Qed.
