(** Small-step interleaving semantics for the schedule properties (C04, C05, C35, C40).

    A system is a global state [St] (shared variables AND one program counter per
    thread) together with a partial step function [step : Tid -> St -> option St]:
    [step t s = None] means thread [t] is not enabled in [s] (blocked on a mutex /
    channel / barrier, or finished).  A scheduler ORACLE is a list of thread ids; a
    disabled choice stutters.  Every behaviour the Go scheduler can produce at the
    granularity of the modelled atomic operations is [run o s0] for some oracle [o],
    so a statement proved for every oracle holds for every interleaving.

    What is assumed (named in each property's `assumptions`): each modelled step is
    atomic and sequentially consistent (Go memory model for sync.Mutex, sync/atomic,
    channels, WaitGroup). *)
From Coq Require Import List Bool Arith Lia Permutation.
Import ListNotations.

Section Lts.
  Context {St Tid : Type}.
  Variable step : Tid -> St -> option St.

  Definition sched (s : St) (t : Tid) : St :=
    match step t s with Some s' => s' | None => s end.

  Definition run (o : list Tid) (s : St) : St := fold_left sched o s.

  Lemma run_nil s : run [] s = s.
  Proof. reflexivity. Qed.

  Lemma run_cons t o s : run (t :: o) s = run o (sched s t).
  Proof. reflexivity. Qed.

  Lemma run_app o1 o2 s : run (o1 ++ o2) s = run o2 (run o1 s).
  Proof. unfold run. apply fold_left_app. Qed.

  Lemma run_snoc o t s : run (o ++ [t]) s = sched (run o s) t.
  Proof. rewrite run_app. reflexivity. Qed.

  Definition reachable (s0 s : St) : Prop := exists o, run o s0 = s.

  Lemma reachable_refl s : reachable s s.
  Proof. exists []. reflexivity. Qed.

  Lemma reachable_step s0 s t : reachable s0 s -> reachable s0 (sched s t).
  Proof. intros [o <-]. exists (o ++ [t]). apply run_snoc. Qed.

  Lemma reachable_trans a b c : reachable a b -> reachable b c -> reachable a c.
  Proof. intros [o1 <-] [o2 <-]. exists (o1 ++ o2). apply run_app. Qed.

  (** Invariant by induction: an invariant of the initial state that every enabled
      atomic step preserves holds after every oracle. *)
  Definition inductive (Inv : St -> Prop) : Prop :=
    forall t s s', Inv s -> step t s = Some s' -> Inv s'.

  Lemma sched_invariant Inv : inductive Inv -> forall s t, Inv s -> Inv (sched s t).
  Proof.
    intros Hind s t Hs. unfold sched. destruct (step t s) as [s'|] eqn:E; [|exact Hs].
    eapply Hind; eauto.
  Qed.

  Theorem run_invariant Inv : inductive Inv -> forall o s, Inv s -> Inv (run o s).
  Proof.
    intros Hind o. induction o as [|t o IH]; intros s Hs; [exact Hs|].
    rewrite run_cons. apply IH. apply sched_invariant; assumption.
  Qed.

  Theorem reachable_invariant Inv s0 :
    inductive Inv -> Inv s0 -> forall s, reachable s0 s -> Inv s.
  Proof. intros Hind H0 s [o <-]. apply run_invariant; assumption. Qed.

  (** The states after every prefix of the oracle (the whole execution). *)
  Fixpoint states (o : list Tid) (s : St) : list St :=
    match o with
    | [] => [s]
    | t :: o' => s :: states o' (sched s t)
    end.

  Lemma states_all Inv : inductive Inv -> forall o s, Inv s -> Forall Inv (states o s).
  Proof.
    intros Hind o. induction o as [|t o IH]; intros s Hs; cbn [states].
    - constructor; [exact Hs|constructor].
    - constructor; [exact Hs|]. apply IH. apply sched_invariant; assumption.
  Qed.

  (** Transition invariants: a property of every (enabled) step taken from an
      invariant state holds for every step of every execution. *)
  Theorem run_step_property Inv (P : Tid -> St -> St -> Prop) :
    inductive Inv ->
    (forall t s s', Inv s -> step t s = Some s' -> P t s s') ->
    forall o s t s', Inv s -> step t (run o s) = Some s' -> P t (run o s) s'.
  Proof.
    intros Hind HP o s t s' Hs E. apply HP; [|exact E]. apply run_invariant; assumption.
  Qed.

  (** A preorder preserved by every step relates the start and end of every run. *)
  Theorem run_preorder Inv (R : St -> St -> Prop) :
    inductive Inv ->
    (forall s, R s s) -> (forall a b c, R a b -> R b c -> R a c) ->
    (forall t s s', Inv s -> step t s = Some s' -> R s s') ->
    forall o s, Inv s -> R s (run o s).
  Proof.
    intros Hind Hr Ht Hs o. induction o as [|t o IH]; intros s HI; [apply Hr|].
    rewrite run_cons. unfold sched at 1. destruct (step t s) as [s'|] eqn:E.
    - eapply Ht; [eapply Hs; eauto|]. apply IH. eapply Hind; eauto.
    - apply IH. exact HI.
  Qed.

  (** Progress by a measure: while [P] holds and the state is not [Done], thread
      [t] is enabled, keeps [P] and strictly decreases [mu]; then scheduling [t]
      [mu s] times reaches a [Done] state. *)
  Theorem run_measure (P Done : St -> Prop) (mu : St -> nat) t :
    (forall s, Done s \/ ~ Done s) ->
    (forall s, P s -> ~ Done s -> exists s', step t s = Some s' /\ P s' /\ mu s' < mu s) ->
    forall n s, P s -> mu s <= n -> exists k, k <= n /\ Done (run (repeat t k) s) /\ P (run (repeat t k) s).
  Proof.
    intros Hdec Hprog n. induction n as [|n IH]; intros s HP Hmu.
    - destruct (Hdec s) as [D|ND]; [exists 0; cbn; auto|].
      destruct (Hprog s HP ND) as [s' [_ [_ Hlt]]]. lia.
    - destruct (Hdec s) as [D|ND]; [exists 0; cbn; split; [lia|auto]|].
      destruct (Hprog s HP ND) as [s' [E [HP' Hlt]]].
      destruct (IH s' HP' ltac:(lia)) as [k [Hk [HD HP'']]].
      exists (S k). split; [lia|]. cbn [repeat]. rewrite run_cons. unfold sched. rewrite E. auto.
  Qed.

  (** Scheduling one thread until a boolean condition holds is an instance of
      [run] (used by the scenario replays of the correspondence checks). *)
  Fixpoint run_until (p : St -> bool) (t : Tid) (fuel : nat) (s : St) : St :=
    match fuel with
    | O => s
    | S f => if p s then s else run_until p t f (sched s t)
    end.

  Lemma run_until_is_run p t fuel s : exists k, k <= fuel /\ run_until p t fuel s = run (repeat t k) s.
  Proof.
    revert s. induction fuel as [|f IH]; intro s; [exists 0; auto|].
    cbn [run_until]. destruct (p s); [exists 0; split; [lia|reflexivity]|].
    destruct (IH (sched s t)) as [k [Hk E]]. exists (S k). split; [lia|exact E].
  Qed.

  Lemma run_until_reachable p t fuel s0 s : reachable s0 s -> reachable s0 (run_until p t fuel s).
  Proof.
    intro H. destruct (run_until_is_run p t fuel s) as [k [_ E]]. rewrite E.
    eapply reachable_trans; [exact H|]. eexists; reflexivity.
  Qed.

  (** Round-robin over a list of threads until the condition holds. *)
  Fixpoint run_rr (p : St -> bool) (ts : list Tid) (fuel : nat) (s : St) : St :=
    match fuel with
    | O => s
    | S f => if p s then s else run_rr p ts f (run ts s)
    end.

  Lemma run_rr_reachable p ts fuel s0 s : reachable s0 s -> reachable s0 (run_rr p ts fuel s).
  Proof.
    revert s. induction fuel as [|f IH]; intros s H; [exact H|].
    cbn [run_rr]. destruct (p s); [exact H|]. apply IH.
    eapply reachable_trans; [exact H|]. eexists; reflexivity.
  Qed.
End Lts.

(** ** Synchronisation primitives as state-transformer fragments.

    A Go [sync.Mutex] has no owner: it is a boolean.  [Unlock] of an unlocked mutex
    is a fatal runtime error, kept as an explicit outcome by the callers. *)
Definition mutex := bool.
Definition mu_free : mutex := false.
Definition mu_try_lock (m : mutex) : option mutex := if m then None else Some true.
Definition mu_unlock (m : mutex) : option mutex := if m then Some false else None.

Lemma mu_try_lock_some m m' : mu_try_lock m = Some m' -> m = false /\ m' = true.
Proof. destruct m; cbn; intro H; [discriminate|inversion H; auto]. Qed.

(** A buffered Go channel is a FIFO list; [chan_recv] blocks on empty. *)
Definition chan_send {A} (c : list A) (x : A) : list A := c ++ [x].
Definition chan_recv {A} (c : list A) : option (A * list A) :=
  match c with [] => None | x :: r => Some (x, r) end.

(** Channel-as-bag: the receiver may obtain any element (position chosen by an oracle). *)
Fixpoint bag_take {A} (i : nat) (c : list A) : option (A * list A) :=
  match c, i with
  | [], _ => None
  | x :: r, O => Some (x, r)
  | x :: r, S j => match bag_take j r with Some (y, r') => Some (y, x :: r') | None => None end
  end.

Lemma bag_take_perm {A} i (c : list A) y r : bag_take i c = Some (y, r) -> Permutation c (y :: r).
Proof.
  revert i y r. induction c as [|x c IH]; intros [|i] y r H; cbn in H; try discriminate.
  - inversion H; subst. apply Permutation_refl.
  - destruct (bag_take i c) as [[y' r']|] eqn:E; [|discriminate]. inversion H; subst.
    eapply perm_trans; [apply perm_skip; eapply IH; eauto|].
    apply perm_swap.
Qed.
