(** Shared model of queueing/buffer.go ([Buffer[T]]) — a slice-backed bounded FIFO.

    The Go representation is [name string; cap int; elements []T].  The slice is
    modelled at the value level as [option (list A)]: [None] is the nil slice,
    [Some []] an empty non-nil slice (the two differ in the JSON form:
    [null] versus the empty array).  [cap] is a Go [int], so it is a [Z] (a negative
    capacity behaves like capacity 0 except that even an empty [Restore] is
    refused).  The zero value of [T] is the section variable [z].

    A Go run-time panic ([log.Panic] in PushTyped and Restore) is the outcome
    [None]; both panics happen before the receiver is modified, so a recovered
    panic leaves the buffer unchanged.

    Second half: the abstract specification [(name, cap, list)] and the
    refinement lemmas, reused by the port (C11) and connection (C10/C09) models. *)
From Akita Require Import Lib.Base.

Section Fifo.
Context {A : Type} (z : A).

Record buf := mk_buf { b_name : list N; b_cap : Z; b_elems : option (list A) }.

(** len/contents of a possibly-nil slice *)
Definition content (b : buf) : list A :=
  match b_elems b with Some l => l | None => [] end.

Definition with_elems (b : buf) (e : option (list A)) : buf :=
  mk_buf (b_name b) (b_cap b) e.

(** NewBuffer: elements is the nil slice. *)
Definition new_buf (name : list N) (cap : Z) : buf := mk_buf name cap None.

(** Size: len(b.elements) *)
Definition size (b : buf) : Z := Z.of_nat (length (content b)).

(** CanPush: len(b.elements) < b.cap *)
Definition can_push (b : buf) : bool := (size b <? b_cap b)%Z.

(** PushTyped: panics if len >= cap, else append (result slice is non-nil). *)
Definition push (e : A) (b : buf) : option buf :=
  if (b_cap b <=? size b)%Z then None
  else Some (with_elems b (Some (content b ++ [e]))).

(** Peek: zero value when empty, else elements[0]. *)
Definition peek (b : buf) : A :=
  match content b with [] => z | x :: _ => x end.

(** UpdateFront: no-op when empty, else elements[0] = e. *)
Definition update_front (e : A) (b : buf) : buf :=
  match content b with
  | [] => b
  | _ :: r => with_elems b (Some (e :: r))
  end.

(** Pop: zero value and no change when empty; else elements[0] and
    elements = elements[1:] (a non-nil, possibly empty slice). *)
Definition pop (b : buf) : A * buf :=
  match content b with
  | [] => (z, b)
  | x :: r => (x, with_elems b (Some r))
  end.

(** Clear: elements = nil. *)
Definition clear (b : buf) : buf := with_elems b None.

(** Elements: a fresh copy (always non-nil in Go; only the contents matter). *)
Definition elements (b : buf) : list A := content b.

(** Restore: panics if len(elements) > cap, else
    elements = append([]T(nil), elements...) — nil when the argument is empty. *)
Definition restore (l : list A) (b : buf) : option buf :=
  if (b_cap b <? Z.of_nat (length l))%Z then None
  else Some (with_elems b (match l with [] => None | _ => Some l end)).

(** JSON form (buffer_json.go: bufferState{Name, Cap, Elements}).  Marshal copies
    the three fields (a nil slice is encoded as null, an empty one as the empty array);
    Unmarshal decodes into a fresh bufferState and assigns all three fields. *)
Record dto := mk_dto { d_name : list N; d_cap : Z; d_elems : option (list A) }.

Definition marshal (b : buf) : dto := mk_dto (b_name b) (b_cap b) (b_elems b).
Definition unmarshal (d : dto) : buf := mk_buf (d_name d) (d_cap d) (d_elems d).

(** ------------------------------------------------------------------ *)
(** Abstract specification: a bounded FIFO list. *)

Record spec := mk_spec { s_name : list N; s_cap : Z; s_list : list A }.

Definition abs (b : buf) : spec := mk_spec (b_name b) (b_cap b) (content b).

Definition s_with (s : spec) (l : list A) : spec := mk_spec (s_name s) (s_cap s) l.
Definition s_size (s : spec) : Z := Z.of_nat (length (s_list s)).
Definition s_full (s : spec) : bool := (s_cap s <=? s_size s)%Z.

(** a push is accepted iff the list is shorter than the capacity *)
Definition s_push (e : A) (s : spec) : option spec :=
  if s_full s then None else Some (s_with s (s_list s ++ [e])).
(** the oldest element, or the zero value *)
Definition s_front (s : spec) : A := hd z (s_list s).
Definition s_pop (s : spec) : A * spec := (s_front s, s_with s (tl (s_list s))).
Definition s_update_front (e : A) (s : spec) : spec :=
  match s_list s with [] => s | _ :: r => s_with s (e :: r) end.
Definition s_clear (s : spec) : spec := s_with s [].
Definition s_restore (l : list A) (s : spec) : option spec :=
  if (Z.of_nat (length l) <=? s_cap s)%Z then Some (s_with s l) else None.

(** the boundedness invariant: never more elements than the capacity *)
Definition bounded (b : buf) : Prop := (length (content b) <= Z.to_nat (b_cap b))%nat.
Definition s_bounded (s : spec) : Prop := (length (s_list s) <= Z.to_nat (s_cap s))%nat.

(** ------------------------------------------------------------------ *)
(** Refinement lemmas: every operation of the slice-level model commutes with [abs]. *)

Lemma abs_new n c : abs (new_buf n c) = mk_spec n c [].
Proof. reflexivity. Qed.

Lemma content_with b e : content (with_elems b e) = match e with Some l => l | None => [] end.
Proof. reflexivity. Qed.

Lemma abs_with b e : abs (with_elems b e) = s_with (abs b) (match e with Some l => l | None => [] end).
Proof. reflexivity. Qed.

Lemma size_abs b : size b = s_size (abs b).
Proof. reflexivity. Qed.

Lemma can_push_abs b : can_push b = negb (s_full (abs b)).
Proof.
  unfold can_push, s_full. rewrite <- size_abs. cbn [abs s_cap].
  destruct (size b <? b_cap b)%Z eqn:E1, (b_cap b <=? size b)%Z eqn:E2; cbn; try reflexivity; lia.
Qed.

Lemma push_abs e b : option_map abs (push e b) = s_push e (abs b).
Proof.
  unfold push, s_push, s_full. rewrite <- size_abs. cbn [abs s_cap s_list].
  destruct (b_cap b <=? size b)%Z; reflexivity.
Qed.

Lemma peek_abs b : peek b = s_front (abs b).
Proof. unfold peek, s_front. cbn [abs s_list]. destruct (content b); reflexivity. Qed.

Lemma pop_abs b : (fst (pop b), abs (snd (pop b))) = s_pop (abs b).
Proof.
  unfold pop, s_pop, s_front. cbn [abs s_list].
  destruct (content b) as [|x r] eqn:E; cbn [fst snd]; [|reflexivity].
  unfold abs, s_with. cbn. rewrite E. reflexivity.
Qed.

Lemma update_front_abs e b : abs (update_front e b) = s_update_front e (abs b).
Proof.
  unfold update_front, s_update_front. cbn [abs s_list].
  destruct (content b) as [|x r] eqn:E; reflexivity.
Qed.

Lemma clear_abs b : abs (clear b) = s_clear (abs b).
Proof. reflexivity. Qed.

Lemma elements_abs b : elements b = s_list (abs b).
Proof. reflexivity. Qed.

Lemma restore_abs l b : option_map abs (restore l b) = s_restore l (abs b).
Proof.
  unfold restore, s_restore. cbn [abs s_cap].
  destruct (b_cap b <? Z.of_nat (length l))%Z eqn:E1,
           (Z.of_nat (length l) <=? b_cap b)%Z eqn:E2; try lia; cbn [option_map]; [reflexivity|].
  destruct l; reflexivity.
Qed.

(** JSON: both directions are exact, for every buffer / every DTO (no guard). *)
Lemma unmarshal_marshal b : unmarshal (marshal b) = b.
Proof. destruct b; reflexivity. Qed.

Lemma marshal_unmarshal d : marshal (unmarshal d) = d.
Proof. destruct d; reflexivity. Qed.

(** ------------------------------------------------------------------ *)
(** Boundedness is preserved by every operation (Restore/Push by their own guard). *)

Lemma bounded_new n c : bounded (new_buf n c).
Proof. unfold bounded. cbn. lia. Qed.

Lemma push_bounded e b b' : bounded b -> push e b = Some b' -> bounded b'.
Proof.
  unfold bounded, push, size. intros Hb H.
  destruct (b_cap b <=? Z.of_nat (length (content b)))%Z eqn:E; [discriminate|].
  injection H as <-. cbn [with_elems content b_elems b_cap]. rewrite app_length. cbn [length]. lia.
Qed.

Lemma push_some_iff e b : (exists b', push e b = Some b') <-> can_push b = true.
Proof.
  unfold push, can_push.
  destruct (b_cap b <=? size b)%Z eqn:E1, (size b <? b_cap b)%Z eqn:E2; try lia; split; intro H;
    try discriminate; try (destruct H; discriminate); eauto.
Qed.

Lemma push_content e b b' : push e b = Some b' -> content b' = content b ++ [e].
Proof.
  unfold push. destruct (b_cap b <=? size b)%Z; [discriminate|]. intro H. injection H as <-. reflexivity.
Qed.

Lemma push_cap e b b' : push e b = Some b' -> b_cap b' = b_cap b /\ b_name b' = b_name b.
Proof.
  unfold push. destruct (b_cap b <=? size b)%Z; [discriminate|]. intro H. injection H as <-. split; reflexivity.
Qed.

Lemma pop_content b : content (snd (pop b)) = tl (content b).
Proof. unfold pop. destruct (content b) as [|x r] eqn:E; cbn [snd tl]; [exact E|reflexivity]. Qed.

Lemma pop_value b : fst (pop b) = hd z (content b).
Proof. unfold pop. destruct (content b); reflexivity. Qed.

Lemma pop_cap b : b_cap (snd (pop b)) = b_cap b /\ b_name (snd (pop b)) = b_name b.
Proof. unfold pop. destruct (content b); split; reflexivity. Qed.

Lemma pop_bounded b : bounded b -> bounded (snd (pop b)).
Proof.
  unfold bounded. intro H. rewrite pop_content. destruct (pop_cap b) as [-> _].
  destruct (content b); cbn [tl length] in *; lia.
Qed.

Lemma update_front_bounded e b : bounded b -> bounded (update_front e b).
Proof.
  unfold bounded, update_front. intro H.
  destruct (content b) as [|x r] eqn:E; [rewrite E; exact H|]. cbn in *. exact H.
Qed.

Lemma clear_bounded b : bounded (clear b).
Proof. unfold bounded. cbn. lia. Qed.

Lemma restore_bounded l b b' : restore l b = Some b' -> bounded b'.
Proof.
  unfold restore, bounded.
  destruct (b_cap b <? Z.of_nat (length l))%Z eqn:E; [discriminate|].
  intro H. injection H as <-.
  destruct l as [|x l]; unfold content; cbn [with_elems b_elems b_cap]; [cbn [length]; lia|].
  change (length (x :: l)) with (S (length l)) in *. lia.
Qed.

Lemma restore_content l b b' : restore l b = Some b' -> content b' = l.
Proof.
  unfold restore. destruct (b_cap b <? Z.of_nat (length l))%Z; [discriminate|].
  intro H. injection H as <-. destruct l; reflexivity.
Qed.

(** snapshot/restore: Restore(Elements()) into a buffer of the same capacity
    reproduces the contents whenever the source was bounded.  (For a negative
    capacity even the empty Restore panics: 0 > cap — hence [0 <= cap].) *)
Lemma restore_elements b c :
  bounded b -> (0 <= b_cap b)%Z -> b_cap c = b_cap b ->
  exists c', restore (elements b) c = Some c' /\ content c' = content b /\ b_cap c' = b_cap c /\ b_name c' = b_name c.
Proof.
  unfold bounded, restore, elements. intros Hb Hpos Hc. rewrite Hc.
  destruct (b_cap b <? Z.of_nat (length (content b)))%Z eqn:E; [lia|].
  eexists. split; [reflexivity|]. cbn [with_elems content b_elems b_cap b_name].
  destruct (content b); auto.
Qed.

Lemma bounded_size b : bounded b -> (0 <= b_cap b)%Z -> (size b <= b_cap b)%Z.
Proof. unfold bounded, size. lia. Qed.

End Fifo.

Arguments mk_buf {A}.
Arguments mk_dto {A}.
Arguments mk_spec {A}.
Arguments new_buf {A}.

(** ------------------------------------------------------------------ *)
(** Size arithmetic used by the port model. *)
Section FifoSize.
Context {A : Type} (z : A).

Lemma push_unfold (e : A) b :
  push e b = if (b_cap b <=? size b)%Z then None else Some (with_elems b (Some (content b ++ [e]))).
Proof. reflexivity. Qed.

Lemma can_push_leb (b : buf (A := A)) : negb (can_push b) = (b_cap b <=? size b)%Z.
Proof. unfold can_push. rewrite Z.leb_antisym. reflexivity. Qed.

Lemma size_app1 (b : buf (A := A)) e :
  Z.of_nat (length (content b ++ [e])) = (size b + 1)%Z.
Proof. unfold size. rewrite app_length. cbn [length]. lia. Qed.

Lemma size_zero_nil (b : buf (A := A)) : (size b =? 0)%Z = match content b with [] => true | _ => false end.
Proof. unfold size. destruct (content b); cbn [length]; lia. Qed.

Lemma pop_cons (b : buf (A := A)) x r :
  content b = x :: r -> pop z b = (x, with_elems b (Some r)).
Proof. unfold pop. intros ->. reflexivity. Qed.

End FifoSize.
