(** Lemmas about Lib/Engine.v: the list-backed binary heap keeps its shape invariant, pops the
    minimum and refines the sorted list; queue/engine invariants; the run loops. *)
From Akita Require Import Lib.Base Lib.Engine.
From Coq Require Import Permutation Sorted FinFun.

(* ------------------------------------------------------------------ eventHeap *)
Section HeapProofs.
  Context {T : Type} (less : T -> T -> bool).

  (** [hle a b]: a is not after b *)
  Definition hle (a b : T) : Prop := less b a = false.

  Hypothesis less_asym : forall a b, less a b = true -> less b a = false.
  Hypothesis hle_trans : forall a b c, hle a b -> hle b c -> hle a c.

  Lemma hle_refl a : hle a a.
  Proof. unfold hle. destruct (less a a) eqn:E; [|reflexivity]. rewrite (less_asym _ _ E) in E. discriminate. Qed.

  Lemma less_hle a b : less a b = true -> hle a b.
  Proof. intro H. apply less_asym. exact H. Qed.

  (* ---- upd *)
  Lemma upd_length (h : list T) i x : length (upd h i x) = length h.
  Proof. revert i; induction h as [|y r IH]; intros [|j]; cbn; auto. Qed.

  Lemma nth_error_upd (h : list T) i x j :
    nth_error (upd h i x) j =
    if Nat.eqb j i then (if Nat.ltb i (length h) then Some x else None) else nth_error h j.
  Proof.
    revert i j; induction h as [|y r IH]; intros i j.
    - assert (E : Nat.ltb i (length (@nil T)) = false) by (apply Nat.ltb_ge; cbn; lia).
      rewrite E. destruct i; cbn [upd]; destruct (Nat.eqb j _); destruct j; reflexivity.
    - destruct i as [|i], j as [|j]; cbn [upd nth_error length]; try reflexivity.
      rewrite IH. change (Nat.eqb (S j) (S i)) with (Nat.eqb j i).
      change (Nat.ltb (S i) (S (length r))) with (Nat.ltb i (length r)). reflexivity.
  Qed.

  Lemma nth_error_upd_eq (h : list T) i x : (i < length h)%nat -> nth_error (upd h i x) i = Some x.
  Proof.
    intro H. rewrite nth_error_upd, Nat.eqb_refl.
    destruct (Nat.ltb i (length h)) eqn:E; [reflexivity|]. apply Nat.ltb_ge in E. lia.
  Qed.

  Lemma nth_error_upd_neq (h : list T) i x j : j <> i -> nth_error (upd h i x) j = nth_error h j.
  Proof. intro H. rewrite nth_error_upd. destruct (Nat.eqb j i) eqn:E; [apply Nat.eqb_eq in E; lia|reflexivity]. Qed.

  Lemma nth_error_lt {A} (l : list A) i a : nth_error l i = Some a -> (i < length l)%nat.
  Proof. intro H. apply nth_error_Some. congruence. Qed.

  (** exchanging two cells is a permutation *)
  Lemma upd_swap_perm (h : list T) i p a b :
    nth_error h i = Some a -> nth_error h p = Some b -> Permutation (upd (upd h i b) p a) h.
  Proof.
    intros Hi Hp. apply Permutation_sym. apply Permutation_nth_error. split.
    - rewrite !upd_length. reflexivity.
    - exists (fun n => if Nat.eqb n i then p else if Nat.eqb n p then i else n). split.
      + intros x y. cbv beta.
        destruct (Nat.eqb_spec x i), (Nat.eqb_spec y i), (Nat.eqb_spec x p), (Nat.eqb_spec y p);
          intros; subst; try lia; try congruence.
      + intro n. pose proof (nth_error_lt _ _ _ Hi) as Li. pose proof (nth_error_lt _ _ _ Hp) as Lp.
        destruct (Nat.eq_dec n p) as [->|Np].
        * rewrite nth_error_upd_eq by (rewrite upd_length; exact Lp).
          rewrite Nat.eqb_refl. destruct (Nat.eqb p i) eqn:E; [apply Nat.eqb_eq in E; subst; congruence|congruence].
        * rewrite nth_error_upd_neq by exact Np.
          apply Nat.eqb_neq in Np. rewrite Np.
          destruct (Nat.eqb n i) eqn:E.
          -- apply Nat.eqb_eq in E; subst. rewrite nth_error_upd_eq by exact Li. congruence.
          -- apply Nat.eqb_neq in E. rewrite nth_error_upd_neq by exact E. reflexivity.
  Qed.

  (* ---- index arithmetic *)
  Lemma par_lt i : (0 < i)%nat -> (par i < i)%nat.
  Proof. unfold par. intro H. lia. Qed.

  Lemma par_child c i : (0 < c)%nat -> par c = i -> c = (2 * i + 1)%nat \/ c = (2 * i + 2)%nat.
  Proof. unfold par. intros H1 H2. lia. Qed.

  Lemma par_left i : par (2 * i + 1) = i.
  Proof. unfold par. lia. Qed.

  Lemma par_right i : par (2 * i + 2) = i.
  Proof. unfold par. lia. Qed.

  (** the shape invariant: no cell is before its parent *)
  Definition heap_ok (h : list T) : Prop :=
    forall j a b, (0 < j)%nat -> nth_error h j = Some a -> nth_error h (par j) = Some b -> hle b a.

  (** ... except possibly between [i] and its parent (sift-up in progress) *)
  Definition up_inv (h : list T) (i : nat) : Prop :=
    (forall j a b, (0 < j)%nat -> j <> i -> nth_error h j = Some a -> nth_error h (par j) = Some b -> hle b a) /\
    (forall c a b, (0 < i)%nat -> (0 < c)%nat -> par c = i ->
                   nth_error h c = Some a -> nth_error h (par i) = Some b -> hle b a).

  (** ... except possibly between [i] and its children (sift-down in progress) *)
  Definition down_inv (h : list T) (i : nat) : Prop :=
    (forall j a b, (0 < j)%nat -> par j <> i -> nth_error h j = Some a -> nth_error h (par j) = Some b -> hle b a) /\
    (forall c a b, (0 < i)%nat -> (0 < c)%nat -> par c = i ->
                   nth_error h c = Some a -> nth_error h (par i) = Some b -> hle b a).

  Lemma up_length fuel : forall h i, length (up less fuel h i) = length h.
  Proof.
    induction fuel as [|f IH]; intros h i; cbn [up]; [reflexivity|].
    destruct (Nat.eqb i 0); [reflexivity|].
    destruct (nth_error h i) as [a|]; [|reflexivity].
    destruct (nth_error h (par i)) as [b|]; [|reflexivity].
    destruct (less a b); [|reflexivity]. rewrite IH, !upd_length. reflexivity.
  Qed.

  Lemma up_perm fuel : forall h i, Permutation (up less fuel h i) h.
  Proof.
    induction fuel as [|f IH]; intros h i; cbn [up]; [reflexivity|].
    destruct (Nat.eqb i 0); [reflexivity|].
    destruct (nth_error h i) as [a|] eqn:Ha; [|reflexivity].
    destruct (nth_error h (par i)) as [b|] eqn:Hb; [|reflexivity].
    destruct (less a b); [|reflexivity].
    etransitivity; [apply IH|]. eapply upd_swap_perm; eauto.
  Qed.

  Lemma up_ok fuel : forall h i, (i < fuel)%nat -> (i < length h)%nat -> up_inv h i -> heap_ok (up less fuel h i).
  Proof.
    induction fuel as [|f IH]; intros h i Hf Hl [I1 I2]; [lia|]. cbn [up].
    destruct (Nat.eqb i 0) eqn:E0.
    { apply Nat.eqb_eq in E0. subst. intros j a b Hj Ha Hb. eapply I1; eauto. lia. }
    apply Nat.eqb_neq in E0. assert (Hi : (0 < i)%nat) by lia.
    pose proof (par_lt i Hi) as Hp.
    destruct (nth_error h i) as [a|] eqn:Ha; [|apply nth_error_None in Ha; lia].
    destruct (nth_error h (par i)) as [b|] eqn:Hb; [|apply nth_error_None in Hb; lia].
    destruct (less a b) eqn:Hab.
    2:{ intros j x y Hj Hx Hy. destruct (Nat.eq_dec j i) as [->|Nj].
        - rewrite Ha in Hx. rewrite Hb in Hy. inversion Hx; inversion Hy; subst. exact Hab.
        - eapply I1; eauto. }
    set (p := par i) in *.
    assert (Hab' : hle a b) by (apply less_hle; exact Hab).
    assert (G : forall j, nth_error (upd (upd h i b) p a) j =
              if Nat.eqb j p then Some a else if Nat.eqb j i then Some b else nth_error h j).
    { intro j. rewrite !nth_error_upd, upd_length.
      destruct (Nat.ltb p (length h)) eqn:E1; [|apply Nat.ltb_ge in E1; lia].
      destruct (Nat.ltb i (length h)) eqn:E2; [|apply Nat.ltb_ge in E2; lia]. reflexivity. }
    apply IH; [lia|rewrite !upd_length; lia|]. split.
    - intros j x y Hj Njp. rewrite !G.
      destruct (Nat.eqb j p) eqn:Ejp; [apply Nat.eqb_eq in Ejp; lia|]. clear Ejp.
      destruct (Nat.eqb j i) eqn:Eji.
      + apply Nat.eqb_eq in Eji. subst j. fold p. rewrite Nat.eqb_refl.
        intros Hx Hy. inversion Hx; inversion Hy; subst. exact Hab'.
      + apply Nat.eqb_neq in Eji. intros Hx.
        destruct (Nat.eqb (par j) p) eqn:Epp.
        * apply Nat.eqb_eq in Epp. intro Hy. inversion Hy; subst y.
          apply hle_trans with b; [exact Hab'|]. eapply (I1 j); eauto. rewrite Epp. exact Hb.
        * destruct (Nat.eqb (par j) i) eqn:Epi.
          -- apply Nat.eqb_eq in Epi. intro Hy. inversion Hy; subst y.
             eapply (I2 j); eauto.
          -- intro Hy. eapply I1; eauto.
    - intros c x y Hp0 Hc Hcp. rewrite !G.
      assert (Hpp : (par p < p)%nat) by (apply par_lt; exact Hp0).
      destruct (Nat.eqb (par p) p) eqn:E1; [apply Nat.eqb_eq in E1; lia|].
      destruct (Nat.eqb (par p) i) eqn:E2; [apply Nat.eqb_eq in E2; lia|].
      assert (Hcp' : (p < c)%nat) by (pose proof (par_lt c Hc); lia).
      destruct (Nat.eqb c p) eqn:E3; [apply Nat.eqb_eq in E3; lia|].
      destruct (Nat.eqb c i) eqn:E4.
      + intros Hx Hy. inversion Hx; subst x. eapply (I1 p); eauto; lia.
      + apply Nat.eqb_neq in E4. intros Hx Hy.
        apply hle_trans with b.
        * eapply (I1 p); eauto; lia.
        * eapply (I1 c); eauto. rewrite Hcp. exact Hb.
  Qed.

  (* ---- sift-down *)
  Lemma down_length fuel : forall h i n, length (down less fuel h i n) = length h.
  Proof.
    induction fuel as [|f IH]; intros h i n; cbn [down]; [reflexivity|].
    destruct (Nat.leb n (2 * i + 1)); [reflexivity|].
    destruct (nth_error h (2 * i + 1)) as [lv|]; [|reflexivity].
    destruct (nth_error h i) as [iv|]; [|reflexivity].
    destruct (match nth_error h (2 * i + 1 + 1) with
              | Some rv => if Nat.ltb (2 * i + 1 + 1) n && less rv lv then ((2 * i + 1 + 1)%nat, rv) else ((2 * i + 1)%nat, lv)
              | None => ((2 * i + 1)%nat, lv) end) as [s sv].
    destruct (less sv iv); [|reflexivity]. rewrite IH, !upd_length. reflexivity.
  Qed.

  (** the child chosen by [down]: the one that is not after the other *)
  Lemma pick_spec (h : list T) i lv :
    nth_error h (2 * i + 1) = Some lv ->
    forall s sv,
    match nth_error h (2 * i + 1 + 1) with
    | Some rv => if Nat.ltb (2 * i + 1 + 1) (length h) && less rv lv then ((2 * i + 1 + 1)%nat, rv) else ((2 * i + 1)%nat, lv)
    | None => ((2 * i + 1)%nat, lv) end = (s, sv) ->
    nth_error h s = Some sv /\ (s = (2 * i + 1)%nat \/ s = (2 * i + 2)%nat) /\
    (forall c cv, c = (2 * i + 1)%nat \/ c = (2 * i + 2)%nat -> nth_error h c = Some cv -> hle sv cv).
  Proof.
    intros Hl s sv. replace (2 * i + 1 + 1)%nat with (2 * i + 2)%nat by lia.
    destruct (nth_error h (2 * i + 2)) as [rv|] eqn:Hr.
    - pose proof (nth_error_lt _ _ _ Hr) as Lr.
      destruct (Nat.ltb (2 * i + 2) (length h)) eqn:E; [|apply Nat.ltb_ge in E; lia].
      cbn [andb]. destruct (less rv lv) eqn:Hrl; intro Heq; inversion Heq; subst s sv.
      + split; [exact Hr|]. split; [right; reflexivity|].
        intros c cv [->| ->] Hc.
        * rewrite Hl in Hc. inversion Hc; subst. apply less_hle. exact Hrl.
        * rewrite Hr in Hc. inversion Hc; subst. apply hle_refl.
      + split; [exact Hl|]. split; [left; reflexivity|].
        intros c cv [->| ->] Hc.
        * rewrite Hl in Hc. inversion Hc; subst. apply hle_refl.
        * rewrite Hr in Hc. inversion Hc; subst. exact Hrl.
    - intro Heq; inversion Heq; subst s sv.
      split; [exact Hl|]. split; [left; reflexivity|].
      intros c cv [->| ->] Hc.
      + rewrite Hl in Hc. inversion Hc; subst. apply hle_refl.
      + rewrite Hr in Hc. discriminate.
  Qed.

  Lemma down_perm fuel : forall h i, Permutation (down less fuel h i (length h)) h.
  Proof.
    induction fuel as [|f IH]; intros h i; cbn [down]; [reflexivity|].
    destruct (Nat.leb (length h) (2 * i + 1)); [reflexivity|].
    destruct (nth_error h (2 * i + 1)) as [lv|] eqn:Hl; [|reflexivity].
    destruct (nth_error h i) as [iv|] eqn:Hi; [|reflexivity].
    destruct (match nth_error h (2 * i + 1 + 1) with
              | Some rv => if Nat.ltb (2 * i + 1 + 1) (length h) && less rv lv then ((2 * i + 1 + 1)%nat, rv) else ((2 * i + 1)%nat, lv)
              | None => ((2 * i + 1)%nat, lv) end) as [s sv] eqn:Hpick.
    destruct (pick_spec h i lv Hl s sv Hpick) as [Hs _].
    destruct (less sv iv); [|reflexivity].
    assert (L : length h = length (upd (upd h i sv) s iv)) by (rewrite !upd_length; reflexivity).
    rewrite L at 1. etransitivity; [apply IH|]. eapply upd_swap_perm; eauto.
  Qed.

  Lemma down_ok fuel : forall h i, (length h <= i + fuel)%nat -> (i < length h)%nat -> down_inv h i ->
    heap_ok (down less fuel h i (length h)).
  Proof.
    induction fuel as [|f IH]; intros h i Hf Hl [I1 I2]; [lia|]. cbn [down].
    destruct (Nat.leb (length h) (2 * i + 1)) eqn:En.
    { apply Nat.leb_le in En. intros j a b Hj Ha Hb.
      destruct (Nat.eq_dec (par j) i) as [Ep|Np]; [|eapply I1; eauto].
      pose proof (nth_error_lt _ _ _ Ha). destruct (par_child j i Hj Ep); lia. }
    apply Nat.leb_gt in En.
    destruct (nth_error h (2 * i + 1)) as [lv|] eqn:Hlv; [|apply nth_error_None in Hlv; lia].
    destruct (nth_error h i) as [iv|] eqn:Hiv; [|apply nth_error_None in Hiv; lia].
    destruct (match nth_error h (2 * i + 1 + 1) with
              | Some rv => if Nat.ltb (2 * i + 1 + 1) (length h) && less rv lv then ((2 * i + 1 + 1)%nat, rv) else ((2 * i + 1)%nat, lv)
              | None => ((2 * i + 1)%nat, lv) end) as [s sv] eqn:Hpick.
    destruct (pick_spec h i lv Hlv s sv Hpick) as [Hs [Hsc Hmin]].
    pose proof (nth_error_lt _ _ _ Hs) as Ls.
    assert (Hps : par s = i) by (destruct Hsc as [->| ->]; [apply par_left|apply par_right]).
    assert (His : (i < s)%nat) by lia.
    destruct (less sv iv) eqn:Hsi.
    2:{ intros j a b Hj Ha Hb.
        destruct (Nat.eq_dec (par j) i) as [Ep|Np]; [|eapply I1; eauto].
        rewrite Ep, Hiv in Hb. inversion Hb; subst b.
        apply hle_trans with sv; [exact Hsi|]. apply (Hmin j a); [apply par_child; auto|exact Ha]. }
    assert (Hsi' : hle sv iv) by (apply less_hle; exact Hsi).
    assert (G : forall j, nth_error (upd (upd h i sv) s iv) j =
              if Nat.eqb j s then Some iv else if Nat.eqb j i then Some sv else nth_error h j).
    { intro j. rewrite !nth_error_upd, upd_length.
      destruct (Nat.ltb s (length h)) eqn:E1; [|apply Nat.ltb_ge in E1; lia].
      destruct (Nat.ltb i (length h)) eqn:E2; [|apply Nat.ltb_ge in E2; lia]. reflexivity. }
    assert (L : length h = length (upd (upd h i sv) s iv)) by (rewrite !upd_length; reflexivity).
    rewrite L. apply IH; [rewrite <- L; lia|rewrite <- L; lia|]. split.
    - intros j a b Hj Nps. rewrite !G.
      destruct (Nat.eqb j s) eqn:Ejs.
      + apply Nat.eqb_eq in Ejs. subst j. rewrite Hps.
        destruct (Nat.eqb i s) eqn:E1; [apply Nat.eqb_eq in E1; lia|]. rewrite Nat.eqb_refl.
        intros Ha Hb. inversion Ha; inversion Hb; subst. exact Hsi'.
      + apply Nat.eqb_neq in Ejs.
        destruct (Nat.eqb (par j) s) eqn:E1; [apply Nat.eqb_eq in E1; lia|]. clear E1.
        destruct (Nat.eqb j i) eqn:Eji.
        * apply Nat.eqb_eq in Eji. subst j.
          destruct (Nat.eqb (par i) i) eqn:E2; [apply Nat.eqb_eq in E2; pose proof (par_lt i Hj); lia|].
          intros Ha Hb. inversion Ha; subst a. eapply (I2 s); eauto. lia.
        * apply Nat.eqb_neq in Eji.
          destruct (Nat.eqb (par j) i) eqn:Epi.
          -- apply Nat.eqb_eq in Epi. intros Ha Hb. inversion Hb; subst b.
             apply (Hmin j a); [apply par_child; auto|exact Ha].
          -- apply Nat.eqb_neq in Epi. intros Ha Hb. eapply I1; eauto.
    - intros c a b Hs0 Hc Hcs. rewrite !G, Hps, Nat.eqb_refl.
      destruct (Nat.eqb i s) eqn:E1; [apply Nat.eqb_eq in E1; lia|]. clear E1.
      assert (Hsc' : (s < c)%nat) by (pose proof (par_lt c Hc); lia).
      destruct (Nat.eqb c s) eqn:E2; [apply Nat.eqb_eq in E2; lia|]. clear E2.
      destruct (Nat.eqb c i) eqn:E3; [apply Nat.eqb_eq in E3; lia|]. clear E3.
      intros Ha Hb. inversion Hb; subst b.
      eapply (I1 c); eauto. { rewrite Hcs. lia. } rewrite Hcs. exact Hs.
  Qed.

  (* ---- the root is a minimum *)
  Lemma heap_root_min (h : list T) : heap_ok h ->
    forall i a r, nth_error h i = Some a -> nth_error h 0 = Some r -> hle r a.
  Proof.
    intros Hok i. induction i as [i IH] using lt_wf_ind. intros a r Ha Hr.
    destruct (Nat.eq_dec i 0) as [->|Ni].
    - rewrite Hr in Ha. inversion Ha; subst. apply hle_refl.
    - assert (Hi : (0 < i)%nat) by lia. pose proof (par_lt i Hi) as Hp.
      destruct (nth_error h (par i)) as [b|] eqn:Hb.
      + apply hle_trans with b; [eapply IH; eauto|]. eapply Hok; eauto.
      + apply nth_error_None in Hb. pose proof (nth_error_lt _ _ _ Ha). lia.
  Qed.

  Lemma heap_root_min_In (h : list T) r : heap_ok h -> nth_error h 0 = Some r -> forall y, In y h -> hle r y.
  Proof. intros Hok Hr y Hy. destruct (In_nth_error _ _ Hy) as [i Hi]. eapply heap_root_min; eauto. Qed.

  (* ---- push *)
  Lemma heap_ok_nil : heap_ok [].
  Proof. intros j a b _ Ha. destruct j; discriminate. Qed.

  Lemma hpush_perm h x : Permutation (hpush less h x) (x :: h).
  Proof.
    unfold hpush. etransitivity; [apply up_perm|].
    apply Permutation_sym. apply Permutation_cons_append.
  Qed.

  Lemma hpush_ok h x : heap_ok h -> heap_ok (hpush less h x).
  Proof.
    intro Hok. unfold hpush. rewrite app_length. cbn [length].
    replace (length h + 1 - 1)%nat with (length h) by lia.
    apply up_ok; [lia|rewrite app_length; cbn; lia|]. split.
    - intros j a b Hj Nj Ha Hb.
      pose proof (nth_error_lt _ _ _ Ha) as La. rewrite app_length in La. cbn in La.
      assert (Lj : (j < length h)%nat) by lia. pose proof (par_lt j Hj).
      rewrite nth_error_app1 in Ha by lia. rewrite nth_error_app1 in Hb by lia. eapply Hok; eauto.
    - intros c a b Hi Hc Hcp Ha.
      pose proof (nth_error_lt _ _ _ Ha) as La. rewrite app_length in La. cbn in La.
      destruct (par_child c _ Hc Hcp); lia.
  Qed.

  (* ---- pop *)
  Lemma nth_error_removelast {A} (l : list A) j :
    nth_error (removelast l) j = if Nat.ltb j (length l - 1) then nth_error l j else None.
  Proof.
    revert j; induction l as [|x r IH]; intro j.
    - destruct j; reflexivity.
    - destruct r as [|y r'].
      + cbn. destruct j; reflexivity.
      + change (removelast (x :: y :: r')) with (x :: removelast (y :: r')).
        destruct j as [|j]; [reflexivity|]. cbn [nth_error]. rewrite IH.
        cbn [length]. replace (S (S (length r')) - 1)%nat with (S (length r')) by lia.
        replace (S (length r') - 1)%nat with (length r') by lia. reflexivity.
  Qed.

  Lemma removelast_length {A} (l : list A) : length (removelast l) = (length l - 1)%nat.
  Proof.
    induction l as [|x r IH]; [reflexivity|]. destruct r as [|y r']; [reflexivity|].
    change (removelast (x :: y :: r')) with (x :: removelast (y :: r')).
    cbn [length] in *. lia.
  Qed.

  Lemma last_split {A} (l : list A) x : nth_error l (length l - 1) = Some x -> l = removelast l ++ [x].
  Proof.
    induction l as [|y r IH]; intro H; [discriminate|].
    destruct r as [|z r'].
    - cbn in H. inversion H; subst. reflexivity.
    - change (removelast (y :: z :: r')) with (y :: removelast (z :: r')).
      cbn [app]. f_equal. apply IH.
      cbn [length] in *. replace (S (S (length r')) - 1)%nat with (S (length r')) in H by lia.
      replace (S (length r') - 1)%nat with (length r') by lia. exact H.
  Qed.

  Lemma hpop_spec h : heap_ok h -> h <> [] ->
    exists m h', hpop less h = Some (m, h') /\ hpeek h = Some m /\ heap_ok h' /\
                 Permutation h (m :: h') /\ (forall y, In y h -> hle m y).
  Proof.
    intros Hok Hne. destruct h as [|root t]; [congruence|]. clear Hne.
    unfold hpop, hpeek. cbn [nth_error].
    destruct (nth_error (root :: t) (length (root :: t) - 1)) as [lastv|] eqn:Hlast.
    2:{ apply nth_error_None in Hlast. cbn [length] in Hlast. lia. }
    cbn [upd].
    set (h1 := removelast (lastv :: t)).
    exists root. eexists. split; [reflexivity|]. split; [reflexivity|].
    assert (L1 : length h1 = length t).
    { unfold h1. rewrite removelast_length. cbn [length]. lia. }
    assert (G : forall j, nth_error h1 j =
              if Nat.ltb j (length t) then (if Nat.eqb j 0 then Some lastv else nth_error (root :: t) j) else None).
    { intro j. unfold h1. rewrite nth_error_removelast. cbn [length].
      replace (S (length t) - 1)%nat with (length t) by lia.
      destruct (Nat.ltb j (length t)); [|reflexivity]. destruct j; reflexivity. }
    assert (P1 : Permutation (root :: t) (root :: h1)).
    { pose proof (last_split _ _ Hlast) as Hsp. unfold h1.
      destruct t as [|z t']; [reflexivity|].
      change (removelast (root :: z :: t')) with (root :: removelast (z :: t')) in Hsp.
      change (removelast (lastv :: z :: t')) with (lastv :: removelast (z :: t')).
      rewrite Hsp at 1. cbn [app]. apply perm_skip.
      apply Permutation_sym. apply Permutation_cons_append. }
    assert (Hmin : forall y, In y (root :: t) -> hle root y).
    { apply heap_root_min_In; [exact Hok|reflexivity]. }
    destruct (Nat.ltb 0 (length h1)) eqn:E0.
    - apply Nat.ltb_lt in E0. split; [|split].
      + apply down_ok; [lia|lia|]. split.
        * intros j a b Hj Npj. rewrite !G.
          destruct (Nat.ltb j (length t)) eqn:E1; [|discriminate].
          destruct (Nat.ltb (par j) (length t)) eqn:E2; [|discriminate].
          destruct (Nat.eqb j 0) eqn:E3; [apply Nat.eqb_eq in E3; lia|].
          destruct (Nat.eqb (par j) 0) eqn:E4; [apply Nat.eqb_eq in E4; lia|].
          intros Ha Hb. eapply Hok; eauto.
        * intros; lia.
      + etransitivity; [exact P1|]. apply perm_skip. apply Permutation_sym. apply down_perm.
      + exact Hmin.
    - apply Nat.ltb_ge in E0. split; [|split].
      + assert (h1 = []) by (destruct h1; [reflexivity|cbn in E0; lia]). rewrite H. apply heap_ok_nil.
      + exact P1.
      + exact Hmin.
  Qed.
End HeapProofs.

(* ------------------------------------------------------------------ the heap refines the sorted list *)
Section HeapSorted.
  Context {T : Type} (less : T -> T -> bool).
  Hypothesis less_asym : forall a b, less a b = true -> less b a = false.
  Hypothesis hle_trans : forall a b c, hle less a b -> hle less b c -> hle less a c.
  Hypothesis less_trans : forall a b c, less a b = true -> less b c = true -> less a c = true.

  Definition slt (a b : T) : Prop := less a b = true.

  (** [Repr h l]: the heap [h] represents the strictly sorted list [l] *)
  Definition Repr (h l : list T) : Prop :=
    heap_ok less h /\ Permutation h l /\ StronglySorted slt l.

  Lemma sins_perm x l : Permutation (sins less x l) (x :: l).
  Proof.
    induction l as [|y r IH]; cbn [sins]; [reflexivity|].
    destruct (less x y); [reflexivity|].
    etransitivity; [apply perm_skip; exact IH|]. apply perm_swap.
  Qed.

  Lemma sins_sorted x l : StronglySorted slt l ->
    (forall y, In y l -> less x y = true \/ less y x = true) -> StronglySorted slt (sins less x l).
  Proof.
    induction l as [|y r IH]; intros Hs Hc; cbn [sins].
    - constructor; constructor.
    - inversion Hs as [|? ? Hr Hy]; subst.
      destruct (less x y) eqn:Exy.
      + constructor; [exact Hs|]. constructor; [exact Exy|].
        rewrite Forall_forall in *. intros z Hz. eapply less_trans; [exact Exy|]. apply Hy. exact Hz.
      + constructor.
        * apply IH; [exact Hr|]. intros z Hz. apply Hc. right. exact Hz.
        * rewrite Forall_forall in *. intros z Hz.
          apply (Permutation_in _ (sins_perm x r)) in Hz. destruct Hz as [<-|Hz].
          -- destruct (Hc y (or_introl eq_refl)) as [H|H]; [congruence|exact H].
          -- apply Hy. exact Hz.
  Qed.

  Lemma repr_nil : Repr [] [].
  Proof. split; [apply heap_ok_nil|]. split; [reflexivity|constructor]. Qed.

  Lemma repr_push h l x : Repr h l -> (forall y, In y l -> less x y = true \/ less y x = true) ->
    Repr (hpush less h x) (sins less x l).
  Proof.
    intros [Hok [Hp Hs]] Hc. split; [apply (hpush_ok less less_asym hle_trans); assumption|]. split.
    - etransitivity; [apply (hpush_perm less less_asym hle_trans)|]. etransitivity; [apply perm_skip; exact Hp|].
      apply Permutation_sym. apply sins_perm.
    - apply sins_sorted; assumption.
  Qed.

  Lemma repr_pop h m l : Repr h (m :: l) ->
    exists h', hpop less h = Some (m, h') /\ hpeek h = Some m /\ Repr h' l.
  Proof.
    intros [Hok [Hp Hs]].
    assert (Hne : h <> []).
    { intro; subst. apply Permutation_nil in Hp. discriminate. }
    destruct (hpop_spec less less_asym hle_trans h Hok Hne) as [m' [h' [Hpop [Hpeek [Hok' [Hp' Hmin]]]]]].
    inversion Hs as [|? ? Hl Hm]; subst.
    assert (m' = m).
    { assert (Hin : In m' (m :: l)).
      { eapply Permutation_in; [exact Hp|]. eapply Permutation_in; [apply Permutation_sym; exact Hp'|]. left; reflexivity. }
      destruct Hin as [->|Hin]; [reflexivity|].
      rewrite Forall_forall in Hm. specialize (Hm _ Hin).
      assert (Hmm : hle less m' m).
      { apply Hmin. eapply Permutation_in; [apply Permutation_sym; exact Hp|]. left; reflexivity. }
      unfold hle, slt in *. congruence. }
    subst m'. exists h'. split; [exact Hpop|]. split; [exact Hpeek|]. split; [exact Hok'|]. split; [|exact Hl].
    eapply Permutation_cons_inv. etransitivity; [apply Permutation_sym; exact Hp'|exact Hp].
  Qed.

  (** popping until empty yields exactly the sorted list *)
  Lemma repr_drain l : forall h fuel, Repr h l -> (length l <= fuel)%nat -> hdrain less fuel h = l.
  Proof.
    induction l as [|m l IH]; intros h fuel Hr Hf.
    - destruct Hr as [_ [Hp _]]. apply Permutation_sym, Permutation_nil in Hp. subst.
      destruct fuel; reflexivity.
    - destruct fuel as [|f]; [cbn in Hf; lia|]. cbn [hdrain].
      destruct (repr_pop h m l Hr) as [h' [Hpop [_ Hr']]]. rewrite Hpop. f_equal.
      apply IH; [exact Hr'|]. cbn in Hf. lia.
  Qed.
End HeapSorted.

(* ------------------------------------------------------------------ queues and engine *)
Section EngineProofs.
  Context {E : Type} (etime : E -> N) (esec : E -> bool).
  Local Open Scope N_scope.
  Local Notation qt := (qtime etime).
  Local Notation qc := (qsec esec).
  Local Notation QL := (qless etime).
  Local Notation qevE := (@qev E).

  Lemma qless_true (a b : qevE) :
    QL a b = true <-> (qt a < qt b \/ (qt a = qt b /\ qseq a < qseq b)).
  Proof. unfold qless. destruct (N.eqb_spec (qt a) (qt b)); cbn [negb]; rewrite N.ltb_lt; lia. Qed.

  Lemma qless_false (a b : qevE) :
    QL a b = false <-> (qt b < qt a \/ (qt a = qt b /\ qseq b <= qseq a)).
  Proof. unfold qless. destruct (N.eqb_spec (qt a) (qt b)); cbn [negb]; rewrite N.ltb_ge; lia. Qed.

  Lemma qless_asym : forall a b : qevE, QL a b = true -> QL b a = false.
  Proof. intros a b H. apply qless_true in H. apply qless_false. lia. Qed.

  Lemma qhle_trans : forall a b c : qevE, hle QL a b -> hle QL b c -> hle QL a c.
  Proof. unfold hle. intros a b c H1 H2. apply qless_false in H1, H2. apply qless_false. lia. Qed.

  Lemma qless_trans : forall a b c : qevE, QL a b = true -> QL b c = true -> QL a c = true.
  Proof. intros a b c H1 H2. apply qless_true in H1, H2. apply qless_true. lia. Qed.

  (** queue invariant: heap shape, sequence numbers below [nextSeq] and pairwise distinct *)
  Definition q_ok (q : @queue E) : Prop :=
    heap_ok QL (q_heap q) /\ (forall x, In x (q_heap q) -> qseq x < q_next q) /\
    NoDup (map (@qseq E) (q_heap q)).

  Lemma q_ok_empty : q_ok q_empty.
  Proof. split; [apply heap_ok_nil|]. split; [intros x []|constructor]. Qed.

  Lemma q_push_spec q e : q_ok q ->
    q_ok (q_push etime q e) /\
    Permutation (q_heap (q_push etime q e)) ((e, q_next q) :: q_heap q) /\
    q_next (q_push etime q e) = q_next q + 1.
  Proof.
    intros [Hok [Hlt Hnd]]. unfold q_push. cbn [q_heap q_next].
    pose proof (hpush_perm QL qless_asym qhle_trans (q_heap q) (e, q_next q)) as Hp.
    split; [|split; [exact Hp|reflexivity]].
    unfold q_ok. cbn [q_heap q_next].
    split; [apply (hpush_ok QL qless_asym qhle_trans); exact Hok|]. split.
    - intros x Hx. apply (Permutation_in _ Hp) in Hx. destruct Hx as [<-|Hx]; [cbn; lia|].
      specialize (Hlt _ Hx). lia.
    - eapply Permutation_NoDup; [apply Permutation_map; apply Permutation_sym; exact Hp|].
      cbn [map]. constructor; [|exact Hnd]. intro Hin. apply in_map_iff in Hin.
      destruct Hin as [y [Hy1 Hy2]]. specialize (Hlt _ Hy2). cbn in Hy1. lia.
  Qed.

  Lemma q_pop_spec q : q_ok q -> q_heap q <> [] ->
    exists x q', q_pop etime q = Some (x, q') /\ q_peek q = Some x /\ q_ok q' /\
      Permutation (q_heap q) (x :: q_heap q') /\ q_next q' = q_next q /\
      (forall y, In y (q_heap q') -> QL x y = true).
  Proof.
    intros [Hok [Hlt Hnd]] Hne.
    destruct (hpop_spec QL qless_asym qhle_trans _ Hok Hne) as [m [h' [Hpop [Hpeek [Hok' [Hp Hmin]]]]]].
    exists m, (mkq h' (q_next q)). unfold q_pop, q_peek. rewrite Hpop. cbn [q_heap q_next].
    assert (Hnd' : NoDup (map (@qseq E) (m :: h'))).
    { eapply Permutation_NoDup; [apply Permutation_map; exact Hp|exact Hnd]. }
    split; [reflexivity|]. split; [exact Hpeek|]. split; [|split; [exact Hp|split; [reflexivity|]]].
    - split; [exact Hok'|]. split.
      + intros x Hx. apply Hlt. eapply Permutation_in; [apply Permutation_sym; exact Hp|]. right; exact Hx.
      + cbn [map] in Hnd'. inversion Hnd'; assumption.
    - intros y Hy.
      assert (Hle : hle QL m y).
      { apply Hmin. eapply Permutation_in; [apply Permutation_sym; exact Hp|]. right; exact Hy. }
      unfold hle in Hle. apply qless_false in Hle. apply qless_true.
      cbn [map] in Hnd'. inversion Hnd' as [|? ? Hnot _]; subst.
      assert (qseq m <> qseq y). { intro Heq. apply Hnot. rewrite Heq. apply in_map. exact Hy. }
      lia.
  Qed.

  (** [nextSeq] of the queue an event of class [b] goes to *)
  Definition cnext (en : @engine E) (b : bool) : N :=
    if b then q_next (e_s en) else q_next (e_p en).

  (** identity of a queued event: the queue it is in and its sequence number there *)
  Definition ident (x : qevE) : bool * N := (qc x, qseq x).

  Definition e_ok (en : @engine E) : Prop :=
    q_ok (e_p en) /\ q_ok (e_s en) /\
    (forall x, In x (q_heap (e_p en)) -> qc x = false) /\
    (forall x, In x (q_heap (e_s en)) -> qc x = true) /\
    (forall x, In x (pending en) -> e_now en <= qt x).

  (** [before x y]: x is due before y (earlier; same instant: primary first; same instant and
      class: scheduled first) *)
  Definition before (x y : qevE) : Prop :=
    qt x < qt y \/
    (qt x = qt y /\ ((qc x = false /\ qc y = true) \/ (qc x = qc y /\ qseq x < qseq y))).

  Lemma e_ok_new : e_ok new_engine.
  Proof.
    split; [apply q_ok_empty|]. split; [apply q_ok_empty|].
    split; [intros x []|]. split; [intros x []|intros x []].
  Qed.

  Lemma schedule_spec en e : e_ok en -> e_now en <= etime e ->
    exists en', schedule etime esec en e = Some (en', (e, cnext en (esec e))) /\ e_ok en' /\
      Permutation (pending en') ((e, cnext en (esec e)) :: pending en) /\ e_now en' = e_now en /\
      cnext en' (esec e) = cnext en (esec e) + 1 /\
      cnext en' (negb (esec e)) = cnext en (negb (esec e)).
  Proof.
    intros [Hp [Hs [Cp [Cs Hn]]]] Ht. unfold schedule.
    destruct (N.ltb_spec (etime e) (e_now en)) as [Hlt|_]; [lia|].
    unfold cnext, pending in *. destruct (esec e) eqn:Esec.
    - destruct (q_push_spec (e_s en) e Hs) as [Hs' [Pp Hnx]].
      eexists. split; [reflexivity|]. cbn [e_p e_s e_now negb].
      split; [|split; [|split; [reflexivity|split; [exact Hnx|reflexivity]]]].
      + split; [exact Hp|]. split; [exact Hs'|]. split; [exact Cp|]. split.
        * intros x Hx. apply (Permutation_in _ Pp) in Hx. destruct Hx as [<-|Hx]; [exact Esec|apply Cs; exact Hx].
        * intros x Hx. apply in_app_or in Hx. destruct Hx as [Hx|Hx].
          -- apply Hn. apply in_or_app. left; exact Hx.
          -- apply (Permutation_in _ Pp) in Hx. destruct Hx as [<-|Hx]; [exact Ht|].
             apply Hn. apply in_or_app. right; exact Hx.
      + etransitivity; [apply Permutation_app_head; exact Pp|].
        apply Permutation_sym. apply Permutation_middle.
    - destruct (q_push_spec (e_p en) e Hp) as [Hp' [Pp Hnx]].
      eexists. split; [reflexivity|]. cbn [e_p e_s e_now negb].
      split; [|split; [|split; [reflexivity|split; [exact Hnx|reflexivity]]]].
      + split; [exact Hp'|]. split; [exact Hs|]. split; [|split; [exact Cs|]].
        * intros x Hx. apply (Permutation_in _ Pp) in Hx. destruct Hx as [<-|Hx]; [exact Esec|apply Cp; exact Hx].
        * intros x Hx. apply in_app_or in Hx. destruct Hx as [Hx|Hx].
          -- apply (Permutation_in _ Pp) in Hx. destruct Hx as [<-|Hx]; [exact Ht|].
             apply Hn. apply in_or_app. left; exact Hx.
          -- apply Hn. apply in_or_app. right; exact Hx.
      + apply Permutation_app_tail with (tl := q_heap (e_s en)) in Pp. exact Pp.
  Qed.

  Lemma schedule_past en e : etime e < e_now en -> schedule etime esec en e = None.
  Proof. intro H. unfold schedule. destruct (N.ltb_spec (etime e) (e_now en)); [reflexivity|lia]. Qed.

  Lemma schedule_all_spec es : forall en, e_ok en -> (forall e, In e es -> e_now en <= etime e) ->
    exists en' xs, schedule_all etime esec en es = (en', xs, true) /\ e_ok en' /\
      Permutation (pending en') (xs ++ pending en) /\ e_now en' = e_now en /\
      map fst xs = es /\ (forall b, cnext en b <= cnext en' b) /\
      (forall x, In x xs -> cnext en (qc x) <= qseq x < cnext en' (qc x)) /\
      NoDup (map ident xs).
  Proof.
    induction es as [|e r IH]; intros en Hok Ht; cbn [schedule_all].
    - exists en, []. split; [reflexivity|]. split; [exact Hok|]. split; [reflexivity|].
      split; [reflexivity|]. split; [reflexivity|]. split; [intro; lia|]. split; [intros x []|constructor].
    - destruct (schedule_spec en e Hok (Ht e (or_introl eq_refl))) as [en1 [Hs [Hok1 [P1 [N1 [C1 C1']]]]]].
      rewrite Hs.
      assert (Hmono1 : forall b, cnext en b <= cnext en1 b).
      { intro b. destruct (Bool.bool_dec b (esec e)) as [->|Nb]; [lia|].
        assert (b = negb (esec e)) as -> by (destruct b, (esec e) eqn:Ee; cbn [negb]; congruence). lia. }
      destruct (IH en1 Hok1) as [en2 [xs [Hsa [Hok2 [P2 [N2 [Hm [Hmono [Hrng Hnd]]]]]]]]].
      { intros e' He'. rewrite N1. apply Ht. right; exact He'. }
      rewrite Hsa. exists en2, ((e, cnext en (esec e)) :: xs).
      split; [reflexivity|]. split; [exact Hok2|]. split.
      { etransitivity; [exact P2|]. cbn [app].
        etransitivity; [apply Permutation_app_head; exact P1|].
        apply Permutation_sym. apply Permutation_middle. }
      split; [lia|]. split; [cbn [map fst]; rewrite Hm; reflexivity|].
      split; [intro b; specialize (Hmono b); specialize (Hmono1 b); lia|]. split.
      + intros x [<-|Hx].
        * unfold qsec, qseq. cbn [fst snd]. specialize (Hmono (esec e)). lia.
        * specialize (Hrng x Hx). specialize (Hmono1 (qc x)). lia.
      + cbn [map]. constructor; [|exact Hnd]. intro Hin. apply in_map_iff in Hin.
        destruct Hin as [y [Hy1 Hy2]]. specialize (Hrng y Hy2).
        unfold ident, qsec, qseq in *. cbn [fst snd] in *. inversion Hy1 as [[Hc Hq]].
        rewrite Hc in *. lia.
  Qed.

  Lemma len_zero (q : @queue E) : Nat.eqb (q_len q) 0 = true <-> q_heap q = [].
  Proof. unfold q_len. rewrite Nat.eqb_eq. destruct (q_heap q); cbn; split; intro; try congruence; lia. Qed.

  Lemma QL_before_same x y : QL x y = true -> qc x = qc y -> before x y.
  Proof.
    intros H Hc. apply qless_true in H. unfold before.
    destruct H as [H|[H1 H2]]; [left; exact H|right; split; [exact H1|right; split; assumption]].
  Qed.

  Lemma next_event_spec en : e_ok en -> no_more_event en = false ->
    exists x en1, next_event etime en = Some (x, en1) /\ e_ok en1 /\
      Permutation (pending en) (x :: pending en1) /\ e_now en1 = e_now en /\
      (forall b, cnext en1 b = cnext en b) /\
      (forall y, In y (pending en1) -> before x y) /\
      next_event_time etime en = Some (qt x).
  Proof.
    intros [Hp [Hs [Cp [Cs Hn]]]] Hmore. unfold no_more_event in Hmore.
    unfold next_event, next_event_time, pending in *.
    destruct (Nat.eqb (q_len (e_p en)) 0) eqn:Ep.
    - (* primary queue empty *)
      cbn [andb] in Hmore. apply len_zero in Ep.
      assert (Hne : q_heap (e_s en) <> []).
      { intro Hz. apply len_zero in Hz. congruence. }
      destruct (q_pop_spec _ Hs Hne) as [x [s' [Hpop [Hpeek [Hs' [Pp [Hnx Hmin]]]]]]].
      rewrite Hpop, Hpeek. exists x. eexists. split; [reflexivity|]. cbn [e_p e_s e_now option_map].
      assert (Cx : qc x = true) by (apply Cs; eapply Permutation_in; [apply Permutation_sym; exact Pp|left; reflexivity]).
      split; [|split; [|split; [reflexivity|split; [|split; [|reflexivity]]]]].
      + split; [exact Hp|]. split; [exact Hs'|]. split; [exact Cp|]. split.
        * intros y Hy. apply Cs. eapply Permutation_in; [apply Permutation_sym; exact Pp|right; exact Hy].
        * intros y Hy. apply Hn. apply in_app_or in Hy. apply in_or_app. destruct Hy as [Hy|Hy]; [left; exact Hy|].
          right. eapply Permutation_in; [apply Permutation_sym; exact Pp|right; exact Hy].
      + rewrite Ep. cbn [app]. exact Pp.
      + intros [|]; unfold cnext; cbn [e_p e_s]; [exact Hnx|reflexivity].
      + rewrite Ep. cbn [app]. intros y Hy. apply QL_before_same; [apply Hmin; exact Hy|].
        rewrite Cx. symmetry. apply Cs. eapply Permutation_in; [apply Permutation_sym; exact Pp|right; exact Hy].
    - assert (Hnep : q_heap (e_p en) <> []).
      { intro Hz. apply len_zero in Hz. congruence. }
      destruct (q_pop_spec _ Hp Hnep) as [xp [p' [Hpopp [Hpeekp [Hp' [Ppp [Hnxp Hminp]]]]]]].
      assert (Cxp : qc xp = false) by (apply Cp; eapply Permutation_in; [apply Permutation_sym; exact Ppp|left; reflexivity]).
      assert (PRIM : exists en1, Some (xp, mke (e_now en) p' (e_s en)) = Some (xp, en1) /\ e_ok en1 /\
        Permutation (q_heap (e_p en) ++ q_heap (e_s en)) (xp :: q_heap (e_p en1) ++ q_heap (e_s en1)) /\
        e_now en1 = e_now en /\ (forall b, cnext en1 b = cnext en b) /\
        (forall y, In y (q_heap (e_p en1)) -> before xp y)).
      { eexists. split; [reflexivity|]. cbn [e_p e_s e_now].
        split; [|split; [|split; [reflexivity|split]]].
        + split; [exact Hp'|]. split; [exact Hs|]. split; [|split; [exact Cs|]].
          * intros y Hy. apply Cp. eapply Permutation_in; [apply Permutation_sym; exact Ppp|right; exact Hy].
          * intros y Hy. apply Hn. apply in_app_or in Hy. apply in_or_app. destruct Hy as [Hy|Hy]; [|right; exact Hy].
            left. eapply Permutation_in; [apply Permutation_sym; exact Ppp|right; exact Hy].
        + apply Permutation_app_tail with (tl := q_heap (e_s en)) in Ppp. exact Ppp.
        + intros [|]; unfold cnext; cbn [e_p e_s]; [reflexivity|exact Hnxp].
        + intros y Hy. apply QL_before_same; [apply Hminp; exact Hy|].
          rewrite Cxp. symmetry. apply Cp. eapply Permutation_in; [apply Permutation_sym; exact Ppp|right; exact Hy]. }
      destruct (Nat.eqb (q_len (e_s en)) 0) eqn:Es.
      + (* secondary queue empty *)
        apply len_zero in Es. rewrite Hpopp, Hpeekp. cbn [option_map].
        destruct PRIM as [en1 [Heq [Hok1 [P1 [N1 [C1 B1]]]]]].
        exists xp, en1. split; [exact Heq|]. split; [exact Hok1|]. split; [exact P1|]. split; [exact N1|].
        split; [exact C1|]. split; [|reflexivity].
        intros y Hy. apply in_app_or in Hy. destruct Hy as [Hy|Hy]; [apply B1; exact Hy|].
        inversion Heq; subst en1. cbn [e_s] in Hy. rewrite Es in Hy. destruct Hy.
      + assert (Hnes : q_heap (e_s en) <> []).
        { intro Hz. apply len_zero in Hz. congruence. }
        destruct (q_pop_spec _ Hs Hnes) as [xs [s' [Hpops [Hpeeks [Hs' [Pps [Hnxs Hmins]]]]]]].
        assert (Cxs : qc xs = true) by (apply Cs; eapply Permutation_in; [apply Permutation_sym; exact Pps|left; reflexivity]).
        rewrite Hpeekp, Hpeeks.
        assert (Hallp : forall y, In y (q_heap (e_p en)) -> qt xp <= qt y).
        { intros y Hy. apply (Permutation_in _ Ppp) in Hy. destruct Hy as [<-|Hy]; [lia|].
          specialize (Hminp y Hy). apply qless_true in Hminp. lia. }
        assert (Halls : forall y, In y (q_heap (e_s en)) -> qt xs <= qt y).
        { intros y Hy. apply (Permutation_in _ Pps) in Hy. destruct Hy as [<-|Hy]; [lia|].
          specialize (Hmins y Hy). apply qless_true in Hmins. lia. }
        destruct (N.leb_spec (qt xp) (qt xs)) as [Hle|Hgt].
        * rewrite Hpopp. destruct PRIM as [en1 [Heq [Hok1 [P1 [N1 [C1 B1]]]]]].
          exists xp, en1. split; [exact Heq|]. split; [exact Hok1|]. split; [exact P1|]. split; [exact N1|].
          split; [exact C1|]. split; [|reflexivity].
          intros y Hy. apply in_app_or in Hy. destruct Hy as [Hy|Hy]; [apply B1; exact Hy|].
          inversion Heq; subst en1. cbn [e_s] in Hy. specialize (Halls y Hy).
          assert (Cy : qc y = true) by (apply Cs; exact Hy). unfold before. rewrite Cxp, Cy.
          destruct (N.eq_dec (qt xp) (qt y)); [right; split; [assumption|left; split; reflexivity]|left; lia].
        * rewrite Hpops. exists xs. eexists. split; [reflexivity|]. cbn [e_p e_s e_now].
          split; [|split; [|split; [reflexivity|split; [|split; [|reflexivity]]]]].
          -- split; [exact Hp|]. split; [exact Hs'|]. split; [exact Cp|]. split.
             ++ intros y Hy. apply Cs. eapply Permutation_in; [apply Permutation_sym; exact Pps|right; exact Hy].
             ++ intros y Hy. apply Hn. apply in_app_or in Hy. apply in_or_app. destruct Hy as [Hy|Hy]; [left; exact Hy|].
                right. eapply Permutation_in; [apply Permutation_sym; exact Pps|right; exact Hy].
          -- etransitivity; [apply Permutation_app_head; exact Pps|].
             apply Permutation_sym. apply Permutation_middle.
          -- intros [|]; unfold cnext; cbn [e_p e_s]; [exact Hnxs|reflexivity].
          -- intros y Hy. apply in_app_or in Hy. destruct Hy as [Hy|Hy].
             ++ specialize (Hallp y Hy). left. lia.
             ++ apply QL_before_same; [apply Hmins; exact Hy|].
                rewrite Cxs. symmetry. apply Cs. eapply Permutation_in; [apply Permutation_sym; exact Pps|right; exact Hy].
  Qed.
End EngineProofs.

(* ------------------------------------------------------------------ every well-formed queue represents its sorted contents *)
Section QueueSorted.
  Context {E : Type} (etime : E -> N).
  Local Open Scope N_scope.
  Local Notation QL := (qless etime).

  (** insertion sort by (time, seq): the abstract content of a queue *)
  Definition isort (h : list (@qev E)) : list (@qev E) := fold_right (sins QL) [] h.

  Lemma isort_perm h : Permutation (isort h) h.
  Proof.
    induction h as [|x h IH]; [reflexivity|]. cbn [isort fold_right].
    etransitivity; [apply sins_perm|]. apply perm_skip. exact IH.
  Qed.

  Lemma isort_sorted h : NoDup (map (@qseq E) h) -> StronglySorted (slt QL) (isort h).
  Proof.
    induction h as [|x h IH]; intro Hnd; [constructor|]. cbn [isort fold_right map] in *.
    inversion Hnd as [|? ? Hnot Hnd']; subst.
    apply (sins_sorted QL (qless_trans etime)); [apply IH; exact Hnd'|].
    intros y Hy. apply (Permutation_in _ (isort_perm h)) in Hy.
    assert (Hne : qseq x <> qseq y).
    { intro Heq. apply Hnot. rewrite Heq. apply in_map. exact Hy. }
    destruct (QL x y) eqn:Exy; [left; reflexivity|right].
    apply qless_false in Exy. apply qless_true. lia.
  Qed.

  Lemma q_ok_repr q : q_ok etime q -> Repr QL (q_heap q) (isort (q_heap q)).
  Proof.
    intros (Hok & _ & Hnd). split; [exact Hok|]. split; [apply Permutation_sym; apply isort_perm|].
    apply isort_sorted. exact Hnd.
  Qed.

  (** popping a well-formed queue until it is empty lists its events by (time, seq) *)
  Lemma q_drain_sorted q : q_ok etime q -> hdrain QL (length (q_heap q)) (q_heap q) = isort (q_heap q).
  Proof.
    intro Hq. apply (repr_drain QL (qless_asym etime) (qhle_trans etime) (qless_trans etime)).
    - apply q_ok_repr. exact Hq.
    - rewrite (Permutation_length (isort_perm (q_heap q))). lia.
  Qed.
End QueueSorted.
