(** C02 — property theorems (stage a placeholder). *)
From Akita Require Import Lib.Base Lib.Engine C01.Model C02.Model.

Theorem c02_empty_returns : forall p cap bs,
  forallb (fun r => match r_out r with Done => true | _ => false end) (run_script_segments p cap [] bs) = true.
Proof. intros p cap bs. induction bs as [|b r IH]; [reflexivity|exact IH]. Qed.
Print Assumptions c02_empty_returns.
