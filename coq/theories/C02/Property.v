(** C02 — RunUntil boundaries do not change what runs or in what order.  Property theorems only.

    Setting: arbitrary event type, arbitrary handler program [H]; [run_until t] is RunUntil(t), [run]
    is Run, [run_segments bs] is the driver "RunUntil b1; ...; RunUntil bk; Run" (it stops at the first
    call that does not return normally); fuel bounds the number of loop iterations of each call,
    "the call returned" is [r_out r = Done]; [e_ok] is the engine invariant (C01/Property.v). *)
From Akita Require Import Lib.Base Lib.Engine Lib.EngineProofs Lib.EngineRunProofs C01.Model C01.Proofs C02.Model C02.Proofs.
From Coq Require Import Permutation Sorted.
Local Open Scope N_scope.

(** A RunUntil(t) call that returns has handled only events with time <= t, and precisely those:
    the handled entries are the entries with time <= t among everything queued before the call or
    scheduled during it; the entries with a later time are exactly what is still queued; the clock
    is at the last handled event (unchanged if nothing was handled); the invariant holds again. *)
Theorem c02_segment_exact :
  forall (E : Type) (etime : E -> N) (esec : E -> bool) (HS : Type) (H : HS -> E -> HS * list E),
  H_ok etime H -> forall t fuel hs en0, e_ok etime esec en0 ->
  let r := run_until etime esec H t fuel hs en0 in
  r_out r = Done ->
  (forall x, In x (handled (r_log r)) -> qtime etime x <= t) /\
  (forall y, In y (pending (r_en r)) -> t < qtime etime y) /\
  Permutation (handled (r_log r))
    (filter (fun x => qtime etime x <=? t) (pending en0 ++ scheduled (r_log r))) /\
  Permutation (pending (r_en r))
    (filter (fun x => negb (qtime etime x <=? t)) (pending en0 ++ scheduled (r_log r))) /\
  e_now (r_en r) = last (map (qtime etime) (handled (r_log r))) (e_now en0) /\
  e_ok etime esec (r_en r).
Proof. intros E etime esec HS H HH t fuel hs en0. exact (g_segment_exact etime esec H HH t fuel hs en0). Qed.
Print Assumptions c02_segment_exact.

(** RunUntil never panics for handlers that do not schedule in the past, and even a call cut short
    by the fuel bound has only handled events with time <= t. *)
Theorem c02_run_until_safe :
  forall (E : Type) (etime : E -> N) (esec : E -> bool) (HS : Type) (H : HS -> E -> HS * list E),
  H_ok etime H -> forall t fuel hs en0, e_ok etime esec en0 ->
  let r := run_until etime esec H t fuel hs en0 in
  r_out r <> Panicked /\ (forall x, In x (handled (r_log r)) -> qtime etime x <= t).
Proof. intros E etime esec HS H HH t fuel hs en0. exact (g_until_prefix_le etime esec H HH t fuel hs en0). Qed.
Print Assumptions c02_run_until_safe.

(** Boundaries are invisible: for EVERY handler program (even one that panics), every engine state
    and EVERY list of boundaries (increasing, repeated, decreasing), whenever a single Run ends within
    the fuel bound, the driver RunUntil b1; ...; RunUntil bk; Run ends as well, every call but the last
    returns normally, the concatenated handled/scheduled logs equal the log of the single Run, and
    the last call ends with the same outcome, handler state and engine state (clock and queues). *)
Theorem c02_concat :
  forall (E : Type) (etime : E -> N) (esec : E -> bool) (HS : Type) (H : HS -> E -> HS * list E)
         (bs : list N) (fuel : nat) (hs : HS) (en : @engine E),
  let r := run etime esec H fuel hs en in
  r_out r <> OutOfFuel ->
  exists rs rl, run_segments etime esec H bs fuel hs en = rs ++ [rl] /\
    Forall (fun x => r_out x = Done) rs /\
    flat_map (@r_log E HS) (rs ++ [rl]) = r_log r /\
    r_out rl = r_out r /\ r_hs rl = r_hs r /\ r_en rl = r_en r.
Proof. intros E etime esec HS H bs fuel hs en. exact (run_segments_concat etime esec H bs fuel hs en). Qed.
Print Assumptions c02_concat.

(** RunUntil(t) alone is a prefix of Run: Run = RunUntil(t) followed by Run. *)
Theorem c02_run_until_split :
  forall (E : Type) (etime : E -> N) (esec : E -> bool) (HS : Type) (H : HS -> E -> HS * list E)
         (t : N) (fuel : nat) (hs : HS) (en : @engine E),
  let r := run etime esec H fuel hs en in
  let u := run_until etime esec H t fuel hs en in
  r_out r <> OutOfFuel ->
  match r_out u with
  | Done => r = app_log (r_log u) (run etime esec H fuel (r_hs u) (r_en u))
  | Panicked => u = r
  | OutOfFuel => False
  end.
Proof. intros E etime esec HS H t fuel hs en r u Hno. exact (run_until_prefix etime esec H t fuel hs en Hno). Qed.
Print Assumptions c02_run_until_split.

(** In the driver every RunUntil(b) call is exact in the sense of [c02_segment_exact], relative to
    the state the previous call left. *)
Theorem c02_driver_segments_exact :
  forall (E : Type) (etime : E -> N) (esec : E -> bool) (HS : Type) (H : HS -> E -> HS * list E),
  H_ok etime H -> forall bs fuel hs en0, e_ok etime esec en0 ->
  segs_exact etime bs en0 (run_segments etime esec H bs fuel hs en0).
Proof. intros E etime esec HS H HH bs fuel hs en0. exact (g_segs_exact etime esec H HH bs fuel hs en0). Qed.
Print Assumptions c02_driver_segments_exact.

(** For the handler scripts of the correspondence check the fuel hypothesis of [c02_concat] always
    holds: for every script (also one that makes Schedule panic), every initial schedule and every
    boundary list, the driver's concatenated log, outcome and final state equal the single Run's. *)
Theorem c02_concat_scripts : forall p cap init bs,
  exists rs rl, run_script_segments p cap init bs = rs ++ [rl] /\
    Forall (fun x => r_out x = Done) rs /\
    flat_map (@r_log sev hst) (rs ++ [rl]) = r_log (run_script p cap init) /\
    r_out rl = r_out (run_script p cap init) /\ r_hs rl = r_hs (run_script p cap init) /\
    r_en rl = r_en (run_script p cap init).
Proof. exact script_concat. Qed.
Print Assumptions c02_concat_scripts.

(* ------------------------------------------------------------------ non-vacuity *)

(** a chain 10,20,...,100 with boundaries between, at, repeated and beyond event times: all calls
    return, the RunUntil calls handle 2,0,3,0,5 events, the final Run none *)
Definition ex_chain : program := [ [ [Sp 10 0 false] ] ].
Example c02_nonvacuous :
  H_ok s_time (script_handler ex_chain) /\
  let rs := run_script_segments ex_chain 9 [(10, 0, false, 20)] [25; 25; 50; 50; 1000] in
  map (fun r => (match r_out r with Done => true | _ => false end, length (r_log r), e_now (r_en r))) rs =
  [(true, 2%nat, 20); (true, 0%nat, 20); (true, 3%nat, 50); (true, 0%nat, 50); (true, 5%nat, 100); (true, 0%nat, 100)].
Proof.
  split.
  - apply script_H_ok. intros alts alt sp Ha Hb Hc. cbn in Ha. destruct Ha as [<-|[]].
    cbn in Hb. destruct Hb as [<-|[]]. cbn in Hc. destruct Hc as [<-|[]]. cbn. lia.
  - vm_compute. reflexivity.
Qed.

(* ------------------------------------------------------------------ link between the evaluators *)
From Akita Require Import C01.Exec C02.Exec C02.ProofsLink.

(** On every well-formed case (script without negative offsets, clock not set after a queued event)
    agreement of the model with the observed behaviour of timing.SerialEngine ([Exec.check_case])
    implies the property predicate on the observed behaviour ([Exec.holds_on]: every RunUntil segment
    only handled events <= its boundary, left only later events queued, clock at the last handled
    event; concatenated segments = the observed single Run). *)
Theorem c02_model_agreement_implies_property : forall c, wf2 c -> check_case c = true -> holds_on c = true.
Proof. exact check_implies_holds2. Qed.
Print Assumptions c02_model_agreement_implies_property.

(** the hypotheses of the link theorem are satisfiable (observations taken from the model itself) *)
Example c02_link_nonvacuous :
  let bs := [25; 25; 50; 50; 1000] in
  let c := mk_case2 ex_chain 9 [(10, 0, false, 20)] 0 false bs
             (map (proj_result false) (run_script_segments_at ex_chain 9 [(10, 0, false, 20)] 0 bs))
             (proj_result false (run_script_at ex_chain 9 [(10, 0, false, 20)] 0)) in
  wf2 c /\ check_case c = true /\ holds_on c = true /\ length (o_segs c) = 6%nat.
Proof.
  cbv zeta. split; [|vm_compute; repeat split; reflexivity]. split.
  - intros alts alt sp Ha Hb Hc. cbn in Ha. destruct Ha as [<-|[]].
    cbn in Hb. destruct Hb as [<-|[]]. cbn in Hc. destruct Hc as [<-|[]]. cbn. lia.
  - intros e He. cbn [d_t0]. lia.
Qed.
