(** C02 — case evaluators for the correspondence check. *)
From Akita Require Export Lib.Base Lib.Engine C01.Model C01.Exec C02.Model.
Local Open Scope N_scope.

(** one observed Run/RunUntil call: outcome (0 returned / 2 panicked), handled steps, CurrentTime()
    afterwards, queued primaries / secondaries afterwards (SaveCheckpoint, pop order) *)
Record oseg := Sg { g_out : N; g_steps : list ostep; g_clock : N; g_pp : list sev; g_ps : list sev }.

Record case2 := mk_case2 {
  d_prog : program; d_cap : N; d_init : list ievent; d_t0 : N; d_hooks : bool; d_bounds : list N;
  o_segs : list oseg;       (* RunUntil b1 .. RunUntil bk, Run — on one engine *)
  o_single : oseg }.        (* a single Run on a fresh engine with the same program *)
Definition case := case2.

Definition oseg_eqb (a b : oseg) : bool :=
  (g_out a =? g_out b) && list_eqb ostep_eqb (g_steps a) (g_steps b) && (g_clock a =? g_clock b) &&
  list_eqb sev_eqb (g_pp a) (g_pp b) && list_eqb sev_eqb (g_ps a) (g_ps b).

Definition proj_result (hooks : bool) (r : sresult) : oseg :=
  Sg (out_code (r_out r)) (map (proj_step hooks) (r_log r)) (e_now (r_en r))
     (snapshot (e_p (r_en r))) (snapshot (e_s (r_en r))).

(** model output = implementation output *)
Definition check_case (c : case) : bool :=
  list_eqb oseg_eqb
    (map (proj_result (d_hooks c))
         (run_script_segments_at (d_prog c) (d_cap c) (d_init c) (d_t0 c) (d_bounds c))) (o_segs c) &&
  oseg_eqb (proj_result (d_hooks c) (run_script_at (d_prog c) (d_cap c) (d_init c) (d_t0 c))) (o_single c).

(* ---------------------------------------------------------------- the property on the observed behaviour *)

Definition last_time (clock : N) (steps : list ostep) : N :=
  fold_left (fun _ s => s_time (os_ev s)) steps clock.

(** walks the RunUntil segments: [clock] is CurrentTime() before the call *)
Fixpoint segs_ok (bs : list N) (clock : N) (segs : list oseg) : bool :=
  match bs, segs with
  | [], [g] =>   (* the final Run *)
      (g_clock g =? last_time clock (g_steps g)) &&
      (if g_out g =? 0 then match g_pp g, g_ps g with [], [] => true | _, _ => false end else true)
  | b :: bs', g :: segs' =>
      forallb (fun s => s_time (os_ev s) <=? b) (g_steps g) &&       (* only events with time <= b *)
      (g_clock g =? last_time clock (g_steps g)) &&                   (* clock at the last handled event *)
      (if g_out g =? 0
       then forallb (fun y => b <? s_time y) (g_pp g ++ g_ps g) &&    (* everything later is still queued ... *)
            segs_ok bs' (g_clock g) segs'
       else match segs' with [] => true | _ => false end)             (* a panic ends the driver *)
  | _, _ => false
  end.

Definition holds_on (c : case) : bool :=
  segs_ok (d_bounds c) (d_t0 c) (o_segs c) &&
  (* ... and nothing that a single Run handles is lost or reordered *)
  list_eqb ostep_eqb (flat_map g_steps (o_segs c)) (g_steps (o_single c)) &&
  (g_clock (last (o_segs c) (o_single c)) =? g_clock (o_single c)) &&
  (g_out (last (o_segs c) (o_single c)) =? g_out (o_single c)).
