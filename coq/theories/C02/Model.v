(** C02 — RunUntil boundaries.  The engine ([run_until], [run], [run_segments]) is Lib/Engine.v;
    the handler script language is C01/Model.v.  This file only instantiates the driver
    "RunUntil b1; ...; RunUntil bk; Run" for scripts. *)
From Akita Require Export Lib.Base Lib.Engine C01.Model.
Local Open Scope N_scope.

Definition run_script_segments (p : program) (cap : N) (init : list ievent) (bs : list N) : list sresult :=
  let '(hs, en, _, _) := script_start cap init in
  run_segments s_time s_sec (script_handler p) bs (script_fuel cap init) hs en.

(** the same after SetCurrentTime(t0) (see C01/Model.v [run_script_at]) *)
Definition run_script_segments_at (p : program) (cap : N) (init : list ievent) (t0 : N) (bs : list N) : list sresult :=
  let '(hs, en, _, _) := script_start cap init in
  run_segments s_time s_sec (script_handler p) bs (script_fuel cap init) hs (set_current_time en t0).
