(** C02 — lemmas behind the property theorems (the generic facts are in Lib/EngineRunProofs.v). *)
From Akita Require Import Lib.Base Lib.Engine Lib.EngineProofs Lib.EngineRunProofs C01.Model C02.Model.
From Coq Require Import Permutation Sorted.
Local Open Scope N_scope.

Section Generic.
  Context {E : Type} (etime : E -> N) (esec : E -> bool) {HS : Type} (H : HS -> E -> HS * list E).
  Local Notation qt := (qtime etime).
  Local Notation eok := (e_ok etime esec).

  (** what every RunUntil call of the driver "RunUntil b1; ..; RunUntil bk; Run" satisfies;
      [en0] is the engine state before the call *)
  Fixpoint segs_exact (bs : list N) (en0 : @engine E) (rs : list (@result E HS)) : Prop :=
    match bs, rs with
    | b :: bs', r :: rs' =>
        (forall x, In x (handled (r_log r)) -> qt x <= b) /\
        (r_out r = Done ->
           (forall y, In y (pending (r_en r)) -> b < qt y) /\
           Permutation (handled (r_log r))
             (filter (fun x => qt x <=? b) (pending en0 ++ scheduled (r_log r))) /\
           Permutation (pending (r_en r))
             (filter (fun x => negb (qt x <=? b)) (pending en0 ++ scheduled (r_log r))) /\
           e_now (r_en r) = last (map qt (handled (r_log r))) (e_now en0)) /\
        segs_exact bs' (r_en r) rs'
    | _, _ => True
    end.

  Variable HH : H_ok etime H.

  Lemma g_segment_exact t fuel hs en0 : eok en0 ->
    let r := run_until etime esec H t fuel hs en0 in
    r_out r = Done ->
    (forall x, In x (handled (r_log r)) -> qt x <= t) /\
    (forall y, In y (pending (r_en r)) -> t < qt y) /\
    Permutation (handled (r_log r)) (filter (fun x => qt x <=? t) (pending en0 ++ scheduled (r_log r))) /\
    Permutation (pending (r_en r)) (filter (fun x => negb (qt x <=? t)) (pending en0 ++ scheduled (r_log r))) /\
    e_now (r_en r) = last (map qt (handled (r_log r))) (e_now en0) /\
    eok (r_en r).
  Proof.
    intros Hok r Hd.
    destruct (run_until_exact etime esec H t fuel hs en0 HH Hok Hd) as (HJ & A & B & C & D).
    fold r in HJ, A, B, C, D.
    split; [exact A|]. split; [exact B|]. split; [exact C|]. split; [exact D|].
    split; [exact (J_clock _ _ _ _ _ HJ)|exact (J_ok _ _ _ _ _ HJ)].
  Qed.

  Lemma g_until_prefix_le t fuel hs en0 : eok en0 ->
    let r := run_until etime esec H t fuel hs en0 in
    r_out r <> Panicked /\ (forall x, In x (handled (r_log r)) -> qt x <= t).
  Proof.
    intros Hok r. assert (Hnp : r_out r <> Panicked) by (apply run_until_no_panic; assumption).
    split; [exact Hnp|]. destruct (run_until_exec etime esec H t fuel hs en0) as [H1 _]. fold r in H1.
    eapply exec_until_le; [exact HH|exact Hok|apply H1; exact Hnp].
  Qed.

  Lemma g_segs_exact bs : forall fuel hs en0, eok en0 ->
    segs_exact bs en0 (run_segments etime esec H bs fuel hs en0).
  Proof.
    induction bs as [|b bs IH]; intros fuel hs en0 Hok; cbn [run_segments]; [exact I|].
    set (r := run_until etime esec H b fuel hs en0).
    destruct (g_until_prefix_le b fuel hs en0 Hok) as [_ Hle]. fold r in Hle.
    destruct (r_out r) eqn:Eo; cbn [segs_exact].
    - destruct (g_segment_exact b fuel hs en0 Hok Eo) as (A & B & C & D & F & G). fold r in A, B, C, D, F, G.
      split; [exact Hle|]. split; [intros _; repeat split; assumption|]. apply IH. exact G.
    - split; [exact Hle|]. split; [intro Hc; rewrite Eo in Hc; discriminate|]. destruct bs; exact I.
    - split; [exact Hle|]. split; [intro Hc; rewrite Eo in Hc; discriminate|]. destruct bs; exact I.
  Qed.
End Generic.

(* ---------------------------------------------------------------- scripts: unconditional *)
From Akita Require Import C01.Proofs.

(** for every script of the correspondence check (also panicking ones) and every boundary list the
    driver's concatenated log is the single Run's log — the fuel hypothesis is discharged *)
Lemma script_concat p cap init bs :
  exists rs rl, run_script_segments p cap init bs = rs ++ [rl] /\
    Forall (fun x => r_out x = Done) rs /\
    flat_map (@r_log sev hst) (rs ++ [rl]) = r_log (run_script p cap init) /\
    r_out rl = r_out (run_script p cap init) /\ r_hs rl = r_hs (run_script p cap init) /\
    r_en rl = r_en (run_script p cap init).
Proof.
  pose proof (script_run_ends p cap init) as Hno.
  unfold run_script_segments, run_script in *.
  destruct (script_start cap init) as [[[hs en] xs] ok].
  exact (run_segments_concat s_time s_sec (script_handler p) bs (script_fuel cap init) hs en Hno).
Qed.
