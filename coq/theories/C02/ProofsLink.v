(** C02 — link between the two evaluators of Exec.v: on a well-formed case, agreement of the model
    with the observed behaviour implies the property predicate on the observed behaviour. *)
From Akita Require Import Lib.Base Lib.Engine Lib.EngineProofs Lib.EngineRunProofs Lib.EngineTermination
  C01.Model C01.Proofs C01.Exec C01.ProofsLink C02.Model C02.Proofs C02.Exec.
From Coq Require Import Permutation Sorted.
Local Open Scope N_scope.

Local Notation qt := (qtime s_time).
Local Notation eok := (e_ok s_time s_sec).

Lemma oseg_eqb_eq a b : oseg_eqb a b = true <-> a = b.
Proof.
  destruct a as [o1 s1 c1 p1 q1], b as [o2 s2 c2 p2 q2]. unfold oseg_eqb. cbn [g_out g_steps g_clock g_pp g_ps].
  rewrite !andb_true_iff, !N.eqb_eq, (list_eqb_eq ostep_eqb ostep_eqb_eq), !(list_eqb_eq sev_eqb sev_eqb_eq). split.
  - intros [[[[-> ->] ->] ->] ->]. reflexivity.
  - intro H. inversion H. auto.
Qed.

(* ------------------------------------------------------------------ small list facts *)
Lemma last_nonempty {A} (l : list A) d d' : l <> [] -> last l d = last l d'.
Proof.
  induction l as [|a l IH]; intro H; [congruence|]. destruct l as [|b l]; [reflexivity|].
  change (last (a :: b :: l) d) with (last (b :: l) d). change (last (a :: b :: l) d') with (last (b :: l) d').
  apply IH. discriminate.
Qed.

Lemma last_time_spec hooks (l : list (@step sev)) : forall clk,
  last_time clk (map (proj_step hooks) l) = last (map qt (handled l)) clk.
Proof.
  unfold last_time. induction l as [|s l IH]; intro clk; [reflexivity|].
  cbn [map fold_left handled]. rewrite IH. cbn [proj_step os_ev].
  destruct l as [|s' l]; [reflexivity|].
  assert (Hc : forall (a : N) m d, m <> [] -> last (a :: m) d = last m d) by (intros a [|? ?] d Hm; [congruence|reflexivity]).
  rewrite Hc by (cbn; discriminate). apply last_nonempty. cbn; discriminate.
Qed.

Lemma flat_steps hooks (L : list sresult) :
  flat_map g_steps (map (proj_result hooks) L) = map (proj_step hooks) (flat_map (@r_log sev hst) L).
Proof.
  induction L as [|r L IH]; [reflexivity|]. cbn [map flat_map]. rewrite map_app, IH. reflexivity.
Qed.

(** the checkpoint view of a queue only contains queued events *)
Lemma snapshot_incl (q : @queue sev) : q_ok s_time q -> forall y, In y (snapshot q) -> exists yq, In yq (q_heap q) /\ fst yq = y.
Proof.
  intros (Hok & _ & _) y Hy. unfold snapshot in Hy. apply in_map_iff in Hy. destruct Hy as (yq & <- & Hyq).
  exists yq. split; [|reflexivity]. revert Hok Hyq. generalize (length (q_heap q)). generalize (q_heap q).
  intros h n. revert h. induction n as [|n IH]; intros h Hok Hin; [destruct Hin|]. cbn [hdrain] in Hin.
  destruct h as [|a h0]; [destruct Hin|].
  destruct (hpop_spec (qless s_time) (qless_asym s_time) (qhle_trans s_time) (a :: h0) Hok) as (m & h' & Hp & _ & Hok' & P & _); [discriminate|].
  rewrite Hp in Hin. destruct Hin as [<-|Hin].
  - eapply Permutation_in; [apply Permutation_sym; exact P|left; reflexivity].
  - eapply Permutation_in; [apply Permutation_sym; exact P|right; apply IH; assumption].
Qed.

Lemma snapshot_empty (q : @queue sev) : q_heap q = [] -> snapshot q = [].
Proof. intro H. unfold snapshot. rewrite H. reflexivity. Qed.

(* ------------------------------------------------------------------ the model's segments pass [segs_ok] *)
Lemma segs_ok_model p hooks : H_ok s_time (script_handler p) ->
  forall bs fuel hs en, eok en ->
  (forall r, In r (run_segments s_time s_sec (script_handler p) bs fuel hs en) -> r_out r = Done) ->
  segs_ok bs (e_now en) (map (proj_result hooks) (run_segments s_time s_sec (script_handler p) bs fuel hs en)) = true.
Proof.
  intros HH. induction bs as [|b bs IH]; intros fuel hs en Hok Hall; cbn [run_segments].
  - cbn [map segs_ok proj_result g_clock g_steps g_out g_pp g_ps].
    set (r := run s_time s_sec (script_handler p) fuel hs en) in *.
    assert (Hd : r_out r = Done) by (apply Hall; left; reflexivity).
    pose proof (g_time_monotone s_time s_sec (script_handler p) HH en Hok fuel hs) as Htm. cbv zeta in Htm.
    destruct Htm as (_ & _ & _ & Hclk). fold r in Hclk.
    pose proof (g_returns_empty s_time s_sec (script_handler p) HH en Hok fuel hs Hd) as Hre. cbv zeta in Hre.
    destruct Hre as (_ & Hq1 & Hq2). fold r in Hq1, Hq2.
    rewrite last_time_spec, <- Hclk, N.eqb_refl, Hd. cbn [andb out_code N.eqb].
    rewrite (snapshot_empty _ Hq1), (snapshot_empty _ Hq2). reflexivity.
  - set (u := run_until s_time s_sec (script_handler p) b fuel hs en) in *.
    assert (Hd : r_out u = Done).
    { apply Hall. cbn [run_segments]. fold u. destruct (r_out u); left; reflexivity. }
    cbn [run_segments] in Hall. fold u in Hall. rewrite Hd in *. cbn [map segs_ok proj_result g_clock g_steps g_out g_pp g_ps].
    pose proof (g_segment_exact s_time s_sec (script_handler p) HH b fuel hs en Hok Hd) as Hse. cbv zeta in Hse.
    destruct Hse as (A & B & _ & _ & F & G).
    fold u in A, B, F, G.
    assert (C1 : forallb (fun s => s_time (os_ev s) <=? b) (map (proj_step hooks) (r_log u)) = true).
    { apply forallb_forall. intros s Hs. apply in_map_iff in Hs. destruct Hs as (st & <- & Hst).
      cbn [proj_step os_ev]. apply N.leb_le. apply (A (st_ev st)). unfold handled. apply in_map. exact Hst. }
    assert (C3 : forallb (fun y => b <? s_time y) (snapshot (e_p (r_en u)) ++ snapshot (e_s (r_en u))) = true).
    { destruct G as (Gp & Gs & _). apply forallb_forall. intros y Hy. apply N.ltb_lt. apply in_app_or in Hy.
      destruct Hy as [Hy|Hy].
      - destruct (snapshot_incl _ Gp y Hy) as (yq & Hyq & <-). apply (B yq). unfold pending. apply in_or_app. left; exact Hyq.
      - destruct (snapshot_incl _ Gs y Hy) as (yq & Hyq & <-). apply (B yq). unfold pending. apply in_or_app. right; exact Hyq. }
    rewrite C1, last_time_spec, <- F, N.eqb_refl, C3, Hd. cbn [andb out_code N.eqb].
    apply IH; [exact G|]. intros r Hr. apply Hall. right. exact Hr.
Qed.

(* ------------------------------------------------------------------ the link theorem *)
Definition wf2 (c : case) : Prop :=
  nonneg_prog (d_prog c) /\ (forall e, In e (init_events 0 (d_init c)) -> d_t0 c <= s_time e).

Lemma check_implies_holds2 c : wf2 c -> check_case c = true -> holds_on c = true.
Proof.
  intros [Hp Ht] Hc. unfold check_case in Hc. apply andb_true_iff in Hc. destruct Hc as [Hsegs Hsingle].
  apply (list_eqb_eq oseg_eqb oseg_eqb_eq) in Hsegs. apply oseg_eqb_eq in Hsingle.
  set (evs := init_events 0 (d_init c)) in *.
  destruct (start_spec s_time s_sec evs) as (Hsa & Hok0 & P0 & Hm0 & Hn0 & _ & _).
  set (en0 := set_current_time (start_en s_time s_sec evs) (d_t0 c)).
  set (hs0 := mk_hst (N.of_nat (length (d_init c))) (d_cap c)).
  set (H := script_handler (d_prog c)).
  set (fuel := script_fuel (d_cap c) (d_init c)).
  assert (Hr1 : run_script_at (d_prog c) (d_cap c) (d_init c) (d_t0 c) = run s_time s_sec H fuel hs0 en0).
  { unfold run_script_at, script_start. fold evs. rewrite Hsa. reflexivity. }
  assert (Hr2 : run_script_segments_at (d_prog c) (d_cap c) (d_init c) (d_t0 c) (d_bounds c) =
                run_segments s_time s_sec H (d_bounds c) fuel hs0 en0).
  { unfold run_script_segments_at, script_start. fold evs. rewrite Hsa. reflexivity. }
  rewrite Hr1 in Hsingle. rewrite Hr2 in Hsegs. clear Hr1 Hr2.
  set (r := run s_time s_sec H fuel hs0 en0) in *.
  pose proof (script_H_ok _ Hp) as HH. fold H in HH.
  assert (Hok : eok en0).
  { apply set_time_ok; [exact Hok0|]. intros x Hx. apply Ht. fold evs. rewrite <- Hm0. apply in_map.
    apply (Permutation_in _ P0). exact Hx. }
  assert (Hdone : r_out r = Done).
  { assert (H1 : r_out r <> OutOfFuel).
    { apply (run_enough_fuel s_time s_sec H (fun hs => N.to_nat (h_cap hs)) (script_allow (d_prog c))).
      pose proof (schedule_all_len s_time s_sec evs new_engine) as Hl. rewrite Hsa in Hl.
      unfold evs in Hl. rewrite init_events_length in Hl.
      change (pending en0) with (pending (start_en s_time s_sec evs)).
      cbn [pending new_engine e_p e_s q_heap q_empty app length] in Hl. cbn [hs0 h_cap]. unfold fuel, script_fuel, evs. lia. }
    assert (H2 : r_out r <> Panicked) by (apply run_no_panic; assumption).
    destruct (r_out r); congruence. }
  destruct (run_segments_concat s_time s_sec H (d_bounds c) fuel hs0 en0) as (rs & rl & Hrs & Hall & Hcat & Ho & _ & He).
  { fold r. rewrite Hdone. discriminate. }
  fold r in Hcat, Ho, He.
  assert (HallD : forall x, In x (run_segments s_time s_sec H (d_bounds c) fuel hs0 en0) -> r_out x = Done).
  { rewrite Hrs. intros x Hx. apply in_app_or in Hx. destruct Hx as [Hx|[<-|[]]].
    - rewrite Forall_forall in Hall. apply Hall. exact Hx.
    - rewrite Ho. exact Hdone. }
  pose proof (segs_ok_model (d_prog c) (d_hooks c) HH (d_bounds c) fuel hs0 en0 Hok HallD) as Hsok. fold H in Hsok.
  unfold holds_on. rewrite <- Hsegs, <- Hsingle. change (d_t0 c) with (e_now en0). rewrite Hsok. cbn [andb].
  rewrite flat_steps, Hrs, Hcat. cbn [proj_result g_steps].
  rewrite (proj2 (list_eqb_eq ostep_eqb ostep_eqb_eq _ _) eq_refl). cbn [andb].
  rewrite map_app. cbn [map]. rewrite last_last. cbn [proj_result g_clock g_out].
  rewrite He, Ho, !N.eqb_refl. reflexivity.
Qed.
