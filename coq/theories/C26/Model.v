(** C26 — executable model of mem/vm/pagetable.go and pagetable_checkpoint.go.

    Go structure                           model
    -----------------------------------    ------------------------------------------
    vm.Page (9 fields)                     [page] (the four bool fields packed in [pg_flags])
    processTable.entries (a list.List)     [pt_entries]: ordered list of (element id, page);
                                           an element id stands for the list.Element pointer
    processTable.entriesTable (Go map)     [pt_keys]: finite map vaddr -> element id (only looked
                                           up by key, never ranged over)
    pageTableImpl.tables (Go map)          [tb_tabs]: finite map pid -> ptab.  It IS ranged over
                                           (ReverseLookup, SaveCheckpoint); every such loop takes
                                           an iteration [oracle] (an arbitrary permutation).
    panic("page exist"/"does not exist")   outcome [RPanic] (state changes made before the panic,
                                           i.e. getTable creating the process table, are kept)

    ReverseLookup is modelled as repaired by the fix commit (collect the PIDs, sort them,
    visit the process tables in that order); [rev_lookup_old] is the pre-fix loop that
    visits the tables in map-iteration order. *)
From Akita Require Import Lib.Base.
Local Open Scope N_scope.

Record page := mk_page {
  pg_pid : N; pg_paddr : N; pg_vaddr : N; pg_size : N; pg_dev : N; pg_flags : N }.

Definition page_eqb (a b : page) : bool :=
  (pg_pid a =? pg_pid b) && (pg_paddr a =? pg_paddr b) && (pg_vaddr a =? pg_vaddr b) &&
  (pg_size a =? pg_size b) && (pg_dev a =? pg_dev b) && (pg_flags a =? pg_flags b).

(** Finite maps with N keys as association lists (first binding wins; [kset]
    keeps at most one binding per key). *)
Fixpoint kget {V} (k : N) (m : list (N * V)) : option V :=
  match m with
  | [] => None
  | (k', v) :: r => if k' =? k then Some v else kget k r
  end.

Fixpoint kdel {V} (k : N) (m : list (N * V)) : list (N * V) :=
  match m with
  | [] => []
  | (k', v) :: r => if k' =? k then kdel k r else (k', v) :: kdel k r
  end.

Definition kset {V} (k : N) (v : V) (m : list (N * V)) : list (N * V) := (k, v) :: kdel k m.

(** container/list: replace the Value of the element [id]. *)
Fixpoint elem_set (id : N) (p : page) (es : list (N * page)) : list (N * page) :=
  match es with
  | [] => []
  | (i, q) :: r => if i =? id then (i, p) :: r else (i, q) :: elem_set id p r
  end.

(** processTable *)
Record ptab := mk_ptab {
  pt_next : N;                       (* next fresh element id *)
  pt_entries : list (N * page);      (* entries, front to back *)
  pt_keys : list (N * N) }.          (* entriesTable: vaddr -> element *)

Definition pt_empty : ptab := mk_ptab 0 [] [].

Definition pt_pages (t : ptab) : list page := map snd (pt_entries t).

(** PushBack + map store, without the existence check (shared by insert and LoadCheckpoint). *)
Definition pt_push (p : page) (t : ptab) : ptab :=
  mk_ptab (pt_next t + 1) (pt_entries t ++ [(pt_next t, p)]) (kset (pg_vaddr p) (pt_next t) (pt_keys t)).

(** processTable.insert: [None] = panic("page exist"). *)
Definition pt_insert (p : page) (t : ptab) : option ptab :=
  match kget (pg_vaddr p) (pt_keys t) with
  | Some _ => None
  | None => Some (pt_push p t)
  end.

(** processTable.remove: [None] = panic("page does not exist"). *)
Definition pt_remove (va : N) (t : ptab) : option ptab :=
  match kget va (pt_keys t) with
  | None => None
  | Some id => Some (mk_ptab (pt_next t) (kdel id (pt_entries t)) (kdel va (pt_keys t)))
  end.

(** processTable.update: elem.Value = page. *)
Definition pt_update (p : page) (t : ptab) : option ptab :=
  match kget (pg_vaddr p) (pt_keys t) with
  | None => None
  | Some id => Some (mk_ptab (pt_next t) (elem_set id p (pt_entries t)) (pt_keys t))
  end.

(** processTable.find.  The Go code dereferences the element stored in the map;
    a key whose element is not in the list cannot occur (lemma [wf_keys_live]);
    the model returns not-found for it. *)
Definition pt_find (va : N) (t : ptab) : option page :=
  match kget va (pt_keys t) with
  | None => None
  | Some id => kget id (pt_entries t)
  end.

(** processTable.reverseLookup: first entry (front to back) with that PAddr. *)
Definition pt_rev (pa : N) (t : ptab) : option page :=
  find (fun p => pg_paddr p =? pa) (pt_pages t).

(** pageTableImpl *)
Record table := mk_table { tb_log2 : N; tb_tabs : list (N * ptab) }.

Definition tb_new (log2 : N) : table := mk_table log2 [].

(** alignToPage: (addr >> log2) << log2 on uint64 (a shift count >= 64 gives 0). *)
Definition align (log2 a : N) : N :=
  if 64 <=? log2 then 0 else (a / 2 ^ log2) * 2 ^ log2.

(** getTable: creates the process table on first use (also from Find and Remove). *)
Definition get_table (pid : N) (tabs : list (N * ptab)) : list (N * ptab) * ptab :=
  match kget pid tabs with
  | Some t => (tabs, t)
  | None => (kset pid pt_empty tabs, pt_empty)
  end.

(** Map iteration: an oracle maps the key list to the order in which `range` visits it. *)
Definition oracle := list N -> list N.

Fixpoint ins_sorted (x : N) (l : list N) : list N :=
  match l with
  | [] => [x]
  | y :: r => if x <=? y then x :: l else y :: ins_sorted x r
  end.
Definition sortN (l : list N) : list N := fold_right ins_sorted [] l.

Fixpoint first_some {A B} (f : A -> option B) (l : list A) : option B :=
  match l with
  | [] => None
  | x :: r => match f x with Some y => Some y | None => first_some f r end
  end.

Definition tab_rev (tabs : list (N * ptab)) (pa : N) (pid : N) : option page :=
  match kget pid tabs with
  | Some t => pt_rev pa t
  | None => None      (* unreachable: pid comes from ranging over the map *)
  end.

(** ReverseLookup after the fix: PIDs collected by ranging over the map, sorted, visited in order. *)
Definition rev_lookup (o : oracle) (t : table) (pa : N) : option page :=
  first_some (tab_rev (tb_tabs t) pa) (sortN (o (map fst (tb_tabs t)))).

(** ReverseLookup before the fix: `for _, processTable := range pt.tables`. *)
Definition rev_lookup_old (o : oracle) (t : table) (pa : N) : option page :=
  first_some (tab_rev (tb_tabs t) pa) (o (map fst (tb_tabs t))).

(** SaveCheckpoint: the DTO (log2, [(pid, pages in list order)] sorted by pid). *)
Definition dto := list (N * list page).

Definition tab_pages (tabs : list (N * ptab)) (pid : N) : N * list page :=
  (pid, match kget pid tabs with Some t => pt_pages t | None => [] end).

Definition save (o : oracle) (t : table) : dto :=
  map (tab_pages (tb_tabs t)) (sortN (o (map fst (tb_tabs t)))).

(** LoadCheckpoint: per entry a fresh process table (PushBack + map store per page; no
    existence check, so a duplicate vaddr leaves two entries and the map on the last one);
    a repeated pid replaces the earlier process table. *)
Definition pt_build (ps : list page) : ptab := fold_left (fun t p => pt_push p t) ps pt_empty.

Definition load_tabs (d : dto) : list (N * ptab) :=
  fold_left (fun acc e => kset (fst e) (pt_build (snd e)) acc) d [].

(** [None] = the log2 page sizes differ (error returned, table untouched). *)
Definition load (log2 : N) (d : dto) (t : table) : option table :=
  if log2 =? tb_log2 t then Some (mk_table (tb_log2 t) (load_tabs d)) else None.

(** Operation histories. *)
Inductive op :=
| OInsert (p : page)
| ORemove (pid va : N)
| OFind (pid va : N)
| OUpdate (p : page)
| ORev (pa : N)
| OSave
| OLoad (log2 : N) (d : dto)      (* LoadCheckpoint of an arbitrary (possibly hand-made) DTO *)
| ORoundtrip.                      (* SaveCheckpoint, then LoadCheckpoint into a freshly built table *)

Inductive res :=
| RPanic
| RUnit
| RFound (p : option page)
| RSaved (log2 : N) (d : dto)
| RLoaded (ok : bool).

Definition with_tab (t : table) (pid : N) (f : ptab -> option ptab) : table * res :=
  let '(tabs, pt) := get_table pid (tb_tabs t) in
  match f pt with
  | None => (mk_table (tb_log2 t) tabs, RPanic)
  | Some pt' => (mk_table (tb_log2 t) (kset pid pt' tabs), RUnit)
  end.

Definition step (o : oracle) (t : table) (x : op) : table * res :=
  match x with
  | OInsert p => with_tab t (pg_pid p) (pt_insert p)
  | ORemove pid va => with_tab t pid (pt_remove va)
  | OUpdate p => with_tab t (pg_pid p) (pt_update p)
  | OFind pid va =>
      let '(tabs, pt) := get_table pid (tb_tabs t) in
      (mk_table (tb_log2 t) tabs, RFound (pt_find (align (tb_log2 t) va) pt))
  | ORev pa => (t, RFound (rev_lookup o t pa))
  | OSave => (t, RSaved (tb_log2 t) (save o t))
  | OLoad l d =>
      match load l d t with
      | Some t' => (t', RLoaded true)
      | None => (t, RLoaded false)
      end
  | ORoundtrip =>
      let d := save o t in
      match load (tb_log2 t) d (tb_new (tb_log2 t)) with
      | Some t' => (t', RSaved (tb_log2 t) d)
      | None => (t, RLoaded false)
      end
  end.

(** A history: each operation comes with the oracle used for the map ranges it performs. *)
Fixpoint run (t : table) (h : list (oracle * op)) : table * list res :=
  match h with
  | [] => (t, [])
  | (o, x) :: r =>
      let '(t1, y) := step o t x in
      let '(t2, ys) := run t1 r in (t2, y :: ys)
  end.

Definition id_oracle : oracle := fun l => l.
Definition rev_oracle : oracle := fun l => rev l.

(** The same step with the pre-fix ReverseLookup. *)
Definition step_old (o : oracle) (t : table) (x : op) : table * res :=
  match x with
  | ORev pa => (t, RFound (rev_lookup_old o t pa))
  | _ => step o t x
  end.
