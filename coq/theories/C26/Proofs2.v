(** C26 — proofs, part 2: one process table.  The (element list, key map) structure stays
    consistent and refines plain list operations on the pages in list order. *)
From Akita Require Import Lib.Base C26.Model.
Local Open Scope N_scope.

(** ---- finite-map lemmas *)
Section KMap.
Context {V : Type}.
Implicit Types m : list (N * V).

Lemma kget_kdel_eq k m : kget k (kdel k m) = None.
Proof.
  induction m as [|[k' v] r IH]; cbn [kdel kget]; [reflexivity|].
  destruct (k' =? k) eqn:E; [exact IH|]. cbn [kget]. rewrite E. exact IH.
Qed.

Lemma kget_kdel_neq k k' m : k <> k' -> kget k' (kdel k m) = kget k' m.
Proof.
  intro H. induction m as [|[j v] r IH]; cbn [kdel kget]; [reflexivity|].
  destruct (j =? k) eqn:E.
  - destruct (j =? k') eqn:E'; [lia|exact IH].
  - cbn [kget]. destruct (j =? k'); [reflexivity|exact IH].
Qed.

Lemma kget_kset k k' v m : kget k' (kset k v m) = if k =? k' then Some v else kget k' m.
Proof.
  unfold kset. cbn [kget]. destruct (k =? k') eqn:E; [reflexivity|].
  apply kget_kdel_neq. lia.
Qed.

Lemma In_kdel i v k m : In (i, v) (kdel k m) <-> i <> k /\ In (i, v) m.
Proof.
  induction m as [|[j w] r IH]; cbn [kdel In]; [tauto|].
  destruct (j =? k) eqn:E.
  - rewrite IH. split; [tauto|]. intros [Hn [Heq|Hin]]; [|tauto].
    inversion Heq; subst. lia.
  - cbn [In]. rewrite IH. split.
    + intros [Heq|[Hn Hin]]; [inversion Heq; subst; split; [lia|tauto]|tauto].
    + tauto.
Qed.

Lemma kget_In k v m : kget k m = Some v -> In (k, v) m.
Proof.
  induction m as [|[j w] r IH]; cbn [kget In]; [discriminate|].
  destruct (j =? k) eqn:E; intro H.
  - inversion H; subst. left. f_equal. lia.
  - right. auto.
Qed.

Lemma In_kget k v m : NoDup (map fst m) -> In (k, v) m -> kget k m = Some v.
Proof.
  induction m as [|[j w] r IH]; cbn [kget In map fst]; intros Hnd Hin; [tauto|].
  inversion Hnd as [|? ? Hni Hnd']; subst.
  destruct Hin as [Heq|Hin].
  - inversion Heq; subst. rewrite N.eqb_refl. reflexivity.
  - destruct (j =? k) eqn:E; [|auto].
    exfalso. apply Hni. assert (j = k) by lia. subst. apply (in_map fst) in Hin. exact Hin.
Qed.

Lemma kget_none_notin k m : kget k m = None <-> ~ In k (map fst m).
Proof.
  induction m as [|[j w] r IH]; cbn [kget In map fst]; [tauto|].
  destruct (j =? k) eqn:E.
  - split; [discriminate|]. intro H. exfalso. apply H. left. lia.
  - rewrite IH. split; [intros H [H1|H1]; [lia|tauto]|tauto].
Qed.

Lemma kget_some_in k m : (exists v, kget k m = Some v) <-> In k (map fst m).
Proof.
  destruct (kget k m) as [v|] eqn:E.
  - split; [intros _|intros _; eauto].
    apply kget_In in E. apply (in_map fst) in E. exact E.
  - split; [intros [v Hv]; discriminate|]. intro H. apply kget_none_notin in E. tauto.
Qed.

Lemma map_fst_kdel_incl k m x : In x (map fst (kdel k m)) -> In x (map fst m) /\ x <> k.
Proof.
  induction m as [|[j w] r IH]; cbn [kdel map fst In]; [tauto|].
  destruct (j =? k) eqn:E.
  - intro H. destruct (IH H). tauto.
  - cbn [map fst In]. intros [H|H]; [subst; split; [tauto|lia]|]. destruct (IH H). tauto.
Qed.

Lemma NoDup_kdel k m : NoDup (map fst m) -> NoDup (map fst (kdel k m)).
Proof.
  induction m as [|[j w] r IH]; cbn [kdel map fst]; intro H; [constructor|].
  inversion H as [|? ? Hni Hnd]; subst.
  destruct (j =? k); [auto|]. cbn [map fst]. constructor; [|auto].
  intro Hin. apply map_fst_kdel_incl in Hin. tauto.
Qed.

Lemma NoDup_kset k v m : NoDup (map fst m) -> NoDup (map fst (kset k v m)).
Proof.
  intro H. unfold kset. cbn [map fst]. constructor; [|apply NoDup_kdel; exact H].
  intro Hin. apply map_fst_kdel_incl in Hin. tauto.
Qed.

Lemma In_map_fst_kset k v m x : In x (map fst (kset k v m)) <-> x = k \/ In x (map fst m).
Proof.
  rewrite <- !kget_some_in. setoid_rewrite kget_kset.
  destruct (k =? x) eqn:E.
  - split; [intros _; left; lia|intros _; eauto].
  - split; [tauto|]. intros [H|H]; [lia|exact H].
Qed.
End KMap.

(** ---- plain list operations on the pages of one process (the specification level) *)
Definition l_find (va : N) (l : list page) : option page := find (fun p => pg_vaddr p =? va) l.

Definition l_insert (p : page) (l : list page) : option (list page) :=
  match l_find (pg_vaddr p) l with Some _ => None | None => Some (l ++ [p]) end.

Definition l_remove (va : N) (l : list page) : option (list page) :=
  match l_find va l with
  | None => None
  | Some _ => Some (filter (fun p => negb (pg_vaddr p =? va)) l)
  end.

Definition l_update (p : page) (l : list page) : option (list page) :=
  match l_find (pg_vaddr p) l with
  | None => None
  | Some _ => Some (map (fun q => if pg_vaddr q =? pg_vaddr p then p else q) l)
  end.

(** ---- the invariant of one process table *)
Record wf_ptab (t : ptab) : Prop := mk_wf_ptab {
  wf_ids_nodup : NoDup (map fst (pt_entries t));
  wf_ids_lt : forall id p, In (id, p) (pt_entries t) -> id < pt_next t;
  wf_keys : forall va id, kget va (pt_keys t) = Some id <->
                          exists p, In (id, p) (pt_entries t) /\ pg_vaddr p = va }.

Lemma wf_empty : wf_ptab pt_empty.
Proof.
  constructor; cbn.
  - constructor.
  - tauto.
  - intros va id. split; [discriminate|]. intros [p [[] _]].
Qed.

(** every key of the map points to a live list element (so pt_find never meets the
    dangling case mentioned in Model.v) *)
Lemma wf_keys_live t va id : wf_ptab t -> kget va (pt_keys t) = Some id ->
  exists p, kget id (pt_entries t) = Some p /\ pg_vaddr p = va.
Proof.
  intros W H. apply (wf_keys t W) in H. destruct H as [p [Hin Hva]].
  exists p. split; [|exact Hva]. apply In_kget; [apply (wf_ids_nodup t W)|exact Hin].
Qed.

(** correspondence between the element id bound to [va] and the entries carrying [va] *)
Lemma wf_corr t va id : wf_ptab t -> kget va (pt_keys t) = Some id ->
  forall e, In e (pt_entries t) -> (fst e =? id) = (pg_vaddr (snd e) =? va).
Proof.
  intros W H [i q] Hin. cbn [fst snd].
  pose proof (proj1 (wf_keys t W va id) H) as [p [Hp Hva]].
  destruct (i =? id) eqn:E1, (pg_vaddr q =? va) eqn:E2; try reflexivity; exfalso.
  - assert (i = id) by lia. subst i.
    pose proof (In_kget _ _ _ (wf_ids_nodup t W) Hin) as K1.
    pose proof (In_kget _ _ _ (wf_ids_nodup t W) Hp) as K2.
    rewrite K1 in K2. inversion K2; subst. lia.
  - assert (kget va (pt_keys t) = Some i) as K.
    { apply (wf_keys t W). exists q. split; [exact Hin|lia]. }
    rewrite K in H. inversion H; subst. lia.
Qed.

Lemma wf_none t va : wf_ptab t -> kget va (pt_keys t) = None ->
  forall e, In e (pt_entries t) -> (pg_vaddr (snd e) =? va) = false.
Proof.
  intros W H [i q] Hin. cbn [snd].
  destruct (pg_vaddr q =? va) eqn:E; [|reflexivity]. exfalso.
  assert (kget va (pt_keys t) = Some i) as K.
  { apply (wf_keys t W). exists q. split; [exact Hin|lia]. }
  congruence.
Qed.

(** generic list facts driven by such a correspondence *)
Lemma kget_find_corr id va (es : list (N * page)) :
  (forall e, In e es -> (fst e =? id) = (pg_vaddr (snd e) =? va)) ->
  kget id es = l_find va (map snd es).
Proof.
  unfold l_find. induction es as [|[i q] r IH]; intro H; cbn [kget map snd find]; [reflexivity|].
  pose proof (H (i, q) (or_introl eq_refl)) as Hh. cbn [fst snd] in Hh. rewrite <- Hh.
  destruct (i =? id); [reflexivity|]. apply IH. intros e He. apply H. right. exact He.
Qed.

Lemma find_none_corr va (es : list (N * page)) :
  (forall e, In e es -> (pg_vaddr (snd e) =? va) = false) -> l_find va (map snd es) = None.
Proof.
  unfold l_find. induction es as [|[i q] r IH]; intro H; cbn [map snd find]; [reflexivity|].
  pose proof (H (i, q) (or_introl eq_refl)) as Hh. cbn [snd] in Hh. rewrite Hh.
  apply IH. intros e He. apply H. right. exact He.
Qed.

Lemma kdel_filter_corr id va (es : list (N * page)) :
  (forall e, In e es -> (fst e =? id) = (pg_vaddr (snd e) =? va)) ->
  map snd (kdel id es) = filter (fun p => negb (pg_vaddr p =? va)) (map snd es).
Proof.
  induction es as [|[i q] r IH]; intro H; cbn [kdel map snd filter]; [reflexivity|].
  pose proof (H (i, q) (or_introl eq_refl)) as Hh. cbn [fst snd] in Hh. rewrite <- Hh.
  assert (Hr : forall e, In e r -> (fst e =? id) = (pg_vaddr (snd e) =? va)) by (intros e He; apply H; right; exact He).
  destruct (i =? id); cbn [negb map snd]; rewrite IH by exact Hr; reflexivity.
Qed.

Lemma map_fst_elem_set id p es : map fst (elem_set id p es) = map fst es.
Proof.
  induction es as [|[i q] r IH]; cbn [elem_set map fst]; [reflexivity|].
  destruct (i =? id) eqn:E; cbn [map fst]; [reflexivity|]. rewrite IH. reflexivity.
Qed.

Lemma elem_set_map_corr id p (es : list (N * page)) :
  NoDup (map fst es) ->
  (forall e, In e es -> (fst e =? id) = (pg_vaddr (snd e) =? pg_vaddr p)) ->
  map snd (elem_set id p es) = map (fun q => if pg_vaddr q =? pg_vaddr p then p else q) (map snd es).
Proof.
  induction es as [|[i q] r IH]; intros Hnd H; cbn [elem_set map snd]; [reflexivity|].
  inversion Hnd as [|? ? Hni Hnd']; subst.
  pose proof (H (i, q) (or_introl eq_refl)) as Hh. cbn [fst snd] in Hh. rewrite <- Hh.
  assert (Hr : forall e, In e r -> (fst e =? id) = (pg_vaddr (snd e) =? pg_vaddr p)) by (intros e He; apply H; right; exact He).
  destruct (i =? id) eqn:E; cbn [map snd fst].
  - f_equal. assert (i = id) by lia. subst i.
    symmetry. rewrite <- (map_id (map snd r)) at 2. apply map_ext_in.
    intros w Hw. apply in_map_iff in Hw. destruct Hw as [[j w'] [Hw1 Hw2]]. cbn [snd] in Hw1. subst w'.
    pose proof (Hr (j, w) Hw2) as Hj. cbn [fst snd] in Hj. rewrite <- Hj.
    destruct (j =? id) eqn:Ej; [|reflexivity].
    exfalso. apply Hni. assert (j = id) by lia. subst j. apply (in_map fst) in Hw2. exact Hw2.
  - f_equal. apply IH; assumption.
Qed.

Lemma In_elem_set id p es i q : NoDup (map fst es) ->
  (In (i, q) (elem_set id p es) <->
   (i <> id /\ In (i, q) es) \/ (i = id /\ q = p /\ In id (map fst es))).
Proof.
  induction es as [|[j w] r IH]; intro Hnd; cbn [elem_set In map fst]; [tauto|].
  inversion Hnd as [|? ? Hni Hnd']; subst.
  destruct (j =? id) eqn:E.
  - assert (j = id) by lia. subst j. cbn [In]. split.
    + intros [Heq|Hin]; [inversion Heq; subst; right; tauto|].
      left. split; [|tauto]. intro; subst. apply Hni. apply (in_map fst) in Hin. exact Hin.
    + intros [[Hn [Heq|Hin]]|[He [Hq _]]].
      * inversion Heq; subst. tauto.
      * tauto.
      * subst. tauto.
  - cbn [In]. rewrite (IH Hnd'). split.
    + intros [Heq|[[Hn Hin]|[He [Hq Hin]]]].
      * inversion Heq; subst. left. split; [lia|tauto].
      * tauto.
      * tauto.
    + intros [[Hn [Heq|Hin]]|[He [Hq [Hj|Hin]]]]; try tauto. lia.
Qed.

(** ---- refinement of the four operations *)
Lemma pt_pages_push p t : pt_pages (pt_push p t) = pt_pages t ++ [p].
Proof. unfold pt_pages, pt_push. cbn [pt_entries]. rewrite map_app. reflexivity. Qed.

Lemma pt_find_refines t va : wf_ptab t -> pt_find va t = l_find va (pt_pages t).
Proof.
  intro W. unfold pt_find, pt_pages. destruct (kget va (pt_keys t)) as [id|] eqn:K.
  - apply kget_find_corr. apply (wf_corr t va id W K).
  - symmetry. apply find_none_corr. apply (wf_none t va W K).
Qed.

Lemma keys_find t va : wf_ptab t ->
  (kget va (pt_keys t) = None <-> l_find va (pt_pages t) = None).
Proof.
  intro W. rewrite <- (pt_find_refines t va W). unfold pt_find.
  destruct (kget va (pt_keys t)) as [id|] eqn:K; [|tauto].
  destruct (wf_keys_live t va id W K) as [p [Hp _]]. rewrite Hp. split; discriminate.
Qed.

Lemma NoDup_snoc {A} (l : list A) x : NoDup l -> ~ In x l -> NoDup (l ++ [x]).
Proof.
  induction l as [|y r IH]; cbn [app]; intros Hnd Hni.
  - constructor; [tauto|constructor].
  - inversion Hnd as [|? ? Hy Hr]; subst. constructor.
    + intro Hin. apply in_app_or in Hin. destruct Hin as [Hin|[Heq|[]]]; [tauto|].
      subst. apply Hni. left. reflexivity.
    + apply IH; [exact Hr|]. intro Hx. apply Hni. right. exact Hx.
Qed.

Lemma wf_push p t : wf_ptab t -> kget (pg_vaddr p) (pt_keys t) = None -> wf_ptab (pt_push p t).
Proof.
  intros W K. constructor; unfold pt_push; cbn [pt_entries pt_next pt_keys].
  - rewrite map_app. cbn [map fst]. apply NoDup_snoc; [apply (wf_ids_nodup t W)|].
    intro Hin. apply in_map_iff in Hin. destruct Hin as [[i q] [Hi Hin]]. cbn [fst] in Hi. subst i.
    pose proof (wf_ids_lt t W _ _ Hin). lia.
  - intros id q Hin. apply in_app_or in Hin. destruct Hin as [Hin|[Heq|[]]].
    + pose proof (wf_ids_lt t W id q Hin). lia.
    + inversion Heq; subst. lia.
  - intros va id. rewrite kget_kset. split.
    + destruct (pg_vaddr p =? va) eqn:E.
      * intro H. inversion H; subst. exists p. split; [apply in_or_app; right; left; reflexivity|lia].
      * intro H. apply (wf_keys t W) in H. destruct H as [q [Hin Hva]].
        exists q. split; [apply in_or_app; left; exact Hin|exact Hva].
    + intros [q [Hin Hva]]. apply in_app_or in Hin. destruct Hin as [Hin|[Heq|[]]].
      * destruct (pg_vaddr p =? va) eqn:E.
        -- exfalso. pose proof (wf_none t (pg_vaddr p) W K (id, q) Hin) as Hf. cbn [snd] in Hf. lia.
        -- apply (wf_keys t W). exists q. tauto.
      * inversion Heq; subst. rewrite N.eqb_refl. reflexivity.
Qed.

Lemma pt_insert_refines p t : wf_ptab t ->
  match pt_insert p t, l_insert p (pt_pages t) with
  | None, None => True
  | Some t', Some l' => wf_ptab t' /\ pt_pages t' = l'
  | _, _ => False
  end.
Proof.
  intro W. unfold pt_insert, l_insert.
  pose proof (keys_find t (pg_vaddr p) W) as KF.
  destruct (kget (pg_vaddr p) (pt_keys t)) as [id|] eqn:K.
  - destruct (l_find (pg_vaddr p) (pt_pages t)) eqn:F; [exact I|].
    pose proof (proj2 KF eq_refl); discriminate.
  - rewrite (proj1 KF eq_refl). split; [apply wf_push; assumption|apply pt_pages_push].
Qed.

Lemma pt_remove_refines va t : wf_ptab t ->
  match pt_remove va t, l_remove va (pt_pages t) with
  | None, None => True
  | Some t', Some l' => wf_ptab t' /\ pt_pages t' = l'
  | _, _ => False
  end.
Proof.
  intro W. unfold pt_remove, l_remove.
  pose proof (keys_find t va W) as KF.
  destruct (kget va (pt_keys t)) as [id|] eqn:K.
  - destruct (l_find va (pt_pages t)) eqn:F; [|pose proof (proj2 KF eq_refl); discriminate].
    pose proof (wf_corr t va id W K) as C.
    split.
    + constructor; cbn [pt_entries pt_next pt_keys].
      * apply NoDup_kdel. apply (wf_ids_nodup t W).
      * intros i q Hin. apply In_kdel in Hin. apply (wf_ids_lt t W i q). tauto.
      * intros va' i. split.
        -- intro H. destruct (N.eq_dec va va') as [->|Hne]; [rewrite kget_kdel_eq in H; discriminate|].
           rewrite kget_kdel_neq in H by exact Hne.
           apply (wf_keys t W) in H. destruct H as [q [Hin Hva]]. exists q. split; [|exact Hva].
           apply In_kdel. split; [|exact Hin].
           pose proof (C (i, q) Hin) as Cq. cbn [fst snd] in Cq. intro; subst i. rewrite N.eqb_refl in Cq. lia.
        -- intros [q [Hin Hva]]. apply In_kdel in Hin. destruct Hin as [Hn Hin].
           pose proof (C (i, q) Hin) as Cq. cbn [fst snd] in Cq.
           rewrite kget_kdel_neq by (intro; subst; lia).
           apply (wf_keys t W). exists q. tauto.
    + unfold pt_pages. cbn [pt_entries]. apply kdel_filter_corr. exact C.
  - rewrite (proj1 KF eq_refl). exact I.
Qed.

Lemma pt_update_refines p t : wf_ptab t ->
  match pt_update p t, l_update p (pt_pages t) with
  | None, None => True
  | Some t', Some l' => wf_ptab t' /\ pt_pages t' = l'
  | _, _ => False
  end.
Proof.
  intro W. unfold pt_update, l_update.
  pose proof (keys_find t (pg_vaddr p) W) as KF.
  destruct (kget (pg_vaddr p) (pt_keys t)) as [id|] eqn:K.
  - destruct (l_find (pg_vaddr p) (pt_pages t)) eqn:F; [|pose proof (proj2 KF eq_refl); discriminate].
    pose proof (wf_corr t _ id W K) as C.
    pose proof (wf_ids_nodup t W) as Hnd.
    pose proof (proj1 (wf_keys t W _ _) K) as [pz [Hp0 Hva0]].
    split.
    + constructor; cbn [pt_entries pt_next pt_keys].
      * rewrite map_fst_elem_set. exact Hnd.
      * intros i q Hin. apply (In_elem_set id p _ i q Hnd) in Hin.
        destruct Hin as [[_ Hin]|[-> [_ _]]]; [apply (wf_ids_lt t W i q Hin)|apply (wf_ids_lt t W id pz Hp0)].
      * intros va' i. split.
        -- intro H. pose proof H as H'. apply (wf_keys t W) in H'. destruct H' as [q [Hin Hva]].
           destruct (N.eq_dec i id) as [->|Hne].
           ++ exists p. split.
              ** apply (In_elem_set id p _ id p Hnd). right. split; [reflexivity|split; [reflexivity|]].
                 apply (in_map fst) in Hin. exact Hin.
              ** pose proof (C (id, q) Hin) as Cq. cbn [fst snd] in Cq. rewrite N.eqb_refl in Cq. lia.
           ++ exists q. split; [|exact Hva]. apply (In_elem_set id p _ i q Hnd). left. tauto.
        -- intros [q [Hin Hva]]. apply (In_elem_set id p _ i q Hnd) in Hin.
           destruct Hin as [[Hn Hin]|[-> [-> _]]].
           ++ apply (wf_keys t W). exists q. tauto.
           ++ subst va'. exact K.
    + unfold pt_pages. cbn [pt_entries]. apply elem_set_map_corr; assumption.
  - rewrite (proj1 KF eq_refl). exact I.
Qed.

(** LoadCheckpoint's per-process rebuild: the pages come back in order; the structure is
    consistent when the vaddrs are pairwise distinct. *)
Lemma pt_pages_fold ps : forall t, pt_pages (fold_left (fun t p => pt_push p t) ps t) = pt_pages t ++ ps.
Proof.
  induction ps as [|p r IH]; intro t; cbn [fold_left]; [rewrite app_nil_r; reflexivity|].
  rewrite IH, pt_pages_push, <- app_assoc. reflexivity.
Qed.

Lemma pt_pages_build ps : pt_pages (pt_build ps) = ps.
Proof. unfold pt_build. rewrite pt_pages_fold. reflexivity. Qed.

Lemma l_find_none_iff va l : l_find va l = None <-> ~ In va (map pg_vaddr l).
Proof.
  unfold l_find. induction l as [|q r IH]; cbn [find map In]; [tauto|].
  destruct (pg_vaddr q =? va) eqn:E.
  - split; [discriminate|]. intro H. exfalso. apply H. left. lia.
  - rewrite IH. split; [intros H [H1|H1]; [lia|tauto]|tauto].
Qed.

Lemma wf_fold ps : forall t, wf_ptab t -> NoDup (map pg_vaddr (pt_pages t ++ ps)) ->
  wf_ptab (fold_left (fun t p => pt_push p t) ps t).
Proof.
  induction ps as [|p r IH]; intros t W Hnd; cbn [fold_left]; [exact W|].
  apply IH.
  - apply wf_push; [exact W|]. apply (keys_find t _ W). apply l_find_none_iff.
    rewrite map_app in Hnd. cbn [map] in Hnd. apply NoDup_remove_2 in Hnd.
    intro Hin. apply Hnd. apply in_or_app. left. exact Hin.
  - rewrite pt_pages_push, <- app_assoc. exact Hnd.
Qed.

Lemma wf_build ps : NoDup (map pg_vaddr ps) -> wf_ptab (pt_build ps).
Proof. intro H. unfold pt_build. apply wf_fold; [apply wf_empty|exact H]. Qed.

(** the pages of a consistent table have pairwise distinct vaddrs *)
Lemma wf_vaddr_nodup t : wf_ptab t -> NoDup (map pg_vaddr (pt_pages t)).
Proof.
  intro W. unfold pt_pages. rewrite map_map.
  pose proof (wf_ids_nodup t W) as Hnd.
  assert (Hinj : forall e1 e2, In e1 (pt_entries t) -> In e2 (pt_entries t) ->
                 pg_vaddr (snd e1) = pg_vaddr (snd e2) -> fst e1 = fst e2).
  { intros [i1 q1] [i2 q2] H1 H2 Heq. cbn [fst snd] in *.
    assert (K1 : kget (pg_vaddr q1) (pt_keys t) = Some i1) by (apply (wf_keys t W); eauto).
    assert (K2 : kget (pg_vaddr q1) (pt_keys t) = Some i2) by (apply (wf_keys t W); eauto).
    congruence. }
  revert Hnd Hinj. generalize (pt_entries t) as es.
  induction es as [|e r IH]; intros Hnd Hinj; cbn [map]; [constructor|].
  cbn [map fst] in Hnd. inversion Hnd as [|? ? Hni Hnd']; subst. constructor.
  - intro Hin. apply in_map_iff in Hin. destruct Hin as [e' [Heq Hin]].
    apply Hni. rewrite (Hinj e e' (or_introl eq_refl) (or_intror Hin) (eq_sym Heq)).
    apply in_map. exact Hin.
  - apply IH; [exact Hnd'|]. intros e1 e2 H1 H2. apply Hinj; right; assumption.
Qed.

Lemma l_find_some_in va l p : l_find va l = Some p -> In p l /\ pg_vaddr p = va.
Proof. unfold l_find. intro H. apply find_some in H. destruct H. split; [assumption|lia]. Qed.

Lemma l_find_in va l p : NoDup (map pg_vaddr l) -> In p l -> pg_vaddr p = va -> l_find va l = Some p.
Proof.
  unfold l_find. induction l as [|q r IH]; cbn [find map In]; intros Hnd Hin Hva; [tauto|].
  inversion Hnd as [|? ? Hni Hnd']; subst.
  destruct Hin as [->|Hin].
  - rewrite N.eqb_refl. reflexivity.
  - destruct (pg_vaddr q =? pg_vaddr p) eqn:E; [|auto].
    exfalso. apply Hni. assert (pg_vaddr q = pg_vaddr p) as -> by lia. apply in_map. exact Hin.
Qed.
