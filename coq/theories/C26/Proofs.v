(** C26 — proofs, part 1: map-iteration oracles are irrelevant after the fix. *)
From Coq Require Import Permutation.
From Akita Require Import Lib.Base C26.Model.
Local Open Scope N_scope.

(** An oracle is admissible when it returns a permutation of the keys it is given. *)
Definition valid_oracle (o : oracle) : Prop := forall l, Permutation l (o l).

Lemma id_oracle_valid : valid_oracle id_oracle.
Proof. intro l. apply Permutation_refl. Qed.

Lemma rev_oracle_valid : valid_oracle rev_oracle.
Proof. intro l. apply Permutation_rev. Qed.

Lemma ins_sorted_comm x y l : ins_sorted x (ins_sorted y l) = ins_sorted y (ins_sorted x l).
Proof.
  induction l as [|z r IH]; cbn [ins_sorted].
  - destruct (x <=? y) eqn:E1, (y <=? x) eqn:E2; try reflexivity.
    + assert (x = y) by lia. subst. reflexivity.
    + lia.
  - destruct (y <=? z) eqn:Ey, (x <=? z) eqn:Ex; cbn [ins_sorted]; rewrite ?Ey, ?Ex.
    + destruct (x <=? y) eqn:E1, (y <=? x) eqn:E2; rewrite ?Ey, ?Ex; try reflexivity.
      * assert (x = y) by lia. subst. reflexivity.
      * lia.
    + destruct (x <=? y) eqn:E1; [lia|]. destruct (y <=? x) eqn:E2; [|lia]. reflexivity.
    + destruct (y <=? x) eqn:E1; [lia|]. destruct (x <=? y) eqn:E2; [|lia]. reflexivity.
    + rewrite IH. reflexivity.
Qed.

Lemma sortN_perm l1 l2 : Permutation l1 l2 -> sortN l1 = sortN l2.
Proof.
  unfold sortN. induction 1 as [|x l l' _ IH|x y l|l l' l'' _ IH1 _ IH2]; cbn [fold_right].
  - reflexivity.
  - rewrite IH. reflexivity.
  - apply ins_sorted_comm.
  - congruence.
Qed.

Lemma sortN_oracle o1 o2 l : valid_oracle o1 -> valid_oracle o2 -> sortN (o1 l) = sortN (o2 l).
Proof.
  intros H1 H2. apply sortN_perm.
  eapply Permutation_trans; [apply Permutation_sym, H1|apply H2].
Qed.

Lemma rev_lookup_oracle o1 o2 t pa : valid_oracle o1 -> valid_oracle o2 ->
  rev_lookup o1 t pa = rev_lookup o2 t pa.
Proof. intros H1 H2. unfold rev_lookup. rewrite (sortN_oracle o1 o2 _ H1 H2). reflexivity. Qed.

Lemma save_oracle o1 o2 t : valid_oracle o1 -> valid_oracle o2 -> save o1 t = save o2 t.
Proof. intros H1 H2. unfold save. rewrite (sortN_oracle o1 o2 _ H1 H2). reflexivity. Qed.

Lemma step_oracle o1 o2 t x : valid_oracle o1 -> valid_oracle o2 -> step o1 t x = step o2 t x.
Proof.
  intros H1 H2. destruct x; cbn [step]; try reflexivity.
  - rewrite (rev_lookup_oracle o1 o2 t pa H1 H2). reflexivity.
  - rewrite (save_oracle o1 o2 t H1 H2). reflexivity.
  - rewrite (save_oracle o1 o2 t H1 H2). reflexivity.
Qed.

(** Two oracle sequences for one history. *)
Definition with_oracles (os : list oracle) (ops : list op) : list (oracle * op) := combine os ops.

Lemma run_oracle : forall ops os1 os2 t,
  Forall valid_oracle os1 -> Forall valid_oracle os2 ->
  length os1 = length ops -> length os2 = length ops ->
  run t (with_oracles os1 ops) = run t (with_oracles os2 ops).
Proof.
  unfold with_oracles.
  induction ops as [|x r IH]; intros [|o1 os1] [|o2 os2] t F1 F2 L1 L2; cbn in L1, L2; try discriminate; try reflexivity.
  cbn [combine run]. inversion F1; subst. inversion F2; subst.
  rewrite (step_oracle o1 o2 t x) by assumption.
  destruct (step o2 t x) as [t1 y].
  rewrite (IH os1 os2 t1) by (auto; lia). reflexivity.
Qed.

(** The pre-fix loop: three processes share physical page 0x5000; visiting the process
    tables in two different (admissible) orders returns two different pages. *)
Definition shared_ops : list op :=
  [OInsert (mk_page 3 20480 4096 4096 0 1); OInsert (mk_page 1 20480 8192 4096 1 1);
   OInsert (mk_page 2 20480 12288 4096 2 1)].
Definition shared_table : table := fst (run (tb_new 12) (map (fun x => (id_oracle, x)) shared_ops)).

Lemma rev_old_order_dependent :
  rev_lookup_old id_oracle shared_table 20480 = Some (mk_page 2 20480 12288 4096 2 1) /\
  rev_lookup_old rev_oracle shared_table 20480 = Some (mk_page 3 20480 4096 4096 0 1) /\
  rev_lookup id_oracle shared_table 20480 = Some (mk_page 1 20480 8192 4096 1 1) /\
  rev_lookup rev_oracle shared_table 20480 = Some (mk_page 1 20480 8192 4096 1 1).
Proof. vm_compute. repeat split. Qed.
