(** C26 — proofs, part 4: load/save, one-step refinement, reverse lookup. *)
From Coq Require Import Permutation.
From Akita Require Import Lib.Base C26.Model C26.Proofs C26.Proofs2 C26.Proofs3.
Local Open Scope N_scope.

(** ---- LoadCheckpoint *)
Definition load_fr (l : dto) : list (N * ptab) :=
  fold_right (fun e acc => kset (fst e) (pt_build (snd e)) acc) [] l.

Lemma load_tabs_fr d : load_tabs d = load_fr (rev d).
Proof.
  unfold load_tabs, load_fr. symmetry.
  apply (fold_left_rev_right (fun (e : N * list page) acc => kset (fst e) (pt_build (snd e)) acc)).
Qed.

Lemma kget_load_fr pid l : kget pid (load_fr l) = option_map pt_build (kget pid l).
Proof.
  induction l as [|[i ps] r IH]; cbn [load_fr fold_right kget fst snd]; [reflexivity|].
  fold (load_fr r). rewrite kget_kset. destruct (i =? pid); [reflexivity|exact IH].
Qed.

Lemma NoDup_load_fr l : NoDup (map fst (load_fr l)).
Proof.
  induction l as [|[i ps] r IH]; cbn [load_fr fold_right]; [constructor|].
  fold (load_fr r). apply NoDup_kset. exact IH.
Qed.

Lemma tview_load t l d t' : load l d t = Some t' ->
  l = tb_log2 t /\ tb_log2 t' = tb_log2 t /\ forall pid, tview t' pid = kget pid (rev d).
Proof.
  unfold load. destruct (l =? tb_log2 t) eqn:E; [|discriminate]. intro H. inversion H; subst t'.
  split; [lia|split; [reflexivity|]]. intro pid. unfold tview. cbn [tb_tabs].
  rewrite load_tabs_fr, kget_load_fr. destruct (kget pid (rev d)); cbn [option_map]; [|reflexivity].
  rewrite pt_pages_build. reflexivity.
Qed.

Lemma wf_load t l d t' : dto_ok d -> load l d t = Some t' -> wf_table t'.
Proof.
  intros D. unfold load. destruct (l =? tb_log2 t); [|discriminate]. intro H. inversion H; subst t'.
  constructor; cbn [tb_tabs]; rewrite load_tabs_fr.
  - apply NoDup_load_fr.
  - intros pid pt. rewrite kget_load_fr. destruct (kget pid (rev d)) as [ps|] eqn:K; cbn [option_map]; [|discriminate].
    intro Hp. inversion Hp; subst. apply wf_build. apply kget_In in K. apply in_rev in K. apply (D pid ps K).
  - intros pid pt p. rewrite kget_load_fr. destruct (kget pid (rev d)) as [ps|] eqn:K; cbn [option_map]; [|discriminate].
    intro Hp. inversion Hp; subst. rewrite pt_pages_build. apply kget_In in K. apply in_rev in K. apply (D pid ps K).
Qed.

(** ---- SaveCheckpoint *)
Lemma In_ins_sorted x y l : In x (ins_sorted y l) <-> x = y \/ In x l.
Proof.
  induction l as [|z r IH]; cbn [ins_sorted In]; [intuition|].
  destruct (y <=? z); cbn [In]; [intuition|]. rewrite IH. intuition.
Qed.

Lemma In_sortN x l : In x (sortN l) <-> In x l.
Proof.
  unfold sortN. induction l as [|y r IH]; cbn [fold_right In]; [tauto|].
  rewrite In_ins_sorted, IH. intuition.
Qed.

Lemma In_keys_oracle o x l : valid_oracle o -> (In x (sortN (o l)) <-> In x l).
Proof.
  intro V. rewrite In_sortN. split; intro H.
  - eapply Permutation_in; [apply Permutation_sym, V|exact H].
  - eapply Permutation_in; [apply V|exact H].
Qed.

Lemma tab_pages_vget t pid : tab_pages (tb_tabs t) pid = (pid, vget t pid).
Proof. unfold tab_pages, vget, tview. destruct (kget pid (tb_tabs t)); reflexivity. Qed.

Lemma save_view o t : save o t = map (fun pid => (pid, vget t pid)) (sortN (o (map fst (tb_tabs t)))).
Proof. unfold save. apply map_ext. intro pid. apply tab_pages_vget. Qed.

Lemma kget_map_self {V} (g : N -> V) pid l :
  kget pid (map (fun k => (k, g k)) l) = if existsb (N.eqb pid) l then Some (g pid) else None.
Proof.
  induction l as [|k r IH]; cbn [map kget existsb]; [reflexivity|].
  rewrite (N.eqb_sym pid k). destruct (k =? pid) eqn:E; cbn [orb]; [f_equal; f_equal; lia|exact IH].
Qed.

Lemma tview_some_in t pid : (exists l, tview t pid = Some l) <-> In pid (map fst (tb_tabs t)).
Proof.
  rewrite <- kget_some_in. unfold tview. destruct (kget pid (tb_tabs t)) as [pt|]; cbn [option_map].
  - split; intros _; eauto.
  - split; intros [x Hx]; discriminate.
Qed.

(** the saved DTO, read back, gives exactly the view of the table *)
Lemma kget_rev_save o t pid : valid_oracle o -> kget pid (rev (save o t)) = tview t pid.
Proof.
  intro V. rewrite save_view, <- map_rev, kget_map_self.
  destruct (existsb (N.eqb pid) (rev (sortN (o (map fst (tb_tabs t)))))) eqn:E.
  - apply existsb_exists in E. destruct E as [x [Hx Hpx]]. assert (x = pid) by lia. subst x.
    apply in_rev in Hx. apply (proj1 (In_keys_oracle o pid _ V)) in Hx.
    apply tview_some_in in Hx. destruct Hx as [l Hl]. unfold vget. rewrite Hl. reflexivity.
  - destruct (tview t pid) as [l|] eqn:Tv; [|reflexivity]. exfalso.
    assert (In pid (map fst (tb_tabs t))) as Hin by (apply tview_some_in; eauto).
    apply (proj2 (In_keys_oracle o pid _ V)) in Hin. apply in_rev in Hin.
    assert (existsb (N.eqb pid) (rev (sortN (o (map fst (tb_tabs t))))) = true).
    { apply existsb_exists. exists pid. split; [exact Hin|apply N.eqb_refl]. }
    congruence.
Qed.

Lemma save_dto_ok o t : wf_table t -> dto_ok (save o t).
Proof.
  intros W pid ps Hin. rewrite save_view in Hin. apply in_map_iff in Hin.
  destruct Hin as [k [Heq _]]. inversion Heq; subst.
  split; [apply vget_nodup; exact W|intros p Hp; apply (vget_pid t pid p W Hp)].
Qed.

(** SaveCheckpoint followed by LoadCheckpoint into a freshly built table *)
Definition roundtrip (o : oracle) (t : table) : table :=
  mk_table (tb_log2 t) (load_tabs (save o t)).

Lemma load_fresh o t : load (tb_log2 t) (save o t) (tb_new (tb_log2 t)) = Some (roundtrip o t).
Proof. unfold load, tb_new, roundtrip. cbn [tb_log2]. rewrite N.eqb_refl. reflexivity. Qed.

Lemma roundtrip_view o t : valid_oracle o -> forall pid, tview (roundtrip o t) pid = tview t pid.
Proof.
  intros V pid. destruct (tview_load _ _ _ _ (load_fresh o t)) as [_ [_ H]].
  rewrite H. apply kget_rev_save. exact V.
Qed.

Lemma roundtrip_wf o t : wf_table t -> wf_table (roundtrip o t).
Proof. intro W. eapply wf_load; [apply (save_dto_ok o t W)|apply load_fresh]. Qed.

(** ---- one step refines the map *)
Lemma abs_new log2 : aeq (abs (tb_new log2)) (fun _ _ => None).
Proof. intros pid va. reflexivity. Qed.

Lemma step_wf o t x : wf_table t -> op_ok x -> wf_table (fst (step o t x)) /\ tb_log2 (fst (step o t x)) = tb_log2 t.
Proof.
  intros W Ok. destruct x; cbn [step].
  - destruct (with_tab_spec t (pg_pid p) _ _ W (insert_refines_l p) (l_insert_pid p)) as [A [B _]]. tauto.
  - destruct (with_tab_spec t pid _ _ W (remove_refines_l va) (l_remove_pid pid va)) as [A [B _]]. tauto.
  - pose proof (with_tab_spec t pid (fun pt => Some pt) (fun l => Some l) W) as H.
    unfold with_tab in H. destruct (get_table pid (tb_tabs t)) as [tabs pt] eqn:G. cbn [fst snd] in *.
    unfold get_table in G. destruct (kget pid (tb_tabs t)) as [q|] eqn:K; inversion G; subst; cbn [tb_log2].
    + split; [destruct t; exact W|reflexivity].
    + split; [|reflexivity]. constructor; cbn [tb_tabs].
      * apply NoDup_kset. apply (wt_nodup t W).
      * intros i q. rewrite kget_kset. destruct (pid =? i); [intro H0; inversion H0; subst; apply wf_empty|apply (wt_tabs t W)].
      * intros i q p. rewrite kget_kset. destruct (pid =? i); [intro H0; inversion H0; subst; intros []|apply (wt_pid t W)].
  - destruct (with_tab_spec t (pg_pid p) _ _ W (update_refines_l p) (l_update_pid p)) as [A [B _]]. tauto.
  - cbn [fst]. tauto.
  - cbn [fst]. tauto.
  - destruct (load log2 d t) as [t'|] eqn:L; cbn [fst]; [|tauto].
    split; [eapply wf_load; [exact Ok|exact L]|]. apply tview_load in L. tauto.
  - rewrite load_fresh. cbn [fst]. split; [apply roundtrip_wf; exact W|reflexivity].
Qed.

Lemma find_step o t pid va :
  step o t (OFind pid va) =
  (mk_table (tb_log2 t) (fst (get_table pid (tb_tabs t))),
   RFound (pt_find (align (tb_log2 t) va) (snd (get_table pid (tb_tabs t))))).
Proof. cbn [step]. destruct (get_table pid (tb_tabs t)); reflexivity. Qed.

Lemma find_view t pid : forall i,
  tview (mk_table (tb_log2 t) (fst (get_table pid (tb_tabs t)))) i = if pid =? i then Some (vget t pid) else tview t i.
Proof.
  intro i. unfold get_table, vget, tview. destruct (kget pid (tb_tabs t)) as [pt|] eqn:K; cbn [fst tb_tabs option_map].
  - destruct (pid =? i) eqn:E; [|reflexivity]. assert (i = pid) by lia. subst. rewrite K. reflexivity.
  - rewrite kget_kset. destruct (pid =? i); reflexivity.
Qed.

Lemma find_result t pid a : wf_table t ->
  pt_find a (snd (get_table pid (tb_tabs t))) = abs t pid a.
Proof.
  intro W. unfold get_table, abs, vget, tview. destruct (kget pid (tb_tabs t)) as [pt|] eqn:K; cbn [snd option_map].
  - apply pt_find_refines. apply (wt_tabs t W pid pt K).
  - reflexivity.
Qed.

Theorem step_refines o t x : wf_table t -> valid_oracle o -> op_ok x ->
  aeq (abs (fst (step o t x))) (fst (spec_step (tb_log2 t) (abs t) x)) /\
  res_ok (snd (step o t x)) (snd (spec_step (tb_log2 t) (abs t) x)).
Proof.
  intros W V Ok. destruct x; cbn [step spec_step].
  - (* insert *)
    destruct (with_tab_spec t (pg_pid p) _ _ W (insert_refines_l p) (l_insert_pid p)) as [_ [_ S]].
    change (abs t (pg_pid p) (pg_vaddr p)) with (l_find (pg_vaddr p) (vget t (pg_pid p))). unfold l_insert in S.
    destruct (l_find (pg_vaddr p) (vget t (pg_pid p))) eqn:F; destruct S as [Sr Sv]; cbn [fst snd].
    + split; [|intros r0 H0; inversion H0; subst; exact Sr].
      intros i a. rewrite (abs_after t _ _ _ Sv). destruct (pg_pid p =? i) eqn:E; [|reflexivity].
      assert (i = pg_pid p) by lia. subst. reflexivity.
    + split; [|intros r0 H0; inversion H0; subst; exact Sr].
      intros i a. rewrite (abs_after t _ _ _ Sv). unfold aupd. destruct (pg_pid p =? i) eqn:E; cbn [andb]; [|reflexivity].
      assert (i = pg_pid p) by lia. subst. rewrite l_find_app. fold (abs t (pg_pid p) a).
      destruct (pg_vaddr p =? a) eqn:E2.
      * assert (a = pg_vaddr p) by lia. subst. unfold abs. rewrite F. reflexivity.
      * destruct (abs t (pg_pid p) a); reflexivity.
  - (* remove *)
    destruct (with_tab_spec t pid _ _ W (remove_refines_l va) (l_remove_pid pid va)) as [_ [_ S]].
    change (abs t pid va) with (l_find va (vget t pid)). unfold l_remove in S.
    destruct (l_find va (vget t pid)) eqn:F; destruct S as [Sr Sv]; cbn [fst snd].
    + split; [|intros r0 H0; inversion H0; subst; exact Sr].
      intros i a. rewrite (abs_after t _ _ _ Sv). unfold aupd. destruct (pid =? i) eqn:E; cbn [andb]; [|reflexivity].
      assert (i = pid) by lia. subst. rewrite l_find_filter. destruct (va =? a); reflexivity.
    + split; [|intros r0 H0; inversion H0; subst; exact Sr].
      intros i a. rewrite (abs_after t _ _ _ Sv). destruct (pid =? i) eqn:E; [|reflexivity].
      assert (i = pid) by lia. subst. reflexivity.
  - (* find *)
    fold (step o t (OFind pid va)). rewrite find_step. cbn [fst snd]. split.
    + intros i a. rewrite (abs_after t _ pid (vget t pid) (find_view t pid)).
      destruct (pid =? i) eqn:E; [|reflexivity]. assert (i = pid) by lia. subst. reflexivity.
    + intros r0 H0. inversion H0; subst. rewrite (find_result t pid _ W). reflexivity.
  - (* update *)
    destruct (with_tab_spec t (pg_pid p) _ _ W (update_refines_l p) (l_update_pid p)) as [_ [_ S]].
    change (abs t (pg_pid p) (pg_vaddr p)) with (l_find (pg_vaddr p) (vget t (pg_pid p))). unfold l_update in S.
    destruct (l_find (pg_vaddr p) (vget t (pg_pid p))) eqn:F; destruct S as [Sr Sv]; cbn [fst snd].
    + split; [|intros r0 H0; inversion H0; subst; exact Sr].
      intros i a. rewrite (abs_after t _ _ _ Sv). unfold aupd. destruct (pg_pid p =? i) eqn:E; cbn [andb]; [|reflexivity].
      assert (i = pg_pid p) by lia. subst. rewrite l_find_map_upd. fold (abs t (pg_pid p) a).
      destruct (pg_vaddr p =? a) eqn:E2; [|reflexivity].
      assert (a = pg_vaddr p) by lia. subst. unfold abs. rewrite F. reflexivity.
    + split; [|intros r0 H0; inversion H0; subst; exact Sr].
      intros i a. rewrite (abs_after t _ _ _ Sv). destruct (pg_pid p =? i) eqn:E; [|reflexivity].
      assert (i = pg_pid p) by lia. subst. reflexivity.
  - split; [intros i a; reflexivity|intros r0 H0; discriminate].
  - split; [intros i a; reflexivity|intros r0 H0; discriminate].
  - (* load *)
    destruct (load log2 d t) as [t'|] eqn:L.
    + destruct (tview_load _ _ _ _ L) as [-> [_ Hv]]. rewrite N.eqb_refl. cbn [fst snd]. split.
      * intros i a. unfold abs, vget, amap_of_dto. rewrite Hv. destruct (kget i (rev d)); reflexivity.
      * intros r0 H0. inversion H0. reflexivity.
    + unfold load in L. destruct (log2 =? tb_log2 t); [discriminate|]. cbn [fst snd]. split.
      * intros i a. reflexivity.
      * intros r0 H0. inversion H0. reflexivity.
  - (* round trip *)
    rewrite load_fresh. cbn [fst snd]. split; [|intros r0 H0; discriminate].
    intros i a. unfold abs, vget. rewrite (roundtrip_view o t V). reflexivity.
Qed.

(** ---- reverse lookup *)
Lemma first_some_some {A B} (f : A -> option B) l y :
  first_some f l = Some y -> exists x, In x l /\ f x = Some y.
Proof.
  induction l as [|x r IH]; cbn [first_some]; [discriminate|].
  destruct (f x) as [z|] eqn:E.
  - intro H. inversion H; subst. exists x. split; [left; reflexivity|exact E].
  - intro H. destruct (IH H) as [x' [H1 H2]]. exists x'. split; [right; exact H1|exact H2].
Qed.

Lemma first_some_none {A B} (f : A -> option B) l :
  first_some f l = None -> forall x, In x l -> f x = None.
Proof.
  induction l as [|x r IH]; cbn [first_some]; [intros _ x []|].
  destruct (f x) as [z|] eqn:E; [discriminate|].
  intros H x' [<-|Hin]; [exact E|apply IH; assumption].
Qed.

Lemma tab_rev_view t pa pid : tab_rev (tb_tabs t) pa pid = find (fun p => pg_paddr p =? pa) (vget t pid).
Proof. unfold tab_rev, vget, tview, pt_rev. destruct (kget pid (tb_tabs t)); reflexivity. Qed.

Theorem rev_sound o t pa p : wf_table t -> rev_lookup o t pa = Some p ->
  pg_paddr p = pa /\ abs t (pg_pid p) (pg_vaddr p) = Some p.
Proof.
  intros W H. unfold rev_lookup in H. apply first_some_some in H. destruct H as [pid [_ H]].
  rewrite tab_rev_view in H. apply find_some in H. destruct H as [Hin Hpa].
  split; [lia|]. rewrite (vget_pid t pid p W Hin). unfold abs.
  apply l_find_in; [apply vget_nodup; exact W|exact Hin|reflexivity].
Qed.

Theorem rev_complete o t pa : wf_table t -> valid_oracle o ->
  (exists pid va p, abs t pid va = Some p /\ pg_paddr p = pa) -> exists q, rev_lookup o t pa = Some q.
Proof.
  intros W V [pid [va [p [Ha Hpa]]]].
  destruct (rev_lookup o t pa) as [q|] eqn:R; [eauto|exfalso].
  unfold abs in Ha. apply l_find_some_in in Ha. destruct Ha as [Hin _].
  assert (In pid (map fst (tb_tabs t))) as Hk.
  { apply tview_some_in. unfold vget in Hin. destruct (tview t pid) as [l|]; [eauto|destruct Hin]. }
  unfold rev_lookup in R.
  pose proof (first_some_none _ _ R pid (proj2 (In_keys_oracle o pid _ V) Hk)) as N0.
  rewrite tab_rev_view in N0.
  pose proof (find_none _ _ N0 p Hin) as Hf. cbn beta in Hf. lia.
Qed.
