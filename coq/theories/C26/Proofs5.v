(** C26 — proofs, part 5: histories.  Map refinement over whole histories; tables with the
    same view are indistinguishable, hence a checkpoint round trip is invisible. *)
From Coq Require Import Permutation.
From Akita Require Import Lib.Base C26.Model C26.Proofs C26.Proofs2 C26.Proofs3 C26.Proofs4.
Local Open Scope N_scope.

Definition hist_ok (h : list (oracle * op)) : Prop :=
  Forall (fun ox => valid_oracle (fst ox) /\ op_ok (snd ox)) h.

Lemma run_wf h : forall t, wf_table t -> hist_ok h ->
  wf_table (fst (run t h)) /\ tb_log2 (fst (run t h)) = tb_log2 t.
Proof.
  induction h as [|[o x] r IH]; intros t W H; cbn [run]; [cbn [fst]; tauto|].
  inversion H as [|? ? [Hv Ho] Hr]; subst. cbn [fst snd] in Hv, Ho.
  destruct (step_wf o t x W Ho) as [W1 L1].
  destruct (step o t x) as [t1 y] eqn:S. cbn [fst] in W1, L1.
  destruct (IH t1 W1 Hr) as [W2 L2].
  destruct (run t1 r) as [t2 ys]. cbn [fst] in *. split; [exact W2|congruence].
Qed.

(** ---- the specification run *)
Fixpoint spec_run (log2 : N) (m : amap) (ops : list op) : list (option res) :=
  match ops with
  | [] => []
  | x :: r => snd (spec_step log2 m x) :: spec_run log2 (fst (spec_step log2 m x)) r
  end.

Lemma spec_step_ext log2 m1 m2 x : aeq m1 m2 ->
  aeq (fst (spec_step log2 m1 x)) (fst (spec_step log2 m2 x)) /\
  snd (spec_step log2 m1 x) = snd (spec_step log2 m2 x).
Proof.
  intro E. destruct x; cbn [spec_step]; try (split; [exact E|reflexivity]).
  - rewrite (E (pg_pid p) (pg_vaddr p)). destruct (m2 (pg_pid p) (pg_vaddr p)); cbn [fst snd]; split; try reflexivity; try exact E.
    intros i a. unfold aupd. destruct ((pg_pid p =? i) && (pg_vaddr p =? a)); [reflexivity|apply E].
  - rewrite (E pid va). destruct (m2 pid va); cbn [fst snd]; split; try reflexivity; try exact E.
    intros i a. unfold aupd. destruct ((pid =? i) && (va =? a)); [reflexivity|apply E].
  - cbn [fst snd]. split; [exact E|]. rewrite (E pid (align log2 va)). reflexivity.
  - rewrite (E (pg_pid p) (pg_vaddr p)). destruct (m2 (pg_pid p) (pg_vaddr p)); cbn [fst snd]; split; try reflexivity; try exact E.
    intros i a. unfold aupd. destruct ((pg_pid p =? i) && (pg_vaddr p =? a)); [reflexivity|apply E].
  - match goal with |- context [if ?c then _ else _] => destruct c end; cbn [fst snd]; split; try reflexivity; try exact E. intros i a. reflexivity.
Qed.

Lemma spec_run_ext log2 ops : forall m1 m2, aeq m1 m2 -> spec_run log2 m1 ops = spec_run log2 m2 ops.
Proof.
  induction ops as [|x r IH]; intros m1 m2 E; cbn [spec_run]; [reflexivity|].
  destruct (spec_step_ext log2 m1 m2 x E) as [E' R]. rewrite R. f_equal. apply IH. exact E'.
Qed.

Theorem run_refines h : forall t m, wf_table t -> aeq (abs t) m -> hist_ok h ->
  Forall2 res_ok (snd (run t h)) (spec_run (tb_log2 t) m (map snd h)).
Proof.
  induction h as [|[o x] r IH]; intros t m W E H; cbn [run map snd spec_run]; [constructor|].
  inversion H as [|? ? [Hv Ho] Hr]; subst. cbn [fst snd] in Hv, Ho.
  destruct (step_refines o t x W Hv Ho) as [A R].
  destruct (step_wf o t x W Ho) as [W1 L1].
  destruct (spec_step_ext (tb_log2 t) (abs t) m x E) as [E' R'].
  destruct (step o t x) as [t1 y] eqn:S. cbn [fst snd] in *.
  assert (E1 : aeq (abs t1) (fst (spec_step (tb_log2 t) m x))) by (intros i a; rewrite A; apply E').
  pose proof (IH t1 _ W1 E1 Hr) as IHr. rewrite L1 in IHr.
  destruct (run t1 r) as [t2 ys]. cbn [snd] in *. constructor; [rewrite <- R'; exact R|exact IHr].
Qed.

(** ---- tables with the same view *)
Definition teq (t1 t2 : table) : Prop :=
  tb_log2 t1 = tb_log2 t2 /\ forall pid, tview t1 pid = tview t2 pid.

Lemma teq_vget t1 t2 pid : teq t1 t2 -> vget t1 pid = vget t2 pid.
Proof. intros [_ H]. unfold vget. rewrite (H pid). reflexivity. Qed.

Lemma first_some_ext {A B} (f g : A -> option B) l : (forall x, f x = g x) -> first_some f l = first_some g l.
Proof. intro H. induction l as [|x r IH]; cbn [first_some]; [reflexivity|]. rewrite (H x), IH. reflexivity. Qed.

Lemma teq_keys o t1 t2 : wf_table t1 -> wf_table t2 -> teq t1 t2 -> valid_oracle o ->
  sortN (o (map fst (tb_tabs t1))) = sortN (o (map fst (tb_tabs t2))).
Proof.
  intros W1 W2 [_ Hv] V. apply sortN_perm.
  eapply Permutation_trans; [apply Permutation_sym, V|].
  eapply Permutation_trans; [|apply V].
  apply NoDup_Permutation; [apply (wt_nodup t1 W1)|apply (wt_nodup t2 W2)|].
  intro x. rewrite <- !tview_some_in. rewrite (Hv x). tauto.
Qed.

Lemma teq_rev o t1 t2 pa : wf_table t1 -> wf_table t2 -> teq t1 t2 -> valid_oracle o ->
  rev_lookup o t1 pa = rev_lookup o t2 pa.
Proof.
  intros W1 W2 E V. unfold rev_lookup. rewrite (teq_keys o t1 t2 W1 W2 E V).
  apply first_some_ext. intro pid. rewrite !tab_rev_view, (teq_vget t1 t2 pid E). reflexivity.
Qed.

Lemma teq_save o t1 t2 : wf_table t1 -> wf_table t2 -> teq t1 t2 -> valid_oracle o -> save o t1 = save o t2.
Proof.
  intros W1 W2 E V. rewrite !save_view, (teq_keys o t1 t2 W1 W2 E V).
  apply map_ext. intro pid. rewrite (teq_vget t1 t2 pid E). reflexivity.
Qed.

Lemma teq_with_tab t1 t2 pid f lf : wf_table t1 -> wf_table t2 -> teq t1 t2 -> refines_l f lf ->
  (forall l l', lf l = Some l' -> (forall p, In p l -> pg_pid p = pid) -> forall p, In p l' -> pg_pid p = pid) ->
  snd (with_tab t1 pid f) = snd (with_tab t2 pid f) /\ teq (fst (with_tab t1 pid f)) (fst (with_tab t2 pid f)).
Proof.
  intros W1 W2 E R P.
  destruct (with_tab_spec t1 pid f lf W1 R P) as [_ [L1 S1]].
  destruct (with_tab_spec t2 pid f lf W2 R P) as [_ [L2 S2]].
  rewrite <- (teq_vget t1 t2 pid E) in S2. destruct E as [El Ev].
  destruct (lf (vget t1 pid)); destruct S1 as [R1 V1], S2 as [R2 V2].
  - split; [congruence|]. split; [congruence|]. intro i. rewrite V1, V2, (Ev i). reflexivity.
  - split; [congruence|]. split; [congruence|]. intro i. rewrite V1, V2, (Ev i). reflexivity.
Qed.

Theorem step_teq o t1 t2 x : wf_table t1 -> wf_table t2 -> teq t1 t2 -> valid_oracle o -> op_ok x ->
  snd (step o t1 x) = snd (step o t2 x) /\ teq (fst (step o t1 x)) (fst (step o t2 x)).
Proof.
  intros W1 W2 E V Ok. destruct x; cbn [step].
  - apply (teq_with_tab t1 t2 _ _ _ W1 W2 E (insert_refines_l p) (l_insert_pid p)).
  - apply (teq_with_tab t1 t2 _ _ _ W1 W2 E (remove_refines_l va) (l_remove_pid pid va)).
  - fold (step o t1 (OFind pid va)). fold (step o t2 (OFind pid va)). rewrite !find_step. cbn [fst snd].
    rewrite (find_result t1 pid _ W1), (find_result t2 pid _ W2). unfold abs.
    rewrite (teq_vget t1 t2 pid E). destruct E as [El Ev]. rewrite El. split; [reflexivity|].
    split; [reflexivity|]. intro i.
    pose proof (find_view t1 pid i) as F1. rewrite El in F1. rewrite F1, (find_view t2 pid i).
    unfold vget. rewrite (Ev pid), (Ev i). reflexivity.
  - apply (teq_with_tab t1 t2 _ _ _ W1 W2 E (update_refines_l p) (l_update_pid p)).
  - cbn [fst snd]. rewrite (teq_rev o t1 t2 pa W1 W2 E V). tauto.
  - cbn [fst snd]. rewrite (teq_save o t1 t2 W1 W2 E V). destruct E as [El Ev]. rewrite El. split; [reflexivity|split; assumption].
  - unfold load. destruct E as [El Ev]. rewrite <- El. destruct (log2 =? tb_log2 t1); cbn [fst snd].
    + split; [reflexivity|]. split; [reflexivity|]. intro i. reflexivity.
    + split; [reflexivity|]. split; assumption.
  - rewrite !load_fresh. cbn [fst snd]. rewrite (teq_save o t1 t2 W1 W2 E V). destruct E as [El Ev]. rewrite El.
    split; [reflexivity|]. split; [exact El|]. intro i.
    rewrite (roundtrip_view o t1 V), (roundtrip_view o t2 V). apply Ev.
Qed.

Theorem run_teq h : forall t1 t2, wf_table t1 -> wf_table t2 -> teq t1 t2 -> hist_ok h ->
  snd (run t1 h) = snd (run t2 h) /\ teq (fst (run t1 h)) (fst (run t2 h)).
Proof.
  induction h as [|[o x] r IH]; intros t1 t2 W1 W2 E H; cbn [run]; [cbn [fst snd]; tauto|].
  inversion H as [|? ? [Hv Ho] Hr]; subst. cbn [fst snd] in Hv, Ho.
  destruct (step_teq o t1 t2 x W1 W2 E Hv Ho) as [R E'].
  destruct (step_wf o t1 x W1 Ho) as [W1' _]. destruct (step_wf o t2 x W2 Ho) as [W2' _].
  destruct (step o t1 x) as [u1 y1]. destruct (step o t2 x) as [u2 y2]. cbn [fst snd] in *.
  destruct (IH u1 u2 W1' W2' E' Hr) as [Rr Er].
  destruct (run u1 r) as [v1 ys1]. destruct (run u2 r) as [v2 ys2]. cbn [fst snd] in *.
  split; [congruence|exact Er].
Qed.

Lemma roundtrip_teq o t : valid_oracle o -> teq (roundtrip o t) t.
Proof. intro V. split; [reflexivity|apply roundtrip_view; exact V]. Qed.
