(** C26 — case evaluators.  A case is one operation history executed by the real
    vm.PageTable: [c_obs] holds the results of the same history in several freshly built
    tables (several Go map instances), [c_obs_rt] the results of the history with a
    checkpoint save / load-into-a-fresh-table inserted after the operations marked in [c_rt]
    (results of the inserted round trips dropped). *)
From Akita Require Import Lib.Base C26.Model.
Local Open Scope N_scope.

Record case := mk_case {
  c_log2 : N; c_ops : list op; c_rt : list bool;
  c_obs : list (list res); c_obs_rt : list res }.

Definition opage_eqb := opt_eqb page_eqb.
Definition pages_eqb := list_eqb page_eqb.
Definition dto_eqb : dto -> dto -> bool :=
  list_eqb (fun a b => (fst a =? fst b) && pages_eqb (snd a) (snd b)).

Definition res_eqb (a b : res) : bool :=
  match a, b with
  | RPanic, RPanic => true
  | RUnit, RUnit => true
  | RFound x, RFound y => opage_eqb x y
  | RSaved l d, RSaved l' d' => (l =? l') && dto_eqb d d'
  | RLoaded x, RLoaded y => Bool.eqb x y
  | _, _ => false
  end.
Definition ress_eqb := list_eqb res_eqb.

(** The history with round trips woven in; the bool says whether the result is reported. *)
Fixpoint weave (ops : list op) (rt : list bool) : list (op * bool) :=
  match ops with
  | [] => []
  | x :: r =>
      match rt with
      | true :: rt' => (x, true) :: (ORoundtrip, false) :: weave r rt'
      | _ :: rt' => (x, true) :: weave r rt'
      | [] => (x, true) :: weave r []
      end
  end.

Fixpoint keep {A} (l : list A) (m : list bool) : list A :=
  match l, m with
  | x :: r, true :: m' => x :: keep r m'
  | _ :: r, false :: m' => keep r m'
  | _, _ => []
  end.

Definition model_results (log2 : N) (ops : list op) : list res :=
  snd (run (tb_new log2) (map (fun x => (id_oracle, x)) ops)).

Definition model_results_rt (log2 : N) (ops : list op) (rt : list bool) : list res :=
  let w := weave ops rt in keep (model_results log2 (map fst w)) (map snd w).

(** model output = implementation output, for every repetition and for the woven run *)
Definition check_case (c : case) : bool :=
  let m := model_results (c_log2 c) (c_ops c) in
  forallb (ress_eqb m) (c_obs c) && negb (length (c_obs c) =? 0)%nat &&
  ress_eqb (model_results_rt (c_log2 c) (c_ops c) (c_rt c)) (c_obs_rt c).

(** ---- The property evaluated on the observed results, against a plain map
    (process, vaddr) -> page that is independent of Model.v. *)
Definition smap := list ((N * N) * page).

Fixpoint sget (pid va : N) (m : smap) : option page :=
  match m with
  | [] => None
  | ((i, a), p) :: r => if (i =? pid) && (a =? va) then Some p else sget pid va r
  end.
Fixpoint sdel (pid va : N) (m : smap) : smap :=
  match m with
  | [] => []
  | ((i, a), p) :: r => if (i =? pid) && (a =? va) then sdel pid va r else ((i, a), p) :: sdel pid va r
  end.
Definition sset (pid va : N) (p : page) (m : smap) : smap := ((pid, va), p) :: sdel pid va m.

Fixpoint strictly_sorted (l : list N) : bool :=
  match l with
  | x :: ((y :: _) as r) => (x <? y) && strictly_sorted r
  | _ => true
  end.

Fixpoint nodupN (l : list N) : bool :=
  match l with
  | [] => true
  | x :: r => negb (existsb (N.eqb x) r) && nodupN r
  end.

(** a DTO as SaveCheckpoint writes it: pids strictly increasing, per process no repeated
    vaddr and every page carrying the pid of its process *)
Definition dto_wf (d : dto) : bool :=
  strictly_sorted (map fst d) &&
  forallb (fun e => nodupN (map pg_vaddr (snd e)) && forallb (fun p => pg_pid p =? fst e) (snd e)) d.

Definition smap_of_dto (d : dto) : smap :=
  flat_map (fun e => map (fun p => ((fst e, pg_vaddr p), p)) (snd e)) d.

(** the saved DTO holds exactly the bindings of the map *)
Definition dto_matches (m : smap) (d : dto) : bool :=
  dto_wf d &&
  forallb (fun e => forallb (fun p => opage_eqb (sget (fst e) (pg_vaddr p) m) (Some p)) (snd e)) d &&
  (length (smap_of_dto d) =? length m)%nat &&
  forallb (fun b => existsb (N.eqb (fst (fst b))) (map fst d)) m.

Fixpoint spec_check (log2 : N) (m : smap) (ops : list op) (obs : list res) : bool :=
  match ops, obs with
  | [], [] => true
  | x :: ops', r :: obs' =>
      match x with
      | OInsert p =>
          match sget (pg_pid p) (pg_vaddr p) m with
          | Some _ => res_eqb r RPanic && spec_check log2 m ops' obs'
          | None => res_eqb r RUnit && spec_check log2 (sset (pg_pid p) (pg_vaddr p) p m) ops' obs'
          end
      | ORemove pid va =>
          match sget pid va m with
          | Some _ => res_eqb r RUnit && spec_check log2 (sdel pid va m) ops' obs'
          | None => res_eqb r RPanic && spec_check log2 m ops' obs'
          end
      | OUpdate p =>
          match sget (pg_pid p) (pg_vaddr p) m with
          | Some _ => res_eqb r RUnit && spec_check log2 (sset (pg_pid p) (pg_vaddr p) p m) ops' obs'
          | None => res_eqb r RPanic && spec_check log2 m ops' obs'
          end
      | OFind pid va =>
          res_eqb r (RFound (sget pid (align log2 va) m)) && spec_check log2 m ops' obs'
      | ORev pa =>
          match r with
          | RFound (Some p) =>
              (pg_paddr p =? pa) && opage_eqb (sget (pg_pid p) (pg_vaddr p) m) (Some p)
          | RFound None => negb (existsb (fun b => pg_paddr (snd b) =? pa) m)
          | _ => false
          end && spec_check log2 m ops' obs'
      | OSave | ORoundtrip =>
          match r with
          | RSaved l d => (l =? log2) && dto_matches m d
          | _ => false
          end && spec_check log2 m ops' obs'
      | OLoad l d =>
          if l =? log2
          then res_eqb r (RLoaded true) && spec_check log2 (smap_of_dto d) ops' obs'
          else res_eqb r (RLoaded false) && spec_check log2 m ops' obs'
      end
  | _, _ => false
  end.

(** histories the statement speaks about: every loaded checkpoint has the shape of a saved one *)
Definition hist_ok (ops : list op) : bool :=
  forallb (fun x => match x with OLoad _ d => dto_wf d | _ => true end) ops.

Definition holds_on (c : case) : bool :=
  if hist_ok (c_ops c) then
    match c_obs c with
    | [] => false
    | o1 :: rest =>
        spec_check (c_log2 c) [] (c_ops c) o1 &&        (* behaves as the map; reverse lookup sound/complete *)
        forallb (ress_eqb o1) rest &&                   (* same results in every repetition *)
        ress_eqb o1 (c_obs_rt c)                        (* checkpoint round trips are invisible *)
    end
  else true.
