(** C26 — link between the correspondence check and the theorems. *)
From Akita Require Import Lib.Base C26.Model C26.Exec.
Local Open Scope N_scope.

Lemma page_eqb_eq a b : page_eqb a b = true <-> a = b.
Proof.
  destruct a as [a1 a2 a3 a4 a5 a6], b as [b1 b2 b3 b4 b5 b6]. unfold page_eqb.
  cbn [pg_pid pg_paddr pg_vaddr pg_size pg_dev pg_flags].
  rewrite !andb_true_iff, !N.eqb_eq. split.
  - intros [[[[[-> ->] ->] ->] ->] ->]. reflexivity.
  - intro H. inversion H. tauto.
Qed.

Lemma opage_eqb_eq a b : opage_eqb a b = true <-> a = b.
Proof.
  destruct a as [x|], b as [y|]; cbn [opage_eqb opt_eqb]; try (split; [discriminate|intro H; inversion H]).
  - rewrite page_eqb_eq. split; [intros ->; reflexivity|intro H; inversion H; reflexivity].
  - tauto.
Qed.

Lemma dto_eqb_eq a b : dto_eqb a b = true <-> a = b.
Proof.
  apply list_eqb_eq. intros [p1 l1] [p2 l2]. cbn [fst snd].
  rewrite andb_true_iff, N.eqb_eq. unfold pages_eqb. rewrite (list_eqb_eq page_eqb page_eqb_eq).
  split; [intros [-> ->]; reflexivity|intro H; inversion H; tauto].
Qed.

Lemma res_eqb_eq a b : res_eqb a b = true <-> a = b.
Proof.
  destruct a as [| |x|l d|x], b as [| |y|l' d'|y]; cbn [res_eqb]; try tauto;
    try (split; [discriminate|intro H; inversion H]).
  - rewrite opage_eqb_eq. split; [intros ->; reflexivity|intro H; inversion H; reflexivity].
  - rewrite andb_true_iff, N.eqb_eq, dto_eqb_eq. split; [intros [-> ->]; reflexivity|intro H; inversion H; tauto].
  - rewrite Bool.eqb_true_iff. split; [intros ->; reflexivity|intro H; inversion H; reflexivity].
Qed.

Lemma ress_eqb_eq a b : ress_eqb a b = true <-> a = b.
Proof. apply (list_eqb_eq res_eqb res_eqb_eq). Qed.

(** every repetition observed on the implementation is the model's result list *)
Lemma check_case_obs c : check_case c = true ->
  forall o, In o (c_obs c) -> o = model_results (c_log2 c) (c_ops c).
Proof.
  unfold check_case. cbv zeta. rewrite !andb_true_iff. intros [[H _] _] o Hin.
  rewrite forallb_forall in H. symmetry. apply ress_eqb_eq. apply H. exact Hin.
Qed.
