(** C26 — proofs, part 3: the whole page table.  Invariant, view as pid -> page list,
    refinement to the map (pid, vaddr) -> page, reverse lookup, checkpoint round trip. *)
From Coq Require Import Permutation.
From Akita Require Import Lib.Base C26.Model C26.Proofs C26.Proofs2.
Local Open Scope N_scope.

(** ---- views *)
Definition tview (t : table) (pid : N) : option (list page) :=
  option_map pt_pages (kget pid (tb_tabs t)).

Definition vget (t : table) (pid : N) : list page :=
  match tview t pid with Some l => l | None => [] end.

(** the abstract map (process, vaddr) -> page *)
Definition amap := N -> N -> option page.
Definition abs (t : table) : amap := fun pid va => l_find va (vget t pid).

Record wf_table (t : table) : Prop := mk_wf_table {
  wt_nodup : NoDup (map fst (tb_tabs t));
  wt_tabs : forall pid pt, kget pid (tb_tabs t) = Some pt -> wf_ptab pt;
  wt_pid : forall pid pt p, kget pid (tb_tabs t) = Some pt -> In p (pt_pages pt) -> pg_pid p = pid }.

Lemma wf_new log2 : wf_table (tb_new log2).
Proof. constructor; cbn; [constructor|discriminate|discriminate]. Qed.

(** a loaded DTO must have the shape SaveCheckpoint writes, per process *)
Definition dto_ok (d : dto) : Prop :=
  forall pid ps, In (pid, ps) d -> NoDup (map pg_vaddr ps) /\ forall p, In p ps -> pg_pid p = pid.

Definition op_ok (x : op) : Prop := match x with OLoad _ d => dto_ok d | _ => True end.

Lemma vget_nodup t pid : wf_table t -> NoDup (map pg_vaddr (vget t pid)).
Proof.
  intro W. unfold vget, tview. destruct (kget pid (tb_tabs t)) as [pt|] eqn:K; cbn [option_map]; [|constructor].
  apply wf_vaddr_nodup. apply (wt_tabs t W pid pt K).
Qed.

Lemma vget_pid t pid p : wf_table t -> In p (vget t pid) -> pg_pid p = pid.
Proof.
  intro W. unfold vget, tview. destruct (kget pid (tb_tabs t)) as [pt|] eqn:K; cbn [option_map]; [|intros []].
  apply (wt_pid t W pid pt p K).
Qed.

(** ---- the three mutating operations through getTable *)
Definition refines_l (f : ptab -> option ptab) (lf : list page -> option (list page)) : Prop :=
  forall pt, wf_ptab pt ->
    match f pt, lf (pt_pages pt) with
    | None, None => True
    | Some t', Some l' => wf_ptab t' /\ pt_pages t' = l'
    | _, _ => False
    end.

Lemma with_tab_spec t pid f lf :
  wf_table t -> refines_l f lf ->
  (forall l l', lf l = Some l' -> (forall p, In p l -> pg_pid p = pid) -> forall p, In p l' -> pg_pid p = pid) ->
  wf_table (fst (with_tab t pid f)) /\ tb_log2 (fst (with_tab t pid f)) = tb_log2 t /\
  match lf (vget t pid) with
  | None => snd (with_tab t pid f) = RPanic /\
            forall i, tview (fst (with_tab t pid f)) i = if pid =? i then Some (vget t pid) else tview t i
  | Some l' => snd (with_tab t pid f) = RUnit /\
            forall i, tview (fst (with_tab t pid f)) i = if pid =? i then Some l' else tview t i
  end.
Proof.
  intros W R P. unfold with_tab, get_table, vget, tview.
  destruct (kget pid (tb_tabs t)) as [pt|] eqn:K; cbn [option_map].
  - pose proof (R pt (wt_tabs t W pid pt K)) as Rp.
    destruct (f pt) as [pt'|] eqn:F, (lf (pt_pages pt)) as [l'|] eqn:L; try contradiction; cbn [fst snd tb_log2 tb_tabs].
    + destruct Rp as [Wp Hp]. split; [|split; [reflexivity|split; [reflexivity|]]].
      * constructor; cbn [tb_tabs].
        -- apply NoDup_kset. apply (wt_nodup t W).
        -- intros i q. rewrite kget_kset. destruct (pid =? i) eqn:E; [intro H; inversion H; subst; exact Wp|apply (wt_tabs t W)].
        -- intros i q p. rewrite kget_kset. destruct (pid =? i) eqn:E.
           ++ intro H. inversion H; subst q. rewrite Hp. intro Hin.
              assert (i = pid) by lia. subst i.
              apply (P _ _ L (fun p0 => wt_pid t W pid pt p0 K) p Hin).
           ++ apply (wt_pid t W).
      * intro i. rewrite kget_kset. destruct (pid =? i); cbn [option_map]; [rewrite Hp|]; reflexivity.
    + split; [|split; [reflexivity|split; [reflexivity|]]].
      * destruct t as [l tabs]. exact W.
      * intro i. destruct (pid =? i) eqn:E; [|reflexivity]. assert (i = pid) by lia. subst i. rewrite K. reflexivity.
  - pose proof (R pt_empty wf_empty) as Rp. change (pt_pages pt_empty) with (@nil page) in Rp.
    assert (Wk : wf_table (mk_table (tb_log2 t) (kset pid pt_empty (tb_tabs t)))).
    { constructor; cbn [tb_tabs].
      - apply NoDup_kset. apply (wt_nodup t W).
      - intros i q. rewrite kget_kset. destruct (pid =? i); [intro H; inversion H; subst; apply wf_empty|apply (wt_tabs t W)].
      - intros i q p. rewrite kget_kset. destruct (pid =? i); [intro H; inversion H; subst; intros []|apply (wt_pid t W)]. }
    destruct (f pt_empty) as [pt'|] eqn:F, (lf []) as [l'|] eqn:L; try contradiction; cbn [fst snd tb_log2 tb_tabs].
    + destruct Rp as [Wp Hp]. split; [|split; [reflexivity|split; [reflexivity|]]].
      * constructor; cbn [tb_tabs].
        -- apply NoDup_kset. apply (wt_nodup _ Wk).
        -- intros i q. rewrite kget_kset. destruct (pid =? i) eqn:E; [intro H; inversion H; subst; exact Wp|apply (wt_tabs _ Wk)].
        -- intros i q p. rewrite kget_kset. destruct (pid =? i) eqn:E.
           ++ intro H. inversion H; subst q. rewrite Hp. intro Hin.
              assert (i = pid) by lia. subst i.
              apply (P _ _ L (fun p0 (H0 : In p0 []) => match H0 with end) p Hin).
           ++ apply (wt_pid _ Wk).
      * intro i. rewrite !kget_kset. destruct (pid =? i); cbn [option_map]; [rewrite Hp|]; reflexivity.
    + split; [exact Wk|split; [reflexivity|split; [reflexivity|]]].
      intro i. rewrite kget_kset. destruct (pid =? i); reflexivity.
Qed.

Lemma insert_refines_l p : refines_l (pt_insert p) (l_insert p).
Proof. intros pt W. apply pt_insert_refines. exact W. Qed.
Lemma remove_refines_l va : refines_l (pt_remove va) (l_remove va).
Proof. intros pt W. apply pt_remove_refines. exact W. Qed.
Lemma update_refines_l p : refines_l (pt_update p) (l_update p).
Proof. intros pt W. apply pt_update_refines. exact W. Qed.

Lemma l_insert_pid p l l' : l_insert p l = Some l' ->
  (forall q, In q l -> pg_pid q = pg_pid p) -> forall q, In q l' -> pg_pid q = pg_pid p.
Proof.
  unfold l_insert. destruct (l_find (pg_vaddr p) l); [discriminate|]. intro H. inversion H; subst.
  intros Hl q Hin. apply in_app_or in Hin. destruct Hin as [Hin|[<-|[]]]; auto.
Qed.
Lemma l_remove_pid pid va l l' : l_remove va l = Some l' ->
  (forall q, In q l -> pg_pid q = pid) -> forall q, In q l' -> pg_pid q = pid.
Proof.
  unfold l_remove. destruct (l_find va l); [|discriminate]. intro H. inversion H; subst.
  intros Hl q Hin. apply filter_In in Hin. apply Hl. tauto.
Qed.
Lemma l_update_pid p l l' : l_update p l = Some l' ->
  (forall q, In q l -> pg_pid q = pg_pid p) -> forall q, In q l' -> pg_pid q = pg_pid p.
Proof.
  unfold l_update. destruct (l_find (pg_vaddr p) l); [|discriminate]. intro H. inversion H; subst.
  intros Hl q Hin. apply in_map_iff in Hin. destruct Hin as [w [Hw Hin]].
  destruct (pg_vaddr w =? pg_vaddr p); subst; auto.
Qed.

(** ---- laws of l_find *)
Lemma l_find_app va l p :
  l_find va (l ++ [p]) = match l_find va l with Some x => Some x | None => if pg_vaddr p =? va then Some p else None end.
Proof.
  unfold l_find. induction l as [|q r IH]; cbn [app find]; [reflexivity|].
  destruct (pg_vaddr q =? va); [reflexivity|exact IH].
Qed.

Lemma l_find_filter va va' l :
  l_find va' (filter (fun p => negb (pg_vaddr p =? va)) l) = if va =? va' then None else l_find va' l.
Proof.
  unfold l_find. induction l as [|q r IH]; cbn [filter find]; [destruct (va =? va'); reflexivity|].
  destruct (pg_vaddr q =? va) eqn:E1; cbn [negb].
  - rewrite IH. destruct (va =? va') eqn:E2; [reflexivity|].
    destruct (pg_vaddr q =? va') eqn:E3; [lia|reflexivity].
  - cbn [find]. destruct (pg_vaddr q =? va') eqn:E3.
    + destruct (va =? va') eqn:E2; [lia|reflexivity].
    + exact IH.
Qed.

Lemma l_find_map_upd p va' l :
  l_find va' (map (fun q => if pg_vaddr q =? pg_vaddr p then p else q) l) =
  if pg_vaddr p =? va' then match l_find va' l with Some _ => Some p | None => None end else l_find va' l.
Proof.
  unfold l_find. induction l as [|q r IH]; cbn [map find]; [destruct (pg_vaddr p =? va'); reflexivity|].
  destruct (pg_vaddr q =? pg_vaddr p) eqn:E1.
  - destruct (pg_vaddr p =? va') eqn:E2.
    + assert (pg_vaddr q =? va' = true) as -> by lia. reflexivity.
    + assert (pg_vaddr q =? va' = false) as -> by lia. rewrite IH. reflexivity.
  - destruct (pg_vaddr q =? va') eqn:E3.
    + destruct (pg_vaddr p =? va') eqn:E2; [lia|reflexivity].
    + exact IH.
Qed.

(** ---- the specification: a function (pid, vaddr) -> option page *)
Definition aupd (m : amap) (pid va : N) (v : option page) : amap :=
  fun i a => if (pid =? i) && (va =? a) then v else m i a.

Definition amap_of_dto (d : dto) : amap :=
  fun pid va => match kget pid (rev d) with Some ps => l_find va ps | None => None end.

(** [None] as a result: not determined by the map alone (reverse lookup, saved DTO);
    those are covered by c26_reverse_* and c26_checkpoint_*. *)
Definition spec_step (log2 : N) (m : amap) (x : op) : amap * option res :=
  match x with
  | OInsert p =>
      match m (pg_pid p) (pg_vaddr p) with
      | Some _ => (m, Some RPanic)
      | None => (aupd m (pg_pid p) (pg_vaddr p) (Some p), Some RUnit)
      end
  | ORemove pid va =>
      match m pid va with
      | Some _ => (aupd m pid va None, Some RUnit)
      | None => (m, Some RPanic)
      end
  | OUpdate p =>
      match m (pg_pid p) (pg_vaddr p) with
      | Some _ => (aupd m (pg_pid p) (pg_vaddr p) (Some p), Some RUnit)
      | None => (m, Some RPanic)
      end
  | OFind pid va => (m, Some (RFound (m pid (align log2 va))))
  | ORev _ | OSave | ORoundtrip => (m, None)
  | OLoad l d => if l =? log2 then (amap_of_dto d, Some (RLoaded true)) else (m, Some (RLoaded false))
  end.

Definition aeq (m1 m2 : amap) : Prop := forall pid va, m1 pid va = m2 pid va.
Definition res_ok (r : res) (s : option res) : Prop := forall r0, s = Some r0 -> r = r0.

Lemma abs_after t t' pid l' :
  (forall i, tview t' i = if pid =? i then Some l' else tview t i) ->
  forall i a, abs t' i a = if pid =? i then l_find a l' else abs t i a.
Proof.
  intros H i a. unfold abs, vget. rewrite (H i). destruct (pid =? i); reflexivity.
Qed.
