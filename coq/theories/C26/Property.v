(** C26 — page tables behave as a per-process map with deterministic lookups.  Property theorems only. *)
From Coq Require Import Permutation.
From Akita Require Import Lib.Base C26.Model C26.Proofs.
Local Open Scope N_scope.

(** Every result of every operation of every history is independent of the order in which Go
    ranges over the pid map: two runs of the same history under any two sequences of admissible
    iteration oracles (one oracle per operation) end in the same table with the same results. *)
Theorem c26_reverse_deterministic : forall ops os1 os2 t,
  Forall valid_oracle os1 -> Forall valid_oracle os2 ->
  length os1 = length ops -> length os2 = length ops ->
  run t (with_oracles os1 ops) = run t (with_oracles os2 ops).
Proof. exact run_oracle. Qed.
Print Assumptions c26_reverse_deterministic.

(** Regression: the pre-fix ReverseLookup (visit the process tables in map order) returns
    different pages for two admissible iteration orders on a reachable table in which three
    processes share a physical page; the repaired lookup returns the lowest pid's page for both. *)
Theorem c26_reverse_lookup_old_refuted :
  exists t pa o1 o2, valid_oracle o1 /\ valid_oracle o2 /\
    t = fst (run (tb_new 12) (map (fun x => (id_oracle, x)) shared_ops)) /\
    rev_lookup_old o1 t pa <> rev_lookup_old o2 t pa /\
    rev_lookup o1 t pa = rev_lookup o2 t pa.
Proof.
  exists shared_table, 20480, id_oracle, rev_oracle.
  destruct rev_old_order_dependent as [A [B [C D]]].
  split; [apply id_oracle_valid|]. split; [apply rev_oracle_valid|].
  split; [reflexivity|]. split; [rewrite A, B; discriminate|congruence].
Qed.
Print Assumptions c26_reverse_lookup_old_refuted.
