(** C26 — page tables behave as a per-process map with deterministic lookups.  Property theorems only. *)
From Coq Require Import Permutation.
From Akita Require Import Lib.Base C26.Model C26.Proofs C26.Proofs2 C26.Proofs3 C26.Proofs4 C26.Proofs5.
Local Open Scope N_scope.

(** Every result of every operation of every history is independent of the order in which Go
    ranges over the pid map: two runs of the same history under any two sequences of admissible
    iteration oracles (one oracle per operation) end in the same table with the same results. *)
Theorem c26_reverse_deterministic : forall ops os1 os2 t,
  Forall valid_oracle os1 -> Forall valid_oracle os2 ->
  length os1 = length ops -> length os2 = length ops ->
  run t (with_oracles os1 ops) = run t (with_oracles os2 ops).
Proof. exact run_oracle. Qed.
Print Assumptions c26_reverse_deterministic.

(** Regression: the pre-fix ReverseLookup (visit the process tables in map order) returns
    different pages for two admissible iteration orders on a reachable table in which three
    processes share a physical page; the repaired lookup returns the lowest pid's page for both. *)
Theorem c26_reverse_lookup_old_refuted :
  exists t pa o1 o2, valid_oracle o1 /\ valid_oracle o2 /\
    t = fst (run (tb_new 12) (map (fun x => (id_oracle, x)) shared_ops)) /\
    rev_lookup_old o1 t pa <> rev_lookup_old o2 t pa /\
    rev_lookup o1 t pa = rev_lookup o2 t pa.
Proof.
  exists shared_table, 20480, id_oracle, rev_oracle.
  destruct rev_old_order_dependent as [A [B [C D]]].
  split; [apply id_oracle_valid|]. split; [apply rev_oracle_valid|].
  split; [reflexivity|]. split; [rewrite A, B; discriminate|congruence].
Qed.
Print Assumptions c26_reverse_lookup_old_refuted.

(** Histories: lists of (iteration oracle, operation).  [hist_ok]: every oracle is a permutation
    and every hand-loaded checkpoint has the per-process shape SaveCheckpoint writes. *)

(** The two structures of every process table stay consistent in every reachable state:
    element ids are unique, every key of the vaddr map points to a live list element carrying
    that vaddr and every element is indexed (so Find never meets a dangling element), pids of
    the pid map are unique and every page sits in the table of its own process. *)
Theorem c26_invariant : forall log2 h, hist_ok h -> wf_table (fst (run (tb_new log2) h)).
Proof. intros log2 h H. apply (run_wf h (tb_new log2) (wf_new log2) H). Qed.
Print Assumptions c26_invariant.

(** Insert / update / remove / find agree with a map (process, vaddr) -> page over every
    history: every result the map determines (Unit/Panic outcomes, found page or not-found,
    load status) is the one the implementation model returns, where the map is threaded by
    [spec_step] (insert: panic if bound else bind; remove/update: panic if unbound; find:
    lookup of the page-aligned address; load: replace by the DTO's bindings). *)
Theorem c26_refines_map : forall log2 h, hist_ok h ->
  Forall2 res_ok (snd (run (tb_new log2) h)) (spec_run log2 (fun _ _ => None) (map snd h)).
Proof. intros log2 h H. apply (run_refines h (tb_new log2) _ (wf_new log2) (abs_new log2) H). Qed.
Print Assumptions c26_refines_map.

(** ... and after the history the table's content IS that map (one-step form, any reachable table). *)
Theorem c26_refines_map_step : forall log2 h o x, hist_ok h -> valid_oracle o -> op_ok x ->
  let t := fst (run (tb_new log2) h) in
  aeq (abs (fst (step o t x))) (fst (spec_step (tb_log2 t) (abs t) x)) /\
  res_ok (snd (step o t x)) (snd (spec_step (tb_log2 t) (abs t) x)).
Proof. intros log2 h o x H V Ok t. exact (step_refines o t x (c26_invariant log2 h H) V Ok). Qed.
Print Assumptions c26_refines_map_step.

(** Reverse lookup in any reachable table: a returned page has the requested physical address
    and is bound in the map under its own (pid, vaddr); and some page is returned whenever the
    map holds a page with that physical address. *)
Theorem c26_reverse_sound : forall log2 h o pa, hist_ok h -> valid_oracle o ->
  let t := fst (run (tb_new log2) h) in
  (forall p, rev_lookup o t pa = Some p -> pg_paddr p = pa /\ abs t (pg_pid p) (pg_vaddr p) = Some p) /\
  ((exists pid va p, abs t pid va = Some p /\ pg_paddr p = pa) -> exists q, rev_lookup o t pa = Some q).
Proof.
  intros log2 h o pa H V t. pose proof (c26_invariant log2 h H) as W. split.
  - intros p Hp. apply (rev_sound o t pa p W Hp).
  - apply (rev_complete o t pa W V).
Qed.
Print Assumptions c26_reverse_sound.

(** Checkpoint round trip at any point of any history: loading the saved DTO into a freshly
    built table succeeds, saving again gives the same DTO, and every result of every later
    history (finds, reverse lookups, saves, panics ...) is the same as without the round trip. *)
Theorem c26_checkpoint_roundtrip : forall log2 h1 h2 o, hist_ok h1 -> hist_ok h2 -> valid_oracle o ->
  let t := fst (run (tb_new log2) h1) in
  load (tb_log2 t) (save o t) (tb_new (tb_log2 t)) = Some (roundtrip o t) /\
  save o (roundtrip o t) = save o t /\
  snd (run (roundtrip o t) h2) = snd (run t h2).
Proof.
  intros log2 h1 h2 o H1 H2 V t. pose proof (c26_invariant log2 h1 H1) as W.
  pose proof (roundtrip_wf o t W) as Wr. pose proof (roundtrip_teq o t V) as E.
  split; [apply load_fresh|split].
  - apply (teq_save o _ _ Wr W E V).
  - apply (run_teq h2 _ _ Wr W E H2).
Qed.
Print Assumptions c26_checkpoint_roundtrip.

(** Non-vacuity: a concrete history over three processes sharing a physical page, with a
    panic, a create-on-find, a hand-loaded checkpoint and a round trip, satisfies [hist_ok];
    its results are the expected ones. *)
Definition demo_ops : list op :=
  [OInsert (mk_page 3 20480 4096 4096 0 1); OInsert (mk_page 1 20480 8192 4096 1 1);
   OInsert (mk_page 1 20480 8192 4096 1 1); OFind 9 77; ORev 20480; ORoundtrip;
   OUpdate (mk_page 3 99 4096 4096 0 1); OFind 3 5000; ORemove 1 8192; ORev 20480;
   OLoad 12 [(4, [mk_page 4 1 0 4096 0 0; mk_page 4 2 4096 4096 0 0])]; OFind 4 4097].
Definition demo_hist : list (oracle * op) := map (fun x => (rev_oracle, x)) demo_ops.

Example c26_nonvacuous :
  hist_ok demo_hist /\
  snd (run (tb_new 12) demo_hist) =
  [RUnit; RUnit; RPanic; RFound None; RFound (Some (mk_page 1 20480 8192 4096 1 1));
   RSaved 12 [(1, [mk_page 1 20480 8192 4096 1 1]); (3, [mk_page 3 20480 4096 4096 0 1]); (9, [])];
   RUnit; RFound (Some (mk_page 3 99 4096 4096 0 1)); RUnit; RFound None; RLoaded true;
   RFound (Some (mk_page 4 2 4096 4096 0 0))].
Proof.
  split; [|vm_compute; reflexivity].
  apply Forall_forall. intros [o x] Hin. cbn [fst snd].
  unfold demo_hist in Hin. apply in_map_iff in Hin. destruct Hin as [y [Heq Hy]]. inversion Heq; subst.
  split; [apply rev_oracle_valid|].
  unfold demo_ops in Hy. cbn [In] in Hy.
  repeat (destruct Hy as [<-|Hy]; [try exact I|]); [|destruct Hy].
  intros i ps [Hd|[]]. inversion Hd; subst. split.
  - cbn. repeat constructor; cbn; intuition discriminate.
  - intros p [<-|[<-|[]]]; reflexivity.
Qed.

(** Link to the implementation: when the correspondence check succeeds on a case whose history
    only loads checkpoints of the shape SaveCheckpoint writes, every result list OBSERVED on the
    real vm.PageTable (each repetition in a fresh table) agrees with the map
    (process, vaddr) -> page threaded by [spec_step]. *)
From Akita Require Import C26.Exec C26.Link.

Lemma nodupN_NoDup l : nodupN l = true -> NoDup l.
Proof.
  induction l as [|x r IH]; cbn [nodupN]; intro H; [constructor|].
  apply andb_true_iff in H. destruct H as [H1 H2]. constructor; [|apply IH; exact H2].
  intro Hin. apply negb_true_iff in H1.
  assert (existsb (N.eqb x) r = true) by (apply existsb_exists; exists x; split; [exact Hin|apply N.eqb_refl]).
  congruence.
Qed.

Lemma dto_wf_ok d : dto_wf d = true -> dto_ok d.
Proof.
  unfold dto_wf. intro H. apply andb_true_iff in H. destruct H as [_ H]. rewrite forallb_forall in H.
  intros pid ps Hin. specialize (H _ Hin). cbn [fst snd] in H. apply andb_true_iff in H. destruct H as [H1 H2].
  split; [apply nodupN_NoDup; exact H1|]. rewrite forallb_forall in H2. intros p Hp. specialize (H2 p Hp). lia.
Qed.

Theorem c26_model_agreement_implies_property : forall c,
  Exec.hist_ok (c_ops c) = true -> check_case c = true ->
  forall o, In o (c_obs c) -> Forall2 res_ok o (spec_run (c_log2 c) (fun _ _ => None) (c_ops c)).
Proof.
  intros c Hh Hc o Hin. rewrite (check_case_obs c Hc o Hin). unfold model_results.
  pose proof (c26_refines_map (c_log2 c) (map (fun x => (id_oracle, x)) (c_ops c))) as R.
  rewrite map_map in R. cbn [snd] in R. rewrite map_id in R. apply R.
  unfold Exec.hist_ok in Hh. rewrite forallb_forall in Hh.
  apply Forall_forall. intros [o' x] Hx. apply in_map_iff in Hx. destruct Hx as [y [Hy Hiny]]. inversion Hy; subst.
  cbn [fst snd]. split; [apply id_oracle_valid|]. specialize (Hh _ Hiny).
  destruct x; cbn [op_ok]; try exact I. apply dto_wf_ok. exact Hh.
Qed.
Print Assumptions c26_model_agreement_implies_property.
