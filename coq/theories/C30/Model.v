(** C30 — model of noc/networking/networkconnector (connector.go node lists,
    floydwarshall.go) and noc/networking/mesh/mesh_routing_table.go (FindPort).

    Nodes of one network are numbered as [createRoutingNodeList] orders them:
    devices first (creation order), then switches.  A node's remote list is the
    list of the indices of its remote nodes, in creation order; for a switch the
    position of a remote in that list is the index of the local switch port
    ("Port[idx]") that the link uses.  An index [>= n] stands for a remote node
    that is not part of the node list (a stale device of an earlier network in
    the pre-fix connector).  A Go panic (index out of range, nil dereference) is
    the outcome [None].  Distances are Go [uint32]; the model uses unbounded
    naturals (no wrap for fewer than 2^29 nodes, stated as an assumption). *)
From Akita Require Import Lib.Base.

(** * Floyd–Warshall with next hop, exactly as coded *)

(** a next hop = (position of the Remote in the source's remote list, remote node) *)
Definition hop := (nat * nat)%type.
Definition cell := (nat * option hop)%type.       (* distance, nextHop (None = nil) *)
Definition table := list (list cell).

(** [uint32(2 * len(nodes))] *)
Definition inf (n : nat) : nat := 2 * n.

(** [findRemote]: the first remote whose node is [t] *)
Fixpoint find_remote_from (p : nat) (l : list nat) (t : nat) : option hop :=
  match l with
  | [] => None
  | v :: r => if v =? t then Some (p, v) else find_remote_from (S p) r t
  end.
Definition find_remote (l : list nat) (t : nat) : option hop := find_remote_from 0 l t.

Definition get (t : table) (i j : nat) : cell := nth j (nth i t []) (0, None).

Fixpoint upd {A} (l : list A) (i : nat) (x : A) : list A :=
  match l, i with
  | [], _ => []
  | _ :: r, O => x :: r
  | y :: r, S i' => y :: upd r i' x
  end.

Definition set (t : table) (i j : nat) (c : cell) : table :=
  upd t i (upd (nth i t []) j c).

(** [floydWarshallInit]: cell (i,j).  The diagonal takes [&remotes[0]]. *)
Definition init_cell (g : list (list nat)) (n i j : nat) : cell :=
  let rem := nth i g [] in
  if i =? j then (0, match rem with v :: _ => Some (0, v) | [] => None end)
  else match find_remote rem j with
       | Some h => (1, Some h)
       | None => (inf n, None)
       end.

Definition is_nil {A} (l : list A) : bool := match l with [] => true | _ => false end.

(** [remotes[0]] of a node without remotes is an index-out-of-range panic. *)
Definition fw_init (g : list (list nat)) : option table :=
  let n := length g in
  if forallb (fun r => negb (is_nil r)) g
  then Some (map (fun i => map (fun j => init_cell g n i j) (seq 0 n)) (seq 0 n))
  else None.

(** loop body: [if newDist < originalDist { distance = newDist; nextHop = table[i][k].nextHop }] *)
Definition fw_body (k i : nat) (t : table) (j : nat) : table :=
  let original := fst (get t i j) in
  let newd := fst (get t i k) + fst (get t k j) in
  if newd <? original then set t i j (newd, snd (get t i k)) else t.

Definition fw_row (n k : nat) (t : table) (i : nat) : table :=
  fold_left (fw_body k i) (seq 0 n) t.

Definition fw_stage (n : nat) (t : table) (k : nat) : table :=
  fold_left (fw_row n k) (seq 0 n) t.

(** [floydWarshall]: in-place triple loop, k outermost *)
Definition fw_loop (n : nat) (t : table) : table :=
  fold_left (fw_stage n) (seq 0 n) t.

Definition floyd_warshall (g : list (list nat)) : option table :=
  match fw_init g with
  | Some t => Some (fw_loop (length g) t)
  | None => None
  end.

Definition dist (t : table) (i j : nat) : nat := fst (get t i j).
Definition next (t : table) (i j : nat) : option hop := snd (get t i j).

(** [tableToRoute]: for every switch row (indices [nd .. nd+ns-1]) and device
    column ([0 .. nd-1]) the local port of the next hop; a nil next hop is a
    nil-pointer panic. *)
Fixpoint all_some {A} (l : list (option A)) : option (list A) :=
  match l with
  | [] => Some []
  | None :: _ => None
  | Some x :: r => match all_some r with Some r' => Some (x :: r') | None => None end
  end.

Definition routes := list (list nat).    (* per switch, per device: local port index *)

Definition table_to_route (nd ns : nat) (t : table) : option routes :=
  all_some (map (fun s =>
    all_some (map (fun d => match next t (nd + s) d with
                            | Some (p, _) => Some p
                            | None => None
                            end) (seq 0 nd))) (seq 0 ns)).

(** * The connector *)

Inductive nref := RDev (d : nat) | RSw (s : nat).

Record conn := mk_conn {
  c_sw : list (list nref);            (* remotes of every switch; position = switch port index *)
  c_dev : list (option nat * nat) }.  (* per device: its switch (None = a switch of an earlier network, stale) and its number of ports *)

Definition conn_empty : conn := mk_conn [] [].

Inductive op :=
| AddSwitch
| ConnectDevice (sw nports : nat)
| ConnectSwitches (a b : nat).

(** [NewNetwork].  Fixed code: [c.switches = nil; c.devices = nil].  Before the
    fix [c.devices] was kept: its device nodes still point at the switches of
    the earlier network. *)
Definition new_network (fixed : bool) (c : conn) : conn :=
  if fixed then conn_empty else mk_conn [] (map (fun d => (None, snd d)) (c_dev c)).

Definition app_at {A} (l : list (list A)) (i : nat) (x : A) : list (list A) :=
  upd l i (nth i l [] ++ [x]).

Definition apply_op (c : conn) (o : op) : option conn :=
  match o with
  | AddSwitch => Some (mk_conn (c_sw c ++ [[]]) (c_dev c))
  | ConnectDevice s np =>
      if s <? length (c_sw c)
      then Some (mk_conn (app_at (c_sw c) s (RDev (length (c_dev c)))) (c_dev c ++ [(Some s, np)]))
      else None                                   (* c.switches[switchID]: index out of range *)
  | ConnectSwitches a b =>
      if (a <? length (c_sw c)) && (b <? length (c_sw c))
      then Some (mk_conn (app_at (app_at (c_sw c) a (RSw b)) b (RSw a)) (c_dev c))
      else None
  end.

(** returns the connector state and whether every call returned; a call that
    panics does so before mutating anything, and the caller stops there *)
Fixpoint apply_ops (c : conn) (os : list op) : conn * bool :=
  match os with
  | [] => (c, true)
  | o :: r => match apply_op c o with Some c' => apply_ops c' r | None => (c, false) end
  end.

(** [createRoutingNodeList] + [ListRemotes] as index lists *)
Definition graph_of (c : conn) : list (list nat) :=
  let nd := length (c_dev c) in
  let ns := length (c_sw c) in
  map (fun d => match fst d with Some s => [nd + s] | None => [nd + ns] end) (c_dev c) ++
  map (map (fun r => match r with RDev d => d | RSw s => nd + s end)) (c_sw c).

(** [EstablishRoute] with the Floyd–Warshall router *)
Definition establish_route (c : conn) : option routes :=
  match floyd_warshall (graph_of c) with
  | Some t => table_to_route (length (c_dev c)) (length (c_sw c)) t
  | None => None
  end.

(** one network on a connector in state [c]: NewNetwork; ops; EstablishRoute.
    Returns the connector afterwards, the routes (None = panic somewhere) *)
Definition build_network (fixed : bool) (c : conn) (os : list op) : conn * option routes :=
  let '(c1, ok) := apply_ops (new_network fixed c) os in
  (c1, if ok then establish_route c1 else None).

(** a sequence of networks on one connector *)
Fixpoint build_networks (fixed : bool) (c : conn) (nets : list (list op)) : list (option routes) :=
  match nets with
  | [] => []
  | os :: r => let '(c', out) := build_network fixed c os in out :: build_networks fixed c' r
  end.

(** * Following the tables hop by hop *)

(** from switch [s] towards device [d]: the node reached through the port the
    table names.  [sw_rem] = remote lists of the switches. *)
Definition step_route (sw_rem : list (list nref)) (rt : routes) (s d : nat) : option nref :=
  match nth_error rt s with
  | Some row => match nth_error row d with
                | Some p => nth_error (nth s sw_rem []) p
                | None => None
                end
  | None => None
  end.

(** walk from switch [s]; result: the switches visited (including [s]) and
    whether device [d] was reached within [fuel] hops *)
Fixpoint follow (sw_rem : list (list nref)) (rt : routes) (fuel s d : nat) : list nat * bool :=
  match fuel with
  | O => ([s], false)
  | S f => match step_route sw_rem rt s d with
           | Some (RDev d') => ([s], d' =? d)
           | Some (RSw s') => let '(p, ok) := follow sw_rem rt f s' d in (s :: p, ok)
           | None => ([s], false)
           end
  end.

(** * Mesh dimension-ordered routing ([meshRoutingTable.FindPort]) *)

Local Open Scope Z_scope.

Inductive dir := Front | Back | Top | Bottom | Left | Right | Local.

Definition coord := (Z * Z * Z)%type.

Definition mesh_find_port (cur dst : coord) : dir :=
  let '(x, y, z) := cur in
  let '(dx, dy, dz) := dst in
  if dz <? z then Front
  else if z <? dz then Back
  else if dy <? y then Top
  else if y <? dy then Bottom
  else if dx <? x then Left
  else if x <? dx then Right
  else Local.

(** the switch behind each port, as [createLinks] wires them *)
Definition mesh_move (cur : coord) (d : dir) : coord :=
  let '(x, y, z) := cur in
  match d with
  | Front => (x, y, z - 1)
  | Back => (x, y, z + 1)
  | Top => (x, y - 1, z)
  | Bottom => (x, y + 1, z)
  | Left => (x - 1, y, z)
  | Right => (x + 1, y, z)
  | Local => (x, y, z)
  end.

Definition manhattan (a b : coord) : Z :=
  let '(x, y, z) := a in
  let '(dx, dy, dz) := b in
  Z.abs (x - dx) + Z.abs (y - dy) + Z.abs (z - dz).

(** switches visited after [cur] until the local port is chosen *)
Fixpoint mesh_route (fuel : nat) (cur dst : coord) : option (list coord) :=
  match mesh_find_port cur dst with
  | Local => Some []
  | d => match fuel with
         | O => None
         | S f => match mesh_route f (mesh_move cur d) dst with
                  | Some p => Some (mesh_move cur d :: p)
                  | None => None
                  end
         end
  end.

