(** C30 — case evaluators for the correspondence check. *)
From Akita Require Import Lib.Base C30.Model.

(** what the harness reads back from one REAL network after EstablishRoute:
    for every switch and every switch port the owner of the remote port
    (State.PortComplexes[i].RemotePort), and for every switch, device and device
    port the index of the local port that routing.Table.FindPort returns. *)
Record obsnet := mk_obsnet {
  o_rem : list (list nref);
  o_routes : list (list (list nat)) }.

Record meshnet := mk_meshnet {
  m_tiles : list coord;                       (* AddTile locations, in order *)
  m_pairs : list (coord * coord);             (* (source switch, destination tile) pairs walked *)
  m_paths : list (option (list coord) * bool) (* switches visited after the source; reached the endpoint owning the port *) }.

(** The harness prints cases in a compact numeric form (N literals only, which
    Coq parses quickly); [decode] turns them into the structures above.
    A switch-port owner is [2*idx] for a device and [2*idx+1] for a switch; a
    coordinate is [x + 64*y + 4096*z]. *)
Inductive rop := RA | RD (s p : N) | RL (a b : N).
Record robs := mk_robs { ro_rem : list (list N); ro_routes : list (list (list N)) }.
Record rmesh := mk_rmesh {
  rm_tiles : list N; rm_src : list N; rm_dst : list N;
  rm_paths : list (option (list N)); rm_ok : list bool }.

Inductive rcase :=
| RConn (nets : list (list rop)) (reused fresh : list (option robs))
| RMesh (nets : list rmesh).

Inductive dcase :=
| ConnCase (nets : list (list op)) (reused fresh : list (option obsnet))
| MeshCase (nets : list meshnet).

Definition case := rcase.

Definition dec_op (o : rop) : op :=
  match o with
  | RA => AddSwitch
  | RD s p => ConnectDevice (N.to_nat s) (N.to_nat p)
  | RL a b => ConnectSwitches (N.to_nat a) (N.to_nat b)
  end.

Definition dec_nref (x : N) : nref :=
  if N.odd x then RSw (N.to_nat (x / 2)) else RDev (N.to_nat (x / 2)).

Definition dec_obs (o : robs) : obsnet :=
  mk_obsnet (map (map dec_nref) (ro_rem o)) (map (map (map N.to_nat)) (ro_routes o)).

Definition dec_coord (c : N) : coord :=
  (Z.of_N (c mod 64), Z.of_N ((c / 64) mod 64), Z.of_N (c / 4096)).

Definition dec_mesh (m : rmesh) : meshnet :=
  mk_meshnet (map dec_coord (rm_tiles m))
             (combine (map dec_coord (rm_src m)) (map dec_coord (rm_dst m)))
             (combine (map (option_map (map dec_coord)) (rm_paths m)) (rm_ok m)).

Definition decode (c : rcase) : dcase :=
  match c with
  | RConn nets reused fresh =>
      ConnCase (map (map dec_op) nets) (map (option_map dec_obs) reused) (map (option_map dec_obs) fresh)
  | RMesh nets => MeshCase (map dec_mesh nets)
  end.

(** ** equality tests *)
Definition nref_eqb (a b : nref) : bool :=
  match a, b with
  | RDev x, RDev y => x =? y
  | RSw x, RSw y => x =? y
  | _, _ => false
  end.

Definition obsnet_eqb (a b : obsnet) : bool :=
  list_eqb (list_eqb nref_eqb) (o_rem a) (o_rem b) &&
  list_eqb (list_eqb (list_eqb Nat.eqb)) (o_routes a) (o_routes b).

Definition coord_eqb (a b : coord) : bool :=
  let '(x, y, z) := a in let '(x', y', z') := b in
  (x =? x')%Z && (y =? y')%Z && (z =? z')%Z.

(** ** the model's prediction of an observation *)
Definition expand (c : conn) (rt : routes) : list (list (list nat)) :=
  map (fun row => map (fun pd => repeat (fst pd) (snd (snd pd))) (combine row (c_dev c))) rt.

Definition predict (r : conn * option routes) : option obsnet :=
  match snd r with
  | Some rt => Some (mk_obsnet (c_sw (fst r)) (expand (fst r) rt))
  | None => None
  end.

Fixpoint predict_seq (c : conn) (nets : list (list op)) : list (option obsnet) :=
  match nets with
  | [] => []
  | os :: r => let res := build_network true c os in predict res :: predict_seq (fst res) r
  end.

Definition predict_fresh (nets : list (list op)) : list (option obsnet) :=
  map (fun os => predict (build_network true conn_empty os)) nets.

(** grid size as [updateSize] computes it *)
Definition mesh_size (tiles : list coord) : coord :=
  fold_left (fun s t => let '(sx, sy, sz) := s in let '(x, y, z) := t in
                        (Z.max sx (x + 1), Z.max sy (y + 1), Z.max sz (z + 1))%Z) tiles (0, 0, 0)%Z.

Definition mesh_fuel (size : coord) : nat :=
  let '(sx, sy, sz) := size in Z.to_nat (sx + sy + sz).

Definition path_eqb := opt_eqb (list_eqb coord_eqb).

Definition check_mesh (m : meshnet) : bool :=
  let fuel := mesh_fuel (mesh_size (m_tiles m)) in
  list_eqb path_eqb (map (fun p => mesh_route fuel (fst p) (snd p)) (m_pairs m)) (map fst (m_paths m)).

(** model output = implementation output *)
Definition check_dcase (c : dcase) : bool :=
  match c with
  | ConnCase nets reused fresh =>
      list_eqb (opt_eqb obsnet_eqb) (predict_seq conn_empty nets) reused &&
      list_eqb (opt_eqb obsnet_eqb) (predict_fresh nets) fresh
  | MeshCase nets => forallb check_mesh nets
  end.

(** ** the property on the observed behaviour *)

(** hop distance from every switch to device [d] by plain relaxation
    (independent of the Floyd–Warshall model) *)
Definition relax (rem : list (list nref)) (big d : nat) (dv : list nat) : list nat :=
  map (fun s => fold_left (fun acc r => match r with
                                        | RDev d' => if d' =? d then Nat.min acc 1 else acc
                                        | RSw s' => Nat.min acc (1 + nth s' dv big)
                                        end) (nth s rem []) (nth s dv big))
      (seq 0 (length rem)).

Fixpoint iter {A} (n : nat) (f : A -> A) (x : A) : A :=
  match n with O => x | S m => iter m f (f x) end.

Definition hop_dist (rem : list (list nref)) (big d : nat) : list nat :=
  iter (length rem) (relax rem big d) (repeat big (length rem)).

Fixpoint nodupb (l : list nat) : bool :=
  match l with [] => true | x :: r => negb (existsb (Nat.eqb x) r) && nodupb r end.

(** what the harness prints for "no such port" *)
Definition missing : nat := 200.

(** routes restricted to device port [q] *)
Definition routes_of_port (rt : list (list (list nat))) (q : nat) : routes :=
  map (map (fun ps => nth q ps missing)) rt.

Definition walks_ok (nports : list nat) (o : obsnet) : bool :=
  let ns := length (o_rem o) in
  let nd := length nports in
  let big := 4 * (ns + nd) + 4 in
  (length (o_routes o) =? ns) &&
  forallb (fun d =>
    let dv := hop_dist (o_rem o) big d in
    forallb (fun q =>
      let rt := routes_of_port (o_routes o) q in
      forallb (fun s =>
        let '(p, ok) := follow (o_rem o) rt big s d in
        ok && nodupb p && (length p =? nth s dv big) && (nth s dv big <? big)) (seq 0 ns))
      (seq 0 (nth d nports 0)))
    (seq 0 nd).

(** the topology the calls describe: every switch has a link and reaches every device *)
Definition topology_ok (os : list op) : bool :=
  let '(c, ok) := apply_ops conn_empty os in
  let ns := length (c_sw c) in
  let nd := length (c_dev c) in
  let big := 4 * (ns + nd) + 4 in
  ok && forallb (fun r => negb (is_nil r)) (c_sw c) &&
  forallb (fun d => forallb (fun x => x <? big) (hop_dist (c_sw c) big d)) (seq 0 nd).

Definition nports_of (os : list op) : list nat :=
  map snd (c_dev (fst (apply_ops conn_empty os))).

Definition net_ok (os : list op) (o : option obsnet) : bool :=
  match o with
  | Some ob => walks_ok (nports_of os) ob
  | None => negb (topology_ok os)          (* a panic is only acceptable for a malformed / disconnected topology *)
  end.

Fixpoint nets_ok (nets : list (list op)) (obs : list (option obsnet)) : bool :=
  match nets, obs with
  | [], [] => true
  | os :: r, o :: r' => net_ok os o && nets_ok r r'
  | _, _ => false
  end.

Definition unit_step (a b : coord) : bool := (manhattan a b =? 1)%Z.

Fixpoint steps_ok (size cur : coord) (p : list coord) : bool :=
  match p with
  | [] => true
  | c :: r =>
      let '(sx, sy, sz) := size in let '(x, y, z) := c in
      unit_step cur c && (0 <=? x)%Z && (x <? sx)%Z && (0 <=? y)%Z && (y <? sy)%Z && (0 <=? z)%Z && (z <? sz)%Z &&
      steps_ok size c r
  end.

Definition mesh_pair_ok (size : coord) (pr : coord * coord) (ob : option (list coord) * bool) : bool :=
  match fst ob with
  | Some p =>
      snd ob && steps_ok size (fst pr) p &&
      (Z.of_nat (length p) =? manhattan (fst pr) (snd pr))%Z &&
      coord_eqb (last p (fst pr)) (snd pr)
  | None => false
  end.

Fixpoint forallb2 {A B} (f : A -> B -> bool) (a : list A) (b : list B) : bool :=
  match a, b with
  | [], [] => true
  | x :: a', y :: b' => f x y && forallb2 f a' b'
  | _, _ => false
  end.

Definition mesh_ok (m : meshnet) : bool :=
  forallb2 (mesh_pair_ok (mesh_size (m_tiles m))) (m_pairs m) (m_paths m).

(** the property itself on the implementation's observed behaviour: reuse =
    fresh; every table walk reaches the device along a shortest path without
    repeating a switch; mesh walks take Manhattan-distance hops inside the grid *)
Definition holds_on_d (c : dcase) : bool :=
  match c with
  | ConnCase nets reused fresh =>
      list_eqb (opt_eqb obsnet_eqb) reused fresh && nets_ok nets reused
  | MeshCase nets => forallb mesh_ok nets
  end.

Definition check_case (c : case) : bool := check_dcase (decode c).
Definition holds_on (c : case) : bool :=
  holds_on_d (decode c) &&
  match c with      (* the compact lists must be aligned *)
  | RConn _ _ _ => true
  | RMesh nets => forallb (fun m => (length (rm_src m) =? length (rm_dst m)) &&
                                     (length (rm_paths m) =? length (rm_ok m)) &&
                                     (length (rm_src m) =? length (rm_paths m))) nets
  end.
