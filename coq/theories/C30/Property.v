(** C30 — routing tables give loop-free shortest routes.  Property theorems only. *)
From Akita Require Import Lib.Base C30.Model C30.ProofsMesh.

(** Mesh routing (meshRoutingTable.FindPort followed hop by hop): from every
    switch of the grid, towards every tile of the grid, the walk stays inside the
    grid, each hop goes to a grid neighbour that is exactly one step closer, and
    the local port is chosen after exactly Manhattan-distance hops, at the
    destination tile. *)
Theorem c30_mesh_manhattan : forall size cur dst fuel,
  in_box size cur -> in_box size dst -> (manhattan cur dst <= Z.of_nat fuel)%Z ->
  exists p, mesh_route fuel cur dst = Some p /\
            Z.of_nat (length p) = manhattan cur dst /\
            last p cur = dst /\ descending size cur dst p.
Proof. intros size cur dst fuel Hc Hd Hm. exact (mesh_route_spec size dst Hd fuel cur Hc Hm). Qed.
Print Assumptions c30_mesh_manhattan.

Example c30_mesh_nonvacuous :
  in_box (4, 3, 2)%Z (3, 0, 1)%Z /\ in_box (4, 3, 2)%Z (0, 2, 0)%Z /\
  mesh_route 9 (3, 0, 1)%Z (0, 2, 0)%Z =
  Some [(3, 0, 0); (3, 1, 0); (3, 2, 0); (2, 2, 0); (1, 2, 0); (0, 2, 0)]%Z.
Proof. cbn [in_box]. split; [lia|]. split; [lia|]. vm_compute. reflexivity. Qed.
