(** C30 — routing tables give loop-free shortest routes.  Property theorems only. *)
From Akita Require Import Lib.Base C30.Model C30.ProofsMesh C30.ProofsLoop C30.ProofsFW C30.ProofsConn.

(** The in-place triple loop of [floydWarshall] is the textbook functional
    recurrence: the returned table is [iterF n] of the initial cells, and the call
    does not panic iff every node has at least one remote. *)
Theorem c30_fw_is_functional : forall g t, floyd_warshall g = Some t ->
  (forall i, i < length g -> nth i g [] <> []) /\
  forall i j, i < length g -> j < length g ->
    get t i j = iterF (length g) (fun a b => init_cell g (length g) a b) i j.
Proof. intros g t H. exact (fw_functional g t H). Qed.
Print Assumptions c30_fw_is_functional.

(** For EVERY finite graph (remote lists over node indices; parallel links,
    self loops and dangling remotes allowed): the distance the router computes
    between two distinct nodes is the length of a shortest walk, or [2n] with a
    nil next hop exactly when there is no walk at all. *)
Theorem c30_fw_shortest : forall g t, floyd_warshall g = Some t ->
  forall i j, i < length g -> j < length g -> i <> j ->
    (dist t i j = inf (length g) /\ next t i j = None /\ ~ reachable g i j) \/
    (dist t i j <= length g - 1 /\ walk g (length g) i j (dist t i j) /\
     forall l, walk g (length g) i j l -> dist t i j <= l).
Proof. intros g t H. exact (fw_shortest g t H). Qed.
Print Assumptions c30_fw_shortest.

(** The next hop towards a reachable node is a neighbour, reached through the
    recorded port (position in the remote list), whose own distance is exactly
    one less. *)
Theorem c30_next_hop_descends : forall g t, floyd_warshall g = Some t ->
  forall i j, i < length g -> j < length g -> i <> j -> reachable g i j ->
  exists p v, next t i j = Some (p, v) /\ nth_error (nth i g []) p = Some v /\ v < length g /\
              dist t v j + 1 = dist t i j.
Proof. intros g t H. exact (next_hop_descends g t H). Qed.
Print Assumptions c30_next_hop_descends.

(** Following the tables hop by hop from any node reaches every reachable node
    after exactly [dist] hops (a shortest path), every hop goes to a neighbour one
    step closer, and no node is visited twice (loop-free). *)
Theorem c30_route_loop_free_shortest : forall g t, floyd_warshall g = Some t ->
  forall i j fuel, i < length g -> j < length g -> reachable g i j -> dist t i j <= fuel ->
  let p := fw_path t fuel i j in
  path_ok g t j i p /\ length p = dist t i j /\ last p i = j /\ NoDup (i :: p) /\
  (forall l, walk g (length g) i j l -> i <> j -> length p <= l).
Proof.
  intros g t H i j fuel Hi Hj Hr Hd p.
  destruct (fw_path_ok g t H j Hj fuel i Hi (or_intror Hr) Hd) as [Hp Hl]. fold p in Hp, Hl.
  split; [exact Hp|]. split; [exact Hl|]. split; [eapply path_ok_last; exact Hp|].
  split; [eapply path_ok_nodup; exact Hp|].
  intros l Hw Hne. rewrite Hl.
  destruct (fw_shortest g t H i j Hi Hj Hne) as [[_ [_ Hno]]|[_ [_ Hmin]]]; [contradiction|auto].
Qed.
Print Assumptions c30_route_loop_free_shortest.

(** The routing tables of the switches: for EVERY sequence of connector calls
    (AddSwitch / ConnectDevice / ConnectSwitches in any order, parallel links and
    self loops included) that leaves every switch able to reach every device,
    [EstablishRoute] does not panic, and following — from any switch, for any
    device — the port the switch's table names, through that switch's own port
    list, reaches the device after exactly [dist] switches (no walk in the
    topology is shorter), without visiting a switch twice. *)
Theorem c30_tables_reach_every_device : forall os c t,
  apply_ops conn_empty os = (c, true) ->
  floyd_warshall (graph_of c) = Some t ->
  (forall s d, s < length (c_sw c) -> d < length (c_dev c) ->
     reachable (graph_of c) (length (c_dev c) + s) d) ->
  exists rt, establish_route c = Some rt /\
    forall s d fuel, s < length (c_sw c) -> d < length (c_dev c) ->
      dist t (length (c_dev c) + s) d <= fuel ->
      exists path, follow (c_sw c) rt fuel s d = (path, true) /\
                   length path = dist t (length (c_dev c) + s) d /\ NoDup path /\
                   forall l, walk (graph_of c) (length (graph_of c)) (length (c_dev c) + s) d l -> length path <= l.
Proof.
  intros os c t Hops Hfw Hconn.
  assert (W : WF c) by (eapply apply_ops_wf; [exact wf_empty|exact Hops]).
  destruct (routes_exist c W t Hfw Hconn) as [rt [Hrt _]].
  exists rt. split; [unfold establish_route; rewrite Hfw; exact Hrt|].
  intros s d fuel Hs Hd Hf.
  destruct (follow_reaches c W t Hfw Hconn rt Hrt d Hd _ fuel s Hs eq_refl Hf) as [path [Hp [Hl [Hnd _]]]].
  exists path. split; [exact Hp|]. split; [exact Hl|]. split; [exact Hnd|].
  intros l Hw. rewrite Hl.
  assert (Hlen : length (graph_of c) = length (c_dev c) + length (c_sw c)) by apply g_length.
  destruct (fw_shortest _ t Hfw (length (c_dev c) + s) d ltac:(lia) ltac:(lia) ltac:(lia)) as [[_ [_ Hno]]|[_ [_ Hmin]]].
  - exfalso. apply Hno. exists l. exact Hw.
  - apply Hmin. exact Hw.
Qed.
Print Assumptions c30_tables_reach_every_device.

(** Mesh routing (meshRoutingTable.FindPort followed hop by hop): from every
    switch of the grid, towards every tile of the grid, the walk stays inside the
    grid, each hop goes to a grid neighbour that is exactly one step closer, and
    the local port is chosen after exactly Manhattan-distance hops, at the
    destination tile. *)
Theorem c30_mesh_manhattan : forall size cur dst fuel,
  in_box size cur -> in_box size dst -> (manhattan cur dst <= Z.of_nat fuel)%Z ->
  exists p, mesh_route fuel cur dst = Some p /\
            Z.of_nat (length p) = manhattan cur dst /\
            last p cur = dst /\ descending size cur dst p.
Proof. intros size cur dst fuel Hc Hd Hm. exact (mesh_route_spec size dst Hd fuel cur Hc Hm). Qed.
Print Assumptions c30_mesh_manhattan.

(** A connector reused for a new network behaves exactly like a fresh one, for
    every earlier history: the routes of every network of a sequence are those a
    fresh connector computes for that network alone. *)
Theorem c30_reuse_equals_fresh : forall c nets,
  build_networks true c nets = map (fun os => snd (build_network true conn_empty os)) nets.
Proof.
  assert (Hone : forall c os, build_network true c os = build_network true conn_empty os) by reflexivity.
  intros c nets. revert c. induction nets as [|os r IH]; intro c; [reflexivity|].
  cbn [build_networks map]. rewrite (Hone c os).
  destruct (build_network true conn_empty os) as [c' out]. cbn [snd]. f_equal. apply IH.
Qed.
Print Assumptions c30_reuse_equals_fresh.

(** Regression: before fix 45fd431d ([NewNetwork] kept [c.devices]) the second
    network built with one connector panicked in [tableToRoute]. *)
Theorem c30_reuse_old_refuted :
  let net := [AddSwitch; ConnectDevice 0 1; ConnectDevice 0 1] in
  build_networks false conn_empty [net; net] = [Some [[0; 1]]; None] /\
  build_networks true conn_empty [net; net] = [Some [[0; 1]]; Some [[0; 1]]].
Proof. vm_compute. split; reflexivity. Qed.
Print Assumptions c30_reuse_old_refuted.

(** Non-vacuity: a ring of four switches with two devices — reachable pairs,
    a two-hop shortest route with a tie broken by the iteration order. *)
Example c30_nonvacuous :
  let ops := [AddSwitch; AddSwitch; AddSwitch; AddSwitch;
              ConnectSwitches 0 1; ConnectSwitches 1 2; ConnectSwitches 2 3; ConnectSwitches 3 0;
              ConnectDevice 0 1; ConnectDevice 2 1] in
  let c := fst (apply_ops conn_empty ops) in
  establish_route c = Some [[2; 0]; [0; 1]; [0; 2]; [1; 0]] /\
  follow (c_sw c) [[2; 0]; [0; 1]; [0; 2]; [1; 0]] 8 0 1 = ([0; 1; 2], true) /\
  exists t, floyd_warshall (graph_of c) = Some t /\ dist t 2 1 = 3 /\ fw_path t 9 2 1 = [3; 4; 1].
Proof. cbv zeta. split; [vm_compute; reflexivity|]. split; [vm_compute; reflexivity|]. eexists. split; [vm_compute; reflexivity|]. split; vm_compute; reflexivity. Qed.

Example c30_mesh_nonvacuous :
  in_box (4, 3, 2)%Z (3, 0, 1)%Z /\ in_box (4, 3, 2)%Z (0, 2, 0)%Z /\
  mesh_route 9 (3, 0, 1)%Z (0, 2, 0)%Z =
  Some [(3, 0, 0); (3, 1, 0); (3, 2, 0); (2, 2, 0); (1, 2, 0); (0, 2, 0)]%Z.
Proof. cbn [in_box]. split; [lia|]. split; [lia|]. vm_compute. reflexivity. Qed.
