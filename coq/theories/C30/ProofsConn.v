(** C30 — from the node-level Floyd–Warshall theorems to the switches' routing
    tables: in a well-formed connector whose switches all reach all devices,
    [EstablishRoute] does not panic and following the port the table of each
    switch names (through the switch's own port list) reaches the device after
    exactly [dist] switches, without visiting a switch twice. *)
From Akita Require Import Lib.Base C30.Model C30.ProofsLoop C30.ProofsFW.

Lemma nth_map_lt {A B} (f : A -> B) (l : list A) i d d' : i < length l -> nth i (map f l) d = f (nth i l d').
Proof.
  revert i. induction l as [|x l IH]; intros i Hi; [cbn in Hi; lia|].
  destruct i as [|i]; cbn [map nth]; [reflexivity|]. apply IH. cbn in Hi. lia.
Qed.

Definition enc (nd : nat) (r : nref) : nat := match r with RDev d => d | RSw s => nd + s end.

(** what [AddSwitch]/[ConnectDevice]/[ConnectSwitches] guarantee *)
Record WF (c : conn) : Prop := {
  wf_dev : forall d, d < length (c_dev c) ->
     exists s, fst (nth d (c_dev c) (None, 0)) = Some s /\ s < length (c_sw c);
  wf_sw : forall s r, s < length (c_sw c) -> In r (nth s (c_sw c) []) ->
     match r with
     | RDev d => d < length (c_dev c) /\ fst (nth d (c_dev c) (None, 0)) = Some s
     | RSw s' => s' < length (c_sw c)
     end }.

Section Conn.
  Variable c : conn.
  Hypothesis Hwf : WF c.
  Local Notation nd := (length (c_dev c)).
  Local Notation ns := (length (c_sw c)).
  Local Notation g := (graph_of c).

  Lemma g_length : length g = nd + ns.
  Proof. unfold graph_of. rewrite app_length, !map_length. reflexivity. Qed.

  Lemma g_dev d s : d < nd -> fst (nth d (c_dev c) (None, 0)) = Some s -> nth d g [] = [nd + s].
  Proof.
    intros Hd Hs. unfold graph_of. rewrite app_nth1 by (rewrite map_length; exact Hd).
    rewrite (nth_map_lt _ _ d [] (None, 0)) by exact Hd. rewrite Hs. reflexivity.
  Qed.

  Lemma g_sw s : s < ns -> nth (nd + s) g [] = map (enc nd) (nth s (c_sw c) []).
  Proof.
    intro Hs. unfold graph_of. rewrite app_nth2 by (rewrite map_length; lia).
    rewrite map_length. replace (nd + s - nd) with s by lia.
    rewrite (nth_map_lt _ _ s [] []) by exact Hs. reflexivity.
  Qed.

  Variable t : table.
  Hypothesis Hfw : floyd_warshall g = Some t.

  (** the hop a switch takes towards a device is a switch, or that very device *)
  Lemma switch_hop s d : s < ns -> d < nd -> reachable g (nd + s) d ->
    exists p r, next t (nd + s) d = Some (p, enc nd r) /\ nth_error (nth s (c_sw c) []) p = Some r /\
                dist t (enc nd r) d + 1 = dist t (nd + s) d /\
                (r = RDev d \/ exists s', r = RSw s' /\ s' < ns /\ reachable g (nd + s') d).
  Proof.
    intros Hs Hd Hr.
    assert (Hne : nd + s <> d) by lia.
    destruct (next_hop_descends g t Hfw (nd + s) d ltac:(rewrite g_length; lia) ltac:(rewrite g_length; lia) Hne Hr)
      as [p [v [A [B [C E]]]]].
    rewrite (g_sw s Hs) in B. rewrite nth_error_map in B.
    destruct (nth_error (nth s (c_sw c) []) p) as [r|] eqn:Er; [|discriminate]. cbn [option_map] in B.
    inversion B; subst v. clear B.
    exists p, r. split; [exact A|]. split; [exact Er|]. split; [exact E|].
    pose proof (wf_sw c Hwf s r Hs (nth_error_In _ _ Er)) as W.
    destruct r as [d'|s']; cbn [enc] in *.
    - destruct W as [Hd' Hsw]. destruct (Nat.eq_dec d' d) as [->|Hdd]; [left; reflexivity|exfalso].
      (* a device other than the destination: its only link leads back to [s] *)
      assert (Hfin : dist t d' d < inf (length g)).
      { destruct (fw_shortest g t Hfw (nd + s) d ltac:(rewrite g_length; lia) ltac:(rewrite g_length; lia) Hne)
          as [[_ [_ Hno]]|[Hb _]]; [contradiction|]. unfold inf. lia. }
      assert (Hr' : reachable g d' d).
      { destruct (fw_shortest g t Hfw d' d ltac:(rewrite g_length; lia) ltac:(rewrite g_length; lia) Hdd)
          as [[HI _]|[_ [Hw _]]]; [lia|]. eexists; eauto. }
      destruct (next_hop_descends g t Hfw d' d ltac:(rewrite g_length; lia) ltac:(rewrite g_length; lia) Hdd Hr')
        as [p' [v' [_ [B' [_ E']]]]].
      rewrite (g_dev d' s Hd' Hsw) in B'. destruct p' as [|p']; cbn [nth_error] in B'; [|destruct p'; discriminate].
      inversion B'; subst v'. lia.
    - right. exists s'. split; [reflexivity|]. split; [exact W|].
      assert (Hne' : nd + s' <> d) by lia.
      destruct (fw_shortest g t Hfw (nd + s) d ltac:(rewrite g_length; lia) ltac:(rewrite g_length; lia) Hne)
        as [[_ [_ Hno]]|[Hb _]]; [contradiction|].
      destruct (fw_shortest g t Hfw (nd + s') d ltac:(rewrite g_length; lia) ltac:(rewrite g_length; lia) Hne')
        as [[HI _]|[_ [Hw _]]]; [unfold inf in HI; rewrite g_length in *; lia|]. eexists; eauto.
  Qed.

  (** every switch reaches every device *)
  Hypothesis Hconn : forall s d, s < ns -> d < nd -> reachable g (nd + s) d.

  Lemma all_some_map {A B} (f : A -> option B) (l : list A) :
    (forall x, In x l -> f x <> None) ->
    exists r, all_some (map f l) = Some r /\ length r = length l /\
              forall i x, nth_error l i = Some x -> exists y, f x = Some y /\ nth_error r i = Some y.
  Proof.
    induction l as [|a l IH]; intro H.
    - exists []. cbn. split; [reflexivity|]. split; [reflexivity|]. intros [|i] x Hx; discriminate.
    - destruct (IH (fun x Hx => H x (or_intror Hx))) as [r [Hr [Hl Hn]]].
      destruct (f a) as [y|] eqn:E; [|exfalso; apply (H a); [left; reflexivity|exact E]].
      exists (y :: r). cbn [map all_some]. rewrite E, Hr. split; [reflexivity|]. split; [cbn; lia|].
      intros [|i] x Hx; cbn [nth_error] in *.
      + inversion Hx; subst. exists y. auto.
      + apply Hn. exact Hx.
  Qed.

  (** [tableToRoute] succeeds and stores, for every switch and device, the port of the next hop *)
  Lemma routes_exist : exists rt, table_to_route nd ns t = Some rt /\
    forall s d, s < ns -> d < nd ->
      exists row p v, nth_error rt s = Some row /\ nth_error row d = Some p /\ next t (nd + s) d = Some (p, v).
  Proof.
    unfold table_to_route.
    set (frow := fun s => all_some (map (fun d => match next t (nd + s) d with Some (p, _) => Some p | None => None end) (seq 0 nd))).
    assert (Hrow : forall s, s < ns -> exists row, frow s = Some row /\
               forall d, d < nd -> exists p v, nth_error row d = Some p /\ next t (nd + s) d = Some (p, v)).
    { intros s Hs. unfold frow.
      destruct (all_some_map (fun d => match next t (nd + s) d with Some (p, _) => Some p | None => None end) (seq 0 nd))
        as [row [Hr [_ Hn]]].
      - intros d Hd. apply in_seq in Hd. destruct (switch_hop s d Hs ltac:(lia) (Hconn s d Hs ltac:(lia))) as [p [r [A _]]].
        rewrite A. discriminate.
      - exists row. split; [exact Hr|]. intros d Hd.
        destruct (Hn d d) as [y [Hy Hy']]; [rewrite nth_error_nth' with (d := 0) by (rewrite seq_length; exact Hd); rewrite seq_nth by exact Hd; reflexivity|].
        destruct (next t (nd + s) d) as [[p v]|] eqn:E; [|discriminate]. inversion Hy; subst. exists y, v. auto. }
    destruct (all_some_map frow (seq 0 ns)) as [rt [Hr [_ Hn]]].
    - intros s Hs. apply in_seq in Hs. destruct (Hrow s ltac:(lia)) as [row [E _]]. rewrite E. discriminate.
    - exists rt. split; [exact Hr|]. intros s d Hs Hd.
      destruct (Hn s s) as [row [Hy Hy']]; [rewrite nth_error_nth' with (d := 0) by (rewrite seq_length; exact Hs); rewrite seq_nth by exact Hs; reflexivity|].
      destruct (Hrow s Hs) as [row' [E Hd']]. rewrite E in Hy. inversion Hy; subst row'.
      destruct (Hd' d Hd) as [p [v [A B]]]. exists row, p, v. auto.
  Qed.

  (** walking the tables: from switch [s] the device [d] is reached after exactly
      [dist] switches, all distinct *)
  Theorem follow_reaches rt : table_to_route nd ns t = Some rt ->
    forall d, d < nd -> forall k fuel s, s < ns -> dist t (nd + s) d = k -> k <= fuel ->
    exists path, follow (c_sw c) rt fuel s d = (path, true) /\ length path = k /\ NoDup path /\
                 forall x, In x path -> x < ns /\ dist t (nd + x) d <= k.
  Proof.
    intros Hrt d Hd. destruct routes_exist as [rt' [Hrt' Hent]]. rewrite Hrt in Hrt'. inversion Hrt'; subst rt'. clear Hrt'.
    induction k as [k IH] using lt_wf_ind. intros fuel s Hs Hk Hf.
    destruct (switch_hop s d Hs Hd (Hconn s d Hs Hd)) as [p [r [A [B [E Hcase]]]]].
    destruct (Hent s d Hs Hd) as [row [p' [v' [R1 [R2 R3]]]]]. rewrite A in R3. inversion R3; subst p' v'. clear R3.
    destruct fuel as [|f]; [lia|]. cbn [follow]. unfold step_route. rewrite R1, R2, B.
    destruct Hcase as [->|[s' [-> [Hs' Hr']]]].
    - rewrite Nat.eqb_refl. exists [s]. split; [reflexivity|]. cbn [enc] in E.
      rewrite (dist_diag g t Hfw d ltac:(rewrite g_length; lia)) in E.
      split; [cbn; lia|]. split; [constructor; [intros []|constructor]|]. intros x [<-|[]]. split; [exact Hs|lia].
    - cbn [enc] in E.
      destruct (IH (dist t (nd + s') d) ltac:(lia) f s' Hs' eq_refl ltac:(lia)) as [path [Hp [Hl [Hnd Hin]]]].
      rewrite Hp. exists (s :: path). split; [reflexivity|]. split; [cbn [length]; lia|].
      split; [constructor; [intro Hx; destruct (Hin s Hx); lia|exact Hnd]|].
      intros x [<-|Hx]; [split; [exact Hs|lia]|]. destruct (Hin x Hx). split; [assumption|lia].
  Qed.
End Conn.

(** * every connector built through the API is well-formed *)
Lemma app_at_length {A} (l : list (list A)) i x : length (app_at l i x) = length l.
Proof. unfold app_at. apply upd_length. Qed.

Lemma app_at_nth {A} (l : list (list A)) i x k : i < length l ->
  nth k (app_at l i x) [] = if k =? i then nth i l [] ++ [x] else nth k l [].
Proof.
  intro Hi. unfold app_at. rewrite nth_upd. assert (E : (i <? length l) = true) by (apply Nat.ltb_lt; exact Hi).
  rewrite E, andb_true_r. reflexivity.
Qed.

Lemma wf_empty : WF conn_empty.
Proof. constructor; cbn; intros; lia. Qed.

Lemma nth_snoc_lt {A} (l : list A) x k d : k < length l -> nth k (l ++ [x]) d = nth k l d.
Proof. intro H. apply app_nth1. exact H. Qed.

Lemma nth_snoc_eq {A} (l : list A) x d : nth (length l) (l ++ [x]) d = x.
Proof. rewrite app_nth2 by lia. rewrite Nat.sub_diag. reflexivity. Qed.

Lemma apply_op_wf c o c' : WF c -> apply_op c o = Some c' -> WF c'.
Proof.
  intros [W1 W2] H. destruct o as [|s np|a b]; cbn [apply_op] in H.
  - inversion H; subst. clear H. constructor; cbn [c_sw c_dev].
    + intros d Hd. destruct (W1 d Hd) as [s [E Hs]]. exists s. split; [exact E|]. rewrite app_length. cbn. lia.
    + intros s r Hs Hin. rewrite app_length in Hs. cbn [length] in Hs.
      destruct (Nat.eq_dec s (length (c_sw c))) as [->|Hne].
      * rewrite nth_snoc_eq in Hin. destruct Hin.
      * rewrite nth_snoc_lt in Hin by lia. specialize (W2 s r ltac:(lia) Hin).
        destruct r; [exact W2|]. rewrite app_length. cbn. lia.
  - destruct (s <? length (c_sw c)) eqn:E; [|discriminate]. apply Nat.ltb_lt in E.
    inversion H; subst. clear H. constructor; cbn [c_sw c_dev]; rewrite ?app_at_length.
    + intros d Hd. rewrite app_length in Hd. cbn [length] in Hd.
      destruct (Nat.eq_dec d (length (c_dev c))) as [->|Hne].
      * rewrite nth_snoc_eq. exists s. auto.
      * rewrite nth_snoc_lt by lia. apply W1. lia.
    + intros s0 r Hs0 Hin. rewrite app_at_nth in Hin by exact E.
      assert (Hold : In r (nth s0 (c_sw c) []) ->
                match r with
                | RDev d => d < length (c_dev c ++ [(Some s, np)]) /\ fst (nth d (c_dev c ++ [(Some s, np)]) (None, 0)) = Some s0
                | RSw s' => s' < length (c_sw c)
                end).
      { intro Hr. specialize (W2 s0 r Hs0 Hr). destruct r as [d|s']; [|exact W2].
        destruct W2 as [Hd Hf]. rewrite app_length. split; [cbn; lia|]. rewrite nth_snoc_lt by exact Hd. exact Hf. }
      destruct (s0 =? s) eqn:Es; [|apply Hold; exact Hin].
      apply Nat.eqb_eq in Es. subst s0. apply in_app_or in Hin. destruct Hin as [Hin|[<-|[]]]; [apply Hold; exact Hin|].
      rewrite app_length. split; [cbn; lia|]. rewrite nth_snoc_eq. reflexivity.
  - destruct ((a <? length (c_sw c)) && (b <? length (c_sw c))) eqn:E; [|discriminate].
    apply andb_true_iff in E. destruct E as [Ea Eb]. apply Nat.ltb_lt in Ea. apply Nat.ltb_lt in Eb.
    inversion H; subst. clear H. constructor; cbn [c_sw c_dev]; rewrite ?app_at_length.
    + exact W1.
    + intros s0 r Hs0 Hin. rewrite app_at_nth in Hin by (rewrite app_at_length; exact Eb).
      rewrite !app_at_nth in Hin by exact Ea.
      assert (Hmid : In r (if s0 =? a then nth a (c_sw c) [] ++ [RSw b] else nth s0 (c_sw c) []) ->
                match r with
                | RDev d => d < length (c_dev c) /\ fst (nth d (c_dev c) (None, 0)) = Some s0
                | RSw s' => s' < length (c_sw c)
                end).
      { intro Hr. destruct (s0 =? a) eqn:Esa; [|apply (W2 s0 r Hs0 Hr)].
        apply Nat.eqb_eq in Esa. subst s0. apply in_app_or in Hr. destruct Hr as [Hr|[<-|[]]]; [apply (W2 a r Hs0 Hr)|exact Eb]. }
      destruct (s0 =? b) eqn:Esb; [|apply Hmid; exact Hin].
      apply Nat.eqb_eq in Esb. subst s0. apply in_app_or in Hin. destruct Hin as [Hin|[<-|[]]]; [|exact Ea].
      apply Hmid. rewrite Nat.eqb_sym. destruct (a =? b) eqn:Eab; [apply Nat.eqb_eq in Eab; subst; rewrite Nat.eqb_refl in Hin; exact Hin|].
      rewrite Nat.eqb_sym in Eab. rewrite Eab in Hin. exact Hin.
Qed.

Lemma apply_ops_wf os : forall c c' ok, WF c -> apply_ops c os = (c', ok) -> WF c'.
Proof.
  induction os as [|o r IH]; intros c c' ok W H; cbn [apply_ops] in H; [inversion H; subst; exact W|].
  destruct (apply_op c o) as [c1|] eqn:E; [|inversion H; subst; exact W].
  eapply IH; [eapply apply_op_wf; eauto|exact H].
Qed.
