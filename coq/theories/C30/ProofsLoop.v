(** C30 — the in-place triple loop of floydWarshall computes, stage by stage, the
    functional Floyd–Warshall step [F]. *)
From Akita Require Import Lib.Base C30.Model.

(** * list-of-lists tables *)

Lemma upd_length {A} (l : list A) i x : length (upd l i x) = length l.
Proof. revert i. induction l as [|y l IH]; intros [|i]; cbn [upd length]; auto. Qed.

Lemma nth_upd {A} (l : list A) i x k d :
  nth k (upd l i x) d = if (k =? i) && (i <? length l) then x else nth k l d.
Proof.
  revert i k. induction l as [|y l IH]; intros i k; cbn [upd length].
  - destruct i, k; cbn; try reflexivity; rewrite ?andb_false_r; reflexivity.
  - destruct i as [|i], k as [|k]; cbn [nth upd]; try reflexivity.
    rewrite IH. cbn [Nat.eqb]. replace (S i <? S (length l)) with (i <? length l) by (destruct (i <? length l) eqn:E; symmetry; [apply Nat.ltb_lt; apply Nat.ltb_lt in E|apply Nat.ltb_ge; apply Nat.ltb_ge in E]; lia).
    reflexivity.
Qed.

Lemma ltb_S a b : (a <? S b) = (a <? b) || (a =? b).
Proof.
  apply eq_true_iff_eq. rewrite orb_true_iff, !Nat.ltb_lt, Nat.eqb_eq. lia.
Qed.

Lemma ltb_S_neq a b : a <> b -> (a <? S b) = (a <? b).
Proof. intro H. rewrite ltb_S. apply Nat.eqb_neq in H. rewrite H, orb_false_r. reflexivity. Qed.

Definition rect (n : nat) (t : table) : Prop :=
  length t = n /\ forall i, i < n -> length (nth i t []) = n.

Lemma rect_set n t i j c : rect n t -> rect n (set t i j c).
Proof.
  intros [H1 H2]. unfold set. split; [rewrite upd_length; exact H1|].
  intros k Hk. rewrite nth_upd. destruct ((k =? i) && (i <? length t)) eqn:E; [|apply H2; exact Hk].
  rewrite upd_length. apply andb_true_iff in E. destruct E as [E _]. apply Nat.eqb_eq in E. subst. apply H2. exact Hk.
Qed.

Lemma get_set n t i j c i' j' : rect n t -> i < n -> j < n ->
  get (set t i j c) i' j' = if (i' =? i) && (j' =? j) then c else get t i' j'.
Proof.
  intros [H1 H2] Hi Hj. unfold get, set. rewrite nth_upd.
  assert (Ei : (i <? length t) = true) by (apply Nat.ltb_lt; lia). rewrite Ei, andb_true_r.
  destruct (i' =? i) eqn:E; cbn [andb]; [|reflexivity].
  apply Nat.eqb_eq in E. subst i'. rewrite nth_upd.
  assert (Ej : (j <? length (nth i t [])) = true) by (apply Nat.ltb_lt; rewrite H2; lia).
  rewrite Ej, andb_true_r. reflexivity.
Qed.

(** * the functional stage *)
Definition F (k : nat) (T : nat -> nat -> cell) (i j : nat) : cell :=
  let newd := fst (T i k) + fst (T k j) in
  if newd <? fst (T i j) then (newd, snd (T i k)) else T i j.

Lemma F_col k T i : fst (T k k) = 0 -> F k T i k = T i k.
Proof. intro H. unfold F. rewrite H, Nat.add_0_r, Nat.ltb_irrefl. reflexivity. Qed.

Lemma F_row k T j : fst (T k k) = 0 -> F k T k j = T k j.
Proof. intro H. unfold F. rewrite H, Nat.add_0_l, Nat.ltb_irrefl. reflexivity. Qed.

Section Stage.
  Variables (n k : nat) (t0 : table).
  Hypothesis Hk : k < n.
  Hypothesis Hrect : rect n t0.
  Hypothesis Hdiag : fst (get t0 k k) = 0.

  Let T0 := get t0.

  (** cells already rewritten while row [i] has been processed up to column [jd] *)
  Definition done_cell (i jd i' j' : nat) : bool := (i' <? i) || ((i' =? i) && (j' <? jd)).

  Definition P (i jd : nat) (t : table) : Prop :=
    rect n t /\ forall i' j', i' < n -> j' < n ->
      get t i' j' = if done_cell i jd i' j' then F k T0 i' j' else T0 i' j'.

  Lemma read_col i jd t i' : P i jd t -> i' < n -> get t i' k = T0 i' k.
  Proof.
    intros [_ H] Hi. rewrite (H i' k Hi Hk). destruct (done_cell i jd i' k); [|reflexivity].
    apply F_col. exact Hdiag.
  Qed.

  Lemma read_row i jd t j' : P i jd t -> j' < n -> get t k j' = T0 k j'.
  Proof.
    intros [_ H] Hj. rewrite (H k j' Hk Hj). destruct (done_cell i jd k j'); [|reflexivity].
    apply F_row. exact Hdiag.
  Qed.

  Lemma body_step i j t : i < n -> j < n -> P i j t -> P i (S j) (fw_body k i t j).
  Proof.
    intros Hi Hj HP. pose proof HP as [Hr H]. unfold fw_body.
    assert (Eij : get t i j = T0 i j).
    { rewrite (H i j Hi Hj). unfold done_cell. rewrite Nat.ltb_irrefl, Nat.eqb_refl, Nat.ltb_irrefl. reflexivity. }
    rewrite Eij, (read_col i j t i HP Hi), (read_row i j t j HP Hj).
    destruct (fst (T0 i k) + fst (T0 k j) <? fst (T0 i j)) eqn:E.
    - split; [apply rect_set; exact Hr|]. intros i' j' Hi' Hj'.
      rewrite (get_set n t i j _ i' j' Hr Hi Hj). rewrite (H i' j' Hi' Hj'). unfold done_cell.
      destruct (i' =? i) eqn:Ei; cbn [andb].
      + apply Nat.eqb_eq in Ei. subst i'. rewrite Nat.ltb_irrefl. cbn [orb].
        destruct (j' =? j) eqn:Ej.
        * apply Nat.eqb_eq in Ej. subst j'. assert (Hlt : (j <? S j) = true) by (apply Nat.ltb_lt; lia).
          rewrite Hlt. unfold F. fold T0. rewrite E. reflexivity.
        * apply Nat.eqb_neq in Ej.
          rewrite (ltb_S_neq j' j Ej). reflexivity.
      + reflexivity.
    - split; [exact Hr|]. intros i' j' Hi' Hj'. rewrite (H i' j' Hi' Hj'). unfold done_cell.
      destruct (i' =? i) eqn:Ei; cbn [andb]; [|reflexivity].
      apply Nat.eqb_eq in Ei. subst i'. rewrite Nat.ltb_irrefl. cbn [orb].
      destruct (j' =? j) eqn:Ej.
      + apply Nat.eqb_eq in Ej. subst j'. assert (Hlt : (j <? S j) = true) by (apply Nat.ltb_lt; lia).
        rewrite Hlt, Nat.ltb_irrefl. unfold F. fold T0. rewrite E. reflexivity.
      + apply Nat.eqb_neq in Ej.
        rewrite (ltb_S_neq j' j Ej). reflexivity.
  Qed.

  Lemma row_loop i t : i < n -> P i 0 t -> forall m, m <= n ->
    P i m (fold_left (fw_body k i) (seq 0 m) t).
  Proof.
    intros Hi HP. induction m as [|m IH]; intro Hm; [exact HP|].
    rewrite seq_S, fold_left_app. cbn [fold_left Nat.add]. apply body_step; [exact Hi|lia|apply IH; lia].
  Qed.

  Definition Q (id : nat) (t : table) : Prop :=
    rect n t /\ forall i' j', i' < n -> j' < n ->
      get t i' j' = if i' <? id then F k T0 i' j' else T0 i' j'.

  Lemma row_step i t : i < n -> Q i t -> Q (S i) (fw_row n k t i).
  Proof.
    intros Hi [Hr H].
    assert (HP : P i 0 t).
    { split; [exact Hr|]. intros i' j' Hi' Hj'. rewrite (H i' j' Hi' Hj'). unfold done_cell.
      cbn [Nat.ltb Nat.leb]. rewrite andb_false_r, orb_false_r. reflexivity. }
    destruct (row_loop i t Hi HP n (le_n n)) as [Hr' H']. split; [exact Hr'|].
    intros i' j' Hi' Hj'. unfold fw_row. rewrite (H' i' j' Hi' Hj'). unfold done_cell.
    assert (Hj : (j' <? n) = true) by (apply Nat.ltb_lt; exact Hj'). rewrite Hj, andb_true_r.
    rewrite ltb_S. reflexivity.
  Qed.

  Lemma stage_loop : forall m, m <= n -> Q m (fold_left (fw_row n k) (seq 0 m) t0).
  Proof.
    induction m as [|m IH]; intro Hm.
    - split; [exact Hrect|]. intros i' j' _ _. reflexivity.
    - rewrite seq_S, fold_left_app. cbn [fold_left Nat.add]. apply row_step; [lia|apply IH; lia].
  Qed.

  (** one stage of the in-place loop = [F k] *)
  Lemma stage_spec : rect n (fw_stage n t0 k) /\
    forall i j, i < n -> j < n -> get (fw_stage n t0 k) i j = F k (get t0) i j.
  Proof.
    destruct (stage_loop n (le_n n)) as [Hr H]. split; [exact Hr|].
    intros i j Hi Hj. unfold fw_stage. rewrite (H i j Hi Hj).
    assert (E : (i <? n) = true) by (apply Nat.ltb_lt; exact Hi). rewrite E. reflexivity.
  Qed.
End Stage.

(** * all stages *)
Fixpoint iterF (m : nat) (T : nat -> nat -> cell) : nat -> nat -> cell :=
  match m with
  | O => T
  | S m' => F m' (iterF m' T)
  end.

Lemma F_ext n k T T' i j : k < n -> i < n -> j < n ->
  (forall a b, a < n -> b < n -> T a b = T' a b) -> F k T i j = F k T' i j.
Proof. intros Hk Hi Hj H. unfold F. rewrite !H by assumption. reflexivity. Qed.

Lemma iterF_ext n m T T' : m <= n ->
  (forall a b, a < n -> b < n -> T a b = T' a b) ->
  forall i j, i < n -> j < n -> iterF m T i j = iterF m T' i j.
Proof.
  intros Hm H. induction m as [|m IH]; intros i j Hi Hj; cbn [iterF]; [apply H; assumption|].
  apply (F_ext n); try lia. intros a b Ha Hb. apply IH; [lia|assumption|assumption].
Qed.

Lemma F_diag k T i : fst (T i i) = 0 -> fst (F k T i i) = 0.
Proof. intro H. unfold F. rewrite H. cbn. exact H. Qed.

Lemma iterF_diag m T i : fst (T i i) = 0 -> fst (iterF m T i i) = 0.
Proof. intro H. induction m as [|m IH]; cbn [iterF]; [exact H|apply F_diag; exact IH]. Qed.

Lemma loop_spec n t0 : rect n t0 -> (forall i, i < n -> fst (get t0 i i) = 0) ->
  forall m, m <= n ->
    rect n (fold_left (fw_stage n) (seq 0 m) t0) /\
    forall i j, i < n -> j < n ->
      get (fold_left (fw_stage n) (seq 0 m) t0) i j = iterF m (get t0) i j.
Proof.
  intros Hr Hd. induction m as [|m IH]; intro Hm.
  - split; [exact Hr|]. intros; reflexivity.
  - destruct (IH ltac:(lia)) as [Hr' H']. rewrite seq_S, fold_left_app. cbn [fold_left Nat.add iterF].
    set (t := fold_left (fw_stage n) (seq 0 m) t0) in *.
    assert (Hdk : fst (get t m m) = 0).
    { rewrite H' by lia. apply iterF_diag. apply Hd. lia. }
    destruct (stage_spec n m t ltac:(lia) Hr' Hdk) as [Hr2 H2]. split; [exact Hr2|].
    intros i j Hi Hj. rewrite (H2 i j Hi Hj). apply (F_ext n); try lia. intros a b Ha Hb. apply H'; assumption.
Qed.

(** * initialisation *)
Lemma nth_map_seq' {A} (f : nat -> A) n : forall s i d, i < n -> nth i (map f (seq s n)) d = f (s + i).
Proof.
  induction n as [|n IH]; intros s i d Hi; [lia|]. cbn [seq map]. destruct i as [|i]; cbn [nth].
  - rewrite Nat.add_0_r. reflexivity.
  - rewrite IH by lia. f_equal. lia.
Qed.

Lemma nth_map_seq {A} (f : nat -> A) n i d : i < n -> nth i (map f (seq 0 n)) d = f i.
Proof. intro H. rewrite nth_map_seq' by exact H. reflexivity. Qed.

Lemma forallb_nonnil (g : list (list nat)) : forallb (fun r => negb (is_nil r)) g = true ->
  forall i, i < length g -> nth i g [] <> [].
Proof.
  intros H i Hi E. rewrite forallb_forall in H. specialize (H (nth i g []) (nth_In g [] Hi)).
  rewrite E in H. discriminate.
Qed.

Lemma init_spec g t0 : fw_init g = Some t0 ->
  rect (length g) t0 /\
  (forall i j, i < length g -> j < length g -> get t0 i j = init_cell g (length g) i j) /\
  (forall i, i < length g -> nth i g [] <> []).
Proof.
  unfold fw_init. destruct (forallb (fun r => negb (is_nil r)) g) eqn:E; [|discriminate].
  intro H. inversion H; subst. clear H. set (n := length g).
  assert (Hrow : forall i, i < n ->
            nth i (map (fun i => map (fun j => init_cell g n i j) (seq 0 n)) (seq 0 n)) [] =
            map (fun j => init_cell g n i j) (seq 0 n)).
  { intros i Hi. apply (nth_map_seq (fun i => map (fun j => init_cell g n i j) (seq 0 n))). exact Hi. }
  split; [|split].
  - split; [rewrite map_length, seq_length; reflexivity|].
    intros i Hi. rewrite Hrow by exact Hi. rewrite map_length, seq_length. reflexivity.
  - intros i j Hi Hj. unfold get. rewrite Hrow by exact Hi. apply (nth_map_seq (fun j => init_cell g n i j)). exact Hj.
  - apply forallb_nonnil. exact E.
Qed.

(** the table computed by [floyd_warshall] is [iterF n] of the initial cells *)
Theorem fw_functional g t : floyd_warshall g = Some t ->
  let n := length g in
  (forall i, i < n -> nth i g [] <> []) /\
  forall i j, i < n -> j < n -> get t i j = iterF n (fun a b => init_cell g n a b) i j.
Proof.
  unfold floyd_warshall. destruct (fw_init g) as [t0|] eqn:E; [|discriminate].
  intro H. inversion H; subst. clear H. cbn zeta.
  destruct (init_spec g t0 E) as [Hr [Hg Hne]]. split; [exact Hne|].
  assert (Hd : forall i, i < length g -> fst (get t0 i i) = 0).
  { intros i Hi. rewrite Hg by exact Hi. unfold init_cell. rewrite Nat.eqb_refl. reflexivity. }
  destruct (loop_spec (length g) t0 Hr Hd (length g) (le_n _)) as [_ H].
  intros i j Hi Hj. unfold fw_loop. rewrite (H i j Hi Hj).
  apply (iterF_ext (length g)); auto.
Qed.
