(** C30 — Floyd–Warshall with next hop: after stage [k] every cell holds the
    length of a shortest walk whose intermediate nodes are all [< k], and the
    next hop starts such a walk.  After the last stage: graph distance, and the
    next hop is a neighbour exactly one step closer. *)
From Akita Require Import Lib.Base C30.Model C30.ProofsLoop.

(** * findRemote *)
Lemma find_remote_from_spec l t p0 p v : find_remote_from p0 l t = Some (p, v) ->
  v = t /\ p0 <= p /\ nth_error l (p - p0) = Some t.
Proof.
  revert p0. induction l as [|x l IH]; intros p0 H; [discriminate|]. cbn [find_remote_from] in H.
  destruct (x =? t) eqn:E.
  - inversion H; subst. apply Nat.eqb_eq in E. subst. rewrite Nat.sub_diag. cbn. auto.
  - destruct (IH _ H) as [H1 [H2 H3]]. split; [exact H1|]. split; [lia|].
    replace (p - p0) with (S (p - S p0)) by lia. cbn [nth_error]. exact H3.
Qed.

Lemma find_remote_spec l t p v : find_remote l t = Some (p, v) -> v = t /\ nth_error l p = Some t.
Proof.
  intro H. destruct (find_remote_from_spec l t 0 p v H) as [H1 [_ H3]]. rewrite Nat.sub_0_r in H3. auto.
Qed.

Lemma find_remote_from_none l t p0 : find_remote_from p0 l t = None -> ~ In t l.
Proof.
  revert p0. induction l as [|x l IH]; intros p0 H; [intros []|]. cbn [find_remote_from] in H.
  destruct (x =? t) eqn:E; [discriminate|]. apply Nat.eqb_neq in E. intros [Hh|Hh]; [auto|]. eapply IH; eauto.
Qed.

Lemma find_remote_from_some l t p0 : In t l -> exists h, find_remote_from p0 l t = Some h.
Proof.
  revert p0. induction l as [|x l IH]; intros p0 H; [destruct H|]. cbn [find_remote_from].
  destruct (x =? t) eqn:E; [eexists; reflexivity|]. apply Nat.eqb_neq in E.
  destruct H as [Hh|Hh]; [contradiction|]. apply IH. exact Hh.
Qed.

Lemma NoDup_app_r {A} (a b : list A) : NoDup (a ++ b) -> NoDup b.
Proof. induction a as [|x a IH]; cbn [app]; intro H; [exact H|]. inversion H; subst. apply IH. assumption. Qed.

Section Graph.
  Variable g : list (list nat).
  Let n := length g.

  (** a link from [i] to [j]: [j] occurs in [i]'s remote list *)
  Definition adj (i j : nat) : Prop := In j (nth i g []).

  (** a walk from [i] to [j] of [l >= 1] links whose intermediate nodes are all [< k] *)
  Inductive walk (k : nat) : nat -> nat -> nat -> Prop :=
  | walk_edge i j : adj i j -> walk k i j 1
  | walk_step i v j l : adj i v -> v < k -> walk k v j l -> walk k i j (S l).

  Lemma walk_pos k i j l : walk k i j l -> 1 <= l.
  Proof. induction 1; lia. Qed.

  Lemma walk_mono k k' i j l : k <= k' -> walk k i j l -> walk k' i j l.
  Proof. intros Hk H. induction H; [apply walk_edge; assumption|eapply walk_step; eauto; lia]. Qed.

  Lemma walk_app k i m j a b : walk k i m a -> m < k -> walk k m j b -> walk k i j (a + b).
  Proof.
    intros H Hm Hb. induction H as [i m He|i v m l He Hv Hw IH].
    - cbn. eapply walk_step; eauto.
    - cbn. eapply walk_step; eauto.
  Qed.

  Lemma walk_zero i j l : walk 0 i j l -> l = 1 /\ adj i j.
  Proof. intro H. inversion H; subst; [auto|lia]. Qed.

  (** a walk that may pass through [k] either avoids it or splits at it *)
  Lemma walk_split k i j l : walk (S k) i j l ->
    walk k i j l \/ exists a b, walk k i k a /\ walk k k j b /\ a + b <= l.
  Proof.
    induction 1 as [i j He|i v j l He Hv Hw IH].
    - left. apply walk_edge. exact He.
    - destruct (Nat.eq_dec v k) as [->|Hne].
      + right. destruct IH as [IH|[a [b [Ha [Hb Hab]]]]].
        * exists 1, l. split; [apply walk_edge; exact He|]. split; [exact IH|lia].
        * exists 1, b. split; [apply walk_edge; exact He|]. split; [exact Hb|lia].
      + assert (Hv' : v < k) by lia. destruct IH as [IH|[a [b [Ha [Hb Hab]]]]].
        * left. eapply walk_step; eauto.
        * right. exists (S a), b. split; [eapply walk_step; eauto|]. split; [exact Hb|lia].
  Qed.

  (** ** shortcutting: a walk between distinct nodes can be taken of length <= n-1 *)
  Fixpoint chain (i : nat) (p : list nat) (j : nat) : Prop :=
    match p with
    | [] => adj i j
    | v :: r => adj i v /\ chain v r j
    end.

  Lemma walk_chain k i j l : walk k i j l ->
    exists p, chain i p j /\ Forall (fun v => v < k) p /\ S (length p) = l.
  Proof.
    induction 1 as [i j He|i v j l He Hv Hw [p [Hc [Hf Hl]]]].
    - exists []. cbn. auto.
    - exists (v :: p). cbn [chain length]. split; [auto|]. split; [constructor; assumption|lia].
  Qed.

  Lemma chain_walk k p : forall i j, chain i p j -> Forall (fun v => v < k) p -> walk k i j (S (length p)).
  Proof.
    induction p as [|v r IH]; intros i j Hc Hf; cbn [chain length] in *.
    - apply walk_edge. exact Hc.
    - destruct Hc as [He Hc]. inversion Hf; subst. eapply walk_step; eauto.
  Qed.

  Lemma chain_suffix a : forall i x b j, chain i (a ++ x :: b) j -> chain x b j.
  Proof.
    induction a as [|y a IH]; intros i x b j H; cbn [app chain] in H; [tauto|].
    destruct H as [_ H]. eapply IH. exact H.
  Qed.

  (** a chain contains a simple sub-chain that avoids both end points *)
  Lemma chain_simple p : forall i j, chain i p j ->
    exists q, chain i q j /\ incl q p /\ NoDup q /\ ~ In i q /\ ~ In j q.
  Proof.
    induction p as [|v r IH]; intros i j H; cbn [chain] in H.
    - exists []. cbn [chain]. repeat split; auto using incl_nil_l, NoDup_nil.
    - destruct H as [He Hc].
      destruct (Nat.eq_dec v j) as [->|Hvj].
      { exists []. cbn [chain]. repeat split; auto using incl_nil_l, NoDup_nil. }
      destruct (Nat.eq_dec v i) as [->|Hvi].
      { destruct (IH _ _ Hc) as [q [H1 [H2 [H3 [H4 H5]]]]]. exists q. repeat split; auto using incl_tl. }
      destruct (IH _ _ Hc) as [q [H1 [H2 [H3 [H4 H5]]]]].
      destruct (in_dec Nat.eq_dec i q) as [Hin|Hnin].
      + apply in_split in Hin. destruct Hin as [a [b ->]].
        exists b. split; [eapply chain_suffix; exact H1|].
        split; [intros x Hx; right; apply H2; apply in_or_app; right; right; exact Hx|].
        split; [apply NoDup_app_r in H3; inversion H3; assumption|].
        split.
        * apply NoDup_app_r in H3. inversion H3; assumption.
        * intro Hx. apply H5. apply in_or_app. right. right. exact Hx.
      + exists (v :: q). cbn [chain]. split; [auto|].
        split; [intros x [<-|Hx]; [left; reflexivity|right; apply H2; exact Hx]|].
        split; [constructor; assumption|].
        split; intros [Hx|Hx]; auto.
  Qed.
End Graph.

Section Correct.
  Variable g : list (list nat).
  Let n := length g.
  Let INF := inf n.

  Lemma shortcut k i j l : walk g k i j l -> k <= n -> i < n -> j < n -> i <> j ->
    exists l', l' <= n - 1 /\ walk g k i j l'.
  Proof.
    intros Hw Hk Hi Hj Hne.
    destruct (walk_chain g k i j l Hw) as [p [Hc [Hf _]]].
    destruct (chain_simple g p i j Hc) as [q [H1 [H2 [H3 [H4 H5]]]]].
    assert (Hfq : Forall (fun v => v < k) q).
    { rewrite Forall_forall in *. intros x Hx. apply Hf. apply H2. exact Hx. }
    exists (S (length q)). split; [|apply chain_walk; assumption].
    assert (Hnd : NoDup (i :: j :: q)).
    { constructor; [intros [Hx|Hx]; [auto|contradiction]|]. constructor; assumption. }
    assert (Hincl : incl (i :: j :: q) (seq 0 n)).
    { intros x [<-|[<-|Hx]]; apply in_seq; try lia. rewrite Forall_forall in Hfq. specialize (Hfq x Hx). lia. }
    pose proof (NoDup_incl_length Hnd Hincl) as L. rewrite seq_length in L. cbn [length] in L. lia.
  Qed.

  (** ** the distance invariant after [k] stages *)
  Definition dist_ok (k : nat) (T : nat -> nat -> cell) (i j : nat) : Prop :=
    (fst (T i j) = INF /\ forall l, ~ walk g k i j l) \/
    (walk g k i j (fst (T i j)) /\ forall l, walk g k i j l -> fst (T i j) <= l).

  Definition Dist (k : nat) (T : nat -> nat -> cell) : Prop :=
    forall i j, i < n -> j < n ->
      (i = j -> fst (T i j) = 0) /\ (i <> j -> dist_ok k T i j).

  Lemma dist_bound k T i j : k <= n -> i < n -> j < n -> i <> j -> dist_ok k T i j ->
    fst (T i j) = INF \/ fst (T i j) <= n - 1.
  Proof.
    intros Hk Hi Hj Hne [[H _]|[Hw Hmin]]; [left; exact H|right].
    destruct (shortcut _ _ _ _ Hw Hk Hi Hj Hne) as [l' [Hl' Hw']]. specialize (Hmin _ Hw'). lia.
  Qed.

  Lemma dist_has_walk k T i j l : k <= n -> i < n -> j < n -> i <> j -> dist_ok k T i j ->
    walk g k i j l -> walk g k i j (fst (T i j)) /\ fst (T i j) <= l /\ fst (T i j) <= n - 1.
  Proof.
    intros Hk Hi Hj Hne [[_ Hno]|[Hw Hmin]] Hl; [exfalso; eapply Hno; eauto|].
    split; [exact Hw|]. split; [apply Hmin; exact Hl|].
    destruct (shortcut _ _ _ _ Hw Hk Hi Hj Hne) as [l' [Hl' Hw']]. specialize (Hmin _ Hw'). lia.
  Qed.

  Lemma dist_step k T : k < n -> Dist k T -> Dist (S k) (F k T).
  Proof.
    intros Hk HD i j Hi Hj. split.
    - intros <-. apply F_diag. apply (HD i i Hi Hi). reflexivity.
    - intro Hne.
      assert (Hkk : fst (T k k) = 0) by (apply (HD k k Hk Hk); reflexivity).
      destruct (Nat.eq_dec i k) as [->|Hik].
      { (* row k does not change *)
        unfold dist_ok. rewrite (F_row k T j Hkk).
        destruct (proj2 (HD k j Hk Hj) Hne) as [[HI Hno]|[Hw Hmin]].
        - left. split; [exact HI|]. intros l Hl. destruct (walk_split g k k j l Hl) as [H|[a [b [_ [Hb _]]]]]; eapply Hno; eauto.
        - right. split; [eapply walk_mono; [|exact Hw]; lia|].
          intros l Hl. destruct (walk_split g k k j l Hl) as [H|[a [b [_ [Hb Hab]]]]]; [auto|].
          specialize (Hmin _ Hb). lia. }
      destruct (Nat.eq_dec j k) as [->|Hjk].
      { unfold dist_ok. rewrite (F_col k T i Hkk).
        destruct (proj2 (HD i k Hi Hk) Hne) as [[HI Hno]|[Hw Hmin]].
        - left. split; [exact HI|]. intros l Hl. destruct (walk_split g k i k l Hl) as [H|[a [b [Ha _]]]]; eapply Hno; eauto.
        - right. split; [eapply walk_mono; [|exact Hw]; lia|].
          intros l Hl. destruct (walk_split g k i k l Hl) as [H|[a [b [Ha [_ Hab]]]]]; [auto|].
          specialize (Hmin _ Ha). lia. }
      pose proof (proj2 (HD i k Hi Hk) Hik) as DA.
      pose proof (proj2 (HD k j Hk Hj) (not_eq_sym Hjk)) as DB.
      pose proof (proj2 (HD i j Hi Hj) Hne) as DC.
      pose proof (dist_bound k T i k ltac:(lia) Hi Hk Hik DA) as BA.
      pose proof (dist_bound k T k j ltac:(lia) Hk Hj (not_eq_sym Hjk) DB) as BB.
      pose proof (dist_bound k T i j ltac:(lia) Hi Hj Hne DC) as BC.
      assert (HINF : INF = 2 * n) by reflexivity.
      unfold dist_ok, F. cbn zeta.
      destruct (fst (T i k) + fst (T k j) <? fst (T i j)) eqn:E; cbn [fst].
      + apply Nat.ltb_lt in E.
        destruct DA as [[HA _]|[HwA HminA]]; [lia|]. destruct DB as [[HB _]|[HwB HminB]]; [lia|].
        right. split.
        * eapply walk_app; [eapply walk_mono; [|exact HwA]; lia|lia|eapply walk_mono; [|exact HwB]; lia].
        * intros l Hl. destruct (walk_split g k i j l Hl) as [H|[a [b [Ha [Hb Hab]]]]].
          -- destruct DC as [[_ Hno]|[_ HminC]]; [exfalso; eapply Hno; eauto|]. specialize (HminC _ H). lia.
          -- specialize (HminA _ Ha). specialize (HminB _ Hb). lia.
      + apply Nat.ltb_ge in E.
        destruct DC as [[HC Hno]|[HwC HminC]].
        * left. split; [exact HC|]. intros l Hl.
          destruct (walk_split g k i j l Hl) as [H|[a [b [Ha [Hb Hab]]]]]; [eapply Hno; eauto|].
          destruct (dist_has_walk k T i k a ltac:(lia) Hi Hk Hik DA Ha) as [_ [_ HA]].
          destruct (dist_has_walk k T k j b ltac:(lia) Hk Hj (not_eq_sym Hjk) DB Hb) as [_ [_ HB]].
          lia.
        * right. split; [eapply walk_mono; [|exact HwC]; lia|].
          intros l Hl. destruct (walk_split g k i j l Hl) as [H|[a [b [Ha [Hb Hab]]]]]; [auto|].
          destruct (dist_has_walk k T i k a ltac:(lia) Hi Hk Hik DA Ha) as [_ [HA _]].
          destruct (dist_has_walk k T k j b ltac:(lia) Hk Hj (not_eq_sym Hjk) DB Hb) as [_ [HB _]].
          lia.
  Qed.

  (** ** the next-hop invariant *)
  Definition nh_ok (k : nat) (T : nat -> nat -> cell) (i j : nat) : Prop :=
    (fst (T i j) = INF -> snd (T i j) = None) /\
    (fst (T i j) < INF ->
     exists p v, snd (T i j) = Some (p, v) /\ find_remote (nth i g []) v = Some (p, v) /\
                 v < n /\ (v = j \/ v < k) /\ fst (T v j) + 1 = fst (T i j)).

  Definition NH (k : nat) (T : nat -> nat -> cell) : Prop :=
    forall i j, i < n -> j < n -> i <> j -> nh_ok k T i j.

  Lemma find_remote_adj i p v : find_remote (nth i g []) v = Some (p, v) -> adj g i v.
  Proof. intro H. apply find_remote_spec in H. destruct H as [_ H]. unfold adj. eapply nth_error_In. exact H. Qed.

  Lemma F_le k T i j : fst (F k T i j) <= fst (T i j).
  Proof. unfold F. destruct (fst (T i k) + fst (T k j) <? fst (T i j)) eqn:E; cbn [fst]; [apply Nat.ltb_lt in E|]; lia. Qed.

  Lemma F_le_sum k T i j : fst (F k T i j) <= fst (T i k) + fst (T k j).
  Proof. unfold F. destruct (fst (T i k) + fst (T k j) <? fst (T i j)) eqn:E; cbn [fst]; [|apply Nat.ltb_ge in E]; lia. Qed.

  (** triangle inequality at a stage: a neighbour [v] that may be used as an intermediate *)
  Lemma triangle k T i v j : k <= n -> Dist k T -> i < n -> v < n -> j < n -> i <> j -> v <> j ->
    adj g i v -> v < k -> fst (T v j) < INF -> fst (T i j) <= S (fst (T v j)).
  Proof.
    intros Hk HD Hi Hv Hj Hij Hvj He Hvk Hfin.
    destruct (proj2 (HD v j Hv Hj) Hvj) as [[HI _]|[Hw _]]; [lia|].
    assert (Hw' : walk g k i j (S (fst (T v j)))) by (eapply walk_step; eauto).
    destruct (proj2 (HD i j Hi Hj) Hij) as [[_ Hno]|[_ Hmin]]; [exfalso; eapply Hno; eauto|].
    apply Hmin. exact Hw'.
  Qed.

  Lemma nh_step k T : k < n -> Dist k T -> NH k T -> NH (S k) (F k T).
  Proof.
    intros Hk HD HN i j Hi Hj Hne.
    pose proof (dist_step k T Hk HD) as HD'.
    assert (Hkk : fst (T k k) = 0) by (apply (HD k k Hk Hk); reflexivity).
    assert (HINF : INF = 2 * n) by reflexivity.
    destruct (HN i j Hi Hj Hne) as [Hnone Hsome].
    pose proof (dist_bound k T i j ltac:(lia) Hi Hj Hne (proj2 (HD i j Hi Hj) Hne)) as BC.
    unfold nh_ok.
    destruct (fst (T i k) + fst (T k j) <? fst (T i j)) eqn:E.
    - (* the cell is rewritten: next hop of (i,k) *)
      apply Nat.ltb_lt in E.
      assert (Hik : i <> k) by (intros ->; rewrite Hkk in E; lia).
      assert (Hjk : j <> k) by (intros ->; rewrite Hkk in E; lia).
      assert (EF : F k T i j = (fst (T i k) + fst (T k j), snd (T i k))).
      { unfold F. apply Nat.ltb_lt in E. rewrite E. reflexivity. }
      rewrite EF. cbn [fst snd].
      pose proof (dist_bound k T i k ltac:(lia) Hi Hk Hik (proj2 (HD i k Hi Hk) Hik)) as BA.
      pose proof (dist_bound k T k j ltac:(lia) Hk Hj (not_eq_sym Hjk) (proj2 (HD k j Hk Hj) (not_eq_sym Hjk))) as BB.
      split; [intro; lia|]. intros _.
      destruct (HN i k Hi Hk Hik) as [_ HsA]. destruct (HsA ltac:(lia)) as [p [v [H1 [H2 [H3 [H4 H5]]]]]].
      exists p, v. split; [exact H1|]. split; [exact H2|]. split; [exact H3|].
      pose proof (find_remote_adj i p v H2) as Hadj.
      (* lengths of walks i->k and k->j are positive *)
      assert (HA1 : 1 <= fst (T i k)).
      { destruct (proj2 (HD i k Hi Hk) Hik) as [[HI _]|[Hw _]]; [lia|]. eapply walk_pos; eauto. }
      assert (HB1 : 1 <= fst (T k j)).
      { destruct (proj2 (HD k j Hk Hj) (not_eq_sym Hjk)) as [[HI _]|[Hw _]]; [lia|]. eapply walk_pos; eauto. }
      destruct (Nat.eq_dec v k) as [->|Hvk].
      + split; [right; lia|]. rewrite (F_row k T j Hkk). rewrite Hkk in H5. lia.
      + assert (Hvlt : v < k) by (destruct H4; [contradiction|assumption]).
        destruct (Nat.eq_dec v j) as [->|Hvj].
        * (* i adjacent to j: the current distance is 1, no rewrite possible *)
          exfalso. destruct (proj2 (HD i j Hi Hj) Hne) as [[_ Hno]|[_ Hmin]].
          -- eapply Hno. apply walk_edge. exact Hadj.
          -- specialize (Hmin 1 (walk_edge g k i j Hadj)). lia.
        * split; [right; lia|].
          pose proof (F_le_sum k T v j) as Hle.
          assert (Hfin : fst (F k T v j) < INF) by lia.
          pose proof (triangle (S k) (F k T) i v j ltac:(lia) HD' Hi H3 Hj Hne Hvj Hadj ltac:(lia) Hfin) as Htri.
          rewrite EF in Htri. cbn [fst] in Htri. lia.
    - (* the cell is kept *)
      apply Nat.ltb_ge in E.
      assert (EF : F k T i j = T i j).
      { unfold F. apply Nat.ltb_ge in E. rewrite E. reflexivity. }
      rewrite EF. split; [exact Hnone|]. intro Hfin.
      destruct (Hsome Hfin) as [p [v [H1 [H2 [H3 [H4 H5]]]]]].
      exists p, v. split; [exact H1|]. split; [exact H2|]. split; [exact H3|].
      split; [destruct H4; [left; assumption|right; lia]|].
      pose proof (find_remote_adj i p v H2) as Hadj.
      destruct (Nat.eq_dec v j) as [->|Hvj].
      + assert (H0 : fst (T j j) = 0) by (apply (HD j j Hj Hj); reflexivity).
        rewrite (proj1 (HD' j j Hj Hj) eq_refl). lia.
      + assert (Hvlt : v < k) by (destruct H4; [contradiction|assumption]).
        pose proof (F_le k T v j) as Hle.
        assert (Hfin' : fst (F k T v j) < INF) by lia.
        pose proof (triangle (S k) (F k T) i v j ltac:(lia) HD' Hi H3 Hj Hne Hvj Hadj ltac:(lia) Hfin') as Htri.
        rewrite EF in Htri. lia.
  Qed.

  (** ** the initial table *)
  Let T0 := fun a b => init_cell g n a b.

  Lemma T0_off i j : i <> j ->
    T0 i j = match find_remote (nth i g []) j with Some h => (1, Some h) | None => (INF, None) end.
  Proof. intro H. unfold T0, init_cell. apply Nat.eqb_neq in H. rewrite H. reflexivity. Qed.

  Lemma T0_diag i : fst (T0 i i) = 0.
  Proof. unfold T0, init_cell. rewrite Nat.eqb_refl. reflexivity. Qed.

  Lemma dist_init : Dist 0 T0.
  Proof.
    intros i j Hi Hj. split.
    - intros <-. apply T0_diag.
    - intro Hne. unfold dist_ok. rewrite (T0_off i j Hne).
      destruct (find_remote (nth i g []) j) as [[p v]|] eqn:E; cbn [fst].
      + right. pose proof (find_remote_spec _ _ _ _ E) as [-> Hn].
        split; [apply walk_edge; eapply nth_error_In; exact Hn|]. intros l Hl. eapply walk_pos; eauto.
      + left. split; [reflexivity|]. intros l Hl. apply walk_zero in Hl. destruct Hl as [_ Ha].
        unfold find_remote in E. apply find_remote_from_none in E. apply E. exact Ha.
  Qed.

  Lemma nh_init : NH 0 T0.
  Proof.
    intros i j Hi Hj Hne. unfold nh_ok. rewrite (T0_off i j Hne).
    destruct (find_remote (nth i g []) j) as [[p v]|] eqn:E; cbn [fst snd].
    - pose proof (find_remote_spec _ _ _ _ E) as [-> _].
      split; [unfold INF, inf; intro; lia|]. intros _. exists p, j.
      split; [reflexivity|]. split; [exact E|]. split; [exact Hj|]. split; [left; reflexivity|].
      rewrite T0_diag. reflexivity.
    - split; [reflexivity|]. unfold INF. lia.
  Qed.

  Lemma invariants : forall k, k <= n -> Dist k (iterF k T0) /\ NH k (iterF k T0).
  Proof.
    induction k as [|k IH]; intro Hk; cbn [iterF]; [split; [exact dist_init|exact nh_init]|].
    destruct (IH ltac:(lia)) as [HD HN]. split; [apply dist_step|apply nh_step]; auto.
  Qed.
End Correct.

(** * The computed table *)
Section Final.
  Variable g : list (list nat).
  Variable t : table.
  Hypothesis Hfw : floyd_warshall g = Some t.
  Local Notation n := (length g).

  (** reachability in the graph restricted to the nodes of the list *)
  Definition reachable (i j : nat) : Prop := exists l, walk g n i j l.

  Lemma final_invariants :
    Dist g n (get t) /\ NH g n (get t).
  Proof.
    destruct (fw_functional g t Hfw) as [_ Hget]. cbn zeta in Hget.
    destruct (invariants g n (le_n _)) as [HD HN]. split.
    - intros i j Hi Hj. destruct (HD i j Hi Hj) as [H1 H2]. unfold dist_ok in *.
      rewrite (Hget i j Hi Hj). split; assumption.
    - intros i j Hi Hj Hne. destruct (HN i j Hi Hj Hne) as [H1 H2]. unfold nh_ok in *.
      rewrite (Hget i j Hi Hj). split; [exact H1|]. intro Hfin.
      destruct (H2 Hfin) as [p [v [A [B [C [D E]]]]]]. exists p, v. repeat split; auto.
      rewrite (Hget v j C Hj). exact E.
  Qed.

  Lemma dist_diag i : i < n -> dist t i i = 0.
  Proof. intro Hi. destruct final_invariants as [HD _]. apply (HD i i Hi Hi). reflexivity. Qed.

  (** distance = length of a shortest walk; [2n] and a nil next hop iff unreachable *)
  Theorem fw_shortest i j : i < n -> j < n -> i <> j ->
    (dist t i j = inf n /\ next t i j = None /\ ~ reachable i j) \/
    (dist t i j <= n - 1 /\ walk g n i j (dist t i j) /\ forall l, walk g n i j l -> dist t i j <= l).
  Proof.
    intros Hi Hj Hne. destruct final_invariants as [HD HN]. unfold dist, next.
    pose proof (proj2 (HD i j Hi Hj) Hne) as D.
    destruct D as [[HI Hno]|[Hw Hmin]].
    - left. split; [exact HI|]. split; [apply (HN i j Hi Hj Hne); exact HI|]. intros [l Hl]. eapply Hno; eauto.
    - right. destruct (shortcut g n i j _ Hw (le_n _) Hi Hj Hne) as [l' [Hl' Hw']].
      split; [specialize (Hmin _ Hw'); lia|]. split; assumption.
  Qed.

  (** the next hop is a neighbour (through the recorded port) exactly one step closer *)
  Theorem next_hop_descends i j : i < n -> j < n -> i <> j -> reachable i j ->
    exists p v, next t i j = Some (p, v) /\ nth_error (nth i g []) p = Some v /\ v < n /\
                dist t v j + 1 = dist t i j.
  Proof.
    intros Hi Hj Hne [l Hl]. destruct final_invariants as [HD HN].
    destruct (fw_shortest i j Hi Hj Hne) as [[_ [_ Hno]]|[Hb _]]; [exfalso; apply Hno; exists l; exact Hl|].
    destruct (HN i j Hi Hj Hne) as [_ Hs].
    assert (Hfin : dist t i j < inf n) by (unfold inf; lia).
    destruct (Hs Hfin) as [p [v [A [B [C [_ E]]]]]]. exists p, v.
    split; [exact A|]. split; [apply find_remote_spec in B; tauto|]. split; [exact C|exact E].
  Qed.

  (** following the next hops *)
  Fixpoint fw_path (fuel i j : nat) : list nat :=
    match fuel with
    | O => []
    | S f => if i =? j then []
             else match next t i j with
                  | Some (_, v) => v :: fw_path f v j
                  | None => []
                  end
    end.

  (** every hop goes to a neighbour that is one closer to [j] *)
  Fixpoint path_ok (j cur : nat) (p : list nat) : Prop :=
    match p with
    | [] => cur = j
    | v :: r => adj g cur v /\ v < n /\ dist t v j + 1 = dist t cur j /\ path_ok j v r
    end.

  Lemma reachable_next i v j : adj g i v -> v < n -> v <> j -> dist t v j < inf n -> j < n -> reachable v j.
  Proof.
    intros _ Hv Hvj Hfin Hj. destruct (fw_shortest v j Hv Hj Hvj) as [[HI _]|[_ [Hw _]]]; [lia|]. eexists; eauto.
  Qed.

  Theorem fw_path_ok j : j < n -> forall fuel i, i < n -> (i = j \/ reachable i j) -> dist t i j <= fuel ->
    path_ok j i (fw_path fuel i j) /\ length (fw_path fuel i j) = dist t i j.
  Proof.
    intros Hj. induction fuel as [|f IH]; intros i Hi Hr Hd.
    - cbn [fw_path path_ok length].
      destruct (Nat.eq_dec i j) as [->|Hne]; [rewrite dist_diag by exact Hj; auto|].
      destruct Hr as [Hr|Hr]; [contradiction|].
      destruct (next_hop_descends i j Hi Hj Hne Hr) as [p [v [_ [_ [_ E]]]]]. lia.
    - cbn [fw_path]. destruct (i =? j) eqn:Eij.
      + apply Nat.eqb_eq in Eij. subst. cbn [path_ok length]. rewrite dist_diag by exact Hj. auto.
      + apply Nat.eqb_neq in Eij. destruct Hr as [Hr|Hr]; [contradiction|].
        destruct (next_hop_descends i j Hi Hj Eij Hr) as [p [v [A [B [C E]]]]]. rewrite A.
        assert (Hadj : adj g i v) by (eapply nth_error_In; exact B).
        assert (Hrv : v = j \/ reachable v j).
        { destruct (Nat.eq_dec v j) as [->|Hvj]; [left; reflexivity|right].
          destruct (fw_shortest i j Hi Hj Eij) as [[_ [_ Hno]]|[Hb _]]; [contradiction|].
          apply (reachable_next i v j Hadj C Hvj); [unfold inf; lia|exact Hj]. }
        destruct (IH v C Hrv ltac:(lia)) as [Hp Hl].
        cbn [path_ok length]. split; [repeat split; assumption|lia].
  Qed.

  (** distances strictly decrease along the path, so no node repeats: loop-free *)
  Lemma path_ok_dist j : forall p cur x, path_ok j cur p -> In x p -> dist t x j < dist t cur j.
  Proof.
    induction p as [|v r IH]; intros cur x H Hin; [destruct Hin|].
    cbn [path_ok] in H. destruct H as [_ [_ [E Hr]]]. destruct Hin as [<-|Hin]; [lia|].
    specialize (IH v x Hr Hin). lia.
  Qed.

  Lemma path_ok_nodup j : forall p cur, path_ok j cur p -> NoDup (cur :: p).
  Proof.
    induction p as [|v r IH]; intros cur H; [constructor; [intros []|constructor]|].
    constructor.
    - intro Hin. pose proof (path_ok_dist j _ _ _ H Hin). lia.
    - cbn [path_ok] in H. apply IH. tauto.
  Qed.

  Lemma last_indep {A} (l : list A) x d d' : last (x :: l) d = last (x :: l) d'.
  Proof. revert x. induction l as [|y l IH]; intro x; [reflexivity|]. cbn [last] in *. apply IH. Qed.

  Lemma path_ok_last j : forall p cur, path_ok j cur p -> last p cur = j.
  Proof.
    induction p as [|v r IH]; intros cur H; [exact H|]. cbn [path_ok] in H.
    destruct H as [_ [_ [_ Hr]]]. specialize (IH v Hr). destruct r as [|w r]; [exact IH|].
    change (last (v :: w :: r) cur) with (last (w :: r) cur). rewrite (last_indep r w cur v). exact IH.
  Qed.
End Final.
