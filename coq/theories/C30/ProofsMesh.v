(** C30 — mesh dimension-ordered routing reaches the destination tile in
    Manhattan-distance hops, never leaving the grid. *)
From Akita Require Import Lib.Base C30.Model.
Local Open Scope Z_scope.

Definition in_box (size c : coord) : Prop :=
  let '(sx, sy, sz) := size in
  let '(x, y, z) := c in
  0 <= x < sx /\ 0 <= y < sy /\ 0 <= z < sz.

Lemma find_local_iff cur dst : mesh_find_port cur dst = Local <-> cur = dst.
Proof.
  destruct cur as [[x y] z], dst as [[dx dy] dz]. unfold mesh_find_port.
  destruct (dz <? z) eqn:E1; [split; [discriminate|intro H; inversion H; lia]|].
  destruct (z <? dz) eqn:E2; [split; [discriminate|intro H; inversion H; lia]|].
  destruct (dy <? y) eqn:E3; [split; [discriminate|intro H; inversion H; lia]|].
  destruct (y <? dy) eqn:E4; [split; [discriminate|intro H; inversion H; lia]|].
  destruct (dx <? x) eqn:E5; [split; [discriminate|intro H; inversion H; lia]|].
  destruct (x <? dx) eqn:E6; [split; [discriminate|intro H; inversion H; lia]|].
  split; intros _; [|reflexivity].
  assert (x = dx) by lia. assert (y = dy) by lia. assert (z = dz) by lia. subst. reflexivity.
Qed.

(** one hop: moves to a neighbouring switch of the grid, one step closer *)
Lemma mesh_step size cur dst :
  in_box size cur -> in_box size dst -> mesh_find_port cur dst <> Local ->
  let nxt := mesh_move cur (mesh_find_port cur dst) in
  in_box size nxt /\ manhattan cur nxt = 1 /\ manhattan nxt dst = manhattan cur dst - 1.
Proof.
  destruct size as [[sx sy] sz], cur as [[x y] z], dst as [[dx dy] dz].
  unfold in_box, mesh_find_port. intros Hc Hd.
  destruct (dz <? z) eqn:E1; [intros _; cbn [mesh_move manhattan]; lia|].
  destruct (z <? dz) eqn:E2; [intros _; cbn [mesh_move manhattan]; lia|].
  destruct (dy <? y) eqn:E3; [intros _; cbn [mesh_move manhattan]; lia|].
  destruct (y <? dy) eqn:E4; [intros _; cbn [mesh_move manhattan]; lia|].
  destruct (dx <? x) eqn:E5; [intros _; cbn [mesh_move manhattan]; lia|].
  destruct (x <? dx) eqn:E6; [intros _; cbn [mesh_move manhattan]; lia|].
  intro H; exfalso; apply H; reflexivity.
Qed.

Lemma manhattan_nonneg a b : 0 <= manhattan a b.
Proof. destruct a as [[x y] z], b as [[dx dy] dz]. cbn [manhattan]. lia. Qed.

Lemma manhattan_zero a b : manhattan a b = 0 -> a = b.
Proof.
  destruct a as [[x y] z], b as [[dx dy] dz]. cbn [manhattan]. intro H.
  assert (x = dx) by lia. assert (y = dy) by lia. assert (z = dz) by lia. subst. reflexivity.
Qed.

Lemma coord_eq_dec (a b : coord) : {a = b} + {a <> b}.
Proof. repeat decide equality. Defined.

(** a hop-by-hop path: every switch is a grid neighbour of the previous one,
    inside the grid, and exactly one step closer to [dst] *)
Fixpoint descending (size cur dst : coord) (p : list coord) : Prop :=
  match p with
  | [] => True
  | c :: r => in_box size c /\ manhattan cur c = 1 /\ manhattan c dst = manhattan cur dst - 1 /\
              descending size c dst r
  end.

Lemma last_cons_indep {A} (l : list A) x d d' : last (x :: l) d = last (x :: l) d'.
Proof. revert x. induction l as [|y l IH]; intro x; [reflexivity|]. cbn [last] in *. apply IH. Qed.

Lemma route_local f dst : mesh_route f dst dst = Some [].
Proof.
  assert (E : mesh_find_port dst dst = Local) by (apply find_local_iff; reflexivity).
  destruct f; cbn [mesh_route]; rewrite E; reflexivity.
Qed.

Lemma route_nonlocal f cur dst : mesh_find_port cur dst <> Local ->
  mesh_route (S f) cur dst =
  match mesh_route f (mesh_move cur (mesh_find_port cur dst)) dst with
  | Some p => Some (mesh_move cur (mesh_find_port cur dst) :: p)
  | None => None
  end.
Proof.
  intro H. cbn [mesh_route]. destruct (mesh_find_port cur dst); try reflexivity.
  exfalso; apply H; reflexivity.
Qed.

Lemma manhattan_self a : manhattan a a = 0.
Proof. destruct a as [[x y] z]. cbn [manhattan]. lia. Qed.

Lemma mesh_route_spec size dst : in_box size dst ->
  forall fuel cur, in_box size cur -> manhattan cur dst <= Z.of_nat fuel ->
  exists p, mesh_route fuel cur dst = Some p /\
            Z.of_nat (length p) = manhattan cur dst /\
            last p cur = dst /\ descending size cur dst p.
Proof.
  intros Hd. induction fuel as [|f IH]; intros cur Hc Hm.
  - assert (H0 : manhattan cur dst = 0) by (pose proof (manhattan_nonneg cur dst); lia).
    apply manhattan_zero in H0. subst cur.
    exists []. rewrite route_local, manhattan_self. cbn [length last descending]. auto.
  - destruct (coord_eq_dec cur dst) as [->|Hne].
    + exists []. rewrite route_local, manhattan_self. cbn [length last descending]. auto.
    + assert (Hnl : mesh_find_port cur dst <> Local) by (intro E; apply find_local_iff in E; auto).
      destruct (mesh_step size cur dst Hc Hd Hnl) as [Hb [H1 Hdec]].
      destruct (IH _ Hb ltac:(lia)) as [p [Hr [Hl [Hlast Hdesc]]]].
      exists (mesh_move cur (mesh_find_port cur dst) :: p).
      rewrite (route_nonlocal f cur dst Hnl), Hr.
      split; [reflexivity|]. split; [cbn [length]; lia|].
      split; [destruct p as [|c p]; [exact Hlast|];
              change (last (mesh_move cur (mesh_find_port cur dst) :: c :: p) cur) with (last (c :: p) cur);
              rewrite (last_cons_indep p c cur (mesh_move cur (mesh_find_port cur dst))); exact Hlast|].
      cbn [descending]. auto.
Qed.
