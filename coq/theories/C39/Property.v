(** C39 — source tools only serve the recorded source, within bounds.  Property theorems only. *)
From Coq Require Import Permutation.
From Akita Require Import Lib.Base Lib.KeySort C37.Model C39.Model C39.Proofs C39.Proofs2.
Local Open Scope N_scope.

(** A path the tools accept never escapes the recorded tree: it is not absolute,
    not "..", and does not begin with "../" — for every byte string. *)
Theorem c39_valid_path_no_escape : forall c, valid_path c = true -> escapes c = false.
Proof. exact valid_path_no_escape. Qed.
Print Assumptions c39_valid_path_no_escape.

(** No request string makes code_read serve anything but the content recorded
    under the (valid, non-escaping) key it resolved to. *)
Theorem c39_no_escape : forall m p s e,
  match code_read m p s e with
  | RInvalid | RNotFound => True
  | REmpty c | RPastEnd c _ => valid_path c = true /\ escapes c = false /\ exists d, In (c, d) m
  | RText c t => valid_path c = true /\ escapes c = false /\
                 exists d from to, In (c, d) m /\ t = render_window c (split_lines d) from to
  end.
Proof. exact code_read_only_recorded. Qed.
Print Assumptions c39_no_escape.

Theorem c39_no_escape_http : forall mx m p,
  match http_code_read mx m p with
  | HOk c d n => valid_path c = true /\ escapes c = false /\ In (c, d) m /\ blen d <= mx /\ c = path_clean p
  | _ => True
  end.
Proof. exact http_read_only_recorded. Qed.
Print Assumptions c39_no_escape_http.

Theorem c39_no_escape_ls : forall m hr p,
  match code_ls m hr p with
  | LIsFile c => valid_path c = true /\ escapes c = false /\ exists d, In (c, d) m
  | LDir c es => valid_path c = true /\ escapes c = false
  | _ => True
  end.
Proof. exact code_ls_no_escape. Qed.
Print Assumptions c39_no_escape_ls.

(** A directory listing (code_ls) names only first path elements of recorded keys
    below the listed directory — for every request string and every tree. *)
Theorem c39_listing_only_recorded : forall m hr p c es,
  code_ls m hr p = LDir c es ->
  forall e, In e es -> exists k d, In (k, d) m /\ has_prefix (dir_prefix c ++ d_name e) k = true.
Proof. exact code_ls_only_recorded. Qed.
Print Assumptions c39_listing_only_recorded.

(** The served tree holds only recorded content under valid keys, whatever the
    iteration order of the rows and of each archive's file map (the lists ARE
    the oracle's order; the statement is for every list). *)
Theorem c39_only_recorded : forall rows k d,
  In (k, d) (open_trace_source rows) -> valid_path k = true /\ escapes k = false /\ recorded rows k d.
Proof. exact source_only_recorded. Qed.
Print Assumptions c39_only_recorded.

(** WriteArchive's entry list does not depend on the map iteration order. *)
Theorem c39_archive_deterministic : forall (C : Type) (m m' : list (bytes * C)),
  NoDup (map fst m) -> Permutation m m' -> write_archive m = write_archive m'.
Proof. intros C. exact (@write_archive_deterministic C). Qed.
Print Assumptions c39_archive_deterministic.

(** Reading back what was written returns the same files (within the caps). *)
Theorem c39_archive_roundtrip : forall (C : Type) (clen : C -> N) fc tc (m : list (bytes * C)),
  NoDup (map fst m) -> (forall kd, In kd m -> clen (snd kd) <= fc) -> total_len clen m <= tc ->
  read_archive clen fc tc (write_archive m) 0 [] = AOk (ks_sort str_ltb m) /\
  Permutation (ks_sort str_ltb m) m.
Proof. intros C clen. exact (archive_roundtrip clen). Qed.
Print Assumptions c39_archive_roundtrip.

(** Whatever the archive holds, an accepted result is within the per-file and
    total caps, consists of regular entries only, and no regular entry above the
    per-file cap was passed over: hostile archives are rejected, not loaded. *)
Theorem c39_caps : forall (C : Type) (clen : C -> N) fc tc es out,
  read_archive clen fc tc es 0 [] = AOk out ->
  total_len clen out <= tc /\
  (forall k d, In (k, d) out -> clen d <= fc /\ In (mk_entry true k d) es) /\
  (forall e, In e es -> e_reg e = true -> clen (e_data e) <= fc).
Proof. intros C clen. exact (read_archive_caps clen). Qed.
Print Assumptions c39_caps.

(** Regression witnesses for the mutants. *)
Definition hostile_rows : list (bytes * list (bytes * bytes)) :=
  [([109], [([46;46;47;46;46;47;120;46;103;111], [115;101;99;114;101;116;10])])].    (* root "m", name "../../x.go" *)

Theorem c39_validpath_removed_refuted :
  open_trace_source hostile_rows = [] /\
  let m' := open_trace_source_with valid_path_off hostile_rows in
  exists c t, code_read_with valid_path_off m' [46;46;47;120;46;103;111] 0 0 = RText c t /\ escapes c = true.
Proof. split; [reflexivity|]. eexists. eexists. split; [vm_compute; reflexivity|reflexivity]. Qed.
Print Assumptions c39_validpath_removed_refuted.

Theorem c39_nofilecap_refuted :
  let es := [mk_entry true [120] 9] in
  read_archive (fun n : N => n) 8 100 es 0 [] = AFileTooBig [120] /\
  read_archive_nofilecap (fun n : N => n) 100 es 0 [] = AOk [([120], 9)].
Proof. split; reflexivity. Qed.
Print Assumptions c39_nofilecap_refuted.

(** Non-vacuity. *)
Example c39_nonvacuous :
  let m := open_trace_source [([109;47;118;53], [([97;46;103;111], [120;10;121;10]); ([46;46;47;46;46;47;46;46;47;101], [1]); ([115;47;46;47;98], [122])])] in
  m = [([109;47;118;53;47;97;46;103;111], [120;10;121;10]); ([109;47;118;53;47;115;47;98], [122])] /\
  (exists t, code_read m [32;46;47;109;47;47;118;53;47;120;47;46;46;47;97;46;103;111;32] 2 0 = RText [109;47;118;53;47;97;46;103;111] t) /\
  code_read m [109;47;46;46;47;46;46;47;101;116;99] 0 0 = RInvalid /\
  http_code_read 100 m [47;109;47;118;53;47;97;46;103;111] = HBadRequest /\
  path_clean [97;47;46;46;47;46;46;47;98;47;47;99;47;46] = [46;46;47;98;47;99] /\
  write_archive [([98], 1); ([97;47;98], 2); ([97], 3)] = write_archive [([97], 3); ([98], 1); ([97;47;98], 2)] /\
  read_archive (fun n : N => n) 8 20 (write_archive [([98], 8); ([97], 7)]) 0 [] = AOk [([97], 7); ([98], 8)].
Proof. vm_compute. repeat split; try reflexivity. eexists. reflexivity. Qed.
