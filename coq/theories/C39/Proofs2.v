(** C39 — a directory listing names only recorded keys. *)
From Akita Require Import Lib.Base Lib.KeySort C37.Model C39.Model C39.Proofs.
Local Open Scope N_scope.

Lemma insert_dirent_in x e l : In x (insert_dirent e l) -> x = e \/ In x l.
Proof.
  induction l as [|y r IH]; cbn [insert_dirent]; intro H.
  - destruct H as [H|[]]. left. symmetry. exact H.
  - destruct (str_ltb (d_name y) (d_name e)).
    + destruct H as [H|H]; [right; left; exact H|].
      destruct (IH H) as [E|E]; [left; exact E|right; right; exact E].
    + destruct (beqb (d_name y) (d_name e)).
      * destruct (d_dir y).
        -- destruct H as [H|H]; [left; symmetry; exact H|right; right; exact H].
        -- right. exact H.
      * destruct H as [H|H]; [left; symmetry; exact H|right; exact H].
Qed.

Lemma fold_insert_in x l : In x (fold_right insert_dirent [] l) -> In x l.
Proof.
  induction l as [|e r IH]; cbn [fold_right]; intro H; [exact H|].
  apply insert_dirent_in in H. destruct H as [->|H]; [left; reflexivity|right; apply IH; exact H].
Qed.

Lemma has_prefix_app a b : has_prefix a (a ++ b) = true.
Proof. induction a as [|x a IH]; cbn [has_prefix app]; [reflexivity|]. rewrite N.eqb_refl, IH. reflexivity. Qed.

Lemma split_on_first sep : forall s cur e r, split_on sep s cur = e :: r -> exists tail, rev cur ++ s = e ++ tail.
Proof.
  induction s as [|b s IH]; intros cur e r H; cbn [split_on] in H.
  - injection H as <- _. exists []. reflexivity.
  - destruct (b =? sep).
    + injection H as <- _. exists (b :: s). reflexivity.
    + apply IH in H. destruct H as [tail H]. exists tail. rewrite <- H. cbn [rev]. rewrite <- app_assoc. reflexivity.
Qed.

Lemma first_elem_prefix s e more : first_elem s = (e, more) -> has_prefix e s = true.
Proof.
  unfold first_elem, split_slash. destruct (split_on slash s []) as [|x r] eqn:E.
  - intro H. injection H as <- _. reflexivity.
  - apply split_on_first in E. destruct E as [tail E]. cbn [rev app] in E.
    destruct r as [|y r']; intro H; injection H as <- _; rewrite E; apply has_prefix_app.
Qed.

Lemma strip_prefix_some p : forall s t, strip_prefix p s = Some t -> s = p ++ t.
Proof.
  induction p as [|a p IH]; intros s t H; cbn [strip_prefix] in H.
  - injection H as <-. reflexivity.
  - destruct s as [|b s]; [discriminate|]. destruct (N.eqb_spec a b) as [<-|]; [|discriminate].
    cbn [app]. f_equal. apply IH. exact H.
Qed.

Definition dir_prefix (dir : bytes) : bytes := if beqb dir dot then [] else dir ++ [slash].

Lemma rel_names_in m dir rest d : In (rest, d) (rel_names m dir) -> In (dir_prefix dir ++ rest, d) m.
Proof.
  unfold rel_names, dir_prefix. destruct (beqb dir dot).
  - intro H. apply filter_In in H. exact (proj1 H).
  - intro H. apply in_flat_map in H. destruct H as ([k d'] & Hin & H). cbn [fst snd] in H.
    destruct (strip_prefix (dir ++ [slash]) k) as [t|] eqn:E; [|destruct H].
    destruct H as [H|[]]. injection H as <- <-. apply strip_prefix_some in E. subst k. exact Hin.
Qed.

(** Every entry of a directory listing is the first path element of a recorded
    key below that directory. *)
Theorem children_recorded m dir e : In e (children m dir) ->
  exists k d, In (k, d) m /\ has_prefix (dir_prefix dir ++ d_name e) k = true.
Proof.
  unfold children. intro H. apply fold_insert_in in H. apply in_app_or in H.
  assert (G : forall (f : bytes * bytes -> list dirent),
            (forall rd x, In x (f rd) -> exists more, first_elem (fst rd) = (d_name x, more)) ->
            In e (flat_map f (rel_names m dir)) ->
            exists k d, In (k, d) m /\ has_prefix (dir_prefix dir ++ d_name e) k = true).
  { intros f Hf Hin. apply in_flat_map in Hin. destruct Hin as ([rest d] & Hr & Hx).
    destruct (Hf _ _ Hx) as [more Hfe]. cbn [fst] in Hfe.
    apply first_elem_prefix in Hfe. apply rel_names_in in Hr.
    exists (dir_prefix dir ++ rest), d. split; [exact Hr|].
    clear -Hfe. induction (dir_prefix dir) as [|a p IH]; cbn [app has_prefix]; [exact Hfe|].
    rewrite N.eqb_refl. exact IH. }
  destruct H as [H|H]; revert H; apply G.
  - intros [rest d] x Hx. cbn [fst snd] in *. destruct (first_elem rest) as [el more] eqn:E.
    destruct more; [|destruct Hx]. destruct Hx as [<-|[]]. exists true. reflexivity.
  - intros [rest d] x Hx. cbn [fst snd] in *. destruct (first_elem rest) as [el more] eqn:E.
    destruct more; [destruct Hx|]. destruct Hx as [<-|[]]. exists false. reflexivity.
Qed.

Lemma dirs_first_in e l : In e (dirs_first l) -> In e l.
Proof.
  unfold dirs_first. intro H. apply in_app_or in H. destruct H as [H|H]; apply filter_In in H; exact (proj1 H).
Qed.

Theorem code_ls_only_recorded m hr p c es :
  code_ls m hr p = LDir c es ->
  forall e, In e es -> exists k d, In (k, d) m /\ has_prefix (dir_prefix c ++ d_name e) k = true.
Proof.
  unfold code_ls, code_ls_with.
  set (p1 := trim_suffix [slash] (trim_prefix space_dot_slash (trim_space p))).
  assert (G : forall name, match mapfs_open_with valid_path m name with
                           | ODir es0 => es0 = children m name
                           | _ => True end).
  { intro name. unfold mapfs_open_with. destruct (negb (valid_path name)); [exact I|].
    destruct (lookup m name); [exact I|]. destruct (beqb name dot); [reflexivity|].
    destruct (rel_names m name); [exact I|reflexivity]. }
  destruct (beqb p1 [] || beqb p1 dot).
  - destruct hr; [discriminate|]. specialize (G dot).
    destruct (mapfs_open_with valid_path m dot) as [|d|es0|]; try discriminate.
    intro H. injection H as <- <-. intros e He. apply dirs_first_in in He. subst es0.
    apply children_recorded. exact He.
  - destruct (negb (valid_path (path_clean p1))); [discriminate|]. specialize (G (path_clean p1)).
    destruct (mapfs_open_with valid_path m (path_clean p1)) as [|d|es0|]; try discriminate.
    intro H. injection H as <- <-. intros e He. apply dirs_first_in in He. subst es0.
    apply children_recorded. exact He.
Qed.
