(** C39 — model of the recorded-source tools: [path.Clean], [fs.ValidPath]
    (with UTF-8 validation), the [fstest.MapFS] the trace source is served from,
    sourcefs [WriteArchive] / [ReadArchive] (at the level of decoded tar entries)
    and the [OpenTraceSource] key filter, and the path handling, lookup and
    rendering of the code_read / code_ls / code_search tools and of the
    /api/code/read and /api/code/ls handlers.  Strings are byte lists. *)
From Akita Require Import Lib.Base Lib.KeySort C37.Model.
Local Open Scope N_scope.

(* ------------------------------------------------------------------ strings *)

Definition slash : N := 47.
Definition dot : bytes := [46].
Definition dotdot : bytes := [46; 46].

(** strings.Split(s, "/"): [cur] is the current element, reversed. *)
Fixpoint split_on (sep : N) (s : bytes) (cur : bytes) : list bytes :=
  match s with
  | [] => [rev cur]
  | b :: r => if b =? sep then rev cur :: split_on sep r [] else split_on sep r (b :: cur)
  end.
Definition split_slash (s : bytes) : list bytes := split_on slash s [].

Fixpoint has_prefix (p s : bytes) : bool :=
  match p, s with
  | [], _ => true
  | a :: p', b :: s' => (a =? b) && has_prefix p' s'
  | _ :: _, [] => false
  end.

Definition trim_prefix (p s : bytes) : bytes :=
  match strip_prefix p s with Some t => t | None => s end.

Definition trim_suffix (p s : bytes) : bytes :=
  match strip_prefix (rev p) (rev s) with Some t => rev t | None => s end.

Fixpoint contains (needle hay : bytes) : bool :=
  has_prefix needle hay || match hay with [] => false | _ :: r => contains needle r end.

(* ------------------------------------------------------------------ path.Clean *)

Fixpoint clean_elems (rooted : bool) (elems : list bytes) (stack : list bytes) : list bytes :=
  match elems with
  | [] => rev stack
  | e :: r =>
      if beqb e [] || beqb e dot then clean_elems rooted r stack
      else if beqb e dotdot then
        match stack with
        | top :: st' => if beqb top dotdot then clean_elems rooted r (dotdot :: stack)
                        else clean_elems rooted r st'
        | [] => if rooted then clean_elems rooted r [] else clean_elems rooted r [dotdot]
        end
      else clean_elems rooted r (e :: stack)
  end.

Definition path_clean (p : bytes) : bytes :=
  match p with
  | [] => dot
  | b :: _ =>
      let rooted := b =? slash in
      let body := join [slash] (clean_elems rooted (split_slash p) []) in
      if rooted then slash :: body
      else match body with [] => dot | _ => body end
  end.

(** path.Join(a, b) for two elements: empty elements are dropped, the rest is cleaned. *)
Definition path_join2 (a b : bytes) : bytes :=
  match a, b with
  | [], [] => []
  | [], _ => path_clean b
  | _, [] => path_clean a
  | _, _ => path_clean (a ++ slash :: b)
  end.

(* ------------------------------------------------------------------ UTF-8 *)

Definition inr (lo hi b : N) : bool := (lo <=? b) && (b <=? hi).
Definition cont (b : N) : bool := inr 128 191 b.

(** utf8.ValidString *)
Fixpoint valid_utf8_fuel (fuel : nat) (s : bytes) : bool :=
  match fuel with
  | O => match s with [] => true | _ => false end
  | S f =>
      match s with
      | [] => true
      | b :: r =>
          if b <? 128 then valid_utf8_fuel f r
          else if inr 194 223 b then
            match r with c1 :: r1 => cont c1 && valid_utf8_fuel f r1 | _ => false end
          else if inr 224 239 b then
            match r with
            | c1 :: c2 :: r2 =>
                (if b =? 224 then inr 160 191 c1 else if b =? 237 then inr 128 159 c1 else cont c1)
                && cont c2 && valid_utf8_fuel f r2
            | _ => false
            end
          else if inr 240 244 b then
            match r with
            | c1 :: c2 :: c3 :: r3 =>
                (if b =? 240 then inr 144 191 c1 else if b =? 244 then inr 128 143 c1 else cont c1)
                && cont c2 && cont c3 && valid_utf8_fuel f r3
            | _ => false
            end
          else false
      end
  end.
Definition valid_utf8 (s : bytes) : bool := valid_utf8_fuel (S (length s)) s.

(* ------------------------------------------------------------------ fs.ValidPath *)

Definition good_elem (e : bytes) : bool := negb (beqb e [] || beqb e dot || beqb e dotdot).

Definition valid_path (name : bytes) : bool :=
  valid_utf8 name && (beqb name dot || forallb good_elem (split_slash name)).

(** Mutant: no validity check at all. *)
Definition valid_path_off (name : bytes) : bool := true.

(* ------------------------------------------------------------------ MapFS *)

(** The recorded tree: key -> content.  Keys are unique (it is a Go map). *)
Definition fsmap := list (bytes * bytes).

Fixpoint lookup (m : fsmap) (k : bytes) : option bytes :=
  match m with
  | [] => None
  | (k', d) :: r => if beqb k' k then Some d else lookup r k
  end.

(** map assignment m[k] = d *)
Fixpoint put (m : fsmap) (k d : bytes) : fsmap :=
  match m with
  | [] => [(k, d)]
  | (k', d') :: r => if beqb k' k then (k, d) :: r else (k', d') :: put r k d
  end.

Definition keys (m : fsmap) : list bytes := map fst m.

(** an entry of a directory listing *)
Record dirent := mk_dirent { d_name : bytes; d_dir : bool; d_size : N }.

Definition first_elem (s : bytes) : bytes * bool :=   (* up to the first '/', and whether a '/' follows *)
  match split_slash s with
  | [e] => (e, false)
  | e :: _ => (e, true)
  | [] => ([], false)
  end.

(** key names relative to directory [dir] ("." = the root) *)
Definition rel_names (m : fsmap) (dir : bytes) : list (bytes * bytes) :=
  if beqb dir dot then filter (fun kd => negb (beqb (fst kd) dot)) m
  else flat_map (fun kd => match strip_prefix (dir ++ [slash]) (fst kd) with
                           | Some rest => [(rest, snd kd)]
                           | None => []
                           end) m.

Fixpoint insert_dirent (e : dirent) (l : list dirent) : list dirent :=
  match l with
  | [] => [e]
  | x :: r => if str_ltb (d_name x) (d_name e) then x :: insert_dirent e r
              else if beqb (d_name x) (d_name e) then (if d_dir x then e :: r else l)  (* a file shadows a synthesized directory *)
              else e :: l
  end.

(** the children MapFS.Open computes for a directory: files directly inside,
    plus one synthesized directory per deeper first element that is not a file *)
Definition children (m : fsmap) (dir : bytes) : list dirent :=
  let rel := rel_names m dir in
  let files := flat_map (fun rd => let '(e, more) := first_elem (fst rd) in
                                   if more then [] else [mk_dirent e false (blen (snd rd))]) rel in
  let dirs := flat_map (fun rd => let '(e, more) := first_elem (fst rd) in
                                  if more then [mk_dirent e true 0] else []) rel in
  fold_right insert_dirent [] (dirs ++ files).

Inductive openres := OInvalid | OFile (data : bytes) | ODir (entries : list dirent) | ONotExist.

Definition mapfs_open_with (valid : bytes -> bool) (m : fsmap) (name : bytes) : openres :=
  if negb (valid name) then OInvalid
  else match lookup m name with
       | Some d => OFile d
       | None =>
           if beqb name dot then ODir (children m name)
           else match rel_names m name with
                | [] => ONotExist
                | _ => ODir (children m name)
                end
       end.
Definition mapfs_open := mapfs_open_with valid_path.

(** fs.WalkDir from ".": the regular files reachable through directories,
    as slash paths. *)
Fixpoint walk (fuel : nat) (m : fsmap) (dir : bytes) : list bytes :=
  match fuel with
  | O => []
  | S f =>
      flat_map (fun e => let p := if beqb dir dot then d_name e else dir ++ slash :: d_name e in
                         if d_dir e then walk f m p else [p]) (children m dir)
  end.

Definition max_depth (m : fsmap) : nat := S (fold_right (fun k acc => Nat.max (length (split_slash k)) acc) 0%nat (keys m)).

Definition walk_files (m : fsmap) : list bytes :=
  match lookup m dot with
  | Some _ => [dot]                        (* a file recorded as "." hides the tree from the walk *)
  | None => walk (max_depth m) m dot
  end.

Definition sorted_file_paths (m : fsmap) : list bytes :=
  map fst (ks_sort str_ltb (map (fun p => (p, tt)) (walk_files m))).

(* ------------------------------------------------------------------ archives *)

(** a tar entry as decoded by archive/tar *)
Record entry (C : Type) := mk_entry { e_reg : bool; e_name : bytes; e_data : C }.
Arguments mk_entry {C}. Arguments e_reg {C}. Arguments e_name {C}. Arguments e_data {C}.

Section Archive.
  Context {C : Type} (clen : C -> N).

  (** WriteArchive: entries in sorted path order; [m] is the Go map in its
      (arbitrary) iteration order. *)
  Definition write_archive (m : list (bytes * C)) : list (entry C) :=
    map (fun kd => mk_entry true (fst kd) (snd kd)) (ks_sort str_ltb m).

  Fixpoint aput (m : list (bytes * C)) (k : bytes) (d : C) : list (bytes * C) :=
    match m with
    | [] => [(k, d)]
    | (k', d') :: r => if beqb k' k then (k, d) :: r else (k', d') :: aput r k d
    end.

  Inductive ares := AOk (files : list (bytes * C)) | AFileTooBig (name : bytes) | ATotalTooBig.

  (** ReadArchive over the decoded entries. *)
  Fixpoint read_archive (file_cap total_cap : N) (es : list (entry C)) (total : N)
           (files : list (bytes * C)) : ares :=
    match es with
    | [] => AOk files
    | e :: r =>
        if negb (e_reg e) then read_archive file_cap total_cap r total files
        else if file_cap <? clen (e_data e) then AFileTooBig (e_name e)
        else let total' := total + clen (e_data e) in
             if total_cap <? total' then ATotalTooBig
             else read_archive file_cap total_cap r total' (aput files (e_name e) (e_data e))
    end.

  (** Mutant: no per-file cap. *)
  Fixpoint read_archive_nofilecap (total_cap : N) (es : list (entry C)) (total : N)
           (files : list (bytes * C)) : ares :=
    match es with
    | [] => AOk files
    | e :: r =>
        if negb (e_reg e) then read_archive_nofilecap total_cap r total files
        else let total' := total + clen (e_data e) in
             if total_cap <? total' then ATotalTooBig
             else read_archive_nofilecap total_cap r total' (aput files (e_name e) (e_data e))
    end.
End Archive.

(** OpenTraceSource: every (root, files) row, files in map-iteration order
    ([rows] already carries the oracle's order); keys are path.Join(root, p),
    invalid keys are dropped. *)
Definition add_row_with (valid : bytes -> bool) (m : fsmap) (root : bytes) (files : list (bytes * bytes)) : fsmap :=
  fold_left (fun acc pd => let key := path_join2 root (fst pd) in
                           if valid key then put acc key (snd pd) else acc) files m.
Definition open_trace_source_with (valid : bytes -> bool) (rows : list (bytes * list (bytes * bytes))) : fsmap :=
  fold_left (fun acc row => add_row_with valid acc (fst row) (snd row)) rows [].
Definition open_trace_source := open_trace_source_with valid_path.

(* ------------------------------------------------------------------ code_read *)

Definition space_dot_slash : bytes := [46; 47].

(** normalizeReadPath *)
Definition normalize_read_path_with (valid : bytes -> bool) (p : bytes) : option bytes :=
  let p1 := trim_prefix space_dot_slash (trim_space p) in
  match p1 with
  | [] => None
  | _ => let c := path_clean p1 in if valid c then Some c else None
  end.
Definition normalize_read_path := normalize_read_path_with valid_path.

(** splitLines *)
Definition split_lines (data : bytes) : list bytes :=
  match data with
  | [] => []
  | _ => let ls := split_on 10 data [] in
         match rev ls with
         | [] :: r => rev r
         | _ => ls
         end
  end.

(** countLines *)
Definition count_lines (data : bytes) : N :=
  match data with
  | [] => 0
  | _ => let n := blen (filter (N.eqb 10) data) in
         if last data 0 =? 10 then n else n + 1
  end.

Definition read_default_lines : Z := 200.
Definition read_max_lines : Z := 400.
Definition read_max_bytes : N := 24576.

Inductive window := WPastEnd | WRange (from to : Z).

(** resolveReadWindow *)
Definition resolve_window (start end_ total : Z) : window :=
  let ranged := (0 <? start)%Z || (0 <? end_)%Z in
  let from := if (0 <? start)%Z then start else 1%Z in
  let to := if (0 <? end_)%Z then end_
            else if negb ranged && (read_default_lines <? total)%Z then read_default_lines else total in
  let from := Z.max from 1 in
  let to := Z.min to total in
  if (total <? from)%Z then WPastEnd
  else let to := if (to <? from)%Z then from else to in
       let to := if (read_max_lines <? to - from + 1)%Z then Z.min (from + read_max_lines - 1) total else to in
       WRange from to.

Definition pad_left (w : nat) (s : bytes) : bytes := repeat 32 (w - length s) ++ s.

(** renderReadWindow: rows "%*d\t%s\n" until the byte cap *)
Fixpoint render_rows (width : nat) (lines : list bytes) (i : N) (acc_len : N) : list bytes * bool :=
  match lines with
  | [] => ([], false)
  | l :: r =>
      let row := pad_left width (dec i) ++ 9 :: l ++ [10] in
      if read_max_bytes <? acc_len + blen row then ([], true)
      else let '(rows, t) := render_rows width r (i + 1) (acc_len + blen row) in (row :: rows, t)
  end.

Definition str (s : list N) : bytes := s.
Definition s_lines_open : bytes := [32; 40; 108; 105; 110; 101; 115; 32].       (* " (lines " *)
Definition s_of : bytes := [32; 111; 102; 32].                                  (* " of " *)
Definition s_close : bytes := [41; 58; 10].                                     (* "):\n" *)
Definition s_read_trunc : bytes :=   (* "[output truncated — narrow the line range]\n" *)
  [91;111;117;116;112;117;116;32;116;114;117;110;99;97;116;101;100;32;226;128;148;32;110;97;114;114;111;119;32;116;104;101;32;108;105;110;101;32;114;97;110;103;101;93;10].
Definition s_more : bytes :=         (* " more lines; pass start_line/end_line to read further]\n" *)
  [32;109;111;114;101;32;108;105;110;101;115;59;32;112;97;115;115;32;115;116;97;114;116;95;108;105;110;101;47;101;110;100;95;108;105;110;101;32;116;111;32;114;101;97;100;32;102;117;114;116;104;101;114;93;10].

Definition render_window (clean : bytes) (lines : list bytes) (from to : Z) : bytes :=
  let total := Z.of_nat (length lines) in
  let hdr := clean ++ s_lines_open ++ dec (Z.to_N from) ++ [45] ++ dec (Z.to_N to) ++ s_of ++ dec (Z.to_N total) ++ s_close in
  let width := length (dec (Z.to_N to)) in
  let sel := firstn (Z.to_nat (to - from + 1)) (skipn (Z.to_nat (from - 1)) lines) in
  let '(rows, t) := render_rows width sel (Z.to_N from) (blen hdr) in
  hdr ++ concat rows ++
  (if t then s_read_trunc
   else if (to <? total)%Z then 91 :: dec (Z.to_N (total - to)) ++ s_more else []).

(** what runCodeRead does with a non-empty source *)
Inductive read_res :=
| RInvalid                      (* error: a path is required / invalid path *)
| RNotFound                     (* "File not found: ..." *)
| REmpty (clean : bytes)        (* "<clean> is empty (0 lines)." *)
| RPastEnd (clean : bytes) (total : Z)
| RText (clean : bytes) (text : bytes).

Definition code_read_with (valid : bytes -> bool) (m : fsmap) (p : bytes) (start end_ : Z) : read_res :=
  match normalize_read_path_with valid p with
  | None => RInvalid
  | Some c =>
      match mapfs_open_with valid m c with
      | OFile data =>
          let lines := split_lines data in
          match lines with
          | [] => REmpty c
          | _ => match resolve_window start end_ (Z.of_nat (length lines)) with
                 | WPastEnd => RPastEnd c (Z.of_nat (length lines))
                 | WRange from to => RText c (render_window c lines from to)
                 end
          end
      | _ => RNotFound
      end
  end.
Definition code_read := code_read_with valid_path.

(** /api/code/read *)
Inductive http_read := HBadRequest | HNotFound | HReadError | HTooLarge | HOk (clean data : bytes) (lines : N).

Definition http_code_read_with (valid : bytes -> bool) (max_bytes : N) (m : fsmap) (p : bytes) : http_read :=
  let c := path_clean p in
  match p with
  | [] => HBadRequest
  | _ =>
      if negb (valid c) then HBadRequest
      else match mapfs_open_with valid m c with
           | OFile d => if max_bytes <? blen d then HTooLarge else HOk c d (count_lines d)
           | ODir _ => HReadError
           | _ => HNotFound
           end
  end.
Definition http_code_read := http_code_read_with valid_path.

(* ------------------------------------------------------------------ code_ls *)

(** dirs first, then files, each by name (the input is sorted by name) *)
Definition dirs_first (l : list dirent) : list dirent :=
  filter d_dir l ++ filter (fun e => negb (d_dir e)) l.

Inductive ls_res :=
| LInvalid
| LRoots                         (* the recorded module roots are listed *)
| LNotFound
| LIsFile (clean : bytes)
| LDir (clean : bytes) (entries : list dirent).   (* all entries, dirs first; caps apply at rendering *)

Definition code_ls_with (valid : bytes -> bool) (m : fsmap) (have_roots : bool) (p : bytes) : ls_res :=
  let p1 := trim_suffix [slash] (trim_prefix space_dot_slash (trim_space p)) in
  if beqb p1 [] || beqb p1 dot then
    (if have_roots then LRoots
     else match mapfs_open_with valid m dot with
          | ODir es => LDir dot (dirs_first es)
          | _ => LNotFound           (* "Could not list .": the root is a recorded file *)
          end)
  else let c := path_clean p1 in
       if negb (valid c) then LInvalid
       else match mapfs_open_with valid m c with
            | OFile _ => LIsFile c
            | ODir es => LDir c (dirs_first es)
            | _ => LNotFound
            end.
Definition code_ls := code_ls_with valid_path.

Definition ls_max_entries : N := 300.
Definition ls_max_bytes : N := 16384.

(** listDir: the text of a directory listing.  humanBytes is modelled for sizes
    below 1 KiB only ("%d B"); larger sizes use a float rendering that is not modelled. *)
Definition s_tab_lines : bytes := [32; 108; 105; 110; 101; 115; 44; 32].          (* " lines, " *)
Definition s_b : bytes := [32; 66].                                               (* " B" *)
Definition s_dash : bytes := [32; 226; 128; 148; 32].                             (* " — " *)
Definition s_dirs : bytes := [32; 100; 105; 114; 40; 115; 41; 44; 32].            (* " dir(s), " *)
Definition s_files : bytes := [32; 102; 105; 108; 101; 40; 115; 41; 58; 10].      (* " file(s):\n" *)
Definition s_root : bytes := [40; 114; 111; 111; 116; 41].                        (* "(root)" *)
Definition s_ls_trunc : bytes :=   (* "[truncated — list a sub-directory to narrow]\n" *)
  [91;116;114;117;110;99;97;116;101;100;32;226;128;148;32;108;105;115;116;32;97;32;115;117;98;45;100;105;114;101;99;116;111;114;121;32;116;111;32;110;97;114;114;111;119;93;10].

Definition ls_line (m : fsmap) (dir : bytes) (e : dirent) : bytes :=
  if d_dir e then d_name e ++ [slash; 10]
  else let p := if beqb dir dot then d_name e else dir ++ slash :: d_name e in
       let ann := match lookup m p with
                  | Some d => dec (count_lines d) ++ s_tab_lines ++ dec (blen d) ++ s_b
                  | None => [63]
                  end in
       d_name e ++ 9 :: ann ++ [10].

Fixpoint ls_body (lines : list bytes) (shown : N) (acc : bytes) : bytes * bool :=
  match lines with
  | [] => (acc, false)
  | l :: r => if ls_max_entries <=? shown then (acc, true)
              else if ls_max_bytes <? blen acc + blen l then (acc, true)
              else ls_body r (shown + 1) (acc ++ l)
  end.

Definition render_ls (m : fsmap) (dir : bytes) (entries : list dirent) : bytes :=
  let '(body, t) := ls_body (map (ls_line m dir) entries) 0 [] in
  (if beqb dir dot then s_root else dir) ++ s_dash ++ dec (N.of_nat (length (filter d_dir entries))) ++ s_dirs
  ++ dec (N.of_nat (length (filter (fun e => negb (d_dir e)) entries))) ++ s_files ++ body
  ++ (if t then s_ls_trunc else []).

(* ------------------------------------------------------------------ code_search (literal queries) *)

Definition search_max_matches : N := 60.
Definition search_max_bytes : N := 16384.
Definition search_max_line : N := 300.

(** bufio.ScanLines: split on \n, drop one trailing \r, no final empty token *)
Definition scan_lines (data : bytes) : list bytes :=
  map (fun l => match rev l with 13 :: r => rev r | _ => l end) (split_lines data).

Definition clip_line (s : bytes) : bytes :=
  if search_max_line <? blen s then firstn (N.to_nat search_max_line) s ++ ellipsis else s.

(** appendFileMatches for one file; state = (body reversed chunks, matches) *)
Fixpoint file_matches (needle p : bytes) (lines : list bytes) (no : N) (body : bytes) (matches : N)
  : bytes * N * bool :=
  match lines with
  | [] => (body, matches, false)
  | l :: r =>
      if negb (contains needle l) then file_matches needle p r (no + 1) body matches
      else if search_max_matches <=? matches then (body, matches, true)
      else let entry := p ++ [58] ++ dec no ++ [58; 32] ++ clip_line (trim_space l) ++ [10] in
           if search_max_bytes <? blen body + blen entry then (body, matches, true)
           else file_matches needle p r (no + 1) (body ++ entry) (matches + 1)
  end.

Fixpoint search_files (m : fsmap) (needle filter_ : bytes) (paths : list bytes) (body : bytes) (matches : N)
  : bytes * N * bool :=
  match paths with
  | [] => (body, matches, false)
  | p :: r =>
      if negb (beqb filter_ []) && negb (contains filter_ p) then search_files m needle filter_ r body matches
      else match mapfs_open m p with
           | OFile data =>
               let '(b, k, t) := file_matches needle p (scan_lines data) 1 body matches in
               if t then (b, k, true) else search_files m needle filter_ r b k
           | _ => search_files m needle filter_ r body matches
           end
  end.

Definition s_matches : bytes := [32;109;97;116;99;104;40;101;115;41;58;10].      (* " match(es):\n" *)
Definition s_search_trunc : bytes :=  (* "[truncated — refine the query or pass path_contains]\n" *)
  [91;116;114;117;110;99;97;116;101;100;32;226;128;148;32;114;101;102;105;110;101;32;116;104;101;32;113;117;101;114;121;32;111;114;32;112;97;115;115;32;112;97;116;104;95;99;111;110;116;97;105;110;115;93;10].

Inductive search_res := SNoMatch | SText (text : bytes).

Definition code_search (m : fsmap) (needle filter_ : bytes) : search_res :=
  let '(body, k, t) := search_files m needle filter_ (sorted_file_paths m) [] 0 in
  if k =? 0 then SNoMatch
  else SText (dec k ++ s_matches ++ body ++ (if t then s_search_trunc else [])).
