(** C39 — case evaluators for the correspondence check. *)
From Akita Require Import Lib.Base Lib.KeySort Lib.PackedBytes C37.Model C39.Model.
Local Open Scope N_scope.

(** run-length encoded content for archive cases (a gzip bomb is a few runs) *)
Definition rle := list (N * N).                     (* (byte, count), counts > 0, adjacent bytes differ *)
Definition rle_len (c : rle) : N := fold_right (fun r acc => snd r + acc) 0 c.
Definition rle_eqb (a b : rle) : bool := list_eqb (fun x y => (fst x =? fst y) && (snd x =? snd y)) a b.

Inductive tobs := TErr | TText (text : bytes).      (* a tool returned an error / a text *)

Inductive aobs := AObsOk (files : list (bytes * rle)) | AObsFileTooBig | AObsTotalTooBig | AObsOtherErr.

Inductive hobs := HStatus (code : N) | HBody (path content : bytes) (lines : N).

(** what opening a trace source did *)
Inductive sobs :=
| SServed (m : fsmap)      (* the tree that is served *)
| SRejected                (* OpenTraceSource returned an error: nothing is served *)
| SCrashed.                (* the process died (e.g. unbounded recursion in the walk) *)

Inductive case :=
| CPath (p : bytes) (obs_clean : bytes) (obs_valid obs_valid_clean : bool)
| CRead (m : fsmap) (p : bytes) (start end_ : Z) (obs : tobs)
| CHttpRead (max_bytes : N) (m : fsmap) (p : bytes) (obs : hobs)
| CLs (m : fsmap) (have_roots : bool) (p : bytes) (obs : tobs)
| CSearch (m : fsmap) (needle filter_ : bytes) (obs : tobs)
| CWrite (m : list (bytes * rle)) (obs : list (bool * bytes * rle)) (same_bytes : bool)
| CArchive (file_cap total_cap : N) (es : list (entry rle)) (obs : aobs)
| CSource (rows : list (bytes * list (bytes * bytes))) (obs : sobs).

(* ---------------------------------------------------------------- model side *)

Definition s_notfound : bytes := [70;105;108;101;32;110;111;116;32;102;111;117;110;100;58].           (* "File not found:" *)
Definition s_empty : bytes := [32;105;115;32;101;109;112;116;121;32;40;48;32;108;105;110;101;115;41;46]. (* " is empty (0 lines)." *)
Definition s_has : bytes := [32;104;97;115;32].                                                          (* " has " *)
Definition s_lines_start : bytes := [32;108;105;110;101;115;59;32;115;116;97;114;116;95;108;105;110;101;32]. (* " lines; start_line " *)
Definition s_past : bytes := [32;105;115;32;112;97;115;116;32;116;104;101;32;101;110;100;46].           (* " is past the end." *)
Definition s_dirnotfound : bytes := [68;105;114;101;99;116;111;114;121;32;110;111;116;32;102;111;117;110;100;58]. (* "Directory not found:" *)
Definition s_isfile : bytes :=   (* " is a file, not a directory. Use code_read to read it." *)
  [32;105;115;32;97;32;102;105;108;101;44;32;110;111;116;32;97;32;100;105;114;101;99;116;111;114;121;46;32;85;115;101;32;99;111;100;101;95;114;101;97;100;32;116;111;32;114;101;97;100;32;105;116;46].
Definition s_rootlist : bytes := [82;101;99;111;114;100;101;100;32;109;111;100;117;108;101;32;114;111;111;116;40;115;41]. (* "Recorded module root(s)" *)
Definition s_couldnot : bytes := [67;111;117;108;100;32;110;111;116;32;108;105;115;116].               (* "Could not list" *)
Definition s_nomatch : bytes := [78;111;32;109;97;116;99;104;101;115;32;102;111;114;32].               (* "No matches for " *)

Definition tobs_eqb (a b : tobs) : bool :=
  match a, b with TErr, TErr => true | TText x, TText y => beqb x y | _, _ => false end.

(** a text that is only compared by its prefix (messages that quote the request with %q) *)
Definition prefix_is (pre : bytes) (o : tobs) : bool :=
  match o with TText t => has_prefix pre t | TErr => false end.

Definition check_read (m : fsmap) (p : bytes) (start end_ : Z) (obs : tobs) : bool :=
  match code_read m p start end_ with
  | RInvalid => tobs_eqb obs TErr
  | RNotFound => prefix_is s_notfound obs
  | REmpty c => tobs_eqb obs (TText (c ++ s_empty))
  | RPastEnd c total => tobs_eqb obs (TText (c ++ s_has ++ dec (Z.to_N total) ++ s_lines_start ++ dec_z start ++ s_past))
  | RText _ t => tobs_eqb obs (TText t)
  end.

Definition check_ls (m : fsmap) (have_roots : bool) (p : bytes) (obs : tobs) : bool :=
  match code_ls m have_roots p with
  | LInvalid => tobs_eqb obs TErr
  | LRoots => prefix_is s_rootlist obs
  | LNotFound => prefix_is s_dirnotfound obs || prefix_is s_couldnot obs
  | LIsFile c => tobs_eqb obs (TText (c ++ s_isfile))
  | LDir c es => tobs_eqb obs (TText (render_ls m c es))
  end.

Definition check_search (m : fsmap) (needle filter_ : bytes) (obs : tobs) : bool :=
  match code_search m needle filter_ with
  | SNoMatch => prefix_is s_nomatch obs
  | SText t => tobs_eqb obs (TText t)
  end.

Definition hobs_eqb (a b : hobs) : bool :=
  match a, b with
  | HStatus x, HStatus y => x =? y
  | HBody p c n, HBody p' c' n' => beqb p p' && beqb c c' && (n =? n')
  | _, _ => false
  end.

Definition project_http (r : http_read) : hobs :=
  match r with
  | HBadRequest => HStatus 400
  | HNotFound => HStatus 404
  | HReadError => HStatus 500
  | HTooLarge => HStatus 413
  | HOk c d n => HBody c d n
  end.

Definition files_eqb {A} (eq : A -> A -> bool) (a b : list (bytes * A)) : bool :=
  list_eqb (fun x y => beqb (fst x) (fst y) && eq (snd x) (snd y)) a b.

Definition sort_files {A} (l : list (bytes * A)) : list (bytes * A) := ks_sort str_ltb l.

Definition project_archive (r : ares (C := rle)) : aobs :=
  match r with
  | AOk files => AObsOk (sort_files files)
  | AFileTooBig _ => AObsFileTooBig
  | ATotalTooBig => AObsTotalTooBig
  end.

Definition aobs_eqb (a b : aobs) : bool :=
  match a, b with
  | AObsOk x, AObsOk y => files_eqb rle_eqb x y
  | AObsFileTooBig, AObsFileTooBig | AObsTotalTooBig, AObsTotalTooBig | AObsOtherErr, AObsOtherErr => true
  | _, _ => false
  end.

(** model output = implementation output *)
Definition check_case (c : case) : bool :=
  match c with
  | CPath p oc ov ovc =>
      beqb (path_clean p) oc && Bool.eqb (valid_path p) ov && Bool.eqb (valid_path (path_clean p)) ovc
  | CRead m p s e obs => check_read m p s e obs
  | CHttpRead mx m p obs => hobs_eqb (project_http (http_code_read mx m p)) obs
  | CLs m hr p obs => check_ls m hr p obs
  | CSearch m n f obs => check_search m n f obs
  | CWrite m obs same =>
      same &&
      list_eqb (fun e o => Bool.eqb (fst (fst e)) (fst (fst o)) && beqb (snd (fst e)) (snd (fst o)) && rle_eqb (snd e) (snd o))
               (map (fun e => (e_reg e, e_name e, e_data e)) (write_archive m)) obs
  | CArchive fc tc es obs => aobs_eqb (project_archive (read_archive rle_len fc tc es 0 [])) obs
  | CSource rows obs => match obs with SServed o => files_eqb beqb (sort_files (open_trace_source rows)) (sort_files o) | _ => false end
  end.

(* ---------------------------------------------------------------- the property, on the observed behaviour *)

(** a request escapes the recorded tree if, once cleaned, it is absolute or climbs above the root *)
Definition escapes (c : bytes) : bool :=
  has_prefix [slash] c || beqb c dotdot || has_prefix (dotdot ++ [slash]) c.

Definition text_lines (t : bytes) : list bytes := split_on 10 t [].

Fixpoint after_tab (s : bytes) : option bytes :=
  match s with [] => None | b :: r => if b =? 9 then Some r else after_tab r end.

(** every numbered row of a code_read text carries a line of [data] *)
Definition read_rows_from (t : bytes) (data : bytes) : bool :=
  let ls := split_lines data in
  forallb (fun row => match row with
                      | [] => true
                      | 91 :: _ => true                     (* footer "[...]" *)
                      | _ => match after_tab row with
                             | Some content => existsb (beqb content) ls
                             | None => false
                             end
                      end) (tl (text_lines t)).

Definition is_err_or_prefix (pre : bytes) (o : tobs) : bool :=
  match o with TErr => true | TText t => has_prefix pre t end.

Definition holds_on (c : case) : bool :=
  match c with
  | CPath p oc ov ovc =>
      (* what the tools accept (valid AND clean-stable) never escapes *)
      if ovc then negb (escapes oc) else true
  | CRead m p s e obs =>
      let c := path_clean (trim_prefix space_dot_slash (trim_space p)) in
      (if escapes c then is_err_or_prefix s_notfound obs else true) &&
      match obs with
      | TErr => true
      | TText t =>
          has_prefix s_notfound t ||
          existsb (fun kd => has_prefix (fst kd) t &&
                             (read_rows_from t (snd kd) || has_prefix (fst kd ++ s_empty) t
                              || has_prefix (fst kd ++ s_has) t)) m
      end
  | CHttpRead mx m p obs =>
      match obs with
      | HStatus _ => true
      | HBody pth content _ =>
          negb (escapes (path_clean p)) && (blen content <=? mx) &&
          match lookup m pth with Some d => beqb d content | None => false end
      end
  | CLs m hr p obs =>
      match obs with
      | TErr => true
      | TText t =>
          has_prefix s_dirnotfound t || has_prefix s_rootlist t || has_prefix s_couldnot t ||
          (* every listed name is the first element of a recorded key below the listed directory *)
          let c := path_clean (trim_suffix [slash] (trim_prefix space_dot_slash (trim_space p))) in
          negb (escapes c) &&
          (existsb (fun k => beqb k c) (keys m) ||
           forallb (fun row => match row with
                               | [] => true
                               | 91 :: _ => true
                               | _ => let name := match split_on 9 row [] with n :: _ => trim_suffix [slash] n | [] => [] end in
                                      existsb (fun k => has_prefix ((if beqb c dot then [] else c ++ [slash]) ++ name) k) (keys m)
                               end) (tl (text_lines t)))
      end
  | CSearch m n f obs =>
      match obs with
      | TErr => true
      | TText t =>
          has_prefix s_nomatch t ||
          forallb (fun row => match row with
                              | [] => true
                              | 91 :: _ => true
                              | _ => existsb (fun k => has_prefix (k ++ [58]) row) (keys m)
                              end) (tl (text_lines t))
      end
  | CWrite m obs same =>
      (* deterministic bytes; read back = what was written: regular entries, sorted, same content *)
      same && files_eqb rle_eqb (map (fun o => (snd (fst o), snd o)) obs) (sort_files m)
      && forallb (fun o => fst (fst o)) obs
  | CArchive fc tc es obs =>
      match obs with
      | AObsOk files =>
          forallb (fun f => rle_len (snd f) <=? fc) files &&
          (fold_right (fun f acc => rle_len (snd f) + acc) 0 files <=? tc) &&
          (* only regular entries are kept, under their recorded names *)
          forallb (fun f => existsb (fun e => e_reg e && beqb (e_name e) (fst f) && rle_eqb (e_data e) (snd f)) es) files &&
          (* an oversized regular entry is never accepted *)
          negb (existsb (fun e => e_reg e && (fc <? rle_len (e_data e))) es)
      | _ => true
      end
  | CSource rows obs =>
      (* every served key is a valid, non-escaping path and its content was recorded in some row *)
      (* an entry is servable when its joined key is a valid path; a hostile row or name must be
         ignored, never take the honest rows down with it, let alone the process *)
      let servable := flat_map (fun row => flat_map (fun pd => let k := path_join2 (fst row) (fst pd) in
                                                               if valid_path k then [(k, snd pd)] else []) (snd row)) rows in
      match obs with
      | SCrashed => false
      | SRejected => match servable with [] => true | _ => false end
      | SServed o =>
          forallb (fun kd => negb (escapes (fst kd)) &&
                             existsb (fun row => existsb (fun pd => beqb (snd pd) (snd kd)) (snd row)) rows) o &&
          forallb (fun kd => match lookup o (fst kd) with Some d => beqb d (snd kd) | None => false end) servable
      end
  end.
