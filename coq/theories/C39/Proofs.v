(** C39 — proofs. *)
From Coq Require Import Permutation.
From Akita Require Import Lib.Base Lib.KeySort C37.Model C39.Model.
Local Open Scope N_scope.

Lemma beqb_eq a b : beqb a b = true <-> a = b.
Proof. apply listN_eqb_eq. Qed.

Lemma beqb_refl a : beqb a a = true.
Proof. apply beqb_eq. reflexivity. Qed.

(* ------------------------------------------------------------------ valid paths do not escape *)

Definition escapes (c : bytes) : bool :=
  has_prefix [slash] c || beqb c dotdot || has_prefix (dotdot ++ [slash]) c.

Lemma split_on_cons sep s cur : exists e r, split_on sep s cur = e :: r.
Proof.
  revert cur. induction s as [|b s IH]; intro cur; cbn [split_on]; [eauto|].
  destruct (b =? sep); eauto.
Qed.

Lemma valid_path_no_escape c : valid_path c = true -> escapes c = false.
Proof.
  unfold valid_path, escapes. intro H. apply andb_true_iff in H. destruct H as [_ H].
  apply orb_true_iff in H. destruct H as [H|H].
  - apply beqb_eq in H. subst. reflexivity.
  - destruct c as [|b0 r0]; [reflexivity|].
    destruct (N.eqb_spec b0 slash) as [->|Hb0].
    + (* absolute: the first element is empty *)
      exfalso. unfold split_slash in H. cbn [split_on] in H. change (slash =? slash) with true in H.
      cbn [rev forallb good_elem] in H. cbn in H. discriminate.
    + assert (E1 : has_prefix [slash] (b0 :: r0) = false).
      { cbn [has_prefix]. apply N.eqb_neq in Hb0. rewrite N.eqb_sym, Hb0. reflexivity. }
      rewrite E1. cbn [orb].
      destruct (beqb (b0 :: r0) dotdot) eqn:E2.
      { exfalso. apply beqb_eq in E2. rewrite E2 in H. vm_compute in H. discriminate. }
      cbn [orb].
      destruct (has_prefix (dotdot ++ [slash]) (b0 :: r0)) eqn:E3; [|reflexivity].
      exfalso. cbn [dotdot app has_prefix] in E3.
      destruct (N.eqb_spec 46 b0) as [<-|]; [|discriminate]. cbn [andb] in E3.
      destruct r0 as [|b1 r1]; [discriminate|].
      destruct (N.eqb_spec 46 b1) as [<-|]; [|discriminate]. cbn [andb] in E3.
      destruct r1 as [|b2 r2]; [discriminate|].
      destruct (N.eqb_spec slash b2) as [<-|]; [|discriminate].
      unfold split_slash in H. cbn [split_on] in H.
      change (46 =? slash) with false in H. change (slash =? slash) with true in H.
      cbn [rev app forallb] in H. change (good_elem [46; 46]) with false in H. discriminate.
Qed.

(* ------------------------------------------------------------------ lookups *)

Lemma lookup_in m k d : lookup m k = Some d -> In (k, d) m.
Proof.
  induction m as [|[k' d'] r IH]; cbn [lookup]; [discriminate|].
  destruct (beqb k' k) eqn:E.
  - intro H. injection H as <-. apply beqb_eq in E. subst. left. reflexivity.
  - intro H. right. apply IH. exact H.
Qed.

Lemma put_in m k d k0 d0 : In (k0, d0) (put m k d) -> (k0, d0) = (k, d) \/ In (k0, d0) m.
Proof.
  induction m as [|[k' d'] r IH]; cbn [put]; intro H.
  - destruct H as [H|[]]. left. symmetry. exact H.
  - destruct (beqb k' k).
    + destruct H as [H|H]; [left; symmetry; exact H|right; right; exact H].
    + destruct H as [H|H]; [right; left; exact H|].
      destruct (IH H) as [E|E]; [left; exact E|right; right; exact E].
Qed.

(* ------------------------------------------------------------------ the tools, for every request string *)

Lemma normalize_valid p c : normalize_read_path p = Some c -> valid_path c = true.
Proof.
  unfold normalize_read_path, normalize_read_path_with.
  destruct (trim_prefix space_dot_slash (trim_space p)) as [|b r]; [discriminate|].
  destruct (valid_path (path_clean (b :: r))) eqn:E; [|discriminate].
  intro H. injection H as <-. exact E.
Qed.

(** Whatever string is requested, code_read either refuses / reports not found,
    or works on a key [c] that is a valid (hence non-escaping) path and renders
    the content recorded under exactly that key. *)
Theorem code_read_only_recorded m p s e :
  match code_read m p s e with
  | RInvalid | RNotFound => True
  | REmpty c | RPastEnd c _ => valid_path c = true /\ escapes c = false /\ exists d, In (c, d) m
  | RText c t => valid_path c = true /\ escapes c = false /\
                 exists d from to, In (c, d) m /\ t = render_window c (split_lines d) from to
  end.
Proof.
  unfold code_read, code_read_with. fold (normalize_read_path p).
  destruct (normalize_read_path p) as [c|] eqn:En; [|exact I].
  pose proof (normalize_valid p c En) as Hv.
  pose proof (valid_path_no_escape c Hv) as He.
  fold (mapfs_open m c). unfold mapfs_open, mapfs_open_with. rewrite Hv. cbn [negb].
  destruct (lookup m c) as [d|] eqn:El.
  - apply lookup_in in El.
    destruct (split_lines d) as [|l ls] eqn:Es; [eauto|].
    destruct (resolve_window s e (Z.of_nat (length (l :: ls)))) as [|from to]; [eauto|].
    repeat split; try assumption. exists d, from, to. rewrite Es. split; [exact El|reflexivity].
  - destruct (beqb c dot); [exact I|]. destruct (rel_names m c); exact I.
Qed.

Theorem http_read_only_recorded mx m p :
  match http_code_read mx m p with
  | HOk c d n => valid_path c = true /\ escapes c = false /\ In (c, d) m /\ blen d <= mx /\ c = path_clean p
  | _ => True
  end.
Proof.
  unfold http_code_read, http_code_read_with. destruct p as [|b r]; [exact I|].
  destruct (valid_path (path_clean (b :: r))) eqn:Hv; cbn [negb]; [|exact I].
  unfold mapfs_open_with. rewrite Hv. cbn [negb].
  destruct (lookup m (path_clean (b :: r))) as [d|] eqn:El.
  - destruct (mx <? blen d) eqn:Ec; [exact I|].
    repeat split; try assumption; [apply valid_path_no_escape; exact Hv|apply lookup_in; exact El|lia].
  - destruct (beqb (path_clean (b :: r)) dot); [exact I|]. destruct (rel_names m (path_clean (b :: r))); exact I.
Qed.

Theorem code_ls_no_escape m hr p :
  match code_ls m hr p with
  | LIsFile c => valid_path c = true /\ escapes c = false /\ exists d, In (c, d) m
  | LDir c es => valid_path c = true /\ escapes c = false
  | _ => True
  end.
Proof.
  unfold code_ls, code_ls_with.
  set (p1 := trim_suffix [slash] (trim_prefix space_dot_slash (trim_space p))).
  destruct (beqb p1 [] || beqb p1 dot).
  - destruct hr; [exact I|]. unfold mapfs_open_with. change (valid_path dot) with true. cbn [negb].
    destruct (lookup m dot); [exact I|]. cbn [beqb]. rewrite beqb_refl. split; reflexivity.
  - destruct (valid_path (path_clean p1)) eqn:Hv; cbn [negb]; [|exact I].
    pose proof (valid_path_no_escape _ Hv) as He.
    unfold mapfs_open_with. rewrite Hv. cbn [negb].
    destruct (lookup m (path_clean p1)) as [d|] eqn:El.
    + repeat split; try assumption. exists d. apply lookup_in. exact El.
    + destruct (beqb (path_clean p1) dot); [split; assumption|].
      destruct (rel_names m (path_clean p1)); [exact I|split; assumption].
Qed.

(* ------------------------------------------------------------------ the trace source *)

Definition recorded (rows : list (bytes * list (bytes * bytes))) (k d : bytes) : Prop :=
  exists root files p, In (root, files) rows /\ In (p, d) files /\ k = path_join2 root p.

Lemma add_row_inv root files : forall m k d,
  In (k, d) (add_row_with valid_path m root files) ->
  In (k, d) m \/ (valid_path k = true /\ exists p, In (p, d) files /\ k = path_join2 root p).
Proof.
  unfold add_row_with. induction files as [|[p0 d0] r IH]; intros m k d H; cbn [fold_left] in H; [left; exact H|].
  apply IH in H. destruct H as [H|(Hv & p & Hp & Hk)].
  - cbn [fst snd] in H. destruct (valid_path (path_join2 root p0)) eqn:Ev; [|left; exact H].
    apply put_in in H. destruct H as [H|H]; [|left; exact H].
    injection H as -> ->. right. split; [exact Ev|]. exists p0. split; [left; reflexivity|reflexivity].
  - right. split; [exact Hv|]. exists p. split; [right; exact Hp|exact Hk].
Qed.

(** Every served key is a valid path and its content was recorded under that
    (root, name) — whatever order the rows and the archive maps are iterated in. *)
Theorem source_only_recorded rows k d :
  In (k, d) (open_trace_source rows) -> valid_path k = true /\ escapes k = false /\ recorded rows k d.
Proof.
  unfold open_trace_source, open_trace_source_with.
  assert (G : forall rs m, In (k, d) (fold_left (fun acc row => add_row_with valid_path acc (fst row) (snd row)) rs m) ->
              In (k, d) m \/ (valid_path k = true /\ exists root files p, In (root, files) rs /\ In (p, d) files /\ k = path_join2 root p)).
  { induction rs as [|[root files] r IH]; intros m H; cbn [fold_left] in H; [left; exact H|].
    apply IH in H. destruct H as [H|(Hv & root' & files' & p & Hr & Hp & Hk)].
    - cbn [fst snd] in H. apply add_row_inv in H. destruct H as [H|(Hv & p & Hp & Hk)]; [left; exact H|].
      right. split; [exact Hv|]. exists root, files, p. split; [left; reflexivity|split; assumption].
    - right. split; [exact Hv|]. exists root', files', p. split; [right; exact Hr|split; assumption]. }
  intro H. apply G in H. destruct H as [[]|(Hv & root & files & p & Hr & Hp & Hk)].
  split; [exact Hv|]. split; [apply valid_path_no_escape; exact Hv|].
  exists root, files, p. auto.
Qed.

(* ------------------------------------------------------------------ archives *)

Section Arch.
  Context {C : Type} (clen : C -> N).

  Theorem write_archive_deterministic (m m' : list (bytes * C)) :
    NoDup (map fst m) -> Permutation m m' -> write_archive m = write_archive m'.
  Proof.
    intros Hn Hp. unfold write_archive. f_equal.
    apply (ks_sort_perm_unique str_ltb str_ltb_irrefl str_ltb_trans str_ltb_tri); assumption.
  Qed.

  Definition total_len (m : list (bytes * C)) : N := fold_right (fun kd acc => clen (snd kd) + acc) 0 m.

  Lemma aput_fresh (m : list (bytes * C)) k d : ~ In k (map fst m) -> aput m k d = m ++ [(k, d)].
  Proof.
    induction m as [|[k' d'] r IH]; cbn [aput map fst In app]; intro H; [reflexivity|].
    destruct (beqb k' k) eqn:E; [apply beqb_eq in E; subst; exfalso; apply H; left; reflexivity|].
    rewrite IH; [reflexivity|]. intro Hin. apply H. right. exact Hin.
  Qed.

  Lemma aput_in (m : list (bytes * C)) k d k0 d0 : In (k0, d0) (aput m k d) -> (k0, d0) = (k, d) \/ In (k0, d0) m.
  Proof.
    induction m as [|[k' d'] r IH]; cbn [aput]; intro H.
    - destruct H as [H|[]]. left. symmetry. exact H.
    - destruct (beqb k' k).
      + destruct H as [H|H]; [left; symmetry; exact H|right; right; exact H].
      + destruct H as [H|H]; [right; left; exact H|].
        destruct (IH H) as [E|E]; [left; exact E|right; right; exact E].
  Qed.

  Lemma aput_total (m : list (bytes * C)) k d : total_len (aput m k d) <= total_len m + clen d.
  Proof.
    induction m as [|[k' d'] r IH]; cbn [aput total_len fold_right snd]; [lia|].
    destruct (beqb k' k); cbn [total_len fold_right snd]; [lia|]. fold (total_len (aput r k d)). fold (total_len r). lia.
  Qed.

  (** ReadArchive: what it returns is bounded per file and in total, and comes
      from regular entries only; an oversized regular entry met before the end
      makes it fail. *)
  Lemma read_archive_inv fc tc : forall es total files out,
    read_archive clen fc tc es total files = AOk out ->
    total_len files <= total -> total <= tc ->
    (forall k d, In (k, d) files -> clen d <= fc) ->
    total_len out <= tc /\
    (forall k d, In (k, d) out -> clen d <= fc) /\
    (forall k d, In (k, d) out -> In (k, d) files \/ In (mk_entry true k d) es) /\
    (forall e, In e es -> e_reg e = true -> clen (e_data e) <= fc).
  Proof.
    induction es as [|e r IH]; intros total files out H Ht Htc Hf; cbn [read_archive] in H.
    - injection H as <-. repeat split; try assumption; try lia.
      + intros k d Hin. left. exact Hin.
      + intros e [].
    - destruct (e_reg e) eqn:Er; cbn [negb] in H.
      + destruct (fc <? clen (e_data e)) eqn:Ec; [discriminate|].
        destruct (tc <? total + clen (e_data e)) eqn:Et; [discriminate|].
        apply IH in H.
        * destruct H as (H1 & H2 & H3 & H4). repeat split; try assumption.
          -- intros k d Hin. destruct (H3 k d Hin) as [Hin'|Hin'].
             ++ apply aput_in in Hin'. destruct Hin' as [E|Hin']; [|left; exact Hin'].
                injection E as -> ->. right. left. destruct e as [rg nm dt]. cbn in *. subst rg. reflexivity.
             ++ right. right. exact Hin'.
          -- intros e' [<-|Hin] Hr; [lia|apply H4; assumption].
        * pose proof (aput_total files (e_name e) (e_data e)). lia.
        * lia.
        * intros k d Hin. apply aput_in in Hin. destruct Hin as [E|Hin]; [injection E as -> ->; lia|eapply Hf; exact Hin].
      + apply IH in H; try assumption.
        destruct H as (H1 & H2 & H3 & H4). repeat split; try assumption.
        * intros k d Hin. destruct (H3 k d Hin) as [Hin'|Hin']; [left; exact Hin'|right; right; exact Hin'].
        * intros e' [<-|Hin] Hr; [congruence|apply H4; assumption].
  Qed.

  Theorem read_archive_caps fc tc es out :
    read_archive clen fc tc es 0 [] = AOk out ->
    total_len out <= tc /\
    (forall k d, In (k, d) out -> clen d <= fc /\ In (mk_entry true k d) es) /\
    (forall e, In e es -> e_reg e = true -> clen (e_data e) <= fc).
  Proof.
    intro H.
    assert (G := read_archive_inv fc tc es 0 [] out H).
    destruct G as (H1 & H2 & H3 & H4); [cbn; lia|lia|intros k d []|].
    split; [exact H1|]. split; [|exact H4].
    intros k d Hin. split; [eapply H2; exact Hin|].
    destruct (H3 k d Hin) as [[]|Hin']. exact Hin'.
  Qed.

  (** Round trip: reading back what WriteArchive wrote returns the same files
      (sorted), provided they are within the caps. *)
  Lemma read_written fc tc : forall (l files : list (bytes * C)) total,
    NoDup (map fst (files ++ l)) ->
    (forall kd, In kd l -> clen (snd kd) <= fc) ->
    total + total_len l <= tc ->
    read_archive clen fc tc (map (fun kd => mk_entry true (fst kd) (snd kd)) l) total files = AOk (files ++ l).
  Proof.
    induction l as [|[k d] r IH]; intros files total Hn Hf Ht; cbn [map read_archive].
    - rewrite app_nil_r. reflexivity.
    - cbn [e_reg negb e_data e_name fst snd].
      assert (Hd : clen d <= fc) by (apply (Hf (k, d)); left; reflexivity).
      destruct (fc <? clen d) eqn:E1; [lia|].
      cbn [total_len fold_right snd] in Ht. fold (total_len r) in Ht.
      destruct (tc <? total + clen d) eqn:E2; [lia|].
      rewrite aput_fresh.
      + rewrite IH.
        * rewrite <- app_assoc. reflexivity.
        * rewrite <- app_assoc. exact Hn.
        * intros kd Hin. apply Hf. right. exact Hin.
        * lia.
      + rewrite map_app in Hn. apply NoDup_remove_2 in Hn. intro Hin. apply Hn.
        apply in_or_app. left. exact Hin.
  Qed.

  Theorem archive_roundtrip fc tc (m : list (bytes * C)) :
    NoDup (map fst m) -> (forall kd, In kd m -> clen (snd kd) <= fc) -> total_len m <= tc ->
    read_archive clen fc tc (write_archive m) 0 [] = AOk (ks_sort str_ltb m) /\
    Permutation (ks_sort str_ltb m) m.
  Proof.
    intros Hn Hf Ht. split; [|apply ks_sort_perm].
    unfold write_archive.
    rewrite (read_written fc tc (ks_sort str_ltb m) [] 0).
    - reflexivity.
    - cbn [app]. apply ks_sort_keys_nodup. exact Hn.
    - intros kd Hin. apply Hf. apply (ks_sort_in str_ltb). exact Hin.
    - assert (E : total_len (ks_sort str_ltb m) = total_len m).
      { clear. pose proof (ks_sort_perm str_ltb m) as P. induction P; cbn [total_len fold_right] in *; try lia.
        fold (total_len l) in *. fold (total_len l') in *. lia. }
      lia.
  Qed.
End Arch.
