(** C16 — L1: the ideal memory controller refines flat memory: in every run of
    the tick-level model the requester-view automaton never rejects a
    RESPONSE; it can only reject a request of the environment (ill-formed,
    reused ID, or touching a byte in flight). *)
From Akita Require Import Lib.Base C16.Model C16.Proofs C16.Spec C16.Proofs2 C16.Ideal.
Local Open Scope N_scope.

Inductive blame := Ok (s : st) | BadRequest | BadResponse.

Fixpoint run_blame (s : st) (tr : list ev) : blame :=
  match tr with
  | [] => Ok s
  | e :: r =>
      match step s e with
      | Some s' => run_blame s' r
      | None => match e with Send _ => BadRequest | Recv _ _ _ _ => BadResponse end
      end
  end.

Lemma run_blame_ok s tr s' : run_blame s tr = Ok s' <-> run s tr = Some s'.
Proof.
  revert s; induction tr as [|e tr IH]; intro s; cbn.
  - split; intro H; inversion H; reflexivity.
  - destruct (step s e) as [s1|]; [apply IH|]. split; [destruct e; discriminate|discriminate].
Qed.

Lemma run_blame_app s a b :
  run_blame s (a ++ b) = match run_blame s a with Ok s' => run_blame s' b | x => x end.
Proof.
  revert s; induction a as [|e a IH]; intro s; cbn; [reflexivity|].
  destruct (step s e); [apply IH|destruct e; reflexivity].
Qed.

(** invariant between the controller and the automaton *)
Record K (store_ : store) (known : list req) (s : st) : Prop := {
  k_ref : forall x, mget store_ x = mget (ref s) x;
  k_pend : pend s = known;
  k_nodup : NoDup (ids known);
  k_seen : forall r, In r known -> In (r_id r) (seen s) }.

Lemma take_req_mid id : forall a r b, r_id r = id -> ~ In id (ids a) ->
  take_req id (a ++ r :: b) = Some (r, a ++ b).
Proof.
  induction a as [|x a IH]; intros r b Hid Hnot; cbn [app take_req].
  - rewrite Hid, N.eqb_refl. reflexivity.
  - destruct (r_id x =? id) eqn:E; [exfalso; apply Hnot; left; apply N.eqb_eq; exact E|].
    rewrite IH; auto. intro H. apply Hnot. right. exact H.
Qed.

Lemma load_ext m1 m2 a n : (forall x, mget m1 x = mget m2 x) -> load m1 a n = load m2 a n.
Proof. intro H. rewrite !load_map. apply map_ext. intro i. apply H. Qed.

Lemma listN_eqb_refl l : listN_eqb l l = true.
Proof. apply listN_eqb_eq. reflexivity. Qed.

Lemma NoDup_ids_mid a (r : req) b : NoDup (ids (a ++ r :: b)) -> ~ In (r_id r) (ids a) /\ NoDup (ids (a ++ b)).
Proof.
  unfold ids. rewrite !map_app. cbn [map]. intro H. split.
  - intro Hin. apply NoDup_remove_2 in H. apply H. apply in_or_app. left. exact Hin.
  - apply NoDup_remove_1 in H. exact H.
Qed.

(** the delivered requests: either the environment is at fault, or they all become known *)
Lemma deliver_blame : forall dl store_ known s rest,
  K store_ known s ->
  run_blame s (map Send dl ++ rest) = BadRequest \/
  exists s', K store_ (known ++ dl) s' /\ run_blame s (map Send dl ++ rest) = run_blame s' rest.
Proof.
  induction dl as [|r dl IH]; intros store_ known s rest HK.
  - right. exists s. rewrite app_nil_r. split; [exact HK|reflexivity].
  - cbn [map app run_blame]. destruct (step s (Send r)) as [s1|] eqn:Es; [|left; reflexivity].
    cbn [step] in Es.
    destruct (req_wf r && negb (existsb (N.eqb (r_id r)) (seen s)) && negb (existsb (overlap r) (pend s))) eqn:G;
      [|discriminate]. injection Es as <-.
    apply andb_true_iff in G. destruct G as [G _]. apply andb_true_iff in G. destruct G as [_ G2].
    apply negb_true_iff in G2. destruct HK as [H1 H2 H3 H4].
    assert (HK1 : K store_ (known ++ [r]) (St (ref s) (pend s ++ [r]) (r_id r :: seen s))).
    { constructor; cbn [ref pend seen].
      - exact H1.
      - rewrite H2. reflexivity.
      - unfold ids. rewrite map_app. cbn [map]. apply NoDup_app_snoc; [exact H3|].
        intro Hin. apply in_map_iff in Hin. destruct Hin as [x [Hx Hin]].
        assert (existsb (N.eqb (r_id r)) (seen s) = true).
        { apply existsb_eqb_in. rewrite <- Hx. apply H4. exact Hin. }
        congruence.
      - intros x Hx. apply in_app_iff in Hx. destruct Hx as [Hx|[<-|[]]]; [right; apply H4; exact Hx|left; reflexivity]. }
    destruct (IH store_ (known ++ [r]) _ rest HK1) as [Hb|[s' [HK' Hr]]]; [left; exact Hb|].
    right. exists s'. rewrite <- app_assoc in HK'. split; [exact HK'|exact Hr].
Qed.

Lemma take_new_known width lat : forall inq fl inq' fl',
  take_new width lat inq fl = (inq', fl') -> map t_req fl' ++ inq' = map t_req fl ++ inq.
Proof.
  induction width as [|k IH]; intros inq fl inq' fl' H; cbn [take_new] in H.
  - destruct inq; injection H as <- <-; reflexivity.
  - destruct inq as [|r rest]; [injection H as <- <-; reflexivity|].
    apply IH in H. rewrite H, map_app, <- app_assoc. reflexivity.
Qed.

(** the countdown loop never produces a response the automaton rejects *)
Lemma countdown_blame cap : forall fl store_ out kept inq s store' out' rem rest,
  countdown cap store_ out fl = Some (store', out', rem) ->
  K store_ (map t_req kept ++ map t_req fl ++ inq) s ->
  exists s' new, out' = out ++ new /\
    K store' (map t_req kept ++ map t_req rem ++ inq) s' /\
    run_blame s (new ++ rest) = run_blame s' rest.
Proof.
  induction fl as [|t fl IH]; intros store_ out kept inq s store' out' rem rest Hc HK; cbn [countdown] in Hc.
  - injection Hc as <- <- <-. exists s, []. split; [rewrite app_nil_r; reflexivity|]. split; [exact HK|reflexivity].
  - set (left := if 0 <? t_left t then t_left t - 1 else 0) in *. set (r := t_req t) in *.
    destruct ((left =? 0) && Nat.ltb (length out) cap) eqn:G.
    + (* a response is produced *)
      destruct HK as [H1 H2 H3 H4]. cbn [map app] in H2, H3, H4. fold r in H2, H3, H4.
      destruct (NoDup_ids_mid _ _ _ H3) as [Hnot Hnd'].
      assert (Htake : take_req (r_id r) (pend s) = Some (r, map t_req kept ++ map t_req fl ++ inq)).
      { rewrite H2. apply take_req_mid; auto. }
      destruct (r_write r) eqn:Ew.
      * destruct (rmw_write store_ (r_addr r) (r_data r) (r_mask r)) as [st1|] eqn:Erm; [|discriminate].
        set (s1 := St (write_flat (ref s) (r_addr r) (r_data r) (r_mask r) 0)
                      (map t_req kept ++ map t_req fl ++ inq) (seen s)).
        assert (HK1 : K st1 (map t_req kept ++ map t_req fl ++ inq) s1).
        { constructor; unfold s1; cbn [ref pend seen].
          - intro x. rewrite (rmw_is_flat_write _ _ _ _ _ Erm x). rewrite !write_flat_spec.
            destruct (dirty_at (r_addr r) (r_data r) (r_mask r) 0 x); [reflexivity|apply H1].
          - reflexivity.
          - exact Hnd'.
          - intros x Hx. apply H4. apply in_app_iff in Hx. apply in_or_app.
            destruct Hx as [Hx|Hx]; [left; exact Hx|right; right; exact Hx]. }
        destruct (IH _ _ _ _ _ _ _ _ rest Hc HK1) as [s' [new [Ho [HK' Hr]]]].
        exists s', (response store_ r :: new). split; [rewrite Ho, <- app_assoc; reflexivity|].
        split; [exact HK'|]. cbn [app run_blame]. unfold response. rewrite Ew. cbn [step].
        rewrite Htake, listN_eqb_refl. cbn [negb]. rewrite Ew. exact Hr.
      * set (s1 := St (ref s) (map t_req kept ++ map t_req fl ++ inq) (seen s)).
        assert (HK1 : K store_ (map t_req kept ++ map t_req fl ++ inq) s1).
        { constructor; unfold s1; cbn [ref pend seen].
          - exact H1.
          - reflexivity.
          - exact Hnd'.
          - intros x Hx. apply H4. apply in_app_iff in Hx. apply in_or_app.
            destruct Hx as [Hx|Hx]; [left; exact Hx|right; right; exact Hx]. }
        destruct (IH _ _ _ _ _ _ _ _ rest Hc HK1) as [s' [new [Ho [HK' Hr]]]].
        exists s', (response store_ r :: new). split; [rewrite Ho, <- app_assoc; reflexivity|].
        split; [exact HK'|]. cbn [app run_blame]. unfold response. rewrite Ew. cbn [step].
        rewrite Htake, listN_eqb_refl. cbn [negb]. rewrite Ew.
        rewrite (load_ext store_ (ref s)) by exact H1. rewrite listN_eqb_refl. cbn [andb]. exact Hr.
    + (* kept in flight *)
      destruct (countdown cap store_ out fl) as [[[st1 out1] rem1]|] eqn:Ec; [|discriminate].
      injection Hc as <- <- <-.
      assert (HK1 : K store_ (map t_req (kept ++ [t]) ++ map t_req fl ++ inq) s).
      { rewrite map_app, <- app_assoc. exact HK. }
      destruct (IH _ _ (kept ++ [t]) _ _ _ _ _ rest Ec HK1) as [s' [new [Ho [HK' Hr]]]].
      exists s', new. split; [exact Ho|]. split; [|exact Hr].
      rewrite map_app, <- app_assoc in HK'. exact HK'.
Qed.

Lemma skipn_app_exact {A} (a b : list A) : skipn (length a) (a ++ b) = b.
Proof. induction a; cbn; auto. Qed.

(** main L1 theorem *)
Theorem ideal_never_at_fault width lat cap : forall sched ms s h,
  K (i_store ms) (map t_req (i_flight ms) ++ i_in ms) s ->
  history width lat cap ms sched = Some h ->
  run_blame s h <> BadResponse.
Proof.
  induction sched as [|sl sched IH]; intros ms s h HK Hh; cbn [history] in Hh.
  - injection Hh as <-. cbn. discriminate.
  - unfold tick in Hh. cbn [i_in i_flight i_store i_out] in Hh.
    destruct (take_new width lat (i_in ms ++ sl_deliver sl) (i_flight ms)) as [inq fl] eqn:Et.
    destruct (countdown cap (i_store ms) (i_out ms) fl) as [[[st1 out1] rem]|] eqn:Ec; [|discriminate].
    cbn [i_in i_flight i_store i_out] in Hh.
    destruct (history width lat cap (ISt st1 inq rem (skipn (sl_drain sl) out1)) sched) as [h'|] eqn:Eh; [|discriminate].
    injection Hh as <-.
    destruct (deliver_blame (sl_deliver sl) _ _ s (produced (i_out ms) out1 ++ h') HK) as [Hb|[s1 [HK1 Hr1]]].
    + rewrite Hb. discriminate.
    + rewrite Hr1. rewrite <- app_assoc in HK1. rewrite <- (take_new_known _ _ _ _ _ _ Et) in HK1.
      destruct (countdown_blame cap fl _ _ [] inq s1 _ _ _ h' Ec HK1) as [s2 [new [Ho [HK2 Hr2]]]].
      unfold produced. rewrite Ho, skipn_app_exact. rewrite Hr2.
      apply (IH (ISt st1 inq rem (skipn (sl_drain sl) out1)) s2 h'); [|exact Eh].
      cbn [i_store i_flight i_in]. exact HK2.
Qed.
