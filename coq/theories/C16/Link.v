(** C16 — link between the two evaluators of the controller-kernel cases:
    agreement with the model implies the flat-memory property. *)
From Akita Require Import Lib.Base C16.Model C16.Proofs C16.Ideal C16.Exec C16.Proofs3.
Local Open Scope N_scope.

Definition peq (m1 m2 : store) : Prop := forall x, mget m1 x = mget m2 x.

Lemma write_flat_peq m1 m2 a d k : peq m1 m2 -> peq (write_flat m1 a d k 0) (write_flat m2 a d k 0).
Proof. intros H x. rewrite !write_flat_spec. destruct (dirty_at a d k 0 x); auto. Qed.

Lemma ctl_model_flat : forall ws m1 m2 m', peq m1 m2 -> ctl_model m1 ws = Some m' -> peq m' (ctl_flat m2 ws).
Proof.
  induction ws as [|[[a d] k] ws IH]; intros m1 m2 m' Hp H; cbn [ctl_model ctl_flat] in *.
  - injection H as <-. exact Hp.
  - destruct (rmw_write m1 a d k) as [m1'|] eqn:E; [|discriminate]. apply (IH m1'); [|exact H].
    intro x. rewrite (rmw_is_flat_write _ _ _ _ _ E x). apply write_flat_peq. exact Hp.
Qed.

Lemma ctl_model_total : forall ws m, masks_ok ws = true -> exists m', ctl_model m ws = Some m'.
Proof.
  induction ws as [|[[a d] k] ws IH]; intros m H; cbn [ctl_model]; [eauto|].
  cbn [masks_ok forallb] in H. apply andb_true_iff in H. destruct H as [H1 H2].
  destruct (rmw_total m a d k) as [m1 ->].
  - destruct k as [l|]; [|exact I]. apply Nat.eqb_eq in H1. lia.
  - apply IH. exact H2.
Qed.

Theorem ctl_agreement_implies_property init base ws final :
  check_case (KCtl init base ws final) = true -> holds_on (KCtl init base ws final) = true.
Proof.
  cbn [check_case holds_on]. intro H. destruct (masks_ok ws) eqn:Em; [|reflexivity].
  destruct (ctl_model_total ws (save empty_store base init) Em) as [m' Hm]. rewrite Hm in H.
  destruct final as [f|]; [|discriminate]. cbn [opt_eqb] in H. apply listN_eqb_eq in H. subst f.
  apply listN_eqb_eq. apply load_ext. apply (ctl_model_flat ws _ _ _ (fun x => eq_refl) Hm).
Qed.
