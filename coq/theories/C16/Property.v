(** C16 — memory hierarchies are transparent to requesters.  Property theorems only. *)
From Akita Require Import Lib.Base C16.Model C16.Proofs C16.Spec C16.Proofs2 C16.Ideal C16.Proofs3.
Local Open Scope N_scope.

(** L0.  The masked read-modify-write performed by the ideal controller, the
    simple banked memory and the DRAM controller yields, for every store,
    address, data and mask, exactly the flat memory in which the masked bytes
    (all bytes for a nil mask) are replaced and every other byte is unchanged. *)
Theorem merge_is_flat_write : forall m addr data mask m',
  rmw_write m addr data mask = Some m' ->
  forall x, mget m' x =
    if dirty_at addr data mask 0 x then nth (N.to_nat (x - addr)) data 0 else mget m x.
Proof.
  intros m addr data mask m' H x. rewrite (rmw_is_flat_write _ _ _ _ _ H). apply write_flat_spec.
Qed.
Print Assumptions merge_is_flat_write.

(** the write never fails when the mask is at least as long as the data *)
Theorem c16_rmw_total : forall m addr data mask,
  match mask with Some l => (length data <= length l)%nat | None => True end ->
  exists m', rmw_write m addr data mask = Some m'.
Proof. exact rmw_total. Qed.
Print Assumptions c16_rmw_total.

(** the in-line merges of the caches are the same flat write on the line *)
Theorem c16_line_merge_is_flat_write : forall buf off data mask res,
  merge_at buf off data mask = Some res ->
  length res = length buf /\
  forall j, (j < length buf)%nat ->
    nth j res 0 = mget (write_flat (save empty_store 0 buf) (N.of_nat off) data mask 0) (N.of_nat j).
Proof. exact merge_at_is_flat_write. Qed.
Print Assumptions c16_line_merge_is_flat_write.

(** regression lemma for the pre-fix DRAM write (mask ignored) *)
Theorem c16_dram_write_old_refuted :
  exists m addr data mask m', dram_write_old m addr data mask = Some m' /\
    mget m' 1 <> mget (write_flat m addr data mask 0) 1.
Proof. exact dram_write_old_refuted. Qed.
Print Assumptions c16_dram_write_old_refuted.

(** L2.  Soundness of the requester-view acceptor: every accepted history of a
    requester's port satisfies the declarative statement [Spec.Declarative]
    (requests well formed, fresh and byte-disjoint in flight; every response
    answers a request in flight with the matching kind, addressed to its sender;
    every read returns for each byte the latest acknowledged write in
    acknowledgement order, zero if never written; nothing unanswered at the end). *)
Theorem accepts_sound : forall tr, accepts tr = true -> Declarative tr.
Proof. exact accepts_sound_proof. Qed.
Print Assumptions accepts_sound.

(** Consequence: every request receives exactly one response, after it was sent. *)
Theorem c16_exactly_one_response : forall tr, accepts tr = true ->
  forall k r, nth_error tr k = Some (Send r) ->
    (exists j isd dst data, (k < j)%nat /\ nth_error tr j = Some (Recv isd (r_id r) dst data)) /\
    (forall j1 j2 i1 d1 x1 i2 d2 x2,
        nth_error tr j1 = Some (Recv i1 (r_id r) d1 x1) ->
        nth_error tr j2 = Some (Recv i2 (r_id r) d2 x2) -> j1 = j2).
Proof. intros tr H. apply exactly_one_response. apply accepts_sound. exact H. Qed.
Print Assumptions c16_exactly_one_response.

(** the flat memory of the statement is the fold of the masked writes (L0 meets L2) *)
Theorem c16_latest_is_flat_write : forall ws w a,
  latest (ws ++ [w]) a =
  if dirty_at (r_addr w) (r_data w) (r_mask w) 0 a then nth (N.to_nat (a - r_addr w)) (r_data w) 0
  else latest ws a.
Proof. exact latest_snoc. Qed.
Print Assumptions c16_latest_is_flat_write.

(** L1.  The tick-level model of the ideal memory controller (exactly tied to
    the real component tick by tick) refines flat memory: for every latency,
    width, outgoing-buffer capacity and every schedule of deliveries and
    partial retrievals (back-pressure), the requester-view automaton never
    rejects a RESPONSE of the controller: every response answers a known
    request exactly once with the matching kind, RspTo and Dst, reads carry
    the flat-memory bytes, write acknowledgements apply the masked write.  The
    only possible rejection is a request of the environment (ill-formed,
    reused ID, or touching a byte in flight) — and when there is none, the
    whole history is accepted. *)
Theorem c16_ideal_transparent : forall width lat cap sched h,
  history width lat cap (ist0 empty_store) sched = Some h ->
  run_blame st0 h <> BadResponse /\
  (run_blame st0 h <> BadRequest -> exists s, run st0 h = Some s).
Proof.
  intros width lat cap sched h Hh.
  assert (HK : K (i_store (ist0 empty_store)) (map t_req (i_flight (ist0 empty_store)) ++ i_in (ist0 empty_store)) st0).
  { constructor; cbn; try reflexivity; try constructor. intros r []. }
  pose proof (ideal_never_at_fault width lat cap sched _ _ h HK Hh) as H1. split; [exact H1|].
  intro H2. destruct (run_blame st0 h) as [s| |] eqn:E; try congruence.
  exists s. apply run_blame_ok. exact E.
Qed.
Print Assumptions c16_ideal_transparent.

Example c16_ideal_nonvacuous :
  let src := [82] in
  let w := Rq 1 true 8 2 [5; 6] (Some [true; false]) src in
  let r := Rq 2 false 8 2 [] None src in
  exists h, history 1 2 1 (ist0 empty_store)
              [Slot [w] 0; Slot [] 0; Slot [] 1; Slot [r] 1; Slot [] 1; Slot [] 1; Slot [] 1] = Some h /\
            accepts h = true /\ In (Recv true 2 src [5; 0]) h.
Proof. eexists. split; [vm_compute; reflexivity|]. split; [vm_compute; reflexivity|]. vm_compute. tauto. Qed.

(** non-vacuity: a history with two in-flight requests, a masked write and reads is accepted;
    dropping the write's data (a read of stale zeros after the acknowledgement) is rejected *)
Example c16_accepts_nonvacuous :
  let src := [65; 46; 77] in
  let w := Rq 1 true 100 4 [9; 8; 7; 6] (Some [true; false; true; true]) src in
  let r1 := Rq 2 false 200 2 [] None src in
  let r2 := Rq 3 false 99 4 [] None src in
  accepts [Send w; Send r1; Recv true 2 src [0; 0]; Recv false 1 src []; Send r2; Recv true 3 src [0; 9; 0; 7]] = true /\
  accepts [Send w; Recv false 1 src []; Send r2; Recv true 3 src [0; 0; 0; 0]] = false /\
  accepts [Send w; Send r2] = false /\
  accepts [Send w; Recv false 1 src []; Recv false 1 src []] = false /\
  accepts [Send w] = false.
Proof. vm_compute. repeat split; reflexivity. Qed.

Example c16_merge_nonvacuous :
  exists m', rmw_write (save empty_store 10 [1; 2; 3; 4]) 11 [9; 8; 7] (Some [true; false; true]) = Some m' /\
             load m' 10 4 = [1; 9; 3; 7].
Proof. eexists. split; [reflexivity|]. vm_compute. reflexivity. Qed.

(** Link between the two evaluators on the controller-kernel cases: whenever
    the real controller's final storage equals the model's, it equals the flat
    memory (the predicate [Exec.holds_on] evaluated on the observed bytes). *)
From Akita Require Import C16.Exec C16.Link.
Theorem c16_model_agreement_implies_property : forall init base ws final,
  check_case (KCtl init base ws final) = true -> holds_on (KCtl init base ws final) = true.
Proof. exact ctl_agreement_implies_property. Qed.
Print Assumptions c16_model_agreement_implies_property.
