(** C16 — memory hierarchies are transparent to requesters.  Property theorems only. *)
From Akita Require Import Lib.Base C16.Model C16.Proofs.
Local Open Scope N_scope.

(** L0.  The masked read-modify-write performed by the ideal controller, the
    simple banked memory and the DRAM controller yields, for every store,
    address, data and mask, exactly the flat memory in which the masked bytes
    (all bytes for a nil mask) are replaced and every other byte is unchanged. *)
Theorem merge_is_flat_write : forall m addr data mask m',
  rmw_write m addr data mask = Some m' ->
  forall x, mget m' x =
    if dirty_at addr data mask 0 x then nth (N.to_nat (x - addr)) data 0 else mget m x.
Proof.
  intros m addr data mask m' H x. rewrite (rmw_is_flat_write _ _ _ _ _ H). apply write_flat_spec.
Qed.
Print Assumptions merge_is_flat_write.

(** the write never fails when the mask is at least as long as the data *)
Theorem c16_rmw_total : forall m addr data mask,
  match mask with Some l => (length data <= length l)%nat | None => True end ->
  exists m', rmw_write m addr data mask = Some m'.
Proof. exact rmw_total. Qed.
Print Assumptions c16_rmw_total.

(** the in-line merges of the caches are the same flat write on the line *)
Theorem c16_line_merge_is_flat_write : forall buf off data mask res,
  merge_at buf off data mask = Some res ->
  length res = length buf /\
  forall j, (j < length buf)%nat ->
    nth j res 0 = mget (write_flat (save empty_store 0 buf) (N.of_nat off) data mask 0) (N.of_nat j).
Proof. exact merge_at_is_flat_write. Qed.
Print Assumptions c16_line_merge_is_flat_write.

(** regression lemma for the pre-fix DRAM write (mask ignored) *)
Theorem c16_dram_write_old_refuted :
  exists m addr data mask m', dram_write_old m addr data mask = Some m' /\
    mget m' 1 <> mget (write_flat m addr data mask 0) 1.
Proof. exact dram_write_old_refuted. Qed.
Print Assumptions c16_dram_write_old_refuted.

Example c16_merge_nonvacuous :
  exists m', rmw_write (save empty_store 10 [1; 2; 3; 4]) 11 [9; 8; 7] (Some [true; false; true]) = Some m' /\
             load m' 10 4 = [1; 9; 3; 7].
Proof. eexists. split; [reflexivity|]. vm_compute. reflexivity. Qed.
