(** C16 — L2: the requester-view acceptor is sound for the declarative statement. *)
From Akita Require Import Lib.Base C16.Model C16.Proofs C16.Spec.
Local Open Scope N_scope.

Definition ids (l : list req) : list N := map r_id l.

(** * prefix functions under extension by one event *)

Lemma sends_app p q : sends (p ++ q) = sends p ++ sends q.
Proof. unfold sends. apply flat_map_app. Qed.

Lemma answered_app p q id : answered (p ++ q) id = answered p id || answered q id.
Proof. unfold answered. apply existsb_app. Qed.

Lemma filter_filter {A} (f g : A -> bool) l :
  filter f (filter g l) = filter (fun x => g x && f x) l.
Proof.
  induction l as [|x l IH]; cbn; auto. destruct (g x) eqn:Eg; cbn; [destruct (f x); cbn; rewrite IH; reflexivity|exact IH].
Qed.

Lemma filter_ext_in {A} (f g : A -> bool) l : (forall x, In x l -> f x = g x) -> filter f l = filter g l.
Proof.
  induction l as [|x l IH]; intro H; cbn; auto. rewrite (H x (or_introl eq_refl)).
  rewrite IH; [reflexivity|]. intros y Hy. apply H. right. exact Hy.
Qed.

Lemma pending_send p r : answered p (r_id r) = false ->
  pending_of (p ++ [Send r]) = pending_of p ++ [r].
Proof.
  intro H. unfold pending_of. rewrite sends_app. cbn [sends flat_map app]. rewrite filter_app.
  cbn [filter]. rewrite answered_app. cbn [answered existsb]. rewrite H. cbn [orb negb].
  f_equal. apply filter_ext_in. intros x _. rewrite answered_app. cbn. rewrite orb_false_r. reflexivity.
Qed.

Lemma pending_recv p isd id dst data :
  pending_of (p ++ [Recv isd id dst data]) = filter (fun r => negb (r_id r =? id)) (pending_of p).
Proof.
  unfold pending_of. rewrite sends_app. cbn [sends flat_map app]. rewrite app_nil_r.
  rewrite filter_filter. apply filter_ext_in. intros x _. rewrite answered_app. cbn [answered existsb].
  rewrite orb_false_r, negb_orb. rewrite (N.eqb_sym id). reflexivity.
Qed.

(** * taking a request out of the pending list *)

Lemma take_req_spec id : forall l r rest,
  take_req id l = Some (r, rest) -> NoDup (ids l) ->
  In r l /\ r_id r = id /\ rest = filter (fun x => negb (r_id x =? id)) l.
Proof.
  induction l as [|x l IH]; intros r rest H Hnd; cbn [take_req] in H; [discriminate|].
  inversion Hnd as [|? ? Hnotin Hnd']; subst.
  destruct (r_id x =? id) eqn:E.
  - injection H as <- <-. apply N.eqb_eq in E. split; [left; reflexivity|]. split; [exact E|].
    cbn [filter]. rewrite (proj2 (N.eqb_eq _ _) E). cbn [negb].
    symmetry. assert (Hall : forall y, In y l -> negb (r_id y =? id) = true).
    { intros y Hy. apply negb_true_iff. apply N.eqb_neq. intro Hyid. apply Hnotin. rewrite E, <- Hyid.
      apply in_map. exact Hy. }
    clear -Hall. induction l as [|y l IHl]; cbn; auto. rewrite (Hall y (or_introl eq_refl)).
    f_equal. apply IHl. intros z Hz. apply Hall. right. exact Hz.
  - destruct (take_req id l) as [[x' rest']|] eqn:Et; [|discriminate]. injection H as <- <-.
    destruct (IH _ _ eq_refl Hnd') as [H1 [H2 H3]]. split; [right; exact H1|]. split; [exact H2|].
    cbn [filter]. rewrite E. cbn [negb]. f_equal. exact H3.
Qed.

Lemma take_req_none id : forall l, take_req id l = None -> forall r, In r l -> r_id r <> id.
Proof.
  induction l as [|x l IH]; intros H r Hin; [destruct Hin|]. cbn [take_req] in H.
  destruct (r_id x =? id) eqn:E; [discriminate|]. destruct (take_req id l) as [[? ?]|] eqn:Et; [discriminate|].
  destruct Hin as [<-|Hin]; [apply N.eqb_neq; exact E|]. apply IH; auto.
Qed.

Lemma NoDup_ids_filter f l : NoDup (ids l) -> NoDup (ids (filter f l)).
Proof.
  unfold ids. induction l as [|x l IH]; intro H; cbn; [constructor|]. inversion H; subst.
  destruct (f x); cbn; [constructor|]; auto. intro Hin. apply in_map_iff in Hin.
  destruct Hin as [y [Hy Hin]]. apply filter_In in Hin. destruct Hin as [Hin _].
  apply H2. rewrite <- Hy. apply in_map. exact Hin.
Qed.

Lemma find_unique id : forall l r, NoDup (ids l) -> In r l -> r_id r = id ->
  find (fun x => r_id x =? id) l = Some r.
Proof.
  induction l as [|x l IH]; intros r Hnd Hin Hid; [destruct Hin|]. inversion Hnd as [|? ? Hnotin Hnd']; subst.
  cbn [find]. destruct Hin as [->|Hin].
  - rewrite N.eqb_refl. reflexivity.
  - destruct (r_id x =? r_id r) eqn:E; [|apply IH; auto]. exfalso. apply N.eqb_eq in E.
    apply Hnotin. rewrite E. apply in_map. exact Hin.
Qed.

Lemma find_app_found {A} (f : A -> bool) l l' x : find f l = Some x -> find f (l ++ l') = Some x.
Proof. induction l as [|y l IH]; cbn; [discriminate|]. destruct (f y); auto. Qed.

Lemma NoDup_app_snoc {A} (l : list A) x : NoDup l -> ~ In x l -> NoDup (l ++ [x]).
Proof.
  induction l as [|y l IH]; intros Hnd Hx; cbn; [constructor; [intros []|constructor]|].
  inversion Hnd; subst. constructor.
  - rewrite in_app_iff. intros [H|[H|[]]]; [auto|]. apply Hx. left. auto.
  - apply IH; auto. intro H. apply Hx. right. exact H.
Qed.

(** * latest write = the flat store *)

Lemma latest_snoc ws w a : latest (ws ++ [w]) a = if covers w a then byte_of w a else latest ws a.
Proof. unfold latest. rewrite rev_app_distr. cbn [rev app find]. destruct (covers w a); reflexivity. Qed.

(** * the invariant linking the acceptor state to the prefix *)

Record Inv (p : list ev) (s : st) : Prop := {
  inv_pend : pend s = pending_of p;
  inv_seen : forall id, In id (seen s) <-> In id (ids (sends p));
  inv_nodup : NoDup (ids (sends p));
  inv_ans : forall id, answered p id = true -> In id (ids (sends p));
  inv_ref : forall a, mget (ref s) a = latest (acked_of p) a }.

Lemma inv_init : Inv [] st0.
Proof.
  constructor.
  - reflexivity.
  - intro id. cbn. tauto.
  - constructor.
  - intros id H. discriminate.
  - intro a. apply mget_empty.
Qed.

Lemma existsb_eqb_in id l : existsb (N.eqb id) l = true <-> In id l.
Proof.
  rewrite existsb_exists. split.
  - intros [x [Hx He]]. apply N.eqb_eq in He. subst. exact Hx.
  - intro H. exists id. split; [exact H|apply N.eqb_refl].
Qed.

(** acknowledgements of a prefix do not change when the prefix grows *)
Lemma acked_flat_map_ext p e :
  (forall id, answered p id = true -> In id (ids (sends p))) ->
  flat_map (fun e0 => match e0 with
                      | Recv _ id _ _ => match req_of (p ++ [e]) id with
                                         | Some r => if r_write r then [r] else []
                                         | None => [] end
                      | Send _ => [] end) p = acked_of p.
Proof.
  intro Hans. unfold acked_of.
  assert (Hgen : forall q, (forall id, answered q id = true -> In id (ids (sends p))) ->
    flat_map (fun e0 => match e0 with
                      | Recv _ id _ _ => match req_of (p ++ [e]) id with
                                         | Some r => if r_write r then [r] else []
                                         | None => [] end
                      | Send _ => [] end) q =
    flat_map (fun e0 => match e0 with
                      | Recv _ id _ _ => match req_of p id with
                                         | Some r => if r_write r then [r] else []
                                         | None => [] end
                      | Send _ => [] end) q).
  { induction q as [|e0 q IH]; intro Hq; [reflexivity|]. cbn [flat_map]. f_equal.
    - destruct e0 as [r0|isd id dst data]; [reflexivity|].
      assert (Hin : In id (ids (sends p))). { apply Hq. unfold answered. cbn [existsb]. rewrite N.eqb_refl. reflexivity. }
      unfold req_of. rewrite sends_app.
      destruct (find (fun r => r_id r =? id) (sends p)) as [r|] eqn:Ef.
      + rewrite (find_app_found _ _ _ _ Ef). reflexivity.
      + exfalso. unfold ids in Hin. apply in_map_iff in Hin. destruct Hin as [r [Hr Hin]].
        pose proof (find_none _ _ Ef r Hin) as Hn. cbn in Hn. rewrite Hr, N.eqb_refl in Hn. discriminate.
    - apply IH. intros id Hid. apply Hq. unfold answered in *. cbn [existsb]. rewrite Hid. apply orb_true_r. }
  apply Hgen. exact Hans.
Qed.

Lemma acked_send p r :
  (forall id, answered p id = true -> In id (ids (sends p))) ->
  acked_of (p ++ [Send r]) = acked_of p.
Proof.
  intro Hans. unfold acked_of at 1. rewrite flat_map_app. cbn [flat_map]. rewrite app_nil_r.
  apply acked_flat_map_ext. exact Hans.
Qed.

Lemma acked_recv p isd id dst data r :
  (forall i, answered p i = true -> In i (ids (sends p))) ->
  req_of p id = Some r ->
  acked_of (p ++ [Recv isd id dst data]) = acked_of p ++ (if r_write r then [r] else []).
Proof.
  intros Hans Hr. unfold acked_of at 1. rewrite flat_map_app. cbn [flat_map]. rewrite app_nil_r.
  rewrite acked_flat_map_ext by exact Hans. f_equal.
  unfold req_of in *. rewrite sends_app. cbn [sends flat_map]. rewrite app_nil_r. rewrite Hr. reflexivity.
Qed.

Lemma load_map m a n : load m a n = map (fun i => mget m (a + N.of_nat i)) (seq 0 n).
Proof.
  revert a; induction n as [|n IH]; intro a; [reflexivity|]. cbn [load seq map].
  f_equal; [f_equal; lia|]. rewrite IH. rewrite <- seq_shift, map_map. apply map_ext. intro i. f_equal. lia.
Qed.

(** the clause of the declarative statement for one event after prefix [p] *)
Definition Clause (p : list ev) (e : ev) : Prop :=
  match e with
  | Send r =>
      req_wf r = true /\
      (forall r', In r' (sends p) -> r_id r' <> r_id r) /\
      (forall r', In r' (pending_of p) -> overlap r r' = false)
  | Recv isd rspto dst data =>
      exists r, In r (pending_of p) /\ r_id r = rspto /\ dst = r_src r /\
        isd = negb (r_write r) /\
        (r_write r = false -> data = map (latest (acked_of p)) (addresses r))
  end.

Lemma step_inv p s e s' :
  Inv p s -> step s e = Some s' -> Inv (p ++ [e]) s' /\ Clause p e.
Proof.
  intros [Hpend Hseen Hnd Hans Href] Hstep. destruct e as [r|isd id dst data]; cbn [step] in Hstep.
  - (* Send *)
    destruct (req_wf r && negb (existsb (N.eqb (r_id r)) (seen s)) && negb (existsb (overlap r) (pend s))) eqn:G;
      [|discriminate]. injection Hstep as <-.
    apply andb_true_iff in G. destruct G as [G G3]. apply andb_true_iff in G. destruct G as [G1 G2].
    apply negb_true_iff in G2, G3.
    assert (Hfresh : ~ In (r_id r) (ids (sends p))).
    { intro Hin. apply Hseen in Hin. apply existsb_eqb_in in Hin. congruence. }
    assert (Hna : answered p (r_id r) = false).
    { destruct (answered p (r_id r)) eqn:E; [|reflexivity]. exfalso. apply Hfresh. apply Hans. exact E. }
    split.
    + constructor; cbn [pend seen ref].
      * rewrite pending_send by exact Hna. rewrite Hpend. reflexivity.
      * intro id. rewrite sends_app. unfold ids. rewrite map_app, in_app_iff. cbn [sends flat_map map app In].
        rewrite Hseen. unfold ids. tauto.
      * rewrite sends_app. unfold ids. rewrite map_app. cbn [sends flat_map map app].
        apply NoDup_app_snoc; auto.
      * intros id Hid. rewrite answered_app in Hid. cbn in Hid. rewrite orb_false_r in Hid.
        rewrite sends_app. unfold ids. rewrite map_app, in_app_iff. left. apply Hans. exact Hid.
      * intro a. rewrite acked_send by exact Hans. apply Href.
    + cbn [Clause]. split; [exact G1|]. split.
      * intros r' Hr' Heq. apply Hfresh. rewrite <- Heq. unfold ids. apply in_map. exact Hr'.
      * intros r' Hr'. rewrite <- Hpend in Hr'.
        destruct (overlap r r') eqn:E; [|reflexivity].
        assert (existsb (overlap r) (pend s) = true) by (apply existsb_exists; eauto). congruence.
  - (* Recv *)
    destruct (take_req id (pend s)) as [[r rest]|] eqn:Et; [|discriminate].
    assert (Hndp : NoDup (ids (pend s))) by (rewrite Hpend; apply NoDup_ids_filter; exact Hnd).
    destruct (take_req_spec _ _ _ _ Et Hndp) as [Hin [Hid Hrest]].
    assert (Hinp : In r (pending_of p)) by (rewrite <- Hpend; exact Hin).
    assert (Hins : In r (sends p)) by (unfold pending_of in Hinp; apply filter_In in Hinp; tauto).
    assert (Hreq : req_of p id = Some r) by (apply find_unique; auto).
    destruct (negb (listN_eqb dst (r_src r))) eqn:Ed; [discriminate|].
    apply negb_false_iff in Ed. apply listN_eqb_eq in Ed.
    assert (Hcommon : forall s1, pend s1 = rest -> seen s1 = seen s ->
              (forall a, mget (ref s1) a = latest (acked_of (p ++ [Recv isd id dst data])) a) ->
              Inv (p ++ [Recv isd id dst data]) s1).
    { intros s1 Hp1 Hs1 Hr1. constructor.
      - rewrite Hp1, Hrest, Hpend. symmetry. apply pending_recv.
      - intro i. rewrite Hs1, sends_app. cbn [sends flat_map]. rewrite app_nil_r. apply Hseen.
      - rewrite sends_app. cbn [sends flat_map]. rewrite app_nil_r. exact Hnd.
      - intros i Hi. rewrite sends_app. cbn [sends flat_map]. rewrite app_nil_r.
        rewrite answered_app in Hi. cbn in Hi. rewrite orb_false_r in Hi. apply orb_true_iff in Hi.
        destruct Hi as [Hi|Hi]; [apply Hans; exact Hi|]. apply N.eqb_eq in Hi. subst i.
        rewrite <- Hid. unfold ids. apply in_map. exact Hins.
      - exact Hr1. }
    destruct (r_write r) eqn:Ew.
    + destruct isd; [discriminate|]. injection Hstep as <-. split.
      * apply Hcommon; cbn [pend seen ref]; auto. intro a.
        rewrite (acked_recv _ _ _ _ _ r Hans Hreq), Ew. rewrite latest_snoc.
        rewrite write_flat_spec. unfold covers, byte_of. rewrite Href. reflexivity.
      * cbn [Clause]. exists r. rewrite Ew. repeat split; auto. discriminate.
    + destruct (isd && listN_eqb data (load (ref s) (r_addr r) (N.to_nat (r_size r)))) eqn:G; [|discriminate].
      injection Hstep as <-. apply andb_true_iff in G. destruct G as [G1 G2]. apply listN_eqb_eq in G2. split.
      * apply Hcommon; cbn [pend seen ref]; auto. intro a.
        rewrite (acked_recv _ _ _ _ _ r Hans Hreq), Ew, app_nil_r. apply Href.
      * cbn [Clause]. exists r. rewrite Ew. repeat split; auto.
        intros _. rewrite G2, load_map. unfold addresses. rewrite map_map. apply map_ext. intro i. apply Href.
Qed.

Lemma run_inv : forall tr p s s',
  Inv p s -> run s tr = Some s' ->
  Inv (p ++ tr) s' /\ forall k e, nth_error tr k = Some e -> Clause (p ++ firstn k tr) e.
Proof.
  induction tr as [|e tr IH]; intros p s s' Hinv Hrun; cbn [run] in Hrun.
  - injection Hrun as <-. rewrite app_nil_r. split; [exact Hinv|]. intros k e Hk. destruct k; discriminate.
  - destruct (step s e) as [s1|] eqn:Es; [|discriminate].
    destruct (step_inv _ _ _ _ Hinv Es) as [Hinv1 Hc].
    destruct (IH _ _ _ Hinv1 Hrun) as [Hinv' Hrest].
    replace (p ++ e :: tr) with ((p ++ [e]) ++ tr) by (rewrite <- app_assoc; reflexivity).
    split; [exact Hinv'|]. intros k e0 Hk. destruct k as [|k]; cbn [nth_error firstn] in *.
    + injection Hk as <-. rewrite app_nil_r. exact Hc.
    + specialize (Hrest k e0 Hk). rewrite <- app_assoc in Hrest. exact Hrest.
Qed.

(** soundness of the acceptor *)
Theorem accepts_sound_proof tr : accepts tr = true -> Declarative tr.
Proof.
  unfold accepts. destruct (run st0 tr) as [s|] eqn:Er; [|discriminate].
  destruct (pend s) eqn:Ep; [|discriminate]. intros _.
  destruct (run_inv tr [] st0 s inv_init Er) as [Hinv Hcl]. cbn [app] in *.
  split; [|split].
  - intros k r Hk. exact (Hcl k _ Hk).
  - intros k isd rspto dst data Hk. exact (Hcl k _ Hk).
  - rewrite <- (inv_pend _ _ Hinv). exact Ep.
Qed.

(** * exactly one response per request, after the request *)

Lemma firstn_le_split {A} (l : list A) j k : (j <= k)%nat -> exists q, firstn k l = firstn j l ++ q.
Proof.
  intro H. exists (firstn (k - j) (skipn j l)).
  rewrite <- (firstn_skipn j l) at 1. rewrite firstn_app, firstn_firstn.
  replace (Nat.min k j) with j by lia.
  destruct (Nat.le_gt_cases (length l) j) as [Hlen|Hlen].
  - rewrite firstn_all2 with (n := j) by lia. rewrite skipn_all2 by lia.
    rewrite !firstn_nil. reflexivity.
  - rewrite firstn_length. replace (Nat.min j (length l)) with j by lia. reflexivity.
Qed.

Lemma nth_in_firstn {A} (l : list A) j k x : nth_error l j = Some x -> (j < k)%nat -> In x (firstn k l).
Proof.
  revert j k; induction l as [|y l IH]; intros [|j] [|k] H Hlt; cbn in *; try discriminate; try lia.
  - left. congruence.
  - right. apply (IH j); [exact H|lia].
Qed.

Lemma answered_in p id isd dst data : In (Recv isd id dst data) p -> answered p id = true.
Proof.
  intro H. unfold answered. apply existsb_exists. eexists. split; [exact H|]. cbn. apply N.eqb_refl.
Qed.

Lemma answered_nth p id : answered p id = true ->
  exists j isd dst data, nth_error p j = Some (Recv isd id dst data).
Proof.
  unfold answered. intro H. apply existsb_exists in H. destruct H as [e [Hin He]].
  destruct e as [|isd r dst data]; [discriminate|]. apply N.eqb_eq in He. subst r.
  apply In_nth_error in Hin. destruct Hin as [j Hj]. eauto.
Qed.

Lemma sends_nth tr k r : nth_error tr k = Some (Send r) -> In r (sends tr).
Proof.
  intro H. unfold sends. apply in_flat_map. exists (Send r). split; [eapply nth_error_In; eauto|left; reflexivity].
Qed.

Theorem exactly_one_response tr : Declarative tr ->
  forall k r, nth_error tr k = Some (Send r) ->
    (exists j isd dst data, (k < j)%nat /\ nth_error tr j = Some (Recv isd (r_id r) dst data)) /\
    (forall j1 j2 i1 d1 x1 i2 d2 x2,
        nth_error tr j1 = Some (Recv i1 (r_id r) d1 x1) ->
        nth_error tr j2 = Some (Recv i2 (r_id r) d2 x2) -> j1 = j2).
Proof.
  intros [D1 [D2 D3]] k r Hk. split.
  - assert (Hans : answered tr (r_id r) = true).
    { destruct (answered tr (r_id r)) eqn:E; [reflexivity|]. exfalso.
      assert (Hin : In r (pending_of tr)).
      { unfold pending_of. apply filter_In. split; [eapply sends_nth; eauto|]. rewrite E. reflexivity. }
      rewrite D3 in Hin. destruct Hin. }
    destruct (answered_nth _ _ Hans) as [j [isd [dst [data Hj]]]]. exists j, isd, dst, data. split; [|exact Hj].
    destruct (D2 _ _ _ _ _ Hj) as [r' [Hr' [Hid _]]].
    destruct (Nat.lt_trichotomy j k) as [Hlt|[->|Hgt]]; [|congruence|exact Hgt]. exfalso.
    destruct (D1 _ _ Hk) as [_ [Hfresh _]]. apply (Hfresh r'); [|exact Hid].
    unfold pending_of in Hr'. apply filter_In in Hr'. destruct Hr' as [Hr' _].
    destruct (firstn_le_split tr j k) as [q Hq]; [lia|]. rewrite Hq, sends_app, in_app_iff. left. exact Hr'.
  - assert (Hlt : forall j1 j2 i1 d1 x1 i2 d2 x2, (j1 < j2)%nat ->
        nth_error tr j1 = Some (Recv i1 (r_id r) d1 x1) ->
        nth_error tr j2 = Some (Recv i2 (r_id r) d2 x2) -> False).
    { intros j1 j2 i1 d1 x1 i2 d2 x2 Hlt H1 H2. destruct (D2 _ _ _ _ _ H2) as [r' [Hr' [Hid _]]].
      unfold pending_of in Hr'. apply filter_In in Hr'. destruct Hr' as [_ Hna]. rewrite Hid in Hna.
      rewrite (answered_in _ _ i1 d1 x1) in Hna; [discriminate|]. eapply nth_in_firstn; eauto. }
    intros j1 j2 i1 d1 x1 i2 d2 x2 H1 H2.
    destruct (Nat.lt_trichotomy j1 j2) as [H|[H|H]]; [exfalso; eapply Hlt; eauto|exact H|exfalso; eapply Hlt; eauto].
Qed.
