(** C16 — case evaluators: exact tie of the byte kernels (through the real
    components) and trace inclusion for whole hierarchies. *)
From Akita Require Import Lib.Base C16.Model C16.Ideal.
Local Open Scope N_scope.

Definition wr := (N * list N * option (list bool))%type.   (* address / offset, data, mask *)

Inductive case :=
  (** memory-controller kernel (ideal / banked / DRAM): storage pre-filled with
      [init] at [base]; the writes are acknowledged one after the other;
      [final] = the storage bytes of [base, base+len init) read directly
      ([None] = the component panicked) *)
| KCtl (init : list N) (base : N) (writes : list wr) (final : option (list N))
  (** cache in-line merge (write-back writeData/combineData, write-through
      mergeMSHRData/finalizeWriteTrans): the line holds [init]; writes at byte
      offsets; observed: the line in the cache's data array and (write-back)
      the block's dirty mask *)
| KLine (init : list N) (writes : list wr) (final : list N) (dm : option (list bool))
  (** events recorded at the requester port of a real assembly *)
| Trace (tr : list ev)
  (** L1: the real ideal memory controller driven tick by tick (no engine):
      per tick the requests delivered to its Top port and the number of
      responses retrieved afterwards; observed: the responses retrieved in
      each tick ([None] = panic) and the final storage bytes at [base] *)
| KIdeal (width : nat) (lat : N) (cap : nat) (base : N) (len : nat) (sched : list slot)
         (got : option (list (list ev))) (final : list N).

Fixpoint ctl_model (m : store) (ws : list wr) : option store :=
  match ws with
  | [] => Some m
  | (a, d, k) :: r =>
      match rmw_write m a d k with Some m' => ctl_model m' r | None => None end
  end.

Fixpoint ctl_flat (m : store) (ws : list wr) : store :=
  match ws with
  | [] => m
  | (a, d, k) :: r => ctl_flat (write_flat m a d k 0) r
  end.

Fixpoint line_model (buf : list N) (ws : list wr) : option (list N) :=
  match ws with
  | [] => Some buf
  | (o, d, k) :: r =>
      match merge_at buf (N.to_nat o) d k with Some b => line_model b r | None => None end
  end.

Fixpoint mask_model (dm : list bool) (ws : list wr) : option (list bool) :=
  match ws with
  | [] => Some dm
  | (o, d, k) :: r =>
      match mark_from dm (N.to_nat o) (length d) k 0 with Some b => mask_model b r | None => None end
  end.

Definition bool_eqb (a b : bool) : bool := if a then b else negb b.

Definition masks_ok (ws : list wr) : bool :=
  forallb (fun '(_, d, k) => match k with Some l => Nat.eqb (length l) (length d) | None => true end) ws.

Definition req_eqb (a b : req) : bool :=
  (r_id a =? r_id b) && bool_eqb (r_write a) (r_write b) && (r_addr a =? r_addr b) && (r_size a =? r_size b) &&
  listN_eqb (r_data a) (r_data b) && opt_eqb (list_eqb bool_eqb) (r_mask a) (r_mask b) && listN_eqb (r_src a) (r_src b).

Definition ev_eqb (a b : ev) : bool :=
  match a, b with
  | Send x, Send y => req_eqb x y
  | Recv i1 r1 d1 x1, Recv i2 r2 d2 x2 => bool_eqb i1 i2 && (r1 =? r2) && listN_eqb d1 d2 && listN_eqb x1 x2
  | _, _ => false
  end.

(** the requester's view of a tick-driven run: per tick, the requests it
    delivered, then the responses it retrieved *)
Fixpoint requester_view (sched : list slot) (got : list (list ev)) : list ev :=
  match sched, got with
  | sl :: rest, g :: gs => map Send (sl_deliver sl) ++ g ++ requester_view rest gs
  | _, _ => []
  end.

(** model output = implementation output *)
Definition check_case (c : case) : bool :=
  match c with
  | KCtl init base ws final =>
      opt_eqb listN_eqb
        (match ctl_model (save empty_store base init) ws with
         | Some m => Some (load m base (length init)) | None => None end)
        final
  | KLine init ws final dm =>
      opt_eqb listN_eqb (line_model init ws) (Some final) &&
      match dm with
      | None => true
      | Some l => opt_eqb (list_eqb bool_eqb) (mask_model (map (fun _ => false) init) ws) (Some l)
      end
  | Trace _ => true
  | KIdeal width lat cap base len sched got final =>
      match env_run width lat cap (ist0 empty_store) sched, got with
      | Some (s, gots), Some g =>
          list_eqb (list_eqb ev_eqb) gots g && listN_eqb (load (i_store s) base len) final
      | None, None => true
      | _, _ => false
      end
  end.

(** the property evaluated on the implementation's observed behaviour *)
Definition holds_on (c : case) : bool :=
  match c with
  | KCtl init base ws final =>
      if masks_ok ws then
        match final with
        | Some f => listN_eqb f (load (ctl_flat (save empty_store base init) ws) base (length init))
        | None => false
        end
      else true
  | KLine init ws final dm =>
      if masks_ok ws then
        listN_eqb final
          (load (ctl_flat (save empty_store 0 init) ws) 0 (length init))
      else true
  | Trace tr => accepts tr
  | KIdeal width lat cap base len sched got final =>
      match got with
      | Some g => accepts (requester_view sched g)
      | None => false
      end
  end.
