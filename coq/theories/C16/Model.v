(** C16 — memory hierarchies are transparent to requesters.

    L0  byte kernels: the masked read-modify-write of the ideal controller
        (sendWriteResponse), the simple banked memory (finalizeWrite), the DRAM
        controller (commitWrite, after the fix commit) and the in-line merges of the
        caches (write-back bankStage.writeData / writeBufferStage.combineData,
        write-through mergeMSHRData / finalizeWriteTrans), over a byte store.
    L2  the requester-view automaton: a total boolean acceptor over the events
        recorded at the requester's port.

    Bytes and addresses are [N]; a store is a finite map from addresses to
    bytes, unwritten bytes read as zero (mem.Storage allocates zeroed units). *)
From Akita Require Import Lib.Base.
From Coq Require Import FMapPositive.
Local Open Scope N_scope.

(** * Byte store *)
Definition store := PositiveMap.t N.
Definition empty_store : store := PositiveMap.empty N.
Definition mget (m : store) (a : N) : N :=
  match PositiveMap.find (N.succ_pos a) m with Some v => v | None => 0 end.
Definition mset (m : store) (a v : N) : store := PositiveMap.add (N.succ_pos a) v m.

(** Storage.Read(addr, n) / Storage.Write(addr, data), inside the capacity. *)
Fixpoint load (m : store) (a : N) (n : nat) : list N :=
  match n with O => [] | Datatypes.S k => mget m a :: load m (a + 1) k end.
Fixpoint save (m : store) (a : N) (data : list N) : store :=
  match data with [] => m | v :: r => save (mset m a v) (a + 1) r end.

(** * L0 kernels *)

(** dirty bit of byte [i] under a Go []bool mask; nil = every byte.  A mask
    shorter than the data is an index-out-of-range panic ([None]). *)
Definition mask_bit (mask : option (list bool)) (i : nat) : option bool :=
  match mask with
  | None => Some true
  | Some l => nth_error l i
  end.

(** the in-place merge loop shared by all the controllers and caches:
      for i := range data { if mask == nil || mask[i] { buf[off+i] = data[i] } }
    over a buffer [buf] (the bytes read from storage / the cache line / the
    fetched line); [None] when an index is out of range. *)
Fixpoint merge_from (buf : list N) (off : nat) (data : list N) (mask : option (list bool)) (i : nat)
  : option (list N) :=
  match data with
  | [] => Some buf
  | v :: r =>
      match mask_bit mask i with
      | None => None
      | Some false => merge_from buf off r mask (Datatypes.S i)
      | Some true =>
          if Nat.ltb (off + i) (length buf)
          then merge_from (firstn (off + i) buf ++ v :: skipn (Datatypes.S (off + i)) buf) off r mask (Datatypes.S i)
          else None
      end
  end.
Definition merge_at (buf : list N) (off : nat) (data : list N) (mask : option (list bool)) :=
  merge_from buf off data mask 0.

(** ideal controller / banked memory / DRAM: nil mask -> plain write;
    otherwise read len(data) bytes, merge, write back. *)
Definition rmw_write (m : store) (addr : N) (data : list N) (mask : option (list bool)) : option store :=
  match mask with
  | None => Some (save m addr data)
  | Some _ =>
      match merge_at (load m addr (length data)) 0 data mask with
      | Some buf => Some (save m addr buf)
      | None => None
      end
  end.

(** DRAM before the fix commit: the mask is ignored. *)
Definition dram_write_old (m : store) (addr : N) (data : list N) (mask : option (list bool)) : option store :=
  Some (save m addr data).

(** the flat-memory specification of a masked write *)
Fixpoint write_flat (m : store) (a : N) (data : list N) (mask : option (list bool)) (i : nat) : store :=
  match data with
  | [] => m
  | v :: r =>
      let m' := match mask_bit mask i with Some true => mset m a v | _ => m end in
      write_flat m' (a + 1) r mask (Datatypes.S i)
  end.

(** dirty-mask bookkeeping of the write-back cache (writeData / combineData):
    mask[off+i] = true for every written byte *)
Fixpoint mark_from (dm : list bool) (off : nat) (n : nat) (mask : option (list bool)) (i : nat)
  : option (list bool) :=
  match n with
  | O => Some dm
  | Datatypes.S k =>
      match mask_bit mask i with
      | None => None
      | Some false => mark_from dm off k mask (Datatypes.S i)
      | Some true =>
          if Nat.ltb (off + i) (length dm)
          then mark_from (firstn (off + i) dm ++ true :: skipn (Datatypes.S (off + i)) dm) off k mask (Datatypes.S i)
          else None
      end
  end.

(** * L2 requester view *)

Record req := Rq {
  r_id : N; r_write : bool; r_addr : N; r_size : N;
  r_data : list N; r_mask : option (list bool); r_src : list N }.

Inductive ev :=
| Send (r : req)
| Recv (isdata : bool) (rspto : N) (dst : list N) (data : list N).

Definition overlap (a b : req) : bool :=
  (r_addr a <? r_addr b + r_size b) && (r_addr b <? r_addr a + r_size a).

Definition req_wf (r : req) : bool :=
  (0 <? r_size r) &&
  (if r_write r then
     (N.of_nat (length (r_data r)) =? r_size r) &&
     match r_mask r with Some l => Nat.eqb (length l) (length (r_data r)) | None => true end
   else true).

Record st := St { ref : store; pend : list req; seen : list N }.
Definition st0 : st := St empty_store [] [].

Fixpoint take_req (id : N) (l : list req) : option (req * list req) :=
  match l with
  | [] => None
  | r :: rest =>
      if r_id r =? id then Some (r, rest)
      else match take_req id rest with
           | Some (x, rest') => Some (x, r :: rest')
           | None => None
           end
  end.

(** one event of the requester view; [None] = rejected *)
Definition step (s : st) (e : ev) : option st :=
  match e with
  | Send r =>
      if req_wf r && negb (existsb (N.eqb (r_id r)) (seen s)) && negb (existsb (overlap r) (pend s))
      then Some (St (ref s) (pend s ++ [r]) (r_id r :: seen s))
      else None
  | Recv isdata rspto dst data =>
      match take_req rspto (pend s) with
      | None => None
      | Some (r, rest) =>
          if negb (listN_eqb dst (r_src r)) then None
          else if r_write r then
            if isdata then None
            else Some (St (write_flat (ref s) (r_addr r) (r_data r) (r_mask r) 0) rest (seen s))
          else
            if isdata && listN_eqb data (load (ref s) (r_addr r) (N.to_nat (r_size r)))
            then Some (St (ref s) rest (seen s))
            else None
      end
  end.

Fixpoint run (s : st) (tr : list ev) : option st :=
  match tr with
  | [] => Some s
  | e :: r => match step s e with Some s' => run s' r | None => None end
  end.

(** the verified acceptor: every event is accepted and nothing is pending at the end *)
Definition accepts (tr : list ev) : bool :=
  match run st0 tr with
  | Some s => match pend s with [] => true | _ => false end
  | None => false
  end.
