(** C16 — L1: deterministic tick-level model of the ideal memory controller
    (idealmemcontroller/memmiddleware.go: takeNewReqs + processCountdowns with
    sendReadResponse / sendWriteResponse), driven tick by tick: before a tick
    the environment delivers requests into the Top port's incoming buffer;
    after it, it retrieves some responses from the outgoing buffer. *)
From Akita Require Import Lib.Base C16.Model.
Local Open Scope N_scope.

Record tx := Tx { t_left : N; t_req : req }.

Record ist := ISt {
  i_store : store;
  i_in : list req;        (* Top port incoming buffer, oldest first *)
  i_flight : list tx;     (* State.InflightTransactions *)
  i_out : list ev }.      (* Top port outgoing buffer, oldest first (Recv events) *)

(** takeNewReqs: up to Width requests move from the port into the in-flight
    list with CycleLeft = Latency *)
Fixpoint take_new (width : nat) (lat : N) (inq : list req) (fl : list tx) : list req * list tx :=
  match width, inq with
  | Datatypes.S k, r :: rest => take_new k lat rest (fl ++ [Tx lat r])
  | _, _ => (inq, fl)
  end.

Definition response (st : store) (r : req) : ev :=
  if r_write r then Recv false (r_id r) (r_src r) []
  else Recv true (r_id r) (r_src r) (load st (r_addr r) (N.to_nat (r_size r))).

(** processCountdowns over the in-flight list, in order.  [None] = the write
    merge panicked (mask shorter than the data). *)
Fixpoint countdown (cap : nat) (st : store) (out : list ev) (fl : list tx)
  : option (store * list ev * list tx) :=
  match fl with
  | [] => Some (st, out, [])
  | t :: rest =>
      let left := if 0 <? t_left t then t_left t - 1 else 0 in
      let r := t_req t in
      if (left =? 0) && Nat.ltb (length out) cap then
        (* response sent; a write is applied to storage right after the send *)
        let out' := out ++ [response st r] in
        match (if r_write r then rmw_write st (r_addr r) (r_data r) (r_mask r) else Some st) with
        | None => None
        | Some st' => countdown cap st' out' rest
        end
      else
        match countdown cap st out rest with
        | None => None
        | Some (st', out', rem) => Some (st', out', Tx left r :: rem)
        end
  end.

(** one tick *)
Definition tick (width : nat) (lat : N) (cap : nat) (s : ist) : option ist :=
  let '(inq, fl) := take_new width lat (i_in s) (i_flight s) in
  match countdown cap (i_store s) (i_out s) fl with
  | None => None
  | Some (st, out, rem) => Some (ISt st inq rem out)
  end.

(** the environment's step: deliver before the tick, retrieve [drain] after it *)
Record slot := Slot { sl_deliver : list req; sl_drain : nat }.

Definition env_step (width : nat) (lat : N) (cap : nat) (s : ist) (sl : slot)
  : option (ist * list ev) :=
  let s1 := ISt (i_store s) (i_in s ++ sl_deliver sl) (i_flight s) (i_out s) in
  match tick width lat cap s1 with
  | None => None
  | Some s2 =>
      Some (ISt (i_store s2) (i_in s2) (i_flight s2) (skipn (sl_drain sl) (i_out s2)),
            firstn (sl_drain sl) (i_out s2))
  end.

Fixpoint env_run (width : nat) (lat : N) (cap : nat) (s : ist) (sched : list slot)
  : option (ist * list (list ev)) :=
  match sched with
  | [] => Some (s, [])
  | sl :: rest =>
      match env_step width lat cap s sl with
      | None => None
      | Some (s', got) =>
          match env_run width lat cap s' rest with
          | None => None
          | Some (s'', gots) => Some (s'', got :: gots)
          end
      end
  end.

Definition ist0 (st : store) : ist := ISt st [] [] [].

(** * The requester-side history of a run: per tick, the requests delivered,
    then the responses PRODUCED in that tick (a response is produced when the
    controller puts it into its outgoing buffer; the storage effect of a write
    happens at that moment). *)
Definition produced (before after_tick : list ev) : list ev := skipn (length before) after_tick.

Fixpoint history (width : nat) (lat : N) (cap : nat) (s : ist) (sched : list slot) : option (list ev) :=
  match sched with
  | [] => Some []
  | sl :: rest =>
      let s1 := ISt (i_store s) (i_in s ++ sl_deliver sl) (i_flight s) (i_out s) in
      match tick width lat cap s1 with
      | None => None
      | Some s2 =>
          let s3 := ISt (i_store s2) (i_in s2) (i_flight s2) (skipn (sl_drain sl) (i_out s2)) in
          match history width lat cap s3 rest with
          | None => None
          | Some h => Some (map Send (sl_deliver sl) ++ produced (i_out s) (i_out s2) ++ h)
          end
      end
  end.
