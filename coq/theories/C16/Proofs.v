(** C16 — L0: the masked merge of every controller / cache is a flat write. *)
From Akita Require Import Lib.Base C16.Model.
From Coq Require Import FMapPositive.
Local Open Scope N_scope.

Lemma mget_mset_same m a v : mget (mset m a v) a = v.
Proof. unfold mget, mset. rewrite PositiveMap.gss. reflexivity. Qed.

Lemma mget_mset_other m a b v : a <> b -> mget (mset m a v) b = mget m b.
Proof.
  intro H. unfold mget, mset. rewrite PositiveMap.gso; [reflexivity|].
  intro E. apply H. apply (f_equal Pos.pred_N) in E. rewrite !N.pos_pred_succ in E. auto.
Qed.

Lemma mget_empty a : mget empty_store a = 0.
Proof. unfold mget, empty_store. rewrite PositiveMap.gempty. reflexivity. Qed.

(** [load] reads the store byte by byte *)
Lemma load_length m a n : length (load m a n) = n.
Proof. revert a; induction n; intro a; cbn; auto. Qed.

Lemma load_nth m a n j : (j < n)%nat -> nth_error (load m a n) j = Some (mget m (a + N.of_nat j)).
Proof.
  revert a j; induction n as [|n IH]; intros a j H; [lia|].
  destruct j as [|j]; cbn [load nth_error].
  - f_equal. f_equal. lia.
  - rewrite IH by lia. f_equal. f_equal. lia.
Qed.

(** [save] replaces exactly the bytes of the range *)
Lemma save_spec data : forall m a x,
  mget (save m a data) x =
  if (a <=? x) && (x <? a + N.of_nat (length data))
  then nth (N.to_nat (x - a)) data 0 else mget m x.
Proof.
  induction data as [|v r IH]; intros m a x; cbn [save length].
  - replace (x <? a + N.of_nat 0) with (x <? a) by (f_equal; lia).
    destruct (a <=? x) eqn:E1, (x <? a) eqn:E2; cbn; try reflexivity. lia.
  - rewrite IH.
    destruct ((a + 1 <=? x) && (x <? a + 1 + N.of_nat (length r))) eqn:E.
    + assert (H1 : (a <=? x) && (x <? a + N.of_nat (Datatypes.S (length r))) = true) by lia.
      rewrite H1. replace (N.to_nat (x - a)) with (Datatypes.S (N.to_nat (x - (a + 1)))) by lia.
      reflexivity.
    + destruct (N.eq_dec a x) as [->|Hne].
      * rewrite mget_mset_same.
        assert (H1 : (x <=? x) && (x <? x + N.of_nat (Datatypes.S (length r))) = true) by lia.
        rewrite H1. rewrite N.sub_diag. reflexivity.
      * rewrite mget_mset_other by exact Hne.
        assert (H1 : (a <=? x) && (x <? a + N.of_nat (Datatypes.S (length r))) = false) by lia.
        rewrite H1. reflexivity.
Qed.

(** byte [x] is overwritten by a masked write of [data] at [a] iff it lies in the
    range and its mask bit is set (nil mask: every bit is set) *)
Definition dirty_at (a : N) (data : list N) (mask : option (list bool)) (i0 : nat) (x : N) : bool :=
  (a <=? x) && (x <? a + N.of_nat (length data)) &&
  match mask_bit mask (i0 + N.to_nat (x - a)) with Some true => true | _ => false end.

Lemma write_flat_spec data : forall m a mask i x,
  mget (write_flat m a data mask i) x =
  if dirty_at a data mask i x then nth (N.to_nat (x - a)) data 0 else mget m x.
Proof.
  induction data as [|v r IH]; intros m a mask i x; cbn [write_flat].
  - unfold dirty_at. cbn [length].
    assert (H : (a <=? x) && (x <? a + N.of_nat 0) = false) by lia. rewrite H. reflexivity.
  - rewrite IH. unfold dirty_at. cbn [length].
    destruct (N.eq_dec a x) as [->|Hne].
    + assert (H1 : (x + 1 <=? x) = false) by lia. rewrite H1. cbn [andb].
      assert (H2 : (x <=? x) && (x <? x + N.of_nat (Datatypes.S (length r))) = true) by lia. rewrite H2.
      rewrite N.sub_diag. cbn [N.to_nat andb]. rewrite Nat.add_0_r.
      destruct (mask_bit mask i) as [[|]|]; cbn [nth]; try reflexivity. apply mget_mset_same.
    + assert (Hm : mget (match mask_bit mask i with Some true => mset m a v | _ => m end) x = mget m x).
      { destruct (mask_bit mask i) as [[|]|]; auto. apply mget_mset_other. exact Hne. }
      rewrite Hm.
      destruct ((a <=? x) && (x <? a + N.of_nat (Datatypes.S (length r)))) eqn:E.
      * assert (H1 : (a + 1 <=? x) && (x <? a + 1 + N.of_nat (length r)) = true) by lia. rewrite H1.
        cbn [andb].
        assert (Hk : N.to_nat (x - a) = Datatypes.S (N.to_nat (x - (a + 1)))) by lia.
        rewrite Hk. replace (i + Datatypes.S (N.to_nat (x - (a + 1))))%nat
          with (Datatypes.S i + N.to_nat (x - (a + 1)))%nat by lia.
        reflexivity.
      * assert (H1 : (a + 1 <=? x) && (x <? a + 1 + N.of_nat (length r)) = false) by lia. rewrite H1.
        reflexivity.
Qed.

Lemma nth_error_firstn_lt {A} (l : list A) : forall k j, (j < k)%nat ->
  nth_error (firstn k l) j = nth_error l j.
Proof.
  induction l as [|y l IH]; intros [|k] [|j] H; cbn; auto; try lia. apply IH. lia.
Qed.

Lemma nth_error_skipn_add {A} (l : list A) : forall k j,
  nth_error (skipn k l) j = nth_error l (k + j).
Proof.
  induction l as [|y l IH]; intros [|k] j; cbn; auto. destruct j; reflexivity.
Qed.

(** replacing one element of a buffer *)
Lemma nth_error_replace {A} (buf : list A) k v j : (k < length buf)%nat ->
  nth_error (firstn k buf ++ v :: skipn (Datatypes.S k) buf) j =
  if Nat.eqb j k then Some v else nth_error buf j.
Proof.
  intro Hk. assert (Hl : length (firstn k buf) = k) by (rewrite firstn_length; lia).
  destruct (Nat.eqb j k) eqn:E.
  - apply Nat.eqb_eq in E. subst j. rewrite nth_error_app2 by lia. rewrite Hl, Nat.sub_diag. reflexivity.
  - apply Nat.eqb_neq in E. destruct (Nat.lt_ge_cases j k) as [Hlt|Hge].
    + rewrite nth_error_app1 by lia. rewrite nth_error_firstn_lt by exact Hlt. reflexivity.
    + rewrite nth_error_app2 by lia. rewrite Hl.
      replace (j - k)%nat with (Datatypes.S (j - k - 1)) by lia. cbn [nth_error].
      rewrite nth_error_skipn_add. f_equal. lia.
Qed.

Lemma replace_length {A} (buf : list A) k v : (k < length buf)%nat ->
  length (firstn k buf ++ v :: skipn (Datatypes.S k) buf) = length buf.
Proof. intro H. rewrite app_length, firstn_length. cbn [length]. rewrite skipn_length. lia. Qed.

(** the merge loop: the result has the buffer's length, and byte [j] is the
    written byte when it is covered and dirty, the old byte otherwise *)
Lemma merge_from_spec data : forall buf off mask i res,
  merge_from buf off data mask i = Some res ->
  length res = length buf /\
  forall j, nth_error res j =
    if (Nat.leb (off + i) j) && (Nat.ltb j (off + i + length data)) &&
       match mask_bit mask (j - off) with Some true => true | _ => false end
    then nth_error data (j - off - i) else nth_error buf j.
Proof.
  induction data as [|v r IH]; intros buf off mask i res H; cbn [merge_from] in H.
  - injection H as <-. split; [reflexivity|]. intro j. cbn [length].
    assert (E : Nat.leb (off + i) j && Nat.ltb j (off + i + 0) = false) by lia. rewrite E. reflexivity.
  - destruct (mask_bit mask i) as [[|]|] eqn:Eb; [| |discriminate].
    + destruct (Nat.ltb (off + i) (length buf)) eqn:El; [|discriminate].
      apply Nat.ltb_lt in El. destruct (IH _ _ _ _ _ H) as [HL HN]. split.
      * rewrite HL. apply replace_length. exact El.
      * intro j. rewrite HN. cbn [length]. rewrite nth_error_replace by exact El.
        destruct (Nat.eq_dec j (off + i)) as [->|Hne].
        -- replace (off + i - off)%nat with i by lia. rewrite Eb.
           assert (E1 : Nat.leb (off + Datatypes.S i) (off + i) = false) by lia. rewrite E1. cbn [andb].
           rewrite Nat.eqb_refl.
           assert (E2 : Nat.leb (off + i) (off + i) && Nat.ltb (off + i) (off + i + Datatypes.S (length r)) = true) by lia.
           rewrite E2. cbn [andb]. replace (i - i)%nat with 0%nat by lia. reflexivity.
        -- assert (E0 : Nat.eqb j (off + i) = false) by lia. rewrite E0.
           destruct (Nat.leb (off + i) j && Nat.ltb j (off + i + Datatypes.S (length r))) eqn:E.
           ++ assert (E1 : Nat.leb (off + Datatypes.S i) j && Nat.ltb j (off + Datatypes.S i + length r) = true) by lia.
              rewrite E1. cbn [andb]. destruct (mask_bit mask (j - off)) as [[|]|]; try reflexivity.
              replace (j - off - i)%nat with (Datatypes.S (j - off - Datatypes.S i)) by lia. reflexivity.
           ++ assert (E1 : Nat.leb (off + Datatypes.S i) j && Nat.ltb j (off + Datatypes.S i + length r) = false) by lia.
              rewrite E1. reflexivity.
    + destruct (IH _ _ _ _ _ H) as [HL HN]. split; [exact HL|].
      intro j. rewrite HN. cbn [length].
      destruct (Nat.eq_dec j (off + i)) as [->|Hne].
      * replace (off + i - off)%nat with i by lia. rewrite Eb.
        assert (E1 : Nat.leb (off + Datatypes.S i) (off + i) = false) by lia. rewrite E1.
        cbn [andb]. rewrite andb_false_r. reflexivity.
      * destruct (Nat.leb (off + i) j && Nat.ltb j (off + i + Datatypes.S (length r))) eqn:E.
        -- assert (E1 : Nat.leb (off + Datatypes.S i) j && Nat.ltb j (off + Datatypes.S i + length r) = true) by lia.
           rewrite E1. cbn [andb]. destruct (mask_bit mask (j - off)) as [[|]|]; try reflexivity.
           replace (j - off - i)%nat with (Datatypes.S (j - off - Datatypes.S i)) by lia. reflexivity.
        -- assert (E1 : Nat.leb (off + Datatypes.S i) j && Nat.ltb j (off + Datatypes.S i + length r) = false) by lia.
           rewrite E1. reflexivity.
Qed.

Lemma nth_of_nth_error {A} (l : list A) j d x : nth_error l j = Some x -> nth j l d = x.
Proof. revert j; induction l as [|y l IH]; intros [|j]; cbn; try discriminate; auto. congruence. Qed.

(** L0 main theorem: the read-modify-write of the ideal controller, the banked
    memory and the (fixed) DRAM controller equals the flat masked write, byte
    for byte, for every store, address, data and mask. *)
Theorem rmw_is_flat_write m addr data mask m' :
  rmw_write m addr data mask = Some m' ->
  forall x, mget m' x = mget (write_flat m addr data mask 0) x.
Proof.
  unfold rmw_write. destruct mask as [l|].
  - destruct (merge_at (load m addr (length data)) 0 data (Some l)) as [buf|] eqn:E; [|discriminate].
    intro H. injection H as <-. intro x. unfold merge_at in E.
    destruct (merge_from_spec _ _ _ _ _ _ E) as [HL HN]. rewrite load_length in HL.
    rewrite save_spec, write_flat_spec. unfold dirty_at. rewrite HL.
    destruct ((addr <=? x) && (x <? addr + N.of_nat (length data))) eqn:Er; cbn [andb]; [|reflexivity].
    set (j := N.to_nat (x - addr)). assert (Hj : (j < length data)%nat) by (unfold j; lia).
    specialize (HN j). cbn [Nat.add] in HN.
    assert (E1 : Nat.leb 0 j && Nat.ltb j (length data) = true) by lia.
    rewrite E1 in HN. cbn [andb] in HN. rewrite !Nat.sub_0_r in HN.
    cbn [Nat.add]. destruct (mask_bit (Some l) j) as [[|]|].
    + destruct (nth_error data j) as [v|] eqn:Ev; [|apply nth_error_None in Ev; lia].
      rewrite (nth_of_nth_error _ _ 0 _ HN). symmetry. apply nth_of_nth_error. exact Ev.
    + rewrite load_nth in HN by exact Hj. rewrite (nth_of_nth_error _ _ 0 _ HN). f_equal. unfold j. lia.
    + rewrite load_nth in HN by exact Hj. rewrite (nth_of_nth_error _ _ 0 _ HN). f_equal. unfold j. lia.
  - intro H. injection H as <-. intro x. rewrite save_spec, write_flat_spec. unfold dirty_at.
    cbn [mask_bit]. destruct ((addr <=? x) && (x <? addr + N.of_nat (length data))); reflexivity.
Qed.

(** the rmw never fails when the mask covers the data *)
Lemma merge_from_total data : forall buf off l i,
  (i + length data <= length l)%nat -> (off + i + length data <= length buf)%nat ->
  exists res, merge_from buf off data (Some l) i = Some res.
Proof.
  induction data as [|v r IH]; intros buf off l i H1 H2; cbn [merge_from]; [eauto|].
  cbn [length] in *. cbn [mask_bit].
  destruct (nth_error l i) as [b|] eqn:E; [|apply nth_error_None in E; lia].
  destruct b.
  - assert (El : Nat.ltb (off + i) (length buf) = true) by lia. rewrite El.
    apply IH; [lia|]. rewrite replace_length by lia. lia.
  - apply IH; lia.
Qed.

Theorem rmw_total m addr data mask :
  match mask with Some l => (length data <= length l)%nat | None => True end ->
  exists m', rmw_write m addr data mask = Some m'.
Proof.
  unfold rmw_write. destruct mask as [l|]; [|eauto]. intro H. unfold merge_at.
  destruct (merge_from_total data (load m addr (length data)) 0 l 0) as [res ->]; eauto.
  rewrite load_length. lia.
Qed.

(** the in-line merge of the caches (writeData / combineData / mergeMSHRData /
    finalizeWriteTrans): seen as a store holding the line at address 0, it is
    the flat masked write at the byte offset *)
Theorem merge_at_is_flat_write buf off data mask res :
  merge_at buf off data mask = Some res ->
  length res = length buf /\
  forall j, (j < length buf)%nat ->
    nth j res 0 = mget (write_flat (save empty_store 0 buf) (N.of_nat off) data mask 0) (N.of_nat j).
Proof.
  unfold merge_at. intro E. destruct (merge_from_spec _ _ _ _ _ _ E) as [HL HN]. split; [exact HL|].
  intros j Hj. rewrite write_flat_spec, save_spec. unfold dirty_at. specialize (HN j).
  rewrite Nat.add_0_r in HN. cbn [Nat.add].
  replace (N.to_nat (N.of_nat j - N.of_nat off)) with (j - off)%nat by lia.
  destruct (Nat.leb off j && Nat.ltb j (off + length data)) eqn:E1.
  - assert (E2 : (N.of_nat off <=? N.of_nat j) && (N.of_nat j <? N.of_nat off + N.of_nat (length data)) = true) by lia.
    rewrite E2. cbn [andb] in *. rewrite Nat.sub_0_r in HN.
    destruct (mask_bit mask (j - off)) as [[|]|].
    + destruct (nth_error data (j - off)) as [v|] eqn:Ev; [|apply nth_error_None in Ev; lia].
      rewrite (nth_of_nth_error _ _ 0 _ HN). symmetry. apply nth_of_nth_error. exact Ev.
    + assert (E3 : (0 <=? N.of_nat j) && (N.of_nat j <? 0 + N.of_nat (length buf)) = true) by lia. rewrite E3.
      replace (N.to_nat (N.of_nat j - 0)) with j by lia.
      destruct (nth_error buf j) as [v|] eqn:Ev; [|apply nth_error_None in Ev; lia].
      rewrite (nth_of_nth_error _ _ 0 _ HN). symmetry. apply nth_of_nth_error. exact Ev.
    + assert (E3 : (0 <=? N.of_nat j) && (N.of_nat j <? 0 + N.of_nat (length buf)) = true) by lia. rewrite E3.
      replace (N.to_nat (N.of_nat j - 0)) with j by lia.
      destruct (nth_error buf j) as [v|] eqn:Ev; [|apply nth_error_None in Ev; lia].
      rewrite (nth_of_nth_error _ _ 0 _ HN). symmetry. apply nth_of_nth_error. exact Ev.
  - assert (E2 : (N.of_nat off <=? N.of_nat j) && (N.of_nat j <? N.of_nat off + N.of_nat (length data)) = false) by lia.
    rewrite E2. cbn [andb] in *.
    assert (E3 : (0 <=? N.of_nat j) && (N.of_nat j <? 0 + N.of_nat (length buf)) = true) by lia. rewrite E3.
    replace (N.to_nat (N.of_nat j - 0)) with j by lia.
    destruct (nth_error buf j) as [v|] eqn:Ev; [|apply nth_error_None in Ev; lia].
    rewrite (nth_of_nth_error _ _ 0 _ HN). symmetry. apply nth_of_nth_error. exact Ev.
Qed.

(** regression: the pre-fix DRAM write overwrites an unmasked byte *)
Lemma dram_write_old_refuted :
  exists m addr data mask m', dram_write_old m addr data mask = Some m' /\
    mget m' 1 <> mget (write_flat m addr data mask 0) 1.
Proof.
  exists (save empty_store 0 [7; 8]), 0, [1; 2], (Some [true; false]).
  eexists. split; [reflexivity|]. vm_compute. discriminate.
Qed.
