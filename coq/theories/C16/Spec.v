(** C16 — the declarative statement of transparency at the requester's port,
    written over positions of the event list (no automaton state). *)
From Akita Require Import Lib.Base C16.Model C16.Proofs.
Local Open Scope N_scope.

(** the requests sent in a prefix, in order *)
Definition sends (p : list ev) : list req :=
  flat_map (fun e => match e with Send r => [r] | Recv _ _ _ _ => [] end) p.

(** a response naming [id] occurs in the prefix *)
Definition answered (p : list ev) (id : N) : bool :=
  existsb (fun e => match e with Recv _ r _ _ => r =? id | Send _ => false end) p.

(** requests in flight after the prefix: sent and not answered *)
Definition pending_of (p : list ev) : list req :=
  filter (fun r => negb (answered p (r_id r))) (sends p).

Definition req_of (p : list ev) (id : N) : option req :=
  find (fun r => r_id r =? id) (sends p).

(** the write requests acknowledged in the prefix, in acknowledgement order *)
Definition acked_of (p : list ev) : list req :=
  flat_map (fun e => match e with
                     | Recv _ id _ _ =>
                         match req_of p id with
                         | Some r => if r_write r then [r] else []
                         | None => []
                         end
                     | Send _ => []
                     end) p.

(** byte [a] is written by request [w] (in its range, mask bit set / nil mask) *)
Definition covers (w : req) (a : N) : bool := dirty_at (r_addr w) (r_data w) (r_mask w) 0 a.
Definition byte_of (w : req) (a : N) : N := nth (N.to_nat (a - r_addr w)) (r_data w) 0.

(** the value of byte [a] after the writes [ws] applied in order: that of the
    LATEST write covering it, zero if there is none *)
Definition latest (ws : list req) (a : N) : N :=
  match find (fun w => covers w a) (rev ws) with
  | Some w => byte_of w a
  | None => 0
  end.

Definition addresses (r : req) : list N :=
  map (fun i => r_addr r + N.of_nat i) (seq 0 (N.to_nat (r_size r))).

(** The statement of C16 for one requester-port history. *)
Definition Declarative (tr : list ev) : Prop :=
  (* every request is well formed, carries a fresh ID and touches no byte of a request in flight *)
  (forall k r, nth_error tr k = Some (Send r) ->
     req_wf r = true /\
     (forall r', In r' (sends (firstn k tr)) -> r_id r' <> r_id r) /\
     (forall r', In r' (pending_of (firstn k tr)) -> overlap r r' = false)) /\
  (* every response answers a request that is in flight (so: at most one response per request),
     has the matching kind, is addressed to the request's sender, and a read returns, for each byte,
     the latest acknowledged write in acknowledgement order — zero when never written *)
  (forall k isd rspto dst data, nth_error tr k = Some (Recv isd rspto dst data) ->
     exists r, In r (pending_of (firstn k tr)) /\ r_id r = rspto /\ dst = r_src r /\
       isd = negb (r_write r) /\
       (r_write r = false -> data = map (latest (acked_of (firstn k tr))) (addresses r))) /\
  (* the run does not end with a request unanswered (so: at least one response per request) *)
  pending_of tr = [].
