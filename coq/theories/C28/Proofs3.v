(** C28 — histories: the invariant and the simulation along arbitrary operation
    lists, the history reading of Lookup, the JSON round trip, and the link between
    the two case evaluators. *)
From Akita Require Import Lib.Base C28.Model C28.Spec C28.Proofs1 C28.Proofs2 C28.Exec.
From Coq Require Import Sorting.Sorted.
Local Open Scope Z_scope.

(** ** run: invariant *)
Lemma count_visits_cons o ops :
  count_visits (o :: ops) =
  (match o with OVisit _ => 1 | _ => 0 end + count_visits ops)%N.
Proof. unfold count_visits. cbn [filter]. destruct o; cbn [length]; lia. Qed.

Lemma no_wrap_of_bound s o ops :
  (visitCount s + count_visits (o :: ops) < two64)%N -> no_wrap s o.
Proof. rewrite count_visits_cons. destruct o; cbn [no_wrap]; try exact (fun _ => I). lia. Qed.

Lemma run_cons s o ops :
  run s (o :: ops) =
  (fst (run (fst (step s o)) ops), snd (step s o) :: snd (run (fst (step s o)) ops)).
Proof.
  cbn [run]. destruct (step s o) as [s1 x]. cbn [fst snd].
  destruct (run s1 ops) as [s2 xs]. reflexivity.
Qed.

Lemma run_inv : forall ops s,
  Inv s -> (visitCount s + count_visits ops < two64)%N ->
  Inv (fst (run s ops)) /\
  visitCount (fst (run s ops)) = (visitCount s + count_visits ops)%N /\
  wayCount (fst (run s ops)) = wayCount s.
Proof.
  induction ops as [|o ops IH]; intros s HI Hb.
  - cbn. split; [exact HI|]. unfold count_visits. cbn. split; [lia|reflexivity].
  - rewrite run_cons. cbn [fst].
    pose proof (no_wrap_of_bound s o ops Hb) as Hnw.
    pose proof (step_inv s o HI Hnw) as HI1.
    pose proof (step_visitCount s o HI Hnw) as Hv1.
    pose proof (step_wayCount s o HI Hnw) as Hw1.
    rewrite count_visits_cons in Hb.
    destruct (IH (fst (step s o)) HI1) as [HI2 [Hv2 Hw2]]; [rewrite Hv1; lia|].
    split; [exact HI2|]. split; [rewrite Hv2, Hv1, count_visits_cons; lia|congruence].
Qed.

(** along a history, the only panics are Visits outside [0, wayCount), and the
    binary search never runs out of fuel *)
Lemma run_panics : forall ops s,
  Inv s -> (visitCount s + count_visits ops < two64)%N ->
  Forall2 (fun o x =>
             (x = RPanic -> exists w, o = OVisit w /\ ~ (0 <= w < wayCount s)) /\ x <> RNoFuel)
          ops (snd (run s ops)).
Proof.
  induction ops as [|o ops IH]; intros s HI Hb.
  - cbn. constructor.
  - rewrite run_cons. cbn [snd].
    pose proof (no_wrap_of_bound s o ops Hb) as Hnw.
    pose proof (step_inv s o HI Hnw) as HI1.
    pose proof (step_visitCount s o HI Hnw) as Hv1.
    destruct (step_panic s o HI Hnw) as [Hp Hf].
    rewrite count_visits_cons in Hb.
    constructor.
    + split; [apply Hp|exact Hf].
    + pose proof (step_wayCount s o HI Hnw) as Hwc.
      specialize (IH (fst (step s o)) HI1). rewrite Hwc in IH. apply IH. rewrite Hv1. lia.
Qed.

(** ** run: simulation by the reference *)
Lemma run_sim : forall ops s r,
  R s r -> KV s -> Forall op_valid ops -> (visitCount s + count_visits ops < two64)%N ->
  exists r', r_run r (combine ops (snd (run s ops))) = (r', true) /\
             R (fst (run s ops)) r' /\ KV (fst (run s ops)) /\
             length (snd (run s ops)) = length ops.
Proof.
  induction ops as [|o ops IH]; intros s r HR HK Hov Hb.
  - cbn. exists r. auto.
  - rewrite run_cons. cbn [fst snd combine r_run length].
    inversion Hov as [|? ? Ho Hops]; subst.
    pose proof (no_wrap_of_bound s o ops Hb) as Hnw.
    pose proof (step_sim s r o HR HK Ho Hnw) as Hstep.
    destruct HR as [HI HR'].
    pose proof (step_visitCount s o HI Hnw) as Hv1.
    destruct (step s o) as [s1 x]. cbn [fst snd] in *.
    destruct (r_step r o x) as [r1 ok]. destruct Hstep as [Hok [HR1 HK1]]. subst ok.
    rewrite count_visits_cons in Hb.
    destruct (IH s1 r1 HR1 HK1 Hops) as [r' [Hrun [HR2 [HK2 Hlen]]]]; [rewrite Hv1; lia|].
    exists r'. rewrite Hrun. cbn [andb]. auto.
Qed.

(** ** the reference state depends on the operations only *)
Definition r_apply (r : rset) (o : op) : rset := fst (r_step r o RDone).

Lemma r_step_state r o x : fst (r_step r o x) = r_apply r o.
Proof.
  unfold r_apply. destruct o as [k|w old new|k| |w| |a b]; cbn [r_step]; try reflexivity.
  - destruct (r_lookup r k). reflexivity.
  - destruct (r_evict r) as [r' [w ok]]. reflexivity.
  - destruct (r_visit r w). reflexivity.
Qed.

Lemma r_run_state : forall tr r, fst (r_run r tr) = fold_left r_apply (map fst tr) r.
Proof.
  induction tr as [|[o x] tr IH]; intro r; [reflexivity|].
  cbn [r_run map fold_left fst]. rewrite <- r_step_state with (x := x).
  destruct (r_step r o x) as [r1 b]. cbn [fst]. rewrite <- IH.
  destruct (r_run r1 tr). reflexivity.
Qed.

Lemma r_apply_keys r o :
  r_keys (r_apply r o) =
  match o with
  | OUpdateKey w old new => (new, w) :: r_unbind old (r_keys r)
  | ORemove k => r_unbind k (r_keys r)
  | _ => r_keys r
  end.
Proof.
  unfold r_apply. destruct o as [k|w old new|k| |w| |a b]; cbn [r_step]; try reflexivity.
  - destruct (r_lookup r k). reflexivity.
  - unfold r_evict. destruct (r_order r); reflexivity.
  - unfold r_visit. destruct ((0 <=? w) && (w <? r_ways r)); reflexivity.
Qed.

(** Lookup after a history = the most recent operation that mentions the key. *)
Lemma r_find_last_bound k : forall ops r, r_keys r = [] ->
  r_find k (r_keys (fold_left r_apply ops r)) = last_bound k (rev ops).
Proof.
  intros ops. induction ops as [|o ops IH] using rev_ind; intros r Hr.
  - cbn. rewrite Hr. reflexivity.
  - rewrite fold_left_app, rev_app_distr. cbn [fold_left rev app].
    rewrite r_apply_keys. specialize (IH r Hr).
    destruct o as [k'|w old new|k'| |w| |a b]; cbn [last_bound]; try exact IH.
    + cbn [r_find]. rewrite (keq_sym new k). destruct (keq k new) eqn:E1; [reflexivity|].
      rewrite (keq_sym old k). destruct (keq k old) eqn:E2.
      * apply keq_eq in E2. subst old. apply r_find_unbind_eq.
      * rewrite r_find_unbind_neq; [exact IH|]. intro; subst. rewrite keq_refl in E2. discriminate.
    + rewrite (keq_sym k' k). destruct (keq k k') eqn:E2.
      * apply keq_eq in E2. subst k'. apply r_find_unbind_eq.
      * rewrite r_find_unbind_neq; [exact IH|]. intro; subst. rewrite keq_refl in E2. discriminate.
Qed.

Lemma combine_length_map {A B} (l : list A) (l' : list B) :
  length l' = length l -> map fst (combine l l') = l.
Proof.
  revert l'. induction l as [|x l IH]; intros [|y l'] H; cbn in *; try reflexivity; try discriminate.
  f_equal. apply IH. lia.
Qed.

Lemma new_set_R n s : 0 <= n -> new_set n = Some s -> (Z.to_N n < two64)%N ->
  R s (r_new n) /\ KV s /\ visitCount s = Z.to_N n.
Proof.
  intros Hn Hs Hlt. destruct (new_set_ok n Hn Hlt) as [s' [E [HI [Hvl [Hkm [Hwc Hvc]]]]]].
  rewrite Hs in E. inversion E; subst s'. split; [|split; [|exact Hvc]].
  - split; [exact HI|]. cbn [r_new r_ways r_order r_keys]. split; [congruence|]. split; [congruence|].
    intro k. unfold km. rewrite Hkm. reflexivity.
  - unfold KV, km. rewrite Hkm. constructor.
Qed.

Lemma lookup_last_bound n ops s k :
  0 <= n -> new_set n = Some s -> Forall op_valid ops ->
  (Z.to_N n + count_visits ops < two64)%N ->
  lookup (fst (run s ops)) k =
  match last_bound k (rev ops) with Some w => (w, true) | None => (0, false) end.
Proof.
  intros Hn Hs Hov Hb.
  destruct (new_set_R n s Hn Hs) as [HR [HK Hvc]]; [lia|].
  destruct (run_sim ops s (r_new n) HR HK Hov) as [r' [Hrun [HR' [_ Hlen]]]]; [rewrite Hvc; exact Hb|].
  destruct HR' as [_ [_ [_ Hk]]]. unfold lookup. rewrite Hk.
  assert (Er : r' = fold_left r_apply ops (r_new n)).
  { pose proof (r_run_state (combine ops (snd (run s ops))) (r_new n)) as H.
    rewrite Hrun in H. cbn [fst] in H. rewrite combine_length_map in H by exact Hlen. exact H. }
  rewrite Er, r_find_last_bound by reflexivity. reflexivity.
Qed.

(** ** Evict returns the least recently visited listed way; Visit makes a way the
    most recent *)
Lemma evict_lru s s' w :
  Inv s -> evict s = (s', (w, true)) ->
  In w (vl s) /\ vl s' = tl (vl s) /\
  (forall x, In x (vl s') -> (lvof (lv s) w < lvof (lv s) x)%N) /\
  ~ In w (vl s').
Proof.
  intros HI He. pose proof (inv_nodup s HI) as Hnd. pose proof (inv_sorted s HI) as Hs.
  rewrite evict_spec in He. destruct (vl s) as [|w0 rest] eqn:E; [inversion He|].
  inversion He; subst. cbn [vl visitList set_visitList olist tl].
  inversion Hs as [|? ? _ HF]; subst. inversion Hnd; subst.
  split; [left; reflexivity|]. split; [reflexivity|]. split; [|assumption].
  intros x Hx. rewrite Forall_forall in HF. exact (HF x Hx).
Qed.

Lemma evict_empty s s' w : evict s = (s', (w, false)) -> vl s = [] /\ s' = s /\ w = 0.
Proof.
  rewrite evict_spec. destruct (vl s); intro H; inversion H; auto.
Qed.

Lemma visit_mru s w :
  Inv s -> 0 <= w < wayCount s -> (visitCount s + 1 < two64)%N ->
  exists s' pre, visit s w = (s', Done) /\ Inv s' /\ vl s' = pre ++ [w] /\
    ~ In w pre /\ (forall x, In x pre <-> In x (vl s) /\ x <> w) /\
    (forall x, In x pre -> (lvof (lv s') x < lvof (lv s') w)%N).
Proof.
  intros HI Hw Hvc.
  destruct (visit_in_range s w HI Hw Hvc) as [s' [E [HI' [Hvl [_ [_ [_ [Hlw Hlo]]]]]]]].
  exists s', (filter (fun x => negb (x =? w)) (vl s)). split; [exact E|]. split; [exact HI'|].
  split; [exact Hvl|]. split; [apply filter_neq_notin|]. split.
  - intro x. rewrite filter_In. split; intros [H1 H2]; split; auto; lia.
  - intros x Hx. pose proof (inv_sorted s' HI') as Hs. rewrite Hvl in Hs.
    apply ss_app_mid in Hs. rewrite Forall_forall in Hs. exact (Hs x Hx).
Qed.

(** the invariant, spelled out, after any history on NewSet n *)
Lemma visitlist_sorted n ops s : 0 <= n -> new_set n = Some s ->
  (Z.to_N n + count_visits ops < two64)%N ->
  let s' := fst (run s ops) in
  Inv s' /\
  StronglySorted (fun a b => (lvof (lv s') a < lvof (lv s') b)%N) (vl s') /\
  NoDup (vl s') /\ Forall (fun w => 0 <= w < n) (vl s') /\
  Forall (fun t => (t <= visitCount s')%N) (lv s') /\ zlen (lv s') = n.
Proof.
  intros Hn Hs Hb s'.
  destruct (new_set_ok n Hn) as [s0 [E [HI [_ [_ [Hwc Hvc]]]]]];
    [pose proof (N.le_0_l (count_visits ops)); lia|].
  rewrite Hs in E. inversion E; subst s0.
  destruct (run_inv ops s HI) as [HI' [_ Hwc']]; [rewrite Hvc; exact Hb|].
  fold s' in HI', Hwc'. rewrite Hwc in Hwc'.
  split; [exact HI'|]. split; [exact (inv_sorted s' HI')|]. split; [exact (inv_nodup s' HI')|].
  split; [rewrite <- Hwc'; exact (inv_range s' HI')|].
  split; [exact (inv_le s' HI')|]. rewrite <- Hwc'. exact (inv_wc s' HI').
Qed.

Lemma refinement n ops s : 0 <= n -> new_set n = Some s ->
  Forall op_valid ops -> (Z.to_N n + count_visits ops < two64)%N ->
  exists r', r_run (r_new n) (combine ops (snd (run s ops))) = (r', true) /\
             R (fst (run s ops)) r' /\ length (snd (run s ops)) = length ops.
Proof.
  intros Hn Hs Hov Hb.
  destruct (new_set_R n s Hn Hs) as [HR [HK Hvc]];
    [pose proof (N.le_0_l (count_visits ops)); lia|].
  destruct (run_sim ops s (r_new n) HR HK Hov) as [r' [H1 [H2 [_ H3]]]]; [rewrite Hvc; exact Hb|].
  eauto.
Qed.

Lemma roundtrip_history n ops s : 0 <= n -> new_set n = Some s ->
  Forall op_valid ops -> (Z.to_N n + count_visits ops < two64)%N ->
  unmarshal (marshal (fst (run s ops))) = fst (run s ops).
Proof.
  intros Hn Hs Hov Hb.
  destruct (new_set_R n s Hn Hs) as [HR [HK Hvc]];
    [pose proof (N.le_0_l (count_visits ops)); lia|].
  destruct (run_sim ops s (r_new n) HR HK Hov) as [r' [_ [[HI' _] [HK' _]]]]; [rewrite Hvc; exact Hb|].
  apply roundtrip_id; assumption.
Qed.

Lemma roundtrip_partial s : Inv s -> KV s ->
  unmarshal (marshal s) = s /\
  (forall ops, run (unmarshal (marshal s)) ops = run s ops) /\
  (forall k, lookup (unmarshal (marshal s)) k = lookup s k) /\
  vl (unmarshal (marshal s)) = vl s.
Proof. intros HI HK. pose proof (roundtrip_id s HI HK) as E. rewrite E. auto. Qed.

Lemma roundtrip_refuted :
  exists n ops k s0, new_set n = Some s0 /\
    let s := fst (run s0 ops) in
    Inv s /\ lookup s k = (1, true) /\ lookup (unmarshal (marshal s)) k = (0, false).
Proof.
  exists 3, [OUpdateKey 1 [] [255%N]], [255%N].
  destruct (new_set_ok 3) as [s0 [E [HI _]]]; [lia|vm_compute; reflexivity|].
  exists s0. split; [exact E|].
  split.
  - rewrite run_cons. cbn [fst run]. apply (step_inv s0 (OUpdateKey 1 [] [255%N]) HI I).
  - revert E. vm_compute. intro E. inversion E. vm_compute. split; reflexivity.
Qed.

(** ** JSON round trip *)
Lemma roundtrip_observational s ops :
  Inv s -> KV s -> run (unmarshal (marshal s)) ops = run s ops.
Proof. intros HI HK. rewrite roundtrip_id by assumption. reflexivity. Qed.

(** ** boolean equalities decide equality *)
Lemma opt_eqb_eq {A} (eqb : A -> A -> bool) (H : forall x y, eqb x y = true <-> x = y) a b :
  opt_eqb eqb a b = true <-> a = b.
Proof.
  destruct a as [x|], b as [y|]; cbn [opt_eqb]; split; intro E; try discriminate; try reflexivity.
  - f_equal. apply H. exact E.
  - inversion E; subst. apply H. reflexivity.
Qed.

Lemma bool_eqb_eq a b : Bool.eqb a b = true <-> a = b.
Proof. destruct a, b; cbn; split; intro; try reflexivity; try discriminate. Qed.

Lemma kv_eqb_eq a b : kv_eqb a b = true <-> a = b.
Proof.
  destruct a as [k v], b as [k' v']. unfold kv_eqb. cbn [fst snd].
  rewrite andb_true_iff, listN_eqb_eq, Z.eqb_eq. split.
  - intros [-> ->]. reflexivity.
  - intro H. inversion H. auto.
Qed.

Lemma dto_eqb_eq a b : dto_eqb a b = true <-> a = b.
Proof.
  destruct a as [a1 a2 a3 a4 a5], b as [b1 b2 b3 b4 b5]. unfold dto_eqb.
  cbn [d_wc d_vl d_vc d_lv d_km]. rewrite !andb_true_iff, Z.eqb_eq, N.eqb_eq.
  rewrite (opt_eqb_eq (list_eqb Z.eqb) (list_eqb_eq Z.eqb Z.eqb_eq)).
  rewrite (opt_eqb_eq listN_eqb listN_eqb_eq).
  rewrite (opt_eqb_eq (list_eqb kv_eqb) (list_eqb_eq kv_eqb kv_eqb_eq)).
  split.
  - intros [[[[-> ->] ->] ->] ->]. reflexivity.
  - intro H. inversion H. auto.
Qed.

Lemma out_eqb_eq a b : out_eqb a b = true <-> a = b.
Proof.
  destruct a, b; cbn [out_eqb]; split; intro H; try discriminate; try reflexivity.
  - apply andb_true_iff in H. destruct H as [H1 H2]. apply Z.eqb_eq in H1. apply Bool.eqb_prop in H2. subst. reflexivity.
  - inversion H; subst. rewrite Z.eqb_refl. apply Bool.eqb_reflx.
  - apply andb_true_iff in H. destruct H as [H1 H2]. apply Z.eqb_eq in H1. apply Bool.eqb_prop in H2. subst. reflexivity.
  - inversion H; subst. rewrite Z.eqb_refl. apply Bool.eqb_reflx.
  - apply dto_eqb_eq in H. subst. reflexivity.
  - inversion H; subst. apply dto_eqb_eq. reflexivity.
  - apply listN_eqb_eq in H. subst. reflexivity.
  - inversion H; subst. apply listN_eqb_eq. reflexivity.
Qed.

Lemma combine_fst_snd {A B} (l : list (A * B)) : combine (map fst l) (map snd l) = l.
Proof. induction l as [|[a b] l IH]; cbn; [reflexivity|]. rewrite IH. reflexivity. Qed.

(** ** a snapshot in the domain restores a state related to its reading *)
Lemma all_some_spec {A} : forall (l : list (option A)) ts,
  all_some l = Some ts -> l = map Some ts.
Proof.
  induction l as [|[x|] l IH]; intros ts H; cbn [all_some] in H.
  - inversion H. reflexivity.
  - destruct (all_some l) as [r|] eqn:E; [|discriminate]. inversion H; subst.
    cbn [map]. f_equal. auto.
  - discriminate.
Qed.

Lemma strictly_increasing_ss : forall ts, strictly_increasing ts = true ->
  StronglySorted N.lt ts.
Proof.
  induction ts as [|x ts IH]; intro H; [constructor|].
  cbn [strictly_increasing] in H. apply andb_true_iff in H. destruct H as [H1 H2].
  specialize (IH H2). constructor; [exact IH|].
  destruct ts as [|y ts]; [constructor|].
  inversion IH as [|? ? _ HF]; subst. constructor; [lia|].
  eapply Forall_impl; [|exact HF]. intros a Ha. cbn beta in Ha. lia.
Qed.

Lemma ss_map_lvof lvs : forall l ts,
  map (zget lvs) l = map Some ts -> StronglySorted N.lt ts ->
  StronglySorted (stamp_lt lvs) l /\ Forall (fun w => 0 <= w < zlen lvs) l.
Proof.
  induction l as [|w l IH]; intros ts Hm Hs.
  - split; constructor.
  - destruct ts as [|t ts]; [discriminate|]. cbn [map] in Hm. inversion Hm as [[Hw Hl]].
    inversion Hs as [|? ? Hs' HF]; subst. destruct (IH ts Hl Hs') as [IH1 IH2].
    split.
    + constructor; [exact IH1|]. apply Forall_forall. intros x Hx.
      destruct (in_zget l x Hx) as [i Hi].
      assert (Hx' : In (zget lvs x) (map (zget lvs) l)) by (apply in_map; exact Hx).
      rewrite Hl in Hx'. apply in_map_iff in Hx'. destruct Hx' as [t' [Ht' Hin]].
      rewrite Forall_forall in HF. specialize (HF t' Hin).
      unfold stamp_lt, lvof. rewrite Hw, <- Ht'. exact HF.
    + constructor; [eapply zget_some_range; exact Hw|exact IH2].
Qed.

Lemma km_of_entries_get k : forall es, km_get k (km_of_entries es) = r_find k (rev es).
Proof.
  induction es as [|[k' v] es IH] using rev_ind; [reflexivity|].
  rewrite km_of_entries_snoc, rev_app_distr. cbn [rev app r_find].
  destruct (keq k k') eqn:E.
  - apply keq_eq in E. subst k'. apply km_get_set_eq.
  - rewrite km_get_set_neq; [exact IH|]. intro; subst. rewrite keq_refl in E. discriminate.
Qed.

Lemma snapshot_domain_R d ops :
  snapshot_in_domain d ops = true ->
  Forall (fun e => key_valid (fst e)) (olist (d_km d)) ->
  R (unmarshal d) (r_of_snapshot d) /\ KV (unmarshal d) /\
  (visitCount (unmarshal d) + count_visits ops < two64)%N.
Proof.
  unfold snapshot_in_domain. intros H HK.
  repeat (apply andb_true_iff in H; destruct H as [H ?]).
  destruct (all_some (map (zget (olist (d_lv d))) (olist (d_vl d)))) as [ts|] eqn:Ets; [|discriminate].
  apply all_some_spec in Ets.
  match goal with Hs : strictly_increasing ts = true |- _ => apply strictly_increasing_ss in Hs;
    destruct (ss_map_lvof _ _ _ Ets Hs) as [Hsorted Hrange] end.
  assert (Hwc : zlen (olist (d_lv d)) = d_wc d) by lia.
  split; [|split].
  - split; [|split; [reflexivity|split; [reflexivity|]]].
    + constructor; cbn [unmarshal vl lv visitList lastVisits wayCount keyMap visitCount].
      * exact Hwc.
      * rewrite <- Hwc. exact Hrange.
      * exact Hsorted.
      * apply Forall_forall. intros t Ht.
        match goal with Hf : forallb _ _ = true |- _ => rewrite forallb_forall in Hf; specialize (Hf t Ht) end. lia.
      * pose proof (N.le_0_l (count_visits ops)). lia.
      * eexists. split; [reflexivity|]. destruct (d_km d); [apply km_of_entries_sorted|constructor].
    + intro k. cbn [unmarshal km keyMap olist r_of_snapshot r_keys].
      destruct (d_km d) as [es|]; cbn [olist]; [apply km_of_entries_get|reflexivity].
  - unfold KV. cbn [unmarshal km keyMap olist]. destruct (d_km d) as [es|]; [|constructor].
    cbn [olist] in HK. apply Forall_forall. intros e He. apply km_of_entries_in in He.
    rewrite Forall_forall in HK. auto.
  - cbn [unmarshal visitCount]. lia.
Qed.

(** ** link: agreement with the code model implies the property on the observed run *)
Definition wf_case (c : case) : Prop :=
  Forall op_valid (map fst (c_trace c)) /\
  match c_start c with
  | SNew n => (Z.to_N n + count_visits (map fst (c_trace c)) < two64)%N
  | SJson d => Forall (fun e => key_valid (fst e)) (olist (d_km d))
  | SZero => True
  end.

Lemma holds_from_R s r c :
  R s r -> KV s -> Forall op_valid (map fst (c_trace c)) ->
  (visitCount s + count_visits (map fst (c_trace c)) < two64)%N ->
  c_init_ok c = true ->
  (let '(s', outs) := run s (map fst (c_trace c)) in
   list_eqb out_eqb outs (map snd (c_trace c)) &&
   opt_eqb dto_eqb (Some (marshal s')) (c_final c)) = true ->
  holds_from r c = true.
Proof.
  intros HR HK Hov Hb Hinit Hchk.
  destruct (run_sim _ s r HR HK Hov Hb) as [r' [Hrun [HR' [HK' Hlen]]]].
  destruct (run s (map fst (c_trace c))) as [s' outs] eqn:Er. cbn [fst snd] in *.
  apply andb_true_iff in Hchk. destruct Hchk as [Houts Hfin].
  apply (list_eqb_eq out_eqb out_eqb_eq) in Houts. subst outs.
  rewrite combine_fst_snd in Hrun.
  unfold holds_from. rewrite Hinit, Hrun. cbn [andb].
  destruct (c_final c) as [d|]; cbn [opt_eqb] in Hfin; [|discriminate].
  apply dto_eqb_eq in Hfin. subst d. apply snapshot_ok; assumption.
Qed.

Lemma check_implies_holds c : wf_case c -> check_case c = true -> holds_on c = true.
Proof.
  intros [Hov Hst] Hchk. unfold check_case in Hchk. unfold holds_on.
  destruct (c_start c) as [n|d|] eqn:Es; cbn [init_state] in Hchk.
  - destruct (n <? 0) eqn:En.
    + rewrite new_set_neg in Hchk by lia.
      apply andb_true_iff in Hchk. destruct Hchk as [Hchk _].
      apply andb_true_iff in Hchk. destruct Hchk as [Hchk _]. exact Hchk.
    + assert (Hn : 0 <= n) by lia.
      destruct (new_set_ok n Hn) as [s [E _]]; [pose proof (N.le_0_l (count_visits (map fst (c_trace c)))); lia|].
      rewrite E in Hchk. apply andb_true_iff in Hchk. destruct Hchk as [Hinit Hchk].
      destruct (new_set_R n s Hn E) as [HR [HK Hvc]];
        [pose proof (N.le_0_l (count_visits (map fst (c_trace c)))); lia|].
      eapply holds_from_R; eauto. rewrite Hvc. exact Hst.
  - destruct (snapshot_in_domain d (map fst (c_trace c))) eqn:Ed; [|reflexivity].
    destruct (snapshot_domain_R d _ Ed Hst) as [HR [HK Hb]].
    apply andb_true_iff in Hchk. destruct Hchk as [Hinit Hchk].
    eapply holds_from_R; eauto.
  - reflexivity.
Qed.
