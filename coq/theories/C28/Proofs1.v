(** C28 — lemmas about the building blocks: slice indexing, key order, the sorted
    key map, the removal loop, sort.Search, the insertion. *)
From Akita Require Import Lib.Base C28.Model C28.Spec.
From Coq Require Import Sorting.Sorted.
Local Open Scope Z_scope.

(** ** zget / zset *)
Lemma zlen_cons {A} (x : A) r : zlen (x :: r) = zlen r + 1.
Proof. unfold zlen. cbn [length]. lia. Qed.

Lemma zlen_nonneg {A} (l : list A) : 0 <= zlen l.
Proof. unfold zlen. lia. Qed.

Lemma zlen_app {A} (a b : list A) : zlen (a ++ b) = zlen a + zlen b.
Proof. unfold zlen. rewrite app_length. lia. Qed.

Lemma zget_some_range {A} (l : list A) : forall i x, zget l i = Some x -> 0 <= i < zlen l.
Proof.
  induction l as [|y r IH]; intros i x H; cbn [zget] in H; [discriminate|].
  rewrite zlen_cons. destruct (i =? 0) eqn:E.
  - pose proof (zlen_nonneg r). lia.
  - apply IH in H. lia.
Qed.

Lemma zget_in_range {A} (l : list A) : forall i, 0 <= i < zlen l -> exists x, zget l i = Some x.
Proof.
  induction l as [|y r IH]; intros i H.
  - unfold zlen in H. cbn in H. lia.
  - rewrite zlen_cons in H. cbn [zget]. destruct (i =? 0) eqn:E; [eauto|].
    apply IH. lia.
Qed.

Lemma zget_none {A} (l : list A) i : ~ (0 <= i < zlen l) -> zget l i = None.
Proof.
  intro H. destruct (zget l i) as [x|] eqn:E; [|reflexivity].
  apply zget_some_range in E. contradiction.
Qed.

Lemma zget_in {A} (l : list A) : forall i x, zget l i = Some x -> In x l.
Proof.
  induction l as [|y r IH]; intros i x H; cbn [zget] in H; [discriminate|].
  destruct (i =? 0); [inversion H; left; reflexivity|right; eauto].
Qed.

Lemma in_zget {A} (l : list A) x : In x l -> exists i, zget l i = Some x.
Proof.
  induction l as [|y r IH]; intros H; [destruct H|].
  destruct H as [->|H].
  - exists 0. reflexivity.
  - destruct (IH H) as [i Hi]. exists (i + 1). cbn [zget].
    pose proof (zget_some_range _ _ _ Hi).
    destruct (i + 1 =? 0) eqn:E; [lia|]. replace (i + 1 - 1) with i by lia. exact Hi.
Qed.

Lemma zset_some {A} (l : list A) v : forall i, 0 <= i < zlen l -> exists l', zset l i v = Some l'.
Proof.
  induction l as [|y r IH]; intros i H.
  - unfold zlen in H. cbn in H. lia.
  - rewrite zlen_cons in H. cbn [zset]. destruct (i =? 0) eqn:E; [eauto|].
    destruct (IH (i - 1)) as [r' Hr]; [lia|]. rewrite Hr. eauto.
Qed.

Lemma zset_some_range {A} (l : list A) v : forall i l', zset l i v = Some l' -> 0 <= i < zlen l.
Proof.
  induction l as [|y r IH]; intros i l' H; cbn [zset] in H; [discriminate|].
  rewrite zlen_cons. destruct (i =? 0) eqn:E.
  - pose proof (zlen_nonneg r). lia.
  - destruct (zset r (i - 1) v) as [r'|] eqn:Er; [|discriminate].
    apply IH in Er. lia.
Qed.

Lemma zset_none {A} (l : list A) v i : ~ (0 <= i < zlen l) -> zset l i v = None.
Proof.
  intro H. destruct (zset l i v) as [x|] eqn:E; [|reflexivity].
  apply zset_some_range in E. contradiction.
Qed.

Lemma zset_length {A} (l : list A) v : forall i l', zset l i v = Some l' -> length l' = length l.
Proof.
  induction l as [|y r IH]; intros i l' H; cbn [zset] in H; [discriminate|].
  destruct (i =? 0).
  - inversion H. reflexivity.
  - destruct (zset r (i - 1) v) as [r'|] eqn:Er; [|discriminate].
    inversion H. cbn [length]. f_equal. eauto.
Qed.

Lemma zget_zset_eq {A} (l : list A) v : forall i l', zset l i v = Some l' -> zget l' i = Some v.
Proof.
  induction l as [|y r IH]; intros i l' H; cbn [zset] in H; [discriminate|].
  destruct (i =? 0) eqn:E.
  - inversion H. cbn [zget]. rewrite E. reflexivity.
  - destruct (zset r (i - 1) v) as [r'|] eqn:Er; [|discriminate].
    inversion H. cbn [zget]. rewrite E. eauto.
Qed.

Lemma zget_zset_neq {A} (l : list A) v : forall i j l', zset l i v = Some l' -> j <> i ->
  zget l' j = zget l j.
Proof.
  induction l as [|y r IH]; intros i j l' H Hne; cbn [zset] in H; [discriminate|].
  destruct (i =? 0) eqn:E.
  - inversion H. cbn [zget]. destruct (j =? 0) eqn:Ej; [lia|reflexivity].
  - destruct (zset r (i - 1) v) as [r'|] eqn:Er; [|discriminate].
    inversion H. cbn [zget]. destruct (j =? 0); [reflexivity|].
    eapply IH; [exact Er|lia].
Qed.

Lemma zset_forall {A} (P : A -> Prop) (l : list A) v : forall i l', zset l i v = Some l' ->
  Forall P l -> P v -> Forall P l'.
Proof.
  induction l as [|y r IH]; intros i l' H HF Hv; cbn [zset] in H; [discriminate|].
  inversion HF as [|? ? Hy Hr]; subst.
  destruct (i =? 0).
  - inversion H. constructor; assumption.
  - destruct (zset r (i - 1) v) as [r'|] eqn:Er; [|discriminate].
    inversion H. constructor; [assumption|]. eapply IH; eauto.
Qed.

(** ** key order *)
Lemma key_cmp_refl a : key_cmp a a = Eq.
Proof. induction a as [|x a IH]; cbn [key_cmp]; [reflexivity|]. rewrite N.compare_refl. exact IH. Qed.

Lemma key_cmp_eq : forall a b, key_cmp a b = Eq -> a = b.
Proof.
  induction a as [|x a IH]; intros [|y b] H; cbn [key_cmp] in H; try discriminate; [reflexivity|].
  destruct (N.compare x y) eqn:E; try discriminate.
  apply N.compare_eq in E. subst. f_equal. auto.
Qed.

Lemma key_cmp_antisym : forall a b, key_cmp b a = CompOpp (key_cmp a b).
Proof.
  induction a as [|x a IH]; intros [|y b]; cbn [key_cmp]; try reflexivity.
  rewrite (N.compare_antisym x y). destruct (N.compare x y); cbn [CompOpp]; auto.
Qed.

Lemma key_cmp_lt_trans : forall a b c, key_cmp a b = Lt -> key_cmp b c = Lt -> key_cmp a c = Lt.
Proof.
  induction a as [|x a IH]; intros [|y b] [|z c] H1 H2; cbn [key_cmp] in *; try discriminate; try reflexivity.
  destruct (N.compare x y) eqn:E1; try discriminate;
    destruct (N.compare y z) eqn:E2; try discriminate.
  - apply N.compare_eq in E1. apply N.compare_eq in E2. subst. rewrite N.compare_refl. eauto.
  - apply N.compare_eq in E1. subst. rewrite E2. reflexivity.
  - apply N.compare_eq in E2. subst. rewrite E1. reflexivity.
  - assert (E : N.compare x z = Lt) by (rewrite N.compare_lt_iff in *; lia). rewrite E. reflexivity.
Qed.

Lemma key_eqb_eq a b : key_eqb a b = true <-> a = b.
Proof.
  unfold key_eqb. split.
  - destruct (key_cmp a b) eqn:E; try discriminate. intros _. apply key_cmp_eq. exact E.
  - intros ->. rewrite key_cmp_refl. reflexivity.
Qed.

Lemma key_eqb_neq a b : key_eqb a b = false <-> a <> b.
Proof.
  split.
  - intros H ->. rewrite (proj2 (key_eqb_eq b b) eq_refl) in H. discriminate.
  - intro H. destruct (key_eqb a b) eqn:E; [|reflexivity]. apply key_eqb_eq in E. contradiction.
Qed.

Lemma keq_eq a b : keq a b = true <-> a = b.
Proof. unfold keq. apply listN_eqb_eq. Qed.

Lemma keq_key_eqb a b : keq a b = key_eqb a b.
Proof.
  destruct (key_eqb a b) eqn:E.
  - apply key_eqb_eq in E. apply keq_eq. exact E.
  - apply key_eqb_neq in E. destruct (keq a b) eqn:F; [|reflexivity].
    apply keq_eq in F. contradiction.
Qed.

Lemma keq_refl a : keq a a = true.
Proof. apply keq_eq. reflexivity. Qed.

Lemma keq_sym a b : keq a b = keq b a.
Proof.
  destruct (keq b a) eqn:E.
  - apply keq_eq in E. subst. apply keq_refl.
  - destruct (keq a b) eqn:F; [|reflexivity]. apply keq_eq in F. subst.
    rewrite keq_refl in E. discriminate.
Qed.

(** ** the key map *)
Lemma km_get_set_eq k v m : km_get k (km_set k v m) = Some v.
Proof.
  induction m as [|[k' v'] r IH]; cbn [km_set km_get].
  - rewrite (proj2 (key_eqb_eq k k) eq_refl). reflexivity.
  - destruct (key_cmp k k') eqn:E; cbn [km_get].
    + rewrite (proj2 (key_eqb_eq k k) eq_refl). reflexivity.
    + rewrite (proj2 (key_eqb_eq k k) eq_refl). reflexivity.
    + unfold key_eqb at 1. rewrite E. exact IH.
Qed.

Lemma km_get_set_neq k k' v m : k' <> k -> km_get k' (km_set k v m) = km_get k' m.
Proof.
  intro Hne. induction m as [|[k2 v2] r IH]; cbn [km_set km_get].
  - rewrite (proj2 (key_eqb_neq k' k) Hne). reflexivity.
  - destruct (key_cmp k k2) eqn:E; cbn [km_get].
    + apply key_cmp_eq in E. subst k2. rewrite (proj2 (key_eqb_neq k' k) Hne). reflexivity.
    + rewrite (proj2 (key_eqb_neq k' k) Hne). reflexivity.
    + rewrite IH. reflexivity.
Qed.

Lemma km_get_del_eq k m : km_get k (km_del k m) = None.
Proof.
  induction m as [|[k' v'] r IH]; cbn [km_del km_get]; [reflexivity|].
  destruct (key_eqb k k') eqn:E; [exact IH|]. cbn [km_get]. rewrite E. exact IH.
Qed.

Lemma km_get_del_neq k k' m : k' <> k -> km_get k' (km_del k m) = km_get k' m.
Proof.
  intro Hne. induction m as [|[k2 v2] r IH]; cbn [km_del km_get]; [reflexivity|].
  destruct (key_eqb k k2) eqn:E.
  - apply key_eqb_eq in E. subst k2. rewrite (proj2 (key_eqb_neq k' k) Hne). exact IH.
  - cbn [km_get]. rewrite IH. reflexivity.
Qed.

Definition klt (a b : key * Z) : Prop := key_cmp (fst a) (fst b) = Lt.
Definition km_sorted (m : kmap) : Prop := StronglySorted klt m.

Lemma km_set_in k v m e : In e (km_set k v m) -> e = (k, v) \/ In e m.
Proof.
  induction m as [|[k' v'] r IH]; cbn [km_set]; intro H.
  - destruct H as [H|[]]; auto.
  - destruct (key_cmp k k').
    + destruct H as [H|H]; [auto|right; right; exact H].
    + destruct H as [H|H]; [auto|right; exact H].
    + destruct H as [H|H]; [right; left; exact H|].
      destruct (IH H); [auto|right; right; assumption].
Qed.

Lemma km_del_in k m e : In e (km_del k m) -> In e m.
Proof.
  induction m as [|[k' v'] r IH]; cbn [km_del]; intro H; [exact H|].
  destruct (key_eqb k k'); [right; auto|].
  destruct H as [H|H]; [left; exact H|right; auto].
Qed.

Lemma km_set_sorted k v m : km_sorted m -> km_sorted (km_set k v m).
Proof.
  unfold km_sorted. induction m as [|[k' v'] r IH]; intro H; cbn [km_set].
  - constructor; constructor.
  - inversion H as [|? ? Hr HF]; subst. destruct (key_cmp k k') eqn:E.
    + apply key_cmp_eq in E. subst k'. constructor; [exact Hr|]. exact HF.
    + constructor; [exact H|]. constructor; [exact E|].
      eapply Forall_impl; [|exact HF]. intros a Ha. unfold klt in *. cbn [fst] in *.
      eapply key_cmp_lt_trans; eauto.
    + constructor; [auto|]. apply Forall_forall. intros e He.
      apply km_set_in in He. destruct He as [->|He].
      * unfold klt. cbn [fst]. rewrite key_cmp_antisym, E. reflexivity.
      * rewrite Forall_forall in HF. auto.
Qed.

Lemma km_del_sorted k m : km_sorted m -> km_sorted (km_del k m).
Proof.
  unfold km_sorted. induction m as [|[k' v'] r IH]; intro H; cbn [km_del]; [constructor|].
  inversion H as [|? ? Hr HF]; subst. destruct (key_eqb k k'); [auto|].
  constructor; [auto|]. apply Forall_forall. intros e He. apply km_del_in in He.
  rewrite Forall_forall in HF. auto.
Qed.

Lemma km_sorted_get k v m : km_sorted m -> In (k, v) m -> km_get k m = Some v.
Proof.
  unfold km_sorted. induction m as [|[k' v'] r IH]; intros H Hin; [destruct Hin|].
  inversion H as [|? ? Hr HF]; subst. cbn [km_get]. destruct Hin as [Heq|Hin].
  - inversion Heq; subst. rewrite (proj2 (key_eqb_eq k k) eq_refl). reflexivity.
  - destruct (key_eqb k k') eqn:E; [|auto].
    apply key_eqb_eq in E. subst k'. rewrite Forall_forall in HF.
    specialize (HF _ Hin). unfold klt in HF. cbn [fst] in HF. rewrite key_cmp_refl in HF. discriminate.
Qed.

Lemma km_set_append k v m :
  Forall (fun e => key_cmp (fst e) k = Lt) m -> km_set k v m = m ++ [(k, v)].
Proof.
  induction m as [|[k' v'] r IH]; intro H; cbn [km_set app]; [reflexivity|].
  inversion H as [|? ? H1 H2]; subst. cbn [fst] in H1.
  rewrite key_cmp_antisym, H1. cbn [CompOpp]. rewrite IH; auto.
Qed.

Lemma ss_app_mid {A} (R : A -> A -> Prop) a x b :
  StronglySorted R (a ++ x :: b) -> Forall (fun y => R y x) a.
Proof.
  induction a as [|y a IH]; cbn [app]; intro H; [constructor|].
  inversion H as [|? ? Hr HF]; subst. constructor; [|auto].
  rewrite Forall_forall in HF. apply HF. apply in_or_app. right. left. reflexivity.
Qed.

Lemma km_fold_sorted_id l : forall acc, km_sorted (acc ++ l) ->
  fold_left (fun m kv => km_set (fst kv) (snd kv) m) l acc = acc ++ l.
Proof.
  induction l as [|[k v] l IH]; intros acc H; cbn [fold_left fst snd].
  - rewrite app_nil_r. reflexivity.
  - rewrite km_set_append.
    + rewrite IH; rewrite <- app_assoc; [reflexivity|exact H].
    + apply ss_app_mid in H. exact H.
Qed.

Lemma km_of_entries_sorted_id m : km_sorted m -> km_of_entries m = m.
Proof. intro H. unfold km_of_entries. rewrite km_fold_sorted_id; [reflexivity|exact H]. Qed.

Lemma km_fold_sorted l : forall acc, km_sorted acc ->
  km_sorted (fold_left (fun m kv => km_set (fst kv) (snd kv) m) l acc).
Proof.
  induction l as [|[k v] l IH]; intros acc H; cbn [fold_left]; [exact H|].
  apply IH. apply km_set_sorted. exact H.
Qed.

Lemma km_of_entries_sorted es : km_sorted (km_of_entries es).
Proof. apply km_fold_sorted. constructor. Qed.

Lemma km_fold_in l : forall acc e,
  In e (fold_left (fun m kv => km_set (fst kv) (snd kv) m) l acc) -> In e acc \/ In e l.
Proof.
  induction l as [|[k v] l IH]; intros acc e H; cbn [fold_left] in H; [auto|].
  apply IH in H. destruct H as [H|H]; [|right; right; exact H].
  apply km_set_in in H. cbn [fst snd] in H. destruct H as [->|H]; [right; left; reflexivity|auto].
Qed.

Lemma km_of_entries_in es e : In e (km_of_entries es) -> In e es.
Proof. intro H. apply km_fold_in in H. destruct H as [[]|H]. exact H. Qed.

Lemma km_of_entries_snoc es k v :
  km_of_entries (es ++ [(k, v)]) = km_set k v (km_of_entries es).
Proof. unfold km_of_entries. rewrite fold_left_app. reflexivity. Qed.

(** the reference's first-match lookup agrees with the map lookup on any list *)
Lemma r_find_km_get k m : r_find k m = km_get k m.
Proof.
  induction m as [|[k' v'] r IH]; cbn [r_find km_get]; [reflexivity|].
  rewrite keq_key_eqb, IH. reflexivity.
Qed.

Lemma r_find_unbind_eq k b : r_find k (r_unbind k b) = None.
Proof.
  unfold r_unbind. induction b as [|[k' w] r IH]; cbn [filter r_find fst]; [reflexivity|].
  destruct (keq k k') eqn:E; cbn [negb]; [exact IH|]. cbn [r_find]. rewrite E. exact IH.
Qed.

Lemma r_find_unbind_neq k k' b : k' <> k -> r_find k' (r_unbind k b) = r_find k' b.
Proof.
  intro Hne. unfold r_unbind. induction b as [|[k2 w] r IH]; cbn [filter r_find fst]; [reflexivity|].
  destruct (keq k k2) eqn:E; cbn [negb].
  - apply keq_eq in E. subst k2. destruct (keq k' k) eqn:F; [apply keq_eq in F; contradiction|exact IH].
  - cbn [r_find]. rewrite IH. reflexivity.
Qed.

(** ** the removal loop *)
Lemma remove_first_in x w l : In x (remove_first w l) -> In x l.
Proof.
  induction l as [|y r IH]; cbn [remove_first]; intro H; [exact H|].
  destruct (y =? w); [right; exact H|].
  destruct H as [H|H]; [left; exact H|right; auto].
Qed.

Lemma remove_first_notin w l : ~ In w l -> remove_first w l = l.
Proof.
  induction l as [|y r IH]; cbn [remove_first]; intro H; [reflexivity|].
  destruct (y =? w) eqn:E.
  - exfalso. apply H. left. lia.
  - f_equal. apply IH. intro Hin. apply H. right. exact Hin.
Qed.

Lemma filter_notin w l : ~ In w l -> filter (fun x => negb (x =? w)) l = l.
Proof.
  induction l as [|y r IH]; cbn [filter]; intro H; [reflexivity|].
  destruct (y =? w) eqn:E; cbn [negb].
  - exfalso. apply H. left. lia.
  - f_equal. apply IH. intro Hin. apply H. right. exact Hin.
Qed.

Lemma remove_first_nodup w l : NoDup l ->
  remove_first w l = filter (fun x => negb (x =? w)) l.
Proof.
  induction l as [|y r IH]; cbn [remove_first filter]; intro H; [reflexivity|].
  inversion H as [|? ? Hy Hr]; subst. destruct (y =? w) eqn:E; cbn [negb].
  - assert (y = w) by lia. subst y. symmetry. apply filter_notin. exact Hy.
  - f_equal. auto.
Qed.

Lemma filter_neq_notin w l : ~ In w (filter (fun x => negb (x =? w)) l).
Proof. intro H. apply filter_In in H. destruct H as [_ H]. rewrite Z.eqb_refl in H. discriminate. Qed.

Lemma olist_option_map {A} (f : list A -> list A) o : f [] = [] ->
  olist (option_map f o) = f (olist o).
Proof. intro H. destruct o; cbn; auto. Qed.

(** ** sort.Search *)

(** Its contract: if the predicate is false below p and true from p on (a monotone
    predicate that does not panic), the loop returns p, whatever the fuel above the
    interval length. *)
Lemma search_spec : forall fuel f i j p,
  i <= p <= j -> Z.of_nat fuel > j - i ->
  (forall h, i <= h < p -> f h = Some false) ->
  (forall h, p <= h < j -> f h = Some true) ->
  search fuel f i j = SFound p.
Proof.
  induction fuel as [|fuel IH]; intros f i j p Hp Hfuel Hlo Hhi; [lia|].
  cbn [search]. destruct (i <? j) eqn:E.
  - assert (Hh : i <= (i + j) / 2 < j) by lia.
    destruct (Z_lt_le_dec ((i + j) / 2) p) as [Hlt|Hge].
    + rewrite Hlo by lia. apply IH; try lia.
      * intros h Hh'. apply Hlo. lia.
      * intros h Hh'. apply Hhi. lia.
    + rewrite Hhi by lia. apply IH; try lia.
      * intros h Hh'. apply Hlo. lia.
      * intros h Hh'. apply Hhi. lia.
  - f_equal. lia.
Qed.

(** The fuel handed to the loop by [visit] is never exhausted. *)
Lemma search_fuel : forall fuel f i j,
  Z.of_nat fuel > Z.max 0 (j - i) -> search fuel f i j <> SFuel.
Proof.
  induction fuel as [|fuel IH]; intros f i j Hfuel; [lia|].
  cbn [search]. destruct (i <? j) eqn:E; [|discriminate].
  assert (Hh : i <= (i + j) / 2 < j) by lia.
  destruct (f ((i + j) / 2)) as [[|]|]; [apply IH; lia|apply IH; lia|discriminate].
Qed.

(** ** the insertion *)
Lemma insert_at_end w : forall l i, zlen l <= i -> insert_at i w l = l ++ [w].
Proof.
  induction l as [|x r IH]; intros i H; cbn [insert_at app]; [reflexivity|].
  rewrite zlen_cons in H. pose proof (zlen_nonneg r).
  destruct (i <=? 0) eqn:E; [lia|]. f_equal. apply IH. lia.
Qed.

Lemma insert_at_spec w : forall l i, 0 <= i <= zlen l ->
  insert_at i w l = firstn (Z.to_nat i) l ++ w :: skipn (Z.to_nat i) l.
Proof.
  induction l as [|x r IH]; intros i H; cbn [insert_at].
  - unfold zlen in H. cbn in H. replace i with 0 by lia. reflexivity.
  - rewrite zlen_cons in H. destruct (i <=? 0) eqn:E.
    + replace i with 0 by lia. reflexivity.
    + replace (Z.to_nat i) with (S (Z.to_nat (i - 1))) by lia.
      cbn [firstn skipn app]. f_equal. apply IH. lia.
Qed.

(** ** strongly sorted lists *)
Lemma ss_snoc {A} (R : A -> A -> Prop) l x :
  StronglySorted R l -> Forall (fun y => R y x) l -> StronglySorted R (l ++ [x]).
Proof.
  induction l as [|y l IH]; intros Hs HF; cbn [app].
  - constructor; constructor.
  - inversion Hs as [|? ? Hl Hy]; subst. inversion HF as [|? ? Hyx HF']; subst.
    constructor; [auto|]. apply Forall_app. split; [exact Hy|]. constructor; [exact Hyx|constructor].
Qed.

Lemma ss_impl_in {A} (R R' : A -> A -> Prop) l :
  (forall a b, In a l -> In b l -> R a b -> R' a b) -> StronglySorted R l -> StronglySorted R' l.
Proof.
  induction l as [|y l IH]; intros Himp Hs; [constructor|].
  inversion Hs as [|? ? Hl Hy]; subst. constructor.
  - apply IH; [|exact Hl]. intros a b Ha Hb. apply Himp; right; assumption.
  - rewrite Forall_forall in *. intros b Hb. apply Himp; [left; reflexivity|right; exact Hb|auto].
Qed.

Lemma ss_filter {A} (R : A -> A -> Prop) (f : A -> bool) l :
  StronglySorted R l -> StronglySorted R (filter f l).
Proof.
  induction l as [|y l IH]; intro Hs; cbn [filter]; [constructor|].
  inversion Hs as [|? ? Hl Hy]; subst. destruct (f y); [|auto].
  constructor; [auto|]. rewrite Forall_forall in *. intros b Hb.
  apply filter_In in Hb. destruct Hb. auto.
Qed.

Lemma ss_irrefl_nodup {A} (R : A -> A -> Prop) l :
  (forall a, ~ R a a) -> StronglySorted R l -> NoDup l.
Proof.
  intro Hirr. induction l as [|y l IH]; intro Hs; [constructor|].
  inversion Hs as [|? ? Hl Hy]; subst. constructor; [|auto].
  intro Hin. rewrite Forall_forall in Hy. exact (Hirr y (Hy y Hin)).
Qed.

(** ** zseq *)
Lemma zseq_in a : forall n x, In x (zseq a n) <-> a <= x < a + Z.of_nat n.
Proof.
  intros n; revert a; induction n as [|n IH]; intros a x; cbn [zseq In].
  - split; [tauto|lia].
  - rewrite IH. lia.
Qed.

Lemma zseq_snoc : forall n a, zseq a (S n) = zseq a n ++ [a + Z.of_nat n].
Proof.
  induction n as [|n IH]; intro a.
  - cbn. f_equal. lia.
  - change (zseq a (S (S n))) with (a :: zseq (a + 1) (S n)). rewrite IH.
    cbn [zseq app]. do 2 f_equal. f_equal. lia.
Qed.

Definition key_eq_dec_aux : forall a b : key, {a = b} + {a <> b} := list_eq_dec N.eq_dec.

(** ** KeyString *)
Local Open Scope N_scope.

Lemma hex_digits_rev_length : forall n b, length (hex_digits_rev n b) = n.
Proof. induction n as [|n IH]; intro b; cbn [hex_digits_rev length]; [reflexivity|]. rewrite IH. reflexivity. Qed.

Lemma dec_digits_rev_ascii : forall fuel a, Forall (fun c => c < 128) (dec_digits_rev fuel a).
Proof.
  induction fuel as [|f IH]; intro a; cbn [dec_digits_rev]; [constructor|].
  constructor; [unfold dec_digit; lia|]. destruct (a / 10 =? 0); [constructor|apply IH].
Qed.

Lemma hex_digits_rev_ascii : forall n b, Forall (fun c => c < 128) (hex_digits_rev n b).
Proof.
  induction n as [|n IH]; intro b; cbn [hex_digits_rev]; [constructor|].
  constructor; [|apply IH]. unfold hex_digit. destruct (b mod 16 <? 10) eqn:E; lia.
Qed.

Lemma key_string_ascii_F a b : Forall (fun c => c < 128) (key_string a b).
Proof.
  unfold key_string. apply Forall_app. split; apply Forall_rev;
    [apply dec_digits_rev_ascii|apply hex_digits_rev_ascii].
Qed.

Lemma key_string_ascii a b : forallb (fun c => c <? 128) (key_string a b) = true.
Proof.
  apply forallb_forall. intros c Hc. pose proof (key_string_ascii_F a b) as H.
  rewrite Forall_forall in H. specialize (H c Hc). lia.
Qed.

Lemma key_string_len a b : (17 <=? zlen (key_string a b))%Z = true.
Proof.
  unfold key_string, zlen. rewrite app_length, !rev_length, hex_digits_rev_length.
  cbn [dec_digits_rev length]. lia.
Qed.

(** ASCII strings are valid UTF-8: the JSON writer leaves them alone. *)
Lemma ascii_coerce k : Forall (fun c => c < 128) k -> utf8_coerce k = k.
Proof.
  induction k as [|c k IH]; intro H; [reflexivity|].
  inversion H as [|? ? Hc Hk]; subst. cbn [utf8_coerce].
  destruct (c <? 128) eqn:E; [|lia]. rewrite IH by exact Hk. reflexivity.
Qed.

Lemma key_string_coerce a b : utf8_coerce (key_string a b) = key_string a b.
Proof. apply ascii_coerce. apply key_string_ascii_F. Qed.

(** decoding the digits back *)
Definition unhex (c : N) : N := if c <? 58 then c - 48 else c - 87.

Fixpoint val16 (l : list N) : N :=
  match l with [] => 0 | c :: r => unhex c + 16 * val16 r end.

Fixpoint val10 (l : list N) : N :=
  match l with [] => 0 | c :: r => (c - 48) + 10 * val10 r end.

Lemma unhex_hex d : d < 16 -> unhex (hex_digit d) = d.
Proof.
  intro H. unfold unhex, hex_digit. destruct (d <? 10) eqn:E.
  - destruct (48 + d <? 58) eqn:F; lia.
  - destruct (87 + d <? 58) eqn:F; lia.
Qed.

Lemma val16_hex : forall n b, val16 (hex_digits_rev n b) = b mod 16 ^ N.of_nat n.
Proof.
  induction n as [|n IH]; intro b; cbn [hex_digits_rev val16].
  - cbn. rewrite N.mod_1_r. reflexivity.
  - rewrite unhex_hex by (apply N.mod_lt; lia). rewrite IH.
    rewrite Nnat.Nat2N.inj_succ, N.pow_succ_r'.
    rewrite N.mod_mul_r; [reflexivity|lia|]. apply N.pow_nonzero. lia.
Qed.

Lemma val10_dec : forall fuel a, a < 10 ^ N.of_nat fuel -> val10 (dec_digits_rev fuel a) = a.
Proof.
  induction fuel as [|f IH]; intros a H.
  - cbn in H. cbn [dec_digits_rev val10]. lia.
  - cbn [dec_digits_rev val10]. unfold dec_digit.
    rewrite Nnat.Nat2N.inj_succ, N.pow_succ_r' in H.
    destruct (a / 10 =? 0) eqn:E.
    + cbn [val10]. lia.
    + rewrite IH; [lia|]. apply N.div_lt_upper_bound; lia.
Qed.

Lemma app_inj_len {A} : forall (a b c d : list A),
  length b = length d -> a ++ b = c ++ d -> a = c /\ b = d.
Proof.
  induction a as [|x a IH]; intros b c d Hlen H.
  - destruct c as [|y c]; [auto|]. cbn [app] in H. subst b.
    cbn [length] in Hlen. rewrite app_length in Hlen. lia.
  - destruct c as [|y c].
    + cbn [app] in H. subst d. cbn [length] in Hlen. rewrite app_length in Hlen. lia.
    + cbn [app] in H. inversion H; subst. destruct (IH b c d Hlen H2). subst. auto.
Qed.

(** KeyString is injective on pairs of 64-bit values: the last 16 characters are b,
    what precedes is a in decimal. *)
Lemma key_string_inj a b a' b' :
  a < two64 -> b < two64 -> a' < two64 -> b' < two64 ->
  key_string a b = key_string a' b' -> a = a' /\ b = b'.
Proof.
  intros Ha Hb Ha' Hb' H. unfold key_string in H.
  apply app_inj_len in H; [|rewrite !rev_length, !hex_digits_rev_length; reflexivity].
  destruct H as [H1 H2].
  apply (f_equal (@rev N)) in H1. apply (f_equal (@rev N)) in H2. rewrite !rev_involutive in H1, H2.
  assert (P20 : two64 < 10 ^ N.of_nat 20) by (vm_compute; reflexivity).
  assert (P16 : two64 = 16 ^ N.of_nat 16) by (vm_compute; reflexivity).
  split.
  - rewrite <- (val10_dec 20 a) by lia. rewrite <- (val10_dec 20 a') by lia. rewrite H1. reflexivity.
  - rewrite <- (N.mod_small b two64) by exact Hb. rewrite <- (N.mod_small b' two64) by exact Hb'.
    rewrite P16, <- !val16_hex, H2. reflexivity.
Qed.
