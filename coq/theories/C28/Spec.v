(** C28 — the REFERENCE model of the property statement: a recency-ordered list of
    ways (least recently visited first) and a finite key map kept as a binding
    history (newest binding first).  It shares nothing with the code model except
    the key type and the operation alphabet: no counters, no timestamps, no binary
    search, no sorted association list. *)
From Akita Require Import Lib.Base C28.Model.
Local Open Scope Z_scope.

Record rset := mk_rset {
  r_ways : Z;                 (* number of ways *)
  r_order : list Z;           (* recency list, least recently visited first *)
  r_keys : list (key * Z) }.  (* bindings, newest first; the first match wins *)

(** plain equality of byte strings (not the ordering used by the code model) *)
Definition keq (a b : key) : bool := listN_eqb a b.

Fixpoint zseq (start : Z) (n : nat) : list Z :=
  match n with O => [] | S n' => start :: zseq (start + 1) n' end.

(** NewSet n: every way is in the list, way 0 least recent. *)
Definition r_new (n : Z) : rset := mk_rset n (zseq 0 (Z.to_nat n)) [].

Fixpoint r_find (k : key) (b : list (key * Z)) : option Z :=
  match b with
  | [] => None
  | (k', w) :: r => if keq k k' then Some w else r_find k r
  end.

Definition r_unbind (k : key) (b : list (key * Z)) : list (key * Z) :=
  filter (fun kw => negb (keq k (fst kw))) b.

(** Lookup: the way last bound to the key, if the binding is still there. *)
Definition r_lookup (r : rset) (k : key) : Z * bool :=
  match r_find k (r_keys r) with Some w => (w, true) | None => (0, false) end.

(** Rebind: forget the old key, bind the new key to the way (no check that the old
    key was bound to that way; two keys may name the same way). *)
Definition r_update (r : rset) (w : Z) (old new : key) : rset :=
  mk_rset (r_ways r) (r_order r) ((new, w) :: r_unbind old (r_keys r)).

Definition r_remove (r : rset) (k : key) : rset :=
  mk_rset (r_ways r) (r_order r) (r_unbind k (r_keys r)).

(** Evict: pop the least recently visited way still in the list. *)
Definition r_evict (r : rset) : rset * (Z * bool) :=
  match r_order r with
  | [] => (r, (0, false))
  | w :: rest => (mk_rset (r_ways r) rest (r_keys r), (w, true))
  end.

(** Visit: the way becomes the most recent one (re-entering the list if it had been
    evicted).  A way id outside [0, ways) is a caller error: panic, nothing changes. *)
Definition r_visit (r : rset) (w : Z) : rset * bool :=
  if (0 <=? w) && (w <? r_ways r)
  then (mk_rset (r_ways r) (filter (fun x => negb (x =? w)) (r_order r) ++ [w]) (r_keys r), true)
  else (r, false).

(** What a JSON snapshot must convey: the way count, the recency order, and exactly
    the live bindings (null and the empty array / object mean the same). *)
Fixpoint keys_distinct (es : list (key * Z)) : bool :=
  match es with
  | [] => true
  | (k, _) :: r => negb (existsb (fun e => keq k (fst e)) r) && keys_distinct r
  end.

Definition oz_eqb (a b : option Z) : bool := opt_eqb Z.eqb a b.

Definition r_snapshot_ok (r : rset) (d : dto) : bool :=
  (d_wc d =? r_ways r) &&
  list_eqb Z.eqb (olist (d_vl d)) (r_order r) &&
  keys_distinct (olist (d_km d)) &&
  forallb (fun e => oz_eqb (r_find (fst e) (r_keys r)) (Some (snd e))) (olist (d_km d)) &&
  forallb (fun e => oz_eqb (r_find (fst e) (olist (d_km d))) (r_find (fst e) (r_keys r))) (r_keys r).

(** Expected result of one operation, as a predicate on the observed result (the
    JSON round trip is the identity of the reference state). *)
Definition r_step (r : rset) (o : op) (x : out) : rset * bool :=
  match o with
  | OLookup k =>
      let '(w, f) := r_lookup r k in
      (r, match x with RLookup w' f' => (w' =? w) && Bool.eqb f' f | _ => false end)
  | OUpdateKey w old new =>
      (r_update r w old new, match x with RDone => true | _ => false end)
  | ORemove k =>
      (r_remove r k, match x with RDone => true | _ => false end)
  | OEvict =>
      let '(r', (w, ok)) := r_evict r in
      (r', match x with REvict w' ok' => (w' =? w) && Bool.eqb ok' ok | _ => false end)
  | OVisit w =>
      let '(r', ok) := r_visit r w in
      (r', match x with RDone => ok | RPanic => negb ok | _ => false end)
  | OJson =>
      (r, match x with RJson d => r_snapshot_ok r d | _ => false end)
  | OKeyString a b =>
      (* helper outside the statement; required: an ASCII key (hence a key that
         survives JSON) of at least 17 characters *)
      (r, match x with
          | RKey k => forallb (fun c => (c <? 128)%N) k && (17 <=? zlen k)
          | _ => false
          end)
  end.

Fixpoint r_run (r : rset) (tr : list (op * out)) : rset * bool :=
  match tr with
  | [] => (r, true)
  | (o, x) :: rest =>
      let '(r1, b) := r_step r o x in
      let '(r2, bs) := r_run r1 rest in (r2, b && bs)
  end.

(** number of Visit calls in a history (each increments the 64-bit visit counter) *)
Definition count_visits (ops : list op) : N :=
  N.of_nat (length (filter (fun o => match o with OVisit _ => true | _ => false end) ops)).

(** The independent reading of "the way last bound to a key": scan the history
    backwards for the most recent operation that mentions the key. *)
Fixpoint last_bound (k : key) (rev_ops : list op) : option Z :=
  match rev_ops with
  | [] => None
  | OUpdateKey w old new :: r =>
      if keq new k then Some w else if keq old k then None else last_bound k r
  | ORemove k' :: r => if keq k' k then None else last_bound k r
  | _ :: r => last_bound k r
  end.

(** The independent reading of "least recently visited": the time of the last Visit
    of a way, read off the history.  The clock counts NewSet's initial visits of
    ways 0..n-1 and then every Visit call (a call with a way id outside [0, n) ticks
    the clock too but stamps nothing); scan the history backwards for the last Visit
    of the way. *)
Fixpoint hist_stamp (n : Z) (w : Z) (rev_ops : list op) : N :=
  match rev_ops with
  | [] => if (0 <=? w) && (w <? n) then (Z.to_N w + 1)%N else 0%N
  | OVisit w' :: r =>
      if (w' =? w) && (0 <=? w) && (w <? n)
      then (Z.to_N n + count_visits r + 1)%N
      else hist_stamp n w r
  | _ :: r => hist_stamp n w r
  end.
