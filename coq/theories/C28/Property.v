(** C28 — LRU sets behave as a recency-ordered key map.  Property theorems only.

    Code model: [Model] ([new_set], [lookup], [update_key], [remove], [evict],
    [visit] with the sort.Search loop as written, [marshal]/[unmarshal],
    [key_string]); reference model of the statement: [Spec] (recency list + binding
    history).  Side conditions that appear below:
    - [no_wrap] / [count_visits]: the uint64 visit counter does not wrap (a Set would
      need 2^64 Visit calls);
    - [op_valid] / [key_valid] / [KV]: keys are valid UTF-8 (for the statements that
      go through JSON; see [c28_json_roundtrip_refuted]).  Every key made by
      KeyString is ([c28_keystring_valid]). *)
From Akita Require Import Lib.Base C28.Model C28.Spec C28.Proofs1 C28.Proofs2 C28.Exec C28.Proofs3 C28.Proofs4.
From Coq Require Import Sorting.Sorted.
Local Open Scope Z_scope.

(** ** (1) the representation invariant *)

(** NewSet n establishes it, with every way listed in the order 0..n-1; a negative
    way count panics. *)
Theorem c28_invariant_init : forall n, 0 <= n -> (Z.to_N n < two64)%N ->
  exists s, new_set n = Some s /\ Inv s /\ vl s = zseq 0 (Z.to_nat n) /\
            keyMap s = Some [] /\ wayCount s = n /\ visitCount s = Z.to_N n.
Proof. exact new_set_ok. Qed.
Print Assumptions c28_invariant_init.

Theorem c28_newset_negative_panics : forall n, n < 0 -> new_set n = None.
Proof. exact new_set_neg. Qed.
Print Assumptions c28_newset_negative_panics.

(** Every operation preserves it, panicking Visits included (the Set left behind by
    a recovered panic is still well formed). *)
Theorem c28_invariant_step : forall s o, Inv s -> no_wrap s o -> Inv (fst (step s o)).
Proof. exact step_inv. Qed.
Print Assumptions c28_invariant_step.

(** Hence it holds after every history on a Set of any way count; in particular the
    visit list is duplicate free, within range and strictly sorted by last visit. *)
Theorem c28_visitlist_sorted : forall n ops s, 0 <= n -> new_set n = Some s ->
  (Z.to_N n + count_visits ops < two64)%N ->
  let s' := fst (run s ops) in
  Inv s' /\
  StronglySorted (fun a b => (lvof (lv s') a < lvof (lv s') b)%N) (vl s') /\
  NoDup (vl s') /\ Forall (fun w => 0 <= w < n) (vl s') /\
  Forall (fun t => (t <= visitCount s')%N) (lv s') /\ zlen (lv s') = n.
Proof. exact visitlist_sorted. Qed.
Print Assumptions c28_visitlist_sorted.

(** The only operation that panics is Visit with a way id outside [0, wayCount);
    inside the range it never panics; the search loop never runs out of fuel. *)
Theorem c28_panic_iff_way_out_of_range : forall s o, Inv s -> no_wrap s o ->
  (snd (step s o) = RPanic <-> exists w, o = OVisit w /\ ~ (0 <= w < wayCount s)) /\
  snd (step s o) <> RNoFuel.
Proof. exact step_panic. Qed.
Print Assumptions c28_panic_iff_way_out_of_range.

(** ** (2) refinement: along every history on NewSet n, the results returned by the
    code are the results the reference model prescribes, and the reached states stay
    related (same recency order, same bindings). *)
Theorem c28_refinement : forall n ops s, 0 <= n -> new_set n = Some s ->
  Forall op_valid ops -> (Z.to_N n + count_visits ops < two64)%N ->
  exists r', r_run (r_new n) (combine ops (snd (run s ops))) = (r', true) /\
             R (fst (run s ops)) r' /\ length (snd (run s ops)) = length ops.
Proof. exact refinement. Qed.
Print Assumptions c28_refinement.

(** one step, from any related pair *)
Theorem c28_refinement_step : forall s r o, R s r -> KV s -> op_valid o -> no_wrap s o ->
  let '(s', x) := step s o in
  let '(r', ok) := r_step r o x in
  ok = true /\ R s' r' /\ KV s'.
Proof. exact step_sim. Qed.
Print Assumptions c28_refinement_step.

(** sort.Search as written meets its contract on a monotone predicate; this is what
    places a visited way at the END of the list (all stamps are smaller than the new
    one), and on an unsorted list it is not a linear scan (tied by the harness on
    arbitrary snapshots). *)
Theorem c28_search_first_true : forall fuel f i j p,
  i <= p <= j -> Z.of_nat fuel > j - i ->
  (forall h, i <= h < p -> f h = Some false) ->
  (forall h, p <= h < j -> f h = Some true) ->
  search fuel f i j = SFound p.
Proof. exact search_spec. Qed.
Print Assumptions c28_search_first_true.

(** ** (3) named corollaries *)

(** Evict returns the listed way whose last visit is the earliest, and removes it. *)
Theorem c28_evict_lru : forall s s' w, Inv s -> evict s = (s', (w, true)) ->
  In w (vl s) /\ vl s' = tl (vl s) /\
  (forall x, In x (vl s') -> (lvof (lv s) w < lvof (lv s) x)%N) /\ ~ In w (vl s').
Proof. exact evict_lru. Qed.
Print Assumptions c28_evict_lru.

(** The stamps are the history's visit times ([hist_stamp]: NewSet visits ways
    0..n-1 in order, every later Visit call ticks the clock; scan backwards for the
    last Visit of the way), so the way Evict returns after any history is literally
    the listed way that was visited least recently. *)
Theorem c28_stamp_is_last_visit_time : forall n s, 0 <= n -> new_set n = Some s ->
  forall ops, (Z.to_N n + count_visits ops < two64)%N ->
  forall x, lvof (lv (fst (run s ops))) x = hist_stamp n x (rev ops).
Proof. exact stamp_history. Qed.
Print Assumptions c28_stamp_is_last_visit_time.

Theorem c28_evict_least_recently_visited : forall n s ops s' w,
  0 <= n -> new_set n = Some s -> (Z.to_N n + count_visits ops < two64)%N ->
  evict (fst (run s ops)) = (s', (w, true)) ->
  In w (vl (fst (run s ops))) /\
  forall x, In x (vl (fst (run s ops))) -> x <> w ->
            (hist_stamp n w (rev ops) < hist_stamp n x (rev ops))%N.
Proof. exact evict_least_recently_visited. Qed.
Print Assumptions c28_evict_least_recently_visited.

Theorem c28_evict_empty : forall s s' w, evict s = (s', (w, false)) -> vl s = [] /\ s' = s /\ w = 0.
Proof. exact evict_empty. Qed.
Print Assumptions c28_evict_empty.

(** After Visit w (w in range, listed or not), w is the last element of the list, the
    other listed ways are exactly the previous ones, and all of them have an earlier
    last visit: they will all be evicted before w. *)
Theorem c28_visit_mru : forall s w, Inv s -> 0 <= w < wayCount s -> (visitCount s + 1 < two64)%N ->
  exists s' pre, visit s w = (s', Done) /\ Inv s' /\ vl s' = pre ++ [w] /\
    ~ In w pre /\ (forall x, In x pre <-> In x (vl s) /\ x <> w) /\
    (forall x, In x pre -> (lvof (lv s') x < lvof (lv s') w)%N).
Proof. exact visit_mru. Qed.
Print Assumptions c28_visit_mru.

(** Lookup after any history returns the way of the most recent operation that
    mentions the key, if that operation bound it ([last_bound] scans the history
    backwards: UpdateKey _ _ k binds, UpdateKey _ k _ and Remove k unbind). *)
Theorem c28_lookup_last_bound : forall n ops s k, 0 <= n -> new_set n = Some s ->
  Forall op_valid ops -> (Z.to_N n + count_visits ops < two64)%N ->
  lookup (fst (run s ops)) k =
  match last_bound k (rev ops) with Some w => (w, true) | None => (0, false) end.
Proof. exact lookup_last_bound. Qed.
Print Assumptions c28_lookup_last_bound.

(** ** JSON.
    Full statement (FALSE of the code, see the refutation below):
      forall s, Inv s -> unmarshal (marshal s) is observationally equal to s.
    What holds: the recency state always survives; the bindings survive when the
    keys are valid UTF-8. *)
Theorem c28_json_roundtrip_order : forall s,
  let s' := unmarshal (marshal s) in
  wayCount s' = wayCount s /\ visitList s' = visitList s /\
  visitCount s' = visitCount s /\ lastVisits s' = lastVisits s.
Proof. exact roundtrip_order_fields. Qed.
Print Assumptions c28_json_roundtrip_order.

Theorem c28_json_roundtrip_partial : forall s, Inv s -> KV s ->
  unmarshal (marshal s) = s /\
  (forall ops, run (unmarshal (marshal s)) ops = run s ops) /\
  (forall k, lookup (unmarshal (marshal s)) k = lookup s k) /\
  vl (unmarshal (marshal s)) = vl s.
Proof. exact roundtrip_partial. Qed.
Print Assumptions c28_json_roundtrip_partial.

(** along histories whose keys are valid UTF-8 every reached Set round-trips *)
Theorem c28_json_roundtrip_history : forall n ops s, 0 <= n -> new_set n = Some s ->
  Forall op_valid ops -> (Z.to_N n + count_visits ops < two64)%N ->
  unmarshal (marshal (fst (run s ops))) = fst (run s ops).
Proof. exact roundtrip_history. Qed.
Print Assumptions c28_json_roundtrip_history.

(** the snapshot of a reached Set conveys exactly the reference state *)
Theorem c28_snapshot_conveys_reference : forall s r, R s r -> KV s ->
  r_snapshot_ok r (marshal s) = true.
Proof. exact snapshot_ok. Qed.
Print Assumptions c28_snapshot_conveys_reference.

(** Refutation of the full statement (known finding F-C28-1): bind the one-byte key
    FF (not valid UTF-8) to way 1 on NewSet 3; the restored Set misses it. *)
Theorem c28_json_roundtrip_refuted :
  exists n ops k s0, new_set n = Some s0 /\
    let s := fst (run s0 ops) in
    Inv s /\ lookup s k = (1, true) /\ lookup (unmarshal (marshal s)) k = (0, false).
Proof. exact roundtrip_refuted. Qed.
Print Assumptions c28_json_roundtrip_refuted.

(** ** KeyString *)

(** distinct (a, b) never collide: the last 16 characters are b in hex, what
    precedes is a in decimal *)
Theorem c28_keystring_injective : forall a b a' b',
  (a < two64)%N -> (b < two64)%N -> (a' < two64)%N -> (b' < two64)%N ->
  key_string a b = key_string a' b' -> a = a' /\ b = b'.
Proof. exact key_string_inj. Qed.
Print Assumptions c28_keystring_injective.

(** keys made by KeyString are ASCII, hence survive JSON *)
Theorem c28_keystring_valid : forall a b, key_valid (key_string a b).
Proof. exact key_string_coerce. Qed.
Print Assumptions c28_keystring_valid.

(** ** (4) link between the two evaluators of the correspondence check *)
Theorem c28_model_agreement_implies_property : forall c, wf_case c ->
  check_case c = true -> holds_on c = true.
Proof. exact check_implies_holds. Qed.
Print Assumptions c28_model_agreement_implies_property.

(** ** (5) non-vacuity *)

(** a concrete history on NewSet 3 meeting every hypothesis above: rebinding,
    eviction, re-visit of the evicted way, a JSON round trip, an out-of-range Visit *)
Definition ex_ops : list op :=
  [OUpdateKey 0 [] [107; 49]%N; OVisit 0; OEvict; OUpdateKey 1 [107; 49]%N [107; 50]%N;
   OVisit 1; OJson; OLookup [107; 50]%N; OLookup [107; 49]%N; OVisit 3; OEvict; OKeyString 1 4096].

Example c28_nonvacuous :
  exists s, new_set 3 = Some s /\ Inv s /\ KV s /\
    Forall op_valid ex_ops /\ (Z.to_N 3 + count_visits ex_ops < two64)%N /\
    snd (run s ex_ops) =
      [RDone; RDone; REvict 1 true; RDone; RDone;
       RJson (mk_dto 3 (Some [2; 0; 1]) 5%N (Some [4; 5; 3]%N) (Some [([107; 50]%N, 1)]));
       RLookup 1 true; RLookup 0 false; RPanic; REvict 2 true;
       RKey [49; 48; 48; 48; 48; 48; 48; 48; 48; 48; 48; 48; 48; 49; 48; 48; 48]%N] /\
    vl (fst (run s ex_ops)) = [0; 1] /\
    last_bound [107; 50]%N (rev ex_ops) = Some 1 /\ last_bound [107; 49]%N (rev ex_ops) = None /\
    hist_stamp 3 0 (rev ex_ops) = 4%N /\ hist_stamp 3 1 (rev ex_ops) = 5%N /\ hist_stamp 3 2 (rev ex_ops) = 3%N.
Proof.
  destruct (new_set_R 3 (mk_set 3 (Some [0; 1; 2]) 3%N (Some [1; 2; 3]%N) (Some []))) as [[HI _] [HK _]];
    [lia|vm_compute; reflexivity|vm_compute; reflexivity|].
  eexists. split; [vm_compute; reflexivity|]. split; [exact HI|]. split; [exact HK|].
  split; [repeat constructor|]. split; [vm_compute; reflexivity|].
  vm_compute. repeat split; reflexivity.
Qed.

(** the hypotheses of the link theorem hold of a concrete recorded case *)
Example c28_link_nonvacuous :
  let c := mk_case (SNew 2) true
             [(OVisit 0, RDone); (OEvict, REvict 1 true); (OVisit 5, RPanic)]
             (Some (mk_dto 2 (Some [0]) 4%N (Some [3; 2]%N) (Some []))) in
  wf_case c /\ check_case c = true /\ holds_on c = true.
Proof.
  cbv zeta. split; [split; [repeat constructor|vm_compute; reflexivity]|].
  split; vm_compute; reflexivity.
Qed.

(** a snapshot in the domain (second start kind of the correspondence check) *)
Example c28_snapshot_domain_nonvacuous :
  snapshot_in_domain (mk_dto 3 (Some [2; 0]) 9%N (Some [7; 8; 4]%N) (Some [([97]%N, 1)])) [OVisit 1] = true.
Proof. vm_compute. reflexivity. Qed.
