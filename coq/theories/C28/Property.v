(** C28 — property theorems (being built). *)
From Akita Require Import Lib.Base C28.Model C28.Spec C28.Exec.
Local Open Scope Z_scope.

Example c28_nonvacuous :
  exists s, new_set 3 = Some s /\ vl s = [0; 1; 2] /\ fst (visit s 0) = 
    mk_set 3 (Some [1; 2; 0]) 4%N (Some [4; 2; 3]%N) (Some []).
Proof. eexists. split; [vm_compute; reflexivity|]. vm_compute. split; reflexivity. Qed.
Print Assumptions c28_nonvacuous.
