(** C28 — the stamps kept by the code are the history's visit times, so "earliest
    stamp" in [evict_lru] is literally "least recently visited". *)
From Akita Require Import Lib.Base C28.Model C28.Spec C28.Proofs1 C28.Proofs2 C28.Exec C28.Proofs3.
From Coq Require Import Sorting.Sorted.
Local Open Scope Z_scope.

Lemma lvof_out lvs x : ~ (0 <= x < zlen lvs) -> lvof lvs x = 0%N.
Proof. intro H. unfold lvof. rewrite zget_none by exact H. reflexivity. Qed.

Lemma step_lvof s o x : Inv s -> no_wrap s o ->
  lvof (lv (fst (step s o))) x =
  match o with
  | OVisit w => if (w =? x) && (0 <=? x) && (x <? wayCount s)
                then (visitCount s + 1)%N else lvof (lv s) x
  | _ => lvof (lv s) x
  end.
Proof.
  intros HI Hnw. destruct o as [k|w old new|k| |w| |a b]; cbn [step].
  - destruct (lookup s k); reflexivity.
  - destruct (update_key_inv s w old new HI) as [s' [E [_ [_ [_ [Hlv _]]]]]]. rewrite E. cbn [fst]. rewrite Hlv. reflexivity.
  - destruct (remove_inv s k HI) as [_ [_ [_ [Hlv _]]]]. cbn [fst]. rewrite Hlv. reflexivity.
  - rewrite evict_spec. destruct (vl s); reflexivity.
  - destruct (Z_le_dec 0 w) as [H0|H0]; [destruct (Z_lt_dec w (wayCount s)) as [H1|H1]|].
    + destruct (visit_in_range s w HI (conj H0 H1) Hnw) as [s' [E [_ [_ [_ [_ [_ [Hw Ho]]]]]]]].
      rewrite E. cbn [fst]. destruct (w =? x) eqn:Ex.
      * assert (w = x) by lia. subst x. cbn [andb].
        destruct ((0 <=? w) && (w <? wayCount s)) eqn:Eg; [exact Hw|lia].
      * cbn [andb]. apply Ho. lia.
    + destruct (visit_out_of_range s w HI) as [s' [E [_ [_ [Hlv _]]]]]; [lia|exact Hnw|].
      rewrite E. cbn [fst]. rewrite Hlv.
      destruct ((w =? x) && (0 <=? x) && (x <? wayCount s)) eqn:Eg; [lia|reflexivity].
    + destruct (visit_out_of_range s w HI) as [s' [E [_ [_ [Hlv _]]]]]; [lia|exact Hnw|].
      rewrite E. cbn [fst]. rewrite Hlv.
      destruct ((w =? x) && (0 <=? x) && (x <? wayCount s)) eqn:Eg; [lia|reflexivity].
  - reflexivity.
  - reflexivity.
Qed.

(** NewSet stamps way x with x + 1 *)
Lemma new_loop_stamps : forall k j s,
  Inv s -> 0 <= j -> j + Z.of_nat k <= wayCount s ->
  visitCount s = Z.to_N j -> (Z.to_N j + N.of_nat k < two64)%N ->
  vl s = zseq 0 (Z.to_nat j) ->
  (forall x, 0 <= x < j -> lvof (lv s) x = (Z.to_N x + 1)%N) ->
  forall s', new_loop k j s = Some s' ->
  forall x, 0 <= x < j + Z.of_nat k -> lvof (lv s') x = (Z.to_N x + 1)%N.
Proof.
  induction k as [|k IH]; intros j s HI Hj Hjk Hvc Hb Hvl Hst s' Hs' x Hx; cbn [new_loop] in Hs'.
  - inversion Hs'; subst. apply Hst. lia.
  - destruct (visit_in_range s j HI) as [s1 [E [HI1 [Hvl1 [Hwc1 [Hkm1 [Hvc1 [Hw1 Ho1]]]]]]]]; [lia|lia|].
    rewrite E in Hs'.
    assert (A1 : j + 1 + Z.of_nat k <= wayCount s1) by (rewrite Hwc1; lia).
    assert (A2 : visitCount s1 = Z.to_N (j + 1)) by (rewrite Hvc1, Hvc; lia).
    assert (A3 : (Z.to_N (j + 1) + N.of_nat k < two64)%N) by lia.
    assert (A4 : vl s1 = zseq 0 (Z.to_nat (j + 1))).
    { rewrite Hvl1, Hvl. rewrite filter_notin.
      - replace (Z.to_nat (j + 1)) with (S (Z.to_nat j)) by lia. rewrite zseq_snoc.
        do 2 f_equal. lia.
      - rewrite zseq_in. lia. }
    assert (A5 : forall y, 0 <= y < j + 1 -> lvof (lv s1) y = (Z.to_N y + 1)%N).
    { intros y Hy. destruct (Z.eq_dec y j) as [->|Hne].
      - rewrite Hw1, Hvc. lia.
      - rewrite Ho1 by exact Hne. apply Hst. lia. }
    assert (A0 : 0 <= j + 1) by lia.
    apply (IH (j + 1) s1 HI1 A0 A1 A2 A3 A4 A5 s' Hs' x). lia.
Qed.

Lemma new_set_stamps n s : 0 <= n -> (Z.to_N n < two64)%N -> new_set n = Some s ->
  forall x, lvof (lv s) x = hist_stamp n x [].
Proof.
  intros Hn Hlt Hs x. cbn [hist_stamp].
  destruct (new_set_ok n Hn Hlt) as [s' [E [HI [_ [_ [Hwc _]]]]]].
  rewrite Hs in E. inversion E; subst s'.
  destruct ((0 <=? x) && (x <? n)) eqn:Eg.
  - unfold new_set in Hs. destruct (n <? 0) eqn:En; [lia|].
    set (s0 := mk_set n (Some []) 0%N (Some (repeat 0%N (Z.to_nat n))) (Some [])) in Hs.
    assert (HI0 : Inv s0).
    { constructor; cbn [s0 vl lv visitList lastVisits wayCount keyMap visitCount olist].
      - unfold zlen. rewrite repeat_length. lia.
      - constructor.
      - constructor.
      - apply repeat_forall. lia.
      - unfold two64. lia.
      - eexists. split; [reflexivity|constructor]. }
    apply (new_loop_stamps (Z.to_nat n) 0 s0 HI0) with (s' := s); try lia; try exact Hs.
    + cbn [s0 wayCount]. lia.
    + reflexivity.
    + reflexivity.
  - apply lvof_out. rewrite (inv_wc s HI), Hwc. lia.
Qed.

Lemma count_visits_app a b : count_visits (a ++ b) = (count_visits a + count_visits b)%N.
Proof. unfold count_visits. rewrite filter_app, app_length. lia. Qed.

Lemma count_visits_rev a : count_visits (rev a) = count_visits a.
Proof.
  induction a as [|o a IH]; [reflexivity|]. cbn [rev].
  rewrite count_visits_app, IH. rewrite (count_visits_cons o a), (count_visits_cons o []).
  change (count_visits []) with 0%N. lia.
Qed.

Lemma run_app : forall a b s, fst (run s (a ++ b)) = fst (run (fst (run s a)) b).
Proof.
  induction a as [|o a IH]; intros b s; [reflexivity|].
  cbn [app]. rewrite !run_cons. cbn [fst]. apply IH.
Qed.

(** After any history on NewSet n, the stamp the code keeps for a way is the time of
    its last Visit in the history. *)
Lemma stamp_history n s : 0 <= n -> new_set n = Some s ->
  forall ops, (Z.to_N n + count_visits ops < two64)%N ->
  forall x, lvof (lv (fst (run s ops))) x = hist_stamp n x (rev ops).
Proof.
  intros Hn Hs ops. induction ops as [|o ops IH] using rev_ind; intros Hb x.
  - cbn [run fst rev]. apply new_set_stamps; [exact Hn| |exact Hs].
    pose proof (N.le_0_l (count_visits [])). lia.
  - rewrite count_visits_app in Hb.
    assert (Hb0 : (Z.to_N n + count_visits ops < two64)%N) by lia.
    destruct (new_set_ok n Hn) as [s' [E [HI [_ [_ [Hwc Hvc]]]]]]; [lia|].
    rewrite Hs in E. inversion E; subst s'.
    destruct (run_inv ops s HI) as [HI1 [Hv1 Hw1]]; [rewrite Hvc; exact Hb0|].
    rewrite run_app, rev_app_distr. cbn [rev app].
    change (fst (run (fst (run s ops)) [o])) with (fst (run (fst (run s ops)) (o :: []))).
    rewrite run_cons. cbn [fst run].
    assert (Hnw : no_wrap (fst (run s ops)) o).
    { destruct o; cbn [no_wrap]; try exact I. rewrite Hv1, Hvc.
      rewrite count_visits_cons in Hb. cbn in Hb. lia. }
    rewrite step_lvof by assumption. rewrite Hw1, Hwc, Hv1, Hvc.
    destruct o as [k|w old new|k| |w| |a b]; cbn [hist_stamp]; try (apply IH; exact Hb0).
    rewrite count_visits_rev.
    destruct ((w =? x) && (0 <=? x) && (x <? n)); [reflexivity|apply IH; exact Hb0].
Qed.

(** Evict after any history returns the listed way whose last Visit is the oldest. *)
Lemma evict_least_recently_visited n s ops s' w :
  0 <= n -> new_set n = Some s -> (Z.to_N n + count_visits ops < two64)%N ->
  evict (fst (run s ops)) = (s', (w, true)) ->
  In w (vl (fst (run s ops))) /\
  forall x, In x (vl (fst (run s ops))) -> x <> w ->
            (hist_stamp n w (rev ops) < hist_stamp n x (rev ops))%N.
Proof.
  intros Hn Hs Hb He.
  destruct (new_set_ok n Hn) as [s0 [E [HI [_ [_ [Hwc Hvc]]]]]];
    [pose proof (N.le_0_l (count_visits ops)); lia|].
  rewrite Hs in E. inversion E; subst s0.
  destruct (run_inv ops s HI) as [HI1 _]; [rewrite Hvc; exact Hb|].
  destruct (evict_lru _ _ _ HI1 He) as [Hin [Htl [Hlt _]]].
  split; [exact Hin|]. intros x Hx Hne.
  rewrite <- !(stamp_history n s Hn Hs ops Hb).
  apply Hlt. rewrite Htl. destruct (vl (fst (run s ops))) as [|h t] eqn:Ev; [destruct Hx|].
  cbn [tl]. rewrite evict_spec, Ev in He. inversion He; subst.
  destruct Hx as [Hx|Hx]; [congruence|exact Hx].
Qed.
