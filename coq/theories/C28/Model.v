(** C28 — model of mem/vm/lruset/lruset.go and lruset_json.go, function by function.

    Conventions.
    - Way ids and the way count are Go [int]: modelled as [Z] (no arithmetic that
      could overflow is performed on them by the code).
    - [visitCount] and the entries of [lastVisits] are [uint64]: [N], the increment
      [s.visitCount++] is written with the explicit wrap [w64].
    - Keys are Go strings: byte lists ([list N], every element < 256).
    - Slices whose nil-ness is observable through JSON are [option (list _)]
      ([None] = nil slice, printed as null; [Some []] = empty non-nil slice, printed
      as the empty array).  The key map is [option] too: [None] is the nil map of the
      zero-value [Set], on which an assignment panics.
    - The Go map is kept as an association list sorted by key (strictly, bytewise
      lexicographic = Go string order): lookups do not depend on the order, and
      encoding/json emits map entries sorted by key, so the sorted list is also the
      order of the entries in the JSON text.
    - A Go run-time panic (index out of range, assignment to entry in nil map,
      makeslice: len out of range) is the explicit outcome [Panicked]; the state
      paired with it is the state the Go value is left in when the panic unwinds
      (the harness recovers the panic and keeps using the same Set).
    - [sort.Search] is modelled as its halving loop, with fuel; running out of
      fuel is the outcome [NoFuel] (shown unreachable in Proofs). *)
From Akita Require Import Lib.Base.
Local Open Scope Z_scope.

Definition key := list N.

(** ** Go slice indexing with an [int] index: [None] = index out of range. *)
Fixpoint zget {A} (l : list A) (i : Z) : option A :=
  match l with
  | [] => None
  | x :: r => if i =? 0 then Some x else zget r (i - 1)
  end.

Fixpoint zset {A} (l : list A) (i : Z) (v : A) : option (list A) :=
  match l with
  | [] => None
  | x :: r => if i =? 0 then Some (v :: r)
              else match zset r (i - 1) v with Some r' => Some (x :: r') | None => None end
  end.

Definition zlen {A} (l : list A) : Z := Z.of_nat (length l).

Definition olist {A} (o : option (list A)) : list A :=
  match o with Some l => l | None => [] end.

(** ** Keys: Go string comparison and the key map. *)
Fixpoint key_cmp (a b : key) : comparison :=
  match a, b with
  | [], [] => Eq
  | [], _ :: _ => Lt
  | _ :: _, [] => Gt
  | x :: a', y :: b' =>
      match N.compare x y with
      | Eq => key_cmp a' b'
      | Lt => Lt
      | Gt => Gt
      end
  end.

Definition key_eqb (a b : key) : bool :=
  match key_cmp a b with Eq => true | _ => false end.

Definition kmap := list (key * Z).

(** [m[k]] with the comma-ok form. *)
Fixpoint km_get (k : key) (m : kmap) : option Z :=
  match m with
  | [] => None
  | (k', v) :: r => if key_eqb k k' then Some v else km_get k r
  end.

(** [m[k] = v]. *)
Fixpoint km_set (k : key) (v : Z) (m : kmap) : kmap :=
  match m with
  | [] => [(k, v)]
  | (k', v') :: r =>
      match key_cmp k k' with
      | Lt => (k, v) :: m
      | Eq => (k, v) :: r
      | Gt => (k', v') :: km_set k v r
      end
  end.

(** [delete(m, k)]. *)
Fixpoint km_del (k : key) (m : kmap) : kmap :=
  match m with
  | [] => []
  | (k', v') :: r => if key_eqb k k' then km_del k r else (k', v') :: km_del k r
  end.

(** ** The Set. *)
Record set := mk_set {
  wayCount : Z;
  visitList : option (list Z);
  visitCount : N;
  lastVisits : option (list N);
  keyMap : option kmap }.

Definition vl (s : set) : list Z := olist (visitList s).
Definition lv (s : set) : list N := olist (lastVisits s).
Definition km (s : set) : kmap := olist (keyMap s).

Definition set_visitList (s : set) (x : option (list Z)) : set :=
  mk_set (wayCount s) x (visitCount s) (lastVisits s) (keyMap s).
Definition set_visitCount (s : set) (x : N) : set :=
  mk_set (wayCount s) (visitList s) x (lastVisits s) (keyMap s).
Definition set_lastVisits (s : set) (x : option (list N)) : set :=
  mk_set (wayCount s) (visitList s) (visitCount s) x (keyMap s).
Definition set_keyMap (s : set) (x : option kmap) : set :=
  mk_set (wayCount s) (visitList s) (visitCount s) (lastVisits s) x.

Inductive outcome := Done | Panicked | NoFuel.

(** The zero value [var s Set]. *)
Definition zero_set : set := mk_set 0 None 0%N None None.

(** ** Lookup / UpdateKey / Remove. *)
Definition lookup (s : set) (k : key) : Z * bool :=
  match km_get k (km s) with
  | Some w => (w, true)
  | None => (0, false)
  end.

(** [delete(s.keyMap, oldKey); s.keyMap[newKey] = wayID]: delete on a nil map is a
    no-op, the assignment panics. *)
Definition update_key (s : set) (w : Z) (old new : key) : set * outcome :=
  match keyMap s with
  | None => (s, Panicked)
  | Some m => (set_keyMap s (Some (km_set new w (km_del old m))), Done)
  end.

Definition remove (s : set) (k : key) : set :=
  match keyMap s with
  | None => s
  | Some m => set_keyMap s (Some (km_del k m))
  end.

(** ** Evict: pop the head of the visit list ([s.visitList[1:]] is non-nil). *)
Definition evict (s : set) : set * (Z * bool) :=
  match vl s with
  | [] => (s, (0, false))
  | w :: r => (set_visitList s (Some r), (w, true))
  end.

(** ** Visit. *)

(** The removal loop: delete the first occurrence. *)
Fixpoint remove_first (w : Z) (l : list Z) : list Z :=
  match l with
  | [] => []
  | x :: r => if x =? w then r else x :: remove_first w r
  end.

Inductive sres := SFound (i : Z) | SPanic | SFuel.

(** [sort.Search(n, f)]: i, j := 0, n; for i < j { h := int(uint(i+j) >> 1);
    if !f(h) { i = h + 1 } else { j = h } }; return i.  [f] may panic. *)
Fixpoint search (fuel : nat) (f : Z -> option bool) (i j : Z) : sres :=
  match fuel with
  | O => SFuel
  | S fuel' =>
      if i <? j then
        let h := (i + j) / 2 in
        match f h with
        | None => SPanic
        | Some false => search fuel' f (h + 1) j
        | Some true => search fuel' f i h
        end
      else SFound i
  end.

(** [s.visitList = append(s.visitList, 0); copy(s.visitList[index+1:], s.visitList[index:]);
    s.visitList[index] = wayID] for 0 <= index <= len. *)
Fixpoint insert_at (i : Z) (w : Z) (l : list Z) : list Z :=
  match l with
  | [] => [w]
  | x :: r => if i <=? 0 then w :: l else x :: insert_at (i - 1) w r
  end.

(** the closure passed to sort.Search: s.lastVisits[s.visitList[i]] > targetVisit *)
Definition visit_pred (l : list Z) (lvs : list N) (target : N) (i : Z) : option bool :=
  match zget l i with
  | None => None
  | Some x => match zget lvs x with
              | None => None
              | Some t => Some (target <? t)%N
              end
  end.

Definition visit (s : set) (w : Z) : set * outcome :=
  (* removal loop: a nil list stays nil, append(...) of a found element is non-nil *)
  let s1 := set_visitList s (option_map (remove_first w) (visitList s)) in
  (* s.visitCount++ *)
  let vc := w64 (visitCount s + 1) in
  let s2 := set_visitCount s1 vc in
  (* s.lastVisits[wayID] = s.visitCount *)
  match zset (lv s2) w vc with
  | None => (s2, Panicked)
  | Some lvs =>
      let s3 := set_lastVisits s2 (Some lvs) in
      let l := vl s3 in
      match search (S (length l)) (visit_pred l lvs vc) 0 (zlen l) with
      | SPanic => (s3, Panicked)
      | SFuel => (s3, NoFuel)
      | SFound idx => (set_visitList s3 (Some (insert_at idx w l)), Done)
      end
  end.

(** ** NewSet: [None] = panic (makeslice: len out of range for a negative count;
    a count too large for memory is outside the model). *)
Fixpoint new_loop (k : nat) (j : Z) (s : set) : option set :=
  match k with
  | O => Some s
  | S k' => match visit s j with
            | (s', Done) => new_loop k' (j + 1) s'
            | _ => None
            end
  end.

Definition new_set (n : Z) : option set :=
  if n <? 0 then None
  else new_loop (Z.to_nat n) 0
         (mk_set n (Some []) 0%N (Some (repeat 0%N (Z.to_nat n))) (Some [])).

(** ** KeyString: fmt.Sprintf("%d%016x", a, b). *)
Definition dec_digit (d : N) : N := (48 + d)%N.
Definition hex_digit (d : N) : N := if (d <? 10)%N then (48 + d)%N else (87 + d)%N.

(** least significant digit first, [fuel] digits at most; stops when the rest is 0 *)
Fixpoint dec_digits_rev (fuel : nat) (a : N) : list N :=
  match fuel with
  | O => []
  | S f => dec_digit (a mod 10)%N ::
           (if (a / 10 =? 0)%N then [] else dec_digits_rev f (a / 10)%N)
  end.

(** exactly [n] hex digits of [b], least significant first *)
Fixpoint hex_digits_rev (n : nat) (b : N) : list N :=
  match n with
  | O => []
  | S n' => hex_digit (b mod 16)%N :: hex_digits_rev n' (b / 16)%N
  end.

(** for a, b < 2^64: at most 20 decimal digits, exactly 16 hex digits *)
Definition key_string (a b : N) : key :=
  rev (dec_digits_rev 20 a) ++ rev (hex_digits_rev 16 b).

(** ** JSON.  The text is modelled at the level of its fields after decoding by
    encoding/json (the DTO): numbers, null-vs-array, and the entries of the key_map
    object in textual order with their keys decoded. *)
Record dto := mk_dto {
  d_wc : Z;
  d_vl : option (list Z);
  d_vc : N;
  d_lv : option (list N);
  d_km : option (list (key * Z)) }.

(** encoding/json writes a string coerced to valid UTF-8: every byte that does not
    start a well-formed UTF-8 sequence (utf8.DecodeRuneInString returns RuneError
    with width 1) is replaced by U+FFFD (EF BF BD); well-formed sequences, ASCII
    included, survive (escapes such as < are undone by the decoder). *)
Definition inr (lo hi b : N) : bool := ((lo <=? b) && (b <=? hi))%N.
Definition cont (b : N) : bool := inr 128 191 b.

Definition utf8_2 (b0 b1 : N) : bool := inr 194 223 b0 && cont b1.
Definition utf8_3 (b0 b1 b2 : N) : bool :=
  ((b0 =? 224)%N && inr 160 191 b1 && cont b2) ||
  ((inr 225 236 b0 || inr 238 239 b0) && cont b1 && cont b2) ||
  ((b0 =? 237)%N && inr 128 159 b1 && cont b2).
Definition utf8_4 (b0 b1 b2 b3 : N) : bool :=
  ((b0 =? 240)%N && inr 144 191 b1 && cont b2 && cont b3) ||
  (inr 241 243 b0 && cont b1 && cont b2 && cont b3) ||
  ((b0 =? 244)%N && inr 128 143 b1 && cont b2 && cont b3).

Definition fffd : list N := [239; 191; 189]%N.

Fixpoint utf8_coerce (s : key) : key :=
  match s with
  | [] => []
  | b0 :: r0 =>
      if (b0 <? 128)%N then b0 :: utf8_coerce r0
      else match r0 with
      | [] => fffd
      | b1 :: r1 =>
          if utf8_2 b0 b1 then b0 :: b1 :: utf8_coerce r1
          else match r1 with
          | [] => fffd ++ utf8_coerce r0
          | b2 :: r2 =>
              if utf8_3 b0 b1 b2 then b0 :: b1 :: b2 :: utf8_coerce r2
              else match r2 with
              | [] => fffd ++ utf8_coerce r0
              | b3 :: r3 =>
                  if utf8_4 b0 b1 b2 b3 then b0 :: b1 :: b2 :: b3 :: utf8_coerce r3
                  else fffd ++ utf8_coerce r0
              end
          end
      end
  end.

(** MarshalJSON (value receiver): the five fields; map entries sorted by the
    ORIGINAL key, each key written coerced. *)
Definition marshal (s : set) : dto :=
  mk_dto (wayCount s) (visitList s) (visitCount s) (lastVisits s)
    (match keyMap s with
     | None => None
     | Some m => Some (map (fun kv => (utf8_coerce (fst kv), snd kv)) m)
     end).

(** decoding an object into a fresh map: entries are assigned in textual order *)
Definition km_of_entries (es : list (key * Z)) : kmap :=
  fold_left (fun m kv => km_set (fst kv) (snd kv) m) es [].

(** UnmarshalJSON into any Set: all five fields are overwritten; a null key_map
    becomes an empty non-nil map. *)
Definition unmarshal (d : dto) : set :=
  mk_set (d_wc d) (d_vl d) (d_vc d) (d_lv d)
    (Some (match d_km d with None => [] | Some es => km_of_entries es end)).

(** ** Operation histories. *)
Inductive op :=
| OLookup (k : key)
| OUpdateKey (w : Z) (old new : key)
| ORemove (k : key)
| OEvict
| OVisit (w : Z)
| OJson                      (* marshal, unmarshal into a fresh Set, continue with it *)
| OKeyString (a b : N).      (* pure helper, does not touch the set *)

Inductive out :=
| RLookup (w : Z) (found : bool)
| RDone
| RPanic
| RNoFuel
| REvict (w : Z) (ok : bool)
| RJson (d : dto)
| RKey (k : key).

Definition out_of_outcome (o : outcome) : out :=
  match o with Done => RDone | Panicked => RPanic | NoFuel => RNoFuel end.

Definition step (s : set) (o : op) : set * out :=
  match o with
  | OLookup k => let '(w, f) := lookup s k in (s, RLookup w f)
  | OUpdateKey w old new => let '(s', r) := update_key s w old new in (s', out_of_outcome r)
  | ORemove k => (remove s k, RDone)
  | OEvict => let '(s', (w, ok)) := evict s in (s', REvict w ok)
  | OVisit w => let '(s', r) := visit s w in (s', out_of_outcome r)
  | OJson => let d := marshal s in (unmarshal d, RJson d)
  | OKeyString a b => (s, RKey (key_string a b))
  end.

Fixpoint run (s : set) (ops : list op) : set * list out :=
  match ops with
  | [] => (s, [])
  | o :: r => let '(s1, x) := step s o in
              let '(s2, xs) := run s1 r in (s2, x :: xs)
  end.
