(** C28 — the representation invariant, its preservation by every operation, and
    the simulation of the code model by the reference model. *)
From Akita Require Import Lib.Base C28.Model C28.Spec C28.Proofs1.
From Coq Require Import Sorting.Sorted.
Local Open Scope Z_scope.

(** last visit stamp of a way (0 for an id outside the slice: never used under the
    invariant, where every listed way is in range) *)
Definition lvof (lvs : list N) (w : Z) : N :=
  match zget lvs w with Some t => t | None => 0%N end.

Definition stamp_lt (lvs : list N) (a b : Z) : Prop := (lvof lvs a < lvof lvs b)%N.

Record Inv (s : set) : Prop := mk_Inv {
  inv_wc : zlen (lv s) = wayCount s;
  inv_range : Forall (fun w => 0 <= w < wayCount s) (vl s);
  inv_sorted : StronglySorted (stamp_lt (lv s)) (vl s);
  inv_le : Forall (fun t => (t <= visitCount s)%N) (lv s);
  inv_vc : (visitCount s < two64)%N;
  inv_km : exists m, keyMap s = Some m /\ km_sorted m }.

Lemma inv_nodup s : Inv s -> NoDup (vl s).
Proof.
  intro H. eapply ss_irrefl_nodup; [|exact (inv_sorted s H)].
  intros a. unfold stamp_lt. lia.
Qed.

(** keys that survive the JSON text *)
Definition key_valid (k : key) : Prop := utf8_coerce k = k.
Definition KV (s : set) : Prop := Forall (fun e => key_valid (fst e)) (km s).

(** ** Visit *)
Lemma visit_in_range s w :
  Inv s -> 0 <= w < wayCount s -> (visitCount s + 1 < two64)%N ->
  exists s', visit s w = (s', Done) /\ Inv s' /\
    vl s' = filter (fun x => negb (x =? w)) (vl s) ++ [w] /\
    wayCount s' = wayCount s /\ keyMap s' = keyMap s /\
    visitCount s' = (visitCount s + 1)%N /\
    lvof (lv s') w = (visitCount s + 1)%N /\
    (forall x, x <> w -> lvof (lv s') x = lvof (lv s) x).
Proof.
  intros HI Hw Hvc.
  pose proof (inv_nodup s HI) as Hnd.
  destruct HI as [Hwc Hrange Hsorted Hle Hvc0 Hkm].
  unfold visit.
  set (vc := w64 (visitCount s + 1)).
  assert (Evc : vc = (visitCount s + 1)%N) by (apply w64_small; exact Hvc).
  set (s1 := set_visitList s (option_map (remove_first w) (visitList s))).
  set (s2 := set_visitCount s1 vc).
  assert (Elv2 : lv s2 = lv s) by reflexivity.
  rewrite Elv2.
  destruct (zset_some (lv s) vc w) as [lvs Hset]; [lia|].
  rewrite Hset.
  set (s3 := set_lastVisits s2 (Some lvs)).
  assert (Evl3 : vl s3 = remove_first w (vl s)).
  { unfold s3, s2, s1, vl. cbn [visitList set_lastVisits set_visitCount set_visitList].
    apply olist_option_map. reflexivity. }
  rewrite Evl3.
  set (l := remove_first w (vl s)).
  assert (El : l = filter (fun x => negb (x =? w)) (vl s)) by (apply remove_first_nodup; exact Hnd).
  assert (Hl_in : forall x, In x l -> In x (vl s) /\ x <> w).
  { intros x Hx. rewrite El in Hx. apply filter_In in Hx. destruct Hx as [Hx Hne]. split; [exact Hx|lia]. }
  assert (Hlvs_other : forall x, x <> w -> zget lvs x = zget (lv s) x).
  { intros x Hx. eapply zget_zset_neq; eauto. }
  assert (Hlvs_w : zget lvs w = Some vc) by (eapply zget_zset_eq; eauto).
  assert (Hstamp_le : forall x, In x (vl s) -> (lvof (lv s) x <= visitCount s)%N).
  { intros x Hx. unfold lvof. destruct (zget (lv s) x) as [t|] eqn:Et; [|lia].
    apply zget_in in Et. rewrite Forall_forall in Hle. auto. }
  assert (Hsearch : search (S (length l)) (visit_pred l lvs vc) 0 (zlen l) = SFound (zlen l)).
  { apply search_spec.
    - pose proof (zlen_nonneg l). lia.
    - unfold zlen. lia.
    - intros h Hh. unfold visit_pred.
      destruct (zget_in_range l h Hh) as [x Hx]. rewrite Hx.
      apply zget_in in Hx. destruct (Hl_in x Hx) as [Hxin Hxne].
      rewrite Hlvs_other by exact Hxne.
      rewrite Forall_forall in Hrange. specialize (Hrange x Hxin).
      destruct (zget_in_range (lv s) x) as [t Ht]; [lia|]. rewrite Ht.
      specialize (Hstamp_le x Hxin). unfold lvof in Hstamp_le. rewrite Ht in Hstamp_le.
      f_equal. lia.
    - intros h Hh. lia. }
  rewrite Hsearch. rewrite insert_at_end by lia.
  eexists. split; [reflexivity|].
  assert (Hlv' : forall x, x <> w -> lvof lvs x = lvof (lv s) x).
  { intros x Hx. unfold lvof. rewrite Hlvs_other by exact Hx. reflexivity. }
  assert (Hlvw : lvof lvs w = vc) by (unfold lvof; rewrite Hlvs_w; reflexivity).
  split; [|cbn [vl lv visitList lastVisits wayCount keyMap visitCount set_visitList set_lastVisits
                 set_visitCount olist s3 s2 s1]; repeat split; auto; try congruence].
  constructor; cbn [vl lv visitList lastVisits wayCount keyMap visitCount set_visitList set_lastVisits
                     set_visitCount olist s3 s2 s1].
  - unfold zlen. rewrite (zset_length _ _ _ _ Hset). exact Hwc.
  - apply Forall_app. split.
    + apply Forall_forall. intros x Hx. destruct (Hl_in x Hx) as [Hxin _].
      rewrite Forall_forall in Hrange. auto.
    + constructor; [exact Hw|constructor].
  - apply ss_snoc.
    + apply ss_impl_in with (R := stamp_lt (lv s)).
      * intros a b Ha Hb Hab. destruct (Hl_in a Ha) as [_ Hane]. destruct (Hl_in b Hb) as [_ Hbne].
        unfold stamp_lt in *. rewrite !Hlv' by assumption. exact Hab.
      * rewrite El. apply ss_filter. exact Hsorted.
    + apply Forall_forall. intros x Hx. destruct (Hl_in x Hx) as [Hxin Hxne].
      unfold stamp_lt. rewrite Hlv' by exact Hxne. rewrite Hlvw.
      specialize (Hstamp_le x Hxin). lia.
  - eapply zset_forall; [exact Hset| |lia].
    eapply Forall_impl; [|exact Hle]. intros t Ht. cbn beta in Ht. lia.
  - lia.
  - exact Hkm.
Qed.

Lemma visit_out_of_range s w :
  Inv s -> ~ (0 <= w < wayCount s) -> (visitCount s + 1 < two64)%N ->
  exists s', visit s w = (s', Panicked) /\ Inv s' /\
    vl s' = vl s /\ lv s' = lv s /\ wayCount s' = wayCount s /\ keyMap s' = keyMap s /\
    visitCount s' = (visitCount s + 1)%N.
Proof.
  intros HI Hw Hvc.
  destruct HI as [Hwc Hrange Hsorted Hle Hvc0 Hkm].
  unfold visit.
  set (vc := w64 (visitCount s + 1)).
  assert (Evc : vc = (visitCount s + 1)%N) by (apply w64_small; exact Hvc).
  set (s1 := set_visitList s (option_map (remove_first w) (visitList s))).
  set (s2 := set_visitCount s1 vc).
  assert (Elv2 : lv s2 = lv s) by reflexivity.
  rewrite Elv2. rewrite zset_none by lia.
  assert (Hnotin : ~ In w (vl s)).
  { intro Hin. rewrite Forall_forall in Hrange. apply Hw. auto. }
  assert (Evl2 : vl s2 = vl s).
  { unfold s2, s1, vl. cbn [visitList set_visitCount set_visitList].
    rewrite olist_option_map by reflexivity. apply remove_first_notin. exact Hnotin. }
  eexists. split; [reflexivity|].
  split; [|repeat split; auto].
  constructor.
  - exact Hwc.
  - rewrite Evl2. exact Hrange.
  - rewrite Evl2. exact Hsorted.
  - change (visitCount s2) with vc. change (lv s2) with (lv s).
    eapply Forall_impl; [|exact Hle]. intros t Ht. cbn beta in Ht. lia.
  - change (visitCount s2) with vc. lia.
  - exact Hkm.
Qed.

(** ** the other operations *)
Lemma evict_inv s : Inv s -> Inv (fst (evict s)).
Proof.
  intros [Hwc Hrange Hsorted Hle Hvc0 Hkm]. unfold evict.
  destruct (vl s) as [|w r] eqn:E; cbn [fst]; [constructor; try rewrite E; auto|].
  inversion Hrange; subst. inversion Hsorted; subst.
  constructor; cbn [vl lv visitList lastVisits wayCount keyMap visitCount set_visitList olist]; auto.
Qed.

Lemma evict_spec s :
  evict s = match vl s with
            | [] => (s, (0, false))
            | w :: r => (set_visitList s (Some r), (w, true))
            end.
Proof. reflexivity. Qed.

Lemma update_key_inv s w old new : Inv s ->
  exists s', update_key s w old new = (s', Done) /\ Inv s' /\
    km s' = km_set new w (km_del old (km s)) /\
    vl s' = vl s /\ lv s' = lv s /\ wayCount s' = wayCount s /\ visitCount s' = visitCount s.
Proof.
  intros [Hwc Hrange Hsorted Hle Hvc0 [m [Hm Hms]]]. unfold update_key. rewrite Hm.
  eexists. split; [reflexivity|]. split; [|unfold km; rewrite Hm; repeat split; reflexivity].
  constructor; cbn [vl lv visitList lastVisits wayCount keyMap visitCount set_keyMap olist]; auto.
  eexists. split; [reflexivity|]. apply km_set_sorted. apply km_del_sorted. exact Hms.
Qed.

Lemma remove_inv s k : Inv s ->
  Inv (remove s k) /\ km (remove s k) = km_del k (km s) /\
  vl (remove s k) = vl s /\ lv (remove s k) = lv s /\ wayCount (remove s k) = wayCount s /\
  visitCount (remove s k) = visitCount s.
Proof.
  intros [Hwc Hrange Hsorted Hle Hvc0 [m [Hm Hms]]]. unfold remove. rewrite Hm.
  split; [|unfold km; rewrite Hm; repeat split; reflexivity].
  constructor; cbn [vl lv visitList lastVisits wayCount keyMap visitCount set_keyMap olist]; auto.
  eexists. split; [reflexivity|]. apply km_del_sorted. exact Hms.
Qed.

(** ** JSON *)
Lemma map_coerce_valid (m : kmap) :
  Forall (fun e => key_valid (fst e)) m ->
  map (fun kv => (utf8_coerce (fst kv), snd kv)) m = m.
Proof.
  induction m as [|[k v] m IH]; intro H; cbn [map]; [reflexivity|].
  inversion H as [|? ? Hk Hm]; subst. cbn [fst snd] in *. unfold key_valid in Hk.
  rewrite Hk, IH; auto.
Qed.

(** the four fields that carry the recency state always survive, whatever the keys *)
Lemma roundtrip_order_fields s :
  let s' := unmarshal (marshal s) in
  wayCount s' = wayCount s /\ visitList s' = visitList s /\
  visitCount s' = visitCount s /\ lastVisits s' = lastVisits s.
Proof. cbn. auto. Qed.

Lemma roundtrip_id s : Inv s -> KV s -> unmarshal (marshal s) = s.
Proof.
  intros HI HK. destruct (inv_km s HI) as [m [Hm Hms]].
  unfold KV, km in HK. rewrite Hm in HK. cbn [olist] in HK.
  destruct s as [wc vl0 vc lv0 km0]. cbn [keyMap] in Hm. subst km0.
  unfold unmarshal, marshal. cbn [d_wc d_vl d_vc d_lv d_km wayCount visitList visitCount lastVisits keyMap].
  rewrite map_coerce_valid by exact HK. rewrite km_of_entries_sorted_id by exact Hms. reflexivity.
Qed.

Lemma roundtrip_inv s : Inv s -> Inv (unmarshal (marshal s)).
Proof.
  intros [Hwc Hrange Hsorted Hle Hvc0 Hkm].
  constructor; cbn [unmarshal marshal vl lv visitList lastVisits wayCount keyMap visitCount olist
                    d_wc d_vl d_vc d_lv d_km]; auto.
  eexists. split; [reflexivity|].
  destruct (keyMap s); [apply km_of_entries_sorted|constructor].
Qed.

(** ** every operation preserves the invariant *)

(** the 64-bit visit counter is not about to wrap (only Visit increments it) *)
Definition no_wrap (s : set) (o : op) : Prop :=
  match o with OVisit _ => (visitCount s + 1 < two64)%N | _ => True end.

Lemma step_inv s o : Inv s -> no_wrap s o -> Inv (fst (step s o)).
Proof.
  intros HI Hvc. destruct o as [k|w old new|k| |w| |a b]; cbn [step].
  - destruct (lookup s k). exact HI.
  - destruct (update_key_inv s w old new HI) as [s' [E [HI' _]]]. rewrite E. exact HI'.
  - apply remove_inv. exact HI.
  - pose proof (evict_inv s HI) as H. destruct (evict s) as [s' [w ok]]. exact H.
  - destruct (Z_le_dec 0 w) as [H0|H0]; [destruct (Z_lt_dec w (wayCount s)) as [H1|H1]|].
    + destruct (visit_in_range s w HI (conj H0 H1) Hvc) as [s' [E [HI' _]]]. rewrite E. exact HI'.
    + destruct (visit_out_of_range s w HI) as [s' [E [HI' _]]]; [lia|exact Hvc|]. rewrite E. exact HI'.
    + destruct (visit_out_of_range s w HI) as [s' [E [HI' _]]]; [lia|exact Hvc|]. rewrite E. exact HI'.
  - apply roundtrip_inv. exact HI.
  - exact HI.
Qed.

Lemma step_visitCount s o : Inv s -> no_wrap s o ->
  visitCount (fst (step s o)) =
  (visitCount s + match o with OVisit _ => 1 | _ => 0 end)%N.
Proof.
  intros HI Hvc. destruct o as [k|w old new|k| |w| |a b]; cbn [step].
  - destruct (lookup s k). cbn [fst]. lia.
  - destruct (update_key_inv s w old new HI) as [s' [E [_ [_ [_ [_ [_ Hv]]]]]]]. rewrite E. cbn [fst]. lia.
  - destruct (remove_inv s k HI) as [_ [_ [_ [_ [_ Hv]]]]]. cbn [fst]. lia.
  - rewrite evict_spec. destruct (vl s); cbn; lia.
  - destruct (Z_le_dec 0 w) as [H0|H0]; [destruct (Z_lt_dec w (wayCount s)) as [H1|H1]|].
    + destruct (visit_in_range s w HI (conj H0 H1) Hvc) as [s' [E [_ [_ [_ [_ [Hv _]]]]]]]. rewrite E. exact Hv.
    + destruct (visit_out_of_range s w HI) as [s' [E [_ [_ [_ [_ [_ Hv]]]]]]]; [lia|exact Hvc|]. rewrite E. exact Hv.
    + destruct (visit_out_of_range s w HI) as [s' [E [_ [_ [_ [_ [_ Hv]]]]]]]; [lia|exact Hvc|]. rewrite E. exact Hv.
  - cbn. lia.
  - cbn [fst]. lia.
Qed.

Lemma step_wayCount s o : Inv s -> no_wrap s o -> wayCount (fst (step s o)) = wayCount s.
Proof.
  intros HI Hnw. destruct o as [k|w old new|k| |w| |a b]; cbn [step].
  - destruct (lookup s k); reflexivity.
  - destruct (update_key_inv s w old new HI) as [s' [E [_ [_ [_ [_ [Hw _]]]]]]]. rewrite E. exact Hw.
  - destruct (remove_inv s k HI) as [_ [_ [_ [_ [Hw _]]]]]. exact Hw.
  - rewrite evict_spec. destruct (vl s); reflexivity.
  - destruct (Z_le_dec 0 w) as [H0|H0]; [destruct (Z_lt_dec w (wayCount s)) as [H1|H1]|].
    + destruct (visit_in_range s w HI (conj H0 H1) Hnw) as [s' [E [_ [_ [Hw _]]]]]. rewrite E. exact Hw.
    + destruct (visit_out_of_range s w HI) as [s' [E [_ [_ [_ [Hw _]]]]]]; [lia|exact Hnw|]. rewrite E. exact Hw.
    + destruct (visit_out_of_range s w HI) as [s' [E [_ [_ [_ [Hw _]]]]]]; [lia|exact Hnw|]. rewrite E. exact Hw.
  - reflexivity.
  - reflexivity.
Qed.

(** the only panic is Visit with a way id outside [0, wayCount); fuel never runs out *)
Lemma step_panic s o : Inv s -> no_wrap s o ->
  (snd (step s o) = RPanic <-> exists w, o = OVisit w /\ ~ (0 <= w < wayCount s)) /\
  snd (step s o) <> RNoFuel.
Proof.
  intros HI Hvc. destruct o as [k|w old new|k| |w| |a b]; cbn [step].
  - destruct (lookup s k). cbn [snd]. split; [split; [discriminate|intros [w [H _]]; discriminate]|discriminate].
  - destruct (update_key_inv s w old new HI) as [s' [E _]]. rewrite E. cbn.
    split; [split; [discriminate|intros [w' [H _]]; discriminate]|discriminate].
  - cbn. split; [split; [discriminate|intros [w' [H _]]; discriminate]|discriminate].
  - destruct (evict s) as [s' [w ok]]. cbn.
    split; [split; [discriminate|intros [w' [H _]]; discriminate]|discriminate].
  - destruct (Z_le_dec 0 w) as [H0|H0]; [destruct (Z_lt_dec w (wayCount s)) as [H1|H1]|].
    + destruct (visit_in_range s w HI (conj H0 H1) Hvc) as [s' [E _]]. rewrite E. cbn.
      split; [split; [discriminate|intros [w' [H Hn]]; inversion H; subst; lia]|discriminate].
    + destruct (visit_out_of_range s w HI) as [s' [E _]]; [lia|exact Hvc|]. rewrite E. cbn.
      split; [split; [intros _; exists w; split; [reflexivity|lia]|reflexivity]|discriminate].
    + destruct (visit_out_of_range s w HI) as [s' [E _]]; [lia|exact Hvc|]. rewrite E. cbn.
      split; [split; [intros _; exists w; split; [reflexivity|lia]|reflexivity]|discriminate].
  - cbn. split; [split; [discriminate|intros [w' [H _]]; discriminate]|discriminate].
  - cbn. split; [split; [discriminate|intros [w' [H _]]; discriminate]|discriminate].
Qed.

(** ** NewSet *)
Lemma new_loop_ok : forall k j s,
  Inv s -> 0 <= j -> j + Z.of_nat k <= wayCount s ->
  (visitCount s + N.of_nat k < two64)%N ->
  vl s = zseq 0 (Z.to_nat j) ->
  exists s', new_loop k j s = Some s' /\ Inv s' /\
    vl s' = zseq 0 (Z.to_nat j + k) /\ keyMap s' = keyMap s /\ wayCount s' = wayCount s /\
    visitCount s' = (visitCount s + N.of_nat k)%N.
Proof.
  induction k as [|k IH]; intros j s HI Hj Hjk Hvc Hvl; cbn [new_loop].
  - exists s. rewrite Nat.add_0_r. split; [reflexivity|]. split; [exact HI|].
    split; [exact Hvl|]. split; [reflexivity|]. split; [reflexivity|]. lia.
  - destruct (visit_in_range s j HI) as [s1 [E [HI1 [Hvl1 [Hwc1 [Hkm1 [Hvc1 _]]]]]]]; [lia|lia|].
    rewrite E.
    destruct (IH (j + 1) s1 HI1) as [s' [E' [HI' [Hvl' [Hkm' [Hwc' Hvc']]]]]]; try lia.
    + rewrite Hvl1, Hvl. rewrite filter_notin.
      * replace (Z.to_nat (j + 1)) with (S (Z.to_nat j)) by lia. rewrite zseq_snoc.
        do 2 f_equal. lia.
      * rewrite zseq_in. lia.
    + exists s'. split; [exact E'|]. split; [exact HI'|].
      split; [rewrite Hvl'; f_equal; lia|]. split; [congruence|]. split; [congruence|]. lia.
Qed.

Lemma repeat_forall {A} (P : A -> Prop) x n : P x -> Forall P (repeat x n).
Proof. intro H. induction n; cbn [repeat]; constructor; auto. Qed.

Lemma new_set_ok n : 0 <= n -> (Z.to_N n < two64)%N ->
  exists s, new_set n = Some s /\ Inv s /\
    vl s = zseq 0 (Z.to_nat n) /\ keyMap s = Some [] /\ wayCount s = n /\ visitCount s = Z.to_N n.
Proof.
  intros Hn Hlt. unfold new_set. destruct (n <? 0) eqn:E; [lia|].
  set (s0 := mk_set n (Some []) 0%N (Some (repeat 0%N (Z.to_nat n))) (Some [])).
  assert (HI0 : Inv s0).
  { constructor; cbn [s0 vl lv visitList lastVisits wayCount keyMap visitCount olist].
    - unfold zlen. rewrite repeat_length. lia.
    - constructor.
    - constructor.
    - apply repeat_forall. lia.
    - unfold two64. lia.
    - eexists. split; [reflexivity|constructor]. }
  destruct (new_loop_ok (Z.to_nat n) 0 s0 HI0) as [s' [E' [HI' [Hvl' [Hkm' [Hwc' Hvc']]]]]].
  - lia.
  - cbn [s0 wayCount]. lia.
  - cbn [s0 visitCount]. lia.
  - reflexivity.
  - exists s'. split; [exact E'|]. split; [exact HI'|]. split; [exact Hvl'|].
    split; [rewrite Hkm'; reflexivity|]. split; [exact Hwc'|]. rewrite Hvc'. cbn [s0 visitCount]. lia.
Qed.

Lemma new_set_neg n : n < 0 -> new_set n = None.
Proof. intro H. unfold new_set. destruct (n <? 0) eqn:E; [reflexivity|lia]. Qed.

(** ** simulation *)
Definition R (s : set) (r : rset) : Prop :=
  Inv s /\ r_ways r = wayCount s /\ r_order r = vl s /\
  forall k, km_get k (km s) = r_find k (r_keys r).

Definition op_valid (o : op) : Prop :=
  match o with OUpdateKey _ _ new => key_valid new | _ => True end.

Lemma list_eqb_refl {A} (eqb : A -> A -> bool) (Hr : forall x, eqb x x = true) l :
  list_eqb eqb l l = true.
Proof. induction l as [|x l IH]; cbn [list_eqb]; [reflexivity|]. rewrite Hr, IH. reflexivity. Qed.

Lemma km_sorted_keys_distinct m : km_sorted m -> keys_distinct m = true.
Proof.
  unfold km_sorted. induction m as [|[k v] m IH]; intro H; cbn [keys_distinct]; [reflexivity|].
  inversion H as [|? ? Hm HF]; subst. rewrite IH by exact Hm. rewrite andb_true_r.
  apply negb_true_iff. destruct (existsb (fun e => keq k (fst e)) m) eqn:E; [|reflexivity].
  apply existsb_exists in E. destruct E as [e [Hin He]]. apply keq_eq in He.
  rewrite Forall_forall in HF. specialize (HF e Hin). unfold klt in HF. cbn [fst] in HF.
  rewrite He, key_cmp_refl in HF. discriminate.
Qed.

Lemma oz_eqb_refl a : oz_eqb a a = true.
Proof. destruct a; cbn; [apply Z.eqb_refl|reflexivity]. Qed.

(** the snapshot of a state related to [r] (with keys that survive JSON) conveys [r] *)
Lemma snapshot_ok s r : R s r -> KV s -> r_snapshot_ok r (marshal s) = true.
Proof.
  intros [HI [Hw [Ho Hk]]] HK. destruct (inv_km s HI) as [m [Hm Hms]].
  assert (Ekm : km s = m) by (unfold km; rewrite Hm; reflexivity).
  unfold KV in HK. rewrite Ekm in HK. rewrite Ekm in Hk.
  unfold r_snapshot_ok, marshal. cbn [d_wc d_vl d_km]. rewrite Hm.
  rewrite map_coerce_valid by exact HK. cbn [olist].
  rewrite Hw, Z.eqb_refl. change (olist (visitList s)) with (vl s). rewrite Ho.
  rewrite list_eqb_refl by apply Z.eqb_refl.
  rewrite km_sorted_keys_distinct by exact Hms. cbn [andb].
  apply andb_true_iff. split.
  - apply forallb_forall. intros [k v] Hin. cbn [fst snd]. rewrite <- Hk.
    rewrite (km_sorted_get k v m Hms Hin). apply oz_eqb_refl.
  - apply forallb_forall. intros [k v] Hin. cbn [fst]. rewrite r_find_km_get, Hk. apply oz_eqb_refl.
Qed.

Lemma kv_set k v m : key_valid k -> Forall (fun e => key_valid (fst e)) m ->
  Forall (fun e => key_valid (fst e)) (km_set k v m).
Proof.
  intros Hk Hm. apply Forall_forall. intros e He. apply km_set_in in He.
  destruct He as [->|He]; [exact Hk|]. rewrite Forall_forall in Hm. auto.
Qed.

Lemma kv_del k m : Forall (fun e => key_valid (fst e)) m ->
  Forall (fun e => key_valid (fst e)) (km_del k m).
Proof.
  intros Hm. apply Forall_forall. intros e He. apply km_del_in in He.
  rewrite Forall_forall in Hm. auto.
Qed.

(** One step: the reference accepts the code's result and the relation is kept. *)
Lemma step_sim s r o :
  R s r -> KV s -> op_valid o -> no_wrap s o ->
  let '(s', x) := step s o in
  let '(r', ok) := r_step r o x in
  ok = true /\ R s' r' /\ KV s'.
Proof.
  intros HR HK Hov Hvc. pose proof HR as [HI [Hw [Ho Hk]]].
  destruct o as [k|w old new|k| |w| |a b]; cbn [step r_step].
  - (* Lookup *)
    unfold lookup, r_lookup. rewrite Hk. destruct (r_find k (r_keys r)) as [w|].
    + rewrite Z.eqb_refl. cbn. auto.
    + cbn. auto.
  - (* UpdateKey *)
    destruct (update_key_inv s w old new HI) as [s' [E [HI' [Hkm' [Hvl' [Hlv' [Hwc' Hvc']]]]]]].
    rewrite E. cbn [out_of_outcome]. split; [reflexivity|]. split.
    + split; [exact HI'|]. cbn [r_update r_ways r_order r_keys].
      split; [congruence|]. split; [congruence|].
      intro k. rewrite Hkm'. cbn [r_find]. destruct (keq k new) eqn:Ek.
      * apply keq_eq in Ek. subst k. apply km_get_set_eq.
      * assert (Hne : k <> new) by (intro; subst; rewrite keq_refl in Ek; discriminate).
        rewrite km_get_set_neq by exact Hne.
        destruct (key_eq_dec_aux k old) as [->|Hne2].
        -- rewrite km_get_del_eq, r_find_unbind_eq. reflexivity.
        -- rewrite km_get_del_neq, r_find_unbind_neq by exact Hne2. apply Hk.
    + unfold KV. rewrite Hkm'. apply kv_set; [exact Hov|]. apply kv_del. exact HK.
  - (* Remove *)
    destruct (remove_inv s k HI) as [HI' [Hkm' [Hvl' [Hlv' [Hwc' Hvc']]]]].
    split; [reflexivity|]. split.
    + split; [exact HI'|]. cbn [r_remove r_ways r_order r_keys].
      split; [congruence|]. split; [congruence|].
      intro k'. rewrite Hkm'. destruct (key_eq_dec_aux k' k) as [->|Hne].
      * rewrite km_get_del_eq, r_find_unbind_eq. reflexivity.
      * rewrite km_get_del_neq, r_find_unbind_neq by exact Hne. apply Hk.
    + unfold KV. rewrite Hkm'. apply kv_del. exact HK.
  - (* Evict *)
    pose proof (evict_inv s HI) as HI'. rewrite evict_spec in *. unfold r_evict. rewrite Ho.
    destruct (vl s) as [|w rest] eqn:E.
    + cbn. split; [reflexivity|]. split; [exact HR|exact HK].
    + cbn [fst] in HI'. rewrite Z.eqb_refl. cbn [Bool.eqb andb]. split; [reflexivity|]. split; [|exact HK].
      split; [exact HI'|]. cbn [r_ways r_order r_keys]. split; [exact Hw|]. split; [reflexivity|exact Hk].
  - (* Visit *)
    unfold r_visit. rewrite Hw.
    destruct ((0 <=? w) && (w <? wayCount s)) eqn:Eg.
    + destruct (visit_in_range s w HI) as [s' [E [HI' [Hvl' [Hwc' [Hkm' _]]]]]]; [lia|exact Hvc|].
      rewrite E. cbn [out_of_outcome]. split; [reflexivity|]. split.
      * split; [exact HI'|]. cbn [r_ways r_order r_keys].
        split; [congruence|]. split; [rewrite Hvl', Ho; reflexivity|].
        unfold km. rewrite Hkm'. exact Hk.
      * unfold KV, km. rewrite Hkm'. exact HK.
    + destruct (visit_out_of_range s w HI) as [s' [E [HI' [Hvl' [Hlv' [Hwc' [Hkm' _]]]]]]]; [lia|exact Hvc|].
      rewrite E. cbn [out_of_outcome negb]. split; [reflexivity|]. split.
      * split; [exact HI'|]. split; [congruence|]. split; [congruence|].
        unfold km. rewrite Hkm'. exact Hk.
      * unfold KV, km. rewrite Hkm'. exact HK.
  - (* JSON round trip *)
    rewrite (roundtrip_id s HI HK). split; [apply snapshot_ok; assumption|]. split; assumption.
  - (* KeyString: handled by Proofs3 (ASCII, length); here only the state part *)
    split; [|split; assumption].
    apply andb_true_iff. split.
    + apply key_string_ascii.
    + apply key_string_len.
Qed.
