(** C28 — case evaluators for the correspondence check.

    A case is a start (NewSet n / a Set restored from a given JSON snapshot / the
    zero value), the operations applied with the result the IMPLEMENTATION returned
    for each, and the implementation's final snapshot (MarshalJSON output decoded
    field by field).  After a [OJson] operation the harness continues with the Set
    it obtained from UnmarshalJSON, so later results test the restored Set. *)
From Akita Require Import Lib.Base C28.Model C28.Spec.
Local Open Scope Z_scope.

Inductive start := SNew (n : Z) | SJson (d : dto) | SZero.

Record case := mk_case {
  c_start : start;
  c_init_ok : bool;              (* observed: constructing the start did not panic *)
  c_trace : list (op * out);     (* operation, observed result *)
  c_final : option dto }.        (* observed final snapshot (None iff no Set) *)

(** ** exact equality of observables *)
Definition kv_eqb (a b : key * Z) : bool := listN_eqb (fst a) (fst b) && (snd a =? snd b).

Definition dto_eqb (a b : dto) : bool :=
  (d_wc a =? d_wc b) &&
  opt_eqb (list_eqb Z.eqb) (d_vl a) (d_vl b) &&
  (d_vc a =? d_vc b)%N &&
  opt_eqb listN_eqb (d_lv a) (d_lv b) &&
  opt_eqb (list_eqb kv_eqb) (d_km a) (d_km b).

Definition out_eqb (a b : out) : bool :=
  match a, b with
  | RLookup w f, RLookup w' f' => (w =? w') && Bool.eqb f f'
  | RDone, RDone => true
  | RPanic, RPanic => true
  | RNoFuel, RNoFuel => true
  | REvict w f, REvict w' f' => (w =? w') && Bool.eqb f f'
  | RJson d, RJson d' => dto_eqb d d'
  | RKey k, RKey k' => listN_eqb k k'
  | _, _ => false
  end.

(** ** the code model on the case's input *)
Definition init_state (st : start) : option set :=
  match st with
  | SNew n => new_set n
  | SJson d => Some (unmarshal d)
  | SZero => Some zero_set
  end.

(** model output = implementation output, exactly, result by result, and the final
    snapshots agree field by field (null-vs-empty included) *)
Definition check_case (c : case) : bool :=
  match init_state (c_start c) with
  | None =>
      negb (c_init_ok c) &&
      match c_trace c with [] => true | _ => false end &&
      match c_final c with None => true | Some _ => false end
  | Some s =>
      c_init_ok c &&
      let '(s', outs) := run s (map fst (c_trace c)) in
      list_eqb out_eqb outs (map snd (c_trace c)) &&
      opt_eqb dto_eqb (Some (marshal s')) (c_final c)
  end.

(** ** the property itself on the observed behaviour *)

(** The statement quantifies over Sets made by NewSet.  A Set restored from a
    snapshot is in its domain when the snapshot is one a NewSet history can produce:
    this is the representation invariant, decided on the snapshot. *)
Fixpoint strictly_increasing (l : list N) : bool :=
  match l with
  | [] => true
  | x :: r => (match r with [] => true | y :: _ => (x <? y)%N end) && strictly_increasing r
  end.

Fixpoint all_some {A} (l : list (option A)) : option (list A) :=
  match l with
  | [] => Some []
  | Some x :: r => match all_some r with Some r' => Some (x :: r') | None => None end
  | None :: _ => None
  end.

Definition snapshot_in_domain (d : dto) (ops : list op) : bool :=
  let l := olist (d_vl d) in
  let lvs := olist (d_lv d) in
  (0 <=? d_wc d) &&
  (zlen lvs =? d_wc d) &&
  forallb (fun t => (t <=? d_vc d)%N) lvs &&
  match all_some (map (zget lvs) l) with
  | Some ts => strictly_increasing ts
  | None => false
  end &&
  (d_vc d + count_visits ops <? two64)%N.

Definition r_of_snapshot (d : dto) : rset :=
  mk_rset (d_wc d) (olist (d_vl d)) (rev (olist (d_km d))).

Definition holds_from (r : rset) (c : case) : bool :=
  c_init_ok c &&
  let '(r', ok) := r_run r (c_trace c) in
  ok && match c_final c with Some d => r_snapshot_ok r' d | None => false end.

Definition holds_on (c : case) : bool :=
  match c_start c with
  | SNew n =>
      if n <? 0 then negb (c_init_ok c)     (* a negative way count is rejected *)
      else holds_from (r_new n) c
  | SJson d =>
      if snapshot_in_domain d (map fst (c_trace c))
      then holds_from (r_of_snapshot d) c
      else true                              (* not a snapshot of any NewSet history *)
  | SZero => true                            (* the zero value is not made by NewSet *)
  end.
