(** C31 — model of noc/networking/switching/endpoint: outgoingmw.go
    (msgMetaToFlits, sendFlitOut, prepareMsg, prepareFlits) and incomingmw.go
    (recv, assemble, tryDeliver).

    Port names and traffic-class strings are interned as numbers by the harness.
    [TrafficBytes] and the flit size are Go [int]s (Z).  The encoding overhead is
    a float64; the model takes a dyadic rational [ov_num / 2^ov_exp] and computes
    [ceil (bytes * overhead)] exactly, which is what float64 arithmetic yields
    whenever [bytes * ov_num < 2^53] (the harness only generates such inputs). *)
From Akita Require Import Lib.Base.
Local Open Scope Z_scope.

Record meta := mk_meta {
  m_id : N; m_src : N; m_dst : N; m_rspto : N; m_class : N; m_bytes : Z }.

(** a flit as far as the endpoint is concerned (its own ID is a fresh number) *)
Record flit := mk_flit {
  f_src : N;           (* network port of the sending endpoint *)
  f_dst : N;           (* default switch port *)
  f_seq : Z; f_num : Z;
  f_msg : meta }.

Record spec := mk_spec {
  s_flit : Z;          (* FlitByteSize *)
  s_ov_num : N; s_ov_exp : N;   (* EncodingOverhead = s_ov_num / 2^s_ov_exp *)
  s_nin : nat; s_nout : nat;    (* NumInputChannels / NumOutputChannels *)
  s_netport : N; s_swdst : N }.

(** [int(math.Ceil(float64(b) * overhead))] for b > 0 *)
Definition overhead_bytes (sp : spec) (b : Z) : Z :=
  let d := 2 ^ Z.of_N (s_ov_exp sp) in
  (b * Z.of_N (s_ov_num sp) + d - 1) / d.

Definition encoded_bytes (sp : spec) (b : Z) : Z := b + overhead_bytes sp b.

(** [msgMetaToFlits]: the flit count.  [None] = run-time panic (integer
    division by zero for a zero flit size, negative [make] length). *)
Definition num_flits (sp : spec) (b : Z) : option Z :=
  if 0 <? b then
    if s_flit sp =? 0 then None
    else let n := Z.quot (encoded_bytes sp b - 1) (s_flit sp) + 1 in
         if n <? 0 then None else Some n
  else Some 1.

Definition copy_meta (m : meta) : meta :=
  mk_meta (m_id m) (m_src m) (m_dst m) (m_rspto m) (m_class m) (m_bytes m).

Definition msg_to_flits (sp : spec) (m : meta) : option (list flit) :=
  match num_flits sp (m_bytes m) with
  | Some n => Some (map (fun i => mk_flit (s_netport sp) (s_swdst sp) (Z.of_nat i) n (copy_meta m))
                        (seq 0 (Z.to_nat n)))
  | None => None
  end.

(** ** the outgoing middleware *)

Definition max_msg_out_buf : nat := 16.
Definition max_flits_to_buffer : nat := 64.

Record out_state := mk_out {
  o_msgs : list meta;        (* State.MsgOutBuf *)
  o_flits : list flit }.     (* State.FlitsToSend *)

(** [sendFlitOut]: at most NumOutputChannels flits, while the network port can
    send ([free] = free slots of its outgoing buffer).  Returns the flits sent. *)
Definition send_flit_out (sp : spec) (free : nat) (st : out_state) : out_state * list flit :=
  let n := Nat.min (Nat.min (s_nout sp) free) (length (o_flits st)) in
  (mk_out (o_msgs st) (skipn n (o_flits st)), firstn n (o_flits st)).

(** [prepareMsg]: one message from every device port that has one, in port
    order, until MsgOutBuf holds 16.  [devq] = outgoing buffers of the device ports. *)
Fixpoint prepare_msg (msgs : list meta) (devq : list (list meta)) : list meta * list (list meta) :=
  match devq with
  | [] => (msgs, [])
  | q :: r =>
      if (max_msg_out_buf <=? length msgs)%nat then (msgs, devq)
      else match q with
           | [] => let '(ms, r') := prepare_msg msgs r in (ms, [] :: r')
           | m :: q' => let '(ms, r') := prepare_msg (msgs ++ [m]) r in (ms, q' :: r')
           end
  end.

(** [prepareFlits]: convert buffered messages while FlitsToSend holds < 64 *)
Fixpoint prepare_flits (sp : spec) (msgs : list meta) (flits : list flit) : option (list meta * list flit) :=
  match msgs with
  | [] => Some ([], flits)
  | m :: r =>
      if (max_flits_to_buffer <=? length flits)%nat then Some (msgs, flits)
      else match msg_to_flits sp m with
           | Some fs => prepare_flits sp r (flits ++ fs)
           | None => None
           end
  end.

(** one Tick of the outgoing middleware *)
Definition out_tick (sp : spec) (free : nat) (st : out_state) (devq : list (list meta))
  : option (out_state * list (list meta) * list flit) :=
  let '(st1, sent) := send_flit_out sp free st in
  let '(msgs, devq') := prepare_msg (o_msgs st1) devq in
  match prepare_flits sp msgs (o_flits st1) with
  | Some (msgs', flits') => Some (mk_out msgs' flits', devq', sent)
  | None => None
  end.

(** ** the incoming middleware *)

Record entry := mk_entry {
  e_id : N; e_meta : meta; e_req : Z; e_arr : Z }.

Record in_state := mk_in {
  i_asm : list entry;        (* State.AssemblingMsgs *)
  i_done : list meta }.      (* State.AssembledMsgs *)

(** [recv] of one flit: bump the first entry with the message's ID, else append *)
Fixpoint bump (l : list entry) (id : N) : option (list entry) :=
  match l with
  | [] => None
  | e :: r =>
      if (e_id e =? id)%N then Some (mk_entry (e_id e) (e_meta e) (e_req e) (e_arr e + 1) :: r)
      else match bump r id with Some r' => Some (e :: r') | None => None end
  end.

Definition recv_flit (l : list entry) (f : flit) : list entry :=
  match bump l (m_id (f_msg f)) with
  | Some l' => l'
  | None => l ++ [mk_entry (m_id (f_msg f)) (copy_meta (f_msg f)) (f_num f) 1]
  end.

(** [recv]: at most NumInputChannels flits from the network port's incoming buffer *)
Definition recv (sp : spec) (st : in_state) (netq : list flit) : in_state * list flit :=
  let n := Nat.min (s_nin sp) (length netq) in
  (mk_in (fold_left recv_flit (firstn n netq) (i_asm st)) (i_done st), skipn n netq).

Definition complete (e : entry) : bool := negb (e_arr e <? e_req e).

(** [assemble]: complete entries move (in order) to AssembledMsgs *)
Definition assemble (st : in_state) : in_state :=
  mk_in (filter (fun e => negb (complete e)) (i_asm st))
        (i_done st ++ map e_meta (filter complete (i_asm st))).

(** [tryDeliver]: in order; a message whose destination is not one of the device
    ports panics; a full device port blocks everything behind it.
    [ports] = (name, free incoming slots) of every device port. *)
Fixpoint find_port (ports : list (N * nat)) (dst : N) (i : nat) : option nat :=
  match ports with
  | [] => None
  | (name, _) :: r => if (name =? dst)%N then Some i else find_port r dst (S i)
  end.

Definition dec_free (ports : list (N * nat)) (i : nat) : list (N * nat) :=
  map (fun ip => if (fst ip =? i)%nat then (fst (snd ip), pred (snd (snd ip))) else snd ip)
      (combine (seq 0 (length ports)) ports).

Fixpoint try_deliver (done : list meta) (ports : list (N * nat))
  : option (list meta * list (N * nat) * list (nat * meta)) :=
  match done with
  | [] => Some ([], ports, [])
  | m :: r =>
      match find_port ports (m_dst m) 0 with
      | None => None
      | Some i =>
          if (snd (nth i ports (0%N, O)) =? 0)%nat then Some (done, ports, [])
          else match try_deliver r (dec_free ports i) with
               | Some (rest, ports', dl) => Some (rest, ports', (i, m) :: dl)
               | None => None
               end
      end
  end.

(** one Tick of the incoming middleware: tryDeliver, assemble, recv *)
Definition in_tick (sp : spec) (st : in_state) (ports : list (N * nat)) (netq : list flit)
  : option (in_state * list (N * nat) * list flit * list (nat * meta)) :=
  match try_deliver (i_done st) ports with
  | None => None
  | Some (rest, ports', dl) =>
      let st1 := assemble (mk_in (i_asm st) rest) in
      let '(st2, netq') := recv sp st1 netq in
      Some (st2, ports', netq', dl)
  end.
